/-
SpellSimN2 — the simulation statements of the action side UP TO THE `omitted` FLAG of slice steps
(`normSt` of SpellNormDefs), base part: the structure `SimG`, its combinators, the conversions from the
exact simulations of phase 1 (`Sim`, `SimFrom`, `Sim0`), the one new leaf (a subscript `[1:2:]`, whose
machine item differs from the item of `Build` in that flag: `execFrom_norm_congr`), unions and plain steps
without the `noColon` hypothesis, and the non-recursive lemmas of SpellActQ/SpellSim0 restated for `SimG`.

`SimG z`: both sides of every equation of `SimFrom`/`Sim0` under `Except.map normSt`;
  `z = false`: on a stack `pre ++ stk` with `stk ≠ []` (as `SimFrom`),
  `z = true` : on the stack `pre` with nothing below and nothing saved (as `Sim0`; the leftmost constructs of
               the filter that is the first step of a `$`-less path).
-/
import JPV.Lemmas.SpellSim0
import JPV.Lemmas.SpellNorm
set_option linter.unusedSimpArgs false
namespace JPV.SP
open JPV.Peg JPV.PP JPV.Lex JPV.Build
open JPV.Print (fnText fnsText opText escRegex headChar)
open JPV.Spell (Quote Sign SInt STail SSub SName Cap SLit ChildForm WildForm Sep SStep SQuery SOperand SOpPath SPath
  optTxt tailP subP keyBody nameP sepP sepsP brP litP childP wildP escLitQ)

/-! ### the structure -/

/-- what is below the items at hand -/
def FrOK (z : Bool) (stk : List Item) (sv : List (List Item)) : Prop :=
  match z with
  | true => stk = [] ∧ sv = []
  | false => stk ≠ []

theorem frOK_false {stk : List Item} {sv : List (List Item)} (h : stk ≠ []) : FrOK false stk sv := h

theorem frOK_true : FrOK true [] [] := ⟨rfl, rfl⟩

/-- `SimFrom` (`z = false`) / `Sim0` (`z = true`) up to `normSt` -/
structure SimG {α : Type} (z : Bool) (c : Ctx) (toks : List Tok) (pre : List Item) (items : α → List Item)
    (b : Except ParseErr α) (pos : Nat) : Prop where
  ok : ∀ v, b = .ok v → ∀ (stk : List Item) (sv : List (List Item)) (rt : Option (List N)) (tb te : Nat),
    FrOK z stk sv → ∃ tb' te', ∀ rest,
      Except.map normSt (execFrom c ⟨pre ++ stk, sv, rt, tb, te⟩ (toks ++ rest)) =
        Except.map normSt (execFrom c ⟨items v ++ stk, sv, rt, tb', te'⟩ rest)
  err : ∀ e, b = .error e → ∀ (stk : List Item) (sv : List (List Item)) (rt : Option (List N)) (tb te : Nat),
    FrOK z stk sv → ∀ rest,
      Except.map normSt (execFrom c ⟨pre ++ stk, sv, rt, tb, te⟩ (toks ++ rest)) = .error (stopOf pos e)

theorem map_error (x : Stop) : Except.map normSt (Except.error x : M St) = .error x := rfl

/-! ### conversions from the exact simulations -/

theorem simFrom_toG {α : Type} {c : Ctx} {toks : List Tok} {pre : List Item} {items : α → List Item}
    {b : Except ParseErr α} {pos : Nat} (h : SimFrom c toks pre items b pos) : SimG false c toks pre items b pos := by
  constructor
  · intro v hv stk sv rt tb te hne
    obtain ⟨tb', te', h1⟩ := h.ok v hv stk sv rt tb te hne
    exact ⟨tb', te', fun rest => by rw [h1]⟩
  · intro e he stk sv rt tb te hne rest
    rw [h.err e he stk sv rt tb te hne rest]
    rfl

theorem sim_toG {α : Type} {c : Ctx} {toks : List Tok} {items : α → List Item}
    {b : Except ParseErr α} {pos : Nat} (h : Sim c toks items b pos) : SimG false c toks [] items b pos :=
  simFrom_toG h.toFrom

theorem sim0_toG {α : Type} {c : Ctx} {toks : List Tok} {pre : List Item} {items : α → List Item}
    {b : Except ParseErr α} {pos : Nat} (h : Sim0 c toks pre items b pos) : SimG true c toks pre items b pos := by
  constructor
  · intro v hv stk sv rt tb te hfr
    obtain ⟨rfl, rfl⟩ := hfr
    obtain ⟨tb', te', h1⟩ := h.ok v hv rt tb te
    refine ⟨tb', te', fun rest => ?_⟩
    simp only [List.append_nil]
    rw [h1]
  · intro e he stk sv rt tb te hfr rest
    obtain ⟨rfl, rfl⟩ := hfr
    simp only [List.append_nil]
    rw [h.err e he rt tb te rest]
    rfl

/-- a stage that holds in both settings -/
theorem stageG {α : Type} {c : Ctx} {toks : List Tok} {pre : List Item} {items : α → List Item}
    {b : Except ParseErr α} {pos : Nat} (z : Bool) (h1 : SimFrom c toks pre items b pos)
    (h0 : Sim0 c toks pre items b pos) : SimG z c toks pre items b pos := by
  cases z
  · exact simFrom_toG h1
  · exact sim0_toG h0

/-! ### accessors with clean statements -/

/-- `z = false`, nothing replaced: the statement of `Sim.ok` under `normSt` -/
theorem SimG.okN {α : Type} {c : Ctx} {toks : List Tok} {items : α → List Item} {b : Except ParseErr α}
    {pos : Nat} (h : SimG false c toks [] items b pos) (v : α) (hv : b = .ok v) (stk : List Item)
    (sv : List (List Item)) (rt : Option (List N)) (tb te : Nat) (hne : stk ≠ []) :
    ∃ tb' te', ∀ rest, Except.map normSt (execFrom c ⟨stk, sv, rt, tb, te⟩ (toks ++ rest)) =
      Except.map normSt (execFrom c ⟨items v ++ stk, sv, rt, tb', te'⟩ rest) :=
  h.ok v hv stk sv rt tb te hne

theorem SimG.errN {α : Type} {c : Ctx} {toks : List Tok} {items : α → List Item} {b : Except ParseErr α}
    {pos : Nat} (h : SimG false c toks [] items b pos) (e : ParseErr) (he : b = .error e) (stk : List Item)
    (sv : List (List Item)) (rt : Option (List N)) (tb te : Nat) (hne : stk ≠ []) (rest : List Tok) :
    Except.map normSt (execFrom c ⟨stk, sv, rt, tb, te⟩ (toks ++ rest)) = .error (stopOf pos e) :=
  h.err e he stk sv rt tb te hne rest

/-- `z = true`: the statement of `Sim0.ok` under `normSt` -/
theorem SimG.ok0 {α : Type} {c : Ctx} {toks : List Tok} {pre : List Item} {items : α → List Item}
    {b : Except ParseErr α} {pos : Nat} (h : SimG true c toks pre items b pos) (v : α) (hv : b = .ok v)
    (rt : Option (List N)) (tb te : Nat) :
    ∃ tb' te', ∀ rest, Except.map normSt (execFrom c ⟨pre, [], rt, tb, te⟩ (toks ++ rest)) =
      Except.map normSt (execFrom c ⟨items v, [], rt, tb', te'⟩ rest) := by
  obtain ⟨tb', te', h1⟩ := h.ok v hv [] [] rt tb te frOK_true
  refine ⟨tb', te', fun rest => ?_⟩
  have := h1 rest
  simpa only [List.append_nil] using this

theorem SimG.err0 {α : Type} {c : Ctx} {toks : List Tok} {pre : List Item} {items : α → List Item}
    {b : Except ParseErr α} {pos : Nat} (h : SimG true c toks pre items b pos) (e : ParseErr) (he : b = .error e)
    (rt : Option (List N)) (tb te : Nat) (rest : List Tok) :
    Except.map normSt (execFrom c ⟨pre, [], rt, tb, te⟩ (toks ++ rest)) = .error (stopOf pos e) := by
  have := h.err e he [] [] rt tb te frOK_true rest
  simpa only [List.append_nil] using this

/-! ### combinators -/

/-- a simulation on non-empty stacks leaves what is below untouched; below `pre ≠ []` anything goes -/
theorem SimG.frame {α : Type} {c : Ctx} {toks : List Tok} {items : α → List Item} {b : Except ParseErr α}
    {pos : Nat} (h : SimG false c toks [] items b pos) (z : Bool) (pre : List Item) (hpre : pre ≠ []) :
    SimG z c toks pre (fun v => items v ++ pre) b pos := by
  constructor
  · intro v hv stk sv rt tb te _
    obtain ⟨tb', te', h1⟩ := h.okN v hv (pre ++ stk) sv rt tb te (by simp [hpre])
    exact ⟨tb', te', fun rest => by rw [h1, List.append_assoc]⟩
  · intro e he stk sv rt tb te _
    exact h.errN e he (pre ++ stk) sv rt tb te (by simp [hpre])

/-- sequential composition = `bind` of `Build` -/
theorem SimG.seq {α β : Type} {z : Bool} {c : Ctx} {t1 t2 : List Tok} {pre : List Item} {i1 : α → List Item}
    {i2 : β → List Item} {b1 : Except ParseErr α} {f : α → Except ParseErr β} {pos1 pos2 : Nat}
    (h1 : SimG z c t1 pre i1 b1 pos1) (h2 : ∀ a, b1 = .ok a → SimG z c t2 (i1 a) i2 (f a) pos2) :
    SimG z c (t1 ++ t2) pre i2 (b1 >>= f) (seqPos b1 pos1 pos2) := by
  cases b1 with
  | error e0 =>
    constructor
    · intro v hv; cases hv
    · intro e he stk sv rt tb te hne
      cases he
      have h3 := h1.err e0 rfl stk sv rt tb te hne
      exact fun rest => by rw [List.append_assoc, h3]; rfl
  | ok a =>
    constructor
    · intro v hv stk sv rt tb te hne
      obtain ⟨tb1, te1, h3⟩ := h1.ok a rfl stk sv rt tb te hne
      obtain ⟨tb2, te2, h4⟩ := (h2 a rfl).ok v hv stk sv rt tb1 te1 hne
      exact ⟨tb2, te2, fun rest => by rw [List.append_assoc, h3, h4]⟩
    · intro e he stk sv rt tb te hne
      obtain ⟨tb1, te1, h3⟩ := h1.ok a rfl stk sv rt tb te hne
      have h4 := (h2 a rfl).err e he stk sv rt tb1 te1 hne
      exact fun rest => by rw [List.append_assoc, h3, h4]; rfl

theorem SimG.cast {α : Type} {z : Bool} {c : Ctx} {t t' : List Tok} {pre : List Item} {i i' : α → List Item}
    {b b' : Except ParseErr α} {pos pos' : Nat} (h : SimG z c t pre i b pos) (ht : t = t') (hi : i = i')
    (hb : b = b') (hp : pos = pos') : SimG z c t' pre i' b' pos' := by
  subst ht; subst hi; subst hb; subst hp; exact h

/-- from a run that is exact on EVERY stack -/
theorem SimG.of_exec {α : Type} (z : Bool) {c : Ctx} {toks : List Tok} {items : α → List Item} {v : α} {pos : Nat}
    (h : ∀ (stk : List Item) (sv : List (List Item)) (rt : Option (List N)) (tb te : Nat), ∃ tb' te', ∀ rest,
      Except.map normSt (execFrom c ⟨stk, sv, rt, tb, te⟩ (toks ++ rest)) =
        Except.map normSt (execFrom c ⟨items v ++ stk, sv, rt, tb', te'⟩ rest)) :
    SimG z c toks [] items (.ok v) pos := by
  constructor
  · intro v' hv stk sv rt tb te _
    cases hv
    exact h stk sv rt tb te
  · intro e he; cases he

/-! ### the stages of ParsePrintActQ / SpellSim0 in both settings -/

theorem stage37G (z : Bool) (c : Ctx) (h : Head) (ch : List N) (p e : Nat) :
    SimG z c [.text p e, .action 37] [Item.bool (decide (h = .root)), Item.query (.exist (headP h ch))]
      (fun x : P => [Item.cp x])
      (if (true && chainVg ch) = true then .error .valueGroupOperand else .ok (headP h ch)) p :=
  stageG z (stage37 c h ch p e) (stage37_0 c h ch p e)

theorem stage27G (z : Bool) (c : Ctx) (neg b : Bool) (Q0 : Q) {p : Nat} {s r : List Char} (c0 : Char) (s' : List Char)
    (hs : s = c0 :: s') (hc : (c0 == '!') = neg) (h : Sfx c.input p (s ++ r)) {pos : Nat} :
    SimG z c [.text p (p + s.length), .action 27] [Item.bool b, Item.query Q0] (fun q' : Q => [Item.query q'])
      (.ok (if neg then .not Q0 else Q0)) pos :=
  stageG z (stage27 c neg b Q0 c0 s' hs hc h) (stage27_0 c neg b Q0 c0 s' hs hc h)

theorem stageCmpG (z : Bool) (c : Ctx) (op : CmpOp) (a b : P) (p e : Nat) :
    SimG z c [.action (opAction op), .text p e, .action 26] [Item.cp b, Item.cp a] (fun q : Q => [Item.query q])
      (if (isCur a && isCur b) = true then .error .twoCurrentNodes else .ok (mkCmp op a b)) p :=
  stageG z (stageCmp c op a b p e) (stageCmp_0 c op a b p e)

theorem stage34G (z : Bool) (c : Ctx) (re : String) (hc : c.ext.regexCompile re = .ok) (x : P) {p3 : Nat}
    {r : List Char} (h : Sfx c.input p3 (re.toList ++ r)) (p e : Nat) {pos : Nat} :
    SimG z c [.text p3 (p3 + re.toList.length), .action 34, .text p e, .action 26] [Item.cp x]
      (fun q : Q => [Item.query q]) (.ok (.cmp x (.lit (.str "regex")) (.regex re))) pos :=
  stageG z (stage34 c re hc x h p e) (stage34_0 c re hc x h p e)

theorem stage24G (z : Bool) (c : Ctx) (lq rq : Q) {pos : Nat} :
    SimG z c [.action 24] [Item.query rq, Item.query lq] (fun q : Q => [Item.query q]) (.ok (.or lq rq)) pos :=
  stageG z (stage24 c lq rq) (stage24_0 c lq rq)

theorem stage25G (z : Bool) (c : Ctx) (lq rq : Q) {pos : Nat} :
    SimG z c [.action 25] [Item.query rq, Item.query lq] (fun q : Q => [Item.query q]) (.ok (.and lq rq)) pos :=
  stageG z (stage25 c lq rq) (stage25_0 c lq rq)

theorem stage23G (z : Bool) (c : Ctx) (q' : Q) {p : Nat} {s r : List Char} (h : Sfx c.input p (s ++ r)) {pos : Nat} :
    SimG z c [.action 23, .text p (p + s.length), .action 7] [Item.query q']
      (fun pres : List Pre => [Item.chain (pres.map (rawOf c.acc))])
      (.ok [.node (String.ofList s) true (fun i => .filter i q')]) pos :=
  stageG z (stage23 c q' h) (stage23_0 c q' h)

/-! ### subscripts, `[1:2:]` included -/

/-- the machine on `[s:e:]`: the step of the slice is `⟨1, omitted := true⟩` -/
theorem exec_sub_colon (c : Ctx) (k : Nat) (s : Option SInt) (b1 a1 : Nat) (e : Option SInt) (b a : Nat)
    (hs : subOKS c.ext (.slice s b1 a1 e (.colon b a))) (hw : (SSub.slice s b1 a1 e (.colon b a)).wf = true)
    {p : Nat} {r : List Char} (h : Sfx c.input p (subP (.slice s b1 a1 e (.colon b a)) ++ r)) (stk : List Item)
    (sv : List (List Item)) (rt : Option (List N)) (tb te : Nat) :
    ∃ tb' te', ∀ rest, execFrom c ⟨stk, sv, rt, tb, te⟩ (tkSubS k p (.slice s b1 a1 e (.colon b a)) ++ rest) =
      execFrom c ⟨.chain [.union (mkInfo c "" true)
        [.slicePos (Build.bound (Spell.optVal s)) (Build.bound (Spell.optVal e)) ⟨1, true⟩]] :: stk,
        sv, rt, tb', te'⟩ rest := by
  obtain ⟨hos, hoe, hot⟩ := hs
  have hw' : Spell.optWf s = true ∧ Spell.optWf e = true := by
    simp only [Spell.SSub.wf, Bool.and_eq_true] at hw
    exact ⟨hw.1.1.1.1, hw.1.1.1.2⟩
  obtain ⟨hws, hwe⟩ := hw'
  simp only [subP, tailP, List.append_assoc, List.cons_append] at h
  simp only [tailOKS] at hot
  have he : Sfx c.input (sliceP1 p s b1 a1) (optTxt e ++ (Spell.blanks b ++ ':' :: (Spell.blanks a ++ r))) :=
    sfx_cast (h.append.append.tail.append) (by simp only [sliceP1, blanks_length])
  have ht : Sfx c.input (sliceP2 p s b1 a1 e b a) (optTxt none ++ r) :=
    sfx_cast (he.append.append.tail.append) (by simp only [sliceP2, blanks_length])
  obtain ⟨tb1, te1, h1⟩ := exec_optS c s hos hws b1 h stk sv rt tb te
  obtain ⟨tb2, te2, h2⟩ := exec_optS c e hoe hwe b he (.idx (Build.bound (Spell.optVal s)) :: stk) sv rt tb1 te1
  obtain ⟨tb3, te3, h3⟩ := exec_optS c none hot rfl k ht
    (.idx (Build.bound (Spell.optVal e)) :: .idx (Build.bound (Spell.optVal s)) :: stk) sv rt tb2 te2
  refine ⟨tb3, te3, fun rest => ?_⟩
  simp only [tkSubS, tkSliceS, List.append_assoc, List.cons_append, List.nil_append]
  rw [h1, h2, h3]
  simp [execFrom_action, act, act16, act19, push, pop, asIdx, asSubscript, bind, Except.bind, Build.bound,
    Spell.optVal]

/-- `index`, up to the flag: the item of `Build` -/
theorem exec_subN (c : Ctx) (k : Nat) (s : SSub) (hs : subOKS c.ext s) (hw : s.wf = true)
    {p : Nat} {r : List Char} (h : Sfx c.input p (subP s ++ r)) (stk : List Item) (sv : List (List Item))
    (rt : Option (List N)) (tb te : Nat) :
    ∃ tb' te', ∀ rest, Except.map normSt (execFrom c ⟨stk, sv, rt, tb, te⟩ (tkSubS k p s ++ rest)) =
      Except.map normSt (execFrom c ⟨.chain [.union (mkInfo c "" (Build.subVg s.erase)) [Build.subI s.erase]] :: stk,
        sv, rt, tb', te'⟩ rest) := by
  by_cases hnc : s.noColon = true
  · obtain ⟨tb', te', h1⟩ := exec_subS c k s hs hw hnc h stk sv rt tb te
    exact ⟨tb', te', fun rest => by rw [h1]⟩
  · cases s with
    | idx n => exact absurd rfl hnc
    | wild => exact absurd rfl hnc
    | slice s b1 a1 e t =>
      cases t with
      | absent => exact absurd rfl hnc
      | step b a t => exact absurd rfl hnc
      | colon b a =>
        obtain ⟨tb', te', h1⟩ := exec_sub_colon c k s b1 a1 e b a hs hw h stk sv rt tb te
        refine ⟨tb', te', fun rest => ?_⟩
        rw [h1]
        apply execFrom_norm_congr
        simp [normSt, normItem, normCh, normN, normSub, normBound, Spell.SSub.erase, Spell.STail.erase,
          Build.subI, Build.subVg]

/-! ### `union` -/

theorem sepVals_cons' {α β : Type} (f : α → β) (x : Sep α) (xs : List (Sep α)) :
    Spell.sepVals f (x :: xs) = f x.2.2 :: Spell.sepVals f xs := rfl

theorem sepVals_nil' {α β : Type} (f : α → β) : Spell.sepVals f ([] : List (Sep α)) = [] := rfl

/-- the loop `(sep index {15})*` with the union collected so far on the stack -/
theorem exec_union_tailN (c : Ctx) (rb : Nat) (stk : List Item) (sv : List (List Item)) (rt : Option (List N)) :
    ∀ (ss : List (Sep SSub)) (q : Nat) (r : List Char) (i : Info) (subs : List SubI) (tb te : Nat),
      (∀ x ∈ ss, subOKS c.ext x.2.2 ∧ x.2.2.wf = true) →
      Sfx c.input q (sepsP subP ss ++ r) →
      ∃ tb' te', ∀ rest,
        Except.map normSt (execFrom c ⟨.chain [.union i subs] :: stk, sv, rt, tb, te⟩
          (tkSepsS subP tkSubS 15 rb ss q ++ rest)) =
        Except.map normSt (execFrom c ⟨.chain [.union (if ss.isEmpty then i else { i with vg := true })
          (subs ++ (Spell.sepVals SSub.erase ss).map Build.subI)] :: stk, sv, rt, tb', te'⟩ rest) := by
  intro ss
  induction ss with
  | nil =>
    intro q r i subs tb te _ _
    exact ⟨tb, te, fun rest => by simp [tkSepsS, sepVals_nil']⟩
  | cons x xs ih =>
    intro q r i subs tb te hok h
    obtain ⟨b, a, s⟩ := x
    simp only [sepsP, sepP, List.cons_append, List.append_assoc] at h
    obtain ⟨hs1, hs2⟩ := hok (b, a, s) (by simp)
    have hx : Sfx c.input (q + b + 1 + a) (subP s ++ (sepsP subP xs ++ r)) :=
      sfx_cast (h.append.tail.append) (by simp only [blanks_length])
    obtain ⟨tb1, te1, h1⟩ := exec_subN c (nextB rb xs) s hs1 hs2 hx (.chain [.union i subs] :: stk) sv rt tb te
    have h2 : Sfx c.input (q + (sepP subP (b, a, s)).length) (sepsP subP xs ++ r) :=
      sfx_cast (hx.append) (by
        simp only [sepP, List.length_append, List.length_cons, blanks_length]; omega)
    obtain ⟨tb2, te2, h3⟩ := ih (q + (sepP subP (b, a, s)).length) r { i with vg := true }
      (subs ++ [Build.subI s.erase]) tb1 te1 (fun y hy => hok y (by simp [hy])) h2
    refine ⟨tb2, te2, fun rest => ?_⟩
    simp only [tkSepsS, tkSepS, List.append_assoc, List.cons_append, List.nil_append]
    rw [h1, execFrom_action_ok c _ _ 15 _ (by simp [act, act15, pop, push, asUnion, bind, Except.bind]; rfl), h3]
    cases xs <;> simp [sepVals_cons']

theorem exec_unionN (c : Ctx) (rb : Nat) (s : SSub) (ss : List (Sep SSub))
    (hok : subOKS c.ext s ∧ s.wf = true)
    (hoks : ∀ x ∈ ss, subOKS c.ext x.2.2 ∧ x.2.2.wf = true) {p : Nat} {r : List Char}
    (h : Sfx c.input p (subP s ++ (sepsP subP ss ++ r))) (stk : List Item) (sv : List (List Item))
    (rt : Option (List N)) (tb te : Nat) :
    ∃ tb' te', ∀ rest, Except.map normSt (execFrom c ⟨stk, sv, rt, tb, te⟩ (tkUnionS rb p s ss ++ rest)) =
      Except.map normSt (execFrom c ⟨.chain [.union (mkInfo c "" (unionVg (s.erase :: Spell.sepVals SSub.erase ss)))
        ((s.erase :: Spell.sepVals SSub.erase ss).map Build.subI)] :: stk, sv, rt, tb', te'⟩ rest) := by
  obtain ⟨tb1, te1, h1⟩ := exec_subN c (nextB rb ss) s hok.1 hok.2 h stk sv rt tb te
  obtain ⟨tb2, te2, h2⟩ := exec_union_tailN c rb stk sv rt ss (p + (subP s).length) r
    (mkInfo c "" (Build.subVg s.erase)) [Build.subI s.erase] tb1 te1 hoks h.append
  refine ⟨tb2, te2, fun rest => ?_⟩
  simp only [tkUnionS, List.append_assoc]
  rw [h1, h2]
  cases ss <;> simp [mkInfo, unionVg, sepVals_cons', sepVals_nil']

theorem exec_step_unionN (c : Ctx) (ad : Bool) (lb : Nat) (s : SSub) (ss : List (Sep SSub)) (rb : Nat)
    (hwf : Spell.stepWf ad (.union lb s ss rb) = true) (hok : stepExtS c.ext (.union lb s ss rb))
    {p : Nat} {r : List Char} (h : Sfx c.input p (Spell.step ad (.union lb s ss rb) ++ r))
    (stk : List Item) (sv : List (List Item)) (rt : Option (List N)) (tb te : Nat) :
    ∃ tb' te', ∀ rest, Except.map normSt (execFrom c ⟨stk, sv, rt, tb, te⟩ (tkStepS ad p (.union lb s ss rb) ++ rest)) =
      Except.map normSt (execFrom c ⟨.chain (rawT c.acc (Spell.stepT true ad (.union lb s ss rb))) :: stk,
        sv, rt, tb', te'⟩ rest) := by
  rw [stepExtS] at hok
  have hwf' : s.wf = true ∧ ∀ x ∈ ss, x.2.2.wf = true := by
    simp only [Spell.stepWf, Bool.and_eq_true, List.all_eq_true] at hwf
    exact ⟨hwf.1.1, hwf.1.2⟩
  have h1 : Sfx c.input (p + 1 + lb) (subP s ++ (sepsP subP ss ++ (Spell.blanks rb ++ (']' :: r)))) := by
    have := h
    simp only [Spell.step, brP, List.cons_append, List.append_assoc, List.nil_append] at this
    exact sfx_cast (this.tail.append) (by simp only [blanks_length])
  obtain ⟨tb1, te1, h2⟩ := exec_unionN c rb s ss ⟨hok.1, hwf'.1⟩
    (fun x hx => ⟨hok.2 x hx, hwf'.2 x hx⟩) h1 stk sv rt tb te
  refine ⟨p, p + (Spell.step ad (.union lb s ss rb)).length, fun rest => ?_⟩
  simp only [tkStepS, List.append_assoc, List.cons_append, List.nil_append]
  rw [h2, exec_setText c 7 (.inr rfl) _ _ h]
  rw [Spell.stepT]
  rfl

/-- a step that is neither `..` nor a filter, on ANY stack -/
theorem exec_step_plainN (c : Ctx) (ad : Bool) (s : SStep) (hp : isPlainStep s = true)
    (hwf : Spell.stepWf ad s = true) (hok : stepExtS c.ext s) {p : Nat} {r : List Char}
    (h : Sfx c.input p (Spell.step ad s ++ r)) (stk : List Item) (sv : List (List Item))
    (rt : Option (List N)) (tb te : Nat) :
    ∃ tb' te', ∀ rest, Except.map normSt (execFrom c ⟨stk, sv, rt, tb, te⟩ (tkStepS ad p s ++ rest)) =
      Except.map normSt (execFrom c ⟨.chain (rawT c.acc (Spell.stepT true ad s)) :: stk, sv, rt, tb', te'⟩ rest) := by
  have hnc : (∀ lb s' ss rb, s ≠ .union lb s' ss rb) → Spell.stepNC s = true := by
    intro hnu
    cases s with
    | child f k => simp [Spell.stepNC]
    | wild f => simp [Spell.stepNC]
    | multi lb n ns rb => simp [Spell.stepNC]
    | union lb s' ss rb => exact absurd rfl (hnu lb s' ss rb)
    | filter _ _ _ _ _ => cases hp
    | desc _ => cases hp
  by_cases hu : ∃ lb s' ss rb, s = .union lb s' ss rb
  · obtain ⟨lb, s', ss, rb, rfl⟩ := hu
    exact exec_step_unionN c ad lb s' ss rb hwf hok h stk sv rt tb te
  · have hnu : ∀ lb s' ss rb, s ≠ .union lb s' ss rb := fun lb s' ss rb e => hu ⟨lb, s', ss, rb, e⟩
    obtain ⟨tb', te', h1⟩ := exec_step_plain_s c ad s hp hwf (hnc hnu) hok h stk sv rt tb te
    exact ⟨tb', te', fun rest => by rw [h1]⟩

/-! ### the simulation statements up to the flag -/

/-- a step: the chain of the raw nodes of its written elements -/
def SStepSimG (z : Bool) (c : Ctx) (cfg : Cfg) (ad : Bool) (s : SStep) : Prop :=
  ∀ (p : Nat) (r : List Char), Sfx c.input p (Spell.step ad s ++ r) →
    ∃ pos, SimG z c (tkStepS ad p s) [] (fun pres : List Pre => [Item.chain (pres.map (rawOf c.acc))])
      (stepPre c.env cfg (Spell.stepT true ad s)) pos

/-- a filter query followed by `k` blanks -/
def SQSimG (z : Bool) (c : Ctx) (cfg : Cfg) (q : SQuery) : Prop :=
  ∀ (k p : Nat) (r : List Char), Sfx c.input p (Spell.query q ++ (Spell.blanks k ++ r)) →
    ∃ pos, SimG z c (tkQS k p q) [] (fun q' : Q => [Item.query q']) (buildQ c.env cfg (Spell.queryT true q)) pos

/-- an operand of a comparison followed by `k` blanks -/
def SOperandSimG (z : Bool) (c : Ctx) (cfg : Cfg) (o : SOperand) : Prop :=
  ∀ (k : Nat) (ord : Bool) (p : Nat) (r : List Char), Sfx c.input p (Spell.operand o ++ (Spell.blanks k ++ r)) →
    ∃ pos, SimG z c (tkOperandS k ord p o) [] (fun x : P => [Item.cp x])
      (buildOperand c.env cfg (Spell.operandT true o)) pos

/-- `{38} jsonpathParameter {39}` on the operand path of a filter -/
def SParamSimG (z : Bool) (c : Ctx) (cfg : Cfg) (q : SOpPath) : Prop :=
  ∀ (p : Nat) (r : List Char), Sfx c.input p (Spell.opath q ++ r) →
    ∃ pos, SimG z c (.action 38 :: (tkOPathS p q ++ [.action 39])) []
      (fun ch : List N => [Item.bool (decide (opathHead q = .root)), Item.query (.exist (headP (opathHead q) ch))])
      (buildPath c.env cfg false (Spell.opathT true q)) pos

/-- a step that is neither `..` nor a filter, `[1:2:]` subscripts included, in both settings -/
theorem sim_step_plainG (z : Bool) (c : Ctx) (cfg : Cfg) (ad : Bool) (s : SStep) (hp : isPlainStep s = true)
    (hwf : Spell.stepWf ad s = true) (hok : stepExtS c.ext s) : SStepSimG z c cfg ad s := by
  intro p r h
  refine ⟨0, ?_⟩
  obtain ⟨pres, h1, h2⟩ := stepPre_plain_s c.env cfg c.acc ad s hp
  rw [h1]
  apply SimG.of_exec
  intro stk sv rt tb te
  obtain ⟨tb', te', h3⟩ := exec_step_plainN c ad s hp hwf hok h stk sv rt tb te
  refine ⟨tb', te', fun rest => ?_⟩
  rw [h3, ← h2]
  rfl

theorem map_err_of {X : M St} {x : Stop} (h : X = .error x) : Except.map normSt X = .error x := by
  rw [h]; rfl

/-! ### the non-recursive lemmas of SpellActQ / SpellSim0, for `SimG` -/

/-- 1. a literal operand, in every spelling -/
theorem sim_operand_litG (z : Bool) (c : Ctx) (cfg : Cfg) (l : SLit) (hl : litOKS c.ext l) :
    SOperandSimG z c cfg (.lit l) := by
  intro k ord p r h
  have hb : buildOperand c.env cfg (Spell.operandT true (.lit l)) = .ok (.lit l.erase.toVal) := by
    rw [Spell.operandT, buildOperand]
  rw [hb]
  rw [Spell.operand] at h
  refine ⟨p, SimG.of_exec z ?_⟩
  intro stk sv rt tb te
  obtain ⟨tb', te', h1⟩ := exec_lit_s c l hl k ord h stk sv rt tb te
  exact ⟨tb', te', fun rest => congrArg (Except.map normSt) (h1 rest)⟩

theorem sim_singleG (z : Bool) (c : Ctx) (cfg : Cfg) (q : SOpPath) (hq : SParamSimG z c cfg q) {p : Nat}
    {r : List Char} (h : Sfx c.input p (Spell.opath q ++ r)) (e : Nat) :
    ∃ pos, SimG z c (.action 38 :: (tkOPathS p q ++ [.action 39, .text p e, .action 37])) []
      (fun x : P => [Item.cp x]) (buildP c.env cfg true (Spell.opathT true q)) pos := by
  rw [buildP_opathT]
  obtain ⟨pos1, h0⟩ := hq p r h
  have h1 := h0.seq (t2 := [.text p e, .action 37])
    (i2 := fun x : P => [Item.cp x])
    (f := fun ch => if (true && chainVg ch) = true then .error .valueGroupOperand else .ok (headP (opathHead q) ch))
    (fun ch _ => stage37G z c (opathHead q) ch p e)
  exact ⟨_, h1.cast (by simp) rfl rfl rfl⟩

/-- 2. a path operand -/
theorem sim_operand_pathG (z : Bool) (c : Ctx) (cfg : Cfg) (q : SOpPath) (hq : SParamSimG z c cfg q) :
    SOperandSimG z c cfg (.path q) := by
  intro k ord p r h
  rw [Spell.operand] at h
  rw [Spell.operandT, buildOperand, tkOperandS]
  exact sim_singleG z c cfg q hq h _

/-- 3. an existence test, with `!` and blanks -/
theorem sim_existG (z : Bool) (c : Ctx) (cfg : Cfg) (neg : Option Nat) (q : SOpPath) (hq : SParamSimG z c cfg q) :
    SQSimG z c cfg (.exist neg q) := by
  intro k p r h
  rw [buildQ_exist_s, tkQS]
  have h0 : Sfx c.input (p + negLen neg) (Spell.opath q ++ (Spell.blanks k ++ r)) := by
    cases neg with
    | none =>
      rw [Spell.query] at h
      simpa [negLen] using h
    | some j =>
      rw [Spell.query] at h
      simp only [List.cons_append, List.append_assoc] at h
      exact sfx_cast (sfx_blanks h.tail) (by simp only [negLen]; omega)
  have hs : ∃ c0 s', Spell.query (.exist neg q) ++ Spell.blanks k = c0 :: s' ∧ (c0 == '!') = neg.isSome := by
    cases neg with
    | none =>
      rw [Spell.query, opath_cons q]
      exact ⟨_, _, rfl, headChar_ne_bang _⟩
    | some j =>
      rw [Spell.query]
      exact ⟨_, _, rfl, rfl⟩
  obtain ⟨c0, s', hs1, hs2⟩ := hs
  have h' : Sfx c.input p ((Spell.query (.exist neg q) ++ Spell.blanks k) ++ r) := by
    rw [List.append_assoc]; exact h
  obtain ⟨pos1, hq1⟩ := hq _ _ h0
  have h1 := hq1.seq (pos2 := pos1)
    (f := fun ch => .ok (if neg.isSome then Q.not (.exist (headP (opathHead q) ch))
      else .exist (headP (opathHead q) ch)))
    (fun ch _ => stage27G z c neg.isSome (decide (opathHead q = .root)) (.exist (headP (opathHead q) ch)) c0 s' hs1 hs2 h')
  exact ⟨_, h1.cast (by simp [blanks_length, Nat.add_assoc]) rfl rfl rfl⟩

/-- 4. a comparison, with blanks around the operator -/
theorem sim_cmpG (z : Bool) (c : Ctx) (cfg : Cfg) (op : CmpOp) (l : SOperand) (bl br : Nat) (r : SOperand)
    (hl : SOperandSimG z c cfg l) (hr : SOperandSimG false c cfg r) : SQSimG z c cfg (.cmp op l bl br r) := by
  intro k p r0 h
  rw [buildQ_cmp_s, tkQS]
  rw [Spell.query] at h
  simp only [List.append_assoc] at h
  obtain ⟨pos1, h1⟩ := hl bl (isOrdOp op) p _ h
  have h2' : Sfx c.input (p + (Spell.operand l).length + bl + (opText op).length + br)
      (Spell.operand r ++ (Spell.blanks k ++ r0)) := sfx_blanks (sfx_blanks h.append).append
  obtain ⟨pos2, h2⟩ := hr k (isOrdOp op) _ _ h2'
  exact ⟨_, (h1.seq (fun a _ => (h2.frame z [Item.cp a] (by simp)).seq (fun b _ => stageCmpG z c op a b p _))).cast
    rfl rfl rfl rfl⟩

/-- 5. a regular-expression test -/
theorem sim_regexG (z : Bool) (c : Ctx) (cfg : Cfg) (q : SOpPath) (bl br : Nat) (re : String)
    (hq : SParamSimG z c cfg q) (hre : Print.regexOK re = true) (hc : c.ext.regexCompile re = .ok) :
    SQSimG z c cfg (.regex q bl br re) := by
  intro k p r h
  rw [buildQ_regex_s, tkQS, escRegex_okQ re hre]
  rw [Spell.query, escRegex_okQ re hre] at h
  simp only [List.append_assoc, List.cons_append, List.nil_append] at h
  have h3 : Sfx c.input (p + (Spell.opath q).length + bl + 2 + br + 1) (re.toList ++ ('/' :: (Spell.blanks k ++ r))) :=
    sfx_cast (sfx_blanks (sfx_blanks h.append).tail.tail).tail (by omega)
  obtain ⟨pos1, hs⟩ := sim_singleG z c cfg q hq h (p + (Spell.opath q).length + bl)
  have h1 := hs.seq (pos2 := pos1)
    (f := fun l => .ok (Q.cmp l (.lit (.str "regex")) (.regex re)))
    (fun x _ => stage34G z c re hc x h3 p (p + (Spell.query (.regex q bl br re)).length))
  exact ⟨_, h1.cast (by simp) rfl rfl rfl⟩

/-- 6. `||` with blanks -/
theorem sim_orG (z : Bool) (c : Ctx) (cfg : Cfg) (a : SQuery) (l r : Nat) (b : SQuery) (ha : SQSimG z c cfg a)
    (hb : SQSimG false c cfg b) : SQSimG z c cfg (.or a l r b) := by
  intro k p r0 h
  rw [buildQ_or_s, tkQS]
  rw [Spell.query] at h
  simp only [List.append_assoc, List.cons_append] at h
  obtain ⟨pos1, s1⟩ := ha l p _ h
  have h2 : Sfx c.input (p + (Spell.query a).length + l + 2 + r) (Spell.query b ++ (Spell.blanks k ++ r0)) :=
    sfx_cast (sfx_blanks (sfx_blanks h.append).tail.tail) (by omega)
  obtain ⟨pos2, s2⟩ := hb k _ _ h2
  exact ⟨_, (s1.seq (fun x _ => (s2.frame z [Item.query x] (by simp)).seq (pos2 := pos2)
    (fun y _ => stage24G z c x y))).cast rfl rfl rfl rfl⟩

/-- 6. `&&` with blanks -/
theorem sim_andG (z : Bool) (c : Ctx) (cfg : Cfg) (a : SQuery) (l r : Nat) (b : SQuery) (ha : SQSimG z c cfg a)
    (hb : SQSimG false c cfg b) : SQSimG z c cfg (.and a l r b) := by
  intro k p r0 h
  rw [buildQ_and_s, tkQS]
  rw [Spell.query] at h
  simp only [List.append_assoc, List.cons_append] at h
  obtain ⟨pos1, s1⟩ := ha l p _ h
  have h2 : Sfx c.input (p + (Spell.query a).length + l + 2 + r) (Spell.query b ++ (Spell.blanks k ++ r0)) :=
    sfx_cast (sfx_blanks (sfx_blanks h.append).tail.tail) (by omega)
  obtain ⟨pos2, s2⟩ := hb k _ _ h2
  exact ⟨_, (s1.seq (fun x _ => (s2.frame z [Item.query x] (by simp)).seq (pos2 := pos2)
    (fun y _ => stage25G z c x y))).cast rfl rfl rfl rfl⟩

/-- 6'. parentheses add no tokens and no node -/
theorem sim_parenG (z : Bool) (c : Ctx) (cfg : Cfg) (l : Nat) (q : SQuery) (r : Nat) (hq : SQSimG z c cfg q) :
    SQSimG z c cfg (.paren l q r) := by
  intro k p r0 h
  rw [Spell.queryT, tkQS]
  rw [Spell.query] at h
  simp only [List.append_assoc, List.cons_append, List.nil_append] at h
  exact hq r (p + 1 + l) _ (sfx_blanks h.tail)

/-- 7. a filter step, with blanks at the four places -/
theorem sim_step_filterG (z : Bool) (c : Ctx) (cfg : Cfg) (ad : Bool) (b0 b1 : Nat) (q : SQuery) (b2 b3 : Nat)
    (hq : SQSimG z c cfg q) : SStepSimG z c cfg ad (.filter b0 b1 q b2 b3) := by
  intro p r h
  rw [stepPre_filterS, tkStepS]
  have h0 : Sfx c.input (p + 1 + b0 + 2 + b1)
      (Spell.query q ++ (Spell.blanks b2 ++ (')' :: (Spell.blanks b3 ++ ']' :: r)))) := by
    have := h
    rw [Spell.step] at this
    simp only [List.cons_append, List.append_assoc, List.nil_append] at this
    exact sfx_cast (sfx_blanks (sfx_blanks this.tail).tail.tail) (by omega)
  obtain ⟨pos1, s1⟩ := hq b2 _ _ h0
  exact ⟨_, (s1.seq (pos2 := pos1) (fun q' _ => stage23G z c q' h)).cast rfl rfl rfl rfl⟩

/-- 9. `..` followed by a step -/
theorem sim_step_descN (c : Ctx) (cfg : Cfg) (s : SStep) (hnd : ∀ s', s ≠ .desc s')
    (hs : SStepSimG false c cfg true s) : SStepSimG false c cfg false (.desc s) := by
  intro p r h
  rw [Spell.stepT, BD.stepPre_desc, tkStepS]
  have h0 : Sfx c.input (p + 2) (Spell.step true s ++ r) := by
    have := h
    rw [Spell.step] at this
    simp only [List.cons_append] at this
    exact this.tail.tail
  obtain ⟨pos1, s1⟩ := hs _ r h0
  refine ⟨_, (s1.seq (pos2 := pos1) (fun pres hp => ?_)).cast rfl rfl rfl rfl⟩
  obtain ⟨T, vg, mk, rfl, hf⟩ := stepPre_shape' c.env cfg _ (stepT_not_desc_s true true s hnd) pres hp
  exact simFrom_toG (stage3 c T vg mk _ _ hf)

/-! ### the steps of a spelled path -/

structure SStepsSimN (c : Ctx) (cfg : Cfg) (p : Nat) (ss : List SStep) (pos : Nat) : Prop where
  ok : ∀ sp, stepsPre c.env cfg (Spell.stepsT true ss) = .ok sp →
    ∀ (stk : List Item) (sv : List (List Item)) (rt : Option (List N)) (tb te : Nat), stk ≠ [] →
      ∃ groups : List (List Pre), groups.flatten = sp ∧ (∀ g ∈ groups, g ≠ []) ∧
        ∃ tb' te', ∀ rest, Except.map normSt (execFrom c ⟨stk, sv, rt, tb, te⟩ (tkStepsS p ss ++ rest)) =
          Except.map normSt (execFrom c ⟨groupItems c.acc groups ++ stk, sv, rt, tb', te'⟩ rest)
  err : ∀ e, stepsPre c.env cfg (Spell.stepsT true ss) = .error e →
    ∀ (stk : List Item) (sv : List (List Item)) (rt : Option (List N)) (tb te : Nat), stk ≠ [] →
      ∀ rest, Except.map normSt (execFrom c ⟨stk, sv, rt, tb, te⟩ (tkStepsS p ss ++ rest)) = .error (stopOf pos e)

theorem stepsSim_of_N (c : Ctx) (cfg : Cfg) : ∀ (ss : List SStep) (p : Nat) (r : List Char),
    (∀ s ∈ ss, SStepSimG false c cfg false s) → Sfx c.input p (Spell.steps ss ++ r) →
      ∃ pos, SStepsSimN c cfg p ss pos := by
  intro ss
  induction ss with
  | nil =>
    intro p r _ _
    refine ⟨p, ?_, ?_⟩
    · intro sp hsp stk sv rt tb te _
      rw [Spell.stepsT, stepsPre] at hsp
      cases hsp
      exact ⟨[], rfl, by simp, tb, te, fun rest => by simp [tkStepsS, groupItems]⟩
    · intro e he
      rw [Spell.stepsT, stepsPre] at he
      cases he
  | cons s ss ih =>
    intro p r hs hsfx
    simp only [Spell.steps, List.append_assoc] at hsfx
    obtain ⟨pos1, hs1⟩ := hs s (by simp) p _ hsfx
    obtain ⟨pos2, hs2⟩ := ih (p + (Spell.step false s).length) r (fun y hy => hs y (by simp [hy])) hsfx.append
    refine ⟨seqPos (stepPre c.env cfg (Spell.stepT true false s)) pos1 pos2, ?_, ?_⟩
    · intro sp hsp stk sv rt tb te hstk
      rw [Spell.stepsT, stepsPre] at hsp
      obtain ⟨a, h1, h2⟩ := bind_ok' hsp
      obtain ⟨b, h3, h4⟩ := bind_ok' h2
      cases h4
      obtain ⟨tb1, te1, e1⟩ := hs1.okN a h1 stk sv rt tb te hstk
      obtain ⟨groups, hg1, hg2, tb2, te2, e2⟩ := hs2.ok b h3 ([Item.chain (a.map (rawOf c.acc))] ++ stk) sv rt tb1 te1
        (by simp)
      refine ⟨a :: groups, by simp [hg1], ?_, tb2, te2, fun rest => ?_⟩
      · intro g hg
        rcases List.mem_cons.mp hg with rfl | hg
        · exact (stepPre_nice c.env cfg _ _ h1).1
        · exact hg2 g hg
      · simp only [tkStepsS, List.append_assoc]
        rw [e1, e2]
        simp [groupItems]
    · intro e he stk sv rt tb te hstk
      rw [Spell.stepsT, stepsPre] at he
      cases h1 : stepPre c.env cfg (Spell.stepT true false s) with
      | error e1 =>
        rw [h1] at he
        cases he
        have e1' := hs1.errN _ h1 stk sv rt tb te hstk
        intro rest
        simp only [tkStepsS, List.append_assoc]
        rw [seqPos_error]
        exact e1' _
      | ok a =>
        rw [h1] at he
        cases h3 : stepsPre c.env cfg (Spell.stepsT true ss) with
        | ok b => rw [h3] at he; cases he
        | error e2 =>
          rw [h3] at he
          cases he
          obtain ⟨tb1, te1, e1⟩ := hs1.okN a h1 stk sv rt tb te hstk
          have e2' := hs2.err _ h3 ([Item.chain (a.map (rawOf c.acc))] ++ stk) sv rt tb1 te1 (by simp)
          intro rest
          simp only [tkStepsS, List.append_assoc]
          rw [e1, seqPos_ok]
          exact e2' _

/-! ### a path: `rootNode continuedJsonpath` / `parameterRootNode continuedJsonpath` -/

/-- the tokens of a spelled path on an empty stack, against `buildPath` -/
theorem path_coreN (c : Ctx) (cfg : Cfg) (top : Bool) (h : Head) (ss : List SStep) (fns : List Fn)
    (hs : ∀ s ∈ ss, SStepSimG false c cfg false s) (hk : ∀ f ∈ fns, fnKindOK c.env f) {p : Nat} {r : List Char}
    (hsfx : Sfx c.input p (Spell.opath (.mk h ss fns) ++ r)) :
    ∃ pos, ∀ (sv : List (List Item)) (rt : Option (List N)) (tb te : Nat),
    (∀ ch, buildPath c.env cfg top (Spell.opathT true (.mk h ss fns)) = .ok ch →
      ∃ sp, stepsPre c.env cfg (Spell.stepsT true ss) = .ok sp ∧ (∀ f ∈ fns, fnFound c.env f = true) ∧
        ∃ tb' te', ∀ rest, Except.map normSt (execFrom c ⟨[], sv, rt, tb, te⟩ (tkOPathS p (.mk h ss fns) ++ rest)) =
          Except.map normSt (execFrom c ⟨[.chain (Build.markVg (linkedOf c.acc h sp fns))], sv, rt, tb', te'⟩ rest)) ∧
    (∀ e, buildPath c.env cfg top (Spell.opathT true (.mk h ss fns)) = .error e →
      ∀ rest, Except.map normSt (execFrom c ⟨[], sv, rt, tb, te⟩ (tkOPathS p (.mk h ss fns) ++ rest)) =
        .error (stopOf pos e)) := by
  rw [opathT_mk]
  simp only [Spell.opath, List.cons_append, List.append_assoc] at hsfx
  have h1 := hsfx.tail
  obtain ⟨pos, hss⟩ := stepsSim_of_N c cfg ss (p + 1) _ hs h1
  refine ⟨pos, fun sv rt tb te => ?_⟩
  have h2 := h1.append
  rw [fnsText_eq_flat] at h2
  have e0 : act c (headAct h) ⟨[], sv, rt, tb, te⟩ = .ok ⟨[.chain [headRaw c.acc h]], sv, rt, tb, te⟩ := by
    cases h <;> rfl
  have hstart : ∀ rest, execFrom c ⟨[], sv, rt, tb, te⟩ (tkOPathS p (.mk h ss fns) ++ rest) =
      execFrom c ⟨[.chain [headRaw c.acc h]], sv, rt, tb, te⟩
        (tkStepsS (p + 1) ss ++
          (toksStar fnText tkFn fns (p + 1 + (Spell.steps ss).length) ++ ([.action 2] ++ rest))) := by
    intro rest
    simp only [tkOPathS, List.cons_append, List.append_assoc, List.nil_append]
    rw [execFrom_action, e0]
    rfl
  cases hsp : stepsPre c.env cfg (Spell.stepsT true ss) with
  | error e1 =>
    have hb := buildPath_steps_err' c.env cfg top h _ (fns.map Print.fnT) e1 hsp
    refine ⟨fun ch hch => (by rw [hb] at hch; cases hch), fun e he => ?_⟩
    rw [hb] at he
    cases he
    have ex := hss.err _ hsp [.chain [headRaw c.acc h]] sv rt tb te (by simp)
    exact fun rest => by rw [hstart, ex]
  | ok sp =>
    have hnice := stepsPre_nice c.env cfg _ sp hsp
    obtain ⟨groups, hg1, hg2, tb1, te1, e1⟩ := hss.ok sp hsp [.chain [headRaw c.acc h]] sv rt tb te (by simp)
    by_cases hall : ∀ f ∈ fns, fnFound c.env f = true
    · have hb := buildPath_of_sp' c.env cfg top c.acc h _ fns sp hsp hall
      refine ⟨fun ch _ => ⟨sp, rfl, hall, ?_⟩, fun e he => (by rw [hb] at he; cases he)⟩
      obtain ⟨tb2, te2, e2⟩ := exec_fns c sv rt fns (p + 1 + (Spell.steps ss).length) r
        (groupItems c.acc groups ++ [.chain [headRaw c.acc h]]) tb1 te1 (fun f hf => ⟨hk f hf, hall f hf⟩) h2
      refine ⟨tb2, te2, fun rest => ?_⟩
      rw [hstart, e1, e2]
      simp only [List.singleton_append, execFrom_action]
      have hlink : linkAll [headRaw c.acc h]
          (groups.map (fun g => Item.chain (g.map (rawOf c.acc))) ++
            fns.map (fun f => Item.chain [rawOf c.acc (fnPreT f)])) = .ok (linkedOf c.acc h sp fns) := by
        rw [linkAll_append, linkAll_groups c.acc groups _ (fun g hg => ⟨hg2 g hg, fun q hq =>
          hnice q (by rw [← hg1]; exact List.mem_flatten.mpr ⟨g, hg, hq⟩)⟩)]
        simp only [bind, Except.bind]
        rw [linkAll_fns, hg1, linkedOf, linkPres_append, linkPres_nodes c.acc sp _ (fun q hq => (hnice q hq).2)]
      have hstack : (fns.map (fun f => Item.chain [rawOf c.acc (fnPreT f)])).reverse ++
          (groupItems c.acc groups ++ [Item.chain [headRaw c.acc h]]) =
          (groups.map (fun g => Item.chain (g.map (rawOf c.acc))) ++
            fns.map (fun f => Item.chain [rawOf c.acc (fnPreT f)])).reverse ++ [Item.chain [headRaw c.acc h]] := by
        simp [groupItems]
      rw [hstack, act2_eq c _ _ _ (by simp) hlink]
      rfl
    · obtain ⟨fs1, f, fs2, rfl, hf1, hf2⟩ := fns_split c.env fns hall
      have hb := buildPath_missing_of_sp' c.env cfg top h _ fs1 f fs2 sp hsp hf1 hf2
      refine ⟨fun ch hch => (by rw [hb] at hch; cases hch), fun e he => ?_⟩
      rw [hb] at he
      cases he
      intro rest
      rw [hstart, e1, stopOf_fn _ 0]
      exact map_err_of (exec_fns_missing c sv rt fs1 f fs2 _ r _ tb1 te1
        (fun g hg => ⟨hk g (by simp [hg]), hf1 g hg⟩) (hk f (by simp)) hf2 h2 _)

/-- what action 39 does with the chain of the operand path; `fr`: the frame that action 38 saved (if any) -/
theorem exec_act39 (c : Ctx) (h : Head) (sp : List Pre) (fns : List Fn) (stk : List Item) (sv sv' : List (List Item))
    (hsv : (stk = [] ∧ sv = [] ∧ sv' = []) ∨ (stk ≠ [] ∧ sv' = stk :: sv))
    (rt : Option (List N)) (tb te : Nat) (rest : List Tok) :
    execFrom c ⟨[.chain (Build.markVg (linkedOf c.acc h sp fns))], sv', rt, tb, te⟩ (.action 39 :: rest) =
      execFrom c ⟨[Item.bool (decide (h = .root)), Item.query (.exist (headP h
        (ccChain false "" (setAccChain (false && c.acc) (delRoot (Build.markVg (linkedOf c.acc h sp fns)))))))] ++ stk,
        sv, rt, tb, te⟩ rest := by
  have hL := markVg_ne_nil (linkedOf_ne_nil c.acc h sp fns)
  obtain ⟨m, Lr, hm⟩ : ∃ m Lr, Build.markVg (linkedOf c.acc h sp fns) = m :: Lr := by
    cases hx : Build.markVg (linkedOf c.acc h sp fns) with
    | nil => exact absurd hx hL
    | cons m Lr => exact ⟨m, Lr, rfl⟩
  have hih : innerHead (Build.markVg (linkedOf c.acc h sp fns)) = headKind h := by
    rw [innerHead_markVg, linkedOf, innerHead_linkPres c.acc _ _ (by simp), innerHead_headRaw]
  rcases hsv with ⟨rfl, rfl, rfl⟩ | ⟨hne, rfl⟩
  · simp only [execFrom_action, act, act39, loadParams, pop, bind, Except.bind,
      List.cons_append, List.nil_append, List.append_nil]
    rw [hm] at hih ⊢
    simp only [asNode, hih]
    cases h <;> simp only [headKind, push, ccChain, headP, Bool.false_and, Bool.false_eq_true, if_false] <;>
      rw [← hm] <;> rfl
  · simp only [execFrom_action, act, act39, loadParams, pop, bind, Except.bind,
      List.cons_append, List.nil_append]
    rw [hm] at hih ⊢
    simp only [asNode, hih]
    cases h <;> simp only [headKind, push, ccChain, headP, Bool.false_and, Bool.false_eq_true, if_false] <;>
      rw [← hm] <;> rfl

/-- the operand path of a filter, in both settings -/
theorem paramSimG (z : Bool) (c : Ctx) (cfg : Cfg) (h : Head) (ss : List SStep) (fns : List Fn)
    (hs : ∀ s ∈ ss, SStepSimG false c cfg false s) (hk : ∀ f ∈ fns, fnKindOK c.env f) :
    SParamSimG z c cfg (.mk h ss fns) := by
  intro p r hsfx
  -- action 38
  have hsave : ∀ (stk : List Item) (sv : List (List Item)), FrOK z stk sv →
      ∃ sv', ((stk = [] ∧ sv = [] ∧ sv' = []) ∨ (stk ≠ [] ∧ sv' = stk :: sv)) ∧
        ∀ (rt : Option (List N)) (tb te : Nat) (rest : List Tok),
          execFrom c ⟨stk, sv, rt, tb, te⟩ (.action 38 :: rest) = execFrom c ⟨[], sv', rt, tb, te⟩ rest := by
    intro stk sv hfr
    cases z with
    | true =>
      obtain ⟨rfl, rfl⟩ := hfr
      exact ⟨[], .inl ⟨rfl, rfl, rfl⟩, fun rt tb te rest => rfl⟩
    | false =>
      have hne : stk ≠ [] := hfr
      refine ⟨stk :: sv, .inr ⟨hne, rfl⟩, fun rt tb te rest => ?_⟩
      cases stk with
      | nil => exact absurd rfl hne
      | cons x xs => rfl
  obtain ⟨pos, hcore⟩ := path_coreN c cfg false h ss fns hs hk hsfx
  refine ⟨pos, ?_, ?_⟩
  · intro ch hch stk sv rt tb te hfr
    obtain ⟨sv', hsv, h38⟩ := hsave stk sv hfr
    obtain ⟨hok, _⟩ := hcore sv' rt tb te
    obtain ⟨sp, hsp, hall, tb', te', ex⟩ := hok ch hch
    have hb := buildPath_of_sp' c.env cfg false c.acc h _ fns sp hsp hall
    rw [opathT_mk, hb] at hch
    cases hch
    refine ⟨tb', te', fun rest => ?_⟩
    simp only [List.cons_append, List.append_assoc, List.nil_append]
    rw [h38, ex, exec_act39 c h sp fns stk sv sv' hsv]
    rfl
  · intro e he stk sv rt tb te hfr
    obtain ⟨sv', hsv, h38⟩ := hsave stk sv hfr
    obtain ⟨_, herr⟩ := hcore sv' rt tb te
    have ex := herr e he
    intro rest
    simp only [List.cons_append, List.append_assoc, List.nil_append]
    rw [h38, ex]

end JPV.SP
