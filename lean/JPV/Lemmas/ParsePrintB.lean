/-
ParsePrintB — paths without filters (fragment B): the action machine on the tokens of the whole
printed path, `Build.build` on the recorded texts, and their agreement.
-/
import JPV.Lemmas.ParsePrintPath
import JPV.Lemmas.ParseModel
namespace JPV.PP
open JPV.Peg JPV.Print JPV.Lex JPV.Build

/-- the node pushed for `$` / `@` -/
def headRaw (a : Bool) (h : Head) : N := rawOf a (BD.headPreOf h)

theorem headRaw_isHead (a : Bool) (h : Head) : isHead (headRaw a h) = true := by cases h <;> rfl
theorem headRaw_vg (a : Bool) (h : Head) : (headRaw a h).info.vg = false := by cases h <;> rfl

/-- the raw chain of head and steps -/
def rawNav (a : Bool) (h : Head) (ss : List Step) : List N :=
  headRaw a h :: (ss.map (rawStep a false)).flatten

/-- the chain `setNodeChain` links together -/
def rawLinked (a : Bool) (h : Head) (ss : List Step) (fns : List Fn) : List N :=
  linkPres a (rawNav a h ss) (fns.map fnPreT)

/-! ### Action2 -/

theorem linkOne_ne_nil {root : List N} {x : Item} {r : List N} (h : linkOne root x = .ok r) (hr : root ≠ []) :
    r ≠ [] := by
  unfold linkOne at h
  split at h
  · cases h; simp
  · cases hx : asNode x with
    | error e => rw [hx] at h; cases h
    | ok ch =>
      rw [hx] at h
      cases h
      simp [hr]

theorem linkAll_ne_nil : ∀ (xs : List Item) {root r : List N}, linkAll root xs = .ok r → root ≠ [] → r ≠ []
  | [], root, r, h, hr => by cases h; exact hr
  | x :: xs, root, r, h, hr => by
    rw [linkAll_cons] at h
    cases hx : linkOne root x with
    | error e => rw [hx] at h; cases h
    | ok r1 =>
      rw [hx] at h
      exact linkAll_ne_nil xs h (linkOne_ne_nil hx hr)

/-- `setNodeChain` + `updateRootValueGroup` on a stack whose bottom is the chain `first` -/
theorem act2_eq (c : Ctx) (first : List N) (items : List Item) (L : List N) (hne : first ≠ [])
    (hlink : linkAll first items = .ok L) (sv : List (List Item)) (rt : Option (List N)) (tb te : Nat) :
    act c 2 ⟨items.reverse ++ [.chain first], sv, rt, tb, te⟩ = .ok ⟨[.chain (Build.markVg L)], sv, rt, tb, te⟩ := by
  obtain ⟨n, rest, rfl⟩ : ∃ n rest, first = n :: rest := by
    cases first with
    | nil => exact absurd rfl hne
    | cons n rest => exact ⟨n, rest, rfl⟩
  have hLne := linkAll_ne_nil items hlink hne
  obtain ⟨m, Lr, rfl⟩ : ∃ m Lr, L = m :: Lr := by
    cases L with
    | nil => exact absurd rfl hLne
    | cons m Lr => exact ⟨m, Lr, rfl⟩
  cases items with
  | nil =>
    cases hlink
    simp only [act, act2, setNodeChain, List.reverse_nil, List.nil_append, List.reverse_cons, bind, Except.bind,
      updateRootValueGroup, asNode, ← markVg_eq]
  | cons x xs =>
    simp only [act, act2, setNodeChain, List.reverse_append, List.reverse_cons, List.reverse_nil, List.nil_append,
      List.reverse_reverse, List.singleton_append, List.cons_append, asNode, bind, Except.bind]
    have : linkAll (n :: rest) ([] ++ [x] ++ xs) = .ok (m :: Lr) := by simpa using hlink
    simp only [List.nil_append, List.singleton_append] at this
    rw [this]
    simp only [updateRootValueGroup, List.reverse_cons, List.reverse_nil, List.nil_append, asNode, bind, Except.bind,
      ← markVg_eq]

/-! ### the tokens of a whole path -/

theorem exec_path_ok (c : Ctx) (h : Head) (ss : List Step) (fns : List Fn)
    (hss : ∀ s ∈ ss, noFilterStep s = true ∧ stepWf false s = true ∧ stepExtOK c.ext s)
    (hfn : ∀ f ∈ fns, fnKindOK c.env f ∧ fnFound c.env f = true) {p : Nat} {r : List Char}
    (hsfx : Sfx c.input p (path (.mk h ss fns) ++ r)) (sv : List (List Item)) (rt : Option (List N)) (tb te : Nat) :
    ∃ tb' te', ∀ rest, execFrom c ⟨[], sv, rt, tb, te⟩ (tkPath p (.mk h ss fns) ++ rest) =
      execFrom c ⟨[.chain (Build.markVg (rawLinked c.acc h ss fns))], sv, rt, tb', te'⟩ rest := by
  simp only [path, List.cons_append, List.append_assoc] at hsfx
  have h1 := hsfx.tail
  obtain ⟨tb1, te1, e1⟩ := exec_steps c sv rt ss (p + 1) _ [.chain [headRaw c.acc h]] tb te hss h1
  have h2 := h1.append
  rw [fnsText_eq_flat] at h2
  obtain ⟨tb2, te2, e2⟩ := exec_fns c sv rt fns (p + 1 + (steps ss).length) r _ tb1 te1 hfn h2
  refine ⟨tb2, te2, fun rest => ?_⟩
  have e0 : act c (headAct h) ⟨[], sv, rt, tb, te⟩ = .ok ⟨[.chain [headRaw c.acc h]], sv, rt, tb, te⟩ := by
    cases h <;> rfl
  simp only [tkPath, List.cons_append, List.append_assoc]
  rw [execFrom_action, e0]
  simp only [bind, Except.bind]
  rw [e1, e2]
  simp only [List.nil_append, List.cons_append, execFrom_action]
  have hlink : linkAll [headRaw c.acc h]
      (ss.map (fun s => Item.chain (rawStep c.acc false s)) ++ fns.map (fun f => Item.chain [rawOf c.acc (fnPreT f)])) =
      .ok (rawLinked c.acc h ss fns) := by
    rw [linkAll_append, linkAll_steps]
    simp only [bind, Except.bind]
    rw [linkAll_fns]
    rfl
  have hstack : (fns.map (fun f => Item.chain [rawOf c.acc (fnPreT f)])).reverse ++
      ((ss.map (fun s => Item.chain (rawStep c.acc false s))).reverse ++ [Item.chain [headRaw c.acc h]]) =
      (ss.map (fun s => Item.chain (rawStep c.acc false s)) ++
        fns.map (fun f => Item.chain [rawOf c.acc (fnPreT f)])).reverse ++ [Item.chain [headRaw c.acc h]] := by
    simp
  rw [hstack, act2_eq c _ _ _ (by simp) hlink]
  rfl

/-- the first unregistered function stops the machine -/
theorem exec_path_missing (c : Ctx) (h : Head) (ss : List Step) (fs1 : List Fn) (f : Fn) (fs2 : List Fn)
    (hss : ∀ s ∈ ss, noFilterStep s = true ∧ stepWf false s = true ∧ stepExtOK c.ext s)
    (hfn : ∀ g ∈ fs1, fnKindOK c.env g ∧ fnFound c.env g = true) (hk : fnKindOK c.env f)
    (hf : fnFound c.env f = false) {p : Nat} {r : List Char}
    (hsfx : Sfx c.input p (path (.mk h ss (fs1 ++ f :: fs2)) ++ r)) (sv : List (List Item)) (rt : Option (List N))
    (tb te : Nat) (rest : List Tok) :
    execFrom c ⟨[], sv, rt, tb, te⟩ (tkPath p (.mk h ss (fs1 ++ f :: fs2)) ++ rest) =
      .error (.functionNotFound (String.ofList (fnText f))) := by
  simp only [path, List.cons_append, List.append_assoc] at hsfx
  have h1 := hsfx.tail
  obtain ⟨tb1, te1, e1⟩ := exec_steps c sv rt ss (p + 1) _ [.chain [headRaw c.acc h]] tb te hss h1
  have h2 := h1.append
  rw [fnsText_eq_flat] at h2
  have e0 : act c (headAct h) ⟨[], sv, rt, tb, te⟩ = .ok ⟨[.chain [headRaw c.acc h]], sv, rt, tb, te⟩ := by
    cases h <;> rfl
  simp only [tkPath, List.cons_append, List.append_assoc]
  rw [execFrom_action, e0]
  simp only [bind, Except.bind]
  rw [e1]
  exact exec_fns_missing c sv rt fs1 f fs2 _ r _ tb1 te1 hfn hk hf h2 _

/-! ### `Build.build` -/

theorem assemble_missing (env : Env) (cfg : Cfg) (top : Bool) : ∀ (ps1 : List Pre) (q : Pre) (ps2 : List Pre)
    (A : List N), (∀ p ∈ ps1, foundPre env p) → isFnPre q = true → ¬ foundPre env q →
    assemble env (infosG cfg top (ps1 ++ q :: ps2)) A = .error (.funcNotFound q.text) := by
  intro ps1
  induction ps1 with
  | nil =>
    intro q ps2 A _ hq hnf
    simp only [List.nil_append, infosG]
    cases q with
    | node t vg mk => cases hq
    | ffn t n =>
      cases he : env.ffn n with
      | none => simp only [assemble, he]; rfl
      | some g => exact absurd ⟨g, he⟩ hnf
    | afn t n =>
      cases he : env.afn n with
      | none => simp only [assemble, he]; rfl
      | some g => exact absurd ⟨g, he⟩ hnf
  | cons p ps1 ih =>
    intro q ps2 A hf hq hnf
    have hp := hf p List.mem_cons_self
    have hf' : ∀ x ∈ ps1, foundPre env x := fun x hx => hf x (List.mem_cons_of_mem _ hx)
    simp only [List.cons_append, infosG]
    cases p with
    | node t vg mk => simp only [assemble]; exact ih q ps2 _ hf' hq hnf
    | ffn t n =>
      obtain ⟨g, hg⟩ := hp
      simp only [assemble, hg]; exact ih q ps2 _ hf' hq hnf
    | afn t n =>
      obtain ⟨g, hg⟩ := hp
      simp only [assemble, hg]; exact ih q ps2 _ hf' hq hnf

theorem map_fnT_fnPre (fns : List Fn) : (fns.map fnT).map fnPre = fns.map fnPreT := by
  rw [List.map_map]; rfl

/-- the first written element: `$` / `@` -/
theorem assemble_head (env : Env) (cfg : Cfg) (top a : Bool) (h : Head) (ps : List Pre) :
    assemble env (infosG cfg top (BD.headPreOf h :: ps)) [] =
      assemble env (infosG cfg top ps)
        (psi top (tailConn ps) (top && cfg.accessor && noAfn ps) [headRaw a h]) := by
  cases h <;> cases top <;>
    simp [infosG, assemble, BD.headPreOf, psi, keepRoot, headRaw, rawOf, nodeWith, setAccChain, ccChain,
      connChain_cons, connChain_nil, connApp, nSetAcc, nMapInfoDeep, nMapInfo, connNode, N.info, Pre.text, preVg]

/-- the chain of a path without filters whose functions are all registered -/
theorem buildPath_nf_ok (env : Env) (cfg : Cfg) (a : Bool) (h : Head) (ss : List Step) (fns : List Fn)
    (hss : ∀ s ∈ ss, noFilterStep s = true ∧ stepWf false s = true)
    (hfn : ∀ f ∈ fns, fnFound env f = true) :
    buildPath env cfg true (pathT (.mk h ss fns)) =
      .ok (connChain "" (setAccChain cfg.accessor (delRoot (Build.markVg (rawLinked a h ss fns))))) := by
  obtain ⟨sp, hsp, hraw, hnice⟩ := stepsPre_nf env cfg a ss hss
  rw [pathT, BD.buildPath_eq, hsp]
  simp only [bind, Except.bind]
  rw [map_fnT_fnPre, mkInfos_eq, List.cons_append, assemble_head env cfg true a h]
  have hall : ∀ p ∈ sp ++ fns.map fnPreT, NicePre p := by
    intro p hp
    rcases List.mem_append.mp hp with hp | hp
    · exact (hnice p hp).1
    · obtain ⟨f, _, rfl⟩ := List.mem_map.mp hp
      cases f <;> trivial
  have hfound : ∀ p ∈ sp ++ fns.map fnPreT, foundPre env p := by
    intro p hp
    rcases List.mem_append.mp hp with hp | hp
    · have := (hnice p hp).2
      cases p with
      | node t vg mk => trivial
      | ffn t n => cases this
      | afn t n => cases this
    · obtain ⟨f, hf, rfl⟩ := List.mem_map.mp hp
      exact fnPreT_found env f (hfn f hf)
  have hpres : presOK (sp ++ fns.map fnPreT) = true := by
    have : ∀ (l : List Pre), (∀ p ∈ l, isFnPre p = false) → presOK (l ++ fns.map fnPreT) = true := by
      intro l
      induction l with
      | nil =>
        intro _
        apply presOK_of_all_fn
        simp only [List.nil_append, List.all_map, List.all_eq_true]
        intro f _; exact fnPreT_isFn f
      | cons q l ih =>
        intro hl
        have hq := hl q List.mem_cons_self
        simp only [List.cons_append, presOK, hq, Bool.false_eq_true, if_false]
        exact ih (fun x hx => hl x (List.mem_cons_of_mem _ hx))
    exact this sp (fun p hp => (hnice p hp).2)
  have hshape : Shape1 [headRaw a h] := ⟨_, [], rfl, headRaw_isHead a h, headRaw_vg a h⟩
  obtain ⟨hres, hsh⟩ := assemble_link env cfg true a (sp ++ fns.map fnPreT) [headRaw a h] _ hall hfound
    (.inl ⟨hshape, hpres⟩) rfl
  rw [hres]
  simp only
  rw [finish_psi true "" _ _ hsh]
  have hL : linkPres a [headRaw a h] (sp ++ fns.map fnPreT) = rawLinked a h ss fns := by
    rw [linkPres_append, linkPres_nodes a sp _ (fun p hp => (hnice p hp).2), hraw]
    rfl
  rw [hL]
  simp [ccChain]

/-- … when `f` is the first function that is not registered -/
theorem buildPath_nf_missing (env : Env) (cfg : Cfg) (h : Head) (ss : List Step) (fs1 : List Fn) (f : Fn)
    (fs2 : List Fn) (hss : ∀ s ∈ ss, noFilterStep s = true ∧ stepWf false s = true)
    (hfn : ∀ g ∈ fs1, fnFound env g = true) (hf : fnFound env f = false) (top : Bool) :
    buildPath env cfg top (pathT (.mk h ss (fs1 ++ f :: fs2))) =
      .error (.funcNotFound (String.ofList (fnText f))) := by
  obtain ⟨sp, hsp, _, hnice⟩ := stepsPre_nf env cfg false ss hss
  rw [pathT, BD.buildPath_eq, hsp]
  simp only [bind, Except.bind]
  rw [map_fnT_fnPre, mkInfos_eq]
  have hsplit : BD.headPreOf h :: sp ++ (fs1 ++ f :: fs2).map fnPreT =
      (BD.headPreOf h :: sp ++ fs1.map fnPreT) ++ fnPreT f :: fs2.map fnPreT := by simp
  rw [hsplit, assemble_missing env cfg top _ (fnPreT f) _ [] ?_ (fnPreT_isFn f) ?_, fnPreT_text]
  · intro p hp
    simp only [List.cons_append, List.mem_cons, List.mem_append, List.mem_map] at hp
    rcases hp with rfl | hp | ⟨g, hg, rfl⟩
    · cases h <;> trivial
    · have := (hnice p hp).2
      cases p with
      | node t vg mk => trivial
      | ffn t n => cases this
      | afn t n => cases this
    · exact fnPreT_found env g (hfn g hg)
  · intro hfound
    cases f with
    | ffn t n =>
      obtain ⟨g, hg⟩ := hfound
      have : env.ffn n = some g := hg
      simp [fnFound, this] at hf
    | afn t n =>
      obtain ⟨g, hg⟩ := hfound
      have : env.afn n = some g := hg
      simp [fnFound, this] at hf

/-! ### the accessor flag at top level -/

theorem TA_rawLinked (a : Bool) (h : Head) (ss : List Step) (fns : List Fn)
    (hss : ∀ s ∈ ss, noFilterStep s = true ∧ stepWf false s = true) (env : Env) (cfg : Cfg) :
    TA a (rawLinked a h ss fns) := by
  obtain ⟨sp, _, hraw, hnice⟩ := stepsPre_nf env cfg a ss hss
  unfold rawLinked rawNav
  rw [← hraw]
  have h0 : TA a (headRaw a h :: sp.map (rawOf a)) := by
    have := TA.linkPres (a := a) sp (L := [headRaw a h]) (by intro n hn; simp at hn; subst hn; cases h <;> rfl)
      (fun p hp => (hnice p hp).1)
    rwa [linkPres_nodes a sp _ (fun p hp => (hnice p hp).2)] at this
  exact TA.linkPres (fns.map fnPreT) h0 (by
    intro p hp
    obtain ⟨f, _, rfl⟩ := List.mem_map.mp hp
    cases f <;> trivial)

theorem build_nf_ok (env : Env) (cfg : Cfg) (ss : List Step) (fns : List Fn)
    (hss : ∀ s ∈ ss, noFilterStep s = true ∧ stepWf false s = true)
    (hfn : ∀ f ∈ fns, fnFound env f = true) :
    Build.build env cfg (texts (.mk .root ss fns)) =
      .ok (connChain "" (delRoot (Build.markVg (rawLinked cfg.accessor .root ss fns)))) := by
  rw [Build.build, texts, buildPath_nf_ok env cfg cfg.accessor .root ss fns hss hfn]
  have := ((TA_rawLinked cfg.accessor .root ss fns hss env cfg).markVg).delRoot
  rw [this.setAcc]

end JPV.PP
