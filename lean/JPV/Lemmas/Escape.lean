/-
Lemmas for C16 (JPV/Props/C16.lean): unfolding lemmas of the lexical models of JPV/Lex/Escape.lean,
one "piece" lemma per routine (what the routine does with the rendering of ONE character in front of
an arbitrary rest), and the round trips / acceptance by induction over the key.
-/
import JPV.Lex.Escape
namespace JPV.Lex

/-! ## characters as numbers -/

theorem char_eq_iff (c d : Char) : c = d ↔ c.toNat = d.toNat := Char.toNat_inj.symm

/-- a `Char` is a scalar value -/
theorem char_range (c : Char) : c.toNat < 0xd800 ∨ (0xdfff < c.toNat ∧ c.toNat < 0x110000) := by
  have h := c.valid
  have : c.toNat = c.val.toNat := rfl
  rw [this]
  rcases h with h | h
  · left; exact h
  · right; exact h

theorem isDotSafe_not_sign (c : Char) (h : isDotSafe c = true) : isSign c = false := by
  simp only [isDotSafe, isSign, char_eq_iff] at *
  generalize c.toNat = n at *
  simp at *
  omega

theorem isDotSafe_not_control (c : Char) (h : isDotSafe c = true) : isControl c = false := by
  simp only [isDotSafe, isControl, char_eq_iff] at *
  generalize c.toNat = n at *
  simp at *
  omega

theorem isDotSafe_ne_backslash (c : Char) (h : isDotSafe c = true) : c ≠ '\\' := by
  intro hc; subst hc; revert h; decide

theorem isSign_of_not_isDotSafe (c : Char) (h : isDotSafe c = false) (hc : isControl c = false) :
    isSign c = true := by
  simp only [isDotSafe, isSign, isControl, char_eq_iff] at *
  generalize c.toNat = n at *
  simp at *
  omega

theorem isControl_iff (c : Char) : isControl c = true ↔ (c.toNat < 0x20 ∨ c.toNat = 0x7f) := by
  simp [isControl]

theorem not_lt_0x20_of_not_isControl (c : Char) (h : isControl c = false) : ¬ c.toNat < 0x20 := by
  simp only [isControl] at h
  generalize c.toNat = n at *
  simp at *
  omega

theorem ne_newline_of_not_isControl (c : Char) (h : isControl c = false) : c ≠ '\n' := by
  intro hc; subst hc; revert h; decide

theorem toNat_lt_128_of_isControl (c : Char) (h : isControl c = true) : c.toNat < 128 := by
  rw [isControl_iff] at h; omega

/-! ## hexadecimal digits -/

theorem hexDigit_facts : ∀ d, d < 16 →
    hexVal (hexDigit d) = some d ∧ isHexDigit (hexDigit d) = true ∧
    hexDigit d ≠ '"' ∧ hexDigit d ≠ '\'' ∧ hexDigit d ≠ '\\' := by decide

theorem hexVal_hexDigit (d : Nat) (h : d < 16) : hexVal (hexDigit d) = some d := (hexDigit_facts d h).1
theorem isHexDigit_hexDigit (d : Nat) (h : d < 16) : isHexDigit (hexDigit d) = true := (hexDigit_facts d h).2.1
theorem hexDigit_ne_dq (d : Nat) (h : d < 16) : hexDigit d ≠ '"' := (hexDigit_facts d h).2.2.1
theorem hexDigit_ne_sq (d : Nat) (h : d < 16) : hexDigit d ≠ '\'' := (hexDigit_facts d h).2.2.2.1
theorem hexDigit_ne_bs (d : Nat) (h : d < 16) : hexDigit d ≠ '\\' := (hexDigit_facts d h).2.2.2.2

/-- `getu4` reads back what `%04x` printed -/
theorem hex4_hexDigits (n : Nat) (h : n < 65536) :
    hex4 (hexDigit (n / 4096 % 16)) (hexDigit (n / 256 % 16)) (hexDigit (n / 16 % 16)) (hexDigit (n % 16))
      = some n := by
  have h1 : n / 4096 % 16 < 16 := Nat.mod_lt _ (by decide)
  have h2 : n / 256 % 16 < 16 := Nat.mod_lt _ (by decide)
  have h3 : n / 16 % 16 < 16 := Nat.mod_lt _ (by decide)
  have h4 : n % 16 < 16 := Nat.mod_lt _ (by decide)
  simp only [hex4, hexVal_hexDigit _ h1, hexVal_hexDigit _ h2, hexVal_hexDigit _ h3, hexVal_hexDigit _ h4]
  congr 1
  omega

/-! ## `unescapeBackslash` -/

theorem unescapeBackslash_nil : unescapeBackslash [] = [] := rfl

theorem unescapeBackslash_plain (c : Char) (r : List Char) (h : c ≠ '\\') :
    unescapeBackslash (c :: r) = c :: unescapeBackslash r := by
  rw [unescapeBackslash.eq_def]; simp [h]

theorem unescapeBackslash_esc (d : Char) (r : List Char) (h : d ≠ '\n') :
    unescapeBackslash ('\\' :: d :: r) = d :: unescapeBackslash r := by
  rw [unescapeBackslash.eq_def]; simp [h]

theorem unescapeBackslash_esc_newline (r : List Char) :
    unescapeBackslash ('\\' :: '\n' :: r) = '\\' :: '\n' :: unescapeBackslash r := by
  rw [unescapeBackslash.eq_def]; simp

theorem unescapeBackslash_last : unescapeBackslash ['\\'] = ['\\'] := by decide

/-- text without a backslash is left alone -/
theorem unescapeBackslash_id (l : List Char) (h : ∀ c ∈ l, c ≠ '\\') : unescapeBackslash l = l := by
  induction l with
  | nil => rfl
  | cons c r ih =>
    rw [unescapeBackslash_plain c r (h c (by simp)), ih (fun d hd => h d (by simp [hd]))]

/-- the piece lemma of the dot spelling -/
theorem unescapeBackslash_escDotChar (c : Char) (r : List Char) (h : c ≠ '\n') :
    unescapeBackslash (escDotChar c ++ r) = c :: unescapeBackslash r := by
  unfold escDotChar
  cases hs : isDotSafe c with
  | true => simpa using unescapeBackslash_plain c r (isDotSafe_ne_backslash c hs)
  | false => simpa using unescapeBackslash_esc c r h

theorem escDot_cons (c : Char) (k : List Char) : escDot (c :: k) = escDotChar c ++ escDot k := by
  simp [escDot]

theorem escDot_nil : escDot [] = [] := rfl

/-- the round trip of the dot spelling needs exactly: no newline in the key -/
theorem unescapeBackslash_escDot (k : List Char) (h : ∀ c ∈ k, c ≠ '\n') :
    unescapeBackslash (escDot k) = k := by
  induction k with
  | nil => rfl
  | cons c r ih =>
    rw [escDot_cons, unescapeBackslash_escDotChar c _ (h c (by simp)), ih (fun d hd => h d (by simp [hd]))]

/-- … and it fails for a key with a newline: `\` + newline is not a match of `\\(.)` -/
theorem unescapeBackslash_escDot_newline : unescapeBackslash (escDot ['\n']) = ['\\', '\n'] := by decide

/-- `escDot` is injective on ALL keys (decoder: drop the backslash in front of every character,
    newline included). -/
def unescapeAll : List Char → List Char
  | [] => []
  | c :: rest =>
    if c = '\\' then
      match rest with
      | [] => [c]
      | d :: rest' => d :: unescapeAll rest'
    else c :: unescapeAll rest

theorem unescapeAll_escDot (k : List Char) : unescapeAll (escDot k) = k := by
  induction k with
  | nil => rfl
  | cons c r ih =>
    rw [escDot_cons]
    unfold escDotChar
    cases hs : isDotSafe c with
    | true =>
      have := isDotSafe_ne_backslash c hs
      rw [unescapeAll.eq_def]; simp [this, ih]
    | false =>
      rw [unescapeAll.eq_def]; simp [ih]

theorem escDot_injective (a b : List Char) (h : escDot a = escDot b) : a = b := by
  rw [← unescapeAll_escDot a, ← unescapeAll_escDot b, h]

/-! ## acceptance of the dot spelling -/

theorem dotNameLoop_escDotChar (c : Char) (r : List Char) (hc : isControl c = false) :
    dotNameLoop (escDotChar c ++ r) = dotNameLoop r := by
  unfold escDotChar
  cases hs : isDotSafe c with
  | true =>
    have h1 := isDotSafe_ne_backslash c hs
    have h2 := isDotSafe_not_sign c hs
    rw [dotNameLoop.eq_def]; simp [h1, h2, hc]
  | false =>
    have h2 := isSign_of_not_isDotSafe c hs hc
    rw [dotNameLoop.eq_def]; simp [h2]

theorem dotNameLoop_escDot (k : List Char) (h : ∀ c ∈ k, isControl c = false) :
    dotNameLoop (escDot k) = true := by
  induction k with
  | nil => rfl
  | cons c r ih =>
    rw [escDot_cons, dotNameLoop_escDotChar c _ (h c (by simp)), ih (fun d hd => h d (by simp [hd]))]

theorem escDotChar_ne_nil (c : Char) : escDotChar c ≠ [] := by
  unfold escDotChar; split <;> simp

theorem escDot_ne_nil (k : List Char) (h : k ≠ []) : escDot k ≠ [] := by
  cases k with
  | nil => exact absurd rfl h
  | cons c r =>
    rw [escDot_cons]
    intro hn
    exact escDotChar_ne_nil c (List.append_eq_nil_iff.mp hn).1

theorem matchesDotName_escDot (k : List Char) (hk : k ≠ []) (h : ∀ c ∈ k, isControl c = false) :
    matchesDotName (escDot k) = true := by
  unfold matchesDotName
  rw [dotNameLoop_escDot k h]
  have := escDot_ne_nil k hk
  cases hk' : escDot k with
  | nil => exact absurd hk' this
  | cons a b => rfl

/-- Converse: whatever the dot-child rule accepts decodes to a non-empty name without control
    characters — keys with control characters cannot be spelled after a dot at all, so the hypothesis
    of the dot round trip loses nothing. -/
theorem dotNameLoop_no_control : ∀ (n : Nat) (l : List Char), l.length ≤ n → dotNameLoop l = true →
    ∀ c ∈ unescapeBackslash l, isControl c = false := by
  intro n
  induction n with
  | zero =>
    intro l hl _ c hc
    have : l = [] := List.length_eq_zero_iff.mp (Nat.le_zero.mp hl)
    subst this
    simp [unescapeBackslash_nil] at hc
  | succ n ih =>
    intro l hl hm c hc
    cases l with
    | nil => simp [unescapeBackslash_nil] at hc
    | cons a r =>
      by_cases ha : a = '\\'
      · subst ha
        cases r with
        | nil => exact absurd hm (by decide)
        | cons d r' =>
          rw [dotNameLoop.eq_def] at hm
          simp only [if_true, Bool.and_eq_true] at hm
          have hd : d ≠ '\n' := by
            intro h; subst h; exact absurd hm.1 (by decide)
          rw [unescapeBackslash_esc d r' hd] at hc
          rcases List.mem_cons.mp hc with h | h
          · subst h
            have hs := hm.1
            simp only [isSign, isControl] at *
            generalize c.toNat = m at *
            simp at *
            omega
          · exact ih r' (by simp at hl; omega) hm.2 c h
      · rw [dotNameLoop.eq_def] at hm
        simp only [if_neg ha, Bool.and_eq_true, Bool.not_eq_true'] at hm
        rw [unescapeBackslash_plain a r ha] at hc
        rcases List.mem_cons.mp hc with h | h
        · subst h; exact hm.1.1
        · exact ih r (by simp at hl; omega) hm.2 c h

theorem matchesDotName_decodes_nonempty (l : List Char) (h : matchesDotName l = true) :
    unescapeBackslash l ≠ [] := by
  unfold matchesDotName at h
  cases l with
  | nil => simp at h
  | cons a r =>
    rw [unescapeBackslash.eq_def]
    by_cases ha : a = '\\'
    · subst ha
      cases r with
      | nil => simp
      | cons d r' => simp only [if_true]; split <;> simp
    · simp [ha]

/-! ## the state machine of `unescapeSingleQuotedString` -/

theorem singleToJsonGo_nil (esc : Bool) : singleToJsonGo esc [] = [] := by
  rw [singleToJsonGo.eq_def]

theorem singleToJsonGo_dq (esc : Bool) (r : List Char) :
    singleToJsonGo esc ('"' :: r) = '\\' :: '"' :: singleToJsonGo esc r := by
  rw [singleToJsonGo.eq_def]; simp

theorem singleToJsonGo_sq (esc : Bool) (r : List Char) :
    singleToJsonGo esc ('\'' :: r) = '\'' :: singleToJsonGo false r := by
  rw [singleToJsonGo.eq_def]; simp

theorem singleToJsonGo_bs_false (r : List Char) :
    singleToJsonGo false ('\\' :: r) = singleToJsonGo true r := by
  rw [singleToJsonGo.eq_def]; simp

theorem singleToJsonGo_bs_true (r : List Char) :
    singleToJsonGo true ('\\' :: r) = '\\' :: '\\' :: singleToJsonGo false r := by
  rw [singleToJsonGo.eq_def]; simp

theorem singleToJsonGo_other_true (c : Char) (r : List Char) (h1 : c ≠ '"') (h2 : c ≠ '\'') (h3 : c ≠ '\\') :
    singleToJsonGo true (c :: r) = '\\' :: c :: singleToJsonGo false r := by
  rw [singleToJsonGo.eq_def]; simp [h1, h2, h3]

theorem singleToJsonGo_other_false (c : Char) (r : List Char) (h1 : c ≠ '"') (h2 : c ≠ '\'') (h3 : c ≠ '\\') :
    singleToJsonGo false (c :: r) = c :: singleToJsonGo false r := by
  rw [singleToJsonGo.eq_def]; simp [h1, h2, h3]

/-- text without quotes and backslashes passes the state machine unchanged -/
theorem singleToJson_id (l : List Char) (h : ∀ c ∈ l, c ≠ '"' ∧ c ≠ '\'' ∧ c ≠ '\\') : singleToJson l = l := by
  unfold singleToJson
  induction l with
  | nil => exact singleToJsonGo_nil _
  | cons c r ih =>
    obtain ⟨h1, h2, h3⟩ := h c (by simp)
    rw [singleToJsonGo_other_false c r h1 h2 h3, ih (fun d hd => h d (by simp [hd]))]

/-! ## `jsonUnquote` -/

theorem jsonUnquote_nil : jsonUnquote [] = some [] := by rw [jsonUnquote.eq_def]

theorem jsonUnquote_plain (c : Char) (r : List Char) (h1 : c ≠ '\\') (h2 : c ≠ '"') (h3 : ¬ c.toNat < 0x20) :
    jsonUnquote (c :: r) = (jsonUnquote r).map (c :: ·) := by
  rw [jsonUnquote.eq_def]; simp [h1, h2, h3]

theorem jsonUnquote_raw_quote (r : List Char) : jsonUnquote ('"' :: r) = none := by
  rw [jsonUnquote.eq_def]; simp

theorem jsonUnquote_raw_control (c : Char) (r : List Char) (h : c.toNat < 0x20) : jsonUnquote (c :: r) = none := by
  have h1 : c ≠ '\\' := by intro hc; subst hc; revert h; decide
  rw [jsonUnquote.eq_def]; simp [h1, h]

theorem jsonUnquote_trailing_backslash : jsonUnquote ['\\'] = none := by decide

theorem simpleEscape_u : simpleEscape 'u' = none := by decide

theorem jsonUnquote_simple (e ch : Char) (r : List Char) (h : simpleEscape e = some ch) :
    jsonUnquote ('\\' :: e :: r) = (jsonUnquote r).map (ch :: ·) := by
  have hu : e ≠ 'u' := by
    intro he; subst he; rw [simpleEscape_u] at h; cases h
  rw [jsonUnquote.eq_def]; simp [hu, h]

theorem jsonUnquote_unknown_escape (e : Char) (r : List Char) (hu : e ≠ 'u') (h : simpleEscape e = none) :
    jsonUnquote ('\\' :: e :: r) = none := by
  rw [jsonUnquote.eq_def]; simp [hu, h]

/-- `\uXXXX` outside the surrogate range -/
theorem jsonUnquote_u (h1 h2 h3 h4 : Char) (r : List Char) (v : Nat)
    (h : hex4 h1 h2 h3 h4 = some v) (hs : isSurrogate v = false) :
    jsonUnquote ('\\' :: 'u' :: h1 :: h2 :: h3 :: h4 :: r) = (jsonUnquote r).map (Char.ofNat v :: ·) := by
  rw [jsonUnquote.eq_def]; simp [h, hs]

theorem jsonUnquote_u_bad (h1 h2 h3 h4 : Char) (r : List Char) (h : hex4 h1 h2 h3 h4 = none) :
    jsonUnquote ('\\' :: 'u' :: h1 :: h2 :: h3 :: h4 :: r) = none := by
  rw [jsonUnquote.eq_def]; simp [h]

/-- a surrogate pair `\uD8xx\uDCxx` -/
theorem jsonUnquote_pair (h1 h2 h3 h4 l1 l2 l3 l4 : Char) (r : List Char) (v w : Nat)
    (hv : hex4 h1 h2 h3 h4 = some v) (hw : hex4 l1 l2 l3 l4 = some w) (hp : isSurrogatePair v w = true) :
    jsonUnquote ('\\' :: 'u' :: h1 :: h2 :: h3 :: h4 :: '\\' :: 'u' :: l1 :: l2 :: l3 :: l4 :: r)
      = (jsonUnquote r).map (combineSurrogates v w :: ·) := by
  have hs : isSurrogate v = true := by
    simp only [isSurrogatePair, isSurrogate, Bool.and_eq_true, decide_eq_true_eq] at *
    omega
  rw [jsonUnquote.eq_def]; simp [hv, hw, hs, hp]

/-- text without backslash, double quote and characters below 0x20 decodes to itself -/
theorem jsonUnquote_id (l : List Char) (h : ∀ c ∈ l, c ≠ '\\' ∧ c ≠ '"' ∧ ¬ c.toNat < 0x20) :
    jsonUnquote l = some l := by
  induction l with
  | nil => exact jsonUnquote_nil
  | cons c r ih =>
    obtain ⟨h1, h2, h3⟩ := h c (by simp)
    rw [jsonUnquote_plain c r h1 h2 h3, ih (fun d hd => h d (by simp [hd]))]; rfl

/-! ## rendering one character inside quotes -/

theorem escQuoted_cons (q c : Char) (k : List Char) :
    escQuoted q (c :: k) = escQuotedChar q c ++ escQuoted q k := by
  simp [escQuoted]

theorem escQuoted_nil (q : Char) : escQuoted q [] = [] := rfl

/-- the four hex digits of a control character read back as the character -/
theorem hex4_control (c : Char) (hc : isControl c = true) :
    hex4 (hexDigit (c.toNat / 4096 % 16)) (hexDigit (c.toNat / 256 % 16)) (hexDigit (c.toNat / 16 % 16))
      (hexDigit (c.toNat % 16)) = some c.toNat :=
  hex4_hexDigits c.toNat (by have := toNat_lt_128_of_isControl c hc; omega)

theorem not_isSurrogate_control (c : Char) (hc : isControl c = true) : isSurrogate c.toNat = false := by
  have := toNat_lt_128_of_isControl c hc
  simp [isSurrogate]; omega

/-- piece lemma, double quotes -/
theorem jsonUnquote_escDoubleChar (c : Char) (r : List Char) :
    jsonUnquote (escQuotedChar '"' c ++ r) = (jsonUnquote r).map (c :: ·) := by
  unfold escQuotedChar
  by_cases h1 : c = '"'
  · subst h1
    simpa using jsonUnquote_simple '"' '"' r (by decide)
  · by_cases h2 : c = '\\'
    · subst h2
      simpa using jsonUnquote_simple '\\' '\\' r (by decide)
    · cases hc : isControl c with
      | true =>
        simp only [if_neg h1, if_neg h2, if_true, hex4Digits, List.cons_append, List.nil_append]
        rw [jsonUnquote_u _ _ _ _ r c.toNat (hex4_control c hc) (not_isSurrogate_control c hc),
          Char.ofNat_toNat]
      | false =>
        simp only [if_neg h1, if_neg h2, Bool.false_eq_true, if_false, List.cons_append, List.nil_append]
        exact jsonUnquote_plain c r h2 h1 (not_lt_0x20_of_not_isControl c hc)

/-- piece lemma, single quotes: state machine, then JSON decoding -/
theorem jsonUnquote_singleToJson_escSingleChar (c : Char) (r : List Char) :
    jsonUnquote (singleToJsonGo false (escQuotedChar '\'' c ++ r))
      = (jsonUnquote (singleToJsonGo false r)).map (c :: ·) := by
  unfold escQuotedChar
  by_cases h1 : c = '\''
  · subst h1
    simp only [if_true, List.cons_append, List.nil_append]
    rw [singleToJsonGo_bs_false, singleToJsonGo_sq]
    exact jsonUnquote_plain '\'' _ (by decide) (by decide) (by decide)
  · by_cases h2 : c = '\\'
    · subst h2
      simp only [if_neg h1, if_true, List.cons_append, List.nil_append]
      rw [singleToJsonGo_bs_false, singleToJsonGo_bs_true]
      exact jsonUnquote_simple '\\' '\\' _ (by decide)
    · cases hc : isControl c with
      | true =>
        simp only [if_neg h1, if_neg h2, if_true, hex4Digits, List.cons_append, List.nil_append]
        have d1 : c.toNat / 4096 % 16 < 16 := Nat.mod_lt _ (by decide)
        have d2 : c.toNat / 256 % 16 < 16 := Nat.mod_lt _ (by decide)
        have d3 : c.toNat / 16 % 16 < 16 := Nat.mod_lt _ (by decide)
        have d4 : c.toNat % 16 < 16 := Nat.mod_lt _ (by decide)
        rw [singleToJsonGo_bs_false,
          singleToJsonGo_other_true 'u' _ (by decide) (by decide) (by decide),
          singleToJsonGo_other_false _ _ (hexDigit_ne_dq _ d1) (hexDigit_ne_sq _ d1) (hexDigit_ne_bs _ d1),
          singleToJsonGo_other_false _ _ (hexDigit_ne_dq _ d2) (hexDigit_ne_sq _ d2) (hexDigit_ne_bs _ d2),
          singleToJsonGo_other_false _ _ (hexDigit_ne_dq _ d3) (hexDigit_ne_sq _ d3) (hexDigit_ne_bs _ d3),
          singleToJsonGo_other_false _ _ (hexDigit_ne_dq _ d4) (hexDigit_ne_sq _ d4) (hexDigit_ne_bs _ d4),
          jsonUnquote_u _ _ _ _ _ c.toNat (hex4_control c hc) (not_isSurrogate_control c hc),
          Char.ofNat_toNat]
      | false =>
        simp only [if_neg h1, if_neg h2, Bool.false_eq_true, if_false, List.cons_append, List.nil_append]
        by_cases h3 : c = '"'
        · subst h3
          rw [singleToJsonGo_dq]
          exact jsonUnquote_simple '"' '"' _ (by decide)
        · rw [singleToJsonGo_other_false c r h3 h1 h2]
          exact jsonUnquote_plain c _ h2 h3 (not_lt_0x20_of_not_isControl c hc)

/-! ## the round trips -/

theorem jsonUnquote_escDouble (k : List Char) : jsonUnquote (escDouble k) = some k := by
  unfold escDouble
  induction k with
  | nil => exact jsonUnquote_nil
  | cons c r ih => rw [escQuoted_cons, jsonUnquote_escDoubleChar, ih]; rfl

theorem jsonUnquote_singleToJson_escSingle (k : List Char) :
    jsonUnquote (singleToJson (escSingle k)) = some k := by
  unfold escSingle singleToJson
  induction k with
  | nil => rw [escQuoted_nil, singleToJsonGo_nil]; exact jsonUnquote_nil
  | cons c r ih => rw [escQuoted_cons, jsonUnquote_singleToJson_escSingleChar, ih]; rfl

/-! ## acceptance of the quoted spellings -/

theorem quotedBodyLoop_escQuotedChar (q c : Char) (r : List Char) (hq : q ≠ 'u') :
    quotedBodyLoop q (escQuotedChar q c ++ r) = quotedBodyLoop q r := by
  unfold escQuotedChar
  by_cases h1 : c = q
  · subst h1
    simp only [if_true, List.cons_append, List.nil_append]
    rw [quotedBodyLoop.eq_def]; simp
  · by_cases h2 : c = '\\'
    · subst h2
      simp only [if_neg h1, if_true, List.cons_append, List.nil_append]
      rw [quotedBodyLoop.eq_def]; simp
    · cases hc : isControl c with
      | true =>
        simp only [if_neg h1, if_neg h2, if_true, hex4Digits, List.cons_append, List.nil_append]
        have d1 : c.toNat / 4096 % 16 < 16 := Nat.mod_lt _ (by decide)
        have d2 : c.toNat / 256 % 16 < 16 := Nat.mod_lt _ (by decide)
        have d3 : c.toNat / 16 % 16 < 16 := Nat.mod_lt _ (by decide)
        have d4 : c.toNat % 16 < 16 := Nat.mod_lt _ (by decide)
        have hq' : ¬ 'u' = q := fun h => hq h.symm
        rw [quotedBodyLoop.eq_def]
        simp [hq', isHexDigit_hexDigit _ d1, isHexDigit_hexDigit _ d2, isHexDigit_hexDigit _ d3,
          isHexDigit_hexDigit _ d4]
      | false =>
        simp only [if_neg h1, if_neg h2, Bool.false_eq_true, if_false, List.cons_append, List.nil_append]
        rw [quotedBodyLoop.eq_def]; simp [h1, h2]

theorem quotedBodyLoop_escQuoted (q : Char) (k : List Char) (hq : q ≠ 'u') :
    quotedBodyLoop q (escQuoted q k) = true := by
  induction k with
  | nil => rfl
  | cons c r ih => rw [escQuoted_cons, quotedBodyLoop_escQuotedChar q c _ hq, ih]

end JPV.Lex
