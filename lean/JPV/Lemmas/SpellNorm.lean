/-
SpellNorm — the action machine commutes with `normSt` (clearing the `omitted` flag of slice steps).

Every action except 16 commutes EXACTLY (`act_norm_exact`). Action 16 (`index`: slice) builds a `.sub` entry out of
three `.idx` entries, which `normSt` does not touch: on `normSt st` it pushes the slice with the flag of its step
still set. So the machine commutes with `normSt` only up to a final `normSt` (`act_norm`, `execFrom_norm`).
-/
import JPV.Lemmas.SpellNormDefs
import JPV.Lemmas.ParsePrintChain
namespace JPV.SP
open JPV.Peg

/-! ### unfolding -/

theorem normCh_nil : normCh [] = [] := by rw [normCh]
theorem normCh_cons (n : N) (rest : List N) : normCh (n :: rest) = normN n :: normCh rest := by rw [normCh]

theorem normCh_eq_map : ∀ (l : List N), normCh l = l.map normN
  | [] => by rw [normCh_nil]; rfl
  | n :: rest => by rw [normCh_cons, normCh_eq_map rest]; rfl

theorem normCh_append (a b : List N) : normCh (a ++ b) = normCh a ++ normCh b := by
  simp only [normCh_eq_map, List.map_append]

theorem normCh_single (n : N) : normCh [n] = [normN n] := by rw [normCh_cons, normCh_nil]

/-! ### idempotence -/

theorem normBound_idem (b : Bound) : normBound (normBound b) = normBound b := rfl

theorem normSub_idem (s : SubI) : normSub (normSub s) = normSub s := by
  cases s <;> rfl

theorem normSub_map_idem (l : List SubI) : (l.map normSub).map normSub = l.map normSub := by
  rw [List.map_map]
  apply List.map_congr_left
  intro x _
  exact normSub_idem x

mutual
theorem normN_idem : ∀ (n : N), normN (normN n) = normN n
  | .root i => by rw [normN, normN]
  | .cur i => by rw [normN, normN]
  | .child i k => by rw [normN, normN]
  | .wild i => by rw [normN, normN]
  | .multi i ids t => by rw [normN, normN]
  | .desc i a b => by rw [normN, normN]
  | .union i s => by rw [normN, normN, normSub_map_idem]
  | .filter i q => by
    have ih := normQ_idem q
    rw [normN, normN, ih]
  | .ffn i n => by rw [normN, normN]
  | .afn i n p => by
    have ih := normCh_idem p
    rw [normN, normN, ih]
theorem normCh_idem : ∀ (l : List N), normCh (normCh l) = normCh l
  | [] => by rw [normCh, normCh]
  | n :: rest => by
    have ih1 := normN_idem n
    have ih2 := normCh_idem rest
    rw [normCh_cons, normCh_cons, ih1, ih2]
theorem normQ_idem : ∀ (q : Q), normQ (normQ q) = normQ q
  | .or a b => by
    have ih1 := normQ_idem a
    have ih2 := normQ_idem b
    rw [normQ, normQ, ih1, ih2]
  | .and a b => by
    have ih1 := normQ_idem a
    have ih2 := normQ_idem b
    rw [normQ, normQ, ih1, ih2]
  | .not a => by
    have ih1 := normQ_idem a
    rw [normQ, normQ, ih1]
  | .cmp l r c => by
    have ih1 := normP_idem l
    have ih2 := normP_idem r
    rw [normQ, normQ, ih1, ih2]
  | .exist p => by
    have ih1 := normP_idem p
    rw [normQ, normQ, ih1]
theorem normP_idem : ∀ (p : P), normP (normP p) = normP p
  | .lit v => by rw [normP, normP]
  | .proot ch => by
    have ih := normCh_idem ch
    rw [normP, normP, ih]
  | .pcur ch => by
    have ih := normCh_idem ch
    rw [normP, normP, ih]
end

theorem normItem_idem (x : Item) : normItem (normItem x) = normItem x := by
  cases x <;> simp only [normItem, normCh_idem, normSub_idem, normQ_idem, normP_idem]

theorem normItems_idem (l : List Item) : (l.map normItem).map normItem = l.map normItem := by
  rw [List.map_map]
  apply List.map_congr_left
  intro x _
  exact normItem_idem x

theorem normSt_idem (st : St) : normSt (normSt st) = normSt st := by
  cases st with
  | mk stack saved root tb te =>
    have h1 := normItems_idem stack
    have h2 : (saved.map (fun fr => fr.map normItem)).map (fun fr => fr.map normItem)
        = saved.map (fun fr => fr.map normItem) := by
      rw [List.map_map]
      apply List.map_congr_left
      intro fr _
      exact normItems_idem fr
    have h3 : (root.map normCh).map normCh = root.map normCh := by
      cases root with
      | none => rfl
      | some r => simp only [Option.map_some, normCh_idem]
    simp only [normSt]
    rw [h1, h2, h3]

/-! ### node level -/

theorem normN_info (n : N) : (normN n).info = n.info := by
  cases n <;> simp only [normN, N.info]

theorem normN_setVg (n : N) : normN n.setVg = (normN n).setVg := by
  cases n <;> simp only [normN, N.setVg]

theorem normN_nMapInfoDeep (f : Info → Info) (n : N) : normN (nMapInfoDeep f n) = nMapInfoDeep f (normN n) := by
  cases n <;> simp only [normN, nMapInfoDeep, nMapInfo]

theorem normN_nSetText (t : String) (n : N) : normN (nSetText t n) = nSetText t (normN n) :=
  normN_nMapInfoDeep _ n

theorem normN_nSetAcc (m : Bool) (n : N) : normN (nSetAcc m n) = nSetAcc m (normN n) :=
  normN_nMapInfoDeep _ n

theorem setAccChain_norm (m : Bool) (ch : List N) : setAccChain m (normCh ch) = normCh (setAccChain m ch) := by
  simp only [setAccChain, normCh_eq_map, List.map_map]
  apply List.map_congr_left
  intro n _
  exact (normN_nSetAcc m n).symm

theorem chainVg_norm (ch : List N) : chainVg (normCh ch) = chainVg ch := by
  cases ch with
  | nil => rw [normCh_nil]
  | cons n rest => rw [normCh_cons]; simp only [chainVg, normN_info]

theorem anyVg_norm : ∀ (l : List N), (normCh l).any (fun x => x.info.vg) = l.any (fun x => x.info.vg)
  | [] => by rw [normCh_nil]
  | n :: rest => by rw [normCh_cons]; simp only [List.any_cons, normN_info, anyVg_norm rest]

theorem markVg_norm (l : List N) : markVg (normCh l) = normCh (markVg l) := by
  cases l with
  | nil => rw [normCh_nil]; simp only [markVg, normCh_nil]
  | cons n rest =>
    have h := anyVg_norm (n :: rest)
    rw [normCh_cons] at h
    rw [normCh_cons]
    simp only [markVg, h]
    generalize (n :: rest).any (fun x => x.info.vg) = b
    cases b
    · simp only [Bool.false_eq_true, if_false, normCh_cons]
    · simp only [if_true, normCh_cons, normN_setVg]

theorem connApp_norm (c : String) (l : List N) : PP.connApp c (normCh l) = PP.connApp c l := by
  cases l with
  | nil => rw [normCh_nil]
  | cons n rest => rw [normCh_cons]; simp only [PP.connApp, normN_info]

mutual
theorem connNode_norm : ∀ (c : String) (n : N), connNode c (normN n) = normN (connNode c n)
  | c, .afn i name p => by
    have ih := connChain_norm c p
    rw [normN, connNode, connNode, normN, ih]
  | c, .multi i ids t => by rw [normN, connNode, normN]
  | c, .root i => by rw [normN, connNode, normN]
  | c, .cur i => by rw [normN, connNode, normN]
  | c, .child i k => by rw [normN, connNode, normN]
  | c, .wild i => by rw [normN, connNode, normN]
  | c, .desc i a b => by rw [normN, connNode, normN]
  | c, .union i s => by rw [normN, connNode, connNode, normN]
  | c, .filter i q => by rw [normN, connNode, connNode, normN]
  | c, .ffn i n => by rw [normN, connNode, normN]
theorem connChain_norm : ∀ (c : String) (l : List N), connChain c (normCh l) = normCh (connChain c l)
  | c, [] => by rw [normCh_nil, PP.connChain_nil, normCh_nil]
  | c, n :: rest => by
    have ih1 := connNode_norm (n.info.text ++ PP.connApp c (connChain c rest)) n
    have ih2 := connChain_norm c rest
    rw [normCh_cons, PP.connChain_cons, PP.connChain_cons, normCh_cons, ih2, connApp_norm, normN_info, ih1]
end

mutual
theorem delRootNode_norm : ∀ (n : N) (rest : List N),
    delRootNode (normN n) (normCh rest) = normCh (delRootNode n rest)
  | .afn i name p, rest => by
    have ih := delRoot_norm p
    rw [normN, delRootNode, delRootNode, normCh_cons, normN, ih]
  | .root i, [] => by simp only [normN, normCh_nil, delRootNode, normCh_cons]
  | .root i, m :: rest => by
    rw [normN, normCh_cons, delRootNode, delRootNode, normCh_cons]
    cases i.vg <;> simp only [if_true, if_false, normN_setVg, Bool.false_eq_true]
  | .cur i, [] => by simp only [normN, normCh_nil, delRootNode, normCh_cons]
  | .cur i, m :: rest => by
    rw [normN, normCh_cons, delRootNode, delRootNode, normCh_cons]
    cases i.vg <;> simp only [if_true, if_false, normN_setVg, Bool.false_eq_true]
  | .child i k, rest => by simp only [normN, delRootNode, normCh_cons]
  | .wild i, rest => by simp only [normN, delRootNode, normCh_cons]
  | .multi i ids t, rest => by simp only [normN, delRootNode, normCh_cons]
  | .desc i a b, rest => by simp only [normN, delRootNode, normCh_cons]
  | .union i s, rest => by simp only [normN, delRootNode, normCh_cons]
  | .filter i q, rest => by simp only [normN, delRootNode, normCh_cons]
  | .ffn i n, rest => by simp only [normN, delRootNode, normCh_cons]
theorem delRoot_norm : ∀ (l : List N), delRoot (normCh l) = normCh (delRoot l)
  | [] => by rw [normCh_nil, PP.delRoot_nil, normCh_nil]
  | n :: rest => by
    have ih := delRootNode_norm n rest
    rw [normCh_cons, PP.delRoot_cons, PP.delRoot_cons, ih]
end

mutual
theorem innerHeadNode_norm : ∀ (n : N), innerHeadNode (normN n) = innerHeadNode n
  | .afn i name p => by
    have ih := innerHead_norm p
    rw [normN, innerHeadNode, innerHeadNode, ih]
  | .root i => by rw [normN]
  | .cur i => by rw [normN]
  | .child i k => by rw [normN]
  | .wild i => by rw [normN]
  | .multi i ids t => by rw [normN]
  | .desc i a b => by rw [normN]
  | .union i s => by simp only [normN, innerHeadNode]
  | .filter i q => by simp only [normN, innerHeadNode]
  | .ffn i n => by rw [normN]
theorem innerHead_norm : ∀ (l : List N), innerHead (normCh l) = innerHead l
  | [] => by rw [normCh_nil]
  | n :: rest => by
    have ih := innerHeadNode_norm n
    rw [normCh_cons, innerHead, innerHead, ih]
end

/-! ### items -/

theorem asNode_norm (x : Item) : asNode (normItem x) = (asNode x).map normCh := by
  cases x with
  | chain ch =>
    cases ch with
    | nil => simp only [normItem, normCh_nil, asNode]; rfl
    | cons n tl => simp only [normItem, normCh_cons, asNode]; rfl
  | _ => rfl

theorem asStr_norm (x : Item) : asStr (normItem x) = asStr x := by cases x <;> rfl
theorem asIdx_norm (x : Item) : asIdx (normItem x) = asIdx x := by cases x <;> rfl
theorem asBool_norm (x : Item) : asBool (normItem x) = asBool x := by cases x <;> rfl

theorem asSubscript_norm (x : Item) :
    asSubscript (normItem x) = (asSubscript x).map (fun p => (normSub p.1, p.2)) := by
  cases x with
  | sub s => cases s <;> rfl
  | _ => rfl

theorem asUnion_norm (x : Item) :
    asUnion (normItem x) = (asUnion x).map (fun p => (p.1, p.2.1.map normSub, normCh p.2.2)) := by
  cases x with
  | chain ch =>
    cases ch with
    | nil => simp only [normItem, normCh_nil, asUnion]; rfl
    | cons n tl => cases n <;> simp only [normItem, normCh_cons, normN, asUnion] <;> rfl
  | _ => rfl

theorem asQuery_norm (x : Item) : asQuery (normItem x) = (asQuery x).map normQ := by cases x <;> rfl
theorem asCP_norm (x : Item) : asCP (normItem x) = (asCP x).map normP := by cases x <;> rfl

theorem asJP_norm (x : Item) : asJP (normItem x) = (asJP x).map normP := by
  cases x with
  | query q =>
    cases q with
    | exist p => cases p <;> simp only [normItem, normQ, normP, asJP] <;> rfl
    | _ => simp only [normItem, normQ, asJP] <;> rfl
  | _ => rfl

theorem isCurP_norm (p : P) : isCurP (normP p) = isCurP p := by cases p <;> simp only [normP, isCurP]

theorem paramChain_norm (p : P) : paramChain (normP p) = normCh (paramChain p) := by
  cases p <;> simp only [normP, paramChain, normCh_nil]

theorem rank_norm (p : P) : rank (normP p) = rank p := by cases p <;> simp only [normP, rank]

theorem twoCurrentNodes_norm (x : Item) : twoCurrentNodes (normItem x) = twoCurrentNodes x := by
  cases x with
  | query q =>
    cases q with
    | not a => cases a <;> simp only [normItem, normQ, twoCurrentNodes, isCurP_norm]
    | _ => simp only [normItem, normQ, twoCurrentNodes, isCurP_norm]
  | _ => rfl

/-! ### states: push, pop, text -/

theorem push_norm (x : Item) (st : St) : push (normItem x) (normSt st) = normSt (push x st) := rfl

theorem push_fresh (x : Item) (st : St) (h : normItem x = x) : push x (normSt st) = normSt (push x st) := by
  rw [← push_norm, h]

theorem push_of (x y : Item) (st : St) (h : normItem y = x) : push x (normSt st) = normSt (push y st) := by
  rw [← push_norm, h]

theorem text_norm (c : Ctx) (st : St) : (normSt st).text c = st.text c := rfl
theorem tb_norm (st : St) : (normSt st).tb = st.tb := rfl

theorem pop_norm (st : St) : pop (normSt st) = (pop st).map (fun p => (normItem p.1, normSt p.2)) := by
  cases st with
  | mk stack saved root tb te => cases stack <;> rfl

theorem saveParams_norm (st : St) : saveParams (normSt st) = normSt (saveParams st) := by
  cases st with
  | mk stack saved root tb te => cases stack <;> rfl

theorem loadParams_norm (st : St) : loadParams (normSt st) = normSt (loadParams st) := by
  cases st with
  | mk stack saved root tb te =>
    cases saved with
    | nil => rfl
    | cons fr rest => simp only [loadParams, normSt, List.map_cons, List.map_append]

/-! ### helpers of jsonpath_parser.go -/

theorem linkOne_norm (root : List N) (it : Item) :
    linkOne (normCh root) (normItem it) = (linkOne root it).map normCh := by
  cases it with
  | chain ch =>
    cases ch with
    | nil => simp only [normItem, normCh_nil, linkOne, asNode]; rfl
    | cons n tl =>
      cases n <;>
        simp only [normItem, normCh_cons, normN, linkOne, asNode, markVg_norm, setAccChain_norm, bind, Except.bind,
          Except.map, normCh_append]
  | _ => rfl

theorem linkAll_norm : ∀ (root : List N) (its : List Item),
    linkAll (normCh root) (its.map normItem) = (linkAll root its).map normCh
  | root, [] => rfl
  | root, it :: rest => by
    simp only [List.map_cons, linkAll, bind, Except.bind]
    rw [linkOne_norm]
    cases linkOne root it with
    | error e => rfl
    | ok r => exact linkAll_norm r rest

theorem setNodeChain_norm (st : St) : setNodeChain (normSt st) = (setNodeChain st).map normSt := by
  cases st with
  | mk stack saved root tb te =>
    obtain ⟨r, rfl⟩ : ∃ r, stack = r.reverse := ⟨stack.reverse, (List.reverse_reverse _).symm⟩
    simp only [setNodeChain, normSt, List.map_reverse, List.reverse_reverse]
    cases r with
    | nil => rfl
    | cons first rest =>
      cases rest with
      | nil => rfl
      | cons second rest =>
        simp only [List.map_cons, bind, Except.bind]
        rw [asNode_norm]
        cases asNode first with
        | error e => rfl
        | ok ch =>
          have h := linkAll_norm ch (second :: rest)
          simp only [List.map_cons] at h
          simp only [Except.map, h]
          cases linkAll ch (second :: rest) with
          | error e => rfl
          | ok r => simp only [normSt, List.map_cons, List.map_nil, normItem]

theorem updateRootValueGroup_norm (st : St) :
    updateRootValueGroup (normSt st) = (updateRootValueGroup st).map normSt := by
  cases st with
  | mk stack saved root tb te =>
    obtain ⟨r, rfl⟩ : ∃ r, stack = r.reverse := ⟨stack.reverse, (List.reverse_reverse _).symm⟩
    simp only [updateRootValueGroup, normSt, List.map_reverse, List.reverse_reverse]
    cases r with
    | nil => rfl
    | cons first rest =>
      simp only [List.map_cons, bind, Except.bind]
      rw [asNode_norm]
      cases asNode first with
      | error e => rfl
      | ok ch => simp only [Except.map, normSt, List.map_reverse, List.map_cons, normItem, markVg_norm]

theorem setLastNodeText_norm (t : String) (st : St) :
    setLastNodeText t (normSt st) = (setLastNodeText t st).map normSt := by
  cases st with
  | mk stack saved root tb te =>
    cases stack with
    | nil => rfl
    | cons top rest =>
      simp only [setLastNodeText, normSt, List.map_cons, bind, Except.bind]
      rw [asNode_norm]
      cases asNode top with
      | error e => rfl
      | ok ch =>
        cases ch with
        | nil => simp only [Except.map, normCh_nil]
        | cons n tl => simp only [Except.map, normSt, normCh_cons, List.map_cons, normItem, normN_nSetText]

theorem pushFunction_norm (c : Ctx) (text name : String) (st : St) :
    pushFunction c text name (normSt st) = (pushFunction c text name st).map normSt := by
  simp only [pushFunction]
  cases c.env.ffn name with
  | some f => exact congrArg Except.ok (push_fresh _ st (by simp only [normItem, normCh_cons, normCh_nil, normN]))
  | none =>
    cases c.env.afn name with
    | some f => exact congrArg Except.ok (push_fresh _ st (by simp only [normItem, normCh_cons, normCh_nil, normN]))
    | none => rfl

theorem pushChildSingle_norm (c : Ctx) (k : String) (st : St) :
    pushChildSingle c k (normSt st) = normSt (pushChildSingle c k st) :=
  push_fresh _ st (by simp only [normItem, normCh_cons, normCh_nil, normN])

theorem toMId_norm (l : List N) : toMId (normCh l) = toMId l := by
  cases l with
  | nil => rw [normCh_nil]
  | cons n tl =>
    cases tl with
    | nil => cases n <;> simp only [normCh_cons, normCh_nil, normN, toMId]
    | cons m tl => cases n <;> simp only [normCh_cons, normN, toMId]

theorem pushChildMulti_norm (c : Ctx) (node app : List N) (st : St) :
    pushChildMulti c (normCh node) (normCh app) (normSt st) = (pushChildMulti c node app st).map normSt := by
  cases node with
  | nil =>
    simp only [normCh_nil, pushChildMulti, toMId, bind, Except.bind]
    rfl
  | cons n tl =>
    have hn := toMId_norm (n :: tl)
    cases n with
    | multi i ids t =>
      simp only [normCh_cons, normN, pushChildMulti, toMId_norm, bind, Except.bind]
      cases toMId app with
      | error e => rfl
      | ok r =>
        simp only [Except.map]
        exact congrArg Except.ok (push_of _ _ st (by simp only [normItem, normCh_cons, normN]))
    | _ =>
      simp only [normCh_cons, normN] at hn
      simp only [normCh_cons, normN, pushChildMulti, toMId_norm, hn, bind, Except.bind]
      cases toMId (_ :: tl) with
      | error e => rfl
      | ok r1 =>
        cases toMId app with
        | error e => rfl
        | ok r2 =>
          simp only [Except.map]
          exact congrArg Except.ok (push_fresh _ st (by simp only [normItem, normCh_cons, normCh_nil, normN]))

theorem pushRecursiveChild_norm (c : Ctx) (node : List N) (st : St) :
    pushRecursiveChild c (normCh node) (normSt st) = normSt (pushRecursiveChild c node st) := by
  cases node with
  | nil =>
    simp only [normCh_nil, pushRecursiveChild]
    exact push_of _ _ st (by simp only [normItem, normCh_cons, normCh_nil, normN])
  | cons n tl =>
    cases n <;> simp only [normCh_cons, normN, pushRecursiveChild] <;>
      exact push_of _ _ st (by simp only [normItem, normCh_cons, normN])

theorem pushIndexSubscript_norm (c : Ctx) (text : String) (om : Bool) (st : St) :
    pushIndexSubscript c text om (normSt st) = (pushIndexSubscript c text om st).map normSt := by
  simp only [pushIndexSubscript]
  cases c.ext.atoi text <;> rfl

/-! ### the actions -/

/-- unfold the monad operations of `Except` -/
macro "xs" : tactic => `(tactic| simp only [Except.map, Except.bind, bind])

theorem act0_norm (c : Ctx) (st : St) : act0 c (normSt st) = (act0 c st).map normSt := by
  simp only [act0, bind, Except.bind]
  rw [pop_norm]
  cases pop st with
  | error e => rfl
  | ok p =>
    obtain ⟨x, st'⟩ := p
    xs
    rw [asNode_norm]
    cases asNode x with
    | error e => rfl
    | ok ch =>
      xs
      rw [delRoot_norm, connChain_norm]
      rfl

theorem act1_norm (c : Ctx) (st : St) : act1 c (normSt st) = (act1 c st).map normSt := rfl

theorem act2_norm (c : Ctx) (st : St) : act2 c (normSt st) = (act2 c st).map normSt := by
  simp only [act2, bind, Except.bind]
  rw [setNodeChain_norm]
  cases setNodeChain st with
  | error e => rfl
  | ok st' => xs; exact updateRootValueGroup_norm st'

theorem act3_norm (c : Ctx) (st : St) : act3 c (normSt st) = (act3 c st).map normSt := by
  simp only [act3, bind, Except.bind]
  rw [pop_norm]
  cases pop st with
  | error e => rfl
  | ok p =>
    obtain ⟨x, st'⟩ := p
    xs
    rw [asNode_norm]
    cases asNode x with
    | error e => rfl
    | ok ch => xs; exact congrArg Except.ok (pushRecursiveChild_norm c ch st')

theorem act4_norm (c : Ctx) (st : St) : act4 c (normSt st) = (act4 c st).map normSt :=
  setLastNodeText_norm (st.text c) st

theorem act5_norm (c : Ctx) (st : St) : act5 c (normSt st) = (act5 c st).map normSt := by
  simp only [act5, bind, Except.bind]
  rw [pop_norm]
  cases pop st with
  | error e => rfl
  | ok p =>
    obtain ⟨x, st'⟩ := p
    xs
    rw [asStr_norm]
    cases asStr x with
    | error e => rfl
    | ok name => xs; exact pushFunction_norm c (st'.text c) name st'

theorem act6_norm (c : Ctx) (st : St) : act6 c (normSt st) = (act6 c st).map normSt :=
  congrArg Except.ok (push_norm (.str (st.text c)) st)

theorem act7_norm (c : Ctx) (st : St) : act7 c (normSt st) = (act7 c st).map normSt :=
  setLastNodeText_norm (st.text c) st

theorem act8_norm (c : Ctx) (st : St) : act8 c (normSt st) = (act8 c st).map normSt :=
  congrArg Except.ok (push_of _ _ st (by simp only [normItem, normCh_cons, normCh_nil, normN]))

theorem act9_norm (c : Ctx) (st : St) : act9 c (normSt st) = (act9 c st).map normSt :=
  congrArg Except.ok (push_of _ _ st (by simp only [normItem, normCh_cons, normCh_nil, normN]))

theorem act10_norm (c : Ctx) (st : St) : act10 c (normSt st) = (act10 c st).map normSt :=
  congrArg Except.ok (pushChildSingle_norm c (c.ext.unescape (st.text c)) st)

theorem act11_norm (c : Ctx) (st : St) : act11 c (normSt st) = (act11 c st).map normSt := by
  simp only [act11, bind, Except.bind]
  rw [pop_norm]
  cases pop st with
  | error e => rfl
  | ok p =>
    obtain ⟨x2, st'⟩ := p
    xs
    rw [asNode_norm]
    cases asNode x2 with
    | error e => rfl
    | ok id2 =>
      xs
      rw [pop_norm]
      cases pop st' with
      | error e => rfl
      | ok p =>
        obtain ⟨x1, st''⟩ := p
        xs
        rw [asNode_norm]
        cases asNode x1 with
        | error e => rfl
        | ok id1 => xs; exact pushChildMulti_norm c id1 id2 st''

theorem act12_norm (c : Ctx) (st : St) : act12 c (normSt st) = (act12 c st).map normSt :=
  congrArg Except.ok (push_of _ _ st (by simp only [normItem, normCh_cons, normCh_nil, normN]))

theorem act13_norm (c : Ctx) (st : St) : act13 c (normSt st) = (act13 c st).map normSt := by
  simp only [act13, text_norm]
  cases c.ext.unescapeSingle (st.text c) with
  | none => rfl
  | some k => exact congrArg Except.ok (pushChildSingle_norm c k st)

theorem act14_norm (c : Ctx) (st : St) : act14 c (normSt st) = (act14 c st).map normSt := by
  simp only [act14, text_norm]
  cases c.ext.unescapeDouble (st.text c) with
  | none => rfl
  | some k => exact congrArg Except.ok (pushChildSingle_norm c k st)

theorem act15_norm (c : Ctx) (st : St) : act15 c (normSt st) = (act15 c st).map normSt := by
  simp only [act15, bind, Except.bind]
  rw [pop_norm]
  cases pop st with
  | error e => rfl
  | ok p =>
    obtain ⟨x, st'⟩ := p
    xs
    rw [asUnion_norm]
    cases asUnion x with
    | error e => rfl
    | ok u =>
      obtain ⟨ci, csubs, crest⟩ := u
      xs
      rw [pop_norm]
      cases pop st' with
      | error e => rfl
      | ok p =>
        obtain ⟨y, st''⟩ := p
        xs
        rw [asUnion_norm]
        cases asUnion y with
        | error e => rfl
        | ok u =>
          obtain ⟨i, psubs, rest⟩ := u
          xs
          exact congrArg Except.ok (push_of _ _ st''
            (by simp only [normItem, normCh_cons, normN, List.map_append]))

theorem normSt_push_normSt (x : Item) (st : St) : normSt (push x (normSt st)) = normSt (push x st) := by
  rw [← push_norm, ← push_norm, normSt_idem]

/-- action 16 creates a `.sub` entry out of `.idx` entries, which `normSt` does not touch: it commutes only up to
    a final `normSt` -/
theorem act16_norm (c : Ctx) (st : St) : (act16 c (normSt st)).map normSt = (act16 c st).map normSt := by
  simp only [act16, bind, Except.bind]
  rw [pop_norm]
  cases pop st with
  | error e => rfl
  | ok p =>
    obtain ⟨x, st1⟩ := p
    xs
    rw [asIdx_norm]
    cases asIdx x with
    | error e => rfl
    | ok step =>
      xs
      rw [pop_norm]
      cases pop st1 with
      | error e => rfl
      | ok p =>
        obtain ⟨y, st2⟩ := p
        xs
        rw [asIdx_norm]
        cases asIdx y with
        | error e => rfl
        | ok e =>
          xs
          rw [pop_norm]
          cases pop st2 with
          | error e => rfl
          | ok p =>
            obtain ⟨z, st3⟩ := p
            xs
            rw [asIdx_norm]
            cases asIdx z with
            | error e => rfl
            | ok s =>
              xs
              by_cases h : (if step.omitted = true then { step with number := 1 } else step).number ≥ 0
              · simp only [h, if_true, normSt_push_normSt]
              · simp only [h, if_false, normSt_push_normSt]

theorem act17_norm (c : Ctx) (st : St) : act17 c (normSt st) = (act17 c st).map normSt :=
  pushIndexSubscript_norm c (st.text c) false st

theorem act18_norm (c : Ctx) (st : St) : act18 c (normSt st) = (act18 c st).map normSt :=
  congrArg Except.ok (push_norm (.sub .wild) st)

theorem act19_norm (c : Ctx) (st : St) : act19 c (normSt st) = (act19 c st).map normSt := by
  simp only [act19, bind, Except.bind]
  rw [pop_norm]
  cases pop st with
  | error e => rfl
  | ok p =>
    obtain ⟨x, st'⟩ := p
    xs
    rw [asSubscript_norm]
    cases asSubscript x with
    | error e => rfl
    | ok r =>
      obtain ⟨s, vg⟩ := r
      xs
      exact congrArg Except.ok (push_of _ _ st'
        (by simp only [normItem, normCh_cons, normCh_nil, normN, List.map_cons, List.map_nil]))

theorem act20_norm (c : Ctx) (st : St) : act20 c (normSt st) = (act20 c st).map normSt :=
  pushIndexSubscript_norm c "1" false st

theorem act21_norm (c : Ctx) (st : St) : act21 c (normSt st) = (act21 c st).map normSt := by
  simp only [act21, text_norm]
  by_cases h : (st.text c).length > 0
  · simp only [h, if_true]; exact pushIndexSubscript_norm c (st.text c) false st
  · simp only [h, if_false]; exact pushIndexSubscript_norm c "0" true st

theorem act22_norm (c : Ctx) (st : St) : act22 c (normSt st) = (act22 c st).map normSt := rfl

theorem act23_norm (c : Ctx) (st : St) : act23 c (normSt st) = (act23 c st).map normSt := by
  simp only [act23, bind, Except.bind]
  rw [pop_norm]
  cases pop st with
  | error e => rfl
  | ok p =>
    obtain ⟨x, st'⟩ := p
    xs
    rw [asQuery_norm]
    cases asQuery x with
    | error e => rfl
    | ok q =>
      xs
      exact congrArg Except.ok (push_of _ _ st' (by simp only [normItem, normCh_cons, normCh_nil, normN]))

theorem act24_norm (c : Ctx) (st : St) : act24 c (normSt st) = (act24 c st).map normSt := by
  simp only [act24, bind, Except.bind]
  rw [pop_norm]
  cases pop st with
  | error e => rfl
  | ok p =>
    obtain ⟨x, st'⟩ := p
    xs
    rw [asQuery_norm]
    cases asQuery x with
    | error e => rfl
    | ok r =>
      xs
      rw [pop_norm]
      cases pop st' with
      | error e => rfl
      | ok p =>
        obtain ⟨y, st''⟩ := p
        xs
        rw [asQuery_norm]
        cases asQuery y with
        | error e => rfl
        | ok l =>
          xs
          exact congrArg Except.ok (push_of _ _ st'' (by simp only [normItem, normQ]))

theorem act25_norm (c : Ctx) (st : St) : act25 c (normSt st) = (act25 c st).map normSt := by
  simp only [act25, bind, Except.bind]
  rw [pop_norm]
  cases pop st with
  | error e => rfl
  | ok p =>
    obtain ⟨x, st'⟩ := p
    xs
    rw [asQuery_norm]
    cases asQuery x with
    | error e => rfl
    | ok r =>
      xs
      rw [pop_norm]
      cases pop st' with
      | error e => rfl
      | ok p =>
        obtain ⟨y, st''⟩ := p
        xs
        rw [asQuery_norm]
        cases asQuery y with
        | error e => rfl
        | ok l =>
          xs
          exact congrArg Except.ok (push_of _ _ st'' (by simp only [normItem, normQ]))

theorem act26_norm (c : Ctx) (st : St) : act26 c (normSt st) = (act26 c st).map normSt := by
  simp only [act26, bind, Except.bind]
  rw [pop_norm]
  cases pop st with
  | error e => rfl
  | ok p =>
    obtain ⟨x, st'⟩ := p
    xs
    rw [twoCurrentNodes_norm]
    cases twoCurrentNodes x with
    | true => rfl
    | false => rfl

theorem act27_norm (c : Ctx) (st : St) : act27 c (normSt st) = (act27 c st).map normSt := by
  simp only [act27, bind, Except.bind]
  rw [pop_norm]
  cases pop st with
  | error e => rfl
  | ok p =>
    obtain ⟨x, st'⟩ := p
    xs
    rw [pop_norm]
    cases pop st' with
    | error e => rfl
    | ok p =>
      obtain ⟨y, st''⟩ := p
      xs
      rw [asQuery_norm]
      cases asQuery y with
      | error e => rfl
      | ok q =>
        xs
        rw [text_norm]
        cases (st''.text c).toList with
        | nil => rfl
        | cons ch _ =>
          by_cases h : (ch == '!') = true
          · simp only [h, if_true]
            exact congrArg Except.ok (push_of _ _ st'' (by simp only [normItem, normQ]))
          · simp only [h]
            exact congrArg Except.ok (push_of _ _ st'' (by simp only [normItem]))

theorem mkEQ_norm (l r : P) : mkEQ (normP l) (normP r) = normQ (mkEQ l r) := by
  cases l <;> cases r <;> simp only [normP, mkEQ, rank] <;> rfl

theorem mkGE_norm (l r : P) : mkGE (normP l) (normP r) = normQ (mkGE l r) := by
  simp only [mkGE, rank_norm]
  by_cases h : rank l > rank r
  · simp only [h, if_true, normQ]
  · simp only [h, if_false, normQ]

theorem mkGT_norm (l r : P) : mkGT (normP l) (normP r) = normQ (mkGT l r) := by
  simp only [mkGT, rank_norm]
  by_cases h : rank l > rank r
  · simp only [h, if_true, normQ]
  · simp only [h, if_false, normQ]

theorem mkLE_norm (l r : P) : mkLE (normP l) (normP r) = normQ (mkLE l r) := by
  simp only [mkLE, rank_norm]
  by_cases h : rank l > rank r
  · simp only [h, if_true, normQ]
  · simp only [h, if_false, normQ]

theorem mkLT_norm (l r : P) : mkLT (normP l) (normP r) = normQ (mkLT l r) := by
  simp only [mkLT, rank_norm]
  by_cases h : rank l > rank r
  · simp only [h, if_true, normQ]
  · simp only [h, if_false, normQ]

theorem compareAction_norm (mk : P → P → Q) (hmk : ∀ l r, mk (normP l) (normP r) = normQ (mk l r)) (st : St) :
    compareAction mk (normSt st) = (compareAction mk st).map normSt := by
  simp only [compareAction, bind, Except.bind]
  rw [pop_norm]
  cases pop st with
  | error e => rfl
  | ok p =>
    obtain ⟨x, st'⟩ := p
    xs
    rw [asCP_norm]
    cases asCP x with
    | error e => rfl
    | ok r =>
      xs
      rw [pop_norm]
      cases pop st' with
      | error e => rfl
      | ok p =>
        obtain ⟨y, st''⟩ := p
        xs
        rw [asCP_norm]
        cases asCP y with
        | error e => rfl
        | ok l =>
          xs
          exact congrArg Except.ok (push_of _ _ st'' (by simp only [normItem, hmk]))

theorem act28_norm (c : Ctx) (st : St) : act28 c (normSt st) = (act28 c st).map normSt :=
  compareAction_norm mkEQ mkEQ_norm st

theorem act29_norm (c : Ctx) (st : St) : act29 c (normSt st) = (act29 c st).map normSt :=
  compareAction_norm _ (fun l r => by simp only [normQ, mkEQ_norm]) st

theorem act30_norm (c : Ctx) (st : St) : act30 c (normSt st) = (act30 c st).map normSt :=
  compareAction_norm mkLE mkLE_norm st

theorem act31_norm (c : Ctx) (st : St) : act31 c (normSt st) = (act31 c st).map normSt :=
  compareAction_norm mkLT mkLT_norm st

theorem act32_norm (c : Ctx) (st : St) : act32 c (normSt st) = (act32 c st).map normSt :=
  compareAction_norm mkGE mkGE_norm st

theorem act33_norm (c : Ctx) (st : St) : act33 c (normSt st) = (act33 c st).map normSt :=
  compareAction_norm mkGT mkGT_norm st

theorem act34_norm (c : Ctx) (st : St) : act34 c (normSt st) = (act34 c st).map normSt := by
  simp only [act34, bind, Except.bind]
  rw [pop_norm]
  cases pop st with
  | error e => rfl
  | ok p =>
    obtain ⟨x, st'⟩ := p
    xs
    rw [asCP_norm]
    cases asCP x with
    | error e => rfl
    | ok l =>
      xs
      rw [text_norm]
      cases c.ext.regexCompile (st'.text c) with
      | ok => exact congrArg Except.ok (push_of _ _ st' (by simp only [normItem, normQ, normP]))
      | err => rfl
      | unmodelled => rfl

theorem pushCompareParameterLiteral_norm (st : St) :
    pushCompareParameterLiteral (normSt st) = (pushCompareParameterLiteral st).map normSt := by
  simp only [pushCompareParameterLiteral, bind, Except.bind]
  rw [pop_norm]
  cases pop st with
  | error e => rfl
  | ok p =>
    obtain ⟨x, st'⟩ := p
    cases x <;> rfl

theorem act35_norm (c : Ctx) (st : St) : act35 c (normSt st) = (act35 c st).map normSt :=
  pushCompareParameterLiteral_norm st

theorem act36_norm (c : Ctx) (st : St) : act36 c (normSt st) = (act36 c st).map normSt :=
  pushCompareParameterLiteral_norm st

theorem act37_norm (c : Ctx) (st : St) : act37 c (normSt st) = (act37 c st).map normSt := by
  simp only [act37, bind, Except.bind]
  rw [pop_norm]
  cases pop st with
  | error e => rfl
  | ok p =>
    obtain ⟨x, st'⟩ := p
    xs
    rw [asBool_norm]
    cases asBool x with
    | error e => rfl
    | ok isLit =>
      xs
      rw [pop_norm]
      cases pop st' with
      | error e => rfl
      | ok p =>
        obtain ⟨y, st''⟩ := p
        xs
        rw [asJP_norm]
        cases asJP y with
        | error e => rfl
        | ok q =>
          xs
          rw [paramChain_norm, chainVg_norm, isCurP_norm]
          cases chainVg (paramChain q) with
          | true => rfl
          | false =>
            cases (isLit != !isCurP q) with
            | true => rfl
            | false => exact congrArg Except.ok (push_norm (.cp q) st'')

theorem act38_norm (c : Ctx) (st : St) : act38 c (normSt st) = (act38 c st).map normSt :=
  congrArg Except.ok (saveParams_norm st)

theorem act39_norm (c : Ctx) (st : St) : act39 c (normSt st) = (act39 c st).map normSt := by
  simp only [act39, bind, Except.bind]
  rw [loadParams_norm, pop_norm]
  cases pop (loadParams st) with
  | error e => rfl
  | ok p =>
    obtain ⟨x, st'⟩ := p
    xs
    rw [asNode_norm]
    cases asNode x with
    | error e => rfl
    | ok ch =>
      xs
      rw [innerHead_norm, delRoot_norm, setAccChain_norm]
      cases innerHead ch with
      | root => exact congrArg Except.ok (by rw [← push_norm, ← push_norm]; simp only [normItem, normQ, normP])
      | cur => exact congrArg Except.ok (by rw [← push_norm, ← push_norm]; simp only [normItem, normQ, normP])
      | other => rfl

theorem act40_norm (c : Ctx) (st : St) : act40 c (normSt st) = (act40 c st).map normSt := by
  simp only [act40, text_norm]
  cases c.ext.parseFloat (st.text c) with
  | ok n => exact congrArg Except.ok (push_norm (.num n) st)
  | err => rfl
  | unmodelled => rfl

theorem act41_norm (c : Ctx) (st : St) : act41 c (normSt st) = (act41 c st).map normSt :=
  congrArg Except.ok (push_norm (.bool true) st)

theorem act42_norm (c : Ctx) (st : St) : act42 c (normSt st) = (act42 c st).map normSt :=
  congrArg Except.ok (push_norm (.bool false) st)

theorem act43_norm (c : Ctx) (st : St) : act43 c (normSt st) = (act43 c st).map normSt :=
  congrArg Except.ok (push_norm (.str (c.ext.unescape (st.text c))) st)

theorem act44_norm (c : Ctx) (st : St) : act44 c (normSt st) = (act44 c st).map normSt :=
  congrArg Except.ok (push_norm (.str (c.ext.unescape (st.text c))) st)

theorem act45_norm (c : Ctx) (st : St) : act45 c (normSt st) = (act45 c st).map normSt :=
  congrArg Except.ok (push_norm .null st)

/-! ### the machine -/

/-- every action except 16 commutes exactly with `normSt` -/
theorem act_norm_exact (c : Ctx) (st : St) : ∀ (i : Nat), i ≠ 16 → act c i (normSt st) = (act c i st).map normSt
  | 0, _ => act0_norm c st
  | 1, _ => act1_norm c st
  | 2, _ => act2_norm c st
  | 3, _ => act3_norm c st
  | 4, _ => act4_norm c st
  | 5, _ => act5_norm c st
  | 6, _ => act6_norm c st
  | 7, _ => act7_norm c st
  | 8, _ => act8_norm c st
  | 9, _ => act9_norm c st
  | 10, _ => act10_norm c st
  | 11, _ => act11_norm c st
  | 12, _ => act12_norm c st
  | 13, _ => act13_norm c st
  | 14, _ => act14_norm c st
  | 15, _ => act15_norm c st
  | 17, _ => act17_norm c st
  | 18, _ => act18_norm c st
  | 19, _ => act19_norm c st
  | 20, _ => act20_norm c st
  | 21, _ => act21_norm c st
  | 22, _ => act22_norm c st
  | 23, _ => act23_norm c st
  | 24, _ => act24_norm c st
  | 25, _ => act25_norm c st
  | 26, _ => act26_norm c st
  | 27, _ => act27_norm c st
  | 28, _ => act28_norm c st
  | 29, _ => act29_norm c st
  | 30, _ => act30_norm c st
  | 31, _ => act31_norm c st
  | 32, _ => act32_norm c st
  | 33, _ => act33_norm c st
  | 34, _ => act34_norm c st
  | 35, _ => act35_norm c st
  | 36, _ => act36_norm c st
  | 37, _ => act37_norm c st
  | 38, _ => act38_norm c st
  | 39, _ => act39_norm c st
  | 40, _ => act40_norm c st
  | 41, _ => act41_norm c st
  | 42, _ => act42_norm c st
  | 43, _ => act43_norm c st
  | 44, _ => act44_norm c st
  | 45, _ => act45_norm c st
  | 16, h => absurd rfl h
  | _ + 46, _ => rfl

theorem map_normSt_idem (r : M St) : (r.map normSt).map normSt = r.map normSt := by
  cases r with
  | error e => rfl
  | ok s => exact congrArg Except.ok (normSt_idem s)

/-- every action commutes with `normSt` up to a final `normSt` -/
theorem act_norm (c : Ctx) (i : Nat) (st : St) : (act c i (normSt st)).map normSt = (act c i st).map normSt := by
  by_cases h : i = 16
  · subst h; exact act16_norm c st
  · rw [act_norm_exact c st i h, map_normSt_idem]

theorem step_norm (c : Ctx) (st : St) (t : Tok) : (step c (normSt st) t).map normSt = (step c st t).map normSt := by
  cases t with
  | text b e => exact congrArg Except.ok (normSt_idem { st with tb := b, te := e })
  | action i => exact act_norm c i st

/-- the action machine commutes with clearing the `omitted` flag of slice steps, up to that flag -/
theorem execFrom_norm (c : Ctx) (st : St) (toks : List Tok) :
    (execFrom c (normSt st) toks).map normSt = (execFrom c st toks).map normSt := by
  induction toks generalizing st with
  | nil => exact congrArg Except.ok (normSt_idem st)
  | cons t rest ih =>
    have h := step_norm c st t
    simp only [execFrom, bind, Except.bind]
    cases h1 : step c (normSt st) t with
    | error e1 =>
      cases h2 : step c st t with
      | error e2 => rw [h1, h2] at h; exact h
      | ok s2 => rw [h1, h2] at h; cases h
    | ok s1 =>
      cases h2 : step c st t with
      | error e2 => rw [h1, h2] at h; cases h
      | ok s2 =>
        rw [h1, h2] at h
        have hs : normSt s1 = normSt s2 := Except.ok.inj h
        show (execFrom c s1 rest).map normSt = (execFrom c s2 rest).map normSt
        rw [← ih s1, ← ih s2, hs]

theorem execFrom_norm_congr (c : Ctx) (s1 s2 : St) (toks : List Tok) (h : normSt s1 = normSt s2) :
    (execFrom c s1 toks).map normSt = (execFrom c s2 toks).map normSt := by
  rw [← execFrom_norm c s1, ← execFrom_norm c s2, h]

/-- without action 16 the machine commutes exactly with `normSt` -/
theorem execFrom_norm_exact (c : Ctx) (st : St) (toks : List Tok) (h : Tok.action 16 ∉ toks) :
    execFrom c (normSt st) toks = (execFrom c st toks).map normSt := by
  induction toks generalizing st with
  | nil => rfl
  | cons t rest ih =>
    have hr : Tok.action 16 ∉ rest := fun hm => h (List.mem_cons_of_mem _ hm)
    have hs : step c (normSt st) t = (step c st t).map normSt := by
      cases t with
      | text b e => rfl
      | action i =>
        exact act_norm_exact c st i (fun hi => h (by rw [hi]; exact List.mem_cons_self))
    simp only [execFrom, bind, Except.bind]
    rw [hs]
    cases step c st t with
    | error e => rfl
    | ok s => exact ih s hr

end JPV.SP
