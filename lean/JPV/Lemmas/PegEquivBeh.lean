/-
Lemmas/PegEquivBeh — the first-character analysis `behave` of Peg/Equiv is sound for `run` at the same fuel:
verdict F: `run` fails; verdict E: `run` fails or succeeds without moving.
-/
import JPV.Lemmas.PegEquivSem
namespace JPV.Peg

variable {g : Grammar} {inp : Array Char}

theorem Know.holds_top (pos : Nat) : Know.top.holds inp pos := by
  unfold Know.holds
  cases inp[pos]? <;> simp [Know.top, CS.mem]

theorem mFails_run {k : Know} {e : PE} {m pos : Nat} (h : mFails k e m = true) (hk : k.holds inp pos) :
    run g m e inp pos = .fail := by
  unfold mFails at h
  split at h
  · rename_i s hs
    simp only [Bool.and_eq_true, Nat.ble_eq] at h
    rw [matcher_run e s hs m pos h.1]
    unfold mres
    unfold Know.holds at hk
    cases hc : inp[pos]? with
    | none => rfl
    | some c =>
      rw [hc] at hk
      have := CS.isEmpty_sound h.2 c.toNat
      simp only [CS.mem, hk, Bool.true_and] at this
      simp [this]
  · exact absurd h (by simp)

theorem mSucceeds_run {k : Know} {e : PE} {m pos : Nat} (h : mSucceeds k e m = true) (hk : k.holds inp pos) :
    run g m e inp pos = .ok (pos + 1) [] := by
  unfold mSucceeds at h
  split at h
  · rename_i s hs
    simp only [Bool.and_eq_true, Nat.ble_eq, Bool.not_eq_true'] at h
    rw [matcher_run e s hs m pos h.1.1]
    unfold mres
    unfold Know.holds at hk
    cases hc : inp[pos]? with
    | none => rw [hc] at hk; rw [h.1.2] at hk; exact absurd hk (by simp)
    | some c =>
      rw [hc] at hk
      have := CS.isEmpty_sound h.2 c.toNat
      simp only [CS.mem, hk, Bool.true_and, Bool.not_eq_false'] at this
      simp [this]
  · exact absurd h (by simp)

theorem behave_sound : ∀ (m : Nat) (k : Know) (e : PE) (pos : Nat), k.holds inp pos →
    (behave g m k e = .F → run g m e inp pos = .fail) ∧
    (behave g m k e = .E → (run g m e inp pos = .fail ∨ ∃ t, run g m e inp pos = .ok pos t)) := by
  intro m
  induction m with
  | zero => intro k e pos _; constructor <;> intro h <;> simp [behave] at h
  | succ m ih =>
    intro k e pos hk
    by_cases hm : mFails k e (m + 1) = true
    · have hb : behave g (m + 1) k e = .F := by simp [behave, hm]
      rw [hb]
      exact ⟨fun _ => mFails_run hm hk, fun h => absurd h (by simp)⟩
    · cases e with
      | lit s =>
        have hb : behave g (m + 1) k (.lit s) =
            litBeh k s := by rw [behave]; simp [hm]
        rw [hb, run_lit]; unfold litBeh
        cases hs : s.toList with
        | nil =>
          have hl : s.length = 0 := by rw [← String.length_toList, hs]; rfl
          simp only [matchLit, if_true, hl]
          exact ⟨fun h => absurd h (by simp), fun _ => Or.inr ⟨[], rfl⟩⟩
        | cons c cs =>
          simp only
          by_cases hc : k.cs.mem c.toNat = true
          · simp [hc]
          · simp only [hc, Bool.false_eq_true, if_false]
            refine ⟨fun _ => ?_, fun h => absurd h (by simp)⟩
            have hml : matchLit inp (c :: cs) pos = false := by
              unfold Know.holds at hk
              unfold matchLit
              split
              · rename_i d hd
                rw [hd] at hk
                have hne : (c == d) = false := by
                  rw [beq_eq_false_iff_ne]; intro e; subst e; exact hc hk
                simp [hne]
              · rfl
            simp [hml]
      | cls neg rs =>
        have hb : behave g (m + 1) k (.cls neg rs) = .U := by rw [behave]; simp [hm]
        rw [hb]; exact ⟨fun h => absurd h (by simp), fun h => absurd h (by simp)⟩
      | any =>
        have hb : behave g (m + 1) k .any = .U := by rw [behave]; simp [hm]
        rw [hb]; exact ⟨fun h => absurd h (by simp), fun h => absurd h (by simp)⟩
      | seq a b =>
        have hb : behave g (m + 1) k (.seq a b) =
            (behave g m k a).seq (behave g m k b) := by rw [behave]; simp [hm]
        rw [hb, run_seq']; unfold Beh.seq
        have iha := ih k a pos hk
        have ihb := ih k b pos hk
        cases hba : behave g m k a with
        | F => simp only; rw [iha.1 hba]; exact ⟨fun _ => rfl, fun h => absurd h (by simp)⟩
        | U => exact ⟨fun h => absurd h (by simp), fun h => absurd h (by simp)⟩
        | E =>
          simp only
          rcases iha.2 hba with ha | ⟨t, ha⟩
          · rw [ha]; exact ⟨fun _ => rfl, fun _ => Or.inl rfl⟩
          · rw [ha]; simp only
            constructor
            · intro h; rw [ihb.1 h]; rfl
            · intro h
              rcases ihb.2 h with hb' | ⟨t', hb'⟩
              · rw [hb']; exact Or.inl rfl
              · rw [hb']; exact Or.inr ⟨t ++ t', rfl⟩
      | alt a b =>
        have hb : behave g (m + 1) k (.alt a b) =
            (behave g m k a).alt (behave g m k b) := by rw [behave]; simp [hm]
        rw [hb, run_alt]; unfold Beh.alt
        have iha := ih k a pos hk
        have ihb := ih k b pos hk
        have hU : ∀ {P Q : Prop}, (Beh.U = Beh.F → P) ∧ (Beh.U = Beh.E → Q) :=
          ⟨fun h => Beh.noConfusion h, fun h => Beh.noConfusion h⟩
        cases hba : behave g m k a with
        | U => cases hbb : behave g m k b <;> exact hU
        | F =>
          cases hbb : behave g m k b with
          | U => exact hU
          | F =>
            simp only
            rw [iha.1 hba]; simp only; rw [ihb.1 hbb]
            exact ⟨fun _ => rfl, fun h => Beh.noConfusion h⟩
          | E =>
            simp only
            rw [iha.1 hba]; simp only
            exact ⟨fun h => Beh.noConfusion h, fun _ => ihb.2 hbb⟩
        | E =>
          cases hbb : behave g m k b with
          | U => exact hU
          | F =>
            simp only
            refine ⟨fun h => Beh.noConfusion h, fun _ => ?_⟩
            rcases iha.2 hba with ha | ⟨t, ha⟩
            · rw [ha]; simp only; rw [ihb.1 hbb]; exact Or.inl rfl
            · rw [ha]; exact Or.inr ⟨t, rfl⟩
          | E =>
            simp only
            refine ⟨fun h => Beh.noConfusion h, fun _ => ?_⟩
            rcases iha.2 hba with ha | ⟨t, ha⟩
            · rw [ha]; simp only; exact ihb.2 hbb
            · rw [ha]; exact Or.inr ⟨t, rfl⟩
      | star a =>
        have hb : behave g (m + 1) k (.star a) =
            (behave g m k a).star := by rw [behave]; simp [hm]
        rw [hb, run_star']; unfold Beh.star
        have iha := ih k a pos hk
        cases hba : behave g m k a with
        | F =>
          simp only; rw [iha.1 hba]
          exact ⟨fun h => absurd h (by simp), fun _ => Or.inr ⟨[], rfl⟩⟩
        | E => exact ⟨fun h => absurd h (by simp), fun h => absurd h (by simp)⟩
        | U => exact ⟨fun h => absurd h (by simp), fun h => absurd h (by simp)⟩
      | plus a =>
        have hb : behave g (m + 1) k (.plus a) =
            (behave g m k a).plus := by rw [behave]; simp [hm]
        rw [hb, run_plus']; unfold Beh.plus
        have iha := ih k a pos hk
        cases hba : behave g m k a with
        | F =>
          simp only; rw [iha.1 hba]
          exact ⟨fun _ => rfl, fun h => absurd h (by simp)⟩
        | E => exact ⟨fun h => absurd h (by simp), fun h => absurd h (by simp)⟩
        | U => exact ⟨fun h => absurd h (by simp), fun h => absurd h (by simp)⟩
      | opt a =>
        have hb : behave g (m + 1) k (.opt a) =
            (behave g m k a).opt := by rw [behave]; simp [hm]
        rw [hb, run_opt]; unfold Beh.opt
        have iha := ih k a pos hk
        cases hba : behave g m k a with
        | F =>
          simp only; rw [iha.1 hba]
          exact ⟨fun h => absurd h (by simp), fun _ => Or.inr ⟨[], rfl⟩⟩
        | E =>
          simp only
          refine ⟨fun h => absurd h (by simp), fun _ => ?_⟩
          rcases iha.2 hba with ha | ⟨t, ha⟩
          · rw [ha]; exact Or.inr ⟨[], rfl⟩
          · rw [ha]; exact Or.inr ⟨t, rfl⟩
        | U => exact ⟨fun h => absurd h (by simp), fun h => absurd h (by simp)⟩
      | not a =>
        have hb : behave g (m + 1) k (.not a) =
            (if mSucceeds k a m then .F else (behave g m k a).opt) := by rw [behave]; simp [hm]
        rw [hb, run_not]; unfold Beh.opt
        by_cases hs : mSucceeds k a m = true
        · simp only [hs, if_true]
          rw [mSucceeds_run hs hk]
          exact ⟨fun _ => rfl, fun h => absurd h (by simp)⟩
        · simp only [hs, Bool.false_eq_true, if_false]
          have iha := ih k a pos hk
          cases hba : behave g m k a with
          | F =>
            simp only; rw [iha.1 hba]
            exact ⟨fun h => absurd h (by simp), fun _ => Or.inr ⟨[], rfl⟩⟩
          | E =>
            simp only
            refine ⟨fun h => absurd h (by simp), fun _ => ?_⟩
            rcases iha.2 hba with ha | ⟨t, ha⟩
            · rw [ha]; exact Or.inr ⟨[], rfl⟩
            · rw [ha]; exact Or.inl rfl
          | U => exact ⟨fun h => absurd h (by simp), fun h => absurd h (by simp)⟩
      | and a =>
        have hb : behave g (m + 1) k (.and a) = behave g m k a := by rw [behave]; simp [hm]
        rw [hb, run_and]
        have iha := ih k a pos hk
        constructor
        · intro h; rw [iha.1 h]
        · intro h
          rcases iha.2 h with ha | ⟨t, ha⟩
          · rw [ha]; exact Or.inl rfl
          · rw [ha]; exact Or.inr ⟨[], rfl⟩
      | rule x =>
        have hb : behave g (m + 1) k (.rule x) = behave g m k (ruleBody g x) := by rw [behave]; simp [hm]
        rw [hb, run_rule]
        exact ih k (ruleBody g x) pos hk
      | cap a =>
        have hb : behave g (m + 1) k (.cap a) = behave g m k a := by rw [behave]; simp [hm]
        rw [hb, run_cap]
        have iha := ih k a pos hk
        constructor
        · intro h; rw [iha.1 h]
        · intro h
          rcases iha.2 h with ha | ⟨t, ha⟩
          · rw [ha]; exact Or.inl rfl
          · rw [ha]; exact Or.inr ⟨_, rfl⟩
      | act i =>
        have hb : behave g (m + 1) k (.act i) = .E := by rw [behave]; simp [hm]
        rw [hb, run_act]
        exact ⟨fun h => absurd h (by simp), fun _ => Or.inr ⟨_, rfl⟩⟩

/-- verdict F with analysis fuel `N`: every run that answers fails, and runs with fuel ≥ N answer -/
theorem behave_F {N : Nat} {k : Know} {e : PE} {pos : Nat} (h : (behave g N k e).isF = true)
    (hk : k.holds inp pos) :
    (∀ f, N ≤ f → run g f e inp pos = .fail) ∧
    (∀ f r, run g f e inp pos = r → r ≠ .outOfFuel → r = .fail) := by
  have hF : behave g N k e = .F := by
    cases hb : behave g N k e <;> simp [hb, Beh.isF] at h ⊢
  have hN := (behave_sound N k e pos hk).1 hF
  refine ⟨fun f hle => run_lift hN (by simp) hle, fun f r hrun hr => ?_⟩
  have h1 := run_lift hrun hr (Nat.le_max_left f N)
  have h2 := run_lift hN (by simp) (Nat.le_max_right f N)
  rw [h1] at h2; exact h2

end JPV.Peg
