/-
SortKV — `Impl.sortKV` (the model of `getSortedKeys` + lookup) is a sort: its result is a
permutation of the entries, ascending by key, and does not depend on the order in which the
entries of a map with distinct keys were listed.
-/
import JPV.Impl.Retrieve
import JPV.Lemmas.ValWf
namespace JPV
namespace SortKVL
open Impl

/-- entries ordered by key, weakly / strictly -/
def keyLe (a b : String × Val) : Prop := a.1 ≤ b.1
def keyLt (a b : String × Val) : Prop := a.1 < b.1

theorem str_lt_of_le_of_ne {a b : String} (h : a ≤ b) (hne : a ≠ b) : a < b := by
  apply Decidable.byContradiction
  intro hn
  exact hne (String.le_antisymm h (String.not_lt.mp hn))

theorem str_le_of_lt {a b : String} (h : a < b) : a ≤ b :=
  String.not_lt.mp (String.lt_asymm h)

/-! ### permutation -/

theorem insertKV_perm (k : String) (v : Val) : ∀ l, (insertKV k v l).Perm ((k, v) :: l)
  | [] => List.Perm.refl _
  | (k', v') :: rest => by
    simp only [insertKV]
    split
    · exact List.Perm.refl _
    · exact ((insertKV_perm k v rest).cons (k', v')).trans (List.Perm.swap _ _ _)

theorem sortKV_perm : ∀ kvs, (sortKV kvs).Perm kvs
  | [] => List.Perm.refl _
  | (k, v) :: rest => by
    simp only [sortKV]
    exact (insertKV_perm k v (sortKV rest)).trans ((sortKV_perm rest).cons (k, v))

/-! ### sortedness -/

theorem insertKV_sorted (k : String) (v : Val) :
    ∀ l, List.Pairwise keyLe l → List.Pairwise keyLe (insertKV k v l)
  | [], _ => by simp [insertKV]
  | (k', v') :: rest, h => by
    simp only [insertKV]
    have ⟨hhd, htl⟩ := List.pairwise_cons.mp h
    split
    · rename_i hk
      refine List.pairwise_cons.mpr ⟨?_, h⟩
      intro b hb
      rcases List.mem_cons.mp hb with rfl | hb
      · exact hk
      · exact String.le_trans hk (hhd b hb)
    · rename_i hk
      refine List.pairwise_cons.mpr ⟨?_, insertKV_sorted k v rest htl⟩
      intro b hb
      rcases List.mem_cons.mp ((insertKV_perm k v rest).mem_iff.mp hb) with rfl | hb
      · exact str_le_of_lt (String.not_le.mp hk)
      · exact hhd b hb

theorem sortKV_sorted : ∀ kvs, List.Pairwise keyLe (sortKV kvs)
  | [] => List.Pairwise.nil
  | (k, v) :: rest => by
    simp only [sortKV]
    exact insertKV_sorted k v _ (sortKV_sorted rest)

/-- with pairwise distinct keys the result is strictly ascending -/
theorem sortKV_strict (kvs : List (String × Val)) (hnd : (kvs.map (·.1)).Nodup) :
    List.Pairwise keyLt (sortKV kvs) := by
  have hnd' : ((sortKV kvs).map (·.1)).Nodup := ((sortKV_perm kvs).map _).nodup_iff.mpr hnd
  have hne : List.Pairwise (fun a b : String × Val => a.1 ≠ b.1) (sortKV kvs) :=
    List.pairwise_map.mp hnd'
  exact ((sortKV_sorted kvs).and hne).imp (fun h => str_lt_of_le_of_ne h.1 h.2)

theorem keysAsc_of_pairwise : ∀ (l : List String), List.Pairwise (· < ·) l → Val.keysAsc l = true
  | [], _ => rfl
  | [_], _ => rfl
  | a :: b :: rest, h => by
    have ⟨hhd, htl⟩ := List.pairwise_cons.mp h
    simp only [Val.keysAsc, Bool.and_eq_true, decide_eq_true_eq]
    exact ⟨hhd b List.mem_cons_self, keysAsc_of_pairwise (b :: rest) htl⟩

theorem pairwise_of_keysAsc : ∀ (l : List String), Val.keysAsc l = true → List.Pairwise (· < ·) l
  | [], _ => List.Pairwise.nil
  | [_], _ => List.pairwise_singleton _ _
  | a :: b :: rest, h => by
    simp only [Val.keysAsc, Bool.and_eq_true, decide_eq_true_eq] at h
    have ih := pairwise_of_keysAsc (b :: rest) h.2
    refine List.pairwise_cons.mpr ⟨?_, ih⟩
    intro c hc
    rcases List.mem_cons.mp hc with rfl | hc
    · exact h.1
    · exact String.lt_trans h.1 ((List.pairwise_cons.mp ih).1 c hc)

/-- the result is in canonical form (`Val.keysAsc`) -/
theorem sortKV_keysAsc (kvs : List (String × Val)) (hnd : (kvs.map (·.1)).Nodup) :
    Val.keysAsc ((sortKV kvs).map (·.1)) = true :=
  keysAsc_of_pairwise _ (List.pairwise_map.mpr (sortKV_strict kvs hnd))

/-! ### uniqueness of the sorted arrangement -/

theorem eq_of_perm_of_strict_key {α : Type} (key : α → String) : ∀ (l1 l2 : List α), l1.Perm l2 →
    List.Pairwise (fun a b => key a < key b) l1 → List.Pairwise (fun a b => key a < key b) l2 → l1 = l2
  | [], l2, hp, _, _ => (List.Perm.nil_eq hp)
  | a :: t1, [], hp, _, _ => absurd (List.perm_nil.mp hp) (List.cons_ne_nil _ _)
  | a :: t1, b :: t2, hp, h1, h2 => by
    have ⟨h1hd, h1tl⟩ := List.pairwise_cons.mp h1
    have ⟨h2hd, h2tl⟩ := List.pairwise_cons.mp h2
    have hab : a = b := by
      rcases List.mem_cons.mp (hp.mem_iff.mp List.mem_cons_self) with h | ha
      · exact h
      · rcases List.mem_cons.mp (hp.mem_iff.mpr List.mem_cons_self) with h | hb
        · exact h.symm
        · exact absurd (h2hd a ha) (String.lt_asymm (h1hd b hb))
    subst hab
    rw [eq_of_perm_of_strict_key key t1 t2 (List.Perm.cons_inv hp) h1tl h2tl]

theorem eq_of_perm_of_strict (l1 l2 : List (String × Val)) (hp : l1.Perm l2)
    (h1 : List.Pairwise keyLt l1) (h2 : List.Pairwise keyLt l2) : l1 = l2 :=
  eq_of_perm_of_strict_key (·.1) l1 l2 hp h1 h2

end SortKVL
end JPV
