/-
CmpGlue — a built comparison (`Build.mkEq`, `Build.mkOrd`, `.not`, the regex comparator)
gives the verdicts `Spec.verdicts` defines, once both operands are known to denote the
specification's operand values.
-/
import JPV.Lemmas.CmpSem
namespace JPV
namespace BD
open TSem Impl Build

/-- the specification's value of an operand for one member -/
def oval (env : Env) (o : Operand) (root m : Val) : Option Val :=
  match o with
  | .lit l => some l.toVal
  | .path p => Spec.firstOf (Spec.evalPath env p root m)

theorem operandVals_eq (env : Env) (o : Operand) (root : Val) (ms : List Val) :
    Spec.operandVals env o root ms = ms.map (oval env o root) := by
  cases o <;> simp only [Spec.operandVals] <;> rfl

theorem verdicts_cmp (env : Env) (op : CmpOp) (l r : Operand) (root : Val) (ms : List Val) :
    Spec.verdicts env (.cmp op l r) root ms =
      ms.map (fun m => Spec.cmpHolds op (Spec.operandIsLit l || Spec.operandIsLit r)
        (ms.all (fun m => (oval env l root m).isNone) && ms.all (fun m => (oval env r root m).isNone))
        (oval env l root m) (oval env r root m)) := by
  simp only [Spec.verdicts, operandVals_eq, List.all_map]
  rw [zipWith_map_same]
  rfl

/-- what `buildOperand` returns for each kind of operand -/
def OpShape (o : Operand) (tp : P) : Prop :=
  match o with
  | .lit l => tp = .lit l.toVal
  | .path _ => (∃ ch, tp = .proot ch) ∨ (∃ ch, tp = .pcur ch)

/-- the built operand denotes the specification's operand values on these members -/
def OpSem (env : Env) (root : Val) (ms : List Val) (o : Operand) (tp : P) : Prop :=
  OpShape o tp ∧ ∀ m ∈ ms, pcell env tp root m = ocell (oval env o root m)

theorem cmpHolds_ord (op : CmpOp) (h1 : op ≠ .eq) (h2 : op ≠ .ne) (hl c : Bool) (x y : Option Val) :
    Spec.cmpHolds op hl c x y =
      (match x.bind Val.asNum?, y.bind Val.asNum? with
       | some p, some q => Spec.numRel op p q
       | _, _ => false) := by
  cases op <;> first | exact absurd rfl h1 | exact absurd rfl h2 | skip
  all_goals
    cases x with
    | none => cases y <;> simp [Spec.cmpHolds]
    | some a =>
      cases y with
      | none => simp only [Spec.cmpHolds, Option.bind_some, Option.bind_none]; cases Val.asNum? a <;> rfl
      | some b =>
        simp only [Spec.cmpHolds, Option.bind_some]
        cases Val.asNum? a <;> cases Val.asNum? b <;> rfl

theorem rank_le_two (p : P) : rank p ≤ 2 := by cases p <;> simp [rank]

section glue
variable (env : Env) (root : Val) (ms : List Val)

theorem ord_glue (op : CmpOp) (h1 : op ≠ .eq) (h2 : op ≠ .ne) (tl tr : P) (f g : Val → Option Val)
    (hf : ∀ m ∈ ms, pcell env tl root m = ocell (f m))
    (hg : ∀ m ∈ ms, pcell env tr root m = ocell (g m)) (hl c : Bool) :
    semQ env (mkOrd op tl tr) root ms = ms.map (fun m => Spec.cmpHolds op hl c (f m) (g m)) := by
  unfold mkOrd
  by_cases hr : rank tl > rank tr
  · rw [if_pos hr]
    rw [form_ord env root ms _ (by cases op <;> rfl) tr tl g f hg hf]
    apply List.map_congr_left
    intro m _
    rw [cmpHolds_ord op h1 h2]
    cases (f m).bind Val.asNum? <;> cases (g m).bind Val.asNum? <;>
      cases op <;> first | exact absurd rfl h1 | exact absurd rfl h2 | rfl | skip
    all_goals simp [ordRel, Spec.numRel]
  · rw [if_neg hr]
    rw [form_ord env root ms _ (by cases op <;> rfl) tl tr f g hf hg]
    apply List.map_congr_left
    intro m _
    rw [cmpHolds_ord op h1 h2]
    cases (f m).bind Val.asNum? <;> cases (g m).bind Val.asNum? <;>
      cases op <;> first | exact absurd rfl h1 | exact absurd rfl h2 | rfl | skip

theorem mkEq_lit_right (tl : P) (v : Val) :
    mkEq tl (.lit v) = .cmp tl (.lit v) (.directEq (litTyOfVal v)) := by
  cases tl <;> rfl

theorem mkEq_lit_left (v : Val) (tr : P) (h : (∃ ch, tr = .proot ch) ∨ (∃ ch, tr = .pcur ch)) :
    mkEq (.lit v) tr = .cmp tr (.lit v) (.directEq (litTyOfVal v)) := by
  rcases h with ⟨ch, rfl⟩ | ⟨ch, rfl⟩ <;> rfl

theorem cmpHolds_ne (hl c : Bool) (x y : Option Val) :
    Spec.cmpHolds .ne hl c x y = !Spec.cmpHolds .eq hl c x y := by
  simp only [Spec.cmpHolds]

theorem deep_pointwise (c : Bool) (x y : Option Val) :
    ((match x, y with | some a, some b => Val.beq a b | _, _ => false) || c) =
      Spec.cmpHolds .eq false c x y := by
  cases x <;> cases y <;> simp [Spec.cmpHolds]

theorem deep_pointwise_swap (c : Bool) (x y : Option Val) :
    ((match y, x with | some a, some b => Val.beq a b | _, _ => false) || c) =
      Spec.cmpHolds .eq false c x y := by
  cases x <;> cases y <;> simp [Spec.cmpHolds]
  rw [ValWf.beq_symm]

theorem eq_glue (l r : Operand) (tl tr : P) (hl : OpSem env root ms l tl) (hr : OpSem env root ms r tr)
    (hnc : (isCur tl && isCur tr) = false) :
    semQ env (mkEq tl tr) root ms = Spec.verdicts env (.cmp .eq l r) root ms := by
  rw [verdicts_cmp]
  cases r with
  | lit b =>
    have e : tr = .lit b.toVal := hr.1
    subst e
    rw [mkEq_lit_right, form_lit env root ms b tl (oval env l root) hl.2]
    apply List.map_congr_left
    intro m _
    simp only [Spec.operandIsLit, Bool.or_true]
    show _ = Spec.cmpHolds .eq true _ _ (some b.toVal)
    cases oval env l root m <;> simp [Spec.cmpHolds]
  | path pr =>
    cases l with
    | lit a =>
      have e : tl = .lit a.toVal := hl.1
      subst e
      rw [mkEq_lit_left _ _ hr.1, form_lit env root ms a tr (oval env (.path pr) root) hr.2]
      apply List.map_congr_left
      intro m _
      simp only [Spec.operandIsLit, Bool.true_or]
      show _ = Spec.cmpHolds .eq true _ (some a.toVal) _
      cases oval env (.path pr) root m with
      | none => simp [Spec.cmpHolds]
      | some v => simp [Spec.cmpHolds]; exact litEq_symm _ _
    | path pl =>
      simp only [Spec.operandIsLit, Bool.or_false]
      have hsl : (∃ ch, tl = .proot ch) ∨ (∃ ch, tl = .pcur ch) := hl.1
      have hsr : (∃ ch, tr = .proot ch) ∨ (∃ ch, tr = .pcur ch) := hr.1
      by_cases hrk : rank tl > rank tr
      · have e : mkEq tl tr = .cmp tr tl .deepEq := by
          rcases hsl with ⟨a, rfl⟩ | ⟨a, rfl⟩ <;> rcases hsr with ⟨b, rfl⟩ | ⟨b, rfl⟩ <;>
            first | rfl | (simp [rank] at hrk)
        rw [e, form_deep env root ms tr tl _ _ hr.2 hl.2]
        apply List.map_congr_left
        intro m _
        rw [Bool.and_comm]
        exact deep_pointwise_swap _ _ _
      · have e : mkEq tl tr = .cmp tl tr .deepEq := by
          rcases hsl with ⟨a, rfl⟩ | ⟨a, rfl⟩ <;> rcases hsr with ⟨b, rfl⟩ | ⟨b, rfl⟩ <;>
            first | rfl | (simp [rank] at hrk)
        rw [e, form_deep env root ms tl tr _ _ hl.2 hr.2]
        apply List.map_congr_left
        intro m _
        exact deep_pointwise _ _ _

theorem ne_glue (l r : Operand) (tl tr : P) (hl : OpSem env root ms l tl) (hr : OpSem env root ms r tr)
    (hnc : (isCur tl && isCur tr) = false) :
    semQ env (.not (mkEq tl tr)) root ms = Spec.verdicts env (.cmp .ne l r) root ms := by
  simp only [semQ]
  rw [eq_glue env root ms l r tl tr hl hr hnc, verdicts_cmp, verdicts_cmp, List.map_map]
  apply List.map_congr_left
  intro m _
  simp only [Function.comp, cmpHolds_ne]

/-- the whole `cmp` case of `buildQ` -/
theorem cmp_glue (op : CmpOp) (l r : Operand) (tl tr : P) (tq : Q)
    (hl : OpSem env root ms l tl) (hr : OpSem env root ms r tr)
    (hq : (if (isCur tl && isCur tr) = true then Except.error ParseErr.twoCurrentNodes else
            match op with
            | .eq => Except.ok (mkEq tl tr)
            | .ne => .ok (.not (mkEq tl tr))
            | _ => .ok (mkOrd op tl tr)) = Except.ok tq) :
    semQ env tq root ms = Spec.verdicts env (.cmp op l r) root ms := by
  by_cases hc : (isCur tl && isCur tr) = true
  · rw [if_pos hc] at hq; cases hq
  · rw [if_neg hc] at hq
    have hnc : (isCur tl && isCur tr) = false := by simpa using hc
    cases op with
    | eq => cases hq; exact eq_glue env root ms l r tl tr hl hr hnc
    | ne => cases hq; exact ne_glue env root ms l r tl tr hl hr hnc
    | lt => cases hq; rw [verdicts_cmp]; exact ord_glue env root ms .lt (by simp) (by simp) tl tr _ _ hl.2 hr.2 _ _
    | le => cases hq; rw [verdicts_cmp]; exact ord_glue env root ms .le (by simp) (by simp) tl tr _ _ hl.2 hr.2 _ _
    | gt => cases hq; rw [verdicts_cmp]; exact ord_glue env root ms .gt (by simp) (by simp) tl tr _ _ hl.2 hr.2 _ _
    | ge => cases hq; rw [verdicts_cmp]; exact ord_glue env root ms .ge (by simp) (by simp) tl tr _ _ hl.2 hr.2 _ _

theorem ptest_regex (re : String) (x : Option Val) :
    ptest env (.regex re) (ocell x) (.val (.str "regex")) =
      (match x with | some (.str s) => env.regex re s | _ => false) := by
  cases x with
  | none => rfl
  | some a => cases a <;> rfl

/-- the `regex` case of `buildQ` -/
theorem regex_glue (p : Path) (re : String) (tl : P)
    (hl : ∀ m ∈ ms, pcell env tl root m = ocell (Spec.firstOf (Spec.evalPath env p root m))) :
    semQ env (.cmp tl (.lit (.str "regex")) (.regex re)) root ms = Spec.verdicts env (.regex p re) root ms := by
  rw [semQ_cmp_typed env _ _ _ (by simp)]
  simp only [Spec.verdicts]
  apply List.map_congr_left
  intro m hm
  rw [hl m hm]
  exact ptest_regex env re _

end glue
end BD
end JPV
