/-
SpellRecA — recogniser lemmas for SPELLED constructs (JPV/Spell.lean), part A: blanks, `sep`/`sepSlice`
with blanks on both sides, integers as written (`[-+]? [0-9]+`), `anyIndex`, `slice` with its three
tails, `index`, the loops `(sep X {act})*` with a carry, `union`.

Generalises Lemmas/ParsePrintRecA.lean (worker L14), whose lemmas about the plainest spelling are
reused where they do not mention blanks. Everything here lives in `JPV.SP.R1` (helper lemmas of worker
R1); the exported theorems are at the end of SpellRecB.lean, in `JPV.SP`.

Conventions:
  * a construct `x` that may take blanks behind it is stated on `pr x ++ (blanks k ++ r)`, `r` a stopper
    (`SubStop r`: starts with `,` or `]`); it ends at `p + (pr x).length + cap k x` where `cap k x ∈ {0, k}`;
  * fuel `C + 32 * (runes of the construct) + k` (the `k` blanks behind it cost one level each).
-/
import JPV.Lemmas.SpellDefs
import JPV.Lemmas.ParsePrintRecBlank
namespace JPV.SP.R1
open JPV.Peg JPV.Lex
open JPV.PP hiding blanks blanks_succ blanks_length
open JPV.Spell (blanks Quote Sign SInt STail SSub SName Sep SStep optTxt tailP subP keyBody nameP sepP sepsP brP)

variable {inp : Array Char}

/-! ### blanks -/

theorem blanks_len (k : Nat) : (blanks k).length = k := by simp [Spell.blanks]

theorem blanks_zero : blanks 0 = [] := rfl

theorem blanks_succ' (k : Nat) : blanks (k + 1) = ' ' :: blanks k := rfl

theorem blanks_add (a b : Nat) : blanks a ++ blanks b = blanks (a + b) := by
  simp only [Spell.blanks]; exact List.replicate_append_replicate

theorem blanks_split {b c : Nat} (hc : c ≤ b) : blanks b = blanks c ++ blanks (b - c) := by
  rw [blanks_add]; congr 1; omega

/-- behind `k` blanks -/
theorem sfx_skip {p k : Nat} {l : List Char} (h : Sfx inp p (blanks k ++ l)) : Sfx inp (p + k) l := by
  have := h.append; rwa [blanks_len] at this

/-- behind `c` of `b` blanks -/
theorem sfx_carry {q b c : Nat} {l : List Char} (hc : c ≤ b) (h : Sfx inp q (blanks b ++ l)) :
    Sfx inp (q + c) (blanks (b - c) ++ l) := by
  rw [blanks_split hc, List.append_assoc] at h; exact sfx_skip h

/-- `space` over `k` blanks -/
theorem acc_spaceS (k : Nat) {p : Nat} {l : List Char} (h : Sfx inp p (blanks k ++ l)) (hl : NoSp l) :
    Acc (3 + k) (.rule "space") inp p (p + k) [] := acc_space_n k h hl

theorem startsWith_blanks (P : Char → Bool) (hP : P ' ' = false) (k : Nat) {l : List Char}
    (hl : startsWith P l = false) : startsWith P (blanks k ++ l) = false := by
  cases k with
  | zero => simpa [Spell.blanks] using hl
  | succ k => exact hP

/-- lengths of concatenations with blanks -/
macro "slen" : tactic =>
  `(tactic| ((try simp only [List.length_append, List.length_cons, List.length_nil, blanks_len]); omega))

/-! ### `sep`, `sepSlice` with blanks on both sides -/

theorem acc_sepS (b a : Nat) {p : Nat} {r : List Char} (h : Sfx inp p (blanks b ++ ',' :: (blanks a ++ r)))
    (hr : NoSp r) : Acc (6 + b + a) (.rule "sep") inp p (p + b + 1 + a) [] := by
  have h1 := sfx_skip h
  have a1 := acc_spaceS b h (noSp_cons (by decide) _)
  have a2 := acc_lit1 "," ',' rfl h1
  have a3 := acc_spaceS a h1.tail hr
  exact ((Acc.rule "sep" sep_body (Acc.seq a1 (Acc.seq a2 a3))).mono (by omega)).cast rfl rfl

theorem rej_sepS (k : Nat) {p : Nat} {l : List Char} (h : Sfx inp p (blanks k ++ l))
    (hl : startsWith (fun c => c == ' ' || c == ',') l = false) : Rej (6 + k) (.rule "sep") inp p :=
  (Rej.rule "sep" sep_body
    (Rej.seq_r (acc_spaceS k h (noSp_of (P := fun c => c == ' ' || c == ',') rfl hl))
      (Rej.seq_l _ (rej_lit1 "," ',' [] rfl (sfx_skip h)
        (startsWith_false_of_imp (by intro c hc; simp at hc; simp [hc]) hl))))).mono (by omega)

theorem acc_sepSliceS (b a : Nat) {p : Nat} {r : List Char} (h : Sfx inp p (blanks b ++ ':' :: (blanks a ++ r)))
    (hr : NoSp r) : Acc (6 + b + a) (.rule "sepSlice") inp p (p + b + 1 + a) [] := by
  have h1 := sfx_skip h
  have a1 := acc_spaceS b h (noSp_cons (by decide) _)
  have a2 := acc_lit1 ":" ':' rfl h1
  have a3 := acc_spaceS a h1.tail hr
  exact ((Acc.rule "sepSlice" sepSlice_body (Acc.seq a1 (Acc.seq a2 a3))).mono (by omega)).cast rfl rfl

theorem rej_sepSliceS (k : Nat) {p : Nat} {l : List Char} (h : Sfx inp p (blanks k ++ l))
    (hl : startsWith (fun c => c == ' ' || c == ':') l = false) : Rej (6 + k) (.rule "sepSlice") inp p :=
  (Rej.rule "sepSlice" sepSlice_body
    (Rej.seq_r (acc_spaceS k h (noSp_of (P := fun c => c == ' ' || c == ':') rfl hl))
      (Rej.seq_l _ (rej_lit1 ":" ':' [] rfl (sfx_skip h)
        (startsWith_false_of_imp (by intro c hc; simp at hc; simp [hc]) hl))))).mono (by omega)

/-! ### integers as written -/

theorem isDig_eq (c : Char) : Spell.isDig c = isDigit c := rfl

theorem sint_wf {n : SInt} (h : n.wf = true) : n.digits ≠ [] ∧ ∀ c ∈ n.digits, isDigit c = true := by
  simp only [Spell.SInt.wf, Bool.and_eq_true, Bool.not_eq_true', List.all_eq_true] at h
  refine ⟨?_, fun c hc => h.2 c hc⟩
  intro h0
  rw [h0] at h
  simp at h

theorem sintTxt_length_pos (n : SInt) (hwf : n.wf = true) : 1 ≤ n.txt.length := by
  obtain ⟨hne, _⟩ := sint_wf hwf
  cases hd : n.digits with
  | nil => exact absurd hd hne
  | cons c l => simp only [Spell.SInt.txt, hd, List.length_append, List.length_cons]; omega

/-- an integer starts with a digit or a sign -/
theorem startsWith_sintTxt (P : Char → Bool) (b : Bool) (hd : ∀ c, isDigit c = true → P c = b)
    (hp : P '+' = b) (hm : P '-' = b) (n : SInt) (hwf : n.wf = true) (r : List Char) :
    startsWith P (n.txt ++ r) = b := by
  obtain ⟨hne, hds⟩ := sint_wf hwf
  obtain ⟨v, sg, ds⟩ := n
  cases sg with
  | pos0 =>
    cases ds with
    | nil => exact absurd rfl hne
    | cons c l => exact hd c (hds c (by simp))
  | plus => exact hp
  | minus => exact hm

theorem noSp_sintTxt (n : SInt) (hwf : n.wf = true) (r : List Char) : NoSp (n.txt ++ r) := by
  rw [noSp_iff]
  exact startsWith_sintTxt _ false (by intro c hc; simp; intro h; subst h; revert hc; decide) (by decide)
    (by decide) n hwf r

theorem acc_indexNumberS (n : SInt) (hwf : n.wf = true) {p : Nat} {r : List Char} (h : Sfx inp p (n.txt ++ r))
    (hr : startsWith isDigit r = false) :
    Acc (6 + 32 * n.txt.length) (.rule "indexNumber") inp p (p + n.txt.length) [] := by
  obtain ⟨hne, hds⟩ := sint_wf hwf
  suffices hb : Acc (5 + 32 * n.txt.length)
      (.seq (.opt (.cls false [(Char.ofNat 45, Char.ofNat 45), (Char.ofNat 43, Char.ofNat 43)]))
        (.plus (.cls false [(Char.ofNat 48, Char.ofNat 57)]))) inp p (p + n.txt.length) [] from
    (Acc.rule "indexNumber" indexNumber_body hb).mono (by omega)
  obtain ⟨v, sg, ds⟩ := n
  cases sg with
  | pos0 =>
    simp only [Spell.SInt.txt, Spell.Sign.txt, List.nil_append] at h hne hds ⊢
    have h0 : Rej 1 (.cls false [(Char.ofNat 45, Char.ofNat 45), (Char.ofNat 43, Char.ofNat 43)]) inp p := by
      refine rej_cls_of false _ h ?_
      cases ds with
      | nil => exact absurd rfl hne
      | cons c l =>
        have hc := hds c (by simp)
        simp only [List.cons_append, startsWith, inRanges_pm]
        rw [not_sign_of_digit c hc]; rfl
    have h1 := acc_plus_digits ds hne hds h hr
    exact ((Acc.seq (Acc.opt_none h0) h1).mono (by omega)).cast (by omega) rfl
  | plus =>
    simp only [Spell.SInt.txt, Spell.Sign.txt, List.cons_append, List.nil_append] at h hne hds ⊢
    have h0 : Acc 1 (.cls false [(Char.ofNat 45, Char.ofNat 45), (Char.ofNat 43, Char.ofNat 43)]) inp p (p + 1) [] :=
      acc_cls false _ h (by rw [inRanges_pm]; rfl)
    have h1 := acc_plus_digits ds hne hds h.tail hr
    refine ((Acc.seq (Acc.opt_some h0) h1).mono ?_).cast ?_ rfl
    · simp only [List.length_cons]; omega
    · simp only [List.length_cons]; omega
  | minus =>
    simp only [Spell.SInt.txt, Spell.Sign.txt, List.cons_append, List.nil_append] at h hne hds ⊢
    have h0 : Acc 1 (.cls false [(Char.ofNat 45, Char.ofNat 45), (Char.ofNat 43, Char.ofNat 43)]) inp p (p + 1) [] :=
      acc_cls false _ h (by rw [inRanges_pm]; rfl)
    have h1 := acc_plus_digits ds hne hds h.tail hr
    refine ((Acc.seq (Acc.opt_some h0) h1).mono ?_).cast ?_ rfl
    · simp only [List.length_cons]; omega
    · simp only [List.length_cons]; omega

/-! ### `anyIndex` -/

theorem optWf_some {n : SInt} (h : Spell.optWf (some n) = true) : n.wf = true := h

theorem acc_anyIndexS (o : Option SInt) (ho : Spell.optWf o = true) {p : Nat} {l : List Char}
    (h : Sfx inp p (optTxt o ++ l)) (hl : startsWith isNumStart l = false) :
    Acc (11 + 32 * (optTxt o).length) (.rule "anyIndex") inp p (p + (optTxt o).length)
      [.text p (p + (optTxt o).length), .action 21] := by
  refine (Acc.rule "anyIndex" anyIndex_body (Fa := 10 + 32 * (optTxt o).length) ?_).mono (by omega)
  cases o with
  | none =>
    simp only [Spell.optTxt, List.nil_append] at h
    have h0 := rej_indexNumber h hl
    exact ((Acc.seq (Acc.cap (Acc.opt_none h0)) (acc_act 21 _)).mono (by simp [Spell.optTxt])).cast rfl rfl
  | some n =>
    simp only [Spell.optTxt] at h ⊢
    have h0 := acc_indexNumberS n ho h (startsWith_false_of_imp (by intro c hc; simp [isNumStart, hc]) hl)
    exact ((Acc.seq (Acc.cap (Acc.opt_some h0)) (acc_act 21 _)).mono (by omega)).cast rfl rfl

/-- how many of the `f` blanks behind a bound belong to what stands in front of the bound -/
def capE (f : Nat) : Option SInt → Nat
  | none => f
  | some _ => 0

theorem capE_le (f : Nat) (e : Option SInt) : capE f e ≤ f := by
  cases e <;> simp [capE]

/-- what may follow a bound of a slice (behind blanks): `:`, `,` or `]` -/
def SliceStop (r : List Char) : Prop := startsWith (fun c => c == ':' || c == ',' || c == ']') r = true

theorem SliceStop.noNum {r : List Char} (h : SliceStop r) : startsWith isNumStart r = false :=
  startsWith_false_of_true (by intro c hc; simp at hc; rcases hc with (rfl | rfl) | rfl <;> decide) h

theorem SliceStop.noSp {r : List Char} (h : SliceStop r) : NoSp r := noSp_of_true (by decide) h

theorem subStop_slice {r : List Char} (h : SubStop r) : SliceStop r :=
  startsWith_of_true (by intro c hc; simp at hc; rcases hc with rfl | rfl <;> decide) h

theorem sliceStop_colon (r : List Char) : SliceStop (':' :: r) := rfl

theorem noSp_optTxt (o : Option SInt) (ho : Spell.optWf o = true) {r : List Char} (hr : NoSp r) :
    NoSp (optTxt o ++ r) := by
  cases o with
  | none => exact hr
  | some n => exact noSp_sintTxt n ho r

/-- `sepSlice anyIndex` on `b : a e` followed by `f` blanks: an omitted bound stands behind the `f` blanks -/
theorem acc_sepSlice_any (b a : Nat) (e : Option SInt) (he : Spell.optWf e = true) (f : Nat) {q : Nat}
    {r : List Char} (h : Sfx inp q (blanks b ++ ':' :: (blanks a ++ (optTxt e ++ (blanks f ++ r)))))
    (hr : SliceStop r) :
    Acc (6 + b + a + f) (.rule "sepSlice") inp q (q + b + 1 + a + capE f e) [] ∧
    Acc (11 + 32 * (optTxt e).length) (.rule "anyIndex") inp (q + b + 1 + a + capE f e)
      (q + b + 1 + a + (optTxt e).length + capE f e) (tkOptS (q + b + 1 + a) e f) ∧
    Sfx inp (q + b + 1 + a + (optTxt e).length + capE f e) (blanks (f - capE f e) ++ r) := by
  cases e with
  | none =>
    have h' : Sfx inp q (blanks b ++ ':' :: (blanks (a + f) ++ r)) := by
      rw [← blanks_add, List.append_assoc]; exact h
    have a1 := acc_sepSliceS b (a + f) h' hr.noSp
    have hs : Sfx inp (q + b + 1 + a + f) r := by
      have := sfx_skip (sfx_skip h').tail
      rwa [← Nat.add_assoc] at this
    have a2 := acc_anyIndexS none rfl (l := r) hs hr.noNum
    refine ⟨(a1.mono (by omega)).cast (by simp only [capE]; omega) rfl, ?_, ?_⟩
    · exact (a2.mono (by omega)).cast (by simp [capE, Spell.optTxt]) (by simp [tkOptS, Spell.optTxt])
    · simpa [capE, Spell.optTxt, blanks_zero] using hs
  | some n =>
    have hn : n.wf = true := he
    have h' : Sfx inp q (blanks b ++ ':' :: (blanks a ++ (n.txt ++ (blanks f ++ r)))) := h
    have a1 := acc_sepSliceS b a h' (noSp_sintTxt n hn _)
    have hs : Sfx inp (q + b + 1 + a) (optTxt (some n) ++ (blanks f ++ r)) := sfx_skip (sfx_skip h').tail
    have hdig : startsWith isDigit (blanks f ++ r) = false :=
      startsWith_blanks _ (by decide) f
        (startsWith_false_of_imp (by intro c hc; simp [isNumStart, hc]) hr.noNum)
    have hnum : startsWith isNumStart (blanks f ++ r) = false :=
      startsWith_blanks _ (by decide) f hr.noNum
    have a2 := acc_anyIndexS (some n) he hs hnum
    refine ⟨(a1.mono (by omega)).cast (by simp [capE]) rfl, ?_, ?_⟩
    · exact a2.cast (by simp [capE]) (by simp [tkOptS, Spell.optTxt])
    · simpa [capE] using hs.append

/-! ### `slice` -/

theorem subP_slice_length (s : Option SInt) (b1 a1 : Nat) (e : Option SInt) (t : STail) :
    (subP (.slice s b1 a1 e t)).length = (optTxt s).length + b1 + 1 + a1 + (optTxt e).length + (tailP t).length := by
  simp only [Spell.subP, List.length_append, List.length_cons, blanks_len]; omega

theorem tailP_absent : tailP .absent = [] := rfl
theorem tailP_step_length (b a : Nat) (t : SInt) : (tailP (.step b a t)).length = b + 1 + a + t.txt.length := by
  simp only [Spell.tailP, List.length_append, List.length_cons, blanks_len]; omega
theorem tailP_colon_length (b a : Nat) : (tailP (.colon b a)).length = b + 1 + a := by
  simp only [Spell.tailP, List.length_append, List.length_cons, blanks_len]; omega

/-- the parts of the well-formedness of a slice -/
theorem slice_wf {s : Option SInt} {b1 a1 : Nat} {e : Option SInt} {t : STail}
    (h : (SSub.slice s b1 a1 e t).wf = true) :
    Spell.optWf s = true ∧ Spell.optWf e = true ∧ t.wf = true ∧ (s = none → b1 = 0) ∧ (e = none → t.lead = 0) := by
  simp only [Spell.SSub.wf, Bool.and_eq_true, Bool.or_eq_true, beq_iff_eq] at h
  obtain ⟨⟨⟨⟨h1, h2⟩, h3⟩, h4⟩, h5⟩ := h
  refine ⟨h1, h2, h3, ?_, ?_⟩
  · intro hs; subst hs; rcases h4 with h4 | h4
    · cases h4
    · exact h4
  · intro he; subst he; rcases h5 with h5 | h5
    · cases h5
    · exact h5

/-- the first bound of a slice: when it is omitted the colon follows at once -/
theorem acc_anyIndex_first (s : Option SInt) (hs : Spell.optWf s = true) (b1 : Nat) (h1 : s = none → b1 = 0)
    {p : Nat} {rest : List Char} (h : Sfx inp p (optTxt s ++ (blanks b1 ++ ':' :: rest))) :
    Acc (11 + 32 * (optTxt s).length) (.rule "anyIndex") inp p (p + (optTxt s).length) (tkOptS p s b1) := by
  have a := acc_anyIndexS s hs h (startsWith_blanks _ (by decide) b1 rfl)
  cases s with
  | none =>
    have := h1 rfl
    subst this
    exact a.cast rfl (by simp [tkOptS, Spell.optTxt])
  | some n => exact a.cast rfl (by simp [tkOptS, Spell.optTxt])

theorem capE_lead {e : Option SInt} {f : Nat} (h : e = none → f = 0) : capE f e = 0 := by
  cases e with
  | none => exact h rfl
  | some n => rfl

theorem acc_sliceS (k : Nat) (s : Option SInt) (b1 a1 : Nat) (e : Option SInt) (t : STail)
    (hwf : (SSub.slice s b1 a1 e t).wf = true) {p : Nat} {r : List Char}
    (h : Sfx inp p (subP (.slice s b1 a1 e t) ++ (blanks k ++ r))) (hr : SubStop r) :
    Acc (30 + 32 * (subP (.slice s b1 a1 e t)).length + k) (.rule "slice") inp p
      (p + (subP (.slice s b1 a1 e t)).length + capS k (.slice s b1 a1 e t)) (tkSliceS k p s b1 a1 e t) := by
  obtain ⟨hs, he, ht, hb1, hlead⟩ := slice_wf hwf
  refine (Acc.rule "slice" slice_body (Fa := 29 + 32 * (subP (.slice s b1 a1 e t)).length + k) ?_).mono (by omega)
  rw [subP_slice_length]
  cases t with
  | absent =>
    have h' : Sfx inp p (optTxt s ++ (blanks b1 ++ ':' :: (blanks a1 ++ (optTxt e ++ (blanks k ++ r))))) := by
      simpa [Spell.subP, Spell.tailP] using h
    have c1 := acc_anyIndex_first s hs b1 hb1 h'
    obtain ⟨c2, c3, h4⟩ := acc_sepSlice_any b1 a1 e he k h'.append (subStop_slice hr)
    have hle := capE_le k e
    have c4 : Acc (10 + k) (.alt (.seq (.rule "sepSlice") (.rule "anyIndex")) (.seq (.rule "space") (.act 20))) inp
        (p + (optTxt s).length + b1 + 1 + a1 + (optTxt e).length + capE k e)
        (p + (optTxt s).length + b1 + 1 + a1 + (optTxt e).length + capE k e + (k - capE k e))
        [.action 20] :=
      ((Acc.alt_r (Rej.seq_l _ (rej_sepSliceS _ h4 hr.noColon))
        (Acc.seq (acc_spaceS _ h4 hr.noSp) (acc_act 20 _))).mono (by omega)).cast rfl rfl
    refine ((Acc.seq c1 (Acc.seq c2 (Acc.seq c3 c4))).mono ?_).cast ?_ ?_
    · simp only [tailP_absent, List.length_nil]; omega
    · simp only [tailP_absent, List.length_nil, capS]; omega
    · simp [tkSliceS, sliceP1]
  | step b a t' =>
    have h' : Sfx inp p (optTxt s ++ (blanks b1 ++ ':' :: (blanks a1 ++ (optTxt e ++
        (blanks b ++ ':' :: (blanks a ++ (optTxt (some t') ++ (blanks k ++ r)))))))) := by
      simpa [Spell.subP, Spell.tailP, Spell.optTxt] using h
    have hcap : capE b e = 0 := capE_lead hlead
    have c1 := acc_anyIndex_first s hs b1 hb1 h'
    obtain ⟨c2, c3, h4⟩ := acc_sepSlice_any b1 a1 e he b h'.append (sliceStop_colon _)
    rw [hcap] at c2 c3 h4
    simp only [Nat.add_zero, Nat.sub_zero] at c2 c3 h4
    obtain ⟨c5, c6, _⟩ := acc_sepSlice_any b a (some t') ht k h4 (subStop_slice hr)
    refine ((Acc.seq c1 (Acc.seq c2 (Acc.seq c3 (Acc.alt_l _ (Acc.seq c5 c6))))).mono ?_).cast ?_ ?_
    · simp only [tailP_step_length, Spell.optTxt]; omega
    · simp only [tailP_step_length, capE, capS, Spell.optTxt]; omega
    · simp [tkSliceS, sliceP1, sliceP2, tkOptS, Spell.optTxt]
  | colon b a =>
    have h' : Sfx inp p (optTxt s ++ (blanks b1 ++ ':' :: (blanks a1 ++ (optTxt e ++
        (blanks b ++ ':' :: (blanks a ++ (optTxt none ++ (blanks k ++ r)))))))) := by
      simpa [Spell.subP, Spell.tailP, Spell.optTxt] using h
    have hcap : capE b e = 0 := capE_lead hlead
    have c1 := acc_anyIndex_first s hs b1 hb1 h'
    obtain ⟨c2, c3, h4⟩ := acc_sepSlice_any b1 a1 e he b h'.append (sliceStop_colon _)
    rw [hcap] at c2 c3 h4
    simp only [Nat.add_zero, Nat.sub_zero] at c2 c3 h4
    obtain ⟨c5, c6, _⟩ := acc_sepSlice_any b a none rfl k h4 (subStop_slice hr)
    refine ((Acc.seq c1 (Acc.seq c2 (Acc.seq c3 (Acc.alt_l _ (Acc.seq c5 c6))))).mono ?_).cast ?_ ?_
    · simp only [tailP_colon_length, Spell.optTxt, List.length_nil]; omega
    · simp only [tailP_colon_length, capE, capS, Spell.optTxt, List.length_nil]; omega
    · simp [tkSliceS, sliceP1, sliceP2, tkOptS, Spell.optTxt]

/-- `slice` gives up after a first number that is not followed (behind blanks) by a colon -/
theorem rej_sliceS (o : Option SInt) (ho : Spell.optWf o = true) (k : Nat) {p : Nat} {r : List Char}
    (h : Sfx inp p (optTxt o ++ (blanks k ++ r)))
    (hr : startsWith (fun c => isNumStart c || c == ' ' || c == ':') r = false) :
    Rej (14 + 32 * (optTxt o).length + k) (.rule "slice") inp p := by
  have hnum : startsWith isNumStart r = false := startsWith_false_of_imp (by intro c hc; simp [hc]) hr
  have a1 := acc_anyIndexS o ho h (startsWith_blanks _ (by decide) k hnum)
  have r2 := rej_sepSliceS k h.append
    (startsWith_false_of_imp (by intro c hc; simp at hc; rcases hc with rfl | rfl <;> simp) hr)
  exact (Rej.rule "slice" slice_body (Rej.seq_r a1 (Rej.seq_l _ r2))).mono (by omega)

/-! ### `index` -/

theorem acc_indexS (k : Nat) (s : SSub) (hwf : s.wf = true) {p : Nat} {r : List Char}
    (h : Sfx inp p (subP s ++ (blanks k ++ r))) (hr : SubStop r) :
    Acc (36 + 32 * (subP s).length + k) (.rule "index") inp p (p + (subP s).length + capS k s) (tkSubS k p s) := by
  refine (Acc.rule "index" index_body (Fa := 35 + 32 * (subP s).length + k) ?_).mono (by omega)
  cases s with
  | idx n =>
    have hn : n.wf = true := hwf
    simp only [Spell.subP] at h ⊢
    have r1 := rej_sliceS (some n) hn k h
      (startsWith_false_of_true (by intro c hc; simp at hc; rcases hc with rfl | rfl <;> decide) hr)
    have a2 := acc_indexNumberS n hn h (startsWith_blanks _ (by decide) k
      (startsWith_false_of_imp (by intro c hc; simp [isNumStart, hc]) hr.noNum))
    refine ((Acc.seq (Acc.alt_r (Rej.seq_l _ r1) (Acc.alt_l _ (Acc.seq (Acc.cap a2) (acc_act 17 _))))
      (acc_act 19 _)).mono ?_).cast ?_ ?_
    · simp only [Spell.optTxt]; omega
    · simp [capS]
    · simp [tkSubS]
  | wild =>
    simp only [Spell.subP, List.cons_append, List.nil_append] at h ⊢
    have r1 := rej_sliceS none rfl 0 (r := '*' :: (blanks k ++ r)) h rfl
    have r2 := rej_indexNumber h rfl
    have a3 := acc_lit1 "*" '*' rfl h
    refine ((Acc.seq (Acc.alt_r (Rej.seq_l _ r1) (Acc.alt_r (Rej.seq_l _ (Rej.cap r2))
      (Acc.seq a3 (acc_act 18 _)))) (acc_act 19 _)).mono ?_).cast ?_ ?_
    · simp only [Spell.optTxt, List.length_nil, List.length_cons]; omega
    · simp [capS]
    · simp [tkSubS]
  | slice s b1 a1 e t =>
    have c1 := acc_sliceS k s b1 a1 e t hwf h hr
    refine ((Acc.seq (Acc.alt_l _ (Acc.seq c1 (acc_act 16 _))) (acc_act 19 _)).mono (by omega)).cast rfl ?_
    simp [tkSubS]

theorem capS_cases (k : Nat) (s : SSub) : capS k s = 0 ∨ capS k s = k := by
  cases s with
  | idx n => exact .inl rfl
  | wild => exact .inl rfl
  | slice s b1 a1 e t => cases t <;> simp [capS]

/-- a subscript starts with a digit, a sign, `*` or `:` -/
theorem startsWith_subP (P : Char → Bool) (b : Bool) (hP : ∀ c, isSubStart c = true → P c = b)
    (s : SSub) (hwf : s.wf = true) (r : List Char) : startsWith P (subP s ++ r) = b := by
  have hint : ∀ n, n.wf = true → ∀ r', startsWith P (SInt.txt n ++ r') = b := fun n hn r' =>
    startsWith_sintTxt P b (fun c hc => hP c (by simp [isSubStart, isNumStart, hc])) (hP '+' (by decide))
      (hP '-' (by decide)) n hn r'
  cases s with
  | idx n => exact hint n hwf r
  | wild => exact hP '*' (by decide)
  | slice s b1 a1 e t =>
    obtain ⟨hs, _, _, hb1, _⟩ := slice_wf hwf
    cases s with
    | none =>
      have := hb1 rfl
      subst this
      exact hP ':' (by decide)
    | some n =>
      simp only [Spell.subP, Spell.optTxt, List.append_assoc]
      exact hint n hs _

theorem noSp_subP (s : SSub) (hwf : s.wf = true) (r : List Char) : NoSp (subP s ++ r) := by
  rw [noSp_iff]
  refine startsWith_subP _ false ?_ s hwf r
  intro c hc
  simp only [beq_eq_false_iff_ne, ne_eq]
  intro h; subst h; revert hc; decide

/-! ### the loops `(sep X {act})*` with a carry

The round for `b , a x` starts in front of its `b` blanks, or behind them when the element before took
them (`c` = the number of blanks already taken). -/

theorem sepP_length {α : Type} (pr : α → List Char) (x : Sep α) :
    (sepP pr x).length = x.1 + 1 + x.2.1 + (pr x.2.2).length := by
  simp only [Spell.sepP, List.length_append, List.length_cons, blanks_len]; omega

theorem sepsP_cons {α : Type} (pr : α → List Char) (x : Sep α) (xs : List (Sep α)) :
    sepsP pr (x :: xs) = sepP pr x ++ sepsP pr xs := rfl

theorem sepsP_nil {α : Type} (pr : α → List Char) : sepsP pr ([] : List (Sep α)) = [] := rfl

/-- the blanks still to come after all elements, given that `c` blanks are taken at the start -/
def capL {α : Type} (cap : Nat → α → Nat) (rb : Nat) : Nat → List (Sep α) → Nat
  | c, [] => c
  | _, x :: xs => capL cap rb (cap (nextB rb xs) x.2.2) xs

theorem capL_cases {α : Type} (cap : Nat → α → Nat) (hcap : ∀ k x, cap k x = 0 ∨ cap k x = k) (rb : Nat) :
    ∀ (xs : List (Sep α)) (c : Nat), (c = 0 ∨ c = nextB rb xs) →
      capL cap rb c xs = 0 ∨ capL cap rb c xs = rb := by
  intro xs
  induction xs with
  | nil => intro c hc; exact hc
  | cons x xs ih => intro c _; exact ih _ (hcap _ _)

theorem capL_zero {α : Type} (rb : Nat) : ∀ (xs : List (Sep α)) (c : Nat), (xs = [] → c = 0) →
    capL (fun _ _ => 0) rb c xs = 0 := by
  intro xs
  induction xs with
  | nil => intro c hc; exact hc rfl
  | cons x xs ih => intro c _; exact ih 0 (fun _ => rfl)

theorem nextB_le {α : Type} (pr : α → List Char) (rb : Nat) (xs : List (Sep α)) :
    nextB rb xs ≤ (sepsP pr xs).length + rb := by
  cases xs with
  | nil => simp [nextB]
  | cons x xs =>
    simp only [nextB, sepsP_cons, List.length_append, sepP_length]; omega

/-- what follows an element of a comma list: the blanks in front of the next comma (or of `]`) -/
theorem seps_next {α : Type} (pr : α → List Char) (rb : Nat) (xs : List (Sep α)) (post : List Char)
    (hpost : IsClose post) :
    ∃ r', sepsP pr xs ++ (blanks rb ++ post) = blanks (nextB rb xs) ++ r' ∧ SubStop r' := by
  cases xs with
  | nil =>
    exact ⟨post, rfl, startsWith_of_true (by intro c hc; simp at hc; simp [hc]) hpost⟩
  | cons x xs =>
    refine ⟨',' :: (blanks x.2.1 ++ (pr x.2.2 ++ (sepsP pr xs ++ (blanks rb ++ post)))), ?_, rfl⟩
    simp [sepsP_cons, Spell.sepP, nextB]

theorem acc_seps_loop {α : Type} (X : PE) (act : Nat) (pr : α → List Char) (tk : Nat → Nat → α → List Tok)
    (cap : Nat → α → Nat) (Good : α → Prop) (C : Nat)
    (hcap : ∀ k x, cap k x = 0 ∨ cap k x = k)
    (hnosp : ∀ x r, Good x → NoSp (pr x ++ r))
    (hitem : ∀ x k r pos, Good x → SubStop r → Sfx inp pos (pr x ++ (blanks k ++ r)) →
      Acc (C + 32 * (pr x).length + k) X inp pos (pos + (pr x).length + cap k x) (tk k pos x))
    (rb : Nat) (post : List Char) (hpost : IsClose post) :
    ∀ (xs : List (Sep α)) (q c : Nat), (∀ x ∈ xs, Good x.2.2) → (c = 0 ∨ c = nextB rb xs) →
      Sfx inp q (sepsP pr xs ++ (blanks rb ++ post)) →
      Acc (C + 10 + 32 * (sepsP pr xs).length + rb) (.star (.seq (.rule "sep") (.seq X (.act act)))) inp (q + c)
        (q + (sepsP pr xs).length + capL cap rb c xs) (tkSepsS pr tk act rb xs q) := by
  intro xs
  induction xs with
  | nil =>
    intro q c _ hc h
    simp only [sepsP_nil, List.nil_append] at h
    have hc' : c ≤ rb := by
      rcases hc with rfl | rfl
      · exact Nat.zero_le _
      · exact Nat.le_refl _
    have r1 := rej_sepS (rb - c) (sfx_carry hc' h) hpost.noSepStart
    refine ((Acc.star_nil (Rej.seq_l _ r1)).mono ?_).cast ?_ rfl
    · omega
    · simp [sepsP_nil, capL]
  | cons x xs ih =>
    intro q c hg hc h
    obtain ⟨b, a, y⟩ := x
    have hgy : Good y := hg (b, a, y) (by simp)
    have hgs : ∀ z ∈ xs, Good z.2.2 := fun z hz => hg z (by simp [hz])
    have hc' : c ≤ b := by
      rcases hc with rfl | rfl
      · exact Nat.zero_le _
      · exact Nat.le_refl _
    have h' : Sfx inp q (blanks b ++ ',' :: (blanks a ++ (pr y ++ (sepsP pr xs ++ (blanks rb ++ post))))) := by
      simpa [sepsP_cons, Spell.sepP] using h
    have a1 : Acc (6 + (b - c) + a) (.rule "sep") inp (q + c) (q + b + 1 + a) [] :=
      (acc_sepS (b - c) a (sfx_carry hc' h') (hnosp y _ hgy)).cast (by omega) rfl
    have hs : Sfx inp (q + b + 1 + a) (pr y ++ (sepsP pr xs ++ (blanks rb ++ post))) :=
      sfx_skip (sfx_skip h').tail
    obtain ⟨r', heq, hstop⟩ := seps_next pr rb xs post hpost
    rw [heq] at hs
    have a2 := hitem y (nextB rb xs) r' _ hgy hstop hs
    have hq' : Sfx inp (q + (sepP pr (b, a, y)).length) (sepsP pr xs ++ (blanks rb ++ post)) := by
      rw [sepsP_cons, List.append_assoc] at h; exact h.append
    have a3 := ih (q + (sepP pr (b, a, y)).length) (cap (nextB rb xs) y) hgs (hcap _ _) hq'
    have hnb := nextB_le pr rb xs
    have a12 : Acc (C + 9 + 32 * (sepP pr (b, a, y)).length + (sepsP pr xs).length + rb)
        (.seq (.rule "sep") (.seq X (.act act))) inp (q + c)
        (q + (sepP pr (b, a, y)).length + cap (nextB rb xs) y)
        (tkSepS tk act (nextB rb xs) (b, a, y) q) := by
      refine ((Acc.seq a1 (Acc.seq a2 (acc_act act _))).mono ?_).cast ?_ ?_
      · simp only [sepP_length]; omega
      · simp only [sepP_length]; omega
      · simp [tkSepS]
    refine ((Acc.star_cons a12 a3).mono ?_).cast ?_ ?_
    · simp only [sepsP_cons, List.length_append, sepP_length]; omega
    · simp only [sepsP_cons, List.length_append, capL]; omega
    · simp [tkSepsS]

/-! ### `union` -/

/-- how many of the `rb` blanks behind a union the rule `union` takes -/
def capU (rb : Nat) (s : SSub) (ss : List (Sep SSub)) : Nat := capL capS rb (capS (nextB rb ss) s) ss

theorem capU_cases (rb : Nat) (s : SSub) (ss : List (Sep SSub)) : capU rb s ss = 0 ∨ capU rb s ss = rb :=
  capL_cases capS capS_cases rb ss _ (capS_cases _ _)

theorem capU_le (rb : Nat) (s : SSub) (ss : List (Sep SSub)) : capU rb s ss ≤ rb := by
  rcases capU_cases rb s ss with h | h <;> omega

theorem acc_unionS (rb : Nat) (s : SSub) (ss : List (Sep SSub)) (hs : s.wf = true)
    (hss : ∀ x ∈ ss, x.2.2.wf = true) {p : Nat} {post : List Char}
    (h : Sfx inp p ((subP s ++ sepsP subP ss) ++ (blanks rb ++ post))) (hpost : IsClose post) :
    Acc (50 + 32 * (subP s ++ sepsP subP ss).length + rb) (.rule "union") inp p
      (p + (subP s ++ sepsP subP ss).length + capU rb s ss) (tkUnionS rb p s ss) := by
  rw [List.append_assoc] at h
  obtain ⟨r', heq, hstop⟩ := seps_next subP rb ss post hpost
  have h1 := h
  rw [heq] at h1
  have a1 := acc_indexS (nextB rb ss) s hs h1 hstop
  have a2 := acc_seps_loop (inp := inp) (.rule "index") 15 subP tkSubS capS (fun x => x.wf = true) 36
    capS_cases (fun x r hx => noSp_subP x hx r) (fun x k r pos hx hr hsfx => acc_indexS k x hx hsfx hr)
    rb post hpost ss (p + (subP s).length) (capS (nextB rb ss) s) hss (capS_cases _ _) h.append
  have hle := capU_le rb s ss
  have hend : Sfx inp (p + (subP s).length + (sepsP subP ss).length + capU rb s ss)
      (blanks (rb - capU rb s ss) ++ post) := sfx_carry hle h.append.append
  have a3 := Acc.not (rej_sepS _ hend hpost.noSepStart)
  have hnb := nextB_le subP rb ss
  refine ((Acc.rule "union" union_body (Acc.seq a1 (Acc.seq a2 a3))).mono ?_).cast ?_ ?_
  · simp only [List.length_append]; omega
  · simp only [List.length_append, capU]; omega
  · simp [tkUnionS]

end JPV.SP.R1
