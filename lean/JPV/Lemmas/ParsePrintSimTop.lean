/-
ParsePrintSimTop — a whole path whose steps may contain filters: the tokens of the path
(`rootNode continuedJsonpath`) against `Build.buildPath`, the operand path of a filter
(`ParamSim`), and `parseModel` on the printed path.
-/
import JPV.Lemmas.ParsePrintSimPath
namespace JPV.PP
open JPV.Peg JPV.Print JPV.Lex JPV.Build

/-- the chain the machine links together for a path with the written steps `sp` -/
def linkedOf (a : Bool) (h : Head) (sp : List Pre) (fns : List Fn) : List N :=
  linkPres a [headRaw a h] (sp ++ fns.map fnPreT)

theorem linkedOf_ne_nil (a : Bool) (h : Head) (sp : List Pre) (fns : List Fn) : linkedOf a h sp fns ≠ [] :=
  linkPres_ne_nil a _ _ (by simp)

theorem fns_split (env : Env) : ∀ (fns : List Fn), (¬ ∀ f ∈ fns, fnFound env f = true) →
    ∃ fs1 f fs2, fns = fs1 ++ f :: fs2 ∧ (∀ g ∈ fs1, fnFound env g = true) ∧ fnFound env f = false := by
  intro fns
  induction fns with
  | nil => intro hall; exact absurd (by simp) hall
  | cons g gs ih =>
    intro hall
    cases hg : fnFound env g with
    | false => exact ⟨[], g, gs, rfl, by simp, hg⟩
    | true =>
      have : ¬ ∀ f ∈ gs, fnFound env f = true := by
        intro h; apply hall; intro f hf
        rcases List.mem_cons.mp hf with rfl | hf
        · exact hg
        · exact h f hf
      obtain ⟨fs1, f, fs2, e, h1, h2⟩ := ih this
      refine ⟨g :: fs1, f, fs2, by simp [e], ?_, h2⟩
      intro x hx
      rcases List.mem_cons.mp hx with rfl | hx
      · exact hg
      · exact h1 x hx

/-- the tokens of a path on an empty stack, against `buildPath` -/
theorem path_core (c : Ctx) (cfg : Cfg) (top : Bool) (h : Head) (ss : List Step) (fns : List Fn)
    (hs : ∀ s ∈ ss, StepSim c cfg false s) (hk : ∀ f ∈ fns, fnKindOK c.env f) {p : Nat} {r : List Char}
    (hsfx : Sfx c.input p (path (.mk h ss fns) ++ r)) (sv : List (List Item)) (rt : Option (List N)) (tb te : Nat) :
    (∀ ch, buildPath c.env cfg top (pathT (.mk h ss fns)) = .ok ch →
      ∃ sp, stepsPre c.env cfg (stepsT ss) = .ok sp ∧ (∀ f ∈ fns, fnFound c.env f = true) ∧
        ∃ tb' te', ∀ rest, execFrom c ⟨[], sv, rt, tb, te⟩ (tkPath p (.mk h ss fns) ++ rest) =
          execFrom c ⟨[.chain (Build.markVg (linkedOf c.acc h sp fns))], sv, rt, tb', te'⟩ rest) ∧
    (∀ e, buildPath c.env cfg top (pathT (.mk h ss fns)) = .error e →
      ∀ rest, execFrom c ⟨[], sv, rt, tb, te⟩ (tkPath p (.mk h ss fns) ++ rest) =
        .error (stopOf (posPath c.env cfg p (.mk h ss fns)) e)) := by
  simp only [path, List.cons_append, List.append_assoc] at hsfx
  have h1 := hsfx.tail
  have hss := stepsSim_of c cfg ss (p + 1) _ hs h1
  have h2 := h1.append
  rw [fnsText_eq_flat] at h2
  have e0 : act c (headAct h) ⟨[], sv, rt, tb, te⟩ = .ok ⟨[.chain [headRaw c.acc h]], sv, rt, tb, te⟩ := by
    cases h <;> rfl
  have hstart : ∀ rest, execFrom c ⟨[], sv, rt, tb, te⟩ (tkPath p (.mk h ss fns) ++ rest) =
      execFrom c ⟨[.chain [headRaw c.acc h]], sv, rt, tb, te⟩
        (tkSteps (p + 1) ss ++ (toksStar fnText tkFn fns (p + 1 + (steps ss).length) ++ ([.action 2] ++ rest))) := by
    intro rest
    simp only [tkPath, List.cons_append, List.append_assoc, List.nil_append]
    rw [execFrom_action, e0]
    rfl
  cases hsp : stepsPre c.env cfg (stepsT ss) with
  | error e1 =>
    have hb := buildPath_steps_err c.env cfg top h ss fns e1 hsp
    refine ⟨fun ch hch => (by rw [hb] at hch; cases hch), fun e he => ?_⟩
    rw [hb] at he
    cases he
    have ex := hss.err _ hsp [.chain [headRaw c.acc h]] sv rt tb te (by simp)
    exact fun rest => by rw [hstart, ex, posPath]
  | ok sp =>
    have hnice := stepsPre_nice c.env cfg _ sp hsp
    obtain ⟨groups, hg1, hg2, tb1, te1, e1⟩ := hss.ok sp hsp [.chain [headRaw c.acc h]] sv rt tb te (by simp)
    by_cases hall : ∀ f ∈ fns, fnFound c.env f = true
    · have hb := buildPath_of_sp c.env cfg top c.acc h ss fns sp hsp hall
      refine ⟨fun ch _ => ⟨sp, rfl, hall, ?_⟩, fun e he => (by rw [hb] at he; cases he)⟩
      obtain ⟨tb2, te2, e2⟩ := exec_fns c sv rt fns (p + 1 + (steps ss).length) r
        (groupItems c.acc groups ++ [.chain [headRaw c.acc h]]) tb1 te1 (fun f hf => ⟨hk f hf, hall f hf⟩) h2
      refine ⟨tb2, te2, fun rest => ?_⟩
      rw [hstart, e1, e2]
      simp only [List.singleton_append, execFrom_action]
      have hlink : linkAll [headRaw c.acc h]
          (groups.map (fun g => Item.chain (g.map (rawOf c.acc))) ++
            fns.map (fun f => Item.chain [rawOf c.acc (fnPreT f)])) = .ok (linkedOf c.acc h sp fns) := by
        rw [linkAll_append, linkAll_groups c.acc groups _ (fun g hg => ⟨hg2 g hg, fun q hq =>
          hnice q (by rw [← hg1]; exact List.mem_flatten.mpr ⟨g, hg, hq⟩)⟩)]
        simp only [bind, Except.bind]
        rw [linkAll_fns, hg1, linkedOf, linkPres_append, linkPres_nodes c.acc sp _ (fun q hq => (hnice q hq).2)]
      have hstack : (fns.map (fun f => Item.chain [rawOf c.acc (fnPreT f)])).reverse ++
          (groupItems c.acc groups ++ [Item.chain [headRaw c.acc h]]) =
          (groups.map (fun g => Item.chain (g.map (rawOf c.acc))) ++
            fns.map (fun f => Item.chain [rawOf c.acc (fnPreT f)])).reverse ++ [Item.chain [headRaw c.acc h]] := by
        simp [groupItems]
      rw [hstack, act2_eq c _ _ _ (by simp) hlink]
      rfl
    · obtain ⟨fs1, f, fs2, rfl, hf1, hf2⟩ := fns_split c.env fns hall
      have hb := buildPath_missing_of_sp c.env cfg top h ss fs1 f fs2 sp hsp hf1 hf2
      refine ⟨fun ch hch => (by rw [hb] at hch; cases hch), fun e he => ?_⟩
      rw [hb] at he
      cases he
      intro rest
      rw [hstart, e1, stopOf_fn _ 0]
      exact exec_fns_missing c sv rt fs1 f fs2 _ r _ tb1 te1
        (fun g hg => ⟨hk g (by simp [hg]), hf1 g hg⟩) (hk f (by simp)) hf2 h2 _

/-- the operand path of a filter -/
theorem paramSim_of (c : Ctx) (cfg : Cfg) (h : Head) (ss : List Step) (fns : List Fn)
    (hs : ∀ s ∈ ss, StepSim c cfg false s) (hk : ∀ f ∈ fns, fnKindOK c.env f) :
    ParamSim c cfg (.mk h ss fns) := by
  intro p r hsfx
  have hsave : ∀ (stk : List Item) (sv : List (List Item)) (rt : Option (List N)) (tb te : Nat), stk ≠ [] →
      ∀ rest, execFrom c ⟨stk, sv, rt, tb, te⟩ (.action 38 :: rest) = execFrom c ⟨[], stk :: sv, rt, tb, te⟩ rest := by
    intro stk sv rt tb te hstk rest
    cases stk with
    | nil => exact absurd rfl hstk
    | cons x xs => rfl
  refine ⟨?_, ?_⟩
  · intro ch hch stk sv rt tb te hstk
    obtain ⟨hok, _⟩ := path_core c cfg false h ss fns hs hk hsfx (stk :: sv) rt tb te
    obtain ⟨sp, hsp, hall, tb', te', ex⟩ := hok ch hch
    have hb := buildPath_of_sp c.env cfg false c.acc h ss fns sp hsp hall
    rw [hb] at hch
    cases hch
    refine ⟨tb', te', fun rest => ?_⟩
    simp only [List.cons_append, List.append_assoc]
    rw [hsave _ _ _ _ _ hstk, ex]
    have hL := markVg_ne_nil (linkedOf_ne_nil c.acc h sp fns)
    obtain ⟨m, Lr, hm⟩ : ∃ m Lr, Build.markVg (linkedOf c.acc h sp fns) = m :: Lr := by
      cases hx : Build.markVg (linkedOf c.acc h sp fns) with
      | nil => exact absurd hx hL
      | cons m Lr => exact ⟨m, Lr, rfl⟩
    have hih : innerHead (Build.markVg (linkedOf c.acc h sp fns)) = headKind h := by
      rw [innerHead_markVg, linkedOf, innerHead_linkPres c.acc _ _ (by simp), innerHead_headRaw]
    simp only [List.singleton_append, execFrom_action, act, act39, loadParams, pop, bind, Except.bind,
      List.cons_append, List.nil_append]
    rw [hm] at hih ⊢
    simp only [asNode, hih]
    cases h <;> simp only [headKind, push, ccChain, headP, pathHead, Bool.false_and, Bool.false_eq_true, if_false] <;>
      rw [← hm] <;> rfl
  · intro e he stk sv rt tb te hstk
    obtain ⟨_, herr⟩ := path_core c cfg false h ss fns hs hk hsfx (stk :: sv) rt tb te
    have ex := herr e he
    intro rest
    simp only [List.cons_append, List.append_assoc]
    rw [hsave _ _ _ _ _ hstk, ex]

variable (env : Env) (ext : Ext) (cfg : Cfg)

/-- the outcome of `Parse` for an answer of `Build`: the same chain, or the error value (a syntax
    error at rune `pos` of `input`) -/
def outcomeOfBuild (input : Array Char) (pos : Nat) : Except ParseErr (List N) → ParseOutcome
  | .ok ch => .ok ch
  | .error e => outcomeOfStop input (stopOf pos e)

/-- what `Parse` answers on the printed path, EXACTLY, as a function of what `Build.build` answers on
    the recorded texts: the same chain, or the error value with the position `errPos` -/
def expected (p : Path) : ParseOutcome :=
  outcomeOfBuild (print p).toArray (errPos env cfg p) (Build.build env cfg (texts p))

theorem agree_expected (p : Path) : Agree (Build.build env cfg (texts p)) (expected env cfg p) := by
  unfold expected
  cases Build.build env cfg (texts p) with
  | ok ch => rfl
  | error e => cases e <;> rfl

/-- `parseModel` on the printed path, given the simulation of its steps -/
theorem parse_print_exact_of_sim (ss : List Step) (fns : List Fn)
    (hrec : recognise (print (.mk .root ss fns)).toArray =
      .ok (print (.mk .root ss fns)).length (tkExpr (.mk .root ss fns)))
    (hs : ∀ s ∈ ss, StepSim ⟨env, ext, cfg.accessor, (print (.mk .root ss fns)).toArray⟩ cfg false s)
    (hk : ∀ f ∈ fns, fnKindOK env f) :
    parseModel env ext cfg (printS (.mk .root ss fns)) = expected env cfg (.mk .root ss fns) := by
  rw [expected, parseModel_print, parseInput_of_recognise env ext cfg hrec, exec_expr_eq]
  have hsfx : Sfx (print (.mk .root ss fns)).toArray 0 (path (.mk .root ss fns) ++ []) := by
    simpa [print] using Sfx.zero (print (.mk .root ss fns))
  obtain ⟨hok, herr⟩ := path_core ⟨env, ext, cfg.accessor, (print (.mk .root ss fns)).toArray⟩ cfg true .root ss fns
    hs hk hsfx [] none 0 0
  rw [Build.build, texts]
  cases hb : buildPath env cfg true (pathT (.mk .root ss fns)) with
  | ok ch =>
    obtain ⟨sp, hsp, hall, tb', te', ex⟩ := hok ch hb
    have hb' := buildPath_of_sp env cfg true cfg.accessor .root ss fns sp hsp hall
    rw [hb] at hb'
    cases hb'
    rw [ex, exec_finish _ _ (markVg_ne_nil (linkedOf_ne_nil _ _ _ _))]
    have hnice := stepsPre_nice env cfg _ sp hsp
    have hTA : TA cfg.accessor (linkedOf cfg.accessor .root sp fns) := by
      unfold linkedOf
      apply TA.linkPres
      · intro n hn; simp at hn; subst hn; rfl
      · intro q hq
        rcases List.mem_append.mp hq with hq | hq
        · exact (hnice q hq).1
        · obtain ⟨f, _, rfl⟩ := List.mem_map.mp hq
          cases f <;> trivial
    have := (hTA.markVg).delRoot
    show ParseOutcome.ok (connChain "" (delRoot (Build.markVg (linkedOf cfg.accessor .root sp fns)))) =
      ParseOutcome.ok (ccChain true "" (setAccChain (true && cfg.accessor)
        (delRoot (Build.markVg (linkedOf cfg.accessor .root sp fns)))))
    simp only [ccChain, Bool.true_and, if_true, this.setAcc]
  | error e =>
    rw [herr e hb]
    rfl

theorem parse_print_of_sim (ss : List Step) (fns : List Fn)
    (hrec : recognise (print (.mk .root ss fns)).toArray =
      .ok (print (.mk .root ss fns)).length (tkExpr (.mk .root ss fns)))
    (hs : ∀ s ∈ ss, StepSim ⟨env, ext, cfg.accessor, (print (.mk .root ss fns)).toArray⟩ cfg false s)
    (hk : ∀ f ∈ fns, fnKindOK env f) :
    Agree (Build.build env cfg (texts (.mk .root ss fns)))
      (parseModel env ext cfg (printS (.mk .root ss fns))) := by
  rw [parse_print_exact_of_sim env ext cfg ss fns hrec hs hk]
  exact agree_expected env cfg _

end JPV.PP
