/-
ParsePrintSim — the simulation statements of the action side with filters: for each printed
construct, the machine either pushes the item(s) of what `Build` builds and continues with the
tokens that follow, or stops with the error `Build` raises (first error in token order = first
error in `Build`'s evaluation order), at the EXPLICIT position that ParsePrintPos computes for the
construct (`posStep`, `posQ`, `posOperand`, `posPath`).
-/
import JPV.Lemmas.ParsePrintPos
namespace JPV.PP
open JPV.Peg JPV.Print JPV.Lex JPV.Build

/-- the panic value of the machine for an error of `Build`; `pos` is `begin` of the capture at hand -/
def stopOf (pos : Nat) : ParseErr → Stop
  | .funcNotFound t => .functionNotFound t
  | .valueGroupOperand => .syntaxErr pos .filterValueGroup
  | .twoCurrentNodes => .syntaxErr pos .twoCurrentNode

/-- an unknown function: the position is irrelevant -/
theorem stopOf_fn (pos pos' : Nat) (t : String) : stopOf pos (.funcNotFound t) = stopOf pos' (.funcNotFound t) := rfl

/-- on a non-empty stack, the tokens `toks` push `items v` when `Build` answers `v`, and stop the
    machine when `Build` fails — with the panic value of the error, at position `pos` -/
structure Sim {α : Type} (c : Ctx) (toks : List Tok) (items : α → List Item) (b : Except ParseErr α)
    (pos : Nat) : Prop where
  ok : ∀ v, b = .ok v → ∀ (stk : List Item) (sv : List (List Item)) (rt : Option (List N)) (tb te : Nat),
    stk ≠ [] → ∃ tb' te', ∀ rest,
      execFrom c ⟨stk, sv, rt, tb, te⟩ (toks ++ rest) = execFrom c ⟨items v ++ stk, sv, rt, tb', te'⟩ rest
  err : ∀ e, b = .error e → ∀ (stk : List Item) (sv : List (List Item)) (rt : Option (List N)) (tb te : Nat),
    stk ≠ [] → ∀ rest,
      execFrom c ⟨stk, sv, rt, tb, te⟩ (toks ++ rest) = .error (stopOf pos e)

/-- a step: the chain of the raw nodes of its written elements -/
def StepSim (c : Ctx) (cfg : Cfg) (ad : Bool) (s : Step) : Prop :=
  ∀ (p : Nat) (r : List Char), Sfx c.input p (Print.step ad s ++ r) →
    Sim c (tkStep ad p s) (fun pres : List Pre => [Item.chain (pres.map (rawOf c.acc))])
      (stepPre c.env cfg (stepT ad s)) (posStep c.env cfg ad p s)

/-- a filter query printed at precedence `prec` -/
def QSim (c : Ctx) (cfg : Cfg) (q : Query) : Prop :=
  ∀ (prec p : Nat) (r : List Char), Sfx c.input p (query prec q ++ r) →
    Sim c (tkQ prec p q) (fun q' : Q => [Item.query q']) (buildQ c.env cfg (queryT q))
      (posQ c.env cfg prec p q)

/-- an operand of a comparison -/
def OperandSim (c : Ctx) (cfg : Cfg) (o : Operand) : Prop :=
  ∀ (ord : Bool) (p : Nat) (r : List Char), Sfx c.input p (operand o ++ r) →
    Sim c (tkOperand ord p o) (fun x : P => [Item.cp x]) (buildOperand c.env cfg (operandT o))
      (posOperand c.env cfg p o)

def headP (h : Head) (ch : List N) : P :=
  match h with
  | .root => .proot ch
  | .cur => .pcur ch

def pathHead : Path → Head
  | .mk h _ _ => h

/-- `jsonpathFilter` on a printed path: `{38} jsonpathParameter {39}` leaves the parameter and the
    literal flag on the stack -/
def ParamSim (c : Ctx) (cfg : Cfg) (q : Path) : Prop :=
  ∀ (p : Nat) (r : List Char), Sfx c.input p (path q ++ r) →
    Sim c (.action 38 :: (tkPath p q ++ [.action 39]))
      (fun ch : List N => [Item.bool (decide (pathHead q = .root)), Item.query (.exist (headP (pathHead q) ch))])
      (buildPath c.env cfg false (pathT q)) (posPath c.env cfg p q)

end JPV.PP
