/-
ParsePrintActQ — action lemmas for the filter constructs, NON-RECURSIVE: each lemma takes the
simulation (`Sim`, ParsePrintSim) of the sub-constructs as hypotheses and concludes the simulation of
the construct. The mutual recursion is tied elsewhere.
-/
import JPV.Lemmas.ParsePrintSim
import JPV.Lemmas.ParsePrintActA
set_option linter.unusedSimpArgs false
namespace JPV.PP
open JPV.Peg JPV.Print JPV.Lex JPV.Build

/-! ### composing simulations -/

/-- `Sim` generalised: the tokens replace the items `pre` on top of a non-empty stack by `items v` -/
structure SimFrom {α : Type} (c : Ctx) (toks : List Tok) (pre : List Item) (items : α → List Item)
    (b : Except ParseErr α) (pos : Nat) : Prop where
  ok : ∀ v, b = .ok v → ∀ (stk : List Item) (sv : List (List Item)) (rt : Option (List N)) (tb te : Nat),
    stk ≠ [] → ∃ tb' te', ∀ rest,
      execFrom c ⟨pre ++ stk, sv, rt, tb, te⟩ (toks ++ rest) = execFrom c ⟨items v ++ stk, sv, rt, tb', te'⟩ rest
  err : ∀ e, b = .error e → ∀ (stk : List Item) (sv : List (List Item)) (rt : Option (List N)) (tb te : Nat),
    stk ≠ [] → ∀ rest,
      execFrom c ⟨pre ++ stk, sv, rt, tb, te⟩ (toks ++ rest) = .error (stopOf pos e)

theorem Sim.toFrom {α : Type} {c : Ctx} {toks : List Tok} {items : α → List Item} {b : Except ParseErr α}
    {pos : Nat} (h : Sim c toks items b pos) : SimFrom c toks [] items b pos :=
  ⟨fun v hv stk sv rt tb te hne => h.ok v hv stk sv rt tb te hne,
   fun e he stk sv rt tb te hne => h.err e he stk sv rt tb te hne⟩

theorem SimFrom.toSim {α : Type} {c : Ctx} {toks : List Tok} {items : α → List Item} {b : Except ParseErr α}
    {pos : Nat} (h : SimFrom c toks [] items b pos) : Sim c toks items b pos :=
  ⟨fun v hv stk sv rt tb te hne => h.ok v hv stk sv rt tb te hne,
   fun e he stk sv rt tb te hne => h.err e he stk sv rt tb te hne⟩

/-- a simulation leaves what is below untouched -/
theorem Sim.frame {α : Type} {c : Ctx} {toks : List Tok} {items : α → List Item} {b : Except ParseErr α}
    {pos : Nat} (h : Sim c toks items b pos) (pre : List Item) :
    SimFrom c toks pre (fun v => items v ++ pre) b pos := by
  constructor
  · intro v hv stk sv rt tb te _
    obtain ⟨tb', te', h1⟩ := h.ok v hv (pre ++ stk) sv rt tb te (by simp_all)
    exact ⟨tb', te', fun rest => by rw [h1, List.append_assoc]⟩
  · intro e he stk sv rt tb te _
    exact h.err e he (pre ++ stk) sv rt tb te (by simp_all)

/-- sequential composition = `bind` of `Build`; the position is that of the part that fails -/
theorem SimFrom.seq {α β : Type} {c : Ctx} {t1 t2 : List Tok} {pre : List Item} {i1 : α → List Item}
    {i2 : β → List Item} {b1 : Except ParseErr α} {f : α → Except ParseErr β} {pos1 pos2 : Nat}
    (h1 : SimFrom c t1 pre i1 b1 pos1) (h2 : ∀ a, b1 = .ok a → SimFrom c t2 (i1 a) i2 (f a) pos2) :
    SimFrom c (t1 ++ t2) pre i2 (b1 >>= f) (seqPos b1 pos1 pos2) := by
  cases b1 with
  | error e0 =>
    constructor
    · intro v hv; cases hv
    · intro e he stk sv rt tb te hne
      cases he
      have h3 := h1.err e0 rfl stk sv rt tb te hne
      exact fun rest => by rw [List.append_assoc, h3]; rfl
  | ok a =>
    constructor
    · intro v hv stk sv rt tb te hne
      obtain ⟨tb1, te1, h3⟩ := h1.ok a rfl stk sv rt tb te hne
      obtain ⟨tb2, te2, h4⟩ := (h2 a rfl).ok v hv stk sv rt tb1 te1 hne
      exact ⟨tb2, te2, fun rest => by rw [List.append_assoc, h3, h4]⟩
    · intro e he stk sv rt tb te hne
      obtain ⟨tb1, te1, h3⟩ := h1.ok a rfl stk sv rt tb te hne
      have h4 := (h2 a rfl).err e he stk sv rt tb1 te1 hne
      exact fun rest => by rw [List.append_assoc, h3, h4]; rfl

theorem SimFrom.cast {α : Type} {c : Ctx} {t t' : List Tok} {pre : List Item} {i i' : α → List Item}
    {b b' : Except ParseErr α} {pos pos' : Nat} (h : SimFrom c t pre i b pos) (ht : t = t') (hi : i = i')
    (hb : b = b') (hp : pos = pos') : SimFrom c t' pre i' b' pos' := by
  subst ht; subst hi; subst hb; subst hp; exact h

/-! ### literals -/

theorem exec_lit (c : Ctx) (l : Lit) (hl : litOK c.ext l) (ord : Bool) {p : Nat} {r : List Char}
    (h : Sfx c.input p (litText l ++ r)) (stk : List Item) (sv : List (List Item)) (rt : Option (List N))
    (tb te : Nat) :
    ∃ tb' te', ∀ rest, execFrom c ⟨stk, sv, rt, tb, te⟩ (tkOperand ord p (.lit l) ++ rest) =
      execFrom c ⟨.cp (.lit l.toVal) :: stk, sv, rt, tb', te'⟩ rest := by
  cases l with
  | num n =>
    simp only [litOK] at hl
    simp only [litText] at h
    refine ⟨p, p + (intText n).length, fun rest => ?_⟩
    cases ord <;>
    simp [tkOperand, tkLit, execFrom_text, execFrom_action, act, act40, act35, act36, St.text, textOf_sfx h, hl,
      pushCompareParameterLiteral, push, pop, bind, Except.bind, Lit.toVal]
  | bool b =>
    refine ⟨tb, te, fun rest => ?_⟩
    cases b <;> cases ord <;>
    simp [tkOperand, tkLit, execFrom_action, act, act41, act42, act35, act36,
      pushCompareParameterLiteral, push, pop, bind, Except.bind, Lit.toVal]
  | str s =>
    simp only [litOK] at hl
    simp only [litText, List.cons_append, List.append_assoc] at h
    refine ⟨p + 1, p + 1 + (escLit s.toList).length, fun rest => ?_⟩
    cases ord <;>
    simp [tkOperand, tkLit, execFrom_text, execFrom_action, act, act43, act35, act36, St.text, textOf_sfx h.tail, hl,
      pushCompareParameterLiteral, push, pop, bind, Except.bind, Lit.toVal]
  | null =>
    refine ⟨tb, te, fun rest => ?_⟩
    cases ord <;>
    simp [tkOperand, tkLit, execFrom_action, act, act45, act35, act36,
      pushCompareParameterLiteral, push, pop, bind, Except.bind, Lit.toVal]

/-- 1. a literal operand -/
theorem sim_operand_lit (c : Ctx) (cfg : Cfg) (l : Lit) (hl : litOK c.ext l) : OperandSim c cfg (.lit l) := by
  intro ord p r h
  have hb : buildOperand c.env cfg (operandT (.lit l)) = .ok (.lit l.toVal) := by rw [operandT, buildOperand]
  rw [hb]
  rw [Print.operand] at h
  constructor
  · intro v hv stk sv rt tb te _
    cases hv
    exact exec_lit c l hl ord h stk sv rt tb te
  · intro e he; cases he

/-! ### `singleJsonpathFilter` -/

theorem buildP_pathT (env : Env) (cfg : Cfg) (single : Bool) (q : Path) :
    buildP env cfg single (pathT q) =
      (buildPath env cfg false (pathT q) >>= fun ch =>
        if (single && chainVg ch) = true then .error .valueGroupOperand else .ok (headP (pathHead q) ch)) := by
  obtain ⟨h, ss, fns⟩ := q
  rw [BD.buildP_eq, pathT]
  cases h <;> rfl

/-- `singleJsonpathFilter`: the capture and action 37 -/
theorem stage37 (c : Ctx) (h : Head) (ch : List N) (p e : Nat) :
    SimFrom c [.text p e, .action 37] [Item.bool (decide (h = .root)), Item.query (.exist (headP h ch))]
      (fun x : P => [Item.cp x])
      (if (true && chainVg ch) = true then .error .valueGroupOperand else .ok (headP h ch)) p := by
  cases hvg : chainVg ch with
  | true =>
    constructor
    · intro v hv; simp at hv
    · intro e0 he stk sv rt tb te _
      simp at he; subst he
      intro rest
      cases h <;>
      simp [execFrom_text, execFrom_action, act, act37, pop, push, asBool, asJP, headP, paramChain, hvg,
        bind, Except.bind, stopOf]
  | false =>
    constructor
    · intro v hv stk sv rt tb te _
      simp at hv; subst hv
      refine ⟨p, e, fun rest => ?_⟩
      cases h <;>
      simp [execFrom_text, execFrom_action, act, act37, pop, push, asBool, asJP, headP, paramChain, hvg,
        bind, Except.bind, isCurP]
    · intro e0 he; simp at he

theorem sim_single (c : Ctx) (cfg : Cfg) (q : Path) (hq : ParamSim c cfg q) {p : Nat} {r : List Char}
    (h : Sfx c.input p (path q ++ r)) :
    Sim c (.action 38 :: (tkPath p q ++ [.action 39, .text p (p + (path q).length), .action 37]))
      (fun x : P => [Item.cp x]) (buildP c.env cfg true (pathT q)) (posOperand c.env cfg p (.path q)) := by
  rw [buildP_pathT]
  have h1 := (hq p r h).toFrom.seq (t2 := [.text p (p + (path q).length), .action 37])
    (i2 := fun x : P => [Item.cp x])
    (f := fun ch => if (true && chainVg ch) = true then .error .valueGroupOperand else .ok (headP (pathHead q) ch))
    (fun ch _ => stage37 c (pathHead q) ch p _)
  exact (h1.cast (by simp) rfl rfl (by rw [posOperand])).toSim

/-- 2. a path operand -/
theorem sim_operand_path (c : Ctx) (cfg : Cfg) (q : Path) (hq : ParamSim c cfg q) : OperandSim c cfg (.path q) := by
  intro ord p r h
  rw [Print.operand] at h
  rw [operandT, buildOperand, tkOperand]
  exact sim_single c cfg q hq h

/-! ### existence tests -/

/-- the capture of a basic query and action 27 -/
theorem stage27 (c : Ctx) (neg b : Bool) (Q0 : Q) {p : Nat} {s r : List Char} (c0 : Char) (s' : List Char)
    (hs : s = c0 :: s') (hc : (c0 == '!') = neg) (h : Sfx c.input p (s ++ r)) {pos : Nat} :
    SimFrom c [.text p (p + s.length), .action 27] [Item.bool b, Item.query Q0] (fun q' : Q => [Item.query q'])
      (.ok (if neg then .not Q0 else Q0)) pos := by
  constructor
  · intro v hv stk sv rt tb te _
    cases hv
    refine ⟨p, p + s.length, fun rest => ?_⟩
    have ht : textOf c.input p (p + s.length) = String.ofList (c0 :: s') := by rw [textOf_sfx h, hs]
    cases neg <;> simp at hc <;>
    simp [execFrom_text, execFrom_action, act, act27, pop, push, asQuery, St.text, ht,
      String.toList_ofList, hc, bind, Except.bind]
  · intro e he; cases he

theorem path_consQ (q : Path) : path q = headChar (pathHead q) :: (path q).tail := by
  obtain ⟨h, ss, fns⟩ := q
  rw [path]; rfl

theorem headChar_ne_bang (h : Head) : (headChar h == '!') = false := by cases h <;> decide

theorem buildQ_exist (env : Env) (cfg : Cfg) (neg : Bool) (q : Path) :
    buildQ env cfg (queryT (.exist neg q)) =
      (buildPath env cfg false (pathT q) >>= fun ch =>
        .ok (if neg then .not (.exist (headP (pathHead q) ch)) else .exist (headP (pathHead q) ch))) := by
  rw [queryT, buildQ, buildP_pathT]
  cases buildPath env cfg false (pathT q) <;> rfl

/-- 3. an existence test -/
theorem sim_exist (c : Ctx) (cfg : Cfg) (neg : Bool) (q : Path) (hq : ParamSim c cfg q) : QSim c cfg (.exist neg q) := by
  intro prec p r h
  rw [buildQ_exist, tkQ]
  have h0 : Sfx c.input (p + (if neg then 1 else 0)) (path q ++ r) := by
    rw [Print.query] at h
    cases neg
    · simpa using h
    · simpa using h.tail
  have hs : ∃ c0 s', query prec (.exist neg q) = c0 :: s' ∧ (c0 == '!') = neg := by
    rw [Print.query, path_consQ q]
    cases neg
    · exact ⟨_, _, rfl, headChar_ne_bang _⟩
    · exact ⟨_, _, rfl, rfl⟩
  obtain ⟨c0, s', hs1, hs2⟩ := hs
  have h1 := (hq _ r h0).toFrom.seq (pos2 := posPath c.env cfg (p + (if neg then 1 else 0)) q)
    (f := fun ch => .ok (if neg then Q.not (.exist (headP (pathHead q) ch)) else .exist (headP (pathHead q) ch)))
    (fun ch _ => stage27 c neg (decide (pathHead q = .root)) (.exist (headP (pathHead q) ch)) c0 s' hs1 hs2 h)
  exact (h1.cast (by simp) rfl rfl (by rw [seqPos_self, posQ])).toSim

/-! ### comparisons -/

/-- what `buildQ` answers for a comparison of two operands that are not both `@`-paths -/
def mkCmp (op : CmpOp) (l r : P) : Q :=
  match op with
  | .eq => mkEq l r
  | .ne => .not (mkEq l r)
  | _ => mkOrd op l r

/-- what the action of the operator pushes -/
def pegMk : CmpOp → P → P → Q
  | .eq => mkEQ
  | .ne => fun l r => .not (mkEQ l r)
  | .le => mkLE
  | .lt => mkLT
  | .ge => mkGE
  | .gt => mkGT

theorem peg_rank (x : P) : Peg.rank x = Build.rank x := by cases x <;> rfl

theorem peg_litTy (v : Val) : Peg.litTy v = Build.litTyOfVal v := by cases v <;> rfl

theorem mkEQ_eq (l r : P) : mkEQ l r = mkEq l r := by
  simp only [mkEQ, mkEq, peg_rank]
  split <;> (split <;> simp_all [peg_litTy])

theorem pegMk_eq (op : CmpOp) (l r : P) : pegMk op l r = mkCmp op l r := by
  cases op <;> simp only [pegMk, mkCmp, mkEQ_eq, mkLE, mkLT, mkGE, mkGT, mkOrd, peg_rank]

theorem act_op (c : Ctx) (op : CmpOp) (st : St) : act c (opAction op) st = compareAction (pegMk op) st := by
  cases op <;> rfl

theorem isCurP_eq (x : P) : isCurP x = isCur x := by cases x <;> rfl

theorem twoCur_mkEq (l r : P) : twoCurrentNodes (.query (mkEq l r)) = (isCur l && isCur r) := by
  cases l <;> cases r <;> rfl

theorem twoCur_mkCmp (op : CmpOp) (l r : P) :
    twoCurrentNodes (.query (mkCmp op l r)) = (isCur l && isCur r) := by
  cases op <;> cases l <;> cases r <;> rfl

theorem buildQ_cmp (env : Env) (cfg : Cfg) (op : CmpOp) (l r : Operand) :
    buildQ env cfg (queryT (.cmp op l r)) =
      (buildOperand env cfg (operandT l) >>= fun a => buildOperand env cfg (operandT r) >>= fun b =>
        if (isCur a && isCur b) = true then .error .twoCurrentNodes else .ok (mkCmp op a b)) := by
  rw [queryT, buildQ]
  cases buildOperand env cfg (operandT l) with
  | error e => rfl
  | ok a =>
    cases buildOperand env cfg (operandT r) with
    | error e => rfl
    | ok b => cases op <;> rfl

theorem exec_cmpop (c : Ctx) (op : CmpOp) (a b : P) (stk : List Item) (sv : List (List Item)) (rt : Option (List N))
    (tb te : Nat) (rest : List Tok) :
    execFrom c ⟨.cp b :: .cp a :: stk, sv, rt, tb, te⟩ (.action (opAction op) :: rest) =
      execFrom c ⟨.query (mkCmp op a b) :: stk, sv, rt, tb, te⟩ rest := by
  apply execFrom_action_ok
  rw [act_op, ← pegMk_eq]
  rfl

/-- the operator action, the capture of the comparison and action 26 -/
theorem stageCmp (c : Ctx) (op : CmpOp) (a b : P) (p e : Nat) :
    SimFrom c [.action (opAction op), .text p e, .action 26] [Item.cp b, Item.cp a] (fun q : Q => [Item.query q])
      (if (isCur a && isCur b) = true then .error .twoCurrentNodes else .ok (mkCmp op a b)) p := by
  cases hcur : (isCur a && isCur b) with
  | true =>
    constructor
    · intro v hv; simp at hv
    · intro e0 he stk sv rt tb te _
      simp at he; subst he
      intro rest
      simp only [List.cons_append, List.nil_append]
      rw [exec_cmpop]
      simp [execFrom_text, execFrom_action, act, act26, pop, push,
        twoCur_mkCmp, hcur, bind, Except.bind, stopOf]
  | false =>
    constructor
    · intro v hv stk sv rt tb te _
      simp at hv; subst hv
      refine ⟨p, e, fun rest => ?_⟩
      simp only [List.cons_append, List.nil_append]
      rw [exec_cmpop]
      simp [execFrom_text, execFrom_action, act, act26, pop, push,
        twoCur_mkCmp, hcur, bind, Except.bind]
    · intro e0 he; simp at he

/-- 4. a comparison -/
theorem sim_cmp (c : Ctx) (cfg : Cfg) (op : CmpOp) (l r : Operand) (hl : OperandSim c cfg l)
    (hr : OperandSim c cfg r) : QSim c cfg (.cmp op l r) := by
  intro prec p r0 h
  rw [buildQ_cmp, tkQ]
  rw [Print.query] at h
  simp only [List.append_assoc] at h
  have h1 := (hl (isOrdOp op) p _ h).toFrom
  have h2 := fun a : P => (hr (isOrdOp op) _ _ h.append.append).frame [Item.cp a]
  exact ((h1.seq (fun a _ => (h2 a).seq (fun b _ => stageCmp c op a b p _))).cast rfl rfl rfl
    (by rw [posQ])).toSim

/-! ### regular expressions -/

theorem escRegex_of_all : ∀ (l : List Char), l.all (fun c => c != '/' && c != '\\') = true → escRegex l = l := by
  intro l
  induction l with
  | nil => intro _; rfl
  | cons x xs ih =>
    intro h
    simp only [List.all_cons, Bool.and_eq_true, bne_iff_ne, ne_eq] at h
    have := ih (by simpa using h.2)
    simp only [escRegex, List.flatMap_cons] at this ⊢
    rw [this, if_neg h.1.1]
    rfl

theorem escRegex_okQ (re : String) (h : regexOK re = true) : escRegex re.toList = re.toList :=
  escRegex_of_all _ h

/-- the capture of the regular expression, action 34, the capture of the comparison, action 26 -/
theorem stage34 (c : Ctx) (re : String) (hc : c.ext.regexCompile re = .ok) (x : P) {p3 : Nat} {r : List Char}
    (h : Sfx c.input p3 (re.toList ++ r)) (p e : Nat) {pos : Nat} :
    SimFrom c [.text p3 (p3 + re.toList.length), .action 34, .text p e, .action 26] [Item.cp x]
      (fun q : Q => [Item.query q]) (.ok (.cmp x (.lit (.str "regex")) (.regex re))) pos := by
  constructor
  · intro v hv stk sv rt tb te _
    cases hv
    refine ⟨p, e, fun rest => ?_⟩
    simp [execFrom_text, execFrom_action, act, act34, act26, pop, push, asCP, St.text, textOf_sfx h,
      String.ofList_toList, hc, twoCurrentNodes, isCurP, bind, Except.bind]
  · intro e he; cases he

theorem buildQ_regex (env : Env) (cfg : Cfg) (q : Path) (re : String) :
    buildQ env cfg (queryT (.regex q re)) =
      (buildP env cfg true (pathT q) >>= fun l => .ok (.cmp l (.lit (.str "regex")) (.regex re))) := by
  rw [queryT, buildQ]

/-- 5. a regular-expression test -/
theorem sim_regex (c : Ctx) (cfg : Cfg) (q : Path) (re : String) (hq : ParamSim c cfg q)
    (hre : regexOK re = true) (hc : c.ext.regexCompile re = .ok) : QSim c cfg (.regex q re) := by
  intro prec p r h
  rw [buildQ_regex, tkQ, escRegex_okQ re hre]
  rw [Print.query, escRegex_okQ re hre] at h
  simp only [List.append_assoc, List.cons_append] at h
  have h3 : Sfx c.input (p + (path q).length + 3) (re.toList ++ ('/' :: r)) := by
    have := h.append.tail.tail.tail
    simpa [Nat.add_assoc] using this
  have h1 := (sim_single c cfg q hq h).toFrom.seq (pos2 := posOperand c.env cfg p (.path q))
    (f := fun l => .ok (Q.cmp l (.lit (.str "regex")) (.regex re)))
    (fun x _ => stage34 c re hc x h3 p (p + (query prec (.regex q re)).length))
  exact (h1.cast (by simp) rfl rfl (by rw [seqPos_self, posQ_regex])).toSim

/-! ### `||` and `&&` -/

/-- the two operands of a printed `||` / `&&`, with or without the parentheses around the whole -/
theorem sfx_paren {inp : Array Char} {p : Nat} (P : Prop) [Decidable P] (X Y : List Char) (c1 c2 : Char) (r : List Char)
    (h : Sfx inp p (paren (decide P) (X ++ c1 :: c2 :: Y) ++ r)) :
    ∃ r1 r2, Sfx inp (p + (if P then 1 else 0)) (X ++ r1) ∧
      Sfx inp (p + (if P then 1 else 0) + X.length + 2) (Y ++ r2) := by
  by_cases hP : P
  · simp only [paren, hP, decide_true, if_true, List.cons_append, List.append_assoc] at h ⊢
    exact ⟨_, _, h.tail, h.tail.append.tail.tail⟩
  · simp only [paren, hP, decide_false, Bool.false_eq_true, if_false, List.cons_append, List.append_assoc,
      Nat.add_zero] at h ⊢
    exact ⟨_, _, h, h.append.tail.tail⟩

theorem stage24 (c : Ctx) (lq rq : Q) {pos : Nat} :
    SimFrom c [.action 24] [Item.query rq, Item.query lq] (fun q : Q => [Item.query q]) (.ok (.or lq rq)) pos := by
  constructor
  · intro v hv stk sv rt tb te _
    cases hv
    exact ⟨tb, te, fun rest => rfl⟩
  · intro e he; cases he

theorem stage25 (c : Ctx) (lq rq : Q) {pos : Nat} :
    SimFrom c [.action 25] [Item.query rq, Item.query lq] (fun q : Q => [Item.query q]) (.ok (.and lq rq)) pos := by
  constructor
  · intro v hv stk sv rt tb te _
    cases hv
    exact ⟨tb, te, fun rest => rfl⟩
  · intro e he; cases he

theorem buildQ_or (env : Env) (cfg : Cfg) (a b : Query) :
    buildQ env cfg (queryT (.or a b)) =
      (buildQ env cfg (queryT a) >>= fun x => buildQ env cfg (queryT b) >>= fun y => .ok (.or x y)) := by
  rw [queryT, buildQ]

theorem buildQ_and (env : Env) (cfg : Cfg) (a b : Query) :
    buildQ env cfg (queryT (.and a b)) =
      (buildQ env cfg (queryT a) >>= fun x => buildQ env cfg (queryT b) >>= fun y => .ok (.and x y)) := by
  rw [queryT, buildQ]

/-- 6. `||` -/
theorem sim_or (c : Ctx) (cfg : Cfg) (a b : Query) (ha : QSim c cfg a) (hb : QSim c cfg b) :
    QSim c cfg (.or a b) := by
  intro prec p r h
  rw [buildQ_or, tkQ]
  rw [Print.query] at h
  obtain ⟨r1, r2, h1, h2⟩ := sfx_paren (0 < prec) _ _ _ _ r h
  have s1 := (ha 0 _ r1 h1).toFrom
  have s2 := fun x : Q => (hb 1 _ r2 h2).frame [Item.query x]
  exact ((s1.seq (fun x _ => (s2 x).seq (pos2 := posQ c.env cfg 1 (p + (if 0 < prec then 1 else 0) +
    (query 0 a).length + 2) b) (fun y _ => stage24 c x y))).cast rfl rfl rfl (by rw [seqPos_self, posQ])).toSim

/-- 6. `&&` -/
theorem sim_and (c : Ctx) (cfg : Cfg) (a b : Query) (ha : QSim c cfg a) (hb : QSim c cfg b) :
    QSim c cfg (.and a b) := by
  intro prec p r h
  rw [buildQ_and, tkQ]
  rw [Print.query] at h
  obtain ⟨r1, r2, h1, h2⟩ := sfx_paren (1 < prec) _ _ _ _ r h
  have s1 := (ha 1 _ r1 h1).toFrom
  have s2 := fun x : Q => (hb 2 _ r2 h2).frame [Item.query x]
  exact ((s1.seq (fun x _ => (s2 x).seq (pos2 := posQ c.env cfg 2 (p + (if 1 < prec then 1 else 0) +
    (query 1 a).length + 2) b) (fun y _ => stage25 c x y))).cast rfl rfl rfl (by rw [seqPos_self, posQ])).toSim

/-! ### filter steps -/

/-- action 23, the capture of the bracket and action 7 -/
theorem stage23 (c : Ctx) (q' : Q) {p : Nat} {s r : List Char} (h : Sfx c.input p (s ++ r)) {pos : Nat} :
    SimFrom c [.action 23, .text p (p + s.length), .action 7] [Item.query q']
      (fun pres : List Pre => [Item.chain (pres.map (rawOf c.acc))])
      (.ok [.node (String.ofList s) true (fun i => .filter i q')]) pos := by
  constructor
  · intro v hv stk sv rt tb te _
    cases hv
    refine ⟨p, p + s.length, fun rest => ?_⟩
    simp only [List.cons_append, List.nil_append]
    rw [execFrom_action_ok c _ ⟨.chain [.filter (mkInfo c "" true) q'] :: stk, sv, rt, tb, te⟩ 23 _ rfl,
      exec_setText c 7 (.inr rfl) _ _ h]
    rfl
  · intro e he; cases he

theorem stepPre_filterT (env : Env) (cfg : Cfg) (ad : Bool) (t : String) (q : Query) :
    stepPre env cfg (stepT ad (.filter t q)) =
      (buildQ env cfg (queryT q) >>= fun q' =>
        .ok [.node (String.ofList (Print.step ad (.filter t q))) true (fun i => .filter i q')]) := by
  rw [stepT, stepPre]

/-- 7. a filter step -/
theorem sim_step_filter (c : Ctx) (cfg : Cfg) (ad : Bool) (t : String) (q : Query) (hq : QSim c cfg q) :
    StepSim c cfg ad (.filter t q) := by
  intro p r h
  rw [stepPre_filterT, tkStep]
  have h0 : Sfx c.input (p + 3) (query 0 q ++ (')' :: ']' :: r)) := by
    have := h
    rw [Print.step] at this
    simp only [List.cons_append, List.append_assoc] at this
    simpa [Nat.add_assoc] using this.tail.tail.tail
  exact (((hq 0 _ _ h0).toFrom.seq (pos2 := posQ c.env cfg 0 (p + 3) q) (fun q' _ => stage23 c q' h)).cast rfl rfl rfl
    (by rw [seqPos_self, posStep])).toSim

/-! ### plain steps -/

/-- 8. a step that is neither `..` nor a filter -/
theorem sim_step_plain (c : Ctx) (cfg : Cfg) (ad : Bool) (s : Step) (hnd : ∀ s', s ≠ .desc s')
    (hnf : noFilterStep s = true) (hwf : stepWf ad s = true) (hok : stepExtOK c.ext s) : StepSim c cfg ad s := by
  intro p r h
  obtain ⟨t, vg, mk, h1, h2, _⟩ := stepPre_plain c.env cfg c.acc ad s hnd hnf
  rw [h1]
  constructor
  · intro v hv stk sv rt tb te _
    cases hv
    obtain ⟨tb', te', h3⟩ := exec_step_plain c ad s hnd hnf hwf hok h stk sv rt tb te
    refine ⟨tb', te', fun rest => ?_⟩
    rw [h3, ← h2]
    rfl
  · intro e he; cases he

/-! ### `..` -/

/-- the flags `pushRecursiveChildIdentifier` reads off the node that follows `..` -/
def recFlags : N → Bool × Bool
  | .wild _ => (true, true)
  | .multi _ _ _ => (true, true)
  | .filter _ _ => (true, true)
  | .child _ _ => (true, false)
  | .union _ _ => (false, true)
  | _ => (false, false)

theorem pushRecursiveChild_cons (c : Ctx) (n : N) (rest : List N) (st : St) :
    pushRecursiveChild c (n :: rest) st =
      push (.chain (.desc (mkInfo c ".." true) (recFlags n).1 (recFlags n).2 :: n :: rest)) st := by
  cases n <;> rfl

/-- what `stepPre` answers for a printed step that is not `..`: one written element, whose node is
    of the kind that gives `..` the flags `Build` computes from the abstract step -/
theorem stepPre_shape (env : Env) (cfg : Cfg) (s : Step) (hnd : ∀ s', s ≠ .desc s') (pres : List Pre)
    (h : stepPre env cfg (stepT true s) = .ok pres) :
    ∃ T vg mk, pres = [.node T vg mk] ∧
      ∀ i, recFlags (mk i) = (BD.descMr (stepT true s), BD.descLr (stepT true s)) := by
  rw [desc_flags]
  cases s with
  | child t k =>
    rw [stepT, stepPre] at h; cases h
    exact ⟨_, _, _, rfl, fun _ => rfl⟩
  | wild t =>
    rw [stepT, stepPre] at h; cases h
    exact ⟨_, _, _, rfl, fun _ => rfl⟩
  | multi t ns =>
    rw [stepT, stepPre] at h; cases h
    exact ⟨_, _, _, rfl, fun _ => rfl⟩
  | union t ss =>
    rw [stepT, BD.stepPre_union] at h; cases h
    exact ⟨_, _, _, rfl, fun _ => rfl⟩
  | filter t q =>
    rw [stepPre_filterT] at h
    obtain ⟨q', _, h'⟩ := BD.bind_ok h
    cases h'
    exact ⟨_, _, _, rfl, fun _ => rfl⟩
  | desc s' => exact absurd rfl (hnd s')

/-- action 3 on the chain of the step that follows `..` -/
theorem stage3 (c : Ctx) (T : String) (vg : Bool) (mk : Info → N) (mr lr : Bool)
    (hf : ∀ i, recFlags (mk i) = (mr, lr)) {pos : Nat} :
    SimFrom c [.action 3] [Item.chain ([Pre.node T vg mk].map (rawOf c.acc))]
      (fun pres : List Pre => [Item.chain (pres.map (rawOf c.acc))])
      (.ok (.node ".." true (fun i => .desc i mr lr) :: [Pre.node T vg mk])) pos := by
  constructor
  · intro v hv stk sv rt tb te _
    cases hv
    refine ⟨tb, te, fun rest => ?_⟩
    simp only [List.cons_append, List.nil_append, List.map_cons, List.map_nil]
    rw [execFrom_action_ok c _ ⟨.chain (.desc (mkInfo c ".." true) mr lr :: [rawOf c.acc (.node T vg mk)]) :: stk,
      sv, rt, tb, te⟩ 3 _ (by
        simp only [act, act3, pop, asNode, bind, Except.bind]
        rw [pushRecursiveChild_cons]
        have := hf { text := T, conn := "", vg := vg, acc := c.acc }
        simp only [rawOf, nodeWith, Pre.text, preVg, this]
        rfl)]
    rfl
  · intro e he; cases he

/-- 9. `..` followed by a step -/
theorem sim_step_desc (c : Ctx) (cfg : Cfg) (s : Step) (hnd : ∀ s', s ≠ .desc s') (hs : StepSim c cfg true s) :
    StepSim c cfg false (.desc s) := by
  intro p r h
  rw [stepT, BD.stepPre_desc, tkStep]
  have h0 : Sfx c.input (p + 2) (Print.step true s ++ r) := by
    have := h
    rw [Print.step] at this
    simp only [List.cons_append] at this
    exact this.tail.tail
  refine (((hs _ r h0).toFrom.seq (pos2 := posStep c.env cfg true (p + 2) s) (fun pres hp => ?_)).cast rfl rfl rfl
    (by rw [seqPos_self, posStep])).toSim
  obtain ⟨T, vg, mk, rfl, hf⟩ := stepPre_shape c.env cfg s hnd pres hp
  exact stage3 c T vg mk _ _ hf

end JPV.PP
