/-
ParserTieState — the regenerated helpers of `Gen/ParserHelpersGo.lean` against the helper models of
`Peg/Actions.lean` on whole parser states (`Rep`, `eraseSt` of Lemmas/ParserState.lean).
Part 1: the stacks (`push`, `pop`, `saveParams`, `loadParams`).
-/
import JPV.Lemmas.ParserState
namespace JPV
namespace ParserLayout
open JPV JPV.ParserNode
open JPV.Gen.ParserHelpersGo

/-! ### slices -/

theorem sliceIndex_last {α : Type} (s : List α) (a : α) :
    sliceIndex (s ++ [a]) (goLen (s ++ [a]) - 1) = .ok a := by
  have h1 : goLen (s ++ [a]) - 1 = (s.length : Int) := by
    simp only [goLen, List.length_append, List.length_cons, List.length_nil]; omega
  rw [h1]
  simp only [sliceIndex]
  rw [if_neg (by omega)]
  simp

theorem sliceTo_last {α : Type} (s : List α) (a : α) :
    sliceTo (s ++ [a]) (goLen (s ++ [a]) - 1) = .ok s := by
  have h1 : goLen (s ++ [a]) - 1 = (s.length : Int) := by
    simp only [goLen, List.length_append, List.length_cons, List.length_nil]; omega
  rw [h1]
  simp only [sliceTo]
  rw [if_neg (by simp only [List.length_append, List.length_cons, List.length_nil, Bool.or_eq_true, decide_eq_true_eq]; omega)]
  simp

theorem sliceIndex_nil_last {α : Type} : sliceIndex ([] : List α) (goLen ([] : List α) - 1) = .error .indexOutOfRange := by
  simp [sliceIndex, goLen]

theorem sliceIndex_zero {α : Type} (a : α) (s : List α) : sliceIndex (a :: s) 0 = .ok a := by
  simp [sliceIndex]

theorem sliceIndex_nil_zero {α : Type} : sliceIndex ([] : List α) 0 = .error .indexOutOfRange := by
  simp [sliceIndex]

theorem sliceFrom_one {α : Type} (a : α) (s : List α) : sliceFrom (a :: s) 1 = .ok s := by
  simp only [sliceFrom]
  rw [if_neg (by simp only [List.length_cons, Bool.or_eq_true, decide_eq_true_eq]; omega)]
  simp

theorem list_snoc_cases {α : Type} (l : List α) : l = [] ∨ ∃ s a, l = s ++ [a] := by
  induction l with
  | nil => exact Or.inl rfl
  | cons x l ih =>
    refine Or.inr ?_
    rcases ih with rfl | ⟨s, a, rfl⟩
    · exact ⟨[], x, rfl⟩
    · exact ⟨x :: s, a, rfl⟩

/-! ### rearranging owned cells -/

theorem Sat.subset {h : Heap} {cs ds : List (Nat × Cell)} (hsub : ∀ x, x ∈ ds → x ∈ cs) (hs : Sat h cs) :
    Sat h ds := fun x hx => hs x (hsub x hx)

theorem ids_nil : ids ([] : List (Nat × Cell)) = [] := rfl

/-- `x ∈ new cells → x ∈ old cells` after unfolding the state layout -/
macro "mem_rearr" : tactic => `(tactic|
  (intro x hx
   simp only [cellsSt, cellsItems_append, cellsFrames_append, cellsItems, cellsFrames, cellsItem,
     List.mem_append, List.append_nil, List.nil_append, List.mem_cons, List.not_mem_nil, or_false, false_or] at hx ⊢
   grind))

/-- `Nodup (ids new)` from `h : Nodup (ids old)` after unfolding the state layout -/
macro "nodup_rearr" h:ident : tactic => `(tactic|
  (simp only [cellsSt, cellsItems_append, cellsFrames_append, cellsItems, cellsFrames, cellsItem, ids_append, ids_cons,
     ids_nil, List.nodup_append, List.nodup_cons, List.mem_append, List.mem_cons, List.append_nil, List.nil_append,
     List.not_mem_nil, List.nodup_nil] at $h:ident ⊢
   grind))

/-! ### `push`, `pop` -/

theorem push_eq (x : GItem) (g : PS) : push x g = .ok { g with params := g.params ++ [x] } := rfl

theorem pop_snoc (g : PS) (s : List GItem) (a : GItem) (hg : g.params = s ++ [a]) :
    pop g = .ok (a, { g with params := s }) := by
  simp only [pop, hg, sliceIndex_last, sliceTo_last, bind_ok]

theorem pop_nil (g : PS) (hg : g.params = []) : pop g = .error .indexOutOfRange := by
  simp only [pop, hg, sliceIndex_nil_last, bind_err]

theorem eraseSt_push (L : LSt) (it : LItem) (tb te : Nat) :
    eraseSt { L with stack := L.stack ++ [it] } tb te = Peg.push (eraseItem it) (eraseSt L tb te) := by
  simp only [eraseSt, Peg.push, List.map_append, List.map_cons, List.map_nil, List.reverse_append,
    List.reverse_cons, List.reverse_nil, List.nil_append, List.cons_append]

/-- `p.push(x)` for a value whose cells are held -/
theorem push_tie (c : Peg.Ctx) (g : PS) (L : LSt) (X : List (Nat × Cell)) (it : LItem) (tb te : Nat)
    (hrep : Rep c g L (cellsItem it ++ X)) (hwf : wfItem it) :
    ∃ g', push (gitem it) g = .ok g' ∧ Rep c g' { L with stack := L.stack ++ [it] } X ∧
      eraseSt { L with stack := L.stack ++ [it] } tb te = Peg.push (eraseItem it) (eraseSt L tb te) := by
  refine ⟨_, push_eq _ _, ?_, eraseSt_push L it tb te⟩
  have hnd := hrep.nodup
  exact {
    params := by simp only [hrep.params, List.map_append, List.map_cons, List.map_nil]
    paramsList := hrep.paramsList
    root := hrep.root
    sat := hrep.sat.subset (by mem_rearr)
    nodup := by nodup_rearr hnd
    wfStack := by
      intro x hx
      rcases List.mem_append.mp hx with hx | hx
      · exact hrep.wfStack x hx
      · rw [List.mem_singleton.mp hx]; exact hwf
    wfSaved := hrep.wfSaved
    acc := hrep.acc
    ffn := hrep.ffn
    afn := hrep.afn }

/-- `p.pop()`: the popped value is then held -/
theorem pop_tie (c : Peg.Ctx) (g : PS) (L : LSt) (X : List (Nat × Cell)) (tb te : Nat) (hrep : Rep c g L X) :
    match Peg.pop (eraseSt L tb te) with
    | .ok (x, st') => ∃ it s, L.stack = s ++ [it] ∧
        pop g = .ok (gitem it, { g with params := s.map gitem }) ∧
        Rep c { g with params := s.map gitem } { L with stack := s } (cellsItem it ++ X) ∧ wfItem it ∧
        eraseItem it = x ∧ eraseSt { L with stack := s } tb te = st'
    | .error e => ∃ e', pop g = .error e' ∧ absErr e' = some e := by
  rcases list_snoc_cases L.stack with hnil | ⟨s, it, hs⟩
  · have : Peg.pop (eraseSt L tb te) = .error (.panic .indexOutOfRange) := by
      simp only [Peg.pop, eraseSt, hnil, List.map_nil, List.reverse_nil]
    rw [this]
    exact ⟨_, pop_nil g (by rw [hrep.params, hnil]; rfl), rfl⟩
  · have : Peg.pop (eraseSt L tb te) = .ok (eraseItem it, eraseSt { L with stack := s } tb te) := by
      simp only [Peg.pop, eraseSt, hs, List.map_append, List.map_cons, List.map_nil, List.reverse_append,
        List.reverse_cons, List.reverse_nil, List.nil_append, List.cons_append]
    rw [this]
    refine ⟨it, s, hs, pop_snoc g _ _ (by rw [hrep.params, hs, List.map_append]; rfl), ?_,
      hrep.wfStack it (by rw [hs]; exact List.mem_append_right _ (List.mem_singleton.mpr rfl)), rfl, rfl⟩
    have hnd := hrep.nodup
    rw [show L = { L with stack := s ++ [it] } by rw [← hs]] at hnd
    have hsat := hrep.sat
    rw [show L = { L with stack := s ++ [it] } by rw [← hs]] at hsat
    exact {
      params := rfl
      paramsList := hrep.paramsList
      root := hrep.root
      sat := hsat.subset (by mem_rearr)
      nodup := by nodup_rearr hnd
      wfStack := fun x hx => hrep.wfStack x (by rw [hs]; exact List.mem_append_left _ hx)
      wfSaved := hrep.wfSaved
      acc := hrep.acc
      ffn := hrep.ffn
      afn := hrep.afn }

/-! ### `saveParams`, `loadParams` -/

/-- `saveParams` -/
theorem saveParams_tie (c : Peg.Ctx) (g : PS) (L : LSt) (X : List (Nat × Cell)) (tb te : Nat) (hrep : Rep c g L X) :
    ∃ g' L', saveParams g = .ok g' ∧ Rep c g' L' X ∧ eraseSt L' tb te = Peg.saveParams (eraseSt L tb te) := by
  cases hst : L.stack with
  | nil =>
    refine ⟨g, L, ?_, hrep, ?_⟩
    · simp only [saveParams, hrep.params, hst, List.map_nil, goLen, List.length_nil]
      rfl
    · simp only [Peg.saveParams, eraseSt, hst, List.map_nil, List.reverse_nil]
  | cons it rest =>
    refine ⟨{ g with paramsList := g.paramsList ++ [g.params], params := [] },
      { L with saved := L.saved ++ [L.stack], stack := [] }, ?_, ?_, ?_⟩
    · simp only [saveParams, hrep.params, hst, List.map_cons, goLen, List.length_cons]
      rw [if_pos (by omega)]
    · have hnd := hrep.nodup
      exact {
        params := rfl
        paramsList := by simp only [hrep.paramsList, hrep.params, List.map_append, List.map_cons, List.map_nil]
        root := hrep.root
        sat := hrep.sat.subset (by mem_rearr)
        nodup := by nodup_rearr hnd
        wfStack := by intro x hx; cases hx
        wfSaved := by
          intro fr hfr x hx
          rcases List.mem_append.mp hfr with hfr | hfr
          · exact hrep.wfSaved fr hfr x hx
          · rw [List.mem_singleton.mp hfr] at hx; exact hrep.wfStack x hx
        acc := hrep.acc
        ffn := hrep.ffn
        afn := hrep.afn }
    · simp only [Peg.saveParams, eraseSt, hst, List.map_cons, List.map_append, List.map_nil, List.reverse_append,
        List.reverse_cons, List.reverse_nil, List.nil_append, List.cons_append]
      cases h : (List.map eraseItem rest).reverse ++ [eraseItem it] with
      | nil => simp at h
      | cons a b => rfl

/-- `loadParams` -/
theorem loadParams_tie (c : Peg.Ctx) (g : PS) (L : LSt) (X : List (Nat × Cell)) (tb te : Nat) (hrep : Rep c g L X) :
    ∃ g' L', loadParams g = .ok g' ∧ Rep c g' L' X ∧ eraseSt L' tb te = Peg.loadParams (eraseSt L tb te) := by
  rcases list_snoc_cases L.saved with hnil | ⟨s, fr, hs⟩
  · refine ⟨g, L, ?_, hrep, ?_⟩
    · simp only [loadParams, hrep.paramsList, hnil, List.map_nil, goLen, List.length_nil]
      rfl
    · simp only [Peg.loadParams, eraseSt, hnil, List.map_nil, List.reverse_nil]
  · refine ⟨{ g with params := fr.map gitem ++ g.params, paramsList := s.map (fun fr => fr.map gitem) },
      { L with saved := s, stack := fr ++ L.stack }, ?_, ?_, ?_⟩
    · have hpl : g.paramsList = s.map (fun fr => fr.map gitem) ++ [fr.map gitem] := by
        rw [hrep.paramsList, hs, List.map_append]; rfl
      simp only [loadParams, hpl, sliceIndex_last, sliceTo_last, bind_ok]
      rw [if_pos (by simp only [goLen, List.length_append, List.length_cons, List.length_nil]; omega)]
    · have hnd := hrep.nodup
      rw [show L = { L with saved := s ++ [fr] } by rw [← hs]] at hnd
      have hsat := hrep.sat
      rw [show L = { L with saved := s ++ [fr] } by rw [← hs]] at hsat
      exact {
        params := by simp only [hrep.params, List.map_append]
        paramsList := rfl
        root := hrep.root
        sat := hsat.subset (by mem_rearr)
        nodup := by nodup_rearr hnd
        wfStack := by
          intro x hx
          rcases List.mem_append.mp hx with hx | hx
          · exact hrep.wfSaved fr (by rw [hs]; exact List.mem_append_right _ (List.mem_singleton.mpr rfl)) x hx
          · exact hrep.wfStack x hx
        wfSaved := fun fr' hfr' => hrep.wfSaved fr' (by rw [hs]; exact List.mem_append_left _ hfr')
        acc := hrep.acc
        ffn := hrep.ffn
        afn := hrep.afn }
    · simp only [Peg.loadParams, eraseSt, hs, List.map_append, List.map_cons, List.map_nil, List.reverse_append,
        List.reverse_cons, List.reverse_nil, List.nil_append, List.cons_append]

/-! ### allocation -/

theorem get_alloc_new (h : Heap) (c : Cell) : (h ++ [c])[h.length]? = some c := by
  rw [List.getElem?_append_right (Nat.le_refl _)]
  simp

theorem get_alloc_old {h : Heap} {i : Nat} {c0 : Cell} (hc : h[i]? = some c0) (c : Cell) : (h ++ [c])[i]? = some c0 := by
  rw [List.getElem?_append_left (lt_of_get hc)]; exact hc

theorem wr_alloc (h : Heap) (c0 : Cell) (f : Cell → Cell) :
    wr (h ++ [c0]) (some h.length) f = .ok (h ++ [f c0]) := by
  rw [wr_some (get_alloc_new h c0)]
  congr 1
  rw [List.set_append_right _ _ (Nat.le_refl _)]
  simp

theorem rd_alloc {α : Type} (h : Heap) (c0 : Cell) (f : Cell → α) :
    rd (h ++ [c0]) (some h.length) f = .ok (f c0) := rd_some (get_alloc_new h c0) f

theorem Sat.alloc {h : Heap} {cs : List (Nat × Cell)} (hs : Sat h cs) (c : Cell) : Sat (h ++ [c]) cs :=
  fun x hx => get_alloc_old (hs x hx) c

theorem Sat.lt {h : Heap} {cs : List (Nat × Cell)} (hs : Sat h cs) : ∀ i ∈ ids cs, i < h.length := by
  intro i hi
  rcases List.mem_map.mp hi with ⟨x, hx, rfl⟩
  exact lt_of_get (hs x hx)

/-- a fresh cell is held -/
theorem Rep.alloc {c : Peg.Ctx} {g : PS} {L : LSt} {X : List (Nat × Cell)} (hrep : Rep c g L X) (cnew : Cell) :
    Rep c { g with heap := g.heap ++ [cnew] } L ((g.heap.length, cnew) :: X) := by
  have hlt := hrep.sat.lt
  have hnd := hrep.nodup
  exact {
    params := hrep.params
    paramsList := hrep.paramsList
    root := hrep.root
    sat := by
      intro x hx
      rcases List.mem_append.mp hx with hx | hx
      · exact get_alloc_old (hrep.sat x (List.mem_append_left _ hx)) _
      · rcases List.mem_cons.mp hx with rfl | hx
        · exact get_alloc_new _ _
        · exact get_alloc_old (hrep.sat x (List.mem_append_right _ hx)) _
    nodup := by
      have hfresh : g.heap.length ∉ ids (cellsSt L ++ X) := fun hm => Nat.lt_irrefl _ (hlt _ hm)
      simp only [ids_append, ids_cons, List.nodup_append, List.nodup_cons, List.mem_append, List.mem_cons] at hnd hfresh ⊢
      grind
    wfStack := hrep.wfStack
    wfSaved := hrep.wfSaved
    acc := hrep.acc
    ffn := hrep.ffn
    afn := hrep.afn }

/-- the held cells may be regrouped -/
theorem Rep.held {c : Peg.Ctx} {g : PS} {L : LSt} {X Y : List (Nat × Cell)} (hrep : Rep c g L X)
    (hsub : ∀ x, x ∈ Y → x ∈ X) (hnd : (ids X).Nodup → (ids Y).Nodup) : Rep c g L Y := by
  have hnd0 := hrep.nodup
  exact {
    params := hrep.params
    paramsList := hrep.paramsList
    root := hrep.root
    sat := by
      intro x hx
      rcases List.mem_append.mp hx with hx | hx
      · exact hrep.sat x (List.mem_append_left _ hx)
      · exact hrep.sat x (List.mem_append_right _ (hsub x hx))
    nodup := by
      rw [ids_append, List.nodup_append] at hnd0 ⊢
      refine ⟨hnd0.1, hnd hnd0.2.1, ?_⟩
      intro a ha b hb
      rcases List.mem_map.mp hb with ⟨y, hy, rfl⟩
      exact hnd0.2.2 a ha y.1 (mem_ids_of_mem (hsub y hy))
    wfStack := hrep.wfStack
    wfSaved := hrep.wfSaved
    acc := hrep.acc
    ffn := hrep.ffn
    afn := hrep.afn }


/-! ### the shape of a tie -/

/-- The regenerated helper `gen` SIMULATES the helper model `model`: when the model succeeds, so does the
    code, and the resulting concrete state holds a layout whose erasure is the model's result; when the model
    panics or raises a user error, the code stops with the same panic / error. No claim when the model gives
    up with `unrepresentable` (a value `Tree` has no constructor for). -/
def Sim (c : Peg.Ctx) (X : List (Nat × Cell)) (tb te : Nat) (gen : M PS) (model : Peg.M Peg.St) : Prop :=
  match model with
  | .ok st' => ∃ g' L', gen = .ok g' ∧ Rep c g' L' X ∧ eraseSt L' tb te = st'
  | .error e => e = .unrepresentable ∨ ∃ e', gen = .error e' ∧ absErr e' = some e

theorem Sim.ok {c : Peg.Ctx} {X : List (Nat × Cell)} {tb te : Nat} {gen : M PS} {st' : Peg.St}
    (h : ∃ g' L', gen = .ok g' ∧ Rep c g' L' X ∧ eraseSt L' tb te = st') : Sim c X tb te gen (.ok st') := h

theorem Sim.err {c : Peg.Ctx} {X : List (Nat × Cell)} {tb te : Nat} {gen : M PS} {e : Peg.Stop} {e' : Err}
    (h1 : gen = .error e') (h2 : absErr e' = some e) : Sim c X tb te gen (.error e) := Or.inr ⟨e', h1, h2⟩

end ParserLayout
end JPV
