/-
Tie T1 for C16: the definitions regenerated from jsonpath.go / jsonpath_parser.go
(JPV/Gen/EscapeGo.lean, written by harness/cmd/translate/escape.go on every run) ARE the models of
JPV/Lex/Escape.lean.  If somebody edits one of the routines, either the generator stops
(`untranslatable: …`) or one of the theorems below stops checking.

The generated loop body works on BYTES.  `genSingleLoop` runs it on code points; that this is the
same as running it on the UTF-8 bytes is the argument in the header of Lex/Escape.lean, whose only
premise about the code — bytes ≥ 0x80 are copied, after a backslash if the flag was set, and clear
the flag — is `gen_singleStep_high` below, proved from the regenerated body.
-/
import JPV.Gen.EscapeGo
import JPV.Lemmas.Escape
namespace JPV.Lex
open JPV.Gen

/-- the loop of `unescapeSingleQuotedString` with the regenerated body -/
def genSingleLoop : Bool → List Char → List Char
  | _, [] => []
  | flag, c :: rest =>
    (EscapeGo.singleStep flag c.toNat).1.map Char.ofNat ++ genSingleLoop (EscapeGo.singleStep flag c.toNat).2 rest

/-- everything `unescapeSingleQuotedString` hands to `json.Unmarshal` -/
def genSingleJsonInput (l : List Char) : List Char :=
  EscapeGo.singlePrefix.map Char.ofNat ++ genSingleLoop EscapeGo.singleFlagInit l ++
    EscapeGo.singleSuffix.map Char.ofNat

/-- everything `unescapeDoubleQuotedString` hands to `json.Unmarshal` -/
def genDoubleJsonInput (l : List Char) : List Char :=
  EscapeGo.doublePrefix.map Char.ofNat ++ l ++ EscapeGo.doubleSuffix.map Char.ofNat

theorem genSingleLoop_eq : ∀ (l : List Char) (flag : Bool), genSingleLoop flag l = singleToJsonGo flag l := by
  intro l
  induction l with
  | nil => intro flag; rw [singleToJsonGo_nil]; rfl
  | cons c r ih =>
    intro flag
    rw [genSingleLoop, singleToJsonGo.eq_def]
    simp only [EscapeGo.singleStep, ih]
    by_cases h1 : c = '"'
    · subst h1; simp
    · have n1 : c.toNat ≠ 34 := fun h => h1 ((char_eq_iff c '"').mpr h)
      by_cases h2 : c = '\''
      · subst h2; simp
      · have n2 : c.toNat ≠ 39 := fun h => h2 ((char_eq_iff c '\'').mpr h)
        by_cases h3 : c = '\\'
        · subst h3; cases flag <;> simp
        · have n3 : c.toNat ≠ 92 := fun h => h3 ((char_eq_iff c '\\').mpr h)
          cases flag <;> simp [h1, h2, h3, n1, n2, n3, Char.ofNat_toNat]

/-- The regenerated `unescapeSingleQuotedString` passes `"` + `singleToJson text` + `"` to
    `json.Unmarshal`. -/
theorem genSingleJsonInput_eq (l : List Char) : genSingleJsonInput l = '"' :: singleToJson l ++ ['"'] := by
  simp [genSingleJsonInput, EscapeGo.singlePrefix, EscapeGo.singleSuffix, EscapeGo.singleFlagInit,
    genSingleLoop_eq, singleToJson]

/-- The regenerated `unescapeDoubleQuotedString` passes `"` + text + `"` to `json.Unmarshal`. -/
theorem genDoubleJsonInput_eq (l : List Char) : genDoubleJsonInput l = '"' :: l ++ ['"'] := by
  simp [genDoubleJsonInput, EscapeGo.doublePrefix, EscapeGo.doubleSuffix]

theorem jsonUnmarshalQuoted_quoted (t : List Char) :
    jsonUnmarshalQuoted ('"' :: t ++ ['"']) = jsonUnquote t := by
  simp [jsonUnmarshalQuoted]

/-- what the regenerated `unescapeSingleQuotedString` computes (`none`: it panics with
    ErrorInvalidArgument) is the model `unescapeSingle` -/
theorem gen_unescapeSingle (l : List Char) : jsonUnmarshalQuoted (genSingleJsonInput l) = unescapeSingle l := by
  rw [genSingleJsonInput_eq, jsonUnmarshalQuoted_quoted]; rfl

/-- what the regenerated `unescapeDoubleQuotedString` computes is the model `unescapeDouble` -/
theorem gen_unescapeDouble (l : List Char) : jsonUnmarshalQuoted (genDoubleJsonInput l) = unescapeDouble l := by
  rw [genDoubleJsonInput_eq, jsonUnmarshalQuoted_quoted]; rfl

/-- bytes ≥ 0x80 (all bytes of non-ASCII characters in UTF-8) are copied, preceded by a backslash
    exactly if the flag was set, and clear the flag -/
theorem gen_singleStep_high (flag : Bool) (b : Nat) (h : 128 ≤ b) :
    EscapeGo.singleStep flag b = (if flag then [92, b] else [b], false) := by
  have n1 : b ≠ 34 := by omega
  have n2 : b ≠ 39 := by omega
  have n3 : b ≠ 92 := by omega
  cases flag <;> simp [EscapeGo.singleStep, n1, n2, n3]

/-- the pattern is `\\(.)` and every match is replaced by its first submatch: the routine
    modelled by `unescapeBackslash` -/
theorem gen_unescape_regex :
    EscapeGo.unescapeRegexSrc = ['\\', '\\', '(', '.', ')'].map Char.toNat ∧ EscapeGo.unescapeSubmatch = 1 := by
  decide

/-- `_unescapeJSONString` unmarshals into a Go `string`: the decoding modelled by `jsonUnquote` -/
theorem gen_json_target : EscapeGo.jsonTarget = ['s', 't', 'r', 'i', 'n', 'g'].map Char.toNat := by decide

end JPV.Lex
