/-
SortKeysGo — the regenerated `getSortedKeys` (Gen/SortKeys.lean, from cache.go) returns, for every
order in which `range` yields the keys and whatever slice the pool hands out, the keys in the
order in which `Impl.sortKV` lists the entries.
-/
import JPV.Gen.SortKeys
import JPV.Lemmas.SortKV
namespace JPV
namespace SortKeysGo
open SortRt Impl SortKVL

/-! ### the fill loop writes the keys in iteration order -/

def fillStep (st : List String × Nat) (key : String) : Option (List String × Nat) := do
  let (sortKeys, index) := st
  let sortKeys ← setAt sortKeys index key
  let index := index + 1
  pure (sortKeys, index)

theorem fill_loop : ∀ (rest pre tail : List String), tail.length = rest.length →
    rest.foldlM fillStep (pre ++ tail, pre.length) = some (pre ++ rest, (pre ++ rest).length)
  | [], pre, tail, h => by
    have : tail = [] := List.length_eq_zero_iff.mp h
    subst this
    simp only [List.foldlM_nil, List.append_nil, Option.pure_def]
  | k :: rest, pre, [], h => by simp at h
  | k :: rest, pre, t :: tail, h => by
    have hset : setAt (pre ++ t :: tail) pre.length k = some ((pre ++ [k]) ++ tail) := by
      unfold setAt
      rw [if_pos (by simp)]
      simp [List.set_append_right]
    have ih := fill_loop rest (pre ++ [k]) tail (by simpa using h)
    simp only [List.foldlM_cons, fillStep, hset, Option.bind_eq_bind, Option.bind_some, Option.pure_def]
    simp only [List.length_append, List.append_assoc, List.singleton_append,
      List.length_cons] at ih ⊢
    exact ih

theorem fill_all (buf iter : List String) (h : buf.length = iter.length) :
    iter.foldlM fillStep (buf, 0) = some (iter, iter.length) := by
  simpa using fill_loop iter [] buf h

/-! ### `goSort` on keys is `sortKV` on entries -/

theorem insertKV_keys (k : String) (v : Val) (l : List (String × Val)) :
    (insertKV k v l).map (·.1) = insertStr k (l.map (·.1)) := by
  induction l with
  | nil => rfl
  | cons kv rest ih =>
    obtain ⟨k', v'⟩ := kv
    simp only [insertKV, List.map_cons, insertStr]
    split
    · rfl
    · simp only [List.map_cons, ih]

theorem sortKV_keys (kvs : List (String × Val)) : (sortKV kvs).map (·.1) = goSort (kvs.map (·.1)) := by
  induction kvs with
  | nil => rfl
  | cons kv rest ih =>
    obtain ⟨k, v⟩ := kv
    simp only [sortKV, List.map_cons, goSort, insertKV_keys, ih]

theorem goSort_short (l : List String) (h : ¬ l.length > 1) : goSort l = l := by
  match l, h with
  | [], _ => rfl
  | [a], _ => rfl
  | _ :: _ :: _, h => simp at h

/-- a key list as an entry list (for reusing the facts about `sortKV`) -/
def asKVs (l : List String) : List (String × Val) := l.map (fun k => (k, Val.null))

theorem asKVs_keys (l : List String) : (asKVs l).map (·.1) = l := by
  simp [asKVs, Function.comp_def]

theorem goSort_eq (l : List String) : goSort l = (sortKV (asKVs l)).map (·.1) := by
  rw [sortKV_keys, asKVs_keys]

/-- sorting forgets the iteration order (distinct keys) -/
theorem goSort_perm_invariant (l l' : List String) (hp : l.Perm l') (hnd : l.Nodup) : goSort l = goSort l' := by
  rw [goSort_eq, goSort_eq]
  have h1 := sortKV_strict (asKVs l) (by rw [asKVs_keys]; exact hnd)
  have h2 := sortKV_strict (asKVs l') (by rw [asKVs_keys]; exact hp.nodup_iff.mp hnd)
  have hp' : (sortKV (asKVs l)).Perm (sortKV (asKVs l')) :=
    ((sortKV_perm _).trans (hp.map _)).trans (sortKV_perm _).symm
  rw [eq_of_perm_of_strict _ _ hp' h1 h2]

/-! ### the regenerated function -/

theorem getSortedKeys_eq (iter pool : List String) :
    Gen.SortKeys.getSortedKeys iter pool = some (goSort iter) := by
  have hbuf : ∀ b : List String, iter.length ≤ b.length →
      (resliceTo b iter.length).bind (fun s => (iter.foldlM fillStep (s, 0))) = some (iter, iter.length) := by
    intro b hb
    unfold resliceTo
    rw [if_pos hb]
    exact fill_all _ _ (by simp [List.length_take, Nat.min_eq_left hb])
  have hb : iter.length ≤ (if pool.length < iter.length then makeSlice iter.length else pool).length := by
    split
    · simp [makeSlice]
    · omega
  have := hbuf _ hb
  unfold Gen.SortKeys.getSortedKeys
  simp only [Option.bind_eq_bind, Option.pure_def] at this ⊢
  show (resliceTo _ iter.length).bind (fun s => (iter.foldlM fillStep (s, 0)).bind _) = _
  cases hr : resliceTo (if pool.length < iter.length then makeSlice iter.length else pool) iter.length with
  | none => rw [hr] at this; simp at this
  | some s =>
    rw [hr] at this
    simp only [Option.bind_some] at this ⊢
    rw [this]
    simp only [Option.bind_some]
    split
    · rfl
    · rename_i h; rw [goSort_short iter h]

end SortKeysGo
end JPV
