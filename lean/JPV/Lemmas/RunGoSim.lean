/-
The simulation `runGo` ~ `Peg.run`, one lemma per constructor, GENERIC in the memo part `M` of the invariant and in
the set `W` of expressions it ranges over (worker L30). Only the rule-function template looks at the memo table: it
is the parameter `RuleStep` of `simG`. Instances: Props/RunGoGen.lean (memo off), Lemmas/RunGoMemo.lean (memo on).
-/
import JPV.Lemmas.RunGoBase
set_option linter.unusedVariables false
namespace JPV
namespace RunGoGen
open JPV.Peg JPV.Peg.Runtime JPV.Gen.PegRuntime JPV.Peg.RunGo JPV.PegRuntimeGen

/-- what `runGo` does when `Peg.run` succeeds -/
def OkSpec (M : MemP) (g : Grammar) (n : Num) (input : Array Char) (f : Nat) (e : PE) (s : RT) (p' : Nat) (toks : List Peg.Tok) : Prop :=
  ∃ s', runGo g n f e s = (.ok, s') ∧ s'.position = p' ∧ p' ≤ input.size ∧
    Post M input s s' (adds g f e input s.position) ∧ n.kinds (seg s.tokenIndex s') = toks

/-- what `runGo` does when `Peg.run` fails -/
def FailSpec (M : MemP) (g : Grammar) (n : Num) (input : Array Char) (f : Nat) (e : PE) (s : RT) : Prop :=
  ∃ s', runGo g n f e s = (.fail, s') ∧ Post M input s s' (adds g f e input s.position)

def Sim (M : MemP) (W : PE → Prop) (g : Grammar) (n : Num) (input : Array Char) (f : Nat) : Prop :=
  ∀ e s, W e → Good M input s → s.position ≤ input.size → s.tokenIndex + adds g f e input s.position < 4294967296 →
    (∀ p' toks, run g f e input s.position = .ok p' toks → OkSpec M g n input f e s p' toks) ∧
    (run g f e input s.position = .fail → FailSpec M g n input f e s)

variable {M : MemP} {W : PE → Prop} {g : Grammar} {n : Num} {input : Array Char}

theorem sim_seq {f : Nat} (ih : Sim M W g n input f) (a b : PE) (hWa : W a) (hWb : W b) (s : RT) (hg : Good M input s) (hp : s.position ≤ input.size)
    (hb : s.tokenIndex + adds g (f + 1) (.seq a b) input s.position < 4294967296) :
    (∀ p' toks, run g (f + 1) (.seq a b) input s.position = .ok p' toks → OkSpec M g n input (f + 1) (.seq a b) s p' toks) ∧
    (run g (f + 1) (.seq a b) input s.position = .fail → FailSpec M g n input (f + 1) (.seq a b) s) := by
  simp only [adds] at hb
  have iha := ih a s hWa hg hp (by omega)
  cases ha : run g f a input s.position with
  | outOfFuel => simp [run, ha]
  | fail =>
    obtain ⟨s1, e1, post1⟩ := iha.2 ha
    refine ⟨by simp [run, ha], fun _ => ⟨s1, by simp only [runGo, e1], ?_⟩⟩
    simp only [adds, ha]; exact post1.mono (by omega)
  | ok p1 t1 =>
    obtain ⟨s1, e1, hp1, hle1, post1, k1⟩ := iha.1 p1 t1 ha
    subst hp1
    simp only [ha] at hb
    have ihb := ih b s1 hWb post1.good hle1 (by have := post1.hi; omega)
    cases hbb : run g f b input s1.position with
    | outOfFuel => simp [run, ha, hbb]
    | fail =>
      obtain ⟨s2, e2, post2⟩ := ihb.2 hbb
      refine ⟨by simp [run, ha, hbb], fun _ => ⟨s2, by simp only [runGo, e1, e2], ?_⟩⟩
      simp only [adds, ha]; exact (post1.trans post2).1
    | ok p2 t2 =>
      obtain ⟨s2, e2, hp2, hle2, post2, k2⟩ := ihb.1 p2 t2 hbb
      refine ⟨?_, by simp [run, ha, hbb]⟩
      intro p' toks hr
      simp only [run, ha, hbb, Result.ok.injEq] at hr
      obtain ⟨rfl, rfl⟩ := hr
      refine ⟨s2, by simp only [runGo, e1, e2], hp2, hle2, ?_, ?_⟩
      · simp only [adds, ha]; exact (post1.trans post2).1
      · rw [(post1.trans post2).2, kinds_append, k1, k2]

theorem kinds_nil (n : Num) : n.kinds [] = [] := rfl

/-- continuing from the state a failure label restored -/
theorem via_restore {s s1 : RT} {k : Nat} (post1 : Post M input s s1 k) :
    Good M input (restore s.position s.tokenIndex s1) ∧ (restore s.position s.tokenIndex s1).position = s.position ∧
    (restore s.position s.tokenIndex s1).tokenIndex = s.tokenIndex ∧
    ∀ s2 k2, Post M input (restore s.position s.tokenIndex s1) s2 k2 →
      Post M input s s2 k2 ∧ seg s.tokenIndex s2 = seg s.tokenIndex s2 := by
  refine ⟨(post1.restore 0).good, rfl, rfl, ?_⟩
  intro s2 k2 h2
  have := (post1.restore 0).trans h2
  exact ⟨this.1.mono (by omega), rfl⟩

/-- the state a failure label restored, as an OkSpec witness with no tokens -/
theorem ok_restored {f : Nat} {e : PE} {s s1 : RT} {k : Nat} (post1 : Post M input s s1 k) (hp : s.position ≤ input.size)
    (hr : runGo g n f e s = (.ok, restore s.position s.tokenIndex s1)) : OkSpec M g n input f e s s.position [] :=
  ⟨_, hr, rfl, hp, post1.restore _, by rw [seg_restore]; rfl⟩

theorem sim_alt {f : Nat} (ih : Sim M W g n input f) (a b : PE) (hWa : W a) (hWb : W b) (s : RT) (hg : Good M input s) (hp : s.position ≤ input.size)
    (hb : s.tokenIndex + adds g (f + 1) (.alt a b) input s.position < 4294967296) :
    (∀ p' toks, run g (f + 1) (.alt a b) input s.position = .ok p' toks → OkSpec M g n input (f + 1) (.alt a b) s p' toks) ∧
    (run g (f + 1) (.alt a b) input s.position = .fail → FailSpec M g n input (f + 1) (.alt a b) s) := by
  simp only [adds] at hb
  have iha := ih a s hWa hg hp (by omega)
  cases ha : run g f a input s.position with
  | outOfFuel => simp [run, ha]
  | ok p1 t1 =>
    obtain ⟨s1, e1, hp1, hle1, post1, k1⟩ := iha.1 p1 t1 ha
    refine ⟨?_, by simp [run, ha]⟩
    intro p' toks hr
    simp only [run, ha, Result.ok.injEq] at hr
    obtain ⟨rfl, rfl⟩ := hr
    refine ⟨s1, by simp only [runGo, e1], hp1, hle1, ?_, k1⟩
    simp only [adds, ha]; exact post1.mono (by omega)
  | fail =>
    obtain ⟨s1, e1, post1⟩ := iha.2 ha
    simp only [ha] at hb
    have hrun : runGo g n (f + 1) (.alt a b) s = runGo g n f b (restore s.position s.tokenIndex s1) := by
      simp only [runGo, e1]
    obtain ⟨hgr, hq, ht, hvia⟩ := via_restore post1
    generalize restore s.position s.tokenIndex s1 = sr at *
    have ihb := ih b sr hWb hgr (by omega) (by rw [hq, ht]; have := post1.hi; omega)
    simp only [OkSpec, FailSpec, hq] at ihb
    constructor
    · intro p' toks hr
      simp only [run, ha] at hr
      obtain ⟨s2, e2, hp2, hle2, post2, k2⟩ := ihb.1 p' toks hr
      refine ⟨s2, by rw [hrun, e2], hp2, hle2, ?_, by rw [← ht]; exact k2⟩
      simp only [adds, ha]; exact (hvia s2 _ post2).1.mono (by omega)
    · intro hr
      simp only [run, ha] at hr
      obtain ⟨s2, e2, post2⟩ := ihb.2 hr
      refine ⟨s2, by rw [hrun, e2], ?_⟩
      simp only [adds, ha]; exact (hvia s2 _ post2).1.mono (by omega)

theorem sim_star {f : Nat} (ih : Sim M W g n input f) (a : PE) (hWa : W a) (hWs : W (.star a)) (s : RT) (hg : Good M input s) (hp : s.position ≤ input.size)
    (hb : s.tokenIndex + adds g (f + 1) (.star a) input s.position < 4294967296) :
    (∀ p' toks, run g (f + 1) (.star a) input s.position = .ok p' toks → OkSpec M g n input (f + 1) (.star a) s p' toks) ∧
    (run g (f + 1) (.star a) input s.position = .fail → FailSpec M g n input (f + 1) (.star a) s) := by
  simp only [adds] at hb
  have iha := ih a s hWa hg hp (by omega)
  cases ha : run g f a input s.position with
  | outOfFuel => simp [run, ha]
  | fail =>
    obtain ⟨s1, e1, post1⟩ := iha.2 ha
    refine ⟨?_, by simp [run, ha]⟩
    intro p' toks hr
    simp only [run, ha, Result.ok.injEq] at hr
    obtain ⟨rfl, rfl⟩ := hr
    exact ok_restored post1 hp (by simp only [runGo, e1])
  | ok p1 t1 =>
    obtain ⟨s1, e1, hp1, hle1, post1, k1⟩ := iha.1 p1 t1 ha
    subst hp1
    simp only [ha] at hb
    have ihb := ih (.star a) s1 hWs post1.good hle1 (by have := post1.hi; omega)
    cases hbb : run g f (.star a) input s1.position with
    | outOfFuel => simp [run, ha, hbb]
    | fail =>
      obtain ⟨s2, e2, post2⟩ := ihb.2 hbb
      refine ⟨by simp [run, ha, hbb], fun _ => ⟨s2, by simp only [runGo, e1, e2], ?_⟩⟩
      simp only [adds, ha]; exact (post1.trans post2).1
    | ok p2 t2 =>
      obtain ⟨s2, e2, hp2, hle2, post2, k2⟩ := ihb.1 p2 t2 hbb
      refine ⟨?_, by simp [run, ha, hbb]⟩
      intro p' toks hr
      simp only [run, ha, hbb, Result.ok.injEq] at hr
      obtain ⟨rfl, rfl⟩ := hr
      refine ⟨s2, by simp only [runGo, e1, e2], hp2, hle2, ?_, ?_⟩
      · simp only [adds, ha]; exact (post1.trans post2).1
      · rw [(post1.trans post2).2, kinds_append, k1, k2]

theorem sim_plus {f : Nat} (ih : Sim M W g n input f) (a : PE) (hWa : W a) (hWs : W (.star a)) (s : RT) (hg : Good M input s) (hp : s.position ≤ input.size)
    (hb : s.tokenIndex + adds g (f + 1) (.plus a) input s.position < 4294967296) :
    (∀ p' toks, run g (f + 1) (.plus a) input s.position = .ok p' toks → OkSpec M g n input (f + 1) (.plus a) s p' toks) ∧
    (run g (f + 1) (.plus a) input s.position = .fail → FailSpec M g n input (f + 1) (.plus a) s) := by
  simp only [adds] at hb
  have iha := ih a s hWa hg hp (by omega)
  cases ha : run g f a input s.position with
  | outOfFuel => simp [run, ha]
  | fail =>
    obtain ⟨s1, e1, post1⟩ := iha.2 ha
    refine ⟨by simp [run, ha], fun _ => ⟨s1, by simp only [runGo, e1], ?_⟩⟩
    simp only [adds, ha]; exact post1.mono (by omega)
  | ok p1 t1 =>
    obtain ⟨s1, e1, hp1, hle1, post1, k1⟩ := iha.1 p1 t1 ha
    subst hp1
    simp only [ha] at hb
    have ihb := ih (.star a) s1 hWs post1.good hle1 (by have := post1.hi; omega)
    cases hbb : run g f (.star a) input s1.position with
    | outOfFuel => simp [run, ha, hbb]
    | fail =>
      obtain ⟨s2, e2, post2⟩ := ihb.2 hbb
      refine ⟨by simp [run, ha, hbb], fun _ => ⟨s2, by simp only [runGo, e1, e2], ?_⟩⟩
      simp only [adds, ha]; exact (post1.trans post2).1
    | ok p2 t2 =>
      obtain ⟨s2, e2, hp2, hle2, post2, k2⟩ := ihb.1 p2 t2 hbb
      refine ⟨?_, by simp [run, ha, hbb]⟩
      intro p' toks hr
      simp only [run, ha, hbb, Result.ok.injEq] at hr
      obtain ⟨rfl, rfl⟩ := hr
      refine ⟨s2, by simp only [runGo, e1, e2], hp2, hle2, ?_, ?_⟩
      · simp only [adds, ha]; exact (post1.trans post2).1
      · rw [(post1.trans post2).2, kinds_append, k1, k2]

theorem sim_opt {f : Nat} (ih : Sim M W g n input f) (a : PE) (hWa : W a) (s : RT) (hg : Good M input s) (hp : s.position ≤ input.size)
    (hb : s.tokenIndex + adds g (f + 1) (.opt a) input s.position < 4294967296) :
    (∀ p' toks, run g (f + 1) (.opt a) input s.position = .ok p' toks → OkSpec M g n input (f + 1) (.opt a) s p' toks) ∧
    (run g (f + 1) (.opt a) input s.position = .fail → FailSpec M g n input (f + 1) (.opt a) s) := by
  simp only [adds] at hb
  have iha := ih a s hWa hg hp (by omega)
  cases ha : run g f a input s.position with
  | outOfFuel => simp [run, ha]
  | fail =>
    obtain ⟨s1, e1, post1⟩ := iha.2 ha
    refine ⟨?_, by simp [run, ha]⟩
    intro p' toks hr
    simp only [run, ha, Result.ok.injEq] at hr
    obtain ⟨rfl, rfl⟩ := hr
    exact ok_restored post1 hp (by simp only [runGo, e1])
  | ok p1 t1 =>
    obtain ⟨s1, e1, hp1, hle1, post1, k1⟩ := iha.1 p1 t1 ha
    refine ⟨?_, by simp [run, ha]⟩
    intro p' toks hr
    simp only [run, ha, Result.ok.injEq] at hr
    obtain ⟨rfl, rfl⟩ := hr
    exact ⟨s1, by simp only [runGo, e1], hp1, hle1, by simp only [adds]; exact post1, k1⟩

theorem sim_not {f : Nat} (ih : Sim M W g n input f) (a : PE) (hWa : W a) (s : RT) (hg : Good M input s) (hp : s.position ≤ input.size)
    (hb : s.tokenIndex + adds g (f + 1) (.not a) input s.position < 4294967296) :
    (∀ p' toks, run g (f + 1) (.not a) input s.position = .ok p' toks → OkSpec M g n input (f + 1) (.not a) s p' toks) ∧
    (run g (f + 1) (.not a) input s.position = .fail → FailSpec M g n input (f + 1) (.not a) s) := by
  simp only [adds] at hb
  have iha := ih a s hWa hg hp (by omega)
  cases ha : run g f a input s.position with
  | outOfFuel => simp [run, ha]
  | fail =>
    obtain ⟨s1, e1, post1⟩ := iha.2 ha
    refine ⟨?_, by simp [run, ha]⟩
    intro p' toks hr
    simp only [run, ha, Result.ok.injEq] at hr
    obtain ⟨rfl, rfl⟩ := hr
    exact ok_restored post1 hp (by simp only [runGo, e1])
  | ok p1 t1 =>
    obtain ⟨s1, e1, hp1, hle1, post1, k1⟩ := iha.1 p1 t1 ha
    exact ⟨by simp [run, ha], fun _ => ⟨s1, by simp only [runGo, e1], by simp only [adds]; exact post1⟩⟩

theorem sim_and {f : Nat} (ih : Sim M W g n input f) (a : PE) (hWa : W a) (s : RT) (hg : Good M input s) (hp : s.position ≤ input.size)
    (hb : s.tokenIndex + adds g (f + 1) (.and a) input s.position < 4294967296) :
    (∀ p' toks, run g (f + 1) (.and a) input s.position = .ok p' toks → OkSpec M g n input (f + 1) (.and a) s p' toks) ∧
    (run g (f + 1) (.and a) input s.position = .fail → FailSpec M g n input (f + 1) (.and a) s) := by
  simp only [adds] at hb
  have iha := ih a s hWa hg hp (by omega)
  cases ha : run g f a input s.position with
  | outOfFuel => simp [run, ha]
  | fail =>
    obtain ⟨s1, e1, post1⟩ := iha.2 ha
    exact ⟨by simp [run, ha], fun _ => ⟨s1, by simp only [runGo, e1], by simp only [adds]; exact post1⟩⟩
  | ok p1 t1 =>
    obtain ⟨s1, e1, hp1, hle1, post1, k1⟩ := iha.1 p1 t1 ha
    refine ⟨?_, by simp [run, ha]⟩
    intro p' toks hr
    simp only [run, ha, Result.ok.injEq] at hr
    obtain ⟨rfl, rfl⟩ := hr
    exact ok_restored post1 hp (by simp only [runGo, e1])

theorem sim_cap (hw : Num.WF n) (hn : input.size + 1 < 4294967296) {f : Nat} (ih : Sim M W g n input f) (a : PE) (hWa : W a) (s : RT) (hg : Good M input s) (hp : s.position ≤ input.size)
    (hb : s.tokenIndex + adds g (f + 1) (.cap a) input s.position < 4294967296) :
    (∀ p' toks, run g (f + 1) (.cap a) input s.position = .ok p' toks → OkSpec M g n input (f + 1) (.cap a) s p' toks) ∧
    (run g (f + 1) (.cap a) input s.position = .fail → FailSpec M g n input (f + 1) (.cap a) s) := by
  simp only [adds] at hb
  have iha := ih a s hWa hg hp (by omega)
  cases ha : run g f a input s.position with
  | outOfFuel => simp [run, ha]
  | fail =>
    obtain ⟨s1, e1, post1⟩ := iha.2 ha
    refine ⟨by simp [run, ha], fun _ => ⟨s1, by simp only [runGo, e1], ?_⟩⟩
    simp only [adds]; exact post1.mono (by omega)
  | ok p1 t1 =>
    obtain ⟨s1, e1, hp1, hle1, post1, k1⟩ := iha.1 p1 t1 ha
    subst hp1
    obtain ⟨s2, ea, post2, hp2, hseg⟩ := add_post (input := input) n.text s.position post1.good (by have := post1.hi; omega)
    refine ⟨?_, by simp [run, ha]⟩
    intro p' toks hr
    simp only [run, ha, Result.ok.injEq] at hr
    obtain ⟨rfl, rfl⟩ := hr
    refine ⟨s2, by simp only [runGo, e1, addGo, ea], hp2, hle1, by simp only [adds]; exact (post1.trans post2).1, ?_⟩
    rw [(post1.trans post2).2, kinds_append, k1, hseg, kinds_text]

theorem sim_act (hw : Num.WF n) (hn : input.size + 1 < 4294967296) {f : Nat}  (i : Nat) (s : RT) (hg : Good M input s) (hp : s.position ≤ input.size)
    (hb : s.tokenIndex + adds g (f + 1) (.act i) input s.position < 4294967296) :
    (∀ p' toks, run g (f + 1) (.act i) input s.position = .ok p' toks → OkSpec M g n input (f + 1) (.act i) s p' toks) ∧
    (run g (f + 1) (.act i) input s.position = .fail → FailSpec M g n input (f + 1) (.act i) s) := by
  simp only [adds] at hb
  obtain ⟨s2, ea, post2, hp2, hseg⟩ := add_post (input := input) (n.act i) s.position hg (by omega)
  refine ⟨?_, by simp [run]⟩
  intro p' toks hr
  simp only [run, Result.ok.injEq] at hr
  obtain ⟨rfl, rfl⟩ := hr
  exact ⟨s2, by simp only [runGo, addGo, ea], hp2, hp, by simp only [adds]; exact post2, by rw [hseg, kinds_act n hw]⟩

/-- a template that only moved `position` -/
theorem ok_moved {f : Nat} {e : PE} {s : RT} (hg : Good M input s) (q : Nat) (hq : q ≤ input.size)
    (hr : runGo g n f e s = (.ok, { s with position := q })) : OkSpec M g n input f e s q [] :=
  ⟨_, hr, rfl, hq, (Post.refl hg _).setPos q, by rw [seg_setPos, seg_self hg]; rfl⟩

theorem fail_moved {f : Nat} {e : PE} {s : RT} (hg : Good M input s) (q : Nat)
    (hr : runGo g n f e s = (.fail, { s with position := q })) : FailSpec M g n input f e s :=
  ⟨_, hr, (Post.refl hg _).setPos q⟩

theorem sim_any (hw : Num.WF n) (hn : input.size + 1 < 4294967296) {f : Nat}   (s : RT) (hg : Good M input s) (hp : s.position ≤ input.size)
    (hb : s.tokenIndex + adds g (f + 1) (.any) input s.position < 4294967296) :
    (∀ p' toks, run g (f + 1) (.any) input s.position = .ok p' toks → OkSpec M g n input (f + 1) (.any) s p' toks) ∧
    (run g (f + 1) (.any) input s.position = .fail → FailSpec M g n input (f + 1) (.any) s) := by
  have hd := dot_spec hg hp hn
  by_cases hlt : s.position < input.size
  · rw [if_pos hlt] at hd
    refine ⟨?_, by simp [run, hlt]⟩
    intro p' toks hr
    simp only [run, hlt, if_true, Result.ok.injEq] at hr
    obtain ⟨rfl, rfl⟩ := hr
    exact ok_moved hg _ (by omega) (by simp only [runGo, hd])
  · rw [if_neg hlt] at hd
    exact ⟨by simp [run, hlt], fun _ => fail_moved hg s.position (by simp only [runGo, hd])⟩

theorem sim_lit (hw : Num.WF n) (hn : input.size + 1 < 4294967296) {f : Nat}  (str : String) (s : RT) (hg : Good M input s) (hp : s.position ≤ input.size)
    (hb : s.tokenIndex + adds g (f + 1) (.lit str) input s.position < 4294967296) :
    (∀ p' toks, run g (f + 1) (.lit str) input s.position = .ok p' toks → OkSpec M g n input (f + 1) (.lit str) s p' toks) ∧
    (run g (f + 1) (.lit str) input s.position = .fail → FailSpec M g n input (f + 1) (.lit str) s) := by
  have hl := lit_spec hn str.toList s hg hp
  by_cases hm : matchLit input str.toList s.position = true
  · rw [if_pos hm] at hl
    refine ⟨?_, by simp [run, hm]⟩
    intro p' toks hr
    simp only [run, hm, if_true, Result.ok.injEq] at hr
    obtain ⟨rfl, rfl⟩ := hr
    have hlen : str.toList.length = str.length := String.length_toList
    rw [hlen] at hl
    exact ok_moved hg _ hl.2 (by simp only [runGo, hl.1])
  · rw [if_neg hm] at hl
    obtain ⟨q, hq⟩ := hl
    exact ⟨by simp [run, hm], fun _ => fail_moved hg q (by simp only [runGo, hq])⟩

theorem sim_cls (hw : Num.WF n) (hn : input.size + 1 < 4294967296) {f : Nat}  (neg : Bool) (rs : List (Char × Char)) (s : RT) (hg : Good M input s) (hp : s.position ≤ input.size)
    (hb : s.tokenIndex + adds g (f + 1) (.cls neg rs) input s.position < 4294967296) :
    (∀ p' toks, run g (f + 1) (.cls neg rs) input s.position = .ok p' toks → OkSpec M g n input (f + 1) (.cls neg rs) s p' toks) ∧
    (run g (f + 1) (.cls neg rs) input s.position = .fail → FailSpec M g n input (f + 1) (.cls neg rs) s) := by
  have hbuf := bufAt hg hp
  have hd := dot_spec hg hp hn
  cases hc : input[s.position]? with
  | none =>
    have hlt : ¬ s.position < input.size := by
      intro h; rw [Array.getElem?_eq_getElem h] at hc; cases hc
    rw [hc] at hbuf; rw [if_neg hlt] at hd
    refine ⟨by simp [run, hc], fun _ => fail_moved hg s.position ?_⟩
    cases neg <;> simp [runGo, clsGo, hbuf, inRangesN_end, hd]
  | some c =>
    have hlt : s.position < input.size := by
      rcases Nat.lt_or_ge s.position input.size with h1 | h1
      · exact h1
      · rw [Array.getElem?_eq_none h1] at hc; cases hc
    rw [hc] at hbuf; rw [if_pos hlt] at hd
    have hadv : advance s = { s with position := s.position + 1 } := by
      unfold advance; rw [u32_of_lt (by omega)]
    have hin := inRanges_eq c rs
    cases hi : inRangesN c.toNat rs <;> cases neg <;> rw [hi] at hin
    · exact ⟨by simp [run, hc, hin], fun _ => fail_moved hg s.position (by simp [runGo, clsGo, hbuf, hi])⟩
    · refine ⟨?_, by simp [run, hc, hin]⟩
      intro p' toks hr
      simp [run, hc, hin] at hr
      obtain ⟨rfl, rfl⟩ := hr
      exact ok_moved hg _ (by omega) (by simp [runGo, clsGo, hbuf, hi, hd])
    · refine ⟨?_, by simp [run, hc, hin]⟩
      intro p' toks hr
      simp [run, hc, hin] at hr
      obtain ⟨rfl, rfl⟩ := hr
      exact ok_moved hg _ (by omega) (by simp [runGo, clsGo, hbuf, hi, hadv])
    · exact ⟨by simp [run, hc, hin], fun _ => fail_moved hg s.position (by simp [runGo, clsGo, hbuf, hi])⟩


/-- the expressions the simulation ranges over are closed under taking sub-expressions and rule bodies -/
structure Scope (g : Grammar) (W : PE → Prop) : Prop where
  seq : ∀ {a b}, W (.seq a b) → W a ∧ W b
  alt : ∀ {a b}, W (.alt a b) → W a ∧ W b
  star : ∀ {a}, W (.star a) → W a
  plus : ∀ {a}, W (.plus a) → W a ∧ W (.star a)
  opt : ∀ {a}, W (.opt a) → W a
  not : ∀ {a}, W (.not a) → W a
  and : ∀ {a}, W (.and a) → W a
  cap : ∀ {a}, W (.cap a) → W a
  rule : ∀ {name}, W (.rule name) → W (ruleBody g name)

/-- what has to be shown about the rule-function template (the only place where the memo part of the state matters) -/
def RuleStep (M : MemP) (W : PE → Prop) (g : Grammar) (n : Num) (input : Array Char) : Prop :=
  ∀ f, Sim M W g n input f → ∀ (name : String) (s : RT), W (.rule name) → Good M input s → s.position ≤ input.size →
    s.tokenIndex + adds g (f + 1) (.rule name) input s.position < 4294967296 →
    (∀ p' toks, run g (f + 1) (.rule name) input s.position = .ok p' toks → OkSpec M g n input (f + 1) (.rule name) s p' toks) ∧
    (run g (f + 1) (.rule name) input s.position = .fail → FailSpec M g n input (f + 1) (.rule name) s)

/-- SIMULATION by induction on the fuel both interpreters share, generic in the memo part of the invariant -/
theorem simG (hw : Num.WF n) (hn : input.size + 1 < 4294967296) (sc : Scope g W) (hrule : RuleStep M W g n input) :
    ∀ f, Sim M W g n input f := by
  intro f
  induction f with
  | zero => intro e s _ _ _ _; simp [run]
  | succ f ih =>
    intro e s hW hg hp hb
    cases e with
    | lit str => exact sim_lit hw hn str s hg hp hb
    | cls neg rs => exact sim_cls hw hn neg rs s hg hp hb
    | any => exact sim_any hw hn s hg hp hb
    | seq a b => exact sim_seq ih a b (sc.seq hW).1 (sc.seq hW).2 s hg hp hb
    | alt a b => exact sim_alt ih a b (sc.alt hW).1 (sc.alt hW).2 s hg hp hb
    | star a => exact sim_star ih a (sc.star hW) hW s hg hp hb
    | plus a => exact sim_plus ih a (sc.plus hW).1 (sc.plus hW).2 s hg hp hb
    | opt a => exact sim_opt ih a (sc.opt hW) s hg hp hb
    | not a => exact sim_not ih a (sc.not hW) s hg hp hb
    | and a => exact sim_and ih a (sc.and hW) s hg hp hb
    | rule name => exact hrule f ih name s hW hg hp hb
    | cap a => exact sim_cap hw hn ih a (sc.cap hW) s hg hp hb
    | act i => exact sim_act hw hn i s hg hp hb

end RunGoGen
end JPV
