/-
Lemmas/Ties — the hand-written evaluator model agrees with the descriptions regenerated from
/repo (Gen/Validators.lean, Gen/Comparators.lean, Gen/OperandOrder.lean) under the reading
given in Ties/Sem.lean. Everything here mentions `Gen.*`, so it is re-proved against what the
source says on every run.
-/
import JPV.Ties.Sem
import JPV.Gen.Validators
import JPV.Gen.Comparators
import JPV.Gen.OperandOrder
namespace JPV
namespace Ties
open Impl

/-! ### validators -/

/-- the regenerated table of the validator `validateTy ty` models -/
def genTable : LitTy → ValidatorTable
  | .num => Gen.Validators.numericTable
  | .bool => Gen.Validators.boolTable
  | .str => Gen.Validators.stringTable
  | .null => Gen.Validators.nilTable

theorem genTable_eq (ty : LitTy) : Gen.Validators.table (vrefOfLitTy ty) = some (genTable ty) := by
  cases ty <;> rfl

/-- one cell: new cell, contribution to `found`, number of writes -/
theorem validateTy_cell (ty : LitTy) (c : Cell) :
    validateTy ty [c] =
      ((cellStep (genTable ty) c).1, [(cellStep (genTable ty) c).2.1], (cellStep (genTable ty) c).2.2) := by
  cases ty <;> cases c <;> (try rfl) <;> (rename_i v; cases v <;> rfl)

theorem validateTy_cons (ty : LitTy) (c : Cell) (cs : List Cell) :
    validateTy ty (c :: cs) =
      ((cellStep (genTable ty) c).1 || (validateTy ty cs).1,
       (cellStep (genTable ty) c).2.1 :: (validateTy ty cs).2.1,
       (validateTy ty cs).2.2 + (cellStep (genTable ty) c).2.2) := by
  cases ty <;> cases c <;> (try (simp [validateTy, cellStep, cellTy, ValidatorTable.act, lookupAct, applyWrite, Write.count, genTable,
    Gen.Validators.numericTable, Gen.Validators.boolTable, Gen.Validators.stringTable, Gen.Validators.nilTable]; done)) <;>
    (rename_i v; cases v <;>
      simp [validateTy, cellStep, cellTy, ValidatorTable.act, lookupAct, applyWrite, Write.count, genTable,
        Gen.Validators.numericTable, Gen.Validators.boolTable, Gen.Validators.stringTable, Gen.Validators.nilTable])

theorem validateTy_eq_run (ty : LitTy) (cells : List Cell) :
    validateTy ty cells = runValidator (genTable ty) cells := by
  induction cells with
  | nil => rfl
  | cons c cs ih => rw [validateTy_cons, ih]; rfl

theorem validateAny_eq_run (cells : List Cell) :
    validateAny cells = runAny Gen.Validators.anyValueLoop cells := by
  induction cells with
  | nil => rfl
  | cons c cs ih =>
    have : validateAny (c :: cs) = (!c.isEmpty || validateAny cs) := by simp [validateAny]
    rw [this, ih]
    cases c <;> simp [runAny, Gen.Validators.anyValueLoop, CellCond.holds, Cell.isEmpty]

/-! ### comparators -/

/-- the regenerated record of the comparator a `Cmp` stands for -/
def cmpRec : Cmp → ComparatorRec
  | .directEq _ => Gen.Comparators.directEQ
  | .deepEq => Gen.Comparators.deepEQ
  | .lt => Gen.Comparators.lt
  | .le => Gen.Comparators.le
  | .gt => Gen.Comparators.gt
  | .ge => Gen.Comparators.ge
  | .regex _ => Gen.Comparators.regex

/-- source of the compiled regular expression a comparator carries -/
def cmpRe : Cmp → String
  | .regex re => re
  | _ => ""

/-- the validator a comparator value uses: the embedded one, or for DirectEQ the one
    `pushCompareEQ` put into the interface field -/
def instValidator (c : Cmp) : VRef :=
  match (cmpRec c).validator, c with
  | .iface, .directEq ty => vrefOfLitTy ty
  | v, _ => v

/-- `validate` of a validator struct on a value list with its write log; `none` for an
    interface field nobody filled in -/
def runValStep (v : VRef) (lv : VL) (st : St) : Option (Bool × VL × St) :=
  match v with
  | .iface => none
  | .anyValue => some (runAny Gen.Validators.anyValueLoop lv.cells, lv, st)
  | v =>
    (Gen.Validators.table v).map fun t =>
      let r := runValidator t lv.cells
      (r.1, { lv with cells := r.2.1 }, st.wrote lv.org r.2.2)

theorem cmpValidatorTy_eq (c : Cmp) :
    (match cmpValidatorTy c with | some ty => vrefOfLitTy ty | none => VRef.anyValue) = instValidator c := by
  cases c <;> rfl

theorem cmpRec_validator (c : Cmp) :
    (cmpRec c).validator =
      (match c with
       | .directEq _ => VRef.iface | .deepEq => .anyValue | .regex _ => .string | _ => .numeric) := by
  cases c <;> rfl

theorem valStep_eq (c : Cmp) (lv : VL) (st : St) :
    runValStep (instValidator c) lv st = some (valStep c lv st) := by
  cases c with
  | directEq ty =>
    cases ty <;>
      simp [instValidator, cmpRec, Gen.Comparators.directEQ, vrefOfLitTy, runValStep, Gen.Validators.table,
        valStep, cmpValidatorTy, validateTy_eq_run, genTable]
  | deepEq =>
    simp [instValidator, cmpRec, Gen.Comparators.deepEQ, runValStep, valStep, cmpValidatorTy, validateAny_eq_run]
  | lt => simp [instValidator, cmpRec, Gen.Comparators.lt, runValStep, Gen.Validators.table, valStep, cmpValidatorTy, validateTy_eq_run, genTable]
  | le => simp [instValidator, cmpRec, Gen.Comparators.le, runValStep, Gen.Validators.table, valStep, cmpValidatorTy, validateTy_eq_run, genTable]
  | gt => simp [instValidator, cmpRec, Gen.Comparators.gt, runValStep, Gen.Validators.table, valStep, cmpValidatorTy, validateTy_eq_run, genTable]
  | ge => simp [instValidator, cmpRec, Gen.Comparators.ge, runValStep, Gen.Validators.table, valStep, cmpValidatorTy, validateTy_eq_run, genTable]
  | regex re => simp [instValidator, cmpRec, Gen.Comparators.regex, runValStep, Gen.Validators.table, valStep, cmpValidatorTy, validateTy_eq_run, genTable]

theorem cmpTest_eq (env : Env) (c : Cmp) (l r : Val) :
    cmpTest env c l r = evalTest env (cmpRec c).test (cmpRe c) l r := by
  cases c <;> rfl

/-- the only panic a comparator can raise -/
def cmpErr : Cmp → Panic
  | .directEq _ => .uncomparable
  | _ => .typeAssertion

theorem ifaceEq_err {a b : Val} {e : Panic} (h : ifaceEq a b = .error e) : e = .uncomparable := by
  cases a <;> cases b <;> simp [ifaceEq] at h <;> first | exact h.symm | skip
  all_goals (split at h <;> simp at h; try exact h.symm)

theorem asFloat_err {v : Val} {e : Panic} (h : asFloat v = .error e) : e = .typeAssertion := by
  cases v <;> simp [asFloat] at h <;> exact h.symm

theorem asStr_err {v : Val} {e : Panic} (h : asStr v = .error e) : e = .typeAssertion := by
  cases v <;> simp [asStr] at h <;> exact h.symm

theorem bind2_err {f : Int → Int → Bool} {l r : Val} {e : Panic}
    (h : (do let a ← asFloat l; let b ← asFloat r; Except.ok (f a b) : M Bool) = .error e) : e = .typeAssertion := by
  cases hl : asFloat l with
  | error e1 => rw [hl] at h; simp [bind, Except.bind] at h; subst h; exact asFloat_err hl
  | ok a =>
    cases hr : asFloat r with
    | error e2 => rw [hl, hr] at h; simp [bind, Except.bind] at h; subst h; exact asFloat_err hr
    | ok b => rw [hl, hr] at h; simp [bind, Except.bind] at h

theorem cmpTest_err {env : Env} {c : Cmp} {l r : Val} {e : Panic}
    (h : cmpTest env c l r = .error e) : e = cmpErr c := by
  cases c with
  | directEq ty => exact ifaceEq_err h
  | deepEq => simp [cmpTest] at h
  | lt => exact bind2_err (f := fun a b => decide (a < b)) h
  | le => exact bind2_err (f := fun a b => decide (a ≤ b)) h
  | gt => exact bind2_err (f := fun a b => decide (a > b)) h
  | ge => exact bind2_err (f := fun a b => decide (a ≥ b)) h
  | regex re =>
    cases hl : asStr l with
    | error e1 => simp [cmpTest, hl, bind, Except.bind] at h; subst h; exact asStr_err hl
    | ok s => simp [cmpTest, hl, bind, Except.bind] at h

theorem comparator_err {env : Env} {c : Cmp} {r : Val} {cells : List Cell} {e : Panic}
    (h : comparator env c r cells = .error e) : e = cmpErr c := by
  induction cells with
  | nil => simp [comparator] at h
  | cons cell cs ih =>
    cases ht : comparator env c r cs with
    | error e1 =>
      have := ih ht
      simp [comparator, ht, bind, Except.bind] at h
      rw [← h]; exact this
    | ok t =>
      obtain ⟨f, cs', w⟩ := t
      cases cell with
      | empty => cases c <;> simp [comparator, ht, bind, Except.bind] at h
      | val v =>
        cases hv : cmpTest env c v r with
        | error e2 =>
          simp [comparator, ht, hv, bind, Except.bind] at h
          rw [← h]; exact cmpTest_err hv
        | ok b => cases b <;> simp [comparator, ht, hv, bind, Except.bind] at h

end Ties
end JPV
