/-
Lemmas/Ties — UMBRELLA only. The proofs that used to live here are split by the generated file they
depend on, so that one broken tie only breaks the modules (and property checks) that rest on it:

  Lemmas/TiesValidators.lean    Gen/Validators.lean
  Lemmas/TiesComparators.lean   Gen/Comparators.lean (+ TiesValidators)
  Lemmas/TiesOrder.lean         Gen/OperandOrder.lean

Nothing should import this module; import the one you need.
-/
import JPV.Lemmas.TiesValidators
import JPV.Lemmas.TiesComparators
import JPV.Lemmas.TiesOrder
