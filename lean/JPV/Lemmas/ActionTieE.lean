/-
ActionTieE — the tie for Action39 (`jsonpathFilter`): the loop that unwraps aggregate functions to look at the
innermost head of the popped chain, against `Peg.innerHead`.
-/
import JPV.Lemmas.ActionTieC
set_option linter.unusedVariables false
set_option linter.unusedSimpArgs false
namespace JPV
namespace ParserLayout
open JPV JPV.ParserNode JPV.ActionNode
open JPV.Gen.ParserHelpersGo JPV.Gen.ActionsGo

/-! ### `loopA`, one step at a time -/

theorem loopA_stop {σ : Type} (fuel : Nat) (s : σ) (cond : σ → Bool) (body : σ → AM σ) (hc : cond s = false) :
    loopA fuel s cond body = .ok s := by
  cases fuel <;> simp only [loopA, hc, Bool.false_eq_true, if_false]

theorem loopA_step {σ : Type} (fuel : Nat) (s s' : σ) (cond : σ → Bool) (body : σ → AM σ) (hc : cond s = true)
    (hb : body s = .ok s') : loopA (fuel + 1) s cond body = loopA fuel s' cond body := by
  simp only [loopA, hc, if_true, hb, ebind_ok]

/-! ### the model side: `loadParams` moves nodes, it does not make any -/

theorem msizeSt_loadParams (st : Peg.St) : msizeSt (Peg.loadParams st) = msizeSt st := by
  obtain ⟨stack, saved, root, tb, te⟩ := st
  cases saved with
  | nil => rfl
  | cons fr rest =>
    simp only [Peg.loadParams, msizeSt, msizeItems_append, msizeFrames]
    omega

/-! ### the loop of Action39 -/

/-- the body of `for { aggregateFunction, ok := checkNode.(*syntaxAggregateFunction); if !ok { break };
    checkNode = aggregateFunction.param }` as the generator writes it -/
def loop39Body (p : PS) : NRef × Bool → AM (NRef × Bool) := fun s =>
  match NRef.asPtr .afn s.1 with
  | none => .ok (s.1, true)
  | some aggregateFunction => do
    let t_3 ← liftH (rd p.heap (some aggregateFunction) (·.param))
    .ok (t_3, s.2)

/-- `switch checkNode.(type)` of Action39 -/
def tail39 (fuel : Nat) (node checkNode : NRef) (p : PS) : AM PS :=
  match NRef.kind checkNode with
  | some .root => do
    let (t_4, p) ← liftH (deleteRootIdentifier fuel node p)
    let p ← liftH (pushCompareParameterRoot fuel t_4 p)
    let p ← liftH (push (GItem.bool true) p)
    .ok p
  | some .cur => do
    let (t_5, p) ← liftH (deleteRootIdentifier fuel node p)
    let p ← liftH (pushCompareParameterCurrentRoot fuel t_5 p)
    let p ← liftH (push (GItem.bool false) p)
    .ok p
  | _ => .ok p

theorem goAct39_eq (fuel : Nat) (lib : Lib) (al : ALib) (text : String) (begin : Int) (buffer : String) (p : PS) :
    goAct39 fuel lib al text begin buffer p =
      (liftH (loadParams p) >>= fun p =>
        liftH (pop p) >>= fun x =>
          liftH (GItem.asNode x.1) >>= fun node =>
            loopA fuel (node, false) (fun s => !s.2) (loop39Body x.2) >>= fun s =>
              tail39 fuel node s.1 x.2) := rfl

theorem tail39_root (fuel : Nat) (node : NRef) (id : Nat) (p : PS) :
    tail39 fuel node (some (.root, id)) p =
      (liftH (deleteRootIdentifier fuel node p) >>= fun x =>
        liftH (pushCompareParameterRoot fuel x.1 x.2) >>= fun p =>
          liftH (push (GItem.bool true) p) >>= fun p => .ok p) := rfl

theorem tail39_cur (fuel : Nat) (node : NRef) (id : Nat) (p : PS) :
    tail39 fuel node (some (.cur, id)) p =
      (liftH (deleteRootIdentifier fuel node p) >>= fun x =>
        liftH (pushCompareParameterCurrentRoot fuel x.1 x.2) >>= fun p =>
          liftH (push (GItem.bool false) p) >>= fun p => .ok p) := rfl

/-- what the `switch` of Action39 distinguishes -/
def kindHK (r : NRef) : Peg.HeadKind :=
  match r with
  | some (.root, _) => .root
  | some (.cur, _) => .cur
  | _ => .other

theorem tail39_other (fuel : Nat) (node r : NRef) (p : PS) (h : kindHK r = .other) : tail39 fuel node r p = .ok p := by
  cases r with
  | none => rfl
  | some x =>
    obtain ⟨k, id⟩ := x
    cases k <;> first | rfl | cases h

/-- the loop follows `param` links through the nested aggregates and stops at what `Peg.innerHead` looks at -/
theorem loop39 : ∀ (fuel : Nat) (p : PS) (ch : List LN), Sat p.heap (cellsCh ch none) → sizeCh ch < fuel →
    ∃ r, loopA fuel (headRef ch, false) (fun s => !s.2) (loop39Body p) = .ok (r, true) ∧
      kindHK r = Peg.innerHead (eraseCh ch)
  | 0, _, _, _, hf => absurd hf (Nat.not_lt_zero _)
  | f + 1, p, [], _, _ => by
    refine ⟨none, ?_, rfl⟩
    show loopA (f + 1) (none, false) _ _ = _
    rw [loopA_step f (none, false) (none, true) _ _ rfl rfl]
    exact loopA_stop f _ _ _ rfl
  | f + 1, p, .mk id i s :: rest, hsat, hf => by
    have hstop : ∀ (k : Kind), k ≠ .afn →
        loopA (f + 1) (some (k, id), false) (fun s => !s.2) (loop39Body p) = .ok (some (k, id), true) := by
      intro k hk
      have hb : loop39Body p (some (k, id), false) = .ok (some (k, id), true) := by
        simp only [loop39Body, NRef.asPtr, hk, if_false]
      rw [loopA_step f _ _ _ _ rfl hb]
      exact loopA_stop f _ _ _ rfl
    cases s with
    | afn name q =>
      have hc : p.heap[id]? = some (nodeCell id i (.afn name q) (headRefD rest none)) :=
        hsat (id, nodeCell id i (.afn name q) (headRefD rest none)) (by
          simp only [cellsCh, cellsN, List.cons_append, List.mem_cons, true_or])
      have hsq : Sat p.heap (cellsCh q none) := by
        refine hsat.subset ?_
        intro x hx
        simp only [cellsCh, cellsN, cellsS, List.cons_append, List.mem_cons, List.mem_append]
        exact Or.inr (Or.inl hx)
      have hfq : sizeCh q < f := by
        simp only [sizeCh, sizeN, sizeS] at hf
        omega
      obtain ⟨r, hl, hk⟩ := loop39 f p q hsq hfq
      refine ⟨r, ?_, ?_⟩
      · have hb : loop39Body p (headRef (LN.mk id i (.afn name q) :: rest), false) = .ok (headRef q, false) := by
          show loop39Body p (some (Kind.afn, id), false) = _
          simp only [loop39Body, NRef.asPtr, if_true, rd_some hc, liftH_ok, ebind_ok]
          rfl
        rw [loopA_step f _ _ _ _ rfl hb]
        exact hl
      · rw [hk]
        simp only [eraseCh, eraseN, eraseS, Peg.innerHead, Peg.innerHeadNode]
    | root => exact ⟨_, hstop .root (by decide), rfl⟩
    | cur => exact ⟨_, hstop .cur (by decide), rfl⟩
    | child k => exact ⟨_, hstop .child (by decide), rfl⟩
    | wild => exact ⟨_, hstop .wild (by decide), rfl⟩
    | multi ids t => exact ⟨_, hstop .multi (by decide), rfl⟩
    | desc a b => exact ⟨_, hstop .desc (by decide), rfl⟩
    | union ss => exact ⟨_, hstop .union (by decide), rfl⟩
    | filter fq => exact ⟨_, hstop .filter (by decide), rfl⟩
    | ffn name => exact ⟨_, hstop .ffn (by decide), rfl⟩

/-! ### Action39 -/

section
variable (c : Peg.Ctx) (lib : Lib) (al : ALib) (g : PS) (L : LSt) (tb te fuel : Nat) (buffer : String)

theorem act39_tie (hrep : Rep c g L []) (hfuel : msizeSt (eraseSt L tb te) + 2 ≤ fuel) :
    ASim c tb te (goAct39 fuel lib al (Peg.textOf c.input tb te) (tb : Int) buffer g) (Peg.act39 c (eraseSt L tb te)) := by
  obtain ⟨g1, L1, hl, hrep1, hE1⟩ := loadParams_tie c g L [] tb te hrep
  have hfuel1 : msizeSt (eraseSt L1 tb te) + 2 ≤ fuel := by rw [hE1, msizeSt_loadParams]; exact hfuel
  rw [goAct39_eq]
  rcases pop_cases c g1 L1 [] tb te hrep1 with ⟨hg, hm⟩ | ⟨it, s, hs, hg, hm, hrep2, hwf⟩
  · rw [hE1] at hm
    simp only [Peg.act39, hl, hg, hm, liftH_ok, liftH_err, ebind_ok, ebind_err]
    exact ASim.err rfl rfl
  · rw [hE1] at hm
    rcases asNode_cases it hwf with ⟨ch, rfl, hne, hga, hma⟩ | ⟨hga, hma⟩
    · have hsz : sizeCh ch + 2 ≤ fuel := by
        have h1 := sizeItems_le_msizeSt L1 tb te
        rw [hs, sizeItems_append] at h1
        simp only [sizeItems, sizeItem] at h1
        omega
      have hrep2' : Rep c { g1 with params := s.map gitem } { L1 with stack := s } (cellsCh ch none ++ []) := hrep2
      obtain ⟨hsat, _⟩ := hrep2'.held_sat
      obtain ⟨r, hloop, hk⟩ := loop39 fuel { g1 with params := s.map gitem } ch hsat (by omega)
      obtain ⟨f, rfl⟩ : ∃ f, fuel = f + 2 := ⟨fuel - 2, by omega⟩
      simp only [Peg.act39, hl, hg, hm, hga, hma, hloop, liftH_ok, ebind_ok]
      cases hh : Peg.innerHead (eraseCh ch) with
      | other =>
        rw [hh] at hk
        rw [tail39_other _ _ _ _ hk]
        exact ASim.ok ⟨_, _, rfl, hrep2'.drop, rfl⟩
      | root =>
        rw [hh] at hk
        obtain ⟨id, rfl⟩ : ∃ id, r = some (.root, id) := by
          cases r with
          | none => cases hk
          | some x => obtain ⟨k, id⟩ := x; cases k <;> first | exact ⟨id, rfl⟩ | cases hk
        obtain ⟨g3, ch', hd, hrep3, her, _, hsz'⟩ := deleteRootIdentifier_tie c _ _ [] ch (f + 2) hrep2' hsz
        have hlen := length_le_sizeCh ch'
        obtain ⟨g4, L4, hp, hrep4, hE4⟩ :=
          pushCompareParameterRoot_tie c g3 _ [] tb te ch' f hrep3 (by omega)
        simp only [tail39_root, hd, hp, liftH_ok, ebind_ok]
        rw [← her, ← hE4]
        exact push_plain_sim' c g4 L4 tb te (.bool true) trivial hrep4
      | cur =>
        rw [hh] at hk
        obtain ⟨id, rfl⟩ : ∃ id, r = some (.cur, id) := by
          cases r with
          | none => cases hk
          | some x => obtain ⟨k, id⟩ := x; cases k <;> first | exact ⟨id, rfl⟩ | cases hk
        obtain ⟨g3, ch', hd, hrep3, her, _, hsz'⟩ := deleteRootIdentifier_tie c _ _ [] ch (f + 2) hrep2' hsz
        have hlen := length_le_sizeCh ch'
        obtain ⟨g4, L4, hp, hrep4, hE4⟩ :=
          pushCompareParameterCurrentRoot_tie c g3 _ [] tb te ch' f hrep3 (by omega)
        simp only [tail39_cur, hd, hp, liftH_ok, ebind_ok]
        rw [← her, ← hE4]
        exact push_plain_sim' c g4 L4 tb te (.bool false) trivial hrep4
    · simp only [Peg.act39, hl, hg, hm, hga, hma, liftH_ok, liftH_err, ebind_ok, ebind_err]
      exact ASim.err rfl rfl

end
end ParserLayout
end JPV
