/-
ActionTieA — ties for the actions that are one helper call, possibly after one `pop` with a type assertion:
Action 1 3 4 5 6 7 8 9 10 12 13 14 17 18 19 20 22 23 35 36 38 40 41 42 43 44 45.
-/
import JPV.Lemmas.ActionTie
set_option linter.unusedVariables false
set_option linter.unusedSimpArgs false
namespace JPV
namespace ParserLayout
open JPV JPV.ParserNode JPV.ActionNode
open JPV.Gen.ParserHelpersGo JPV.Gen.ActionsGo

section
variable (c : Peg.Ctx) (lib : Lib) (al : ALib) (g : PS) (L : LSt) (tb te fuel : Nat) (buffer : String)

theorem act8_tie (hrep : Rep c g L []) :
    ASim c tb te (goAct8 fuel lib al (Peg.textOf c.input tb te) (tb : Int) buffer g) (Peg.act8 c (eraseSt L tb te)) :=
  ASim.ofSim' (pushRootIdentifier_tie c g L [] tb te hrep)

theorem act9_tie (hrep : Rep c g L []) :
    ASim c tb te (goAct9 fuel lib al (Peg.textOf c.input tb te) (tb : Int) buffer g) (Peg.act9 c (eraseSt L tb te)) :=
  ASim.ofSim' (pushCurrentRootIdentifier_tie c g L [] tb te hrep)

theorem act3_tie (hrep : Rep c g L []) :
    ASim c tb te (goAct3 fuel lib al (Peg.textOf c.input tb te) (tb : Int) buffer g) (Peg.act3 c (eraseSt L tb te)) := by
  rcases pop_cases c g L [] tb te hrep with ⟨hg, hm⟩ | ⟨it, s, hs, hg, hm, hrep1, hwf⟩
  · simp only [goAct3, Peg.act3, hg, hm, liftH_err, ebind_err]
    exact ASim.err rfl rfl
  · rcases asNode_cases it hwf with ⟨ch, rfl, hne, hga, hma⟩ | ⟨hga, hma⟩
    · simp only [goAct3, Peg.act3, hg, hm, hga, hma, liftH_ok, ebind_ok]
      exact ASim.ofSim' (pushRecursiveChildIdentifier_tie c _ _ [] tb te ch hrep1)
    · simp only [goAct3, Peg.act3, hg, hm, hga, hma, liftH_ok, liftH_err, ebind_ok, ebind_err]
      exact ASim.err rfl rfl


theorem act12_tie (hrep : Rep c g L []) :
    ASim c tb te (goAct12 fuel lib al (Peg.textOf c.input tb te) (tb : Int) buffer g) (Peg.act12 c (eraseSt L tb te)) :=
  ASim.ofSim' (pushChildWildcardIdentifier_tie c g L [] tb te hrep)

theorem act18_tie (hrep : Rep c g L []) :
    ASim c tb te (goAct18 fuel lib al (Peg.textOf c.input tb te) (tb : Int) buffer g) (Peg.act18 c (eraseSt L tb te)) :=
  ASim.ofSim' (pushWildcardSubscript_tie c g L [] tb te hrep)

theorem act22_tie (hrep : Rep c g L []) :
    ASim c tb te (goAct22 fuel lib al (Peg.textOf c.input tb te) (tb : Int) buffer g) (Peg.act22 c (eraseSt L tb te)) :=
  ASim.ofSim' (pushScriptQualifier_tie c g [] tb te _)

theorem act4_tie (hrep : Rep c g L []) :
    ASim c tb te (goAct4 fuel lib al (Peg.textOf c.input tb te) (tb : Int) buffer g) (Peg.act4 c (eraseSt L tb te)) :=
  ASim.ofSim' (setLastNodeText_tie c g L [] tb te _ hrep)

theorem act7_tie (hrep : Rep c g L []) :
    ASim c tb te (goAct7 fuel lib al (Peg.textOf c.input tb te) (tb : Int) buffer g) (Peg.act7 c (eraseSt L tb te)) :=
  ASim.ofSim' (setLastNodeText_tie c g L [] tb te _ hrep)

theorem act17_tie (hlib : LibRep lib c) (hrep : Rep c g L []) :
    ASim c tb te (goAct17 fuel lib al (Peg.textOf c.input tb te) (tb : Int) buffer g) (Peg.act17 c (eraseSt L tb te)) :=
  ASim.ofSim' (pushIndexSubscript_tie c lib hlib g L [] tb te _ hrep)

theorem act20_tie (hlib : LibRep lib c) (hrep : Rep c g L []) :
    ASim c tb te (goAct20 fuel lib al (Peg.textOf c.input tb te) (tb : Int) buffer g) (Peg.act20 c (eraseSt L tb te)) :=
  ASim.ofSim' (pushIndexSubscript_tie c lib hlib g L [] tb te _ hrep)

theorem act1_tie (hrep : Rep c g L []) :
    ASim c tb te (goAct1 fuel lib al (Peg.textOf c.input tb te) (tb : Int) buffer g) (Peg.act1 c (eraseSt L tb te)) := by
  refine ASim.err rfl ?_
  simp [absAErr, reasonOf, Peg.Reason.msg, eraseSt]

theorem act38_tie (hrep : Rep c g L []) :
    ASim c tb te (goAct38 fuel lib al (Peg.textOf c.input tb te) (tb : Int) buffer g) (Peg.act38 c (eraseSt L tb te)) := by
  obtain ⟨g', L', he, hr, hE⟩ := saveParams_tie c g L [] tb te hrep
  simp only [goAct38, Peg.act38, he, liftH_ok, ebind_ok]
  exact ASim.ok ⟨g', L', rfl, hr, hE⟩

/-- `p.push(x)` for a value that owns no cells -/
theorem push_plain_sim (it : LItem) (hc : cellsItem it = []) (hwf : wfItem it) (hrep : Rep c g L []) :
    ASim c tb te (liftH (push (gitem it) g) >>= fun p => .ok p) (.ok (Peg.push (eraseItem it) (eraseSt L tb te))) := by
  obtain ⟨g', he, hr, hE⟩ := push_tie c g L [] it tb te (by rw [hc]; exact hrep) hwf
  rw [he]
  exact ASim.ok ⟨g', _, rfl, hr, hE⟩

theorem act6_tie (hrep : Rep c g L []) :
    ASim c tb te (goAct6 fuel lib al (Peg.textOf c.input tb te) (tb : Int) buffer g) (Peg.act6 c (eraseSt L tb te)) :=
  push_plain_sim c g L tb te (.str _) rfl trivial hrep

theorem act41_tie (hrep : Rep c g L []) :
    ASim c tb te (goAct41 fuel lib al (Peg.textOf c.input tb te) (tb : Int) buffer g) (Peg.act41 c (eraseSt L tb te)) :=
  push_plain_sim c g L tb te (.bool true) rfl trivial hrep

theorem act42_tie (hrep : Rep c g L []) :
    ASim c tb te (goAct42 fuel lib al (Peg.textOf c.input tb te) (tb : Int) buffer g) (Peg.act42 c (eraseSt L tb te)) :=
  push_plain_sim c g L tb te (.bool false) rfl trivial hrep

theorem act45_tie (hrep : Rep c g L []) :
    ASim c tb te (goAct45 fuel lib al (Peg.textOf c.input tb te) (tb : Int) buffer g) (Peg.act45 c (eraseSt L tb te)) :=
  push_plain_sim c g L tb te .null rfl trivial hrep

theorem act43_tie (hal : ALibRep al c) (hrep : Rep c g L []) :
    ASim c tb te (goAct43 fuel lib al (Peg.textOf c.input tb te) (tb : Int) buffer g) (Peg.act43 c (eraseSt L tb te)) := by
  simp only [goAct43, hal.unescape, liftH_ok, ebind_ok]
  exact push_plain_sim c g L tb te (.str _) rfl trivial hrep

theorem act44_tie (hal : ALibRep al c) (hrep : Rep c g L []) :
    ASim c tb te (goAct44 fuel lib al (Peg.textOf c.input tb te) (tb : Int) buffer g) (Peg.act44 c (eraseSt L tb te)) := by
  simp only [goAct44, hal.unescape, liftH_ok, ebind_ok]
  exact push_plain_sim c g L tb te (.str _) rfl trivial hrep

theorem act10_tie (hal : ALibRep al c) (hrep : Rep c g L []) :
    ASim c tb te (goAct10 fuel lib al (Peg.textOf c.input tb te) (tb : Int) buffer g) (Peg.act10 c (eraseSt L tb te)) := by
  simp only [goAct10, hal.unescape, liftH_ok, ebind_ok]
  exact ASim.ofSim' (pushChildSingleIdentifier_tie c g L [] tb te _ hrep)

theorem act13_tie (hal : ALibRep al c) (hrep : Rep c g L []) :
    ASim c tb te (goAct13 fuel lib al (Peg.textOf c.input tb te) (tb : Int) buffer g) (Peg.act13 c (eraseSt L tb te)) := by
  have hu := hal.single (Peg.textOf c.input tb te)
  have ht : (eraseSt L tb te).text c = Peg.textOf c.input tb te := rfl
  simp only [goAct13, Peg.act13, ht]
  cases hx : c.ext.unescapeSingle (Peg.textOf c.input tb te) with
  | none =>
    rw [hx] at hu
    simp only [hu, liftH_err, ebind_err]
    exact ASim.err rfl rfl
  | some k =>
    rw [hx] at hu
    simp only [hu, liftH_ok, ebind_ok]
    exact ASim.ofSim' (pushChildSingleIdentifier_tie c g L [] tb te _ hrep)

theorem act14_tie (hal : ALibRep al c) (hrep : Rep c g L []) :
    ASim c tb te (goAct14 fuel lib al (Peg.textOf c.input tb te) (tb : Int) buffer g) (Peg.act14 c (eraseSt L tb te)) := by
  have hu := hal.double (Peg.textOf c.input tb te)
  have ht : (eraseSt L tb te).text c = Peg.textOf c.input tb te := rfl
  simp only [goAct14, Peg.act14, ht]
  cases hx : c.ext.unescapeDouble (Peg.textOf c.input tb te) with
  | none =>
    rw [hx] at hu
    simp only [hu, liftH_err, ebind_err]
    exact ASim.err rfl rfl
  | some k =>
    rw [hx] at hu
    simp only [hu, liftH_ok, ebind_ok]
    exact ASim.ofSim' (pushChildSingleIdentifier_tie c g L [] tb te _ hrep)

theorem act40_tie (hlib : LibRep lib c) (hrep : Rep c g L []) :
    ASim c tb te (goAct40 fuel lib al (Peg.textOf c.input tb te) (tb : Int) buffer g) (Peg.act40 c (eraseSt L tb te)) := by
  have hu := toFloat_tie c lib hlib (Peg.textOf c.input tb te)
  have ht : (eraseSt L tb te).text c = Peg.textOf c.input tb te := rfl
  simp only [goAct40, Peg.act40, ht]
  cases hx : c.ext.parseFloat (Peg.textOf c.input tb te) with
  | ok n =>
    rw [hx] at hu
    simp only [hu, liftH_ok, ebind_ok]
    exact push_plain_sim c g L tb te (.num n) rfl trivial hrep
  | err =>
    rw [hx] at hu
    simp only [hu, liftH_err, ebind_err]
    exact ASim.err rfl rfl
  | unmodelled =>
    rw [hx] at hu
    simp only [hu, liftH_err, ebind_err]
    exact ASim.err rfl rfl

theorem act5_tie (hrep : Rep c g L []) :
    ASim c tb te (goAct5 fuel lib al (Peg.textOf c.input tb te) (tb : Int) buffer g) (Peg.act5 c (eraseSt L tb te)) := by
  rcases pop_cases c g L [] tb te hrep with ⟨hg, hm⟩ | ⟨it, s, hs, hg, hm, hrep1, hwf⟩
  · simp only [goAct5, Peg.act5, hg, hm, liftH_err, ebind_err]
    exact ASim.err rfl rfl
  · rcases asStr_cases it with ⟨name, rfl, hga, hma⟩ | ⟨hga, hma⟩
    · simp only [goAct5, Peg.act5, hg, hm, hga, hma, liftH_ok, ebind_ok]
      exact ASim.ofSim' (pushFunction_tie c _ _ [] tb te _ name hrep1)
    · simp only [goAct5, Peg.act5, hg, hm, hga, hma, liftH_ok, liftH_err, ebind_ok, ebind_err]
      exact ASim.err rfl rfl

theorem act19_tie (hrep : Rep c g L []) :
    ASim c tb te (goAct19 fuel lib al (Peg.textOf c.input tb te) (tb : Int) buffer g) (Peg.act19 c (eraseSt L tb te)) := by
  rcases pop_cases c g L [] tb te hrep with ⟨hg, hm⟩ | ⟨it, s, hs, hg, hm, hrep1, hwf⟩
  · simp only [goAct19, Peg.act19, hg, hm, liftH_err, ebind_err]
    exact ASim.err rfl rfl
  · rcases asSubscript_cases it with ⟨sub, rfl, hga, hma⟩ | ⟨hga, hma⟩
    · simp only [goAct19, Peg.act19, hg, hm, hga, hma, liftH_ok, ebind_ok]
      exact ASim.ofSim' (pushUnionQualifier_tie c _ _ [] tb te sub hwf hrep1)
    · simp only [goAct19, Peg.act19, hg, hm, hga, hma, liftH_ok, liftH_err, ebind_ok, ebind_err]
      exact ASim.err rfl rfl

theorem act23_tie (hrep : Rep c g L []) :
    ASim c tb te (goAct23 fuel lib al (Peg.textOf c.input tb te) (tb : Int) buffer g) (Peg.act23 c (eraseSt L tb te)) := by
  rcases pop_cases c g L [] tb te hrep with ⟨hg, hm⟩ | ⟨it, s, hs, hg, hm, hrep1, hwf⟩
  · simp only [goAct23, Peg.act23, hg, hm, liftH_err, ebind_err]
    exact ASim.err rfl rfl
  · rcases asQuery_cases it with ⟨q, rfl, hga, hma⟩ | hma | ⟨hga, hma⟩
    · simp only [goAct23, Peg.act23, hg, hm, hga, hma, liftH_ok, ebind_ok]
      exact ASim.ofSim' (pushFilterQualifier_tie c _ _ [] tb te q hrep1)
    · simp only [Peg.act23, hm, hma, ebind_ok, ebind_err]
      exact ASim.unrep
    · simp only [goAct23, Peg.act23, hg, hm, hga, hma, liftH_ok, liftH_err, ebind_ok, ebind_err]
      exact ASim.err rfl rfl

/-- `p.pushCompareParameterLiteral(p.pop())` -/
theorem pushLiteral_sim (hrep : Rep c g L []) :
    ASim c tb te (liftH (pop g) >>= fun r => liftH (pushCompareParameterLiteral r.1 r.2) >>= fun p => .ok p)
      (Peg.pushCompareParameterLiteral (eraseSt L tb te)) := by
  rcases pop_cases c g L [] tb te hrep with ⟨hg, hm⟩ | ⟨it, s, hs, hg, hm, hrep1, hwf⟩
  · simp only [Peg.pushCompareParameterLiteral, hg, hm, liftH_err, ebind_err]
    exact ASim.err rfl rfl
  · simp only [Peg.pushCompareParameterLiteral, hg, hm, liftH_ok, ebind_ok]
    cases it with
    | num n => exact ASim.ofSim' (pushCompareParameterLiteral_tie c _ _ [] tb te (.num n) hrep1)
    | bool b => exact ASim.ofSim' (pushCompareParameterLiteral_tie c _ _ [] tb te (.bool b) hrep1)
    | str t => exact ASim.ofSim' (pushCompareParameterLiteral_tie c _ _ [] tb te (.str t) hrep1)
    | null => exact ASim.ofSim' (pushCompareParameterLiteral_tie c _ _ [] tb te .null hrep1)
    | sub x => cases x <;> exact ASim.unrep
    | _ => exact ASim.unrep

theorem act35_tie (hrep : Rep c g L []) :
    ASim c tb te (goAct35 fuel lib al (Peg.textOf c.input tb te) (tb : Int) buffer g) (Peg.act35 c (eraseSt L tb te)) :=
  pushLiteral_sim c g L tb te hrep

theorem act36_tie (hrep : Rep c g L []) :
    ASim c tb te (goAct36 fuel lib al (Peg.textOf c.input tb te) (tb : Int) buffer g) (Peg.act36 c (eraseSt L tb te)) :=
  pushLiteral_sim c g L tb te hrep

end
end ParserLayout
end JPV
