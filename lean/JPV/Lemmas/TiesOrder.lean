/-
Lemmas/TiesOrder — `Build.mkEq` / `Build.mkOrd` agree with pushCompareEQ/NE/GE/GT/LE/LT as regenerated
from /repo (Gen/OperandOrder.lean) under the reading given in Ties/Sem.lean, and those procedures
terminate and push exactly one query. Imports NO other generated file.
(Split out of the former single module Lemmas/Ties.lean; statements and proofs unchanged.)
-/
import JPV.Ties.Sem
import JPV.Gen.OperandOrder
namespace JPV
namespace Ties
open Impl

/-! ### operand ordering -/
section OperandOrder
open Gen.OperandOrder Build

/-- split two abstract operands into their 14 × 14 concrete shapes (the `src` fields stay symbolic) -/
macro "oo_split" a:ident b:ident : tactic =>
  `(tactic| (rcases $a:ident with ⟨(_|_|_|_|_)|_|_, _|_, sa⟩ <;> rcases $b:ident with ⟨(_|_|_|_|_)|_|_, _|_, sb⟩))

macro "oo_pushes" ha:ident hb:ident : tactic =>
  `(tactic| first | exact ⟨_, rfl⟩ | (simp [Opnd.known] at $ha:ident; done) | (simp [Opnd.known] at $hb:ident; done))

theorem pushCompareEQ_pushes (n : Nat) (a b : Opnd) (ha : a.known = true) (hb : b.known = true) (stk : Stack) :
    ∃ t, pushCompareEQ (n + 3) a b stk = .ok (t :: stk) := by
  oo_split a b <;> oo_pushes ha hb
theorem pushCompareNE_pushes (n : Nat) (a b : Opnd) (ha : a.known = true) (hb : b.known = true) (stk : Stack) :
    ∃ t, pushCompareNE (n + 3) a b stk = .ok (t :: stk) := by
  oo_split a b <;> oo_pushes ha hb
theorem pushCompareGE_pushes (n : Nat) (a b : Opnd) (stk : Stack) :
    ∃ t, pushCompareGE (n + 3) a b stk = .ok (t :: stk) := by
  oo_split a b <;> exact ⟨_, rfl⟩
theorem pushCompareGT_pushes (n : Nat) (a b : Opnd) (stk : Stack) :
    ∃ t, pushCompareGT (n + 3) a b stk = .ok (t :: stk) := by
  oo_split a b <;> exact ⟨_, rfl⟩
theorem pushCompareLE_pushes (n : Nat) (a b : Opnd) (stk : Stack) :
    ∃ t, pushCompareLE (n + 3) a b stk = .ok (t :: stk) := by
  oo_split a b <;> exact ⟨_, rfl⟩
theorem pushCompareLT_pushes (n : Nat) (a b : Opnd) (stk : Stack) :
    ∃ t, pushCompareLT (n + 3) a b stk = .ok (t :: stk) := by
  oo_split a b <;> exact ⟨_, rfl⟩

/-- no operand pair — not even one with a literal of an unforeseen type — makes the procedures
    call each other more than twice -/
theorem pushCompareEQ_no_loop (n : Nat) (a b : Opnd) (stk : Stack) :
    isOutOfFuel (pushCompareEQ (n + 3) a b stk) = false := by
  oo_split a b <;> first | rfl | (cases stk <;> rfl)
theorem pushCompareNE_no_loop (n : Nat) (a b : Opnd) (stk : Stack) :
    isOutOfFuel (pushCompareNE (n + 3) a b stk) = false := by
  oo_split a b <;> first | rfl | (cases stk <;> rfl)
theorem pushCompareGE_no_loop (n : Nat) (a b : Opnd) (stk : Stack) :
    isOutOfFuel (pushCompareGE (n + 3) a b stk) = false := by
  oo_split a b <;> first | rfl | (cases stk <;> rfl)
theorem pushCompareGT_no_loop (n : Nat) (a b : Opnd) (stk : Stack) :
    isOutOfFuel (pushCompareGT (n + 3) a b stk) = false := by
  oo_split a b <;> first | rfl | (cases stk <;> rfl)
theorem pushCompareLE_no_loop (n : Nat) (a b : Opnd) (stk : Stack) :
    isOutOfFuel (pushCompareLE (n + 3) a b stk) = false := by
  oo_split a b <;> first | rfl | (cases stk <;> rfl)
theorem pushCompareLT_no_loop (n : Nat) (a b : Opnd) (stk : Stack) :
    isOutOfFuel (pushCompareLT (n + 3) a b stk) = false := by
  oo_split a b <;> first | rfl | (cases stk <;> rfl)

/-- the list of procedures the generator found is the six expected ones -/
theorem procedures_names :
    procedures.map (·.1) =
      ["pushCompareEQ", "pushCompareNE", "pushCompareGE", "pushCompareGT", "pushCompareLE", "pushCompareLT"] := by
  decide

/-- the same fact as a computation, so that a failure can be inspected with
    `#eval looping Gen.OperandOrder.procedures 3` -/
theorem looping_none : looping procedures 3 = [] := by decide

macro "oo_close" hl:ident hr:ident : tactic =>
  `(tactic| first | (simp [litParsed] at $hl:ident; done) | (simp [litParsed] at $hr:ident; done) | exact ⟨_, rfl, rfl⟩)

theorem pushCompareEQ_agrees (n : Nat) (l r : P) (hl : litParsed l = true) (hr : litParsed r = true) (stk : Stack) :
    ∃ t, pushCompareEQ (n + 3) (opndOfP .fst l) (opndOfP .snd r) stk = .ok (t :: stk) ∧
      qOfTag? l r t = some (mkEq l r) := by
  cases l with
  | lit v =>
    cases r with
    | lit w => cases v <;> cases w <;> oo_close hl hr
    | proot ch => cases v <;> oo_close hl hr
    | pcur ch => cases v <;> oo_close hl hr
  | proot ch =>
    cases r with
    | lit w => cases w <;> oo_close hl hr
    | proot ch => oo_close hl hr
    | pcur ch => oo_close hl hr
  | pcur ch =>
    cases r with
    | lit w => cases w <;> oo_close hl hr
    | proot ch => oo_close hl hr
    | pcur ch => oo_close hl hr

theorem pushCompareNE_agrees (n : Nat) (l r : P) (hl : litParsed l = true) (hr : litParsed r = true) (stk : Stack) :
    ∃ t, pushCompareNE (n + 3) (opndOfP .fst l) (opndOfP .snd r) stk = .ok (t :: stk) ∧
      qOfTag? l r t = some (.not (mkEq l r)) := by
  cases l with
  | lit v =>
    cases r with
    | lit w => cases v <;> cases w <;> oo_close hl hr
    | proot ch => cases v <;> oo_close hl hr
    | pcur ch => cases v <;> oo_close hl hr
  | proot ch =>
    cases r with
    | lit w => cases w <;> oo_close hl hr
    | proot ch => oo_close hl hr
    | pcur ch => oo_close hl hr
  | pcur ch =>
    cases r with
    | lit w => cases w <;> oo_close hl hr
    | proot ch => oo_close hl hr
    | pcur ch => oo_close hl hr

theorem pushCompareLT_agrees (n : Nat) (l r : P) (stk : Stack) :
    ∃ t, pushCompareLT (n + 3) (opndOfP .fst l) (opndOfP .snd r) stk = .ok (t :: stk) ∧
      qOfTag? l r t = some (mkOrd .lt l r) := by
  cases l <;> cases r <;> exact ⟨_, rfl, rfl⟩
theorem pushCompareLE_agrees (n : Nat) (l r : P) (stk : Stack) :
    ∃ t, pushCompareLE (n + 3) (opndOfP .fst l) (opndOfP .snd r) stk = .ok (t :: stk) ∧
      qOfTag? l r t = some (mkOrd .le l r) := by
  cases l <;> cases r <;> exact ⟨_, rfl, rfl⟩
theorem pushCompareGT_agrees (n : Nat) (l r : P) (stk : Stack) :
    ∃ t, pushCompareGT (n + 3) (opndOfP .fst l) (opndOfP .snd r) stk = .ok (t :: stk) ∧
      qOfTag? l r t = some (mkOrd .gt l r) := by
  cases l <;> cases r <;> exact ⟨_, rfl, rfl⟩
theorem pushCompareGE_agrees (n : Nat) (l r : P) (stk : Stack) :
    ∃ t, pushCompareGE (n + 3) (opndOfP .fst l) (opndOfP .snd r) stk = .ok (t :: stk) ∧
      qOfTag? l r t = some (mkOrd .ge l r) := by
  cases l <;> cases r <;> exact ⟨_, rfl, rfl⟩

/-- what `pushCompareEQ` does with a literal of a type it has no `case` for (its type switch has
    no `default`): nothing is pushed. Not reachable from the grammar — recorded, not relied upon. -/
theorem pushCompareEQ_other (n : Nat) (a : Opnd) (il : Bool) (s : Side) (stk : Stack) :
    pushCompareEQ (n + 3) a ⟨.literal .other, il, s⟩ stk = .ok stk ∨
    ∃ t, pushCompareEQ (n + 3) a ⟨.literal .other, il, s⟩ stk = .ok (t :: stk) := by
  rcases a with ⟨(_|_|_|_|_)|_|_, _|_, sa⟩ <;> cases il <;>
    first | exact .inl rfl | exact .inr ⟨_, rfl⟩

end OperandOrder

end Ties
end JPV
