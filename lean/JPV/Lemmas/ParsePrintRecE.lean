/-
ParsePrintRecE — recogniser lemmas, part E (the filter part, non-recursive): literals, operands,
`comparator`, `basicQuery`, the `&&` / `||` loops in continuation style, `filter`, and the bracket of
a filter step. The structural recursion that ties them together is in ParsePrintRecF.
-/
import JPV.Lemmas.ParsePrintRecD
namespace JPV.PP
open JPV.Peg JPV.Print JPV.Lex

variable {inp : Array Char}

/-- arithmetic on lengths of concatenations (also when `simp` already closes the goal) -/
macro "len_omega2" : tactic =>
  `(tactic| (first | omega | (simp only [List.length_append, List.length_cons, List.length_nil] <;> omega)))

/-! ### character classes -/

/-- `[-+.0-9a-zA-Z]` -/
def isLNumChar (c : Char) : Bool :=
  inRanges c [(Char.ofNat 45, Char.ofNat 45), (Char.ofNat 43, Char.ofNat 43), (Char.ofNat 46, Char.ofNat 46),
    (Char.ofNat 48, Char.ofNat 57), (Char.ofNat 97, Char.ofNat 122), (Char.ofNat 65, Char.ofNat 90)]

theorem isLNumChar_of_digit (c : Char) (h : isDigit c = true) : isLNumChar c = true := by
  simp only [isLNumChar, inRanges, isDigit] at *
  generalize c.toNat = n at *
  simp at *
  omega

theorem isEndChar_cases (c : Char) (h : isEndChar c = true) :
    c = ')' ∨ c = '=' ∨ c = '!' ∨ c = '<' ∨ c = '>' ∨ c = '&' ∨ c = '|' := by
  simpa [isEndChar, or_assoc] using h

theorem isLNumChar_of_end (c : Char) (h : isEndChar c = true) : isLNumChar c = false := by
  rcases isEndChar_cases c h with rfl | rfl | rfl | rfl | rfl | rfl | rfl <;> decide

theorem PathStop.noLNum {r : List Char} (h : PathStop r) : startsWith isLNumChar r = false := by
  rcases h with h | h
  · subst h; rfl
  · exact startsWith_false_of_true isLNumChar_of_end h

/-- a property of the first character that holds for all end characters -/
theorem PathStop.first {r : List Char} (h : PathStop r) (P : Char → Bool) (b : Bool)
    (h1 : P ')' = b) (h2 : P '=' = b) (h3 : P '!' = b) (h4 : P '<' = b) (h5 : P '>' = b)
    (h6 : P '&' = b) (h7 : P '|' = b) (hnil : b = false) : startsWith P r = b := by
  rcases h with h | h
  · subst h; subst hnil; rfl
  · cases r with
    | nil => cases h
    | cons c r' =>
      rcases isEndChar_cases c h with rfl | rfl | rfl | rfl | rfl | rfl | rfl <;> assumption

/-! ### `lNumber` -/

theorem lNumber_body : ruleBody Gen.grammar "lNumber" =
    .seq (.cap (.seq (.opt (.cls false [(Char.ofNat 45, Char.ofNat 45), (Char.ofNat 43, Char.ofNat 43)]))
      (.seq (.cls false [(Char.ofNat 48, Char.ofNat 57)])
        (.star (.cls false [(Char.ofNat 45, Char.ofNat 45), (Char.ofNat 43, Char.ofNat 43), (Char.ofNat 46, Char.ofNat 46),
          (Char.ofNat 48, Char.ofNat 57), (Char.ofNat 97, Char.ofNat 122), (Char.ofNat 65, Char.ofNat 90)]))))) (.act 40) := rfl

/-- a non-empty run of digits in front of something that ends a number -/
theorem acc_lnum_digits (ds : List Char) (hne : ds ≠ []) (hd : ∀ c ∈ ds, isDigit c = true) {p : Nat} {r : List Char}
    (h : Sfx inp p (ds ++ r)) (hr : startsWith isLNumChar r = false) :
    Acc (4 + 32 * ds.length) (.seq (.cls false [(Char.ofNat 48, Char.ofNat 57)])
        (.star (.cls false [(Char.ofNat 45, Char.ofNat 45), (Char.ofNat 43, Char.ofNat 43), (Char.ofNat 46, Char.ofNat 46),
          (Char.ofNat 48, Char.ofNat 57), (Char.ofNat 97, Char.ofNat 122), (Char.ofNat 65, Char.ofNat 90)])))
      inp p (p + ds.length) [] := by
  cases ds with
  | nil => exact absurd rfl hne
  | cons d ds =>
    have h1 : Acc 1 (.cls false [(Char.ofNat 48, Char.ofNat 57)]) inp p (p + 1) [] :=
      acc_cls false _ h (by rw [inRanges_digit, hd d (by simp)]; rfl)
    have h2 := acc_star_cls _ isLNumChar (fun _ => rfl) ds
      (fun c hc => isLNumChar_of_digit c (hd c (by simp [hc]))) h.tail hr
    refine ((Acc.seq h1 h2).mono ?_).cast ?_ rfl
    · simp only [List.length_cons]; omega
    · simp only [List.length_cons]; omega

theorem acc_lNumber (n : Int) {p : Nat} {r : List Char} (h : Sfx inp p (intText n ++ r))
    (hr : startsWith isLNumChar r = false) :
    Acc (10 + 32 * (intText n).length) (.rule "lNumber") inp p (p + (intText n).length)
      [.text p (p + (intText n).length), .action 40] := by
  suffices hb : Acc (6 + 32 * (intText n).length)
      (.seq (.opt (.cls false [(Char.ofNat 45, Char.ofNat 45), (Char.ofNat 43, Char.ofNat 43)]))
      (.seq (.cls false [(Char.ofNat 48, Char.ofNat 57)])
        (.star (.cls false [(Char.ofNat 45, Char.ofNat 45), (Char.ofNat 43, Char.ofNat 43), (Char.ofNat 46, Char.ofNat 46),
          (Char.ofNat 48, Char.ofNat 57), (Char.ofNat 97, Char.ofNat 122), (Char.ofNat 65, Char.ofNat 90)]))))
      inp p (p + (intText n).length) [] from
    ((Acc.rule "lNumber" lNumber_body (Acc.seq (Acc.cap hb) (acc_act 40 _))).mono (by omega)).cast rfl rfl
  cases n with
  | ofNat n =>
    simp only [intText] at h ⊢
    have hne := natDigits_ne_nil n
    have hds := natDigits_digits n
    have h0 : Rej 1 (.cls false [(Char.ofNat 45, Char.ofNat 45), (Char.ofNat 43, Char.ofNat 43)]) inp p := by
      refine rej_cls_of false _ h ?_
      cases hx : natDigits n with
      | nil => exact absurd hx hne
      | cons c l =>
        rw [hx] at hds
        have hc := hds c (by simp)
        simp only [List.cons_append, startsWith, inRanges_pm]
        have : isSignChar c = false := not_sign_of_digit c hc
        rw [this]; rfl
    have h1 := acc_lnum_digits (natDigits n) hne hds h hr
    exact ((Acc.seq (Acc.opt_none h0) h1).mono (by omega)).cast (by omega) rfl
  | negSucc n =>
    simp only [intText] at h ⊢
    have h0 : Acc 1 (.cls false [(Char.ofNat 45, Char.ofNat 45), (Char.ofNat 43, Char.ofNat 43)]) inp p (p + 1) [] :=
      acc_cls false _ h (by rw [inRanges_pm]; rfl)
    have h1 := acc_lnum_digits (natDigits (n + 1)) (natDigits_ne_nil _) (natDigits_digits _) h.tail hr
    refine ((Acc.seq (Acc.opt_some h0) h1).mono ?_).cast ?_ rfl
    · simp only [List.length_cons]; omega
    · simp only [List.length_cons]; omega

theorem rej_lNumber {p : Nat} {l : List Char} (h : Sfx inp p l) (hl : startsWith isNumStart l = false) :
    Rej 6 (.rule "lNumber") inp p := by
  have h0 : Rej 1 (.cls false [(Char.ofNat 45, Char.ofNat 45), (Char.ofNat 43, Char.ofNat 43)]) inp p := by
    refine rej_cls_of false _ h (startsWith_false_of_imp ?_ hl)
    intro c hc
    simp only [inRanges_pm, bne_iff_ne, ne_eq, Bool.not_eq_false] at hc
    simp [isNumStart, hc]
  have h1 : Rej 1 (.cls false [(Char.ofNat 48, Char.ofNat 57)]) inp p := by
    refine rej_cls_of false _ h (startsWith_false_of_imp ?_ hl)
    intro c hc
    simp only [inRanges_digit, bne_iff_ne, ne_eq, Bool.not_eq_false] at hc
    simp [isNumStart, hc]
  exact (Rej.rule "lNumber" lNumber_body (Rej.seq_l _ (Rej.cap
    (Rej.seq_r (Acc.opt_none h0) (Rej.seq_l _ h1))))).mono (by omega)

/-! ### `lBool`, `lNull` -/

theorem lBool_body : ruleBody Gen.grammar "lBool" =
    .alt (.seq (.alt (.lit "true") (.alt (.lit "True") (.lit "TRUE"))) (.act 41))
      (.seq (.alt (.lit "false") (.alt (.lit "False") (.lit "FALSE"))) (.act 42)) := rfl

theorem lNull_body : ruleBody Gen.grammar "lNull" =
    .seq (.alt (.lit "null") (.alt (.lit "Null") (.lit "NULL"))) (.act 45) := rfl

theorem acc_lBool_true {p : Nat} {r : List Char} (h : Sfx inp p ('t' :: 'r' :: 'u' :: 'e' :: r)) :
    Acc 5 (.rule "lBool") inp p (p + 4) [.action 41] :=
  ((Acc.rule "lBool" lBool_body (Acc.alt_l _ (Acc.seq (Acc.alt_l _
    (acc_lit "true" ['t', 'r', 'u', 'e'] rfl (r := r) h)) (acc_act 41 _)))).mono (by omega)).cast rfl rfl

theorem rej_true3 {p : Nat} {l : List Char} (h : Sfx inp p l)
    (hl : startsWith (fun c => c == 't' || c == 'T') l = false) :
    Rej 3 (.alt (.lit "true") (.alt (.lit "True") (.lit "TRUE"))) inp p :=
  (Rej.alt (rej_lit1 "true" 't' _ rfl h (startsWith_false_of_imp (by intro c hc; simp at hc; simp [hc]) hl))
    (Rej.alt (rej_lit1 "True" 'T' _ rfl h (startsWith_false_of_imp (by intro c hc; simp at hc; simp [hc]) hl))
      (rej_lit1 "TRUE" 'T' _ rfl h (startsWith_false_of_imp (by intro c hc; simp at hc; simp [hc]) hl)))).mono
    (by omega)

theorem rej_false3 {p : Nat} {l : List Char} (h : Sfx inp p l)
    (hl : startsWith (fun c => c == 'f' || c == 'F') l = false) :
    Rej 3 (.alt (.lit "false") (.alt (.lit "False") (.lit "FALSE"))) inp p :=
  (Rej.alt (rej_lit1 "false" 'f' _ rfl h (startsWith_false_of_imp (by intro c hc; simp at hc; simp [hc]) hl))
    (Rej.alt (rej_lit1 "False" 'F' _ rfl h (startsWith_false_of_imp (by intro c hc; simp at hc; simp [hc]) hl))
      (rej_lit1 "FALSE" 'F' _ rfl h (startsWith_false_of_imp (by intro c hc; simp at hc; simp [hc]) hl)))).mono
    (by omega)

theorem acc_lBool_false {p : Nat} {r : List Char} (h : Sfx inp p ('f' :: 'a' :: 'l' :: 's' :: 'e' :: r)) :
    Acc 7 (.rule "lBool") inp p (p + 5) [.action 42] :=
  ((Acc.rule "lBool" lBool_body (Acc.alt_r (Rej.seq_l _ (rej_true3 h rfl)) (Acc.seq (Acc.alt_l _
    (acc_lit "false" ['f', 'a', 'l', 's', 'e'] rfl (r := r) h)) (acc_act 42 _)))).mono (by omega)).cast rfl rfl

theorem rej_lBool {p : Nat} {l : List Char} (h : Sfx inp p l)
    (hl : startsWith (fun c => c == 't' || c == 'T' || c == 'f' || c == 'F') l = false) :
    Rej 6 (.rule "lBool") inp p :=
  (Rej.rule "lBool" lBool_body (Rej.alt
    (Rej.seq_l _ (rej_true3 h (startsWith_false_of_imp (by intro c hc; simp at hc; rcases hc with rfl | rfl <;> simp) hl)))
    (Rej.seq_l _ (rej_false3 h (startsWith_false_of_imp (by intro c hc; simp at hc; rcases hc with rfl | rfl <;> simp) hl))))).mono
    (by omega)

theorem acc_lNull {p : Nat} {r : List Char} (h : Sfx inp p ('n' :: 'u' :: 'l' :: 'l' :: r)) :
    Acc 4 (.rule "lNull") inp p (p + 4) [.action 45] :=
  ((Acc.rule "lNull" lNull_body (Acc.seq (Acc.alt_l _
    (acc_lit "null" ['n', 'u', 'l', 'l'] rfl (r := r) h)) (acc_act 45 _))).mono (by omega)).cast rfl rfl

theorem rej_lNull {p : Nat} {l : List Char} (h : Sfx inp p l)
    (hl : startsWith (fun c => c == 'n' || c == 'N') l = false) :
    Rej 5 (.rule "lNull") inp p :=
  (Rej.rule "lNull" lNull_body (Rej.seq_l _
    (Rej.alt (rej_lit1 "null" 'n' _ rfl h (startsWith_false_of_imp (by intro c hc; simp at hc; simp [hc]) hl))
    (Rej.alt (rej_lit1 "Null" 'N' _ rfl h (startsWith_false_of_imp (by intro c hc; simp at hc; simp [hc]) hl))
      (rej_lit1 "NULL" 'N' _ rfl h (startsWith_false_of_imp (by intro c hc; simp at hc; simp [hc]) hl)))))).mono
    (by omega)

/-! ### `lString` -/

def strItem : PE :=
  .alt (.seq (.lit "\\") (.cls false [(Char.ofNat 92, Char.ofNat 92), (Char.ofNat 39, Char.ofNat 39)]))
    (.cls true [(Char.ofNat 39, Char.ofNat 39)])

theorem lString_body : ruleBody Gen.grammar "lString" =
    .alt (.seq (.lit "'") (.seq (.cap (.star strItem)) (.seq (.lit "'") (.act 43))))
      (.seq (.lit "\"") (.seq (.cap (.star (.alt (.seq (.lit "\\")
        (.cls false [(Char.ofNat 92, Char.ofNat 92), (Char.ofNat 34, Char.ofNat 34)]))
        (.cls true [(Char.ofNat 34, Char.ofNat 34)])))) (.seq (.lit "\"") (.act 44)))) := rfl

theorem escLit_eq_flat (s : List Char) : escLit s = flat escLitChar s := by
  induction s with
  | nil => rfl
  | cons c s ih =>
    have : escLit (c :: s) = escLitChar c ++ escLit s := by simp [escLit]
    rw [this, ih]; rfl

theorem toksStar_nil {α : Type} (pr : α → List Char) (xs : List α) :
    ∀ p, toksStar pr (fun _ _ => []) xs p = [] := by
  induction xs with
  | nil => intro p; rfl
  | cons x xs ih => intro p; simp [toksStar, ih]

theorem inRanges_one (c : Char) (n : Nat) (hn : (Char.ofNat n).toNat = n) :
    inRanges c [(Char.ofNat n, Char.ofNat n)] = (c == Char.ofNat n) := by
  simp only [inRanges, Bool.or_false, hn]
  rw [Bool.eq_iff_iff]
  simp only [Bool.and_eq_true, decide_eq_true_eq, beq_iff_eq, ← Char.toNat_inj, hn]
  omega

theorem inRanges_two (c : Char) (n m : Nat) (hn : (Char.ofNat n).toNat = n) (hm : (Char.ofNat m).toNat = m) :
    inRanges c [(Char.ofNat n, Char.ofNat n), (Char.ofNat m, Char.ofNat m)] =
      (c == Char.ofNat n || c == Char.ofNat m) := by
  simp only [inRanges, Bool.or_false, hn, hm]
  rw [Bool.eq_iff_iff]
  simp only [Bool.or_eq_true, Bool.and_eq_true, decide_eq_true_eq, beq_iff_eq, ← Char.toNat_inj, hn, hm]
  omega

/-- the loop of `lString` over the escaped body, in front of the closing quote -/
theorem acc_str_loop (s : List Char) {p : Nat} {r : List Char} (h : Sfx inp p (escLit s ++ '\'' :: r)) :
    Acc (5 + 32 * (escLit s).length) (.star strItem) inp p (p + (escLit s).length) [] := by
  rw [escLit_eq_flat] at h ⊢
  refine ((acc_star_items (inp := inp) strItem escLitChar (fun _ _ => []) (fun _ => True) (fun _ => True)
    4 3 ('\'' :: r) trivial ?_ ?_ ?_ ?_ s p (fun _ _ => trivial) h).mono (by omega)).cast rfl (toksStar_nil _ _ _)
  · intro _ _ _; trivial
  · intro c _; unfold escLitChar; split <;> simp
  · intro c r' pos _ _ hs
    by_cases hc : c = '\'' ∨ c = '\\'
    · simp only [escLitChar, if_pos hc, List.cons_append, List.nil_append] at hs ⊢
      have a1 := acc_lit1 "\\" '\\' rfl hs
      have a2 : Acc 1 (.cls false [(Char.ofNat 92, Char.ofNat 92), (Char.ofNat 39, Char.ofNat 39)]) inp
          (pos + 1) (pos + 1 + 1) [] := by
        refine acc_cls false _ hs.tail ?_
        rw [inRanges_two c 92 39 (by decide) (by decide)]
        rcases hc with rfl | rfl <;> decide
      exact ((Acc.alt_l _ (Acc.seq a1 a2)).mono (by simp)).cast (by simp) rfl
    · have hc1 : c ≠ '\'' := fun h => hc (.inl h)
      have hc2 : c ≠ '\\' := fun h => hc (.inr h)
      simp only [escLitChar, if_neg hc, List.cons_append, List.nil_append] at hs ⊢
      have r1 := rej_lit1 "\\" '\\' [] rfl hs (by simp [startsWith, hc2])
      have a2 : Acc 1 (.cls true [(Char.ofNat 39, Char.ofNat 39)]) inp pos (pos + 1) [] := by
        refine acc_cls true _ hs ?_
        rw [inRanges_one c 39 (by decide)]
        have : (c == Char.ofNat 39) = false := by simpa using hc1
        rw [this]; rfl
      exact ((Acc.alt_r (Rej.seq_l _ r1) a2).mono (by simp)).cast (by simp) rfl
  · intro pos hs
    have r1 := rej_lit1 "\\" '\\' [] rfl hs rfl
    have r2 : Rej 1 (.cls true [(Char.ofNat 39, Char.ofNat 39)]) inp pos := rej_cls true _ hs (by decide)
    exact (Rej.alt (Rej.seq_l _ r1) r2).mono (by omega)

theorem acc_lString (s : List Char) {p : Nat} {r : List Char}
    (h : Sfx inp p ('\'' :: (escLit s ++ '\'' :: r))) :
    Acc (12 + 32 * (escLit s).length) (.rule "lString") inp p (p + 1 + (escLit s).length + 1)
      [.text (p + 1) (p + 1 + (escLit s).length), .action 43] := by
  have a1 := acc_lit1 "'" '\'' rfl h
  have a2 := acc_str_loop s h.tail
  have a3 := acc_lit1 "'" '\'' rfl h.tail.append
  exact ((Acc.rule "lString" lString_body (Acc.alt_l _ (Acc.seq a1 (Acc.seq (Acc.cap a2)
    (Acc.seq a3 (acc_act 43 _)))))).mono (by omega)).cast rfl (by simp)

theorem rej_lString {p : Nat} {l : List Char} (h : Sfx inp p l)
    (hl : startsWith (fun c => c == '\'' || c == '"') l = false) : Rej 4 (.rule "lString") inp p :=
  (Rej.rule "lString" lString_body (Rej.alt
    (Rej.seq_l _ (rej_lit1 "'" '\'' [] rfl h (startsWith_false_of_imp (by intro c hc; simp at hc; simp [hc]) hl)))
    (Rej.seq_l _ (rej_lit1 "\"" '"' [] rfl h (startsWith_false_of_imp (by intro c hc; simp at hc; simp [hc]) hl))))).mono
    (by omega)

/-! ### `qLiteral` -/

theorem qLiteral_body : ruleBody Gen.grammar "qLiteral" =
    .alt (.rule "lNumber") (.alt (.rule "lBool") (.alt (.rule "lString") (.rule "lNull"))) := rfl

/-- what a literal can start with (as far as the grammar looks) -/
def isLitStart (c : Char) : Bool :=
  isNumStart c || c == 't' || c == 'T' || c == 'f' || c == 'F' || c == '\'' || c == '"' || c == 'n' || c == 'N'

theorem rej_qLiteral {p : Nat} {l : List Char} (h : Sfx inp p l) (hl : startsWith isLitStart l = false) :
    Rej 10 (.rule "qLiteral") inp p :=
  (Rej.rule "qLiteral" qLiteral_body
    (Rej.alt (rej_lNumber h (startsWith_false_of_imp (by intro c hc; simp [isLitStart, hc]) hl))
    (Rej.alt (rej_lBool h (startsWith_false_of_imp
      (by intro c hc; simp at hc; rcases hc with ((rfl | rfl) | rfl) | rfl <;> decide) hl))
    (Rej.alt (rej_lString h (startsWith_false_of_imp
      (by intro c hc; simp at hc; rcases hc with rfl | rfl <;> decide) hl))
      (rej_lNull h (startsWith_false_of_imp
      (by intro c hc; simp at hc; rcases hc with rfl | rfl <;> decide) hl)))))).mono (by omega)

theorem acc_qLiteral (l : Lit) {p : Nat} {r : List Char} (h : Sfx inp p (litText l ++ r)) (hr : PathStop r) :
    Acc (16 + 32 * (litText l).length) (.rule "qLiteral") inp p (p + (litText l).length) (tkLit p l) := by
  refine (Acc.rule "qLiteral" qLiteral_body (Fa := 15 + 32 * (litText l).length) ?_).mono (by omega)
  cases l with
  | num n =>
    simp only [litText] at h ⊢
    exact (Acc.alt_l _ (acc_lNumber n h hr.noLNum)).mono (by omega)
  | bool b =>
    cases b with
    | true =>
      simp only [litText, List.cons_append, List.nil_append] at h ⊢
      exact ((Acc.alt_r (rej_lNumber h rfl) (Acc.alt_l _ (acc_lBool_true h))).mono (by simp)).cast rfl rfl
    | false =>
      simp only [litText, List.cons_append, List.nil_append] at h ⊢
      exact ((Acc.alt_r (rej_lNumber h rfl) (Acc.alt_l _ (acc_lBool_false h))).mono (by simp)).cast rfl rfl
  | str s =>
    simp only [litText, List.cons_append, List.append_assoc, List.nil_append] at h ⊢
    refine ((Acc.alt_r (rej_lNumber h rfl) (Acc.alt_r (rej_lBool h rfl)
      (Acc.alt_l _ (acc_lString s.toList h)))).mono ?_).cast ?_ rfl
    · len_omega
    · len_omega
  | null =>
    simp only [litText, List.cons_append, List.nil_append] at h ⊢
    exact ((Acc.alt_r (rej_lNumber h rfl) (Acc.alt_r (rej_lBool h rfl)
      (Acc.alt_r (rej_lString h rfl) (acc_lNull h)))).mono (by simp)).cast rfl rfl

/-- a literal starts with a literal-start character, never with a blank, `=`, `$`, `@` … -/
theorem startsWith_litText (P : Char → Bool) (b : Bool) (hP : ∀ c, isLitStart c = true → P c = b)
    (l : Lit) (r : List Char) : startsWith P (litText l ++ r) = b := by
  cases l with
  | num n =>
    exact startsWith_intText P b (fun c hc => hP c (by simp [isLitStart, isNumStart, hc])) (hP '-' (by decide)) n r
  | bool b' => cases b' <;> exact hP _ (by decide)
  | str s => exact hP _ (by decide)
  | null => exact hP _ (by decide)

/-! ### paths as operands: `jsonpathFilter`, `singleJsonpathFilter` -/

/-- what the operand lemmas need to know about a path: it is well formed and the brackets of its
    filter steps are accepted -/
def PathHyp (inp : Array Char) : Path → Prop
  | .mk hd ss fns => pathWf (.mk hd ss fns) = true ∧ ∀ s ∈ ss, FilterHyp inp s

def OpHyp (inp : Array Char) : Operand → Prop
  | .lit _ => True
  | .path q => PathHyp inp q

theorem jsonpathFilter_body : ruleBody Gen.grammar "jsonpathFilter" =
    .seq (.act 38) (.seq (.rule "jsonpathParameter") (.act 39)) := rfl
theorem sjf_body : ruleBody Gen.grammar "singleJsonpathFilter" =
    .seq (.cap (.rule "jsonpathFilter")) (.act 37) := rfl

/-- the tokens of `singleJsonpathFilter` -/
def tkSJF (p : Nat) (q : Path) : List Tok :=
  .action 38 :: (tkPath p q ++ [.action 39, .text p (p + (path q).length), .action 37])

theorem acc_jsonpathFilter (q : Path) (hq : PathHyp inp q) {p : Nat} {r : List Char}
    (h : Sfx inp p (path q ++ r)) (hr : PathStop r) :
    Acc (118 + 32 * (path q).length) (.rule "jsonpathFilter") inp p (p + (path q).length)
      (.action 38 :: (tkPath p q ++ [.action 39])) := by
  cases q with
  | mk hd ss fns =>
    have a1 := acc_jsonpathParameter hd ss fns hq.1 hq.2 h hr
    exact ((Acc.rule "jsonpathFilter" jsonpathFilter_body
      (Acc.seq (acc_act 38 _) (Acc.seq a1 (acc_act 39 _)))).mono (by omega)).cast rfl (by simp)

theorem acc_sjf (q : Path) (hq : PathHyp inp q) {p : Nat} {r : List Char}
    (h : Sfx inp p (path q ++ r)) (hr : PathStop r) :
    Acc (121 + 32 * (path q).length) (.rule "singleJsonpathFilter") inp p (p + (path q).length) (tkSJF p q) :=
  ((Acc.rule "singleJsonpathFilter" sjf_body
    (Acc.seq (Acc.cap (acc_jsonpathFilter q hq h hr)) (acc_act 37 _))).mono (by omega)).cast rfl (by simp [tkSJF])

/-- what a path operand can start with (including the blanks `jsonpathParameter` skips) -/
def isPathStart (c : Char) : Bool := c == ' ' || c == '$' || c == '@'

theorem rej_jsonpathFilter {p : Nat} {l : List Char} (h : Sfx inp p l) (hl : startsWith isPathStart l = false) :
    Rej 11 (.rule "jsonpathFilter") inp p := by
  have r1 : Rej 3 (.rule "rootIdentifier") inp p :=
    Rej.rule "rootIdentifier" rootId_body (Rej.seq_l _ (rej_lit1 "$" '$' [] rfl h
      (startsWith_false_of_imp (by intro c hc; simp at hc; simp [isPathStart, hc]) hl)))
  have r2 : Rej 3 (.rule "currentRootIdentifier") inp p :=
    Rej.rule "currentRootIdentifier" curId_body (Rej.seq_l _ (rej_lit1 "@" '@' [] rfl h
      (startsWith_false_of_imp (by intro c hc; simp at hc; simp [isPathStart, hc]) hl)))
  have a0 := acc_space h (noSp_of (P := isPathStart) rfl hl)
  exact (Rej.rule "jsonpathFilter" jsonpathFilter_body (Rej.seq_r (acc_act 38 _) (Rej.seq_l _
    (Rej.rule "jsonpathParameter" jsonpathParameter_body (Rej.seq_r a0 (Rej.seq_l _
      (Rej.rule "parameterRootNode" parameterRootNode_body (Rej.alt r1 r2)))))))).mono (by omega)

theorem rej_sjf {p : Nat} {l : List Char} (h : Sfx inp p l) (hl : startsWith isPathStart l = false) :
    Rej 14 (.rule "singleJsonpathFilter") inp p :=
  (Rej.rule "singleJsonpathFilter" sjf_body (Rej.seq_l _ (Rej.cap (rej_jsonpathFilter h hl)))).mono (by omega)

theorem path_cons (q : Path) : ∃ hd l, path q = headChar hd :: l := by
  cases q with
  | mk hd ss fns => exact ⟨hd, _, rfl⟩

theorem startsWith_path (P : Char → Bool) (b : Bool) (h1 : P '$' = b) (h2 : P '@' = b)
    (q : Path) (r : List Char) : startsWith P (path q ++ r) = b := by
  obtain ⟨hd, l, hq⟩ := path_cons q
  rw [hq]
  cases hd
  · exact h1
  · exact h2

theorem path_length_pos (q : Path) : 1 ≤ (path q).length := by
  obtain ⟨hd, l, hq⟩ := path_cons q
  rw [hq]; simp

theorem startsWith_operand (P : Char → Bool) (b : Bool) (hP : ∀ c, isLitStart c = true → P c = b)
    (h1 : P '$' = b) (h2 : P '@' = b) (o : Operand) (r : List Char) : startsWith P (operand o ++ r) = b := by
  cases o with
  | lit l => exact startsWith_litText P b hP l r
  | path q => exact startsWith_path P b h1 h2 q r

theorem isLitStart_cases (c : Char) (h : isLitStart c = true) :
    isDigit c = true ∨ c = '-' ∨ c = '+' ∨ c = 't' ∨ c = 'T' ∨ c = 'f' ∨ c = 'F' ∨ c = '\'' ∨ c = '"' ∨
      c = 'n' ∨ c = 'N' := by
  simpa [isLitStart, isNumStart, isSignChar, or_assoc] using h

/-- a property of the first character of an operand that fails for every possible first character -/
theorem operand_first_not (P : Char → Bool) (hd : ∀ c, isDigit c = true → P c = false)
    (h : P '-' = false ∧ P '+' = false ∧ P 't' = false ∧ P 'T' = false ∧ P 'f' = false ∧ P 'F' = false ∧
      P '\'' = false ∧ P '"' = false ∧ P 'n' = false ∧ P 'N' = false ∧ P '$' = false ∧ P '@' = false)
    (o : Operand) (r : List Char) : startsWith P (operand o ++ r) = false := by
  refine startsWith_operand P false ?_ h.2.2.2.2.2.2.2.2.2.2.1 h.2.2.2.2.2.2.2.2.2.2.2 o r
  intro c hc
  rcases isLitStart_cases c hc with hc | rfl | rfl | rfl | rfl | rfl | rfl | rfl | rfl | rfl | rfl
  · exact hd c hc
  all_goals simp only [h]

theorem noSp_operand (o : Operand) (r : List Char) : NoSp (operand o ++ r) := by
  rw [noSp_iff]
  exact operand_first_not _ (by intro c hc; simp; intro h; subst h; revert hc; decide) (by decide) o r

theorem operand_length_pos (o : Operand) : 1 ≤ (operand o).length := by
  have := startsWith_operand (fun _ => true) true (fun _ _ => rfl) rfl rfl o []
  cases hx : operand o with
  | nil => rw [hx] at this; cases this
  | cons c l => simp

/-! ### `qParam`, `qNumericParam` -/

theorem qParam_body : ruleBody Gen.grammar "qParam" =
    .alt (.seq (.rule "qLiteral") (.act 35)) (.rule "singleJsonpathFilter") := rfl
theorem qNumericParam_body : ruleBody Gen.grammar "qNumericParam" =
    .alt (.seq (.rule "lNumber") (.act 36)) (.rule "singleJsonpathFilter") := rfl

theorem acc_qParam (o : Operand) (ho : OpHyp inp o) {p : Nat} {r : List Char}
    (h : Sfx inp p (operand o ++ r)) (hr : PathStop r) :
    Acc (123 + 32 * (operand o).length) (.rule "qParam") inp p (p + (operand o).length) (tkOperand false p o) := by
  cases o with
  | lit l =>
    simp only [operand] at h ⊢
    exact ((Acc.rule "qParam" qParam_body (Acc.alt_l _ (Acc.seq (acc_qLiteral l h hr) (acc_act 35 _)))).mono
      (by omega)).cast rfl (by simp [tkOperand])
  | path q =>
    simp only [operand] at h ⊢
    have r1 := rej_qLiteral h (startsWith_path _ false (by decide) (by decide) q r)
    exact ((Acc.rule "qParam" qParam_body (Acc.alt_r (Rej.seq_l _ r1) (acc_sjf q ho h hr))).mono
      (by omega)).cast rfl (by simp [tkOperand, tkSJF])

theorem acc_qNumericParam (o : Operand) (ho : OpHyp inp o) (hwf : operandWf true o = true) {p : Nat} {r : List Char}
    (h : Sfx inp p (operand o ++ r)) (hr : PathStop r) :
    Acc (123 + 32 * (operand o).length) (.rule "qNumericParam") inp p (p + (operand o).length)
      (tkOperand true p o) := by
  cases o with
  | lit l =>
    cases l with
    | num n =>
      simp only [operand, litText] at h ⊢
      exact ((Acc.rule "qNumericParam" qNumericParam_body
        (Acc.alt_l _ (Acc.seq (acc_lNumber n h hr.noLNum) (acc_act 36 _)))).mono
        (by omega)).cast rfl (by simp [tkOperand, tkLit])
    | bool b => simp [operandWf, isNumLit] at hwf
    | str s => simp [operandWf, isNumLit] at hwf
    | null => simp [operandWf, isNumLit] at hwf
  | path q =>
    simp only [operand] at h ⊢
    have r1 := rej_lNumber h (startsWith_path _ false (by decide) (by decide) q r)
    exact ((Acc.rule "qNumericParam" qNumericParam_body (Acc.alt_r (Rej.seq_l _ r1) (acc_sjf q ho h hr))).mono
      (by omega)).cast rfl (by simp [tkOperand, tkSJF])

/-- neither a literal nor a path starts here -/
def isOperandStart (c : Char) : Bool := isLitStart c || isPathStart c

theorem rej_qParam {p : Nat} {l : List Char} (h : Sfx inp p l) (hl : startsWith isOperandStart l = false) :
    Rej 16 (.rule "qParam") inp p :=
  (Rej.rule "qParam" qParam_body (Rej.alt
    (Rej.seq_l _ (rej_qLiteral h (startsWith_false_of_imp (by intro c hc; simp [isOperandStart, hc]) hl)))
    (rej_sjf h (startsWith_false_of_imp (by intro c hc; simp [isOperandStart, hc]) hl)))).mono (by omega)

theorem rej_qNumericParam {p : Nat} {l : List Char} (h : Sfx inp p l) (hl : startsWith isOperandStart l = false) :
    Rej 16 (.rule "qNumericParam") inp p :=
  (Rej.rule "qNumericParam" qNumericParam_body (Rej.alt
    (Rej.seq_l _ (rej_lNumber h (startsWith_false_of_imp
      (by intro c hc; simp [isOperandStart, isLitStart, hc]) hl)))
    (rej_sjf h (startsWith_false_of_imp (by intro c hc; simp [isOperandStart, hc]) hl)))).mono (by omega)

/-! ### `comparator` -/

/-- `'op' space param {i}` -/
def opRhs (s : String) (par : String) (i : Nat) : PE :=
  .seq (.lit s) (.seq (.rule "space") (.seq (.rule par) (.act i)))

def cmpEq : PE := .alt (opRhs "==" "qParam" 28) (opRhs "!=" "qParam" 29)
def cmpOrd : PE :=
  .alt (opRhs "<=" "qNumericParam" 30) (.alt (opRhs "<" "qNumericParam" 31)
    (.alt (opRhs ">=" "qNumericParam" 32) (opRhs ">" "qNumericParam" 33)))
def cmpAlt1 : PE := .seq (.rule "qParam") (.seq (.rule "space") cmpEq)
def cmpAlt2 : PE := .seq (.rule "qNumericParam") (.seq (.rule "space") cmpOrd)
def cmpAlt3 : PE :=
  .seq (.rule "singleJsonpathFilter") (.seq (.rule "space") (.seq (.lit "=~") (.seq (.rule "space")
    (.seq (.lit "/") (.seq (.cap (.rule "regex")) (.seq (.lit "/") (.act 34)))))))

theorem comparator_body : ruleBody Gen.grammar "comparator" = .alt cmpAlt1 (.alt cmpAlt2 cmpAlt3) := rfl

theorem acc_opRhs (s : String) (cs : List Char) (hs : s.toList = cs) (par : String) (i : Nat) {F : Nat}
    {p : Nat} {body rest : List Char} {T : List Tok}
    (h : Sfx inp p (cs ++ (body ++ rest))) (hsp : NoSp (body ++ rest)) (hF : 3 ≤ F)
    (ha : Acc F (.rule par) inp (p + cs.length) (p + cs.length + body.length) T) :
    Acc (F + 3) (opRhs s par i) inp p (p + cs.length + body.length) (T ++ [.action i]) :=
  ((Acc.seq (acc_lit s cs hs h) (Acc.seq (acc_space h.append hsp) (Acc.seq ha (acc_act i _)))).mono
    (by omega)).cast rfl (by simp)

theorem rej_opRhs (s : String) (cs : List Char) (hs : s.toList = cs) (par : String) (i : Nat)
    {p : Nat} {l : List Char} (h : Sfx inp p l) (hn : cs.isPrefixOf l = false) :
    Rej 2 (opRhs s par i) inp p :=
  Rej.seq_l _ (rej_lit s cs hs h hn)

theorem not_prefix2 (a b : Char) {l : List Char} (h : startsWith (fun d => d == b) l = false) :
    [a, b].isPrefixOf (a :: l) = false := by
  have := not_prefix_of_startsWith b [] h
  simp only [List.isPrefixOf, this, Bool.and_false]

theorem not_prefix_first (a : Char) (cs : List Char) (c : Char) (l : List Char) (h : (a == c) = false) :
    (a :: cs).isPrefixOf (c :: l) = false := by
  simp only [List.isPrefixOf, h, Bool.false_and]

theorem isOrdOp_eq (op : CmpOp) : isOrdOp op = isOrd op := by cases op <;> rfl

theorem opText_length_pos (op : CmpOp) : 1 ≤ (opText op).length := by cases op <;> simp [opText]

theorem operand_not_eq (o : Operand) (r : List Char) :
    startsWith (fun d => d == '=') (operand o ++ r) = false :=
  operand_first_not _ (by intro c hc; simp; intro h; subst h; revert hc; decide) (by decide) o r

/-- `==` / `!=` and the right operand -/
theorem acc_cmpEq (op : CmpOp) (hop : isOrd op = false) (o : Operand) (ho : OpHyp inp o) {p : Nat} {rest : List Char}
    (h : Sfx inp p (opText op ++ (operand o ++ rest))) (hrest : PathStop rest) :
    Acc (128 + 32 * (operand o).length) cmpEq inp p (p + (opText op).length + (operand o).length)
      (tkOperand false (p + (opText op).length) o ++ [.action (opAction op)]) := by
  cases op with
  | eq =>
    have a1 := acc_qParam o ho (p := p + 2) (r := rest) h.tail.tail hrest
    exact (Acc.alt_l _ (acc_opRhs "==" ['=', '='] rfl "qParam" 28 h (noSp_operand o rest) (by omega) a1)).mono
      (by omega)
  | ne =>
    have a1 := acc_qParam o ho (p := p + 2) (r := rest) h.tail.tail hrest
    exact (Acc.alt_r (rej_opRhs "==" ['=', '='] rfl "qParam" 28 h rfl)
      (acc_opRhs "!=" ['!', '='] rfl "qParam" 29 h (noSp_operand o rest) (by omega) a1)).mono (by omega)
  | lt => cases hop
  | le => cases hop
  | gt => cases hop
  | ge => cases hop

/-- `<=` / `<` / `>=` / `>` and the right operand -/
theorem acc_cmpOrd (op : CmpOp) (hop : isOrd op = true) (o : Operand) (ho : OpHyp inp o)
    (hwf : operandWf true o = true) {p : Nat} {rest : List Char}
    (h : Sfx inp p (opText op ++ (operand o ++ rest))) (hrest : PathStop rest) :
    Acc (130 + 32 * (operand o).length) cmpOrd inp p (p + (opText op).length + (operand o).length)
      (tkOperand true (p + (opText op).length) o ++ [.action (opAction op)]) := by
  have hsp := noSp_operand o rest
  have hne := operand_not_eq o rest
  cases op with
  | eq => cases hop
  | ne => cases hop
  | le =>
    have a1 := acc_qNumericParam o ho hwf (p := p + 2) (r := rest) h.tail.tail hrest
    exact (Acc.alt_l _ (acc_opRhs "<=" ['<', '='] rfl "qNumericParam" 30 h hsp (by omega) a1)).mono (by omega)
  | lt =>
    have a1 := acc_qNumericParam o ho hwf (p := p + 1) (r := rest) h.tail hrest
    exact (Acc.alt_r (rej_opRhs "<=" ['<', '='] rfl "qNumericParam" 30 h (not_prefix2 '<' '=' hne))
      (Acc.alt_l _ (acc_opRhs "<" ['<'] rfl "qNumericParam" 31 h hsp (by omega) a1))).mono (by omega)
  | ge =>
    have a1 := acc_qNumericParam o ho hwf (p := p + 2) (r := rest) h.tail.tail hrest
    exact (Acc.alt_r (rej_opRhs "<=" ['<', '='] rfl "qNumericParam" 30 h rfl)
      (Acc.alt_r (rej_opRhs "<" ['<'] rfl "qNumericParam" 31 h rfl)
        (Acc.alt_l _ (acc_opRhs ">=" ['>', '='] rfl "qNumericParam" 32 h hsp (by omega) a1)))).mono (by omega)
  | gt =>
    have a1 := acc_qNumericParam o ho hwf (p := p + 1) (r := rest) h.tail hrest
    exact (Acc.alt_r (rej_opRhs "<=" ['<', '='] rfl "qNumericParam" 30 h rfl)
      (Acc.alt_r (rej_opRhs "<" ['<'] rfl "qNumericParam" 31 h rfl)
        (Acc.alt_r (rej_opRhs ">=" ['>', '='] rfl "qNumericParam" 32 h (not_prefix2 '>' '=' hne))
          (acc_opRhs ">" ['>'] rfl "qNumericParam" 33 h hsp (by omega) a1)))).mono (by omega)

/-- the first alternative gives up after the left operand when neither `==` nor `!=` follows -/
theorem rej_cmpAlt1 (o : Operand) (ho : OpHyp inp o) {p : Nat} {r : List Char}
    (h : Sfx inp p (operand o ++ r)) (hr : PathStop r)
    (h1 : ['=', '='].isPrefixOf r = false) (h2 : ['!', '='].isPrefixOf r = false) :
    Rej (124 + 32 * (operand o).length) cmpAlt1 inp p :=
  (Rej.seq_r (acc_qParam o ho h hr) (Rej.seq_r (acc_space h.append hr.noSp)
    (Rej.alt (rej_opRhs "==" ['=', '='] rfl "qParam" 28 h.append h1)
      (rej_opRhs "!=" ['!', '='] rfl "qParam" 29 h.append h2)))).mono (by omega)

/-- the second alternative gives up after the left operand when neither `<` nor `>` follows -/
theorem rej_cmpAlt2 (o : Operand) (ho : OpHyp inp o) (hwf : operandWf true o = true) {p : Nat} {r : List Char}
    (h : Sfx inp p (operand o ++ r)) (hr : PathStop r)
    (hno : startsWith (fun c => c == '<' || c == '>') r = false) :
    Rej (124 + 32 * (operand o).length) cmpAlt2 inp p := by
  have hlt : startsWith (fun c => c == '<') r = false :=
    startsWith_false_of_imp (by intro c hc; simp at hc; simp [hc]) hno
  have hgt : startsWith (fun c => c == '>') r = false :=
    startsWith_false_of_imp (by intro c hc; simp at hc; simp [hc]) hno
  have h' := h.append
  exact (Rej.seq_r (acc_qNumericParam o ho hwf h hr) (Rej.seq_r (acc_space h' hr.noSp)
    (Rej.alt (rej_opRhs "<=" ['<', '='] rfl "qNumericParam" 30 h' (not_prefix_of_startsWith '<' _ hlt))
    (Rej.alt (rej_opRhs "<" ['<'] rfl "qNumericParam" 31 h' (not_prefix_of_startsWith '<' _ hlt))
    (Rej.alt (rej_opRhs ">=" ['>', '='] rfl "qNumericParam" 32 h' (not_prefix_of_startsWith '>' _ hgt))
      (rej_opRhs ">" ['>'] rfl "qNumericParam" 33 h' (not_prefix_of_startsWith '>' _ hgt))))))).mono (by omega)

/-- `l op r` -/
theorem acc_comparator_cmp (op : CmpOp) (l r : Operand) (hl : OpHyp inp l) (hr : OpHyp inp r)
    (hwl : operandWf (isOrd op) l = true) (hwr : operandWf (isOrd op) r = true) {p : Nat} {rest : List Char}
    (h : Sfx inp p (operand l ++ (opText op ++ (operand r ++ rest)))) (hrest : PathStop rest) :
    Acc (135 + 32 * ((operand l).length + ((opText op).length + (operand r).length))) (.rule "comparator") inp p
      (p + ((operand l).length + ((opText op).length + (operand r).length)))
      (tkOperand (isOrd op) p l ++ (tkOperand (isOrd op) (p + (operand l).length + (opText op).length) r ++
        [.action (opAction op)])) := by
  have hstop : PathStop (opText op ++ (operand r ++ rest)) := by cases op <;> exact .inr rfl
  have hpos := opText_length_pos op
  cases hop : isOrd op with
  | false =>
    rw [hop] at hwl hwr
    have a1 := acc_qParam l hl h hstop
    have a2 := acc_space h.append hstop.noSp
    have a3 := acc_cmpEq op hop r hr h.append hrest
    refine ((Acc.rule "comparator" comparator_body (Acc.alt_l _ (Acc.seq a1 (Acc.seq a2 a3)))).mono ?_).cast ?_ ?_
    · omega
    · omega
    · simp
  | true =>
    rw [hop] at hwl hwr
    have r1 := rej_cmpAlt1 l hl h hstop (by cases op <;> first | rfl | cases hop)
      (by cases op <;> first | rfl | cases hop)
    have a1 := acc_qNumericParam l hl hwl h hstop
    have a2 := acc_space h.append hstop.noSp
    have a3 := acc_cmpOrd op hop r hr hwr h.append hrest
    refine ((Acc.rule "comparator" comparator_body
      (Acc.alt_r r1 (Acc.alt_l _ (Acc.seq a1 (Acc.seq a2 a3))))).mono ?_).cast ?_ ?_
    · omega
    · omega
    · simp

/-! ### `regex` -/

def regexItem : PE :=
  .alt (.seq (.lit "\\") (.cls false [(Char.ofNat 92, Char.ofNat 92), (Char.ofNat 47, Char.ofNat 47)]))
    (.cls true [(Char.ofNat 47, Char.ofNat 47)])

theorem regex_body : ruleBody Gen.grammar "regex" = .star regexItem := rfl

theorem escRegex_ok : ∀ (re : List Char), re.all (fun c => c != '/' && c != '\\') = true → escRegex re = re := by
  intro re
  induction re with
  | nil => intro _; rfl
  | cons c re ih =>
    intro h
    simp only [List.all_cons, Bool.and_eq_true, bne_iff_ne, ne_eq] at h
    have : escRegex (c :: re) = (if c = '/' then ['\\', '/'] else [c]) ++ escRegex re := by simp [escRegex]
    rw [this, if_neg h.1.1, ih h.2]; rfl

theorem regexOK_chars {re : String} (h : regexOK re = true) : ∀ c ∈ re.toList, c ≠ '/' ∧ c ≠ '\\' := by
  intro c hc
  simp only [regexOK, List.all_eq_true, Bool.and_eq_true, bne_iff_ne, ne_eq] at h
  exact h c hc

theorem acc_regex_loop : ∀ (re : List Char), (∀ c ∈ re, c ≠ '/' ∧ c ≠ '\\') → ∀ {p : Nat} {r : List Char},
    Sfx inp p (re ++ '/' :: r) → Acc (4 + 32 * re.length) (.star regexItem) inp p (p + re.length) [] := by
  intro re
  induction re with
  | nil =>
    intro _ p r h
    have r1 := rej_lit1 "\\" '\\' [] rfl h rfl
    have r2 : Rej 1 (.cls true [(Char.ofNat 47, Char.ofNat 47)]) inp p := rej_cls true _ h (by decide)
    exact (Acc.star_nil (Rej.alt (Rej.seq_l _ r1) r2)).mono (by simp)
  | cons c re ih =>
    intro hok p r h
    have hc := hok c (by simp)
    have r1 := rej_lit1 "\\" '\\' [] rfl h (by simp [startsWith, hc.2])
    have a2 : Acc 1 (.cls true [(Char.ofNat 47, Char.ofNat 47)]) inp p (p + 1) [] := by
      refine acc_cls true _ h ?_
      rw [inRanges_one c 47 (by decide)]
      have : (c == Char.ofNat 47) = false := by simpa using hc.1
      rw [this]; rfl
    have a3 := ih (fun d hd => hok d (by simp [hd])) h.tail
    refine ((Acc.star_cons (Acc.alt_r (Rej.seq_l _ r1) a2) a3).mono ?_).cast ?_ rfl
    · simp only [List.length_cons]; omega
    · simp only [List.length_cons]; omega

/-! ### what follows a basic query -/

/-- `)`, `&` or `|` follows -/
def QStop (r : List Char) : Prop := startsWith (fun c => c == ')' || c == '&' || c == '|') r = true

theorem QStop.cases {r : List Char} (h : QStop r) : ∃ c r', r = c :: r' ∧ (c = ')' ∨ c = '&' ∨ c = '|') := by
  cases r with
  | nil => cases h
  | cons c r' => exact ⟨c, r', rfl, by simpa [QStop, startsWith, or_assoc] using h⟩

theorem QStop.pathStop {r : List Char} (h : QStop r) : PathStop r := by
  obtain ⟨c, r', rfl, hc⟩ := h.cases
  rcases hc with rfl | rfl | rfl <;> exact .inr rfl

theorem pathOperandWf (q : Path) (hq : PathHyp inp q) : operandWf true (.path q) = true := by
  cases q with
  | mk hd ss fns => exact hq.1

/-- `comparator` fails on a path that is followed by `)`, `&&` or `||` -/
theorem rej_comparator_path (q : Path) (hq : PathHyp inp q) {p : Nat} {r : List Char}
    (h : Sfx inp p (path q ++ r)) (hr : QStop r) :
    Rej (127 + 32 * (path q).length) (.rule "comparator") inp p := by
  have hps := hr.pathStop
  obtain ⟨c, r', rfl, hc⟩ := hr.cases
  have h1 : ['=', '='].isPrefixOf (c :: r') = false := by rcases hc with rfl | rfl | rfl <;> rfl
  have h2 : ['!', '='].isPrefixOf (c :: r') = false := by rcases hc with rfl | rfl | rfl <;> rfl
  have h3 : ['=', '~'].isPrefixOf (c :: r') = false := by rcases hc with rfl | rfl | rfl <;> rfl
  have h4 : startsWith (fun c => c == '<' || c == '>') (c :: r') = false := by
    rcases hc with rfl | rfl | rfl <;> rfl
  have r1 := rej_cmpAlt1 (.path q) hq h hps h1 h2
  have r2 := rej_cmpAlt2 (.path q) hq (pathOperandWf q hq) h hps h4
  have r3 : Rej (122 + 32 * (path q).length) cmpAlt3 inp p :=
    (Rej.seq_r (acc_sjf q hq h hps) (Rej.seq_r (acc_space h.append hps.noSp)
      (Rej.seq_l _ (rej_lit "=~" ['=', '~'] rfl h.append h3)))).mono (by omega)
  simp only [operand] at r1 r2
  exact (Rej.rule "comparator" comparator_body (Rej.alt r1 (Rej.alt r2 r3))).mono (by omega)

/-- `comparator` fails at once on something that starts neither a literal nor a path -/
theorem rej_comparator_start {p : Nat} {l : List Char} (h : Sfx inp p l)
    (hl : startsWith isOperandStart l = false) : Rej 20 (.rule "comparator") inp p :=
  (Rej.rule "comparator" comparator_body (Rej.alt (Rej.seq_l _ (rej_qParam h hl))
    (Rej.alt (Rej.seq_l _ (rej_qNumericParam h hl))
      (Rej.seq_l _ (rej_sjf h (startsWith_false_of_imp (by intro c hc; simp [isOperandStart, hc]) hl)))))).mono
    (by omega)

/-- `q=~/re/` -/
theorem acc_comparator_regex (q : Path) (hq : PathHyp inp q) (re : List Char) (hre : ∀ c ∈ re, c ≠ '/' ∧ c ≠ '\\')
    {p : Nat} {rest : List Char} (h : Sfx inp p (path q ++ '=' :: '~' :: '/' :: (re ++ '/' :: rest))) :
    Acc (135 + 32 * ((path q).length + 3 + re.length + 1)) (.rule "comparator") inp p
      (p + ((path q).length + 3 + re.length + 1))
      (tkSJF p q ++ [.text (p + (path q).length + 3) (p + (path q).length + 3 + re.length), .action 34]) := by
  have hps : PathStop ('=' :: '~' :: '/' :: (re ++ '/' :: rest)) := .inr rfl
  have r1 := rej_cmpAlt1 (.path q) hq h hps rfl rfl
  have r2 := rej_cmpAlt2 (.path q) hq (pathOperandWf q hq) h hps rfl
  simp only [operand] at r1 r2
  have a1 := acc_sjf q hq h hps
  have h1 := h.append
  have a2 := acc_space h1 hps.noSp
  have a3 := acc_lit "=~" ['=', '~'] rfl h1
  have h2 := h1.tail.tail
  have a4 := acc_space h2 (noSp_cons (by decide) _)
  have a5 := acc_lit1 "/" '/' rfl h2
  have h3 := h2.tail
  have a6 := Acc.cap (Acc.rule "regex" regex_body (acc_regex_loop re hre h3))
  have a7 := acc_lit1 "/" '/' rfl h3.append
  refine ((Acc.rule "comparator" comparator_body (Acc.alt_r r1 (Acc.alt_r r2
    (Acc.seq a1 (Acc.seq a2 (Acc.seq a3 (Acc.seq a4 (Acc.seq a5 (Acc.seq a6 (Acc.seq a7 (acc_act 34 _))))))))))).mono
      ?_).cast ?_ ?_
  · omega
  · omega
  · simp [Nat.add_assoc]

/-! ### `basicQuery` on the basic forms -/

theorem basicQuery_body : ruleBody Gen.grammar "basicQuery" =
    .alt (.seq (.rule "subQueryStart") (.seq (.rule "query") (.rule "subQueryEnd")))
      (.alt (.seq (.cap (.rule "comparator")) (.act 26))
        (.seq (.cap (.seq (.opt (.rule "logicNot")) (.rule "jsonpathFilter"))) (.act 27))) := rfl
theorem subQueryStart_body : ruleBody Gen.grammar "subQueryStart" = .seq (.lit "(") (.rule "space") := rfl
theorem subQueryEnd_body : ruleBody Gen.grammar "subQueryEnd" = .seq (.rule "space") (.lit ")") := rfl
theorem logicNot_body : ruleBody Gen.grammar "logicNot" = .seq (.lit "!") (.rule "space") := rfl

theorem rej_subQuery {p : Nat} {l : List Char} (h : Sfx inp p l)
    (hl : startsWith (fun c => c == '(') l = false) :
    Rej 4 (.seq (.rule "subQueryStart") (.seq (.rule "query") (.rule "subQueryEnd"))) inp p :=
  (Rej.seq_l _ (Rej.rule "subQueryStart" subQueryStart_body (Rej.seq_l _ (rej_lit1 "(" '(' [] rfl h hl)))).mono
    (by omega)

theorem operand_not_paren (o : Operand) (r : List Char) :
    startsWith (fun d => d == '(') (operand o ++ r) = false :=
  operand_first_not _ (by intro c hc; simp; intro h; subst h; revert hc; decide) (by decide) o r

theorem acc_basic_cmp (prec : Nat) (op : CmpOp) (l r : Operand) (hl : OpHyp inp l) (hr : OpHyp inp r)
    (hwl : operandWf (isOrd op) l = true) (hwr : operandWf (isOrd op) r = true) {p : Nat} {rest : List Char}
    (h : Sfx inp p (query prec (.cmp op l r) ++ rest)) (hrest : QStop rest) :
    Acc (140 + 32 * (query prec (.cmp op l r)).length) (.rule "basicQuery") inp p
      (p + (query prec (.cmp op l r)).length) (tkQ prec p (.cmp op l r)) := by
  simp only [query, List.append_assoc] at h ⊢
  have r1 := rej_subQuery h (operand_not_paren l _)
  have a2 := acc_comparator_cmp op l r hl hr hwl hwr h hrest.pathStop
  refine ((Acc.rule "basicQuery" basicQuery_body (Acc.alt_r r1 (Acc.alt_l _
    (Acc.seq (Acc.cap a2) (acc_act 26 _))))).mono ?_).cast ?_ ?_
  · len_omega2
  · len_omega2
  · simp only [tkQ, isOrdOp_eq, query, List.length_append, List.append_assoc, List.cons_append, List.nil_append]
    done

theorem regex_length (prec : Nat) (q : Path) (re : String) (hre : regexOK re = true) :
    (query prec (.regex q re)).length = (path q).length + 3 + re.toList.length + 1 := by
  simp only [query, escRegex_ok _ hre, List.length_append, List.length_cons, List.length_nil]
  omega

theorem acc_basic_regex (prec : Nat) (q : Path) (hq : PathHyp inp q) (re : String) (hre : regexOK re = true)
    {p : Nat} {rest : List Char} (h : Sfx inp p (query prec (.regex q re) ++ rest)) :
    Acc (140 + 32 * (query prec (.regex q re)).length) (.rule "basicQuery") inp p
      (p + (query prec (.regex q re)).length) (tkQ prec p (.regex q re)) := by
  have hlen := regex_length prec q re hre
  simp only [query, escRegex_ok _ hre, List.append_assoc, List.cons_append, List.nil_append] at h
  have r1 := rej_subQuery h (startsWith_path _ false (by decide) (by decide) q _)
  have a2 := acc_comparator_regex q hq re.toList (regexOK_chars hre) h
  refine ((Acc.rule "basicQuery" basicQuery_body (Acc.alt_r r1 (Acc.alt_l _
    (Acc.seq (Acc.cap a2) (acc_act 26 _))))).mono ?_).cast ?_ ?_
  · omega
  · omega
  · simp only [tkQ, hlen, escRegex_ok _ hre, tkSJF]
    simp

theorem logicNot_rej {p : Nat} {l : List Char} (h : Sfx inp p l)
    (hl : startsWith (fun c => c == '!') l = false) : Rej 3 (.rule "logicNot") inp p :=
  Rej.rule "logicNot" logicNot_body (Rej.seq_l _ (rej_lit1 "!" '!' [] rfl h hl))

/-- `p` / `!p` -/
theorem acc_basic_exist (prec : Nat) (neg : Bool) (q : Path) (hq : PathHyp inp q)
    {p : Nat} {rest : List Char} (h : Sfx inp p (query prec (.exist neg q) ++ rest)) (hrest : QStop rest) :
    Acc (140 + 32 * (query prec (.exist neg q)).length) (.rule "basicQuery") inp p
      (p + (query prec (.exist neg q)).length) (tkQ prec p (.exist neg q)) := by
  cases neg with
  | false =>
    simp only [query, Bool.false_eq_true, if_false, List.nil_append] at h ⊢
    have r1 := rej_subQuery h (startsWith_path _ false (by decide) (by decide) q _)
    have r2 := rej_comparator_path q hq h hrest
    have r3 := logicNot_rej h (startsWith_path _ false (by decide) (by decide) q _)
    have a4 := acc_jsonpathFilter q hq h hrest.pathStop
    refine ((Acc.rule "basicQuery" basicQuery_body (Acc.alt_r r1 (Acc.alt_r (Rej.seq_l _ (Rej.cap r2))
      (Acc.seq (Acc.cap (Acc.seq (Acc.opt_none r3) a4)) (acc_act 27 _))))).mono ?_).cast rfl ?_
    · omega
    · simp [tkQ, query]
  | true =>
    simp only [query, if_true, List.cons_append, List.nil_append] at h ⊢
    have r1 := rej_subQuery h rfl
    have r2 := rej_comparator_start h rfl
    have a3 : Acc 5 (.rule "logicNot") inp p (p + 1) [] :=
      ((Acc.rule "logicNot" logicNot_body (Acc.seq (acc_lit1 "!" '!' rfl h)
        (acc_space h.tail (noSp_iff _ |>.mpr (startsWith_path _ false (by decide) (by decide) q _))))).mono
        (by omega)).cast rfl rfl
    have a4 := acc_jsonpathFilter q hq h.tail hrest.pathStop
    refine ((Acc.rule "basicQuery" basicQuery_body (Acc.alt_r r1 (Acc.alt_r (Rej.seq_l _ (Rej.cap r2))
      (Acc.seq (Acc.cap (Acc.seq (Acc.opt_some a3) a4)) (acc_act 27 _))))).mono ?_).cast ?_ ?_
    · simp only [List.length_cons]; omega
    · simp only [List.length_cons]; omega
    · simp [tkQ, query]; omega

/-! ### `&&` and `||` -/

theorem logicAnd_body : ruleBody Gen.grammar "logicAnd" = .seq (.rule "space") (.seq (.lit "&&") (.rule "space")) := rfl
theorem logicOr_body : ruleBody Gen.grammar "logicOr" = .seq (.rule "space") (.seq (.lit "||") (.rule "space")) := rfl

theorem acc_logicAnd {p : Nat} {r : List Char} (h : Sfx inp p ('&' :: '&' :: r)) (hr : NoSp r) :
    Acc 6 (.rule "logicAnd") inp p (p + 2) [] :=
  ((Acc.rule "logicAnd" logicAnd_body (Acc.seq (acc_space h (noSp_cons (by decide) _))
    (Acc.seq (acc_lit "&&" ['&', '&'] rfl (r := r) h) (acc_space h.tail.tail hr)))).mono (by omega)).cast rfl rfl

theorem acc_logicOr {p : Nat} {r : List Char} (h : Sfx inp p ('|' :: '|' :: r)) (hr : NoSp r) :
    Acc 6 (.rule "logicOr") inp p (p + 2) [] :=
  ((Acc.rule "logicOr" logicOr_body (Acc.seq (acc_space h (noSp_cons (by decide) _))
    (Acc.seq (acc_lit "||" ['|', '|'] rfl (r := r) h) (acc_space h.tail.tail hr)))).mono (by omega)).cast rfl rfl

theorem rej_logicAnd {p : Nat} {l : List Char} (h : Sfx inp p l)
    (hl : startsWith (fun c => c == ' ' || c == '&') l = false) : Rej 5 (.rule "logicAnd") inp p :=
  (Rej.rule "logicAnd" logicAnd_body (Rej.seq_r (acc_space h (noSp_of (P := fun c => c == ' ' || c == '&') rfl hl))
    (Rej.seq_l _ (rej_lit1 "&&" '&' ['&'] rfl h
      (startsWith_false_of_imp (by intro c hc; simp at hc; simp [hc]) hl))))).mono (by omega)

theorem rej_logicOr {p : Nat} {l : List Char} (h : Sfx inp p l)
    (hl : startsWith (fun c => c == ' ' || c == '|') l = false) : Rej 5 (.rule "logicOr") inp p :=
  (Rej.rule "logicOr" logicOr_body (Rej.seq_r (acc_space h (noSp_of (P := fun c => c == ' ' || c == '|') rfl hl))
    (Rej.seq_l _ (rej_lit1 "||" '|' ['|'] rfl h
      (startsWith_false_of_imp (by intro c hc; simp at hc; simp [hc]) hl))))).mono (by omega)

/-- one round of the `&&` loop, one round of the `||` loop, and the bodies of the two rules -/
def andItem : PE := .seq (.rule "logicAnd") (.seq (.rule "basicQuery") (.act 25))
def orItem : PE := .seq (.rule "logicOr") (.seq (.rule "andQuery") (.act 24))
def andBody : PE := .seq (.rule "basicQuery") (.star andItem)
def orBody : PE := .seq (.rule "andQuery") (.star orItem)

theorem andQuery_body : ruleBody Gen.grammar "andQuery" = andBody := rfl
theorem query_body : ruleBody Gen.grammar "query" = orBody := rfl

/-- `)` or `|` follows -/
def Q0Stop (r : List Char) : Prop := startsWith (fun c => c == ')' || c == '|') r = true

theorem Q0Stop.qStop {r : List Char} (h : Q0Stop r) : QStop r :=
  startsWith_of_true (by intro c hc; simp at hc; rcases hc with rfl | rfl <;> rfl) h

theorem Q0Stop.noAnd {r : List Char} (h : Q0Stop r) : startsWith (fun c => c == ' ' || c == '&') r = false :=
  startsWith_false_of_true (by intro c hc; simp at hc; rcases hc with rfl | rfl <;> rfl) h

theorem Acc.cast_start {F : Nat} {e : PE} {p q p' : Nat} {t : List Tok} (h : Acc F e inp p p' t) (hp : p = q) :
    Acc F e inp q p' t := by subst hp; exact h

/-- the `&&` loop stops in front of `)` and `||` -/
theorem acc_and_end {p : Nat} {r : List Char} (h : Sfx inp p r) (hr : Q0Stop r) :
    Acc 7 (.star andItem) inp p p [] :=
  (Acc.star_nil (Rej.seq_l _ (rej_logicAnd h hr.noAnd))).mono (by omega)

/-- the `||` loop stops in front of `)` -/
theorem acc_or_end {p : Nat} {r : List Char} (h : Sfx inp p (')' :: r)) :
    Acc 7 (.star orItem) inp p p [] :=
  (Acc.star_nil (Rej.seq_l _ (rej_logicOr h rfl))).mono (by omega)

/-! ### the three levels of a query, in continuation style -/

/-- `basicQuery` accepts `query 2 q` -/
def P2 (inp : Array Char) (q : Query) : Prop :=
  ∀ (p : Nat) (r : List Char), Sfx inp p (query 2 q ++ r) → QStop r →
    Acc (140 + 32 * (query 2 q).length) (.rule "basicQuery") inp p (p + (query 2 q).length) (tkQ 2 p q)

/-- the body of `andQuery` accepts `query 1 q` followed by whatever further rounds of the `&&` loop accept -/
def P1 (inp : Array Char) (q : Query) : Prop :=
  ∀ (p : Nat) (r : List Char), Sfx inp p (query 1 q ++ r) → QStop r →
    ∀ (Fk p'' : Nat) (T : List Tok), Acc Fk (.star andItem) inp (p + (query 1 q).length) p'' T →
      Acc (max (150 + 32 * (query 1 q).length) (Fk + (query 1 q).length)) andBody inp p p'' (tkQ 1 p q ++ T)

/-- the body of `query` accepts `query 0 q` followed by whatever further rounds of the `||` loop accept -/
def P0 (inp : Array Char) (q : Query) : Prop :=
  ∀ (p : Nat) (r : List Char), Sfx inp p (query 0 q ++ r) → Q0Stop r →
    ∀ (Fk p'' : Nat) (T : List Tok), Acc Fk (.star orItem) inp (p + (query 0 q).length) p'' T →
      Acc (max (160 + 32 * (query 0 q).length) (Fk + (query 0 q).length)) orBody inp p p'' (tkQ 0 p q ++ T)

/-- no printed query starts with a blank -/
theorem query_noSp : (q : Query) → (prec : Nat) → (r : List Char) → NoSp (query prec q ++ r)
  | .or a b, prec, r => by
    simp only [query, paren]
    split
    · exact noSp_cons (by decide) _
    · rw [List.append_assoc]; exact query_noSp a 0 _
  | .and a b, prec, r => by
    simp only [query, paren]
    split
    · exact noSp_cons (by decide) _
    · rw [List.append_assoc]; exact query_noSp a 1 _
  | .exist neg q, prec, r => by
    cases neg with
    | true => exact noSp_cons (by decide) _
    | false =>
      simp only [query, Bool.false_eq_true, if_false, List.nil_append]
      exact noSp_operand (.path q) r
  | .cmp op l r', prec, r => by
    simp only [query, List.append_assoc]
    exact noSp_operand l _
  | .regex q re, prec, r => by
    simp only [query, List.append_assoc]
    exact noSp_operand (.path q) _

theorem query_length_pos (q : Query) (prec : Nat) : 1 ≤ (query prec q).length := by
  cases q with
  | or a b => simp only [query, paren]; split <;> len_omega2
  | and a b => simp only [query, paren]; split <;> len_omega2
  | exist neg q => have := path_length_pos q; simp only [query]; len_omega2
  | cmp op l r => have := operand_length_pos l; simp only [query]; len_omega2
  | regex q re => have := path_length_pos q; simp only [query]; len_omega2

/-! ### glue between the levels -/

/-- a query that is printed the same at levels 1 and 2 (everything but a bare `&&`) -/
theorem p1_of_p2 (q : Query) (hq : query 1 q = query 2 q) (ht : ∀ p, tkQ 1 p q = tkQ 2 p q)
    (h2 : P2 inp q) : P1 inp q := by
  intro p r h hr Fk p'' T hk
  have hpos := query_length_pos q 2
  rw [hq] at h hk ⊢
  rw [ht]
  exact (Acc.seq (h2 p r h hr) hk).mono (by omega)

/-- `a&&b` -/
theorem p1_and (a b : Query) (ha : P1 inp a) (hb : P2 inp b) : P1 inp (.and a b) := by
  intro p r h hr Fk p'' T hk
  have hq : query 1 (.and a b) = query 1 a ++ '&' :: '&' :: query 2 b := by simp [query, paren]
  have ht : tkQ 1 p (.and a b) =
      tkQ 1 p a ++ (tkQ 2 (p + (query 1 a).length + 2) b ++ [.action 25]) := by simp [tkQ]
  rw [hq] at h hk ⊢
  rw [ht]
  simp only [List.append_assoc, List.cons_append] at h
  have h1 := h.append
  have a1 := acc_logicAnd h1 (query_noSp b 2 r)
  have a2 := hb (p + (query 1 a).length + 2) r h1.tail.tail hr
  have hk' : Acc Fk (.star andItem) inp (p + (query 1 a).length + 2 + (query 2 b).length) p'' T :=
    hk.cast_start (by len_omega2)
  have item := Acc.seq a1 (Acc.seq a2 (acc_act 25 _))
  have loop := Acc.star_cons item hk'
  have := ha p _ h rfl _ _ _ loop
  refine (this.mono ?_).cast rfl ?_
  · len_omega2
  · simp

/-- a query that is printed the same at levels 0 and 1 (everything but a bare `||`) -/
theorem p0_of_p1 (q : Query) (hq : query 0 q = query 1 q) (ht : ∀ p, tkQ 0 p q = tkQ 1 p q)
    (h1 : P1 inp q) : P0 inp q := by
  intro p r h hr Fk p'' T hk
  have hpos := query_length_pos q 1
  rw [hq] at h hk ⊢
  rw [ht]
  have a1 := Acc.rule "andQuery" andQuery_body (h1 p r h hr.qStop _ _ _ (acc_and_end h.append hr))
  refine ((Acc.seq a1 hk).mono ?_).cast rfl ?_
  · omega
  · simp

/-- `a||b` -/
theorem p0_or (a b : Query) (ha : P0 inp a) (hb : P1 inp b) : P0 inp (.or a b) := by
  intro p r h hr Fk p'' T hk
  have hq : query 0 (.or a b) = query 0 a ++ '|' :: '|' :: query 1 b := by simp [query, paren]
  have ht : tkQ 0 p (.or a b) =
      tkQ 0 p a ++ (tkQ 1 (p + (query 0 a).length + 2) b ++ [.action 24]) := by simp [tkQ]
  rw [hq] at h hk ⊢
  rw [ht]
  simp only [List.append_assoc, List.cons_append] at h
  have h1 := h.append
  have a1 := acc_logicOr h1 (query_noSp b 1 r)
  have h2 := h1.tail.tail
  have a2 := Acc.rule "andQuery" andQuery_body
    (hb (p + (query 0 a).length + 2) r h2 hr.qStop _ _ _ (acc_and_end h2.append hr))
  have hk' : Acc Fk (.star orItem) inp (p + (query 0 a).length + 2 + (query 1 b).length) p'' T :=
    hk.cast_start (by len_omega2)
  have item := Acc.seq a1 (Acc.seq a2 (acc_act 24 _))
  have loop := Acc.star_cons item hk'
  have := ha p _ h rfl _ _ _ loop
  refine (this.mono ?_).cast rfl ?_
  · len_omega2
  · simp

/-- `(q)` as a basic query -/
theorem acc_paren (q : Query) (h0 : P0 inp q) {p : Nat} {r : List Char}
    (h : Sfx inp p ('(' :: (query 0 q ++ ')' :: r))) :
    Acc (168 + 32 * (query 0 q).length) (.rule "basicQuery") inp p (p + 1 + (query 0 q).length + 1)
      (tkQ 0 (p + 1) q) := by
  have hpos := query_length_pos q 0
  have a1 : Acc 5 (.rule "subQueryStart") inp p (p + 1) [] :=
    ((Acc.rule "subQueryStart" subQueryStart_body (Acc.seq (acc_lit1 "(" '(' rfl h)
      (acc_space h.tail (query_noSp q 0 _)))).mono (by omega)).cast rfl rfl
  have h2 := h.tail.append
  have a2 := Acc.rule "query" query_body (h0 (p + 1) _ h.tail rfl _ _ _ (acc_or_end h2))
  have a3 : Acc 5 (.rule "subQueryEnd") inp (p + 1 + (query 0 q).length) (p + 1 + (query 0 q).length + 1) [] :=
    ((Acc.rule "subQueryEnd" subQueryEnd_body (Acc.seq (acc_space h2 (noSp_cons (by decide) _))
      (acc_lit1 ")" ')' rfl h2))).mono (by omega)).cast rfl rfl
  refine ((Acc.rule "basicQuery" basicQuery_body (Acc.alt_l _ (Acc.seq a1 (Acc.seq a2 a3)))).mono ?_).cast rfl ?_
  · omega
  · simp

/-- a query that is printed in parentheses at level 2 (a bare `||` or `&&`) -/
theorem p2_of_p0 (q : Query) (hq : query 2 q = '(' :: (query 0 q ++ [')'])) (ht : ∀ p, tkQ 2 p q = tkQ 0 (p + 1) q)
    (h0 : P0 inp q) : P2 inp q := by
  intro p r h hr
  rw [hq] at h ⊢
  rw [ht]
  simp only [List.append_assoc, List.cons_append, List.nil_append] at h
  refine ((acc_paren q h0 h).mono ?_).cast ?_ rfl
  · len_omega2
  · len_omega2

/-! ### `filter` and the bracket of a filter step -/

theorem filter_body : ruleBody Gen.grammar "filter" =
    .seq (.rule "filterStart") (.seq (.rule "query") (.seq (.rule "filterEnd") (.act 23))) := rfl
theorem filterStart_body : ruleBody Gen.grammar "filterStart" = .seq (.lit "?(") (.rule "space") := rfl
theorem filterEnd_body : ruleBody Gen.grammar "filterEnd" = .seq (.rule "space") (.lit ")") := rfl
theorem script_body : ruleBody Gen.grammar "script" =
    .seq (.rule "scriptStart") (.seq (.cap (.rule "command")) (.seq (.rule "scriptEnd") (.act 22))) := rfl
theorem scriptStart_body : ruleBody Gen.grammar "scriptStart" = .seq (.lit "(") (.rule "space") := rfl

theorem acc_filter (q : Query) (h0 : P0 inp q) {p : Nat} {r : List Char}
    (h : Sfx inp p ('?' :: '(' :: (query 0 q ++ ')' :: r))) :
    Acc (170 + 32 * (query 0 q).length) (.rule "filter") inp p (p + 2 + (query 0 q).length + 1)
      (tkQ 0 (p + 2) q ++ [.action 23]) := by
  have hpos := query_length_pos q 0
  have a1 : Acc 5 (.rule "filterStart") inp p (p + 2) [] :=
    ((Acc.rule "filterStart" filterStart_body (Acc.seq (acc_lit "?(" ['?', '('] rfl (r := query 0 q ++ ')' :: r) h)
      (acc_space h.tail.tail (query_noSp q 0 _)))).mono (by omega)).cast rfl rfl
  have h2 := h.tail.tail.append
  have a2 := Acc.rule "query" query_body (h0 (p + 2) _ h.tail.tail rfl _ _ _ (acc_or_end h2))
  have a3 : Acc 5 (.rule "filterEnd") inp (p + 2 + (query 0 q).length) (p + 2 + (query 0 q).length + 1) [] :=
    ((Acc.rule "filterEnd" filterEnd_body (Acc.seq (acc_space h2 (noSp_cons (by decide) _))
      (acc_lit1 ")" ')' rfl h2))).mono (by omega)).cast rfl rfl
  refine ((Acc.rule "filter" filter_body (Acc.seq a1 (Acc.seq a2 (Acc.seq a3 (acc_act 23 _))))).mono ?_).cast rfl ?_
  · omega
  · simp

/-- `union` fails on `?` -/
theorem rej_union_q {p : Nat} {r : List Char} (h : Sfx inp p ('?' :: r)) : Rej 30 (.rule "union") inp p := by
  have r1 := rej_slice none (r := '?' :: r) h rfl
  have r2 := rej_indexNumber h rfl
  have r3 := rej_lit1 "*" '*' [] rfl h rfl
  have ri : Rej 20 (.rule "index") inp p :=
    (Rej.rule "index" index_body (Rej.seq_l _ (Rej.alt (Rej.seq_l _ r1) (Rej.alt (Rej.seq_l _ (Rej.cap r2))
      (Rej.seq_l _ r3))))).mono (by simp [optInt])
  exact (Rej.rule "union" union_body (Rej.seq_l _ ri)).mono (by omega)

/-- `script` fails on `?` -/
theorem rej_script_q {p : Nat} {r : List Char} (h : Sfx inp p ('?' :: r)) : Rej 5 (.rule "script") inp p :=
  (Rej.rule "script" script_body (Rej.seq_l _ (Rej.rule "scriptStart" scriptStart_body
    (Rej.seq_l _ (rej_lit1 "(" '(' [] rfl h rfl))))).mono (by omega)

/-- the bracket of a filter step -/
theorem recBracketFilter_of_p0 (t : String) (q : Query) (h0 : P0 inp q) : RecBracketFilter inp t q := by
  intro ad p r h
  have hstep : Print.step ad (.filter t q) = bracket ('?' :: '(' :: (query 0 q ++ [')'])) := by
    simp [Print.step, bracket]
  rw [hstep] at h ⊢
  have ht : tkStep ad p (.filter t q) = (tkQ 0 (p + 1 + 2) q ++ [.action 23]) ++
      [.text p (p + (bracket ('?' :: '(' :: (query 0 q ++ [')']))).length), .action 7] := by
    have : p + 1 + 2 = p + 3 := by omega
    simp only [tkStep, hstep, List.append_assoc, this, List.cons_append, List.nil_append]
  rw [ht]
  have h' : Sfx inp p ('[' :: (('?' :: '(' :: (query 0 q ++ [')'])) ++ ']' :: r)) := by
    simpa [bracket] using h
  have hin : Sfx inp (p + 1) ('?' :: '(' :: (query 0 q ++ ')' :: (']' :: r))) := by
    simpa using h'.tail
  have r1 := rej_bci_start hin rfl
  have a2 := acc_filter q h0 hin
  have aq := Acc.rule "qualifier" qualifier_body (Acc.alt_r (rej_union_q hin) (Acc.alt_r (rej_script_q hin) a2))
  have ain : Acc (175 + 32 * (query 0 q).length) (.alt (.rule "bracketChildIdentifier") (.rule "qualifier")) inp
      (p + 1) (p + 1 + ('?' :: '(' :: (query 0 q ++ [')'])).length) (tkQ 0 (p + 1 + 2) q ++ [.action 23]) :=
    ((Acc.alt_r r1 aq).mono (by omega)).cast (by len_omega2) rfl
  refine (acc_bracketNode_of _ _ h' (noSp_cons (by decide) _) ain (by omega)).mono ?_
  simp only [bracket, List.length_cons, List.length_append, List.length_nil]; omega

end JPV.PP
