/-
String vocabulary of `JPV.ActionNode`: what Go's BYTE operations `text[0:1] == "!"` and
`len(text) > 0` say about the RUNES of the text.
-/
import JPV.ActionNode
namespace JPV
namespace ActionNode

/-- `text[0:1]` on the empty string panics -/
theorem strSliceEq_empty (lit : String) : strSliceEq "" 0 1 lit = .error .sliceBounds := by
  simp [strSliceEq]

/-- `len(text) > 0` (bytes) is "the text has a rune" -/
theorem strLen_pos (s : String) : decide (strLen s > 0) = decide (s.length > 0) := by
  have h1 := @String.utf8ByteSize_eq_zero_iff s
  have h2 := @String.length_eq_zero_iff s
  apply decide_eq_decide.mpr
  unfold strLen
  constructor
  · intro h; apply Nat.pos_of_ne_zero; intro h0
    have := h1.mpr (h2.mp h0); omega
  · intro h
    have : s.utf8ByteSize ≠ 0 := fun h0 => by have := h2.mpr (h1.mp h0); omega
    omega

/-- `==` on one-byte arrays -/
private theorem beq_singleton (a b : UInt8) :
    ([a].toByteArray == [b].toByteArray) = (a == b) := by
  show ([a].toByteArray.data == [b].toByteArray.data) = _
  simp

/-- a byte with the two top bits set is not `!` -/
private theorem or_ne_bang (x m : UInt8) (hm : 0xc0 ≤ m.toNat) : x ||| m ≠ 33 := by
  intro h
  have h' := congrArg UInt8.toNat h
  rw [UInt8.toNat_or] at h'
  have := @Nat.right_le_or x.toNat m.toNat
  have h33 : (33 : UInt8).toNat = 33 := by decide
  omega

/-- an ASCII code point is `!` exactly when its byte is 33 -/
private theorem head_of_single (ch : Char) (h : ch.utf8Size = 1) :
    (ch.val.toUInt8 == 33) = (ch == '!') := by
  have hle := UInt32.le_iff_toNat_le.mp (Char.utf8Size_eq_one_iff.mp h)
  have h127 : (127 : UInt32).toNat = 127 := by decide
  rw [h127] at hle
  rw [Bool.eq_iff_iff, beq_iff_eq, beq_iff_eq]
  constructor
  · intro e
    have e' := congrArg UInt8.toNat e
    rw [UInt32.toNat_toUInt8] at e'
    have h33 : (33 : UInt8).toNat = 33 := by decide
    apply Char.ext
    apply UInt32.toNat_inj.mp
    show ch.val.toNat = 33
    omega
  · intro e; subst e; decide

/-- the lead byte of the UTF-8 encoding of `ch` is 33 exactly when `ch` is `!` -/
private theorem head_encode (ch : Char) :
    ∃ b l, String.utf8EncodeChar ch = b :: l ∧ (b == 33) = (ch == '!') := by
  have multi : ∀ (x m : UInt8), 0xc0 ≤ m.toNat → ch.utf8Size ≠ 1 →
      ((x ||| m) == 33) = (ch == '!') := by
    intro x m hm hs
    have hb : ((x ||| m) == 33) = false := beq_eq_false_iff_ne.mpr (or_ne_bang x m hm)
    have hc : (ch == '!') = false := by
      apply beq_eq_false_iff_ne.mpr
      intro e; subst e; exact hs (by decide)
    rw [hb, hc]
  rcases Char.utf8Size_eq ch with h1 | h2 | h3 | h4
  · exact ⟨_, _, String.utf8EncodeChar_eq_singleton h1, head_of_single ch h1⟩
  · exact ⟨_, _, String.utf8EncodeChar_eq_cons_cons h2, multi _ _ (by decide) (by omega)⟩
  · exact ⟨_, _, String.utf8EncodeChar_eq_cons_cons_cons h3, multi _ _ (by decide) (by omega)⟩
  · exact ⟨_, _, String.utf8EncodeChar_eq_cons_cons_cons_cons h4,
      multi _ _ (by decide) (by omega)⟩

/-- Go's byte slice `text[0:1] == "!"` is the test "the first rune is `!`" (UTF-8: a one-byte
prefix equals an ASCII byte exactly when the first code point is that ASCII character; lead bytes
of multi-byte encodings are ≥ 0xC0) -/
theorem strSliceEq_bang (ch : Char) (rest : List Char) :
    strSliceEq (String.ofList (ch :: rest)) 0 1 "!" = .ok (ch == '!') := by
  obtain ⟨b, l, hb, hbang⟩ := head_encode ch
  -- the bytes of the text: `b` first
  have hbytes : (String.ofList (ch :: rest)).toUTF8
      = [b].toByteArray ++ (l ++ rest.flatMap String.utf8EncodeChar).toByteArray := by
    show (String.ofList (ch :: rest)).toByteArray = _
    rw [String.toByteArray_ofList, List.utf8Encode, List.flatMap_cons, hb,
      ← List.toByteArray_append]
    rfl
  have hsize : 1 ≤ (String.ofList (ch :: rest)).utf8ByteSize := by
    rw [← String.size_toByteArray]
    have := congrArg ByteArray.size hbytes
    change (String.ofList (ch :: rest)).toByteArray.size = _ at this
    rw [this, ByteArray.size_append, List.size_toByteArray]
    simp
  have hcond : ¬ ((0 : Int) < 0 ∨ (1 : Int) < 0 ∨
      ((String.ofList (ch :: rest)).utf8ByteSize : Int) < 1) := by omega
  have hlit : "!".toUTF8 = [33].toByteArray := by decide
  have hext : (String.ofList (ch :: rest)).toUTF8.extract 0 1 = [b].toByteArray := by
    rw [hbytes]
    exact ByteArray.extract_append_eq_left (by simp)
  unfold strSliceEq
  rw [if_neg hcond]
  show Except.ok ((String.ofList (ch :: rest)).toUTF8.extract 0 1 == "!".toUTF8) = _
  rw [hext, hlit, beq_singleton, hbang]

end ActionNode
end JPV
