/-
Tree — the syntax-node chains, queries, subscripts and comparators the parser actions build
(DESIGN §4.4). A chain is a `List N`; `next` of a node is the tail of the list.
-/
import JPV.Ast
namespace JPV

/-- text, connectedText, valueGroup, accessorMode of a syntaxBasicNode -/
structure Info where
  text : String
  conn : String
  vg : Bool
  acc : Bool
  deriving Inhabited, Repr, DecidableEq

/-- a syntaxIndexSubscript used as a slice bound -/
structure Bound where
  number : Int
  omitted : Bool
  deriving Inhabited, Repr, DecidableEq

/-- subscripts as the actions build them -/
inductive SubI where
  | idx (n : Int)
  | slicePos (s e t : Bound)      -- syntaxSlicePositiveStepSubscript (step ≥ 0)
  | sliceNeg (s e t : Bound)      -- syntaxSliceNegativeStepSubscript (step < 0)
  | wild
  deriving Inhabited, Repr, DecidableEq

inductive LitTy where
  | num | bool | str | null
  deriving Inhabited, Repr, DecidableEq

/-- comparators: DirectEQ carries the validator chosen from the literal's type -/
inductive Cmp where
  | directEq (ty : LitTy)
  | deepEq
  | lt | le | gt | ge
  | regex (re : String)
  deriving Inhabited, Repr, DecidableEq

/-- inner identifier of a multi-name node -/
inductive MId where
  | key (i : Info) (k : String)
  | wild (i : Info)
  deriving Inhabited, Repr, DecidableEq

mutual
inductive N where
  | root (i : Info)
  | cur (i : Info)
  | child (i : Info) (k : String)
  | wild (i : Info)
  | multi (i : Info) (ids : List MId) (twin : Option Info)   -- twin: the all-wildcard union qualifier
  | desc (i : Info) (mapReq listReq : Bool)                  -- drives the rest of the chain
  | union (i : Info) (subs : List SubI)
  | filter (i : Info) (q : Q)
  | ffn (i : Info) (name : String)
  | afn (i : Info) (name : String) (param : List N)
inductive Q where
  | or (a b : Q)
  | and (a b : Q)
  | not (a : Q)
  | cmp (l r : P) (c : Cmp)
  | exist (p : P)
inductive P where
  | lit (v : Val)
  | proot (ch : List N)
  | pcur (ch : List N)
end

instance : Inhabited N := ⟨.root default⟩
instance : Inhabited Q := ⟨.exist (.lit .null)⟩
instance : Inhabited P := ⟨.lit .null⟩

def N.info : N → Info
  | .root i | .cur i | .child i _ | .wild i | .multi i _ _ | .desc i _ _
  | .union i _ | .filter i _ | .ffn i _ | .afn i _ _ => i

def N.setVg : N → N
  | .root i => .root { i with vg := true }
  | .cur i => .cur { i with vg := true }
  | .child i k => .child { i with vg := true } k
  | .wild i => .wild { i with vg := true }
  | .multi i ids t => .multi { i with vg := true } ids t
  | .desc i a b => .desc { i with vg := true } a b
  | .union i s => .union { i with vg := true } s
  | .filter i q => .filter { i with vg := true } q
  | .ffn i n => .ffn { i with vg := true } n
  | .afn i n p => .afn { i with vg := true } n p

/-- isValueGroup of a chain = the flag of its head -/
def chainVg : List N → Bool
  | [] => false
  | n :: _ => n.info.vg

end JPV
