/-
S-expressions: the line protocol between the Go harness and the Lean drivers.
Atoms are decimal integers or bare words; strings travel as `(s c1 c2 …)` (code points).
Core-only; used by drivers, never by proofs.
-/
namespace JPV

inductive Sexp where
  | atom (s : String)
  | list (xs : List Sexp)
  deriving Inhabited, Repr

namespace Sexp

partial def toStr : Sexp → String
  | atom s => s
  | list xs => "(" ++ " ".intercalate (xs.map toStr) ++ ")"

/-- tokenise: parentheses and maximal runs of non-space, non-paren characters -/
def tokens (s : String) : List String := Id.run do
  let mut out : Array String := #[]
  let mut cur : String := ""
  for c in s.toList do
    if c == '(' || c == ')' then
      if cur != "" then out := out.push cur; cur := ""
      out := out.push (String.singleton c)
    else if c == ' ' || c == '\n' || c == '\t' || c == '\r' then
      if cur != "" then out := out.push cur; cur := ""
    else cur := cur.push c
  if cur != "" then out := out.push cur
  return out.toList

/-- parse one s-expression from a token list -/
partial def parseToks : List String → Option (Sexp × List String)
  | [] => none
  | "(" :: rest =>
    let rec go (acc : Array Sexp) (ts : List String) : Option (Sexp × List String) :=
      match ts with
      | [] => none
      | ")" :: r => some (list acc.toList, r)
      | _ => match parseToks ts with
        | some (x, r) => go (acc.push x) r
        | none => none
    go #[] rest
  | ")" :: _ => none
  | t :: rest => some (atom t, rest)

def parse (s : String) : Option Sexp :=
  match parseToks (tokens s) with
  | some (x, []) => some x
  | _ => none

def ofString (s : String) : Sexp :=
  list (atom "s" :: s.toList.map (fun c => atom (toString c.toNat)))

def ofInt (i : Int) : Sexp := atom (toString i)
def ofNat (i : Nat) : Sexp := atom (toString i)
def ofBool (b : Bool) : Sexp := atom (if b then "t" else "f")

def asInt? : Sexp → Option Int
  | atom s => s.toInt?
  | _ => none

def asNat? : Sexp → Option Nat
  | atom s => s.toNat?
  | _ => none

def asBool? : Sexp → Option Bool
  | atom "t" => some true
  | atom "f" => some false
  | _ => none

def asString? : Sexp → Option String
  | list (atom "s" :: cs) =>
    (cs.mapM (fun c => (asNat? c).map Char.ofNat)).map String.ofList
  | _ => none

end Sexp
end JPV
