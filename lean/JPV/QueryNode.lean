/-
QueryNode — the vocabulary the generator `queries` (harness/cmd/translate/queries.go) writes
`Gen/QueriesGo.lean` in: the `compute` methods of the filter queries (`&&`, `||`, `!`, the basic
compare query, the compare parameter, and the three parameter nodes literal / `$`-path /
`@`-path), statement by statement. Hand-written; the generated file mentions only these names,
no model internals. Lemmas/QueryTie.lean proves the generated methods equal to the equations of
`Impl.computeQ` / `Impl.computeP` / `Impl.pcurLoop`.

How Go things are read:

* `[]interface{}` holding filter values  →  `VL` (origin tag + cells). Treating the list as a value is
  licensed by C04 (`writes_only_fresh`): nothing that is still referenced elsewhere is written.
* the parameter `currentList`           →  `List Val` (it is only read here); when the code RETURNS
  it, it becomes `inputVL currentList` — a list with origin `input`.
* `xs[i]`                               →  `getCell xs i` (panics out of range)
* `xs[i] = c` on a list received from elsewhere (a sub-query's result) → `setCell xs i c st`:
  bounds check, the write is LOGGED in `st.writes` with the origin of `xs`.
* `xs := make([]interface{}, n)`        →  `Own`: a slice under construction that nobody else can see.
  The generator admits only `xs[i] = c` (`Own.set`, not logged: it initialises the function's own
  allocation, exactly as a composite literal does) and `return xs` (`Own.publish`: from then on it
  is an ordinary list of origin `fresh`).
* `for index := range xs { … }`         →  `forRange n init body`: n is fixed before the first iteration;
  the state is the tuple of variables the body assigns; `continue` returns the tuple.
* `getContainer()` / `c.result` / `c.result = c.result[:0]` → `FnNode.Buf`, as for the function nodes.
-/
import JPV.FnNode
namespace JPV
namespace QueryNode
open Impl FnNode

/-- `compute(root, currentList)` of a `syntaxQuery` -/
abbrev Compute := Val → List Val → St → M (VL × St)

/-- `xs[i]` -/
def getCell (xs : VL) (i : Nat) : M Cell :=
  match xs.cells[i]? with
  | some c => .ok c
  | none => .error .indexOutOfRange

/-- `xs[i] = c` on a list that came from elsewhere: logged with the origin of `xs` -/
def setCell (xs : VL) (i : Nat) (c : Cell) (st : St) : M (VL × St) :=
  if i < xs.cells.length then .ok ({ xs with cells := xs.cells.set i c }, st.wrote xs.org 1)
  else .error .indexOutOfRange

/-- `currentList[i]` -/
def getVal (xs : List Val) (i : Nat) : M Val :=
  match xs[i]? with
  | some v => .ok v
  | none => .error .indexOutOfRange

/-- `b.result[i]` -/
def bufGet (b : Buf) (i : Nat) : M Val :=
  match b[i]? with
  | some r => .ok r.val
  | none => .error .indexOutOfRange

/-- the parameter `currentList` used as a result -/
def inputVL (xs : List Val) : VL := ⟨.input, xs.map .val⟩

/-- `[]interface{}{c₁, …}` -/
def freshVL (cs : List Cell) : VL := ⟨.fresh, cs⟩

/-- a slice allocated by `make` in the method being translated, not yet handed to anyone -/
structure Own where
  cells : List Cell
  deriving Inhabited, Repr

/-- `make([]interface{}, n)`: n nil interfaces -/
def makeOwn (n : Nat) : Own := ⟨List.replicate n (.val .null)⟩

/-- `xs[i] = c` on the method's own allocation -/
def Own.set (xs : Own) (i : Nat) (c : Cell) : M Own :=
  if i < xs.cells.length then .ok ⟨xs.cells.set i c⟩ else .error .indexOutOfRange

/-- `return xs` -/
def Own.publish (xs : Own) : VL := ⟨.fresh, xs.cells⟩

/-- iterations `i, i+1, …, i+k-1` -/
def forFrom {σ : Type} (body : Nat → σ → M σ) : Nat → Nat → σ → M σ
  | _, 0, s => .ok s
  | i, k + 1, s => do
    let s' ← body i s
    forFrom body (i + 1) k s'

/-- `for index := range xs { body }` with `n = len(xs)` taken once -/
def forRange {σ : Type} (n : Nat) (init : σ) (body : Nat → σ → M σ) : M σ := forFrom body 0 n init

/-! ### receivers -/

/-- `syntaxLogicalAnd` -/
structure AndRecv where
  leftQuery : Compute
  rightQuery : Compute

/-- `syntaxLogicalOr` -/
structure OrRecv where
  leftQuery : Compute
  rightQuery : Compute

/-- `syntaxLogicalNot` -/
structure NotRecv where
  query : Compute

/-- `syntaxBasicCompareQuery` -/
structure CmpRecv where
  /-- `q.leftParam.compute` -/
  leftParam : Compute
  rightParam : Compute
  /-- `q.comparator.validate(values)`: found flag, the list after the in-place edits, the log -/
  validate : VL → St → Bool × VL × St
  /-- `q.comparator.comparator(left, right)` -/
  comparator : VL → Cell → St → M (Bool × VL × St)
  /-- `_, ok := q.comparator.(*syntaxCompareDeepEQ)` -/
  comparatorIsDeepEQ : Bool

/-- `syntaxBasicCompareParameter` -/
structure ParamRecv where
  param : Compute
  /-- `_, ok := p.param.(*syntaxQueryParamRoot)` -/
  paramIsRoot : Bool

/-- `syntaxQueryParamLiteral` -/
structure LitRecv where
  /-- the slice stored in the tree -/
  literal : VL

/-- `syntaxQueryParamRoot` and `syntaxQueryParamCurrentRoot` -/
structure PathRecv where
  /-- `e.param.retrieve(root, current, container)`: returns the callee's final state -/
  paramRetrieve : Val → Val → St → M (St × Option RtErr)

end QueryNode
end JPV
