/-
Python slice semantics — the specification side of C11.
Transcribes CPython's PySlice_AdjustIndices + range over unbounded integers.
-/
namespace JPV

/-- clamp one bound the way PySlice_AdjustIndices does -/
def pyAdjust (len : Int) (v : Int) (neg : Bool) : Int :=
  if v < 0 then
    (if v + len < 0 then (if neg then -1 else 0) else v + len)
  else if v ≥ len then (if neg then len - 1 else len)
  else v

/-- the indices `list(range(len))[s:e:t]` selects; step 0 selects nothing -/
def pySlice (s e t : Option Int) (len : Nat) : List Nat :=
  let step : Int := t.getD 1
  if step = 0 then [] else
  let neg := decide (step < 0)
  let n : Int := len
  let start : Int := match s with
    | some v => pyAdjust n v neg
    | none => if neg then n - 1 else 0
  let stop : Int := match e with
    | some v => pyAdjust n v neg
    | none => if neg then -1 else n
  let count : Int :=
    if neg then (if stop < start then (start - stop - 1) / (-step) + 1 else 0)
    else (if start < stop then (stop - start - 1) / step + 1 else 0)
  (List.range count.toNat).map (fun (i : Nat) => (start + (i : Int) * step).toNat)

/-- `xs[n]` without the exception: element n from the front, or from the back when negative -/
def pyIndex (n : Int) (len : Nat) : List Nat :=
  let i : Int := if n < 0 then n + len else n
  if i < 0 ∨ i ≥ len then [] else [i.toNat]

end JPV
