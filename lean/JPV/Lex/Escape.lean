/-
Lexical layer of member names (property C16): executable models of

  * the three unescaping routines of /repo/jsonpath_parser.go
      `unescape`                     ↦ `unescapeBackslash`
      `unescapeSingleQuotedString`   ↦ `unescapeSingle  = jsonUnquote ∘ singleToJson`
      `unescapeDoubleQuotedString`   ↦ `unescapeDouble  = jsonUnquote`
  * what `encoding/json` does when it unmarshals a quoted text into a Go `string`
      (`jsonUnquote`; an ASSUMPTION about the standard library, compared with the real
      `json.Unmarshal` by the harness, tie T3),
  * the renderers of /verif/harness/jph/ast.go (`escDot`, `escSingle`, `escDouble`),
  * direct recognisers of the `< … >` bodies of the grammar rules of /repo/jsonpath.peg that
    capture a member name (`matchesDotName`, `matchesSingleBody`, `matchesDoubleBody`) and a
    string literal (`matchesLStringSingleBody`, `matchesLStringDoubleBody`).

Everything works on `List Char`; `String` wrappers are at the end.  Core Lean only.

### What "any Unicode string" means here

A Lean `Char` is a Unicode *scalar value* (0 … 0x10FFFF without the surrogates
0xD800 … 0xDFFF), a `List Char` is therefore exactly a well-formed Unicode string, i.e. exactly
what a valid UTF-8 Go `string` denotes.  This is the right domain:

  * keys of a document decoded by `encoding/json` are valid UTF-8 (the decoder replaces
    anything else by U+FFFD while decoding), so every key is a `List Char`;
  * the parser of the library first converts the path to `[]rune` (pointlander/peg:
    `buffer = []rune(Buffer)`), which maps every invalid byte to U+FFFD, and hands the actions
    `text = string(buffer[begin:end])`, which is valid UTF-8 again; so every argument of the three
    unescaping routines is a `List Char` as well.

Surrogate code points are not `Char`s.  They occur in this file only *spelled* as the six ASCII
characters `\uD83D` in the INPUT of `jsonUnquote`; a lone one decodes to U+FFFD like in Go.
A Go map key that is not valid UTF-8 (only possible for documents built by hand, not by
`encoding/json`) is outside the claim.

### Bytes versus code points

`unescapeSingleQuotedString` walks over BYTES.  The only byte values it tests are 0x22 `"`,
0x27 `'` and 0x5c `\`, all ASCII.  In valid UTF-8 every byte of a multi-byte character is ≥ 0x80,
so each such byte takes the `default` branch; if the escape flag is set it is the first byte of the
character that gets the backslash in front and clears the flag, the continuation bytes are
copied.  The output is therefore the UTF-8 encoding of what `singleToJson` produces on code
points.  The same holds for the regular expression `\\(.)` (Go regexps match code points on valid
UTF-8) and for `encoding/json` (bytes ≥ 0x80 of valid UTF-8 are copied through).
-/
namespace JPV.Lex

/-! ## character classes -/

/-- control character in the sense of C16 and of the grammar: `[\x00-\x1F\x7F]` -/
def isControl (c : Char) : Bool := c.toNat < 0x20 || c.toNat == 0x7f

/-- grammar rule `signsWithoutHyphenUnderscore <- [ -,./:-@[-^`{-~]`, i.e. the printable ASCII
    characters that are neither alphanumeric nor `-` nor `_`:
    0x20–0x2C, 0x2E, 0x2F, 0x3A–0x40, 0x5B–0x5E, 0x60, 0x7B–0x7E. -/
def isSign (c : Char) : Bool :=
  let r := c.toNat
  (0x20 ≤ r && r ≤ 0x2c) || r == 0x2e || r == 0x2f || (0x3a ≤ r && r ≤ 0x40) ||
  (0x5b ≤ r && r ≤ 0x5e) || r == 0x60 || (0x7b ≤ r && r ≤ 0x7e)

/-- grammar rule `hexDigit <- [a-fA-F0-9]` -/
def isHexDigit (c : Char) : Bool :=
  let r := c.toNat
  (0x30 ≤ r && r ≤ 0x39) || (0x61 ≤ r && r ≤ 0x66) || (0x41 ≤ r && r ≤ 0x46)

/-! ## `unescape`: the regular expression `\\(.)` replaced by `$1`

`regexp.ReplaceAllStringFunc` replaces the leftmost non-overlapping matches.  A match is a
backslash followed by one character other than `'\n'` (Go's `.` without the `s` flag).  A
backslash that is last, or followed by a newline, is not a match and is copied. -/
def unescapeBackslash : List Char → List Char
  | [] => []
  | c :: rest =>
    if c = '\\' then
      match rest with
      | [] => [c]
      | d :: rest' =>
        if d = '\n' then c :: d :: unescapeBackslash rest'
        else d :: unescapeBackslash rest'
    else c :: unescapeBackslash rest

/-! ## `unescapeSingleQuotedString`: the state machine

`singleToJsonGo esc l` is the loop of the Go function started with `foundEscape = esc`; the
output is the text BETWEEN the two `"` that the function puts around it.  Branch by branch:

    case 0x22:  append `\` `"`                       (flag unchanged)
    case 0x27:  append `'`;  flag = false
    case 0x5c:  if flag { append `\` `\`; flag = false } else { flag = true }
    default:    if flag { append `\` c;  flag = false } else { append c }

A flag still set at the end is dropped (a trailing backslash disappears). -/
def singleToJsonGo : Bool → List Char → List Char
  | _, [] => []
  | esc, c :: rest =>
    if c = '"' then '\\' :: '"' :: singleToJsonGo esc rest
    else if c = '\'' then '\'' :: singleToJsonGo false rest
    else if c = '\\' then
      if esc then '\\' :: '\\' :: singleToJsonGo false rest
      else singleToJsonGo true rest
    else if esc then '\\' :: c :: singleToJsonGo false rest
    else c :: singleToJsonGo false rest

def singleToJson (l : List Char) : List Char := singleToJsonGo false l

/-! ## `json.Unmarshal` of `"` + text + `"` into a `string`

Go 1.23 `encoding/json`: `checkValid` (scanner.go: `stateInString`, `stateInStringEsc`,
`stateInStringEscU…`) first validates, then `unquoteBytes` (decode.go) converts.

  scanner:  a raw `"` ends the literal — the `"` the caller appended is then trailing data, an
            error; a raw character < 0x20 is an error; after `\` only `b f n r t \ / "` and
            `u` + four hex digits are allowed; a text ending inside an escape is an error.
  unquote:  `\uXXXX`: `rr = getu4`; if `rr` is a surrogate (0xD800–0xDFFF) look at the next six
            bytes: if they are `\uYYYY` and (rr, YYYY) is a (high, low) pair, the result is the
            combined character and both escapes are consumed; otherwise the result is U+FFFD and
            only the first escape is consumed.  Everything else is copied (valid UTF-8 assumed,
            see the header).

`jsonUnquote text = none` means `json.Unmarshal` returns an error (the library then panics with
`ErrorInvalidArgument`). -/

/-- value of a hexadecimal digit (`getu4`) -/
def hexVal (c : Char) : Option Nat :=
  let r := c.toNat
  if 0x30 ≤ r ∧ r ≤ 0x39 then some (r - 0x30)
  else if 0x61 ≤ r ∧ r ≤ 0x66 then some (r - 0x61 + 10)
  else if 0x41 ≤ r ∧ r ≤ 0x46 then some (r - 0x41 + 10)
  else none

/-- value of four hexadecimal digits (`getu4` after the `\u`) -/
def hex4 (a b c d : Char) : Option Nat :=
  match hexVal a, hexVal b, hexVal c, hexVal d with
  | some a, some b, some c, some d => some (((a * 16 + b) * 16 + c) * 16 + d)
  | _, _, _, _ => none

/-- `getu4`: the value of a leading `\uXXXX`, if there is one -/
def getu4 : List Char → Option Nat
  | b :: u :: h1 :: h2 :: h3 :: h4 :: _ => if b = '\\' ∧ u = 'u' then hex4 h1 h2 h3 h4 else none
  | _ => none

/-- `utf16.IsSurrogate` -/
def isSurrogate (v : Nat) : Bool := 0xd800 ≤ v && v < 0xe000

/-- `utf16.DecodeRune r1 r2 ≠ U+FFFD`: `r1` a high and `r2` a low surrogate -/
def isSurrogatePair (v w : Nat) : Bool := 0xd800 ≤ v && v < 0xdc00 && 0xdc00 ≤ w && w < 0xe000

/-- `utf16.DecodeRune` on a valid pair -/
def combineSurrogates (v w : Nat) : Char := Char.ofNat ((v - 0xd800) * 0x400 + (w - 0xdc00) + 0x10000)

/-- U+FFFD, `unicode.ReplacementChar` -/
def replacementChar : Char := Char.ofNat 0xfffd

/-- the one-letter escapes: `\" \\ \/ \b \f \n \r \t` -/
def simpleEscape (e : Char) : Option Char :=
  if e = '"' then some '"'
  else if e = '\\' then some '\\'
  else if e = '/' then some '/'
  else if e = 'b' then some (Char.ofNat 8)
  else if e = 'f' then some (Char.ofNat 12)
  else if e = 'n' then some '\n'
  else if e = 'r' then some '\r'
  else if e = 't' then some '\t'
  else none

def jsonUnquote : List Char → Option (List Char)
  | [] => some []
  | c :: rest =>
    if c = '\\' then
      match rest with
      | [] => none                                             -- text ends inside an escape
      | e :: rest1 =>
        if e = 'u' then
          match rest1 with
          | h1 :: h2 :: h3 :: h4 :: rest2 =>
            match hex4 h1 h2 h3 h4 with
            | none => none                                     -- not four hex digits
            | some v =>
              if isSurrogate v then
                -- not a pair: U+FFFD, and only this escape is consumed
                let lone := fun (_ : Unit) => (jsonUnquote rest2).map (replacementChar :: ·)
                match rest2 with
                | b :: u :: l1 :: l2 :: l3 :: l4 :: rest3 =>
                  match (if b = '\\' ∧ u = 'u' then hex4 l1 l2 l3 l4 else none) with
                  | some w =>
                    if isSurrogatePair v w then (jsonUnquote rest3).map (combineSurrogates v w :: ·)
                    else lone ()
                  | none => lone ()
                | _ => lone ()
              else (jsonUnquote rest2).map (Char.ofNat v :: ·)
          | _ => none                                          -- truncated \u
        else
          match simpleEscape e with
          | some ch => (jsonUnquote rest1).map (ch :: ·)
          | none => none                                       -- unknown escape (includes \')
    else if c = '"' then none                                  -- literal ends early: trailing data
    else if c.toNat < 0x20 then none                           -- raw control character
    else (jsonUnquote rest).map (c :: ·)

/-- `json.Unmarshal(data, &s)` for `data` that begin with `"` (the only data the library ever
    passes, see `genSingleJsonInput_eq` / `genDoubleJsonInput_eq` in Lemmas/EscapeGo.lean): the
    literal must also end with `"` (`unquoteBytes`: `s[0] != '"' || s[len(s)-1] != '"'`), and the
    text in between is decoded by `jsonUnquote`.  Data beginning with anything else (white space,
    `null`, …) never occur and are not modelled (`none`). -/
def jsonUnmarshalQuoted : List Char → Option (List Char)
  | c :: r => if c = '"' ∧ r.getLast? = some '"' then jsonUnquote r.dropLast else none
  | [] => none

def unescapeSingle (l : List Char) : Option (List Char) := jsonUnquote (singleToJson l)
def unescapeDouble (l : List Char) : Option (List Char) := jsonUnquote l

/-! ## the renderers of /verif/harness/jph/ast.go -/

/-- `isDotSafe`: may stand in a dot-child name without a backslash -/
def isDotSafe (c : Char) : Bool :=
  let r := c.toNat
  if r < 0x20 || r == 0x7f then false
  else if c = '-' || c = '_' then true
  else if (0x20 ≤ r && r ≤ 0x2f) || (0x3a ≤ r && r ≤ 0x40) || (0x5b ≤ r && r ≤ 0x60) ||
          (0x7b ≤ r && r ≤ 0x7e) then false
  else true

def escDotChar (c : Char) : List Char := if isDotSafe c then [c] else ['\\', c]

/-- `EscDot` -/
def escDot (k : List Char) : List Char := k.flatMap escDotChar

/-- one lower-case hexadecimal digit (`%x`) of a number < 16 -/
def hexDigit (n : Nat) : Char := if n < 10 then Char.ofNat (0x30 + n) else Char.ofNat (0x61 + (n - 10))

/-- `%04x` for numbers < 0x10000 (it is used for controls only) -/
def hex4Digits (n : Nat) : List Char :=
  [hexDigit (n / 4096 % 16), hexDigit (n / 256 % 16), hexDigit (n / 16 % 16), hexDigit (n % 16)]

/-- one step of `escQuoted` -/
def escQuotedChar (q c : Char) : List Char :=
  if c = q then ['\\', c]
  else if c = '\\' then ['\\', '\\']
  else if isControl c then '\\' :: 'u' :: hex4Digits c.toNat
  else [c]

def escQuoted (q : Char) (k : List Char) : List Char := k.flatMap (escQuotedChar q)

/-- `EscSingle` -/
def escSingle (k : List Char) : List Char := escQuoted '\'' k
/-- `EscDouble` -/
def escDouble (k : List Char) : List Char := escQuoted '"' k

/-! ## recognisers of the rule bodies

PEG repetition is greedy and never gives anything back, ordered choice commits to the first
alternative that matches.  "The rule's `< … >` part matches the whole list" therefore means: the
greedy loop, run on the list alone, reaches the end.  Each recogniser below is that loop. -/

/-- the loop `( '\\' signsWithoutHyphenUnderscore / ![\x00-\x1F\x7F] !signsWithoutHyphenUnderscore . )*`
    reaches the end.  A `\` is itself a sign, so if the first alternative fails on it the second
    fails as well. -/
def dotNameLoop : List Char → Bool
  | [] => true
  | c :: rest =>
    if c = '\\' then
      match rest with
      | [] => false
      | d :: rest' => isSign d && dotNameLoop rest'
    else !isControl c && !isSign c && dotNameLoop rest

/-- body of `dotChildIdentifier`: `< ( … )+ >` -/
def matchesDotName (l : List Char) : Bool := !l.isEmpty && dotNameLoop l

/-- `( '\\' ( [q/\\bfnrt] / hexDigits ) / [^q\\] )*` reaches the end (`q` is the quote) -/
def quotedBodyLoop (q : Char) : List Char → Bool
  | [] => true
  | c :: rest =>
    if c = '\\' then
      match rest with
      | [] => false
      | e :: rest1 =>
        if e = q || e = '/' || e = '\\' || e = 'b' || e = 'f' || e = 'n' || e = 'r' || e = 't' then
          quotedBodyLoop q rest1
        else if e = 'u' then
          match rest1 with
          | h1 :: h2 :: h3 :: h4 :: rest2 =>
            isHexDigit h1 && isHexDigit h2 && isHexDigit h3 && isHexDigit h4 && quotedBodyLoop q rest2
          | _ => false
        else false
    else if c = q then false
    else quotedBodyLoop q rest

/-- body of `singleQuotedNodeIdentifier` -/
def matchesSingleBody (l : List Char) : Bool := quotedBodyLoop '\'' l
/-- body of `doubleQuotedNodeIdentifier` -/
def matchesDoubleBody (l : List Char) : Bool := quotedBodyLoop '"' l

/-- `( '\\' [\\q] / [^q] )*` reaches the end: body of a string literal `lString`.  A backslash
    before anything else than `\` or the quote is an ordinary character of the literal. -/
def lStringBodyLoop (q : Char) : List Char → Bool
  | [] => true
  | c :: rest =>
    if c = '\\' then
      match rest with
      | [] => true                                   -- `[^q]` takes the backslash
      | d :: rest' =>
        if d = '\\' || d = q then lStringBodyLoop q rest'
        else lStringBodyLoop q rest'                 -- `[^q]` takes the backslash alone, and then `d`,
                                                     -- which is neither a backslash nor the quote
    else if c = q then false
    else lStringBodyLoop q rest

def matchesLStringSingleBody (l : List Char) : Bool := lStringBodyLoop '\'' l
def matchesLStringDoubleBody (l : List Char) : Bool := lStringBodyLoop '"' l

/-! ## `String` wrappers (for the drivers) -/

def unescapeBackslashS (s : String) : String := String.ofList (unescapeBackslash s.toList)
def singleToJsonS (s : String) : String := String.ofList (singleToJson s.toList)
def jsonUnquoteS (s : String) : Option String := (jsonUnquote s.toList).map String.ofList
def unescapeSingleS (s : String) : Option String := (unescapeSingle s.toList).map String.ofList
def unescapeDoubleS (s : String) : Option String := (unescapeDouble s.toList).map String.ofList
def escDotS (s : String) : String := String.ofList (escDot s.toList)
def escSingleS (s : String) : String := String.ofList (escSingle s.toList)
def escDoubleS (s : String) : String := String.ofList (escDouble s.toList)
def matchesDotNameS (s : String) : Bool := matchesDotName s.toList
def matchesSingleBodyS (s : String) : Bool := matchesSingleBody s.toList
def matchesDoubleBodyS (s : String) : Bool := matchesDoubleBody s.toList

end JPV.Lex
