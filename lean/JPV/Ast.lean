/-
Abstract paths: what the grammar recognises, stripped of spelling. Every step and function
keeps the source text that the code prints in runtime errors (first field `t`).
-/
import JPV.Val
namespace JPV

inductive Sub where
  | idx (n : Int)
  | slice (s e t : Option Int)
  | wild
  deriving Inhabited, Repr

inductive Name where
  | key (k : String)
  | wild
  deriving Inhabited, Repr

inductive Lit where
  | num (n : Int) | bool (b : Bool) | str (s : String) | null
  deriving Inhabited, Repr

def Lit.toVal : Lit → Val
  | .num n => .num n
  | .bool b => .bool b
  | .str s => .str s
  | .null => .null

inductive CmpOp where
  | eq | ne | lt | le | gt | ge
  deriving Inhabited, Repr, DecidableEq

inductive Head where
  | root | cur
  deriving Inhabited, Repr, DecidableEq

inductive Fn where
  | ffn (t : String) (name : String)
  | afn (t : String) (name : String)
  deriving Inhabited, Repr

mutual
inductive Step where
  | child (t : String) (k : String)
  | wild (t : String)
  | multi (t : String) (ns : List Name)
  | union (t : String) (ss : List Sub)
  | filter (t : String) (q : Query)
  | desc (s : Step)                       -- `..` followed by a bracket or dot child
inductive Query where
  | or (a b : Query)
  | and (a b : Query)
  | exist (neg : Bool) (p : Path)
  | cmp (op : CmpOp) (l r : Operand)
  | regex (p : Path) (re : String)
inductive Operand where
  | lit (l : Lit)
  | path (p : Path)
inductive Path where
  | mk (head : Head) (steps : List Step) (fns : List Fn)
end

instance : Inhabited Step := ⟨.wild "*"⟩
instance : Inhabited Path := ⟨.mk .root [] []⟩
instance : Inhabited Query := ⟨.exist false default⟩
instance : Inhabited Operand := ⟨.lit .null⟩

/-- everything external: registered functions and the regular-expression matcher.
    A function returning `none` is a user function returning an error. -/
structure Env where
  ffn : String → Option (Val → Option Val)
  afn : String → Option (List Val → Option Val)
  regex : String → String → Bool      -- regex source, subject

end JPV
