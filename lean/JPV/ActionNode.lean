/-
ActionNode — the vocabulary the generator `actions` (harness/cmd/translate/actions.go) writes
`Gen/ActionsGo.lean` in, on top of `JPV/ParserNode.lean`: the bodies of the `case ruleAction<N>:` blocks of
`Execute()` in jsonpath.peg.go, statement by statement, calling the regenerated helpers of
`Gen/ParserHelpersGo.lean` on the explicit heap. Hand-written; the generated file mentions only these names
and those of ParserNode / ParserHelpersGo. `Lemmas/ActionTie*.lean` proves the generated actions equal to the
action models `Peg.act<N>` of `Peg/Actions.lean` under the abstraction of `Lemmas/ParserState.lean`;
`Props/ActionsGen.lean` states the ties.

How Go things are read (besides what ParserNode.lean says)

* an action may stop in three more ways than a helper: `panic(p.syntaxErr(pos, reason, buffer))`, the
  run-time panic of a string slice `s[lo:hi]` out of bounds, and whatever a helper it calls stops with:
  `AErr`, monad `AM`; a helper call is `liftH (…)`.
* `x.(T)` on an `interface{}` value (what `p.pop()` returns): one function per asserted type, the Go run-time
  panic of a failed one-value assertion is `Err.typeAssertion`; the two-value form `y, ok := x.(*T)` is an
  `Option`.
    - `*syntaxUnionQualifier`, `*syntaxAggregateFunction` … (node structs)  →  the ADDRESS (`Nat`) of the cell
    - `*syntaxIndexSubscript`         →  `GIdx`  (by value, see ParserNode: immutable objects by value). The one
      write an action does through such a pointer (`step.number = 1` in the slice action) is a functional
      update of the local; licensed because the object was popped by the same action, and every index
      subscript on the stack was allocated by `_pushIndexSubscript` for that one stack slot.
    - `*syntaxLogicalNot`             →  `PNot`  (its field)
    - `*syntaxBasicCompareQuery`      →  `PCmp`  (its fields)
    - `syntaxQueryJSONPathParameter`  →  `GQ`, only `.proot` / `.pcur` (the two structs with an
      `isValueGroupParameter` method)
* the methods of `*jsonPathParser` that `parser_helpers` leaves to other generators (`escape`:
  unescape…; `operand_order`: pushCompareEQ … LT) are the fields of `ALib`, each with the signature of its
  Go declaration (checked by the generator). `pushCompareVia` builds the six compare fields from the
  functions REGENERATED in `Gen/OperandOrder.lean` (abstract operands): see `Lemmas/ActionTieLib.lean`.
* `string(_buffer[begin:end])` (runes) is `runeSlice`; `text[lo:hi] == lit` (BYTES) is `strSliceEq`.
-/
import JPV.ParserNode
namespace JPV
namespace ActionNode
open JPV JPV.ParserNode

/-- what stops an action -/
inductive AErr where
  | helper (e : Err)                                       -- a helper / a Go run-time panic of ParserNode
  | syntaxErr (pos : Int) (reason : String) (buffer : String)  -- panic(p.syntaxErr(pos, reason, buffer))
  | sliceBounds                                            -- s[lo:hi] out of range
  deriving DecidableEq, Repr, Inhabited

abbrev AM := Except AErr

/-- a helper of ParserHelpersGo called from an action -/
def liftH {α : Type} (x : M α) : AM α :=
  match x with
  | .ok a => .ok a
  | .error e => .error (.helper e)

/-- `*syntaxLogicalNot` -/
structure PNot where
  query : GQ

/-- `*syntaxBasicCompareQuery` -/
structure PCmp where
  leftParam : GCP
  rightParam : GCP
  comparator : Cmp

/-- `x.param` for `x *syntaxBasicCompareParameter` -/
def _root_.JPV.ParserNode.GCP.param : GCP → GQ
  | .mk q _ => q

/-- `x.isLiteral` -/
def _root_.JPV.ParserNode.GCP.isLiteral : GCP → Bool
  | .mk _ l => l

/-! ### type assertions on `interface{}` -/

/-- `x.(string)` -/
def _root_.JPV.ParserNode.GItem.asString (x : GItem) : M String :=
  match x with
  | .str s => .ok s
  | _ => .error .typeAssertion

/-- `x.(bool)` -/
def _root_.JPV.ParserNode.GItem.asBool (x : GItem) : M Bool :=
  match x with
  | .bool b => .ok b
  | _ => .error .typeAssertion

/-- `x.(*T)` for a node struct T of kind k: the address -/
def _root_.JPV.ParserNode.GItem.asNodePtr (k : Kind) (x : GItem) : M Nat :=
  match x with
  | .node k' i => if k' = k then .ok i else .error .typeAssertion
  | _ => .error .typeAssertion

/-- `x.(*syntaxIndexSubscript)` -/
def _root_.JPV.ParserNode.GItem.asIndexSubscript (x : GItem) : M GIdx :=
  match x with
  | .sub (.index i) => .ok i
  | _ => .error .typeAssertion

/-- `x.(syntaxSubscript)` -/
def _root_.JPV.ParserNode.GItem.asSubscript (x : GItem) : M GSub :=
  match x with
  | .sub s => .ok s
  | _ => .error .typeAssertion

/-- `x.(*syntaxBasicCompareParameter)` -/
def _root_.JPV.ParserNode.GItem.asCompareParameter (x : GItem) : M GCP :=
  match x with
  | .cp p => .ok p
  | _ => .error .typeAssertion

/-- `x.(syntaxQueryJSONPathParameter)`: the types with an `isValueGroupParameter` method -/
def _root_.JPV.ParserNode.GItem.asJSONPathParameter (x : GItem) : M GQ :=
  match x with
  | .query (.proot n) => .ok (.proot n)
  | .query (.pcur n) => .ok (.pcur n)
  | _ => .error .typeAssertion

/-- `y, ok := x.(*syntaxLogicalNot)` -/
def _root_.JPV.ParserNode.GItem.asLogicalNot (x : GItem) : Option PNot :=
  match x with
  | .query (.not q) => some ⟨q⟩
  | _ => none

/-- `y, ok := x.(*syntaxBasicCompareQuery)` -/
def _root_.JPV.ParserNode.GItem.asBasicCompareQuery (x : GItem) : Option PCmp :=
  match x with
  | .query (.cmp l r c) => some ⟨l, r, c⟩
  | _ => none

/-- `y, ok := q.(*syntaxQueryParamCurrentRoot)` for `q syntaxQuery`: its `param` -/
def _root_.JPV.ParserNode.GQ.asParamCurrentRoot (q : GQ) : Option NRef :=
  match q with
  | .pcur n => some n
  | _ => none

/-- `x.(syntaxQuery)` for `x syntaxQueryJSONPathParameter`: both implementations have `compute` -/
def _root_.JPV.ParserNode.GQ.asQuery (q : GQ) : M GQ :=
  match q with
  | .nilq => .error .typeAssertion
  | q => .ok q

/-! ### strings -/

/-- `string(buf[lo:hi])` for `buf []rune` -/
def runeSlice (buf : Array Char) (lo hi : Int) : String :=
  String.ofList ((buf.toList.drop lo.toNat).take (hi.toNat - lo.toNat))

/-- `s[lo:hi] == lit`: Go slices a string by BYTES -/
def strSliceEq (s : String) (lo hi : Int) (lit : String) : AM Bool :=
  if lo < 0 ∨ hi < lo ∨ (s.utf8ByteSize : Int) < hi then .error .sliceBounds
  else .ok (s.toUTF8.extract lo.toNat hi.toNat == lit.toUTF8)

/-- `len(s)` for a string: bytes -/
def strLen (s : String) : Int := s.utf8ByteSize

/-! ### loops -/

/-- `for cond { body }` in an action, with fuel -/
def loopA {σ : Type} : Nat → σ → (σ → Bool) → (σ → AM σ) → AM σ
  | 0, s, cond, _ => if cond s then .error (.helper .outOfFuel) else .ok s
  | f + 1, s, cond, body =>
    if cond s then do
      let s' ← body s
      loopA f s' cond body
    else .ok s

/-! ### the methods of `*jsonPathParser` translated by other generators -/

structure ALib where
  /-- `p.unescape(text)` (generator `escape`) -/
  unescape : String → M String
  /-- `p.unescapeSingleQuotedString(text)`: may panic with `ErrorInvalidArgument` -/
  unescapeSingleQuotedString : String → M String
  /-- `p.unescapeDoubleQuotedString(text)` -/
  unescapeDoubleQuotedString : String → M String
  /-- `p.pushCompareEQ(leftParam, rightParam)` … (generator `operand_order`) -/
  pushCompareEQ : GCP → GCP → PS → M PS
  pushCompareNE : GCP → GCP → PS → M PS
  pushCompareGE : GCP → GCP → PS → M PS
  pushCompareGT : GCP → GCP → PS → M PS
  pushCompareLE : GCP → GCP → PS → M PS
  pushCompareLT : GCP → GCP → PS → M PS

/-! ### the token stream of `Execute()` -/

/-- a `token32` as `Execute()` looks at it: `rulePegText` with its bounds, `ruleAction<n>`, anything else -/
inductive GTok where
  | pegText (b e : Nat)
  | action (n : Nat)
  | other
  deriving DecidableEq, Repr, Inhabited

/-- the locals of `Execute()` that live across iterations, and the parser -/
structure ExecSt where
  text : String := ""
  begin : Int := 0
  end_ : Int := 0
  p : PS

end ActionNode
end JPV
