/-
Glob.Tie — the opaque operations of `Glob/State.lean` supplied from the existing model:
  * `runActionsPeg`: the recogniser (`Peg.recognise`) followed by the action machine of
    `Peg/Actions.lean`, STARTED ON THE STACKS FOUND IN THE STATE (`p.params`, `p.paramsList`, `p.root`)
    — `Peg.exec` starts it on empty stacks, which is what the reset of `Parse` makes true and what
    `C19State` proves from the generated wrapper. The functions and the accessor flag reach the
    actions through `Peg.Ctx` only (`c.env.ffn/afn` in `pushFunction`, `c.acc` in `mkInfo`), and the
    `Ctx` is built here from `jp.filterFunctions`, `jp.aggregateFunctions`, `jp.accessorMode`: the
    action model reads them from the fields the wrapper sets and from nowhere else.
    Imprecision, only visible in states the reset excludes: a function node left on a stale stack by
    an earlier call holds the function value of that call in Go, while `Tree.N` stores the name (it
    would be looked up in the configuration of the current call).
  * `retrieveImpl`: `Impl.retrieve` entered with the container's current content. It does not model
    the inner pool traffic (aggregate functions and `$`/`@` operands take containers of their own;
    `Impl` gives them a fresh empty buffer, `St.sub`), so the pools pass through unchanged.
-/
import JPV.Glob.State
import JPV.Lemmas.GlobState
import JPV.Peg.ParseModel
namespace JPV
namespace Glob
open JPV.Peg JPV.Gen.ParseWrapGo

/-- `Peg.execFrom`, keeping the state at the moment of the panic -/
def execFromS (c : Ctx) : Peg.St → List Tok → Peg.St × Option Stop
  | st, [] => (st, none)
  | st, t :: rest =>
    match step c st t with
    | .ok st' => execFromS c st' rest
    | .error s => (st, some s)

theorem execFrom_eq (c : Ctx) : ∀ (toks : List Tok) (st : Peg.St),
    execFrom c st toks = (match execFromS c st toks with
      | (st', none) => .ok st'
      | (_, some s) => .error s) := by
  intro toks
  induction toks with
  | nil => intro st; rfl
  | cons t rest ih =>
    intro st
    simp only [execFrom, execFromS]
    cases h : step c st t with
    | ok st' => exact ih st'
    | error s => rfl

/-- the context the actions see: functions and accessor flag FROM THE STATE -/
def ctxOf (ext : Ext) (regex : String → String → Bool) (jp : JsonPathParser) (input : Array Char) : Ctx :=
  ⟨⟨jp.filterFunctions, jp.aggregateFunctions, regex⟩, ext, jp.accessorMode, input⟩

/-- the action machine's state as found in the global parser -/
def stOf (jp : JsonPathParser) : Peg.St :=
  { stack := jp.params, saved := jp.paramsList, root := jp.root.map (·.ch), tb := 0, te := 0 }

/-- `parser.Parse(); parser.Execute()` -/
def runActionsPeg (ext : Ext) (regex : String → String → Bool) (jp : JsonPathParser) (buffer : String) :
    JsonPathParser × Option Stop :=
  let input := buffer.toList.toArray
  if !actionsAsExpected then (jp, some .unmodelled) else
  match recognise input with
  | .outOfFuel => (jp, some .unmodelled)
  | .fail => (jp, some .unmodelled)
  | .ok _ toks =>
    let r := execFromS (ctxOf ext regex jp input) (stOf jp) toks
    ({ jp with params := r.1.stack, paramsList := r.1.saved,
               root := r.1.root.map (fun ch => ⟨ch, jp.filterFunctions, jp.aggregateFunctions⟩) }, r.2)

/-- `root.retrieve(a, b, container)` -/
def retrieveImpl (regex : String → String → Bool) (t : Tree) (pools : Pools) (_ : Unit) (a b : Val) (c : Container) :
    Pools × Container × RetrRes :=
  match Impl.retrieve ⟨t.ffn, t.afn, regex⟩ t.ch default a b (some []) { out := c.result.elems } with
  | .error p => (pools, c, .panic (.impl p))
  | .ok (st, e) =>
    (pools, ⟨⟨c.result.org, st.out, c.result.spare.drop (st.out.length - c.result.elems.length)⟩⟩, .ret e)

/-- the operations from the existing model; every panic value of the library is an `error` -/
def modelOps (ext : Ext) (regex : String → String → Bool) : Ops Unit :=
  { runActions := runActionsPeg ext regex, isError := fun _ => true, retrieve := retrieveImpl regex }

/-! ### `retrieve` -/

/-- `Impl.run` as a `spec` for `RetrieveOK` -/
def runSpec (regex : String → String → Bool) (t : Tree) (d : Val) : List Impl.Res × RetrRes :=
  match Impl.run ⟨t.ffn, t.afn, regex⟩ t.ch d with
  | (.panic p, _) => ([], .panic (.impl p))
  | (.err e, st) => (st.out, .ret (some e))
  | (.ok rs, _) => (rs, .ret none)

theorem modelOps_retrieveOK (ext : Ext) (regex : String → String → Bool) :
    RetrieveOK (modelOps ext regex) (runSpec regex) where
  result := by
    intro t pools o d c _ hc
    simp only [modelOps, retrieveImpl, runSpec, Impl.run, hc]
    have e : ({ out := [] } : Impl.St) = {} := rfl
    rw [e]
    cases h : Impl.retrieve ⟨t.ffn, t.afn, regex⟩ t.ch default d d (some []) {} with
    | error p => simp [hc]
    | ok r =>
      rcases r with ⟨st, e⟩
      cases e <;> simp
  pools := by
    intro t pools o a b c hp
    simp only [modelOps, retrieveImpl]
    split <;> exact hp

/-- how an outcome of `Impl.run` looks to the caller of the returned function -/
def callRetOfRun : Impl.Outcome → CallRet
  | .ok rs => .returned (some ⟨.made, rs, []⟩) none
  | .err e => .returned none (some e)
  | .panic p => .panicked (.impl p)

theorem callSpec_runSpec (regex : String → String → Bool) (t : Tree) (d : Val) :
    callSpec (runSpec regex) (some t) d = callRetOfRun (Impl.run ⟨t.ffn, t.afn, regex⟩ t.ch d).1 := by
  simp only [callSpec, runSpec]
  rcases h : Impl.run ⟨t.ffn, t.afn, regex⟩ t.ch d with ⟨out, st⟩
  cases out <;> simp [callRetOfRun]

/-! ### `Parse` -/

/-- the functions and the flag of the configuration a call is given (none: no functions, no flag) -/
def envOf (regex : String → String → Bool) : List Config → Env
  | [] => ⟨fun _ => none, fun _ => none, regex⟩
  | c :: _ => ⟨c.filterFunctions, c.aggregateFunctions, regex⟩

def cfgOf : List Config → Cfg
  | [] => ⟨false⟩
  | c :: _ => ⟨c.accessorMode⟩

/-- what `PRet` means in the vocabulary of `Peg.ParseOutcome` -/
def PRet.outcome (input : Array Char) : PRet → ParseOutcome
  | .fn (some ⟨n :: rest, _, _⟩) => .ok (n :: rest)
  | .fn _ => .panic .nilRoot          -- the returned function would dereference nil
  | .err (.action s) => outcomeOfStop input s
  | .err _ => .unmodelled
  | .nothing => .unmodelled

theorem ctxOf_armed_zero (ext : Ext) (regex : String → String → Bool) (config : List Config) (input : Array Char) :
    ctxOf ext regex (armed JsonPathParser.zero config) input = ⟨envOf regex config, ext, (cfgOf config).accessor, input⟩ := by
  cases config <;> rfl

theorem stOf_armed_zero (config : List Config) : stOf (armed JsonPathParser.zero config) = {} := by
  cases config <;> rfl

/-- from the zero state the generated wrapper over the model's operations IS `Peg.parseModel` -/
theorem pureParse_model (ext : Ext) (regex : String → String → Bool) (s : String) (config : List Config) :
    (pureParse (modelOps ext regex) s config JsonPathParser.zero).outcome s.toList.toArray =
      parseModel (envOf regex config) ext (cfgOf config) s := by
  simp only [pureParse, modelOps, runActionsPeg, parseModel, parseInput]
  cases hA : actionsAsExpected
  · simp [PRet.outcome, outcomeOfStop]
  · simp only [Bool.not_true, Bool.false_eq_true, if_false]
    cases hR : recognise s.toList.toArray with
    | outOfFuel => simp [PRet.outcome, outcomeOfStop]
    | fail => simp [PRet.outcome, outcomeOfStop]
    | ok pos toks =>
      simp only [ctxOf_armed_zero, stOf_armed_zero, exec, execFrom_eq]
      rcases hE : execFromS ⟨envOf regex config, ext, (cfgOf config).accessor, s.toList.toArray⟩ {} toks with ⟨st, _ | stop⟩
      · rcases hroot : st.root with _ | ch
        · simp [PRet.outcome, outcomeOfStop, bind, Except.bind, hroot]
        · cases ch with
          | nil => simp [PRet.outcome, outcomeOfStop, bind, Except.bind, hroot]
          | cons n rest => simp [PRet.outcome, bind, Except.bind, hroot]
      · simp [PRet.outcome, bind, Except.bind]

/-- the tree a successful `Parse` closes over, with the functions of THAT call's configuration -/
theorem pureParse_model_fn (ext : Ext) (regex : String → String → Bool) (s : String) (config : List Config)
    (root : Option Tree) (h : pureParse (modelOps ext regex) s config JsonPathParser.zero = .fn root) :
    ∀ t, root = some t → t.ffn = (envOf regex config).ffn ∧ t.afn = (envOf regex config).afn := by
  intro t ht
  subst ht
  simp only [pureParse, modelOps, runActionsPeg] at h
  cases hA : actionsAsExpected
  · simp [hA] at h
  · simp only [hA, Bool.not_true, Bool.false_eq_true, if_false] at h
    cases hR : recognise s.toList.toArray with
    | outOfFuel => simp [hR] at h
    | fail => simp [hR] at h
    | ok pos toks =>
      simp only [hR] at h
      rcases hE : execFromS (ctxOf ext regex (armed JsonPathParser.zero config) s.toList.toArray)
        (stOf (armed JsonPathParser.zero config)) toks with ⟨st, _ | stop⟩
      · simp only [hE, PRet.fn.injEq] at h
        rcases hroot : st.root with _ | ch
        · simp [hroot] at h
        · simp only [hroot, Option.map_some, Option.some.injEq] at h
          subst h
          cases config <;> exact ⟨rfl, rfl⟩
      · simp [hE] at h

end Glob
end JPV
