/-
Glob.State — the state of package `jsonpath` that outlives a call, made explicit (C05 / C06 / C19).

What persists between calls of the library:
  * the package variable `parser` (a `pegJSONPathParser`): the embedded `jsonPathParser` (the seven
    fields below), `Buffer`, and the PEG runtime (`parse`/`reset` closures, token tree, memo table);
  * `parseMutex`;
  * the two `sync.Pool`s of cache.go.
`World` holds them, plus a log of events (lock / unlock / every access to `parser` / pool traffic),
newest event first. The primitives below are the vocabulary of the generated file
`Gen/ParseWrapGo.lean` (generator /verif/harness/cmd/translate/parsewrap.go): every primitive that
touches the package variable `parser` appends `Ev.parser …` to the log, so "every access lies
between Lock and Unlock" is a property of the log the generated `Parse` produces.

Abstractions (deliberate, stated):
  * `parser.Parse(); parser.Execute()` is ONE opaque operation `Ops.runActions` on the embedded
    `jsonPathParser` and the buffer; it returns the parser state it leaves behind AND the panic it
    ended with, if any (the deferred function of `Parse` runs on the state at the moment of the panic).
    Its TYPE says what it may read: the seven fields and the buffer, nothing else. The tie
    `Glob/Tie.lean` builds it from `Peg.recognise` + the action machine of `Peg/Actions.lean`,
    started on the stacks found in the state (not on empty stacks).
  * the PEG runtime is the three-valued `PegRt`: `uninit` (`parser.parse == nil`), `ready` (after
    `Init()`/`Reset()`), `used` (after a run: stale tokens and memo entries). A run on a runtime that
    is not `ready` is not modelled (`Stop.unmodelled`): the theorems then say nothing about its outcome.
  * a `*bufferContainer` is modelled by value (`Container`): sound as long as `sync.Pool` never hands
    one object to two holders and nobody uses an object after `Put` (fact table `facts_pool`).
    A slice is its addressable elements, the stale cells between `len` and `cap` (`spare`), and a
    provenance tag (`SOrg`): `made` only for the result of `make`.
  * `sync.Pool.Get` is nondeterministic: `Choice` says which pooled objects the runtime dropped
    before the call and which remaining object (if any) is returned; every theorem quantifies over it.
  * `root.retrieve` is the operation `Ops.retrieve`; it may itself use the pools (aggregate functions
    and `@`/`$` operands take containers) and has its own oracle `ι`.
-/
import JPV.Peg.Actions
import JPV.Impl.Retrieve
namespace JPV
namespace Glob
open JPV.Peg (Item Stop)
open JPV.Impl (Res RtErr)

/-! ### values -/

/-- `map[string]func(interface{}) (interface{}, error)`; a nil map and an empty map look up alike -/
abbrev FilterFns := String → Option (Val → Option Val)
/-- `map[string]func([]interface{}) (interface{}, error)` -/
abbrev AggFns := String → Option (List Val → Option Val)

/-- a `syntaxNode` as stored in `p.root`: the chain, and the function values its function nodes
    hold (Go stores the `func` in the node at parse time; `Tree.N` stores the name) -/
structure Tree where
  ch : List N
  ffn : FilterFns
  afn : AggFns

/-- /repo/config.go `Config` -/
structure Config where
  filterFunctions : FilterFns := fun _ => none
  aggregateFunctions : AggFns := fun _ => none
  accessorMode : Bool := false

/-- /repo/jsonpath_parser.go `jsonPathParser` — field for field. `unescapeRegex`: nil or the package
    variable. The default value of every field is Go's zero value: `{}` is `jsonPathParser{}`. -/
structure JsonPathParser where
  root : Option Tree := none
  paramsList : List (List Item) := []      -- most recent frame first, every frame top first
  params : List Item := []                 -- top first
  unescapeRegex : Bool := false
  filterFunctions : FilterFns := fun _ => none
  aggregateFunctions : AggFns := fun _ => none
  accessorMode : Bool := false

/-- `jsonPathParser{}` -/
def JsonPathParser.zero : JsonPathParser := {}

/-- state of the generated PEG runtime inside `parser` -/
inductive PegRt where
  | uninit      -- `parser.parse == nil`: Init() has never run
  | ready       -- just initialised / reset
  | used        -- holds the tokens and memo entries of the last run
  deriving DecidableEq, Repr, Inhabited

/-- the package variable `parser` -/
structure Parser where
  jsonPathParser : JsonPathParser := {}
  Buffer : String := ""
  rt : PegRt := .uninit

/-- what a panic inside `Parse` can carry -/
inductive PanicVal where
  | action (s : Stop)       -- raised inside parser.Parse()/parser.Execute()
  | nilFunc                 -- call of a nil func value (`Reset()` before any `Init()`): runtime.Error
  | index                   -- index out of range (`config[0]` on an empty list): runtime.Error
  deriving Inhabited

/-! ### slices, containers, pools -/

/-- who owns the backing array of a slice -/
inductive SOrg where
  | container      -- grown by `append` inside a bufferContainer (pooled)
  | made           -- result of a `make` in the function at hand
  deriving DecidableEq, Repr, Inhabited

/-- a `[]interface{}`: provenance, the elements `[0, len)`, the stale cells `[len, cap)` -/
structure Slice where
  org : SOrg
  elems : List Res
  spare : List Res := []

/-- panics of the returned function -/
inductive CPanic where
  | nilRoot                   -- `root` is nil
  | index                     -- index out of range
  | impl (p : Impl.Panic)     -- raised inside `retrieve`
  deriving Inhabited

def Slice.len (s : Slice) : Nat := s.elems.length

/-- `make([]interface{}, n)`: n nil interfaces, len = cap -/
def Slice.make (n : Nat) : Slice := ⟨.made, List.replicate n (.plain .null), []⟩

/-- `s[i]` -/
def Slice.get (s : Slice) (i : Nat) : Except CPanic Res :=
  match s.elems[i]? with
  | some x => .ok x
  | none => .error .index

/-- `s[i] = x` -/
def Slice.set (s : Slice) (i : Nat) (x : Res) : Except CPanic Slice :=
  if i < s.elems.length then .ok { s with elems := s.elems.set i x } else .error .index

/-- `s[:0]`: same backing array, every cell stale -/
def Slice.truncate0 (s : Slice) : Slice := { s with elems := [], spare := s.elems ++ s.spare }

/-- `for index := range <slice of length n> { body }` over the variables `body` assigns -/
def forRange {α : Type} (n : Nat) (init : α) (body : Nat → α → Except CPanic α) : Except CPanic α :=
  (List.range n).foldlM (fun acc i => body i acc) init

/-- a `bufferContainer` -/
structure Container where
  result : Slice

/-- `new(bufferContainer)`: the nil slice -/
def Container.new : Container := ⟨⟨.container, [], []⟩⟩

def Container.setResult (c : Container) (s : Slice) : Container := { c with result := s }

/-- the nondeterminism of one `sync.Pool.Get` -/
structure Choice where
  drop : List Nat := []          -- positions the runtime discards first (garbage collection), one after the other
  pick : Option Nat := none      -- position of the object returned; `none` or out of range: `New()`
  deriving Repr, Inhabited

def dropIdxs {α : Type} : List Nat → List α → List α
  | [], l => l
  | i :: is, l => dropIdxs is (l.eraseIdx i)

/-- `pool.Get()` with `New = new` -/
def poolGet {α : Type} (new : α) (ch : Choice) (pool : List α) : α × List α :=
  let pool := dropIdxs ch.drop pool
  match ch.pick with
  | none => (new, pool)
  | some i =>
    match pool[i]? with
    | none => (new, pool)
    | some x => (x, pool.eraseIdx i)

/-- `resultSyncPool`, `sortSliceSyncPool` -/
structure Pools where
  result : List Container := []
  sort : List (List String) := []

/-! ### events, world -/

inductive Ev where
  | lock
  | unlock
  | parser (what : String)      -- an access (read or write) to the package variable `parser`
  | pool (what : String)        -- Get / Put on one of the pools
  | retrieve                    -- a run of `root.retrieve`
  deriving DecidableEq, Repr, Inhabited

structure World where
  mutex : Bool := false          -- parseMutex is held
  parser : Parser := {}
  pools : Pools := {}
  log : List Ev := []            -- newest first

/-- a fresh process -/
def World.zero : World := {}

def World.ev (w : World) (e : Ev) : World := { w with log := e :: w.log }

/-! ### the operations the generated code is written over -/

/-- result of `root.retrieve(…)` -/
inductive RetrRes where
  | ret (err : Option RtErr)      -- returned `err` (nil: success)
  | panic (p : CPanic)
  deriving Inhabited

structure Ops (ι : Type) where
  /-- `parser.Parse(); parser.Execute()` on the embedded jsonPathParser and the buffer: the state it
      leaves and the panic it ended with -/
  runActions : JsonPathParser → String → JsonPathParser × Option Stop
  /-- does `exception.(error)` succeed for this panic value? (all of the library's do) -/
  isError : Stop → Bool
  /-- `root.retrieve(root, current, container)`; `ι`: its own nondeterminism (inner pool traffic) -/
  retrieve : Tree → Pools → ι → Val → Val → Container → Pools × Container × RetrRes

/-- `exception.(error)`; run-time panics are `runtime.Error`s, which are errors -/
def asError {ι : Type} (ops : Ops ι) : PanicVal → Option PanicVal
  | .action s => if ops.isError s then some (.action s) else none
  | .nilFunc => some .nilFunc
  | .index => some .index

/-- `xs[i]` on a list of configurations -/
def elemAt {α : Type} (xs : List α) (i : Nat) : Option α := xs[i]?

/-! ### primitives on the world (one per statement shape the generator accepts) -/

namespace World

/-- `parseMutex.Lock()`; `none`: the mutex is held — the call blocks (in a sequential history: for ever) -/
def lock (w : World) : Option World :=
  if w.mutex then none else some ({ w with mutex := true }.ev .lock)

/-- `parseMutex.Unlock()` -/
def unlock (w : World) : World := { w with mutex := false }.ev .unlock

def updJP (w : World) (what : String) (f : JsonPathParser → JsonPathParser) : World :=
  { w with parser := { w.parser with jsonPathParser := f w.parser.jsonPathParser } }.ev (.parser what)

/-- `parser.Buffer = s` -/
def setBuffer (w : World) (s : String) : World :=
  { w with parser := { w.parser with Buffer := s } }.ev (.parser "Buffer")

/-- `parser.parse == nil` -/
def parseIsNil (w : World) : Bool × World := (w.parser.rt == .uninit, w.ev (.parser "parse"))

/-- `parser.Init()` -/
def pegInit (w : World) : World × Option PanicVal :=
  ({ w with parser := { w.parser with rt := .ready } }.ev (.parser "Init"), none)

/-- `parser.Reset()`: calls `p.reset`, nil before the first `Init()` -/
def pegReset (w : World) : World × Option PanicVal :=
  match w.parser.rt with
  | .uninit => (w.ev (.parser "Reset"), some .nilFunc)
  | _ => ({ w with parser := { w.parser with rt := .ready } }.ev (.parser "Reset"), none)

/-- `parser.jsonPathParser = v` -/
def setJsonPathParser (w : World) (v : JsonPathParser) : World := w.updJP "jsonPathParser" (fun _ => v)

def setRoot (w : World) (v : Option Tree) : World := w.updJP "root" (fun p => { p with root := v })
def setParamsList (w : World) (v : List (List Item)) : World := w.updJP "paramsList" (fun p => { p with paramsList := v })
def setParams (w : World) (v : List Item) : World := w.updJP "params" (fun p => { p with params := v })
/-- `parser.jsonPathParser.unescapeRegex = unescapeRegex` (`true`) / `= nil` (`false`) -/
def setUnescapeRegex (w : World) (v : Bool) : World := w.updJP "unescapeRegex" (fun p => { p with unescapeRegex := v })
def setFilterFunctions (w : World) (v : FilterFns) : World := w.updJP "filterFunctions" (fun p => { p with filterFunctions := v })
def setAggregateFunctions (w : World) (v : AggFns) : World := w.updJP "aggregateFunctions" (fun p => { p with aggregateFunctions := v })
def setAccessorMode (w : World) (v : Bool) : World := w.updJP "accessorMode" (fun p => { p with accessorMode := v })

/-- `parser.jsonPathParser.root` -/
def getRoot (w : World) : Option Tree × World := (w.parser.jsonPathParser.root, w.ev (.parser "root"))

/-- `parser.Parse(); parser.Execute()` -/
def runActions {ι : Type} (w : World) (ops : Ops ι) : World × Option PanicVal :=
  match w.parser.rt with
  | .ready =>
    let r := ops.runActions w.parser.jsonPathParser w.parser.Buffer
    ({ w with parser := { w.parser with jsonPathParser := r.1, rt := .used } }.ev (.parser "Parse+Execute"),
      r.2.map PanicVal.action)
  | _ => ({ w with parser := { w.parser with rt := .used } }.ev (.parser "Parse+Execute"), some (.action .unmodelled))

/-- `resultSyncPool.Get().(*bufferContainer)` -/
def resultPoolGet (w : World) (new : Container) (ch : Choice) : Container × World :=
  let r := poolGet new ch w.pools.result
  (r.1, { w with pools := { w.pools with result := r.2 } }.ev (.pool "result.Get"))

/-- `resultSyncPool.Put(c)` -/
def resultPoolPut (w : World) (c : Container) : World :=
  { w with pools := { w.pools with result := c :: w.pools.result } }.ev (.pool "result.Put")

/-- `sortSliceSyncPool.Put(s)` -/
def sortPoolPut (w : World) (s : List String) : World :=
  { w with pools := { w.pools with sort := s :: w.pools.sort } }.ev (.pool "sort.Put")

/-- `root.retrieve(a, b, container)` through the captured variable `root` -/
def retrieve {ι : Type} (w : World) (ops : Ops ι) (root : Option Tree) (a b : Val) (container : Container) (o : ι) :
    Container × World × RetrRes :=
  match root with
  | none => (container, w.ev .retrieve, .panic .nilRoot)
  | some t =>
    let r := ops.retrieve t w.pools o a b container
    (r.2.1, { w with pools := r.1 }.ev .retrieve, r.2.2)

end World

/-! ### what the functions return -/

/-- outcome of one call of the function returned by `Parse` -/
inductive CallRet where
  | returned (result : Option Slice) (err : Option RtErr)
  | panicked (p : CPanic)
  deriving Inhabited

/-- the function returned by `Parse`, with the nondeterminism of its call as arguments -/
abbrev Closure (ι : Type) := Val → Choice → ι → World → World × CallRet

/-- how the body of `Parse` ends: `return f, err` or a panic -/
inductive BodyRet (ι : Type) where
  | returned (f : Option (Closure ι)) (err : Option PanicVal)
  | panicked (p : PanicVal)

/-- outcome of `Parse` -/
inductive ParseRet (ι : Type) where
  | returned (f : Option (Closure ι)) (err : Option PanicVal)
  | panicked (p : PanicVal)        -- a panic that leaves `Parse` (none does: C19_no_escape)
  | blocked                        -- `Lock()` never returned

/-- named results and panic status when the body of `Parse` has ended -/
def BodyRet.frame {ι : Type} : BodyRet ι → Option PanicVal × Option (Closure ι) × Option PanicVal
  | .returned f err => (none, f, err)
  | .panicked p => (some p, none, none)

/-- what the caller of `Parse` gets once the deferred functions have run -/
def ParseRet.ofFrame {ι : Type} (panicking : Option PanicVal) (f : Option (Closure ι)) (err : Option PanicVal) : ParseRet ι :=
  match panicking with
  | some p => .panicked p
  | none => .returned f err

/-! ### log discipline -/

/-- scan of a log (newest first): `some held` if every `parser` event and every `unlock` happened
    while the mutex was held and every `lock` while it was free; `none` otherwise -/
def okLog : List Ev → Option Bool
  | [] => some false
  | e :: l =>
    match okLog l, e with
    | some false, .lock => some true
    | some true, .unlock => some false
    | some true, .parser _ => some true
    | some h, .pool _ => some h
    | some h, .retrieve => some h
    | _, _ => none

def Ev.isParser : Ev → Bool
  | .parser _ => true
  | _ => false

/-- pool invariant: every recycled container is truncated -/
def Pools.Truncated (p : Pools) : Prop := ∀ c ∈ p.result, c.result.elems = []

end Glob
end JPV

/-! ### `Retrieve` (appended; nothing above depends on it) -/
namespace JPV
namespace Glob

/-- outcome of `Retrieve(path, src, config...)` -/
inductive RetrieveRet where
  | parseErr (err : PanicVal)     -- `return nil, err`: the error `Parse` returned
  | called (r : CallRet)          -- `return jsonPathFunc(src)`: whatever the call of the parsed function does
  | nilFunc                       -- `Parse` returned (nil, nil): calling the nil func value panics
  | panicked (p : PanicVal)       -- a panic that leaves `Parse` (none does: C19_no_escape)
  | blocked                       -- the `Lock()` inside `Parse` never returned
  deriving Inhabited

end Glob
end JPV
