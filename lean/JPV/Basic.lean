def hello := "world"
