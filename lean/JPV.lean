import JPV.Sexp
import JPV.Val
import JPV.Ast
import JPV.Slice.PySlice
import JPV.Spec
import JPV.Proto
import JPV.Registry
