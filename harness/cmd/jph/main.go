package main

import (
	"encoding/json"
	"flag"
	"fmt"
	"os"
	"strconv"

	"jpvharness/jph"
)

func main() {
	if len(os.Args) < 2 {
		fmt.Fprintln(os.Stderr, "usage: jph worker|run …")
		os.Exit(2)
	}
	switch os.Args[1] {
	case "worker":
		// jph worker PROP SEED FROM TO TIER
		seed, _ := strconv.ParseInt(os.Args[3], 10, 64)
		from, _ := strconv.Atoi(os.Args[4])
		to, _ := strconv.Atoi(os.Args[5])
		jph.Worker(os.Args[2], seed, from, to, os.Args[6], os.Stdout)
	case "run":
		fs := flag.NewFlagSet("run", flag.ExitOnError)
		prop := fs.String("prop", "", "property id")
		seed := fs.Int64("seed", 1, "seed")
		tier := fs.String("tier", "quick", "tier")
		n := fs.Int("n", 0, "number of cases (0: the property's default for the tier)")
		spec := fs.String("spec", "", "jpv-spec executable")
		impl := fs.String("impl", "", "jpv-impl executable")
		peg := fs.String("peg", "", "jpv-peg executable")
		peggo := fs.String("peggo", "", "jpv-peggo executable (optional)")
		replays := fs.String("replays", "replays", "replay directory")
		out := fs.String("out", "", "summary JSON file")
		workers := fs.Int("workers", 12, "worker processes")
		from := fs.Int("from", 0, "first case index")
		mult := fs.Int("mult", 1, "multiply the default case count (search budget)")
		fs.Parse(os.Args[2:])
		p, ok := jph.Props[*prop]
		if !ok {
			fmt.Fprintln(os.Stderr, "unknown property", *prop)
			os.Exit(2)
		}
		if *n == 0 {
			*n = p.Count(*tier) * *mult
		}
		self, _ := os.Executable()
		sum := jph.RunParent(jph.RunOpts{Prop: *prop, Seed: *seed, Tier: *tier, N: *n, SpecExe: *spec, ImplExe: *impl, PegExe: *peg, PegGoExe: *peggo,
			ReplayDir: *replays, Self: self, Workers: *workers, From: *from})
		bs, _ := json.MarshalIndent(sum, "", " ")
		if *out != "" {
			os.WriteFile(*out, bs, 0o644)
		} else {
			os.Stdout.Write(bs)
		}
	case "one":
		// jph one PROP SEED INDEX TIER : run one case in-process, print the record
		seed, _ := strconv.ParseInt(os.Args[3], 10, 64)
		i, _ := strconv.Atoi(os.Args[4])
		rec := jph.Props[os.Args[2]].Exec(seed, i, os.Args[5])
		rec.I = i
		bs, _ := json.MarshalIndent(rec, "", " ")
		os.Stdout.Write(bs)
	default:
		fmt.Fprintln(os.Stderr, "unknown command")
		os.Exit(2)
	}
}
