// queries.go — generator "queries": the `compute` methods of the filter queries, statement by
// statement, as Lean code over the vocabulary of lean/JPV/QueryNode.lean
// (lean/JPV/Gen/QueriesGo.lean, tie T1; consumed by Lemmas/QueryTie.lean, Props/QueryGen.lean;
// properties C03 C04 C09 C10). All names carry the prefix `qy`.
//
// What is read (one struct and its compute method per file; nothing else may be declared there,
// except the method isValueGroupParameter of the two path parameters with its known body):
//
//	syntax_query_logical_and.go           syntaxLogicalAnd{leftQuery, rightQuery syntaxQuery}          andCompute (l : AndRecv)
//	syntax_query_logical_or.go            syntaxLogicalOr{leftQuery, rightQuery syntaxQuery}           orCompute (l : OrRecv)
//	syntax_query_logical_not.go           syntaxLogicalNot{query syntaxQuery}                          notCompute (l : NotRecv)
//	syntax_basic_compare_query.go         syntaxBasicCompareQuery{leftParam, rightParam *syntaxBasicCompareParameter; comparator syntaxComparator}
//	                                                                                                   compareQueryCompute (q : CmpRecv)
//	syntax_basic_compare_parameter.go     syntaxBasicCompareParameter{param syntaxQuery; isLiteral bool}  compareParameterCompute (p : ParamRecv)
//	syntax_query_param_literal.go         syntaxQueryParamLiteral{literal []interface{}}               literalCompute (l : LitRecv)
//	syntax_query_param_root.go            syntaxQueryParamRoot{param syntaxNode}                       rootCompute (e : PathRecv)
//	syntax_query_param_current_root.go    syntaxQueryParamCurrentRoot{param syntaxNode}                currentRootCompute (e : PathRecv)
//
// Every method is `func (R *T) compute(ROOT interface{}, CUR []interface{}) []interface{}` and becomes
// `def NAME (R : Recv) (ROOT : Val) (CUR : List Val) (st : St) : M (VL × St)`; `st` carries the
// sub-evaluations' buffer, the user-call log and the write log.
//
// Kinds of variables: val (interface{} holding a document value: ROOT), in (the input list CUR,
// read-only), list (a []interface{} of filter cells received from a sub-query: VL), own (a slice
// made by `make` here: Own), buf (a pooled container: Buf), bool, index (a range variable).
//
// Accepted statements, exactly:
//
//	X := R.F.compute(V, IN)            F of type syntaxQuery / *syntaxBasicCompareParameter      let (X, st) ← R.F V IN st
//	B := R.F.validate(X)               F of type syntaxComparator, X a list                      let (B, X, st) := R.validate X st
//	X := getContainer()                                                                         let X : Buf := []
//	defer func() { putContainer(X) }()  |  defer putContainer(X)                                (comment only; required for every X)
//	X := make([]interface{}, len(Y))   Y in / list                                              let X : Own := makeOwn N
//	var B bool                                                                                  let B := false
//	B = true | false                                                                            let B := …
//	X[I] = CELL                        X list: logged write; X own: initialisation              let (X, st) ← setCell X I CELL st | let X ← X.set I CELL
//	X.result = X.result[:N]            X buf                                                    let X : Buf := X.take N
//	IN = []interface{}{V}                                                                       let IN := [V]
//	for I := range X { … }             X list / in; no nested loop, no return inside            let TUPLE ← forRange N TUPLE (fun I TUPLE => do …)
//	continue                                                                                    .ok TUPLE
//	if COND { … } [else { … }]         see below
//	return RET                         (only outside loops)
//
//	I     ::= index variable | integer literal
//	V     ::= val variable | IN[I] | X.result[I] (X buf)
//	CELL  ::= V | X[I] (X list) | R.F[I] (F of type []interface{}) | emptyEntity | true | false
//	COND  ::= B | !COND | COND && COND | COND || COND | B == B | B != B      (these five: pure operands only)
//	        | len(X) == n | len(X) != n | len(X.result) == n | …             (X list / in / buf)
//	        | CELL == emptyEntity | CELL != emptyEntity
//	        | R.F.retrieve(V, V, X) != nil | … == nil                          (F syntaxNode, X buf: runs the chain on X)
//	        | R.F.comparator(X, CELL)                                          (F syntaxComparator, X list)
//	        | `_, ok := R.F.(*T); ok` as if-init + condition                   (F, T) ∈ {(comparator, syntaxCompareDeepEQ), (param, syntaxQueryParamRoot)}
//	RET   ::= X (list) | IN (→ inputVL IN) | X (own → X.publish) | emptyList | fullList | R.F ([]interface{} field)
//	        | []interface{}{CELL, …} (→ freshVL […]) | R.F.compute(V, IN)
//
// Indexing and calls inside a condition are evaluated before the `if` line (they may panic / change `st`).
// An `if` whose branches both fall through is a join: the variables assigned inside are returned as a
// tuple. An `if` whose body may leave (return / continue) but may also fall through gets the rest of
// the block duplicated into both branches. Anything else — another statement, another expression, a
// variable of the wrong kind, an alias of a list (`x := y`), a write to the input list — stops with
// `untranslatable: file:line: why`.
package main

import (
	"fmt"
	"go/ast"
	"go/token"
	"regexp"
	"strconv"
	"strings"
)

func init() { register("queries", genQueries) }

type qyKind int

const (
	qyNone qyKind = iota
	qyVal
	qyIn
	qyList
	qyOwn
	qyBuf
	qyBool
	qyIndex
)

type qyField struct{ name, typ string }

type qySpec struct {
	file, goType, leanName, recvType string
	fields                           []qyField
	vgMethod                         bool // the file also declares isValueGroupParameter
}

var qySpecs = []qySpec{
	{"syntax_query_logical_and.go", "syntaxLogicalAnd", "andCompute", "AndRecv",
		[]qyField{{"leftQuery", "syntaxQuery"}, {"rightQuery", "syntaxQuery"}}, false},
	{"syntax_query_logical_or.go", "syntaxLogicalOr", "orCompute", "OrRecv",
		[]qyField{{"leftQuery", "syntaxQuery"}, {"rightQuery", "syntaxQuery"}}, false},
	{"syntax_query_logical_not.go", "syntaxLogicalNot", "notCompute", "NotRecv",
		[]qyField{{"query", "syntaxQuery"}}, false},
	{"syntax_basic_compare_query.go", "syntaxBasicCompareQuery", "compareQueryCompute", "CmpRecv",
		[]qyField{{"leftParam", "*syntaxBasicCompareParameter"}, {"rightParam", "*syntaxBasicCompareParameter"}, {"comparator", "syntaxComparator"}}, false},
	{"syntax_basic_compare_parameter.go", "syntaxBasicCompareParameter", "compareParameterCompute", "ParamRecv",
		[]qyField{{"param", "syntaxQuery"}, {"isLiteral", "bool"}}, false},
	{"syntax_query_param_literal.go", "syntaxQueryParamLiteral", "literalCompute", "LitRecv",
		[]qyField{{"literal", "[]interface{}"}}, false},
	{"syntax_query_param_root.go", "syntaxQueryParamRoot", "rootCompute", "PathRecv",
		[]qyField{{"param", "syntaxNode"}}, true},
	{"syntax_query_param_current_root.go", "syntaxQueryParamCurrentRoot", "currentRootCompute", "PathRecv",
		[]qyField{{"param", "syntaxNode"}}, true},
}

// type tests `_, ok := R.F.(*T)` that the receiver records know: field, type → record field.
var qyTypeTests = []struct{ field, typ, lean string }{
	{"comparator", "syntaxCompareDeepEQ", "comparatorIsDeepEQ"},
	{"param", "syntaxQueryParamRoot", "paramIsRoot"},
}

var qyIdentRe = regexp.MustCompile(`^[A-Za-z][A-Za-z0-9]*$`)

var qyReserved = map[string]bool{
	"st": true, "do": true, "let": true, "match": true, "with": true, "fun": true, "if": true, "then": true,
	"else": true, "M": true, "Buf": true, "withBuf": true, "none": true, "some": true, "at": true, "by": true,
	"from": true, "have": true, "show": true, "end": true, "in": true, "Val": true, "St": true, "Res": true,
	"Panic": true, "Type": true, "Prop": true, "def": true, "open": true, "theorem": true, "where": true,
	"deriving": true, "instance": true, "structure": true, "inductive": true, "return": true, "for": true,
	"unless": true, "try": true, "catch": true, "finally": true, "mut": true, "nomatch": true, "nofun": true,
	"true": true, "false": true, "ok": true, "error": true, "VL": true, "Cell": true, "Own": true,
	"emptyL": true, "fullL": true, "emptyList": true, "fullList": true, "emptyEntity": true,
	"getCell": true, "setCell": true, "getVal": true, "bufGet": true, "inputVL": true, "freshVL": true,
	"makeOwn": true, "forRange": true, "forFrom": true, "Compute": true, "nil": true, "len": true,
	"make": true, "getContainer": true, "putContainer": true, "bool": true, "and": true, "or": true, "not": true,
}

// qyFrame: one Lean scope that has to hand variables back (function body, branch of a join, loop body).
type qyFrame struct {
	outer    map[string]bool // variables that existed when the frame was opened ("st" always)
	assigned map[string]bool
	saved    map[string]qyKind // the variable table to restore
	savedOrd []string
	lines    []string
}

type qyCtx struct {
	s      *tiSrc
	spec   *qySpec
	recv   string
	vars   map[string]qyKind
	order  []string // declaration order of the variables in scope
	frames []*qyFrame
	indent int
	tmp    int
	// what `continue` / falling through means here: "" = not allowed (function body: a return is needed)
	kont   string
	inLoop bool
	// containers taken from the pool, and those a defer puts back
	bufs     []string
	deferred map[string]bool
}

func (c *qyCtx) emit(format string, args ...interface{}) {
	f := c.frames[len(c.frames)-1]
	f.lines = append(f.lines, strings.Repeat("  ", c.indent)+fmt.Sprintf(format, args...))
}

func (c *qyCtx) open() {
	f := &qyFrame{outer: map[string]bool{"st": true}, assigned: map[string]bool{}, saved: map[string]qyKind{}}
	for k, v := range c.vars {
		f.outer[k] = true
		f.saved[k] = v
	}
	f.savedOrd = append([]string(nil), c.order...)
	c.frames = append(c.frames, f)
}

// close pops the frame: its lines, and the outer variables it assigned, in declaration order, `st` last.
func (c *qyCtx) close() ([]string, []string) {
	f := c.frames[len(c.frames)-1]
	c.frames = c.frames[:len(c.frames)-1]
	c.vars = f.saved
	c.order = f.savedOrd
	var as []string
	for _, n := range c.order {
		if f.assigned[n] {
			as = append(as, n)
		}
	}
	if f.assigned["st"] {
		as = append(as, "st")
	}
	return f.lines, as
}

// bound records that NAME is (re)bound by a `let` on the current line.
func (c *qyCtx) bound(name string) {
	for _, f := range c.frames {
		if f.outer[name] {
			f.assigned[name] = true
		}
	}
}

func (c *qyCtx) ident(n ast.Node, name string) error {
	if !qyIdentRe.MatchString(name) || qyReserved[name] {
		return c.s.bad(n, "identifier %q cannot be carried over to Lean", name)
	}
	return nil
}

func (c *qyCtx) declare(n ast.Node, name string, k qyKind) error {
	if err := c.ident(n, name); err != nil {
		return err
	}
	if _, dup := c.vars[name]; dup || name == c.recv {
		return c.s.bad(n, "%q is declared twice (shadowing is not translated)", name)
	}
	c.vars[name] = k
	c.order = append(c.order, name)
	return nil
}

func (c *qyCtx) fresh() string {
	c.tmp++
	return "t_" + strconv.Itoa(c.tmp)
}

func (c *qyCtx) kindOf(e ast.Expr) (string, qyKind) {
	id, ok := e.(*ast.Ident)
	if !ok {
		return "", qyNone
	}
	k, ok := c.vars[id.Name]
	if !ok {
		return id.Name, qyNone
	}
	return id.Name, k
}

func (c *qyCtx) varOf(e ast.Expr, k qyKind, what string) (string, error) {
	n, got := c.kindOf(e)
	if got != k {
		return "", c.s.bad(e, "expected %s, found %s", what, c.s.str(e))
	}
	return n, nil
}

// field: e is `R.F`; returns F's declared Go type.
func (c *qyCtx) field(e ast.Expr) (string, string, bool) {
	se, ok := e.(*ast.SelectorExpr)
	if !ok || !tiIsIdent(se.X, c.recv) {
		return "", "", false
	}
	for _, f := range c.spec.fields {
		if f.name == se.Sel.Name {
			return f.name, f.typ, true
		}
	}
	return "", "", false
}

// method: e is the call `R.F.METHOD(args…)`.
func (c *qyCtx) method(e ast.Expr) (fname, ftyp, meth string, args []ast.Expr, ok bool) {
	ce, isCall := e.(*ast.CallExpr)
	if !isCall || ce.Ellipsis.IsValid() {
		return
	}
	se, isSel := ce.Fun.(*ast.SelectorExpr)
	if !isSel {
		return
	}
	fname, ftyp, ok = c.field(se.X)
	return fname, ftyp, se.Sel.Name, ce.Args, ok
}

func qyIsComputable(typ string) bool {
	return typ == "syntaxQuery" || typ == "*syntaxBasicCompareParameter"
}

func (c *qyCtx) index(e ast.Expr) (string, error) {
	if lit, ok := e.(*ast.BasicLit); ok && lit.Kind == token.INT {
		n, err := strconv.ParseUint(lit.Value, 10, 31)
		if err != nil {
			return "", c.s.bad(e, "index %s", lit.Value)
		}
		return strconv.FormatUint(n, 10), nil
	}
	if n, k := c.kindOf(e); k == qyIndex {
		return n, nil
	}
	return "", c.s.bad(e, "expected a range variable or an integer literal as index, found %s", c.s.str(e))
}

// bufResult: e is `X.result` with X a container.
func (c *qyCtx) bufResult(e ast.Expr) (string, bool) {
	se, ok := e.(*ast.SelectorExpr)
	if !ok || se.Sel.Name != "result" {
		return "", false
	}
	if n, k := c.kindOf(se.X); k == qyBuf {
		return n, true
	}
	return "", false
}

// valExpr: a Lean term of type Val (may emit `let t ← …` lines first).
func (c *qyCtx) valExpr(e ast.Expr) (string, error) {
	if n, k := c.kindOf(e); k == qyVal {
		return n, nil
	}
	if ix, ok := e.(*ast.IndexExpr); ok {
		if n, k := c.kindOf(ix.X); k == qyIn {
			i, err := c.index(ix.Index)
			if err != nil {
				return "", err
			}
			t := c.fresh()
			c.emit("let %s ← getVal %s %s   -- %s", t, n, i, c.s.str(e))
			return t, nil
		}
		if b, ok := c.bufResult(ix.X); ok {
			i, err := c.index(ix.Index)
			if err != nil {
				return "", err
			}
			t := c.fresh()
			c.emit("let %s ← bufGet %s %s   -- %s", t, b, i, c.s.str(e))
			return t, nil
		}
	}
	return "", c.s.bad(e, "expected a document value, found %s", c.s.str(e))
}

// cellExpr: a Lean term of type Cell.
func (c *qyCtx) cellExpr(e ast.Expr) (string, error) {
	if _, known := c.vars["emptyEntity"]; !known && tiIsIdent(e, "emptyEntity") {
		return "Cell.empty", nil
	}
	if tiIsIdent(e, "true") || tiIsIdent(e, "false") {
		return "(Cell.val (Val.bool " + e.(*ast.Ident).Name + "))", nil
	}
	if ix, ok := e.(*ast.IndexExpr); ok {
		if n, k := c.kindOf(ix.X); k == qyList {
			i, err := c.index(ix.Index)
			if err != nil {
				return "", err
			}
			t := c.fresh()
			c.emit("let %s ← getCell %s %s   -- %s", t, n, i, c.s.str(e))
			return t, nil
		}
		if f, typ, ok := c.field(ix.X); ok && typ == "[]interface{}" {
			i, err := c.index(ix.Index)
			if err != nil {
				return "", err
			}
			t := c.fresh()
			c.emit("let %s ← getCell %s.%s %s   -- %s", t, c.recv, f, i, c.s.str(e))
			return t, nil
		}
	}
	v, err := c.valExpr(e)
	if err != nil {
		return "", c.s.bad(e, "expected a cell value, found %s", c.s.str(e))
	}
	return "(Cell.val " + v + ")", nil
}

// retrieveCall: `R.F.retrieve(V, V, X)`: runs the chain on buffer X; returns the name of the error option.
func (c *qyCtx) retrieveCall(e ast.Expr) (string, bool, error) {
	f, typ, meth, args, ok := c.method(e)
	if !ok || typ != "syntaxNode" || meth != "retrieve" {
		return "", false, nil
	}
	if len(args) != 3 {
		return "", true, c.s.bad(e, "expected %s.%s.retrieve(root, current, container)", c.recv, f)
	}
	x, err := c.varOf(args[2], qyBuf, "a container obtained from getContainer()")
	if err != nil {
		return "", true, err
	}
	r, err := c.valExpr(args[0])
	if err != nil {
		return "", true, err
	}
	cu, err := c.valExpr(args[1])
	if err != nil {
		return "", true, err
	}
	t := c.fresh()
	c.emit("let (s_%s, %s) ← %s.%sRetrieve %s %s (withBuf st %s)   -- %s", x, t, c.recv, f, r, cu, x, c.s.str(e))
	c.emit("let %s : Buf := s_%s.out", x, x)
	c.emit("let st := st.back s_%s", x)
	c.bound(x)
	c.bound("st")
	return t, true, nil
}

func qyIsNil(e ast.Expr) bool { return tiIsIdent(e, "nil") }

// pureCond: conditions over bool variables only.
func (c *qyCtx) pureCond(e ast.Expr) (string, bool) {
	switch e := e.(type) {
	case *ast.Ident:
		if _, k := c.kindOf(e); k == qyBool {
			return e.Name, true
		}
	case *ast.ParenExpr:
		return c.pureCond(e.X)
	case *ast.UnaryExpr:
		if e.Op == token.NOT {
			if x, ok := c.pureCond(e.X); ok {
				return "(!" + x + ")", true
			}
		}
	case *ast.BinaryExpr:
		var op string
		switch e.Op {
		case token.LAND:
			op = "&&"
		case token.LOR:
			op = "||"
		case token.EQL:
			op = "=="
		case token.NEQ:
			op = "!="
		default:
			return "", false
		}
		x, ok1 := c.pureCond(e.X)
		y, ok2 := c.pureCond(e.Y)
		if ok1 && ok2 {
			return "(" + x + " " + op + " " + y + ")", true
		}
	}
	return "", false
}

// lenOf: `len(X)` / `len(X.result)` as a Lean Nat term.
func (c *qyCtx) lenOf(e ast.Expr) (string, bool) {
	ce, ok := e.(*ast.CallExpr)
	if !ok || !tiIsIdent(ce.Fun, "len") || len(ce.Args) != 1 || ce.Ellipsis.IsValid() {
		return "", false
	}
	if _, shadow := c.vars["len"]; shadow {
		return "", false
	}
	if n, k := c.kindOf(ce.Args[0]); k == qyList {
		return n + ".cells.length", true
	} else if k == qyIn {
		return n + ".length", true
	}
	if b, ok := c.bufResult(ce.Args[0]); ok {
		return b + ".length", true
	}
	return "", false
}

// cond: a Lean Bool term; indexing and calls are emitted before it.
func (c *qyCtx) cond(e ast.Expr) (string, error) {
	if p, ok := c.pureCond(e); ok {
		return p, nil
	}
	switch e := e.(type) {
	case *ast.ParenExpr:
		return c.cond(e.X)
	case *ast.UnaryExpr:
		if e.Op == token.NOT {
			x, err := c.cond(e.X)
			if err != nil {
				return "", err
			}
			return "(!" + x + ")", nil
		}
	case *ast.CallExpr:
		// R.F.comparator(X, CELL)
		if _, typ, meth, args, ok := c.method(e); ok && typ == "syntaxComparator" && meth == "comparator" {
			if len(args) != 2 {
				return "", c.s.bad(e, "expected comparator(left, right)")
			}
			x, err := c.varOf(args[0], qyList, "a list variable")
			if err != nil {
				return "", err
			}
			cell, err := c.cellExpr(args[1])
			if err != nil {
				return "", err
			}
			t := c.fresh()
			c.emit("let (%s, %s, st) ← %s.comparator %s %s st   -- %s", t, x, c.recv, x, cell, c.s.str(e))
			c.bound(x)
			c.bound("st")
			return t, nil
		}
	case *ast.BinaryExpr:
		if e.Op != token.EQL && e.Op != token.NEQ {
			break
		}
		eq := e.Op == token.EQL
		// len(X) == n
		if l, ok := c.lenOf(e.X); ok {
			lit, ok := e.Y.(*ast.BasicLit)
			if !ok || lit.Kind != token.INT {
				return "", c.s.bad(e, "a length is compared with an integer literal only")
			}
			n, err := strconv.ParseUint(lit.Value, 10, 31)
			if err != nil {
				return "", c.s.bad(e, "integer %s", lit.Value)
			}
			if eq {
				return fmt.Sprintf("(%s == %d)", l, n), nil
			}
			return fmt.Sprintf("(%s != %d)", l, n), nil
		}
		// CALL != nil
		if qyIsNil(e.Y) {
			t, is, err := c.retrieveCall(e.X)
			if err != nil {
				return "", err
			}
			if is {
				if eq {
					return t + ".isNone", nil
				}
				return t + ".isSome", nil
			}
		}
		// CELL == emptyEntity
		if _, shadow := c.vars["emptyEntity"]; !shadow && tiIsIdent(e.Y, "emptyEntity") {
			cell, err := c.cellExpr(e.X)
			if err != nil {
				return "", err
			}
			if eq {
				return cell + ".isEmpty", nil
			}
			return "(!" + cell + ".isEmpty)", nil
		}
	}
	return "", c.s.bad(e, "condition %q", c.s.str(e))
}

func qyTuple(vars []string) string {
	if len(vars) == 1 {
		return vars[0]
	}
	return "(" + strings.Join(vars, ", ") + ")"
}

// leaves: may control leave the statement list other than by falling through (return / continue)?
func qyLeaves(list []ast.Stmt) bool {
	found := false
	for _, st := range list {
		ast.Inspect(st, func(n ast.Node) bool {
			switch n.(type) {
			case *ast.ReturnStmt, *ast.BranchStmt:
				found = true
			case *ast.FuncLit:
				return false
			}
			return true
		})
	}
	return found
}

// always: does every path through the list end in return / continue?
func qyAlways(list []ast.Stmt) bool {
	if len(list) == 0 {
		return false
	}
	switch st := list[len(list)-1].(type) {
	case *ast.ReturnStmt:
		return true
	case *ast.BranchStmt:
		return st.Tok == token.CONTINUE && st.Label == nil
	case *ast.IfStmt:
		if st.Else == nil {
			return false
		}
		eb, ok := st.Else.(*ast.BlockStmt)
		return ok && qyAlways(st.Body.List) && qyAlways(eb.List)
	}
	return false
}

// declares: does the list declare a variable at its top level (which the following statements could see)?
func qyDeclares(list []ast.Stmt) bool {
	for _, st := range list {
		switch st := st.(type) {
		case *ast.AssignStmt:
			if st.Tok == token.DEFINE {
				return true
			}
		case *ast.DeclStmt:
			return true
		}
	}
	return false
}

// nested translates a Go block in its own Lean `do` scope with the current continuation.
func (c *qyCtx) nested(list []ast.Stmt, at ast.Node) error {
	c.open()
	c.indent++
	err := c.block(list, at)
	c.indent--
	lines, _ := c.close()
	if err != nil {
		return err
	}
	f := c.frames[len(c.frames)-1]
	f.lines = append(f.lines, lines...)
	return nil
}

const qyHole = "\x00TUPLE\x00"

// joined translates a Go block that falls through, handing back the variables it assigned.
func (c *qyCtx) joined(list []ast.Stmt, at ast.Node) ([]string, []string, error) {
	c.open()
	savedK, savedLoop := c.kont, c.inLoop
	c.kont, c.inLoop = ".ok "+qyHole, false
	c.indent++
	err := c.block(list, at)
	c.indent--
	c.kont, c.inLoop = savedK, savedLoop
	lines, as := c.close()
	return lines, as, err
}

func qyFill(lines []string, tuple string) []string {
	out := make([]string, len(lines))
	for i, l := range lines {
		out[i] = strings.ReplaceAll(l, qyHole, tuple)
	}
	return out
}

func qyUnion(order []string, a, b []string) []string {
	in := map[string]bool{}
	for _, x := range a {
		in[x] = true
	}
	for _, x := range b {
		in[x] = true
	}
	var out []string
	for _, n := range order {
		if in[n] {
			out = append(out, n)
		}
	}
	if in["st"] {
		out = append(out, "st")
	}
	return out
}

func (c *qyCtx) appendLines(lines []string) {
	f := c.frames[len(c.frames)-1]
	f.lines = append(f.lines, lines...)
}

// block translates a statement list; `at` locates error messages about its end.
func (c *qyCtx) block(list []ast.Stmt, at ast.Node) error {
	s := c.s
	if len(list) == 0 {
		if c.kont == "" {
			return s.bad(at, "the method can end without a return")
		}
		c.emit("%s", c.kont)
		return nil
	}
	st, rest := list[0], list[1:]
	switch st := st.(type) {
	case *ast.ReturnStmt:
		if len(rest) != 0 {
			return s.bad(rest[0], "statement after return")
		}
		if c.kont != "" {
			return s.bad(st, "return inside a loop or a joining if")
		}
		return c.ret(st)

	case *ast.BranchStmt:
		if st.Tok != token.CONTINUE || st.Label != nil {
			return s.bad(st, "statement %q", s.str(st))
		}
		if !c.inLoop {
			return s.bad(st, "continue outside the body of a range loop")
		}
		if len(rest) != 0 {
			return s.bad(rest[0], "statement after continue")
		}
		c.emit("%s   -- continue", c.kont)
		return nil

	case *ast.IfStmt:
		return c.ifStmt(st, rest, at)

	case *ast.RangeStmt:
		if err := c.rangeStmt(st); err != nil {
			return err
		}
		return c.block(rest, at)
	}
	if err := c.simple(st); err != nil {
		return err
	}
	return c.block(rest, at)
}

func (c *qyCtx) ifStmt(st *ast.IfStmt, rest []ast.Stmt, at ast.Node) error {
	s := c.s
	var cond string
	if st.Init != nil {
		// if _, ok := R.F.(*T); ok {
		as, ok := st.Init.(*ast.AssignStmt)
		if !ok || as.Tok != token.DEFINE || len(as.Lhs) != 2 || len(as.Rhs) != 1 || !tiIsIdent(as.Lhs[0], "_") {
			return s.bad(st, "if statement %q", s.str(st.Init))
		}
		okv, ok1 := as.Lhs[1].(*ast.Ident)
		ta, ok2 := as.Rhs[0].(*ast.TypeAssertExpr)
		if !ok1 || !ok2 || ta.Type == nil || !tiIsIdent(st.Cond, okv.Name) || okv.Name == "_" {
			return s.bad(st, "expected `if _, ok := %s.field.(*T); ok {`", c.recv)
		}
		if _, clash := c.vars[okv.Name]; clash {
			return s.bad(st, "%q shadows a variable", okv.Name)
		}
		f, _, isField := c.field(ta.X)
		se, isPtr := ta.Type.(*ast.StarExpr)
		if !isField || !isPtr {
			return s.bad(st, "expected `if _, ok := %s.field.(*T); ok {`", c.recv)
		}
		for _, tt := range qyTypeTests {
			if tt.field == f && tiIsIdent(se.X, tt.typ) {
				cond = c.recv + "." + tt.lean
			}
		}
		if cond == "" {
			return s.bad(st, "type test %s is not one the receiver records offer", s.str(as.Rhs[0]))
		}
		// the body must not mention ok
		used := false
		ast.Inspect(st.Body, func(n ast.Node) bool {
			if id, ok := n.(*ast.Ident); ok && id.Name == okv.Name {
				used = true
			}
			return true
		})
		if st.Else != nil {
			ast.Inspect(st.Else, func(n ast.Node) bool {
				if id, ok := n.(*ast.Ident); ok && id.Name == okv.Name {
					used = true
				}
				return true
			})
		}
		if used {
			return s.bad(st, "%q is used inside the if", okv.Name)
		}
		c.emit("-- if %s; %s", s.str(st.Init), s.str(st.Cond))
	} else {
		var err error
		c.emit("-- if %s", s.str(st.Cond))
		cond, err = c.cond(st.Cond)
		if err != nil {
			return err
		}
	}
	a := st.Body.List
	var b []ast.Stmt
	if st.Else != nil {
		eb, ok := st.Else.(*ast.BlockStmt)
		if !ok {
			return s.bad(st.Else, "else if")
		}
		b = eb.List
	}
	aAlways, bAlways := qyAlways(a), qyAlways(b)
	aLeaves, bLeaves := qyLeaves(a), qyLeaves(b)
	switch {
	case aAlways && bAlways:
		if len(rest) != 0 {
			return s.bad(rest[0], "unreachable statement")
		}
		c.emit("if %s then do", cond)
		if err := c.nested(a, st.Body); err != nil {
			return err
		}
		c.emit("else do")
		return c.nested(b, st.Else)
	case aAlways:
		if qyDeclares(b) && len(rest) != 0 {
			return s.bad(st.Else, "a declaration in an else block that is followed by more statements")
		}
		c.emit("if %s then do", cond)
		if err := c.nested(a, st.Body); err != nil {
			return err
		}
		c.emit("else do")
		return c.nested(append(append([]ast.Stmt(nil), b...), rest...), at)
	case bAlways:
		if qyDeclares(a) && len(rest) != 0 {
			return s.bad(st.Body, "a declaration in an if block that is followed by more statements")
		}
		c.emit("if %s then do", cond)
		if err := c.nested(append(append([]ast.Stmt(nil), a...), rest...), at); err != nil {
			return err
		}
		c.emit("else do")
		return c.nested(b, st.Else)
	case !aLeaves && !bLeaves:
		// join
		la, asA, err := c.joined(a, st.Body)
		if err != nil {
			return err
		}
		lb, asB, err := c.joined(b, st)
		if err != nil {
			return err
		}
		vars := qyUnion(c.order, asA, asB)
		if len(vars) == 0 {
			return s.bad(st, "an if without any effect")
		}
		tuple := qyTuple(vars)
		c.emit("let %s ← (if %s then do", tuple, cond)
		c.indent++
		c.appendLines(qyFillIndent(la, tuple))
		c.emit("else do")
		c.appendLines(qyFillIndent(lb, tuple))
		c.emit(": M _)")
		c.indent--
		for _, v := range vars {
			c.bound(v)
		}
		return c.block(rest, at)
	default:
		// may leave, may fall through: the rest goes into both branches
		if qyDeclares(a) || qyDeclares(b) {
			return s.bad(st, "a declaration in a block that may both leave and fall through")
		}
		c.emit("if %s then do", cond)
		if err := c.nested(append(append([]ast.Stmt(nil), a...), rest...), at); err != nil {
			return err
		}
		c.emit("else do")
		return c.nested(append(append([]ast.Stmt(nil), b...), rest...), at)
	}
}

// qyFillIndent: lines of a joined block, one level deeper (they sit inside `let … ← (if …`).
func qyFillIndent(lines []string, tuple string) []string {
	out := qyFill(lines, tuple)
	for i := range out {
		out[i] = "  " + out[i]
	}
	return out
}

func (c *qyCtx) rangeStmt(st *ast.RangeStmt) error {
	s := c.s
	if c.inLoop {
		return s.bad(st, "nested loop")
	}
	key, ok := st.Key.(*ast.Ident)
	if !ok || st.Value != nil || st.Tok != token.DEFINE || key.Name == "_" {
		return s.bad(st, "expected `for index := range xs`")
	}
	var n string
	if x, k := c.kindOf(st.X); k == qyList {
		n = x + ".cells.length"
	} else if k == qyIn {
		n = x + ".length"
	} else {
		return s.bad(st.X, "expected a list to range over, found %s", s.str(st.X))
	}
	bad := false
	ast.Inspect(st.Body, func(nd ast.Node) bool {
		switch nd := nd.(type) {
		case *ast.ReturnStmt:
			bad = true
		case *ast.BranchStmt:
			if nd.Tok != token.CONTINUE || nd.Label != nil {
				bad = true
			}
		}
		return true
	})
	if bad {
		return s.bad(st, "return / break / goto inside a loop")
	}
	c.open()
	if err := c.declare(key, key.Name, qyIndex); err != nil {
		c.close()
		return err
	}
	savedK, savedLoop := c.kont, c.inLoop
	c.kont, c.inLoop = ".ok "+qyHole, true
	c.indent += 2
	err := c.block(st.Body.List, st.Body)
	c.indent -= 2
	c.kont, c.inLoop = savedK, savedLoop
	lines, vars := c.close()
	if err != nil {
		return err
	}
	if len(vars) == 0 {
		return s.bad(st, "a loop without any effect")
	}
	tuple := qyTuple(vars)
	c.emit("-- for %s := range %s", key.Name, s.str(st.X))
	c.emit("let %s ← forRange %s %s (fun %s %s => do", tuple, n, tuple, key.Name, tuple)
	c.appendLines(qyFill(lines, tuple))
	c.indent++
	c.emit(")")
	c.indent--
	for _, v := range vars {
		c.bound(v)
	}
	return nil
}

func (c *qyCtx) ret(st *ast.ReturnStmt) error {
	s := c.s
	if len(st.Results) != 1 {
		return s.bad(st, "return %q", s.str(st))
	}
	e := st.Results[0]
	src := s.str(st)
	switch n, k := c.kindOf(e); k {
	case qyList:
		c.emit(".ok (%s, st)   -- %s", n, src)
		return nil
	case qyIn:
		c.emit(".ok (inputVL %s, st)   -- %s", n, src)
		return nil
	case qyOwn:
		c.emit(".ok (%s.publish, st)   -- %s", n, src)
		return nil
	case qyNone:
		if n == "emptyList" {
			c.emit(".ok (emptyL, st)   -- %s", src)
			return nil
		}
		if n == "fullList" {
			c.emit(".ok (fullL, st)   -- %s", src)
			return nil
		}
	}
	if f, typ, ok := c.field(e); ok && typ == "[]interface{}" {
		c.emit(".ok (%s.%s, st)   -- %s", c.recv, f, src)
		return nil
	}
	if cl, ok := e.(*ast.CompositeLit); ok && cl.Type != nil && tiIsIfaceSlice(cl.Type) {
		var cells []string
		for _, el := range cl.Elts {
			if _, kv := el.(*ast.KeyValueExpr); kv {
				return s.bad(el, "keyed element")
			}
			x, err := c.cellExpr(el)
			if err != nil {
				return err
			}
			cells = append(cells, x)
		}
		c.emit(".ok (freshVL [%s], st)   -- %s", strings.Join(cells, ", "), src)
		return nil
	}
	if f, typ, meth, args, ok := c.method(e); ok && qyIsComputable(typ) && meth == "compute" {
		r, in, err := c.computeArgs(e, args)
		if err != nil {
			return err
		}
		c.emit("%s.%s %s %s st   -- %s", c.recv, f, r, in, src)
		return nil
	}
	return s.bad(st, "return %q", src)
}

func (c *qyCtx) computeArgs(e ast.Expr, args []ast.Expr) (string, string, error) {
	if len(args) != 2 {
		return "", "", c.s.bad(e, "expected compute(root, currentList)")
	}
	r, err := c.valExpr(args[0])
	if err != nil {
		return "", "", err
	}
	in, err := c.varOf(args[1], qyIn, "the input list")
	if err != nil {
		return "", "", err
	}
	return r, in, nil
}

func (c *qyCtx) simple(st ast.Stmt) error {
	s := c.s
	src := s.str(st)
	switch st := st.(type) {
	case *ast.DeclStmt:
		// var B bool
		gd, ok := st.Decl.(*ast.GenDecl)
		if !ok || gd.Tok != token.VAR || len(gd.Specs) != 1 {
			return s.bad(st, "statement %q", src)
		}
		vs := gd.Specs[0].(*ast.ValueSpec)
		if len(vs.Names) != 1 || len(vs.Values) != 0 || !tiIsIdent(vs.Type, "bool") {
			return s.bad(st, "statement %q (only `var b bool`)", src)
		}
		if err := c.declare(st, vs.Names[0].Name, qyBool); err != nil {
			return err
		}
		c.emit("let %s := false   -- %s", vs.Names[0].Name, src)
		return nil

	case *ast.DeferStmt:
		call := st.Call
		if fl, ok := call.Fun.(*ast.FuncLit); ok {
			if len(call.Args) != 0 || fl.Type.Params != nil && len(fl.Type.Params.List) != 0 ||
				fl.Type.Results != nil && len(fl.Type.Results.List) != 0 || len(fl.Body.List) != 1 {
				return s.bad(st, "expected `defer func() { putContainer(x) }()`")
			}
			es, ok := fl.Body.List[0].(*ast.ExprStmt)
			if !ok {
				return s.bad(st, "expected `defer func() { putContainer(x) }()`")
			}
			inner, ok := es.X.(*ast.CallExpr)
			if !ok {
				return s.bad(st, "expected `defer func() { putContainer(x) }()`")
			}
			call = inner
		}
		if !tiIsIdent(call.Fun, "putContainer") || len(call.Args) != 1 || call.Ellipsis.IsValid() {
			return s.bad(st, "expected `defer putContainer(x)`")
		}
		x, err := c.varOf(call.Args[0], qyBuf, "a container obtained from getContainer()")
		if err != nil {
			return err
		}
		c.emit("-- defer putContainer(%s)", x)
		c.deferred[x] = true
		return nil

	case *ast.AssignStmt:
		if len(st.Lhs) != 1 || len(st.Rhs) != 1 {
			return s.bad(st, "statement %q", src)
		}
		lhs, rhs := st.Lhs[0], st.Rhs[0]
		if st.Tok == token.DEFINE {
			id, ok := lhs.(*ast.Ident)
			if !ok {
				return s.bad(st, "statement %q", src)
			}
			// X := R.F.compute(V, IN)
			if f, typ, meth, args, ok := c.method(rhs); ok {
				switch {
				case qyIsComputable(typ) && meth == "compute":
					r, in, err := c.computeArgs(rhs, args)
					if err != nil {
						return err
					}
					if err := c.declare(id, id.Name, qyList); err != nil {
						return err
					}
					c.emit("let (%s, st) ← %s.%s %s %s st   -- %s", id.Name, c.recv, f, r, in, src)
					c.bound("st")
					return nil
				case typ == "syntaxComparator" && meth == "validate":
					if len(args) != 1 {
						return s.bad(st, "expected validate(values)")
					}
					x, err := c.varOf(args[0], qyList, "a list variable")
					if err != nil {
						return err
					}
					if err := c.declare(id, id.Name, qyBool); err != nil {
						return err
					}
					c.emit("let (%s, %s, st) := %s.validate %s st   -- %s", id.Name, x, c.recv, x, src)
					c.bound(x)
					c.bound("st")
					return nil
				}
				return s.bad(st, "statement %q", src)
			}
			if ce, ok := rhs.(*ast.CallExpr); ok && !ce.Ellipsis.IsValid() {
				// X := getContainer()
				if tiIsIdent(ce.Fun, "getContainer") && len(ce.Args) == 0 {
					if err := c.declare(id, id.Name, qyBuf); err != nil {
						return err
					}
					c.emit("let %s : Buf := []   -- %s", id.Name, src)
					c.bufs = append(c.bufs, id.Name)
					return nil
				}
				// X := make([]interface{}, len(Y))
				if tiIsIdent(ce.Fun, "make") && len(ce.Args) == 2 && tiIsIfaceSlice(ce.Args[0]) {
					n, ok := c.lenOf(ce.Args[1])
					if !ok {
						return s.bad(st, "expected `make([]interface{}, len(y))`")
					}
					if err := c.declare(id, id.Name, qyOwn); err != nil {
						return err
					}
					c.emit("let %s : Own := makeOwn %s   -- %s", id.Name, n, src)
					return nil
				}
			}
			return s.bad(st, "statement %q", src)
		}
		if st.Tok != token.ASSIGN {
			return s.bad(st, "statement %q", src)
		}
		// B = true | false
		if n, k := c.kindOf(lhs); k == qyBool {
			if !tiIsIdent(rhs, "true") && !tiIsIdent(rhs, "false") {
				return s.bad(st, "a flag is assigned true or false only")
			}
			c.emit("let %s := %s   -- %s", n, rhs.(*ast.Ident).Name, src)
			c.bound(n)
			return nil
		} else if k == qyIn {
			// IN = []interface{}{V}
			cl, ok := rhs.(*ast.CompositeLit)
			if !ok || cl.Type == nil || !tiIsIfaceSlice(cl.Type) {
				return s.bad(st, "the input list is replaced by a composite literal only")
			}
			var vs []string
			for _, el := range cl.Elts {
				if _, kv := el.(*ast.KeyValueExpr); kv {
					return s.bad(el, "keyed element")
				}
				v, err := c.valExpr(el)
				if err != nil {
					return err
				}
				vs = append(vs, v)
			}
			c.emit("let %s := [%s]   -- %s", n, strings.Join(vs, ", "), src)
			c.bound(n)
			return nil
		}
		// X.result = X.result[:N]
		if b, ok := c.bufResult(lhs); ok {
			se, ok := rhs.(*ast.SliceExpr)
			if !ok || se.Slice3 || se.Low != nil || se.High == nil {
				return s.bad(st, "expected `%s.result = %s.result[:0]`", b, b)
			}
			b2, ok := c.bufResult(se.X)
			lit, ok2 := se.High.(*ast.BasicLit)
			if !ok || !ok2 || b2 != b || lit.Kind != token.INT {
				return s.bad(st, "expected `%s.result = %s.result[:0]`", b, b)
			}
			n, err := strconv.ParseUint(lit.Value, 10, 31)
			if err != nil || n != 0 {
				return s.bad(st, "a container is only ever cut to length 0")
			}
			c.emit("let %s : Buf := %s.take %d   -- %s", b, b, n, src)
			c.bound(b)
			return nil
		}
		// X[I] = CELL
		if ix, ok := lhs.(*ast.IndexExpr); ok {
			x, k := c.kindOf(ix.X)
			if k == qyIn {
				return s.bad(st, "write to the input list %s", x)
			}
			if k != qyList && k != qyOwn {
				return s.bad(st, "statement %q", src)
			}
			i, err := c.index(ix.Index)
			if err != nil {
				return err
			}
			cell, err := c.cellExpr(rhs)
			if err != nil {
				return err
			}
			if k == qyList {
				c.emit("let (%s, st) ← setCell %s %s %s st   -- %s", x, x, i, cell, src)
				c.bound("st")
			} else {
				c.emit("let %s ← %s.set %s %s   -- %s", x, x, i, cell, src)
			}
			c.bound(x)
			return nil
		}
		return s.bad(st, "statement %q", src)
	}
	return s.bad(st, "statement %q", src)
}

func qyMethod(s *tiSrc, spec *qySpec) (string, error) {
	f, err := s.parse(spec.file)
	if err != nil {
		return "", err
	}
	var fd *ast.FuncDecl
	structSeen, vgSeen := false, false
	for _, d := range f.Decls {
		switch d := d.(type) {
		case *ast.GenDecl:
			if d.Tok != token.TYPE || len(d.Specs) != 1 {
				return "", s.bad(d, "only the declaration of %s is expected here", spec.goType)
			}
			ts := d.Specs[0].(*ast.TypeSpec)
			stt, ok := ts.Type.(*ast.StructType)
			if !ok || ts.Name.Name != spec.goType || ts.Assign.IsValid() || ts.TypeParams != nil || structSeen {
				return "", s.bad(d, "expected `type %s struct {…}`", spec.goType)
			}
			names, types := tiFlatParams(stt.Fields)
			if len(names) != len(spec.fields) {
				return "", s.bad(stt, "%s is expected to have %d fields", spec.goType, len(spec.fields))
			}
			for _, want := range spec.fields {
				found := false
				for i, n := range names {
					if n == want.name && s.str(types[i]) == want.typ {
						found = true
					}
				}
				if !found {
					return "", s.bad(stt, "%s has no field `%s %s`", spec.goType, want.name, want.typ)
				}
			}
			structSeen = true
		case *ast.FuncDecl:
			typ, recv, ptr := tiRecvType(d)
			if typ != spec.goType || !ptr || recv == "" || d.Type.TypeParams != nil || d.Body == nil {
				return "", s.bad(d, "expected a method of *%s", spec.goType)
			}
			switch d.Name.Name {
			case "compute":
				if fd != nil {
					return "", s.bad(d, "compute declared twice")
				}
				fd = d
			case "isValueGroupParameter":
				want := "{ return " + recv + ".param.isValueGroup() }"
				if !spec.vgMethod || vgSeen || s.str(d.Body) != want {
					return "", s.bad(d, "method isValueGroupParameter: expected the body %s", want)
				}
				vgSeen = true
			default:
				return "", s.bad(d, "unexpected method %s", d.Name.Name)
			}
		default:
			return "", s.bad(d, "unexpected declaration")
		}
	}
	if !structSeen {
		return "", s.badFile(spec.file, "struct %s not declared", spec.goType)
	}
	if fd == nil {
		return "", s.badFile(spec.file, "no compute method")
	}
	_, recv, _ := tiRecvType(fd)
	pn, pt := tiFlatParams(fd.Type.Params)
	if len(pn) != 2 || !tiIsEmptyIface(pt[0]) || !tiIsIfaceSlice(pt[1]) {
		return "", s.bad(fd, "expected parameters (root interface{}, currentList []interface{})")
	}
	rn, rt := tiFlatParams(fd.Type.Results)
	if len(rt) != 1 || !tiIsIfaceSlice(rt[0]) || rn[0] != "" {
		return "", s.bad(fd, "expected the result type []interface{}")
	}
	c := &qyCtx{s: s, spec: spec, recv: recv, vars: map[string]qyKind{}, deferred: map[string]bool{}}
	if err := c.ident(fd, recv); err != nil {
		return "", err
	}
	binders := make([]string, 2)
	for i, k := range []qyKind{qyVal, qyIn} {
		if pn[i] == "_" {
			binders[i] = "_"
			continue
		}
		if err := c.declare(fd, pn[i], k); err != nil {
			return "", err
		}
		binders[i] = pn[i]
	}
	c.open()
	c.indent = 1
	if err := c.block(fd.Body.List, fd.Body); err != nil {
		return "", err
	}
	lines, _ := c.close()
	for _, x := range c.bufs {
		if !c.deferred[x] {
			return "", s.bad(fd, "the container %s is not put back by a deferred putContainer", x)
		}
	}
	var b strings.Builder
	fmt.Fprintf(&b, "/-- (*%s).compute (%s:%d); `st`: the state behind the containers and the logs -/\n", spec.goType, spec.file, s.line(fd))
	fmt.Fprintf(&b, "def %s (%s : %s) (%s : Val) (%s : List Val) (st : St) : M (VL × St) := do\n",
		spec.leanName, recv, spec.recvType, binders[0], binders[1])
	b.WriteString(strings.Join(lines, "\n"))
	b.WriteString("\n\n")
	return b.String(), nil
}

func genQueries(repo, out string) error {
	s := tiNew(repo)
	s.norm.keepAndCond = true // syntaxBasicCompareQuery.compute tests `leftFound && rightFound` in one if
	var files []string
	for _, sp := range qySpecs {
		files = append(files, sp.file)
	}
	hdr, err := s.header("queries", files,
		"The `compute` methods of the filter queries (logical operators, compare query, compare parameter,\n"+
			"the three parameter nodes), one Lean line per Go statement (quoted in the comment), over the\n"+
			"vocabulary of JPV/QueryNode.lean.")
	if err != nil {
		return err
	}
	var b strings.Builder
	b.WriteString(hdr)
	b.WriteString("import JPV.QueryNode\nset_option linter.unusedVariables false\nnamespace JPV.Gen.QueriesGo\nopen JPV JPV.Impl JPV.FnNode JPV.QueryNode\n\n")
	for i := range qySpecs {
		m, err := qyMethod(s, &qySpecs[i])
		if err != nil {
			return err
		}
		b.WriteString(m)
	}
	b.WriteString("end JPV.Gen.QueriesGo\n")
	return tiWrite(out, "QueriesGo.lean", b.String())
}
