// functions.go — generator "functions": the `retrieve` methods of the two function nodes,
// statement by statement, as Lean code over the vocabulary of lean/JPV/FnNode.lean
// (lean/JPV/Gen/FunctionsGo.lean, tie T1; consumed by Lemmas/CallTie.lean, property C14).
//
// What is read:
//
//	syntax_node_function_filter.go     type syntaxFilterFunction struct { *syntaxBasicNode; function func(interface{}) (interface{}, error) }
//	                                   func (f *syntaxFilterFunction) retrieve(root, current interface{}, container *bufferContainer) errorRuntime
//	syntax_node_function_aggregate.go  type syntaxAggregateFunction struct { *syntaxBasicNode; function func([]interface{}) (interface{}, error); param syntaxNode }
//	                                   func (f *syntaxAggregateFunction) retrieve(root, current interface{}, container *bufferContainer) errorRuntime
//
// Accepted statements of a body (any order, the last one must be the return of S9), exactly:
//
//	S1  X := getContainer()                                         let X : Buf := []
//	S2  defer func() { putContainer(X) }()   |  defer putContainer(X)   (comment only: the pool is not modelled here)
//	S3  if err := f.param.retrieve(R, C, X); err != nil { return err }
//	                                                                 run the parameter chain on buffer X, take the logs back,
//	                                                                 return its error
//	S4  Y := X.result                                               let Y := Buf.vals X
//	S5  if !f.param.isValueGroup() { if Z, ok := X.result[0].([]interface{}); ok { Y = Z } }
//	                                                                 indexing X.result[0] panics on an empty buffer
//	S6  A := make([]interface{}, len(Y))                            let A := makeSlice Y.length
//	S7  copy(A, Y)                                                  let A := copySlice A Y
//	S8  V, err := f.function(E)                                     let (V, st) := f.function E st     (V : Option until S8' ran)
//	S8' if err != nil { return ErrorFunctionFailed{errorBasicRuntime: f.errorRuntime, err: err} }
//	S9  return f.retrieveAnyValueNext(R, V, container)
//
// R, C, V: the parameters root/current or a checked function result; E: such a value (filter
// function) or a slice variable Y/A (aggregate function). Anything else — another statement,
// another expression, a variable of the wrong kind, a result used before its error is checked —
// stops with `untranslatable: file:line: why`.
package main

import (
	"fmt"
	"go/ast"
	"go/token"
	"regexp"
	"strings"
)

func init() { register("functions", genFunctions) }

const (
	fnFilterFile = "syntax_node_function_filter.go"
	fnFilterType = "syntaxFilterFunction"
	fnAggFile    = "syntax_node_function_aggregate.go"
	fnAggType    = "syntaxAggregateFunction"
)

var fnIdentRe = regexp.MustCompile(`^[A-Za-z][A-Za-z0-9]*$`)

var fnReserved = map[string]bool{
	"st": true, "do": true, "let": true, "match": true, "with": true, "fun": true, "if": true, "then": true,
	"else": true, "M": true, "Buf": true, "withBuf": true, "makeSlice": true, "copySlice": true, "none": true,
	"some": true, "at": true, "by": true, "from": true, "have": true, "show": true, "end": true, "in": true,
	"Val": true, "St": true, "Res": true, "Panic": true, "Type": true, "Prop": true, "def": true, "open": true,
	"theorem": true, "where": true, "deriving": true, "instance": true, "structure": true, "inductive": true,
	"return": true, "for": true, "unless": true, "try": true, "catch": true, "finally": true, "mut": true,
	"nomatch": true, "nofun": true, "true": true, "false": true, "ok": true, "error": true,
}

type fnCtx struct {
	s        *tiSrc
	agg      bool
	recv     string
	cont     string
	vals     map[string]bool // interface{} values in scope
	lists    map[string]bool // []interface{} variables
	bufs     map[string]bool // containers from getContainer()
	pending  string          // function result whose error is not checked yet
	errName  string          // the error variable of `pending`
	lines    []string
	indent   int
	returned bool
}

func (c *fnCtx) emit(format string, args ...interface{}) {
	c.lines = append(c.lines, strings.Repeat("  ", c.indent)+fmt.Sprintf(format, args...))
}

func (c *fnCtx) ident(n ast.Node, name string) error {
	if !fnIdentRe.MatchString(name) || fnReserved[name] {
		return c.s.bad(n, "identifier %q cannot be carried over to Lean", name)
	}
	return nil
}

func (c *fnCtx) fresh(n ast.Node, name string) error {
	if err := c.ident(n, name); err != nil {
		return err
	}
	if c.vals[name] || c.lists[name] || c.bufs[name] || name == c.recv || name == c.cont || name == c.pending {
		return c.s.bad(n, "%q is declared twice", name)
	}
	return nil
}

func (c *fnCtx) valVar(e ast.Expr) (string, error) {
	id, ok := e.(*ast.Ident)
	if !ok {
		return "", c.s.bad(e, "expected a value variable, found %s", c.s.str(e))
	}
	if id.Name == c.pending {
		return "", c.s.bad(e, "%s is used before its error is checked", id.Name)
	}
	if !c.vals[id.Name] {
		return "", c.s.bad(e, "%s is not a value in scope", id.Name)
	}
	return id.Name, nil
}

func (c *fnCtx) listVar(e ast.Expr) (string, error) {
	id, ok := e.(*ast.Ident)
	if !ok || !c.lists[id.Name] {
		return "", c.s.bad(e, "expected a slice variable, found %s", c.s.str(e))
	}
	return id.Name, nil
}

func (c *fnCtx) bufVar(e ast.Expr) (string, error) {
	id, ok := e.(*ast.Ident)
	if !ok || !c.bufs[id.Name] {
		return "", c.s.bad(e, "expected a container obtained from getContainer(), found %s", c.s.str(e))
	}
	return id.Name, nil
}

// isRecvSel: e is `<recv>.a.b…` with the given selector path.
func (c *fnCtx) isRecvSel(e ast.Expr, path ...string) bool {
	for i := len(path) - 1; i >= 0; i-- {
		se, ok := e.(*ast.SelectorExpr)
		if !ok || se.Sel.Name != path[i] {
			return false
		}
		e = se.X
	}
	return tiIsIdent(e, c.recv)
}

func fnCall(e ast.Expr) (*ast.CallExpr, bool) {
	ce, ok := e.(*ast.CallExpr)
	if !ok || ce.Ellipsis.IsValid() {
		return nil, false
	}
	return ce, true
}

// bufResult: e is `X.result` with X a container; returns X.
func (c *fnCtx) bufResult(e ast.Expr) (string, bool) {
	se, ok := e.(*ast.SelectorExpr)
	if !ok || se.Sel.Name != "result" {
		return "", false
	}
	id, ok := se.X.(*ast.Ident)
	if !ok || !c.bufs[id.Name] {
		return "", false
	}
	return id.Name, true
}

func (c *fnCtx) errNeNil(e ast.Expr, name string) bool {
	be, ok := e.(*ast.BinaryExpr)
	return ok && be.Op == token.NEQ && tiIsIdent(be.X, name) && tiIsIdent(be.Y, "nil")
}

func (c *fnCtx) stmt(st ast.Stmt) error {
	s := c.s
	if c.returned {
		return s.bad(st, "statement after the final return")
	}
	switch st := st.(type) {
	case *ast.AssignStmt:
		if st.Tok != token.DEFINE || len(st.Rhs) != 1 {
			return s.bad(st, "statement %q", s.str(st))
		}
		// S8  V, err := f.function(E)
		if len(st.Lhs) == 2 {
			ce, ok := fnCall(st.Rhs[0])
			if !ok || !c.isRecvSel(ce.Fun, "function") || len(ce.Args) != 1 {
				return s.bad(st, "expected `v, err := %s.function(x)`", c.recv)
			}
			if c.pending != "" {
				return s.bad(st, "the error of %s is never checked", c.pending)
			}
			v, ok1 := st.Lhs[0].(*ast.Ident)
			e, ok2 := st.Lhs[1].(*ast.Ident)
			if !ok1 || !ok2 {
				return s.bad(st, "expected `v, err := %s.function(x)`", c.recv)
			}
			if err := c.fresh(v, v.Name); err != nil {
				return err
			}
			if err := c.ident(e, e.Name); err != nil {
				return err
			}
			var arg string
			var err error
			if c.agg {
				arg, err = c.listVar(ce.Args[0])
			} else {
				arg, err = c.valVar(ce.Args[0])
			}
			if err != nil {
				return err
			}
			c.emit("let (%s, st) := %s.function %s st   -- %s", v.Name, c.recv, arg, s.str(st))
			c.pending, c.errName = v.Name, e.Name
			return nil
		}
		if len(st.Lhs) != 1 {
			return s.bad(st, "statement %q", s.str(st))
		}
		lhs, ok := st.Lhs[0].(*ast.Ident)
		if !ok {
			return s.bad(st, "statement %q", s.str(st))
		}
		if ce, ok := fnCall(st.Rhs[0]); ok {
			// S1  X := getContainer()
			if tiIsIdent(ce.Fun, "getContainer") && len(ce.Args) == 0 {
				if !c.agg {
					return s.bad(st, "a container in the filter function")
				}
				if err := c.fresh(lhs, lhs.Name); err != nil {
					return err
				}
				c.bufs[lhs.Name] = true
				c.emit("let %s : Buf := []   -- %s", lhs.Name, s.str(st))
				return nil
			}
			// S6  A := make([]interface{}, len(Y))
			if tiIsIdent(ce.Fun, "make") && len(ce.Args) == 2 && tiIsIfaceSlice(ce.Args[0]) {
				le, ok := fnCall(ce.Args[1])
				if !ok || !tiIsIdent(le.Fun, "len") || len(le.Args) != 1 {
					return s.bad(st, "expected `make([]interface{}, len(y))`")
				}
				y, err := c.listVar(le.Args[0])
				if err != nil {
					return err
				}
				if err := c.fresh(lhs, lhs.Name); err != nil {
					return err
				}
				c.lists[lhs.Name] = true
				c.emit("let %s := makeSlice %s.length   -- %s", lhs.Name, y, s.str(st))
				return nil
			}
			return s.bad(st, "statement %q", s.str(st))
		}
		// S4  Y := X.result
		if x, ok := c.bufResult(st.Rhs[0]); ok {
			if err := c.fresh(lhs, lhs.Name); err != nil {
				return err
			}
			c.lists[lhs.Name] = true
			c.emit("let %s := Buf.vals %s   -- %s", lhs.Name, x, s.str(st))
			return nil
		}
		return s.bad(st, "statement %q", s.str(st))

	case *ast.DeferStmt:
		// S2
		call := st.Call
		if fl, ok := call.Fun.(*ast.FuncLit); ok {
			if len(call.Args) != 0 || fl.Type.Params != nil && len(fl.Type.Params.List) != 0 || len(fl.Body.List) != 1 {
				return s.bad(st, "expected `defer func() { putContainer(x) }()`")
			}
			es, ok := fl.Body.List[0].(*ast.ExprStmt)
			if !ok {
				return s.bad(st, "expected `defer func() { putContainer(x) }()`")
			}
			inner, ok := fnCall(es.X)
			if !ok {
				return s.bad(st, "expected `defer func() { putContainer(x) }()`")
			}
			call = inner
		}
		if !tiIsIdent(call.Fun, "putContainer") || len(call.Args) != 1 {
			return s.bad(st, "expected `defer putContainer(x)`")
		}
		x, err := c.bufVar(call.Args[0])
		if err != nil {
			return err
		}
		c.emit("-- defer putContainer(%s)", x)
		return nil

	case *ast.ExprStmt:
		// S7  copy(A, Y)
		ce, ok := fnCall(st.X)
		if !ok || !tiIsIdent(ce.Fun, "copy") || len(ce.Args) != 2 {
			return s.bad(st, "statement %q", s.str(st))
		}
		a, err := c.listVar(ce.Args[0])
		if err != nil {
			return err
		}
		y, err := c.listVar(ce.Args[1])
		if err != nil {
			return err
		}
		c.emit("let %s := copySlice %s %s   -- %s", a, a, y, s.str(st))
		return nil

	case *ast.IfStmt:
		if st.Else != nil {
			return s.bad(st, "if with else")
		}
		// S3  if err := f.param.retrieve(R, C, X); err != nil { return err }
		if st.Init != nil {
			as, ok := st.Init.(*ast.AssignStmt)
			if !ok || as.Tok != token.DEFINE || len(as.Lhs) != 1 || len(as.Rhs) != 1 {
				return s.bad(st, "if statement %q", s.str(st.Init))
			}
			e, ok := as.Lhs[0].(*ast.Ident)
			ce, ok2 := fnCall(as.Rhs[0])
			if !ok || !ok2 || !c.agg || !c.isRecvSel(ce.Fun, "param", "retrieve") || len(ce.Args) != 3 {
				return s.bad(st, "expected `if err := %s.param.retrieve(root, current, values); err != nil { return err }`", c.recv)
			}
			if err := c.ident(e, e.Name); err != nil {
				return err
			}
			if !c.errNeNil(st.Cond, e.Name) || len(st.Body.List) != 1 {
				return s.bad(st, "expected `…; %s != nil { return %s }`", e.Name, e.Name)
			}
			rs, ok := st.Body.List[0].(*ast.ReturnStmt)
			if !ok || len(rs.Results) != 1 || !tiIsIdent(rs.Results[0], e.Name) {
				return s.bad(st.Body, "expected `return %s`", e.Name)
			}
			r, err := c.valVar(ce.Args[0])
			if err != nil {
				return err
			}
			cu, err := c.valVar(ce.Args[1])
			if err != nil {
				return err
			}
			x, err := c.bufVar(ce.Args[2])
			if err != nil {
				return err
			}
			c.emit("-- %s", s.str(st))
			c.emit("let (s_%s, %s) ← %s.paramRetrieve %s %s (withBuf st %s)", x, e.Name, c.recv, r, cu, x)
			c.emit("let %s : Buf := s_%s.out", x, x)
			c.emit("let st := st.back s_%s", x)
			c.emit("match %s with", e.Name)
			c.emit("| some %s => .ok (st, some %s)", e.Name, e.Name)
			c.emit("| none =>")
			c.indent++
			return nil
		}
		// S8'  if err != nil { return ErrorFunctionFailed{errorBasicRuntime: f.errorRuntime, err: err} }
		if c.pending != "" && c.errNeNil(st.Cond, c.errName) {
			if len(st.Body.List) != 1 {
				return s.bad(st.Body, "expected a single return")
			}
			rs, ok := st.Body.List[0].(*ast.ReturnStmt)
			if !ok || len(rs.Results) != 1 {
				return s.bad(st.Body, "expected a single return")
			}
			cl, ok := rs.Results[0].(*ast.CompositeLit)
			if !ok || !tiIsIdent(cl.Type, "ErrorFunctionFailed") || len(cl.Elts) != 2 {
				return s.bad(rs, "expected `return ErrorFunctionFailed{errorBasicRuntime: %s.errorRuntime, err: %s}`", c.recv, c.errName)
			}
			seen := map[string]bool{}
			for _, el := range cl.Elts {
				kv, ok := el.(*ast.KeyValueExpr)
				if !ok {
					return s.bad(el, "expected a keyed field")
				}
				switch {
				case tiIsIdent(kv.Key, "errorBasicRuntime") && c.isRecvSel(kv.Value, "errorRuntime"):
					seen["rt"] = true
				case tiIsIdent(kv.Key, "err") && tiIsIdent(kv.Value, c.errName):
					seen["err"] = true
				default:
					return s.bad(el, "field %s of ErrorFunctionFailed", s.str(el))
				}
			}
			if !seen["rt"] || !seen["err"] {
				return s.bad(cl, "ErrorFunctionFailed must carry %s.errorRuntime and %s", c.recv, c.errName)
			}
			c.emit("-- %s", s.str(st))
			c.emit("match %s with", c.pending)
			c.emit("| none => .ok (st, some %s.failed)", c.recv)
			c.emit("| some %s =>", c.pending)
			c.indent++
			c.vals[c.pending] = true
			c.pending, c.errName = "", ""
			return nil
		}
		// S5  if !f.param.isValueGroup() { if Z, ok := X.result[0].([]interface{}); ok { Y = Z } }
		ue, ok := st.Cond.(*ast.UnaryExpr)
		if !ok || ue.Op != token.NOT || !c.agg {
			return s.bad(st, "if condition %q", s.str(st.Cond))
		}
		ce, ok := fnCall(ue.X)
		if !ok || !c.isRecvSel(ce.Fun, "param", "isValueGroup") || len(ce.Args) != 0 {
			return s.bad(st, "if condition %q", s.str(st.Cond))
		}
		if len(st.Body.List) != 1 {
			return s.bad(st.Body, "expected a single inner if")
		}
		inner, ok := st.Body.List[0].(*ast.IfStmt)
		if !ok || inner.Else != nil || inner.Init == nil || len(inner.Body.List) != 1 {
			return s.bad(st.Body, "expected `if z, ok := x.result[0].([]interface{}); ok { y = z }`")
		}
		ias, ok := inner.Init.(*ast.AssignStmt)
		if !ok || ias.Tok != token.DEFINE || len(ias.Lhs) != 2 || len(ias.Rhs) != 1 {
			return s.bad(inner, "expected `if z, ok := x.result[0].([]interface{}); ok { y = z }`")
		}
		z, ok1 := ias.Lhs[0].(*ast.Ident)
		okv, ok2 := ias.Lhs[1].(*ast.Ident)
		ta, ok3 := ias.Rhs[0].(*ast.TypeAssertExpr)
		if !ok1 || !ok2 || !ok3 || ta.Type == nil || !tiIsIfaceSlice(ta.Type) || !tiIsIdent(inner.Cond, okv.Name) {
			return s.bad(inner, "expected `if z, ok := x.result[0].([]interface{}); ok { y = z }`")
		}
		ix, ok := ta.X.(*ast.IndexExpr)
		if !ok {
			return s.bad(ta, "expected `x.result[0]`")
		}
		x, ok := c.bufResult(ix.X)
		lit, ok2 := ix.Index.(*ast.BasicLit)
		if !ok || !ok2 || lit.Kind != token.INT || lit.Value != "0" {
			return s.bad(ta, "expected `x.result[0]`")
		}
		if err := c.fresh(z, z.Name); err != nil {
			return err
		}
		as, ok := inner.Body.List[0].(*ast.AssignStmt)
		if !ok || as.Tok != token.ASSIGN || len(as.Lhs) != 1 || len(as.Rhs) != 1 || !tiIsIdent(as.Rhs[0], z.Name) {
			return s.bad(inner.Body, "expected `y = %s`", z.Name)
		}
		y, err := c.listVar(as.Lhs[0])
		if err != nil {
			return err
		}
		c.emit("-- %s", s.str(st))
		c.emit("let %s ← (if !%s.paramVg then", y, c.recv)
		c.emit("    (match Buf.vals %s with", x)
		c.emit("     | [] => .error Panic.indexOutOfRange")
		c.emit("     | .arr %s :: _ => .ok %s", z.Name, z.Name)
		c.emit("     | _ :: _ => .ok %s)", y)
		c.emit("  else .ok %s : M (List Val))", y)
		return nil

	case *ast.ReturnStmt:
		// S9  return f.retrieveAnyValueNext(R, V, container)
		if len(st.Results) != 1 {
			return s.bad(st, "return %q", s.str(st))
		}
		ce, ok := fnCall(st.Results[0])
		if !ok || !c.isRecvSel(ce.Fun, "retrieveAnyValueNext") || len(ce.Args) != 3 || !tiIsIdent(ce.Args[2], c.cont) {
			return s.bad(st, "expected `return %s.retrieveAnyValueNext(root, value, %s)`", c.recv, c.cont)
		}
		if c.pending != "" {
			return s.bad(st, "the error of %s is never checked", c.pending)
		}
		r, err := c.valVar(ce.Args[0])
		if err != nil {
			return err
		}
		v, err := c.valVar(ce.Args[1])
		if err != nil {
			return err
		}
		c.emit("%s.next %s %s st   -- %s", c.recv, r, v, s.str(st))
		c.returned = true
		return nil
	}
	return s.bad(st, "statement %q", s.str(st))
}

// fnIsFuncType: e is `func(<arg>) (interface{}, error)` with arg `interface{}` or `[]interface{}`.
func fnIsFuncType(e ast.Expr, sliceArg bool) bool {
	ft, ok := e.(*ast.FuncType)
	if !ok || ft.TypeParams != nil {
		return false
	}
	_, pt := tiFlatParams(ft.Params)
	_, rt := tiFlatParams(ft.Results)
	if len(pt) != 1 || len(rt) != 2 || !tiIsEmptyIface(rt[0]) || !tiIsIdent(rt[1], "error") {
		return false
	}
	if sliceArg {
		return tiIsIfaceSlice(pt[0])
	}
	return tiIsEmptyIface(pt[0])
}

func fnMethod(s *tiSrc, file, goType string, agg bool) (string, error) {
	f, err := s.parse(file)
	if err != nil {
		return "", err
	}
	var fd *ast.FuncDecl
	structSeen := false
	for _, d := range f.Decls {
		switch d := d.(type) {
		case *ast.GenDecl:
			if d.Tok == token.IMPORT {
				continue
			}
			if d.Tok != token.TYPE || len(d.Specs) != 1 {
				return "", s.bad(d, "only the declaration of %s is expected here", goType)
			}
			ts := d.Specs[0].(*ast.TypeSpec)
			stt, ok := ts.Type.(*ast.StructType)
			if !ok || ts.Name.Name != goType || ts.Assign.IsValid() || ts.TypeParams != nil {
				return "", s.bad(d, "expected `type %s struct {…}`", goType)
			}
			want := map[string]bool{"*syntaxBasicNode": false, "function": false}
			if agg {
				want["param"] = false
			}
			for _, fl := range stt.Fields.List {
				switch {
				case len(fl.Names) == 0:
					se, ok := fl.Type.(*ast.StarExpr)
					if !ok || !tiIsIdent(se.X, "syntaxBasicNode") || want["*syntaxBasicNode"] {
						return "", s.bad(fl, "embedded field %s", s.str(fl.Type))
					}
					want["*syntaxBasicNode"] = true
				case len(fl.Names) == 1 && fl.Names[0].Name == "function" && fnIsFuncType(fl.Type, agg):
					want["function"] = true
				case agg && len(fl.Names) == 1 && fl.Names[0].Name == "param" && tiIsIdent(fl.Type, "syntaxNode"):
					want["param"] = true
				default:
					return "", s.bad(fl, "field %s of %s", s.str(fl), goType)
				}
			}
			for k, v := range want {
				if !v {
					return "", s.bad(stt, "%s has no field %s of the expected type", goType, k)
				}
			}
			structSeen = true
		case *ast.FuncDecl:
			if fd != nil {
				return "", s.bad(d, "more than one function in %s", file)
			}
			fd = d
		default:
			return "", s.bad(d, "unexpected declaration")
		}
	}
	if !structSeen {
		return "", s.badFile(file, "struct %s not declared", goType)
	}
	if fd == nil || fd.Body == nil {
		return "", s.badFile(file, "no retrieve method")
	}
	typ, recv, ptr := tiRecvType(fd)
	if fd.Name.Name != "retrieve" || typ != goType || !ptr || recv == "" || fd.Type.TypeParams != nil {
		return "", s.bad(fd, "expected method (x *%s).retrieve", goType)
	}
	pn, pt := tiFlatParams(fd.Type.Params)
	if len(pn) != 3 || !tiIsEmptyIface(pt[0]) || !tiIsEmptyIface(pt[1]) {
		return "", s.bad(fd, "expected parameters (root, current interface{}, container *bufferContainer)")
	}
	if se, ok := pt[2].(*ast.StarExpr); !ok || !tiIsIdent(se.X, "bufferContainer") {
		return "", s.bad(fd, "expected parameters (root, current interface{}, container *bufferContainer)")
	}
	_, rt := tiFlatParams(fd.Type.Results)
	if len(rt) != 1 || !tiIsIdent(rt[0], "errorRuntime") {
		return "", s.bad(fd, "expected result type errorRuntime")
	}
	c := &fnCtx{s: s, agg: agg, recv: recv, cont: pn[2], vals: map[string]bool{}, lists: map[string]bool{}, bufs: map[string]bool{}, indent: 1}
	for _, n := range []string{recv, pn[0], pn[1], pn[2]} {
		if err := c.ident(fd, n); err != nil {
			return "", err
		}
	}
	if pn[0] == pn[1] || pn[0] == recv || pn[1] == recv || pn[2] == recv || pn[2] == pn[0] || pn[2] == pn[1] {
		return "", s.bad(fd, "parameter names must be distinct")
	}
	c.vals[pn[0]], c.vals[pn[1]] = true, true
	for _, st := range fd.Body.List {
		if err := c.stmt(st); err != nil {
			return "", err
		}
	}
	if !c.returned {
		return "", s.bad(fd.Body, "the body does not end in `return %s.retrieveAnyValueNext(…)`", recv)
	}
	name, rty := "filterRetrieve", "FilterRecv"
	if agg {
		name, rty = "aggregateRetrieve", "AggRecv"
	}
	var b strings.Builder
	fmt.Fprintf(&b, "/-- (*%s).retrieve (%s:%d); `st` is the state behind `%s` and the logs -/\n", goType, file, s.line(fd), pn[2])
	fmt.Fprintf(&b, "def %s (%s : %s) (%s %s : Val) (st : St) : M (St × Option RtErr) := do\n", name, recv, rty, pn[0], pn[1])
	b.WriteString(strings.Join(c.lines, "\n"))
	b.WriteString("\n\n")
	return b.String(), nil
}

func genFunctions(repo, out string) error {
	s := tiNew(repo)
	hdr, err := s.header("functions", []string{fnFilterFile, fnAggFile},
		"The `retrieve` methods of the filter-function and aggregate-function nodes, one Lean line per Go\n"+
			"statement (quoted in the comment), over the vocabulary of JPV/FnNode.lean.")
	if err != nil {
		return err
	}
	var b strings.Builder
	b.WriteString(hdr)
	b.WriteString("import JPV.FnNode\nset_option linter.unusedVariables false\nnamespace JPV.Gen.FunctionsGo\nopen JPV JPV.Impl JPV.FnNode\n\n")
	m, err := fnMethod(s, fnFilterFile, fnFilterType, false)
	if err != nil {
		return err
	}
	b.WriteString(m)
	m, err = fnMethod(s, fnAggFile, fnAggType, true)
	if err != nil {
		return err
	}
	b.WriteString(m)
	b.WriteString("end JPV.Gen.FunctionsGo\n")
	return tiWrite(out, "FunctionsGo.lean", b.String())
}
