// nodes.go — generator "nodes": the retrieve / retrieveMap / retrieveList methods of the eight
// navigation nodes and the three retrieve…Next helpers of syntaxBasicNode, statement by statement,
// as Lean code over the vocabulary of lean/JPV/NavNode.lean (Gen/NodesGo.lean).
//
// Read: constants.go (the four msgType constants), syntax_basic_node.go and the eight node files
// (ndTypes). Checked, fail closed: the struct declarations (exact fields), the signatures, every
// wanted method exactly once, and package-wide (every non-test .go file) that nobody else defines
// the helpers / addDeepestError / the retrieve methods of the eight types, that getSortedKeys,
// putSortSlice and verifFilterList exist, and that the names the patterns spell (len, append, make,
// nil, reflect, …) are not redeclared.
//
// A tiny kind system (ndKind) types every Go variable; every expression is translated according
// to the kinds of its variables (exprM, coerce). A statement list (block) is translated in one of
// two modes: tail position of the method (returns allowed, must end in one) or a branch / loop body
// that joins again with `pure (assigned variables)`. Statements:
//
//	simple     var x int | var x errorRuntime | x := E | x = E | xs[i] = E | xs = xs[:E] | xs = append(xs, e)
//	           | x := getSortedKeys(m) | x := make([]interface{}, n[, c]) | x [:]= R.query.compute(root, l)
//	           | a, b = R.addDeepestError(err, a, b) | container.result = append(container.result, V | Accessor{…})
//	           | putSortSlice(keys), verifFilterList(cells, len(src))  (comments only)
//	compound   if C {…} [else {…}] | if err := CALL; err != nil {…} | type switch | for range | for i := len(x)-1; i >= 0; i--
//	           | for COND {…} (whileLoop with fuel) — all without exits: `let vars ← (… pure vars)`
//	guards     if C { …return } | if v, ok := x.(T); ok { …return } | v, ok := x.(T) / m[k]; if !ok { …return }
//	           | nested if C1 { if C2 { return … | continue } } (join point rest_N bound first)
//	           | switch x.(type) { case map…, []…: default: …return } — the rest of the list is the fall-through branch
//	returns    nil | operr variable | ErrorMemberNotExist{…} | ErrorTypeUnmatched{…} | one of the known calls
//
// Anything else — another statement or expression form, field, callee, operator, a variable of the
// wrong kind, shadowing, a statement after a return, a stray continue/break/goto/label, an else
// where none is listed — stops the generator with `untranslatable: file:line: why`.
package main

import (
	"fmt"
	"go/ast"
	"go/token"
	"os"
	"regexp"
	"sort"
	"strconv"
	"strings"
)

func init() { register("nodes", genNodes) }

type ndKind int

const (
	ndNone      ndKind = iota
	ndVal              // Val: root, nextSrc
	ndGov              // GoVal: current, container elements
	ndMap              // GoMap
	ndList             // GoList
	ndStr              // String
	ndInt              // Int
	ndKeys             // List String (*sort.StringSlice from getSortedKeys)
	ndGovs             // List GoVal (make([]interface{}, …))
	ndCells            // VL (result of query.compute)
	ndBool             // Bool
	ndNat              // Nat (var x int; only through addDeepestError)
	ndOperr            // Option RtErr (var x errorRuntime)
	ndErr              // RtErr (err of `if err := CALL; err != nil`)
	ndNoderef          // NodeRef (range variable over identifiers)
	ndSubscript        // Int → List Int (range variable over subscripts)
	ndSingle           // bound by x.(*syntaxChildSingleIdentifier): only x.identifier
	ndOk               // the ok of a comma-ok form: not usable in expressions
	ndRecv             // the receiver
	ndCont             // the container parameter
	ndDead             // a keys variable after putSortSlice
	// kinds of receiver fields
	ndFNext
	ndFInfo
	ndFNoderefs
	ndFUnion
	ndFSubscripts
	ndFQuery
)

var ndLeanType = map[ndKind]string{
	ndVal: "Val", ndGov: "GoVal", ndMap: "GoMap", ndList: "GoList", ndStr: "String", ndInt: "Int",
	ndKeys: "List String", ndGovs: "List GoVal", ndCells: "VL", ndBool: "Bool", ndNat: "Nat", ndOperr: "Option RtErr",
}

type ndField struct{ name, typ string }

type ndType struct {
	file, goType, recvLean string
	fields                 []ndField // own fields (besides the embedded *syntaxBasicNode), exact
	kinds                  map[string]ndKind
	methods                []string // emission order: callee before caller
}

const ndBasicFile, ndBasicType, ndConstFile = "syntax_basic_node.go", "syntaxBasicNode", "constants.go"

var ndBasicFields = []ndField{{"next", "syntaxNode"}, {"accessorMode", "bool"}, {"errorRuntime", "*errorBasicRuntime"}}
var ndBasicKinds = map[string]ndKind{"next": ndFNext, "accessorMode": ndBool, "errorRuntime": ndFInfo}
var ndHelpers = []string{"retrieveAnyValueNext", "retrieveMapNext", "retrieveListNext"}
var ndConsts = []string{"msgTypeNull", "msgTypeObject", "msgTypeArray", "msgTypeObjectOrArray"}
var ndMLR = []string{"retrieveMap", "retrieveList", "retrieve"}

var ndTypes = []ndType{
	{"syntax_node_identifier_child_single.go", "syntaxChildSingleIdentifier", "SingleRecv",
		[]ndField{{"identifier", "string"}}, map[string]ndKind{"identifier": ndStr}, []string{"retrieve"}},
	{"syntax_node_identifier_child_wildcard.go", "syntaxChildWildcardIdentifier", "WildcardRecv", nil, nil, ndMLR},
	{"syntax_node_identifier_child_multi.go", "syntaxChildMultiIdentifier", "MultiRecv",
		[]ndField{{"identifiers", "[]syntaxNode"}, {"isAllWildcard", "bool"}, {"unionQualifier", "syntaxUnionQualifier"}},
		map[string]ndKind{"identifiers": ndFNoderefs, "isAllWildcard": ndBool, "unionQualifier": ndFUnion}, []string{"retrieveMap", "retrieve"}},
	{"syntax_node_identifier_recursive_child.go", "syntaxRecursiveChildIdentifier", "RecursiveRecv",
		[]ndField{{"nextMapRequired", "bool"}, {"nextListRequired", "bool"}},
		map[string]ndKind{"nextMapRequired": ndBool, "nextListRequired": ndBool}, []string{"retrieve"}},
	{"syntax_node_identifier_root.go", "syntaxRootIdentifier", "RootRecv", nil, nil, []string{"retrieve"}},
	{"syntax_node_identifier_current_root.go", "syntaxCurrentRootIdentifier", "RootRecv", nil, nil, []string{"retrieve"}},
	{"syntax_node_qualifier_union.go", "syntaxUnionQualifier", "UnionRecv",
		[]ndField{{"subscripts", "[]syntaxSubscript"}}, map[string]ndKind{"subscripts": ndFSubscripts}, []string{"retrieve"}},
	{"syntax_node_qualifier_filter.go", "syntaxFilterQualifier", "FilterRecv",
		[]ndField{{"query", "syntaxQuery"}}, map[string]ndKind{"query": ndFQuery}, ndMLR},
}

var ndIdentRe = regexp.MustCompile(`^[A-Za-z][A-Za-z0-9]*$`)
var ndIntRe = regexp.MustCompile(`^(0|[1-9][0-9]*)$`)

// names that cannot be carried over: Lean keywords, every vocabulary name the generator emits,
// and the Go names the patterns below recognise by spelling.
var ndReserved = func() map[string]bool {
	m := map[string]bool{}
	for _, w := range strings.Fields(`st fuel do let match with fun if then else M none some at by from have show end in
		Val St Res RtErr Panic Type Prop def open theorem where deriving instance structure inductive return for unless try
		catch finally mut nomatch nofun true false ok error pure decide Unit Nat Int String Bool Option List VL Info Loc
		GoVal GoMap GoList Dyn asMap asList typeSwitch isNil reflectTypeString goLen sliceIndex sliceTo sliceSet makeGoVals
		makeVals mapIndex mapGet mapPlace listIndex listPlace getSortedKeys rangeLen downFrom forRange whileLoop Next
		nilDeref callNext BasicRecv SingleRecv WildcardRecv NodeRef MultiRecv RecursiveRecv RootRecv UnionRecv FilterRecv
		addDeepestError cellIsEmpty len append make nil reflect emptyEntity putSortSlice verifFilterList Accessor
		ErrorMemberNotExist ErrorTypeUnmatched msgTypeNull msgTypeObject msgTypeArray msgTypeObjectOrArray
		namespace section variable universe import set_option abbrev example axiom macro syntax notation mutual private
		protected partial unsafe noncomputable using then fun assume suffices calc`) {
		m[w] = true
	}
	return m
}()

type ndVar struct {
	kind  ndKind
	seq   int // order of declaration in the method (canonical order of tuples)
	level int // nesting depth of merging compound statements at the declaration
}

type ndEnv map[string]*ndVar

func (e ndEnv) clone() ndEnv {
	c := ndEnv{}
	for k, v := range e {
		w := *v
		c[k] = &w
	}
	return c
}

type ndLine struct {
	ind       int
	code, cmt string
}

// ndMode says how a statement list ends: ret — it is in tail position of the method (returns
// allowed, must end in one); otherwise it falls through to `pure vars`, and cont says whether a
// `continue` may be the exit of a guard (directly in the body of a forRange loop).
type ndMode struct {
	ret  bool
	vars []string
	cont bool
}

type ndExpr struct {
	text    string
	kind    ndKind
	atomic  bool
	monadic bool // the text is an M action (top-level indexing): bind it with ←
}

func (x ndExpr) arg() string {
	if x.atomic {
		return x.text
	}
	return "(" + x.text + ")"
}

type ndCtx struct {
	s       *tiSrc
	t       *ndType // nil for syntaxBasicNode
	goType  string
	recv    string
	cont    string
	emitted map[string]bool // Lean defs already written (callee before caller)
	out     []ndLine
	ind     int
	level   int
	seq     int
	nT      int
	nRest   int
	fuel    bool
}

func (c *ndCtx) emit(cmt string, format string, args ...interface{}) {
	c.out = append(c.out, ndLine{c.ind, fmt.Sprintf(format, args...), cmt})
}

func (c *ndCtx) comment(text string) { c.out = append(c.out, ndLine{c.ind, "", text}) }

// appendLast adds a suffix to the code of the last code line (before its comment).
func (c *ndCtx) appendLast(suffix string) {
	for i := len(c.out) - 1; i >= 0; i-- {
		if c.out[i].code != "" {
			c.out[i].code += suffix
			return
		}
	}
}

func (c *ndCtx) render() string {
	var b strings.Builder
	for _, l := range c.out {
		b.WriteString(strings.Repeat("  ", l.ind))
		switch {
		case l.code == "":
			b.WriteString("-- " + l.cmt)
		case l.cmt == "":
			b.WriteString(l.code)
		default:
			b.WriteString(l.code + "   -- " + l.cmt)
		}
		b.WriteByte('\n')
	}
	return b.String()
}

func (c *ndCtx) bad(n ast.Node, why string, args ...interface{}) error {
	return c.s.bad(n, why, args...)
}

func (c *ndCtx) isBasic() bool { return c.t == nil }

// basic is the Lean term for the embedded *syntaxBasicNode of the receiver.
func (c *ndCtx) basic() string {
	if c.isBasic() {
		return c.recv
	}
	return c.recv + ".basic"
}

func ndCheckIdent(s *tiSrc, n ast.Node, name string) error {
	if !ndIdentRe.MatchString(name) || ndReserved[name] {
		return s.bad(n, "identifier %q cannot be carried over to Lean", name)
	}
	return nil
}

// declare introduces a new variable; names are never shadowed.
func (c *ndCtx) declare(n ast.Node, env ndEnv, name string, k ndKind) error {
	if k == ndOk && ndIdentRe.MatchString(name) {
		// never written to the Lean text
	} else if err := ndCheckIdent(c.s, n, name); err != nil {
		return err
	}
	if _, ok := env[name]; ok {
		return c.bad(n, "%q is declared twice (shadowing is not translated)", name)
	}
	c.seq++
	env[name] = &ndVar{kind: k, seq: c.seq, level: c.level}
	return nil
}

func ndTuple(vars []string) string {
	if len(vars) == 1 {
		return vars[0]
	}
	return "(" + strings.Join(vars, ", ") + ")"
}

// tupleType is the Lean type of the tuple of variables (`st` is St).
func (c *ndCtx) tupleType(n ast.Node, env ndEnv, vars []string) (string, error) {
	var ts []string
	for _, v := range vars {
		if v == "st" {
			ts = append(ts, "St")
			continue
		}
		t, ok := ndLeanType[env[v].kind]
		if !ok {
			return "", c.bad(n, "variable %s cannot be carried through a join point", v)
		}
		ts = append(ts, t)
	}
	return strings.Join(ts, " × "), nil
}

// quote prints a statement for a comment; compound statements with their bodies elided.
func (c *ndCtx) quote(n ast.Node) string {
	empty := &ast.BlockStmt{}
	switch x := n.(type) {
	case *ast.IfStmt:
		cp := *x
		cp.Body = empty
		if cp.Else != nil {
			cp.Else = empty
		}
		n = &cp
	case *ast.ForStmt:
		cp := *x
		cp.Body = empty
		n = &cp
	case *ast.RangeStmt:
		cp := *x
		cp.Body = empty
		n = &cp
	case *ast.TypeSwitchStmt:
		cp := *x
		cp.Body = empty
		n = &cp
	default:
		return c.s.str(n)
	}
	return strings.ReplaceAll(c.s.str(n), "{ }", "{ … }")
}

// ndHasExit: the statement contains a return, or a branch statement that leaves it.
func ndHasExit(n ast.Node) bool {
	found := false
	var walk func(n ast.Node, inLoop bool)
	walk = func(n ast.Node, inLoop bool) {
		ast.Inspect(n, func(x ast.Node) bool {
			switch x := x.(type) {
			case *ast.FuncLit:
				return false
			case *ast.ReturnStmt:
				found = true
			case *ast.BranchStmt:
				if !inLoop || x.Label != nil || x.Tok == token.GOTO {
					found = true
				}
			case *ast.ForStmt:
				walk(x.Body, true)
				return false
			case *ast.RangeStmt:
				walk(x.Body, true)
				return false
			}
			return true
		})
	}
	walk(n, false)
	return found
}

// assigned: the variables declared outside (in env) that the nodes assign, in canonical order
// (`st` first — the container is written or handed to a call —, then order of declaration).
func (c *ndCtx) assigned(env ndEnv, nodes ...ast.Node) []string {
	set := map[string]bool{}
	target := func(e ast.Expr) {
		switch e := e.(type) {
		case *ast.Ident:
			set[e.Name] = true
		case *ast.IndexExpr:
			if id, ok := e.X.(*ast.Ident); ok {
				set[id.Name] = true
			}
		case *ast.SelectorExpr:
			if tiIsIdent(e.X, c.cont) {
				set["st"] = true
			}
		}
	}
	for _, n := range nodes {
		ast.Inspect(n, func(x ast.Node) bool {
			switch x := x.(type) {
			case *ast.FuncLit:
				return false
			case *ast.AssignStmt:
				if x.Tok != token.DEFINE {
					for _, l := range x.Lhs {
						target(l)
					}
				}
			case *ast.IncDecStmt:
				target(x.X)
			case *ast.RangeStmt:
				if x.Tok == token.ASSIGN {
					for _, e := range []ast.Expr{x.Key, x.Value} {
						if e != nil {
							target(e)
						}
					}
				}
			case *ast.CallExpr:
				for _, a := range x.Args {
					if tiIsIdent(a, c.cont) {
						set["st"] = true
					}
				}
				if c.isRecvSel(x.Fun, "query", "compute") {
					set["st"] = true
				}
			}
			return true
		})
	}
	var vars []string
	for name := range set {
		if v, ok := env[name]; name != "st" && (!ok || v.kind == ndOk || v.kind == ndRecv || v.kind == ndCont) {
			continue
		}
		vars = append(vars, name)
	}
	sort.Slice(vars, func(i, j int) bool {
		if vars[i] == "st" || vars[j] == "st" {
			return vars[i] == "st" && vars[j] != "st"
		}
		return env[vars[i]].seq < env[vars[j]].seq
	})
	return vars
}

// isRecvSel: e is `<recv>.a.b…` with the given selector path.
func (c *ndCtx) isRecvSel(e ast.Expr, path ...string) bool {
	for i := len(path) - 1; i >= 0; i-- {
		se, ok := e.(*ast.SelectorExpr)
		if !ok || se.Sel.Name != path[i] {
			return false
		}
		e = se.X
	}
	return tiIsIdent(e, c.recv)
}

func ndCall(e ast.Expr) (*ast.CallExpr, bool) {
	ce, ok := e.(*ast.CallExpr)
	if !ok || ce.Ellipsis.IsValid() {
		return nil, false
	}
	return ce, true
}

func ndIsMapType(e ast.Expr) bool {
	mt, ok := e.(*ast.MapType)
	return ok && tiIsIdent(mt.Key, "string") && tiIsEmptyIface(mt.Value)
}

func ndUnparen(e ast.Expr) ast.Expr {
	for {
		p, ok := e.(*ast.ParenExpr)
		if !ok {
			return e
		}
		e = p.X
	}
}

// ---------------------------------------------------------------- expressions

func (c *ndCtx) lookup(e ast.Expr, env ndEnv) (string, *ndVar, bool) {
	id, ok := e.(*ast.Ident)
	if !ok {
		return "", nil, false
	}
	v, ok := env[id.Name]
	return id.Name, v, ok
}

// varOf: e is a variable of kind k.
func (c *ndCtx) varOf(e ast.Expr, env ndEnv, k ndKind, what string) (string, error) {
	name, v, ok := c.lookup(e, env)
	if !ok || v.kind != k {
		return "", c.bad(e, "expected %s, found %s", what, c.s.str(e))
	}
	return name, nil
}

// expr translates an expression; a monadic top level is bound to a temporary first.
func (c *ndCtx) expr(e ast.Expr, env ndEnv) (ndExpr, error) {
	x, err := c.exprM(e, env)
	if err != nil || !x.monadic {
		return x, err
	}
	c.nT++
	t := fmt.Sprintf("t_%d", c.nT)
	c.emit("", "let %s ← %s", t, x.text)
	return ndExpr{text: t, kind: x.kind, atomic: true}, nil
}

// exprAs translates e and coerces it to kind k.
func (c *ndCtx) exprAs(e ast.Expr, env ndEnv, k ndKind) (ndExpr, error) {
	x, err := c.expr(e, env)
	if err != nil {
		return x, err
	}
	return c.coerce(e, x, k)
}

func (c *ndCtx) coerce(n ast.Node, x ndExpr, to ndKind) (ndExpr, error) {
	switch {
	case x.kind == to:
		return x, nil
	case x.kind == ndGov && to == ndVal:
		return ndExpr{text: x.arg() + ".v", kind: to, atomic: true}, nil
	case x.kind == ndVal && to == ndGov:
		return ndExpr{text: "GoVal.bare " + x.arg(), kind: to}, nil
	case x.kind == ndMap && to == ndGov:
		return ndExpr{text: "GoVal.ofMap " + x.arg(), kind: to}, nil
	case x.kind == ndList && to == ndGov:
		return ndExpr{text: "GoVal.ofList " + x.arg(), kind: to}, nil
	}
	want := ndLeanType[to]
	if want == "" {
		want = fmt.Sprintf("kind %d", to)
	}
	return x, c.bad(n, "%s cannot be used where a %s is expected", c.s.str(n), want)
}

// field translates `<recv>.<name>`; promoted fields of the embedded basic node go through .basic.
func (c *ndCtx) field(se *ast.SelectorExpr) (string, ndKind, error) {
	if !tiIsIdent(se.X, c.recv) {
		return "", ndNone, c.bad(se, "selector %s", c.s.str(se))
	}
	if c.t != nil {
		if k, ok := c.t.kinds[se.Sel.Name]; ok {
			return c.recv + "." + se.Sel.Name, k, nil
		}
	}
	if k, ok := ndBasicKinds[se.Sel.Name]; ok {
		return c.basic() + "." + se.Sel.Name, k, nil
	}
	return "", ndNone, c.bad(se, "field %s of %s", se.Sel.Name, c.goType)
}

func (c *ndCtx) isNilIdent(e ast.Expr, env ndEnv) bool {
	_, shadowed := env["nil"]
	return tiIsIdent(e, "nil") && !shadowed
}

// lenOf translates the argument of len(…) to the Lean list whose length is meant.
func (c *ndCtx) lenOf(a ast.Expr, env ndEnv) (string, error) {
	a = ndUnparen(a)
	if tiIsSel(a, c.cont, "result") {
		return "st.out", nil
	}
	if st, ok := a.(*ast.StarExpr); ok {
		name, err := c.varOf(st.X, env, ndKeys, "a sorted-keys variable")
		return name, err
	}
	name, v, ok := c.lookup(a, env)
	if ok {
		switch v.kind {
		case ndMap:
			return name + ".kvs", nil
		case ndList:
			return name + ".xs", nil
		case ndCells:
			return name + ".cells", nil
		case ndGovs:
			return name, nil
		}
	}
	return "", c.bad(a, "len of %s", c.s.str(a))
}

func (c *ndCtx) exprM(e ast.Expr, env ndEnv) (ndExpr, error) {
	none := ndExpr{}
	switch e := e.(type) {
	case *ast.ParenExpr:
		return c.exprM(e.X, env)
	case *ast.Ident:
		if v, ok := env[e.Name]; ok {
			switch v.kind {
			case ndVal, ndGov, ndMap, ndList, ndStr, ndInt, ndGovs, ndCells, ndBool, ndNat, ndOperr, ndErr, ndNoderef:
				return ndExpr{text: e.Name, kind: v.kind, atomic: true}, nil
			}
			return none, c.bad(e, "variable %s cannot be used as a value here", e.Name)
		}
		for _, k := range ndConsts {
			if e.Name == k {
				return ndExpr{text: k, kind: ndStr, atomic: true}, nil
			}
		}
		return none, c.bad(e, "unknown variable %s", e.Name)
	case *ast.BasicLit:
		if e.Kind != token.INT || !ndIntRe.MatchString(e.Value) {
			return none, c.bad(e, "literal %s", e.Value)
		}
		return ndExpr{text: e.Value, kind: ndInt, atomic: true}, nil
	case *ast.SelectorExpr:
		if name, v, ok := c.lookup(e.X, env); ok && v.kind == ndSingle && e.Sel.Name == "identifier" {
			return ndExpr{text: name + "_identifier", kind: ndStr, atomic: true}, nil
		}
		text, k, err := c.field(e)
		if err != nil {
			return none, err
		}
		if k != ndStr && k != ndBool {
			return none, c.bad(e, "field %s cannot be used as a value here", e.Sel.Name)
		}
		return ndExpr{text: text, kind: k, atomic: true}, nil
	case *ast.CallExpr:
		if e.Ellipsis.IsValid() {
			return none, c.bad(e, "call %s", c.s.str(e))
		}
		// len(x)
		if tiIsIdent(e.Fun, "len") && len(e.Args) == 1 {
			l, err := c.lenOf(e.Args[0], env)
			if err != nil {
				return none, err
			}
			return ndExpr{text: "goLen " + l, kind: ndInt}, nil
		}
		// reflect.TypeOf(x).String()
		if se, ok := e.Fun.(*ast.SelectorExpr); ok && se.Sel.Name == "String" && len(e.Args) == 0 {
			if in, ok := ndCall(se.X); ok && tiIsSel(in.Fun, "reflect", "TypeOf") && len(in.Args) == 1 {
				x, err := c.varOf(in.Args[0], env, ndGov, "a value with a handle")
				if err != nil {
					return none, err
				}
				return ndExpr{text: "reflectTypeString " + x, kind: ndStr}, nil
			}
		}
		return none, c.bad(e, "call %s in an expression", c.s.str(e))
	case *ast.UnaryExpr:
		if e.Op != token.NOT {
			return none, c.bad(e, "operator %s", e.Op)
		}
		x, err := c.exprAs(e.X, env, ndBool)
		if err != nil {
			return none, err
		}
		return ndExpr{text: "!" + c.boolValue(e.X, x).arg(), kind: ndBool}, nil
	case *ast.BinaryExpr:
		return c.binary(e, env)
	case *ast.IndexExpr:
		return c.index(e, env)
	}
	return none, c.bad(e, "expression %s", c.s.str(e))
}

func (c *ndCtx) binary(e *ast.BinaryExpr, env ndEnv) (ndExpr, error) {
	none := ndExpr{}
	switch e.Op {
	case token.SUB:
		// E - <literal>
		x, err := c.exprAs(e.X, env, ndInt)
		if err != nil {
			return none, err
		}
		lit, ok := e.Y.(*ast.BasicLit)
		if !ok || lit.Kind != token.INT || !ndIntRe.MatchString(lit.Value) {
			return none, c.bad(e, "only `e - <literal>` is translated, found %s", c.s.str(e))
		}
		if _, ok := e.X.(*ast.BinaryExpr); ok {
			return none, c.bad(e, "nested arithmetic %s", c.s.str(e))
		}
		return ndExpr{text: x.text + " - " + lit.Value, kind: ndInt}, nil
	case token.EQL, token.NEQ:
		if c.isNilIdent(e.Y, env) {
			// i.next != nil
			if se, ok := e.X.(*ast.SelectorExpr); ok && e.Op == token.NEQ {
				text, k, err := c.field(se)
				if err != nil {
					return none, err
				}
				if k != ndFNext {
					return none, c.bad(e, "nil test of field %s", se.Sel.Name)
				}
				return ndExpr{text: text + ".isSome", kind: ndBool, atomic: true}, nil
			}
			name, v, ok := c.lookup(e.X, env)
			switch {
			case ok && v.kind == ndGov && e.Op == token.NEQ:
				return ndExpr{text: "!isNil " + name, kind: ndBool}, nil
			case ok && v.kind == ndOperr && e.Op == token.EQL:
				return ndExpr{text: name + ".isNone", kind: ndBool, atomic: true}, nil
			}
			return none, c.bad(e, "nil test %s", c.s.str(e))
		}
		if e.Op == token.NEQ {
			return none, c.bad(e, "operator != in %s", c.s.str(e))
		}
		// cells[ix] == emptyEntity
		if _, shadowed := env["emptyEntity"]; tiIsIdent(e.Y, "emptyEntity") && !shadowed {
			ix, ok := e.X.(*ast.IndexExpr)
			if !ok {
				return none, c.bad(e, "comparison with emptyEntity: %s", c.s.str(e))
			}
			cells, err := c.varOf(ix.X, env, ndCells, "the result of query.compute")
			if err != nil {
				return none, err
			}
			i, err := c.exprAs(ix.Index, env, ndInt)
			if err != nil {
				return none, err
			}
			return ndExpr{text: "cellIsEmpty " + cells + " " + i.arg(), kind: ndBool, monadic: true}, nil
		}
		fallthrough
	case token.GTR:
		x, err := c.exprAs(e.X, env, ndInt)
		if err != nil {
			return none, err
		}
		y, err := c.exprAs(e.Y, env, ndInt)
		if err != nil {
			return none, err
		}
		for _, o := range []ast.Expr{e.X, e.Y} {
			if _, ok := ndUnparen(o).(*ast.BinaryExpr); ok {
				return none, c.bad(e, "nested operators in %s", c.s.str(e))
			}
		}
		if e.Op == token.GTR {
			// a Prop: fine as a condition; as a Bool value it is wrapped in decide by boolValue
			return ndExpr{text: x.text + " > " + y.text, kind: ndBool}, nil
		}
		return ndExpr{text: x.text + " == " + y.text, kind: ndBool}, nil
	}
	return none, c.bad(e, "operator %s in %s", e.Op, c.s.str(e))
}

// isProp: the translated text of e is a Prop (an order comparison), not a Bool.
func ndIsProp(e ast.Expr) bool {
	b, ok := ndUnparen(e).(*ast.BinaryExpr)
	return ok && b.Op == token.GTR
}

// boolValue translates a Bool-valued expression that is stored or negated (not a condition).
func (c *ndCtx) boolValue(e ast.Expr, x ndExpr) ndExpr {
	if ndIsProp(e) {
		return ndExpr{text: "decide (" + x.text + ")", kind: ndBool}
	}
	return x
}

func (c *ndCtx) index(e *ast.IndexExpr, env ndEnv) (ndExpr, error) {
	none := ndExpr{}
	base := ndUnparen(e.X)
	// (*sortKeys)[ix]
	if st, ok := base.(*ast.StarExpr); ok {
		keys, err := c.varOf(st.X, env, ndKeys, "a sorted-keys variable")
		if err != nil {
			return none, err
		}
		i, err := c.exprAs(e.Index, env, ndInt)
		if err != nil {
			return none, err
		}
		return ndExpr{text: "sliceIndex " + keys + " " + i.arg(), kind: ndStr, monadic: true}, nil
	}
	name, v, ok := c.lookup(base, env)
	if !ok {
		return none, c.bad(e, "indexing %s", c.s.str(e.X))
	}
	switch v.kind {
	case ndMap:
		k, err := c.exprAs(e.Index, env, ndStr)
		if err != nil {
			return none, err
		}
		return ndExpr{text: "mapGet " + name + " " + k.arg(), kind: ndGov}, nil
	case ndList:
		i, err := c.exprAs(e.Index, env, ndInt)
		if err != nil {
			return none, err
		}
		return ndExpr{text: "listIndex " + name + " " + i.arg(), kind: ndGov, monadic: true}, nil
	case ndGovs:
		i, err := c.exprAs(e.Index, env, ndInt)
		if err != nil {
			return none, err
		}
		return ndExpr{text: "sliceIndex " + name + " " + i.arg(), kind: ndGov, monadic: true}, nil
	}
	return none, c.bad(e, "indexing %s", c.s.str(e.X))
}

// cond translates a condition (Bool or decidable Prop), temporaries first.
func (c *ndCtx) cond(e ast.Expr, env ndEnv) (string, error) {
	x, err := c.exprAs(e, env, ndBool)
	return x.text, err
}

// ---------------------------------------------------------------- calls that return errorRuntime

// callErr translates a call whose result is an errorRuntime to `<callee> … st : M (St × Option RtErr)`.
func (c *ndCtx) callErr(e ast.Expr, env ndEnv) (string, error) {
	ce, ok := ndCall(e)
	if !ok {
		return "", c.bad(e, "expected a call, found %s", c.s.str(e))
	}
	se, ok := ce.Fun.(*ast.SelectorExpr)
	if !ok {
		return "", c.bad(e, "callee %s", c.s.str(ce.Fun))
	}
	var head string
	var kinds []ndKind
	switch {
	case tiIsIdent(se.X, c.recv):
		switch m := se.Sel.Name; m {
		case "retrieveAnyValueNext":
			head, kinds = "syntaxBasicNode_"+m+" "+c.basic(), []ndKind{ndVal, ndVal}
		case "retrieveMapNext":
			head, kinds = "syntaxBasicNode_"+m+" "+c.basic(), []ndKind{ndVal, ndMap, ndStr}
		case "retrieveListNext":
			head, kinds = "syntaxBasicNode_"+m+" "+c.basic(), []ndKind{ndVal, ndList, ndInt}
		case "retrieveMap":
			head, kinds = c.goType+"_"+m+" "+c.recv, []ndKind{ndVal, ndMap}
		case "retrieveList":
			head, kinds = c.goType+"_"+m+" "+c.recv, []ndKind{ndVal, ndList}
		default:
			return "", c.bad(e, "callee %s", c.s.str(ce.Fun))
		}
		if !c.emitted[strings.Fields(head)[0]] {
			return "", c.bad(e, "%s is not translated before its caller", c.s.str(ce.Fun))
		}
	case se.Sel.Name == "retrieve" && c.isRecvSel(se.X, "next"):
		head, kinds = "callNext "+c.basic()+".next", []ndKind{ndVal, ndGov}
	case se.Sel.Name == "retrieve" && c.isRecvSel(se.X, "unionQualifier") && c.t != nil && c.t.kinds["unionQualifier"] == ndFUnion:
		head, kinds = c.recv+".unionQualifier.retrieve", []ndKind{ndVal, ndGov}
	case se.Sel.Name == "retrieve":
		name, err := c.varOf(se.X, env, ndNoderef, "a node reference")
		if err != nil {
			return "", err
		}
		head, kinds = name+".retrieve", []ndKind{ndVal, ndGov}
	default:
		return "", c.bad(e, "callee %s", c.s.str(ce.Fun))
	}
	if len(ce.Args) != len(kinds)+1 || !tiIsIdent(ce.Args[len(kinds)], c.cont) {
		return "", c.bad(e, "%s takes %d arguments and %s last", c.s.str(ce.Fun), len(kinds), c.cont)
	}
	for i, k := range kinds {
		x, err := c.exprAs(ce.Args[i], env, k)
		if err != nil {
			return "", err
		}
		head += " " + x.arg()
	}
	return head + " st", nil
}

// errLit translates ErrorMemberNotExist{…} / ErrorTypeUnmatched{…} to an RtErr term.
func (c *ndCtx) errLit(cl *ast.CompositeLit, env ndEnv) (string, error) {
	id, ok := cl.Type.(*ast.Ident)
	if !ok {
		return "", c.bad(cl, "literal %s", c.s.str(cl))
	}
	got := map[string]string{}
	for _, el := range cl.Elts {
		kv, ok := el.(*ast.KeyValueExpr)
		if !ok {
			return "", c.bad(el, "expected keyed fields in %s", id.Name)
		}
		key, ok := kv.Key.(*ast.Ident)
		if !ok || got[key.Name] != "" {
			return "", c.bad(el, "expected distinct keyed fields in %s", id.Name)
		}
		switch key.Name {
		case "errorBasicRuntime":
			if !c.isRecvSel(kv.Value, "errorRuntime") {
				return "", c.bad(kv, "errorBasicRuntime must be %s.errorRuntime", c.recv)
			}
			got[key.Name] = c.basic() + ".errorRuntime"
		case "expectedType":
			isConst := false
			for _, k := range ndConsts {
				isConst = isConst || tiIsIdent(kv.Value, k)
			}
			if !isConst {
				return "", c.bad(kv, "expectedType must be one of the msgType constants, found %s", c.s.str(kv.Value))
			}
			got[key.Name] = c.s.str(kv.Value)
		case "foundType":
			name, err := c.varOf(kv.Value, env, ndStr, "a string variable")
			if err != nil {
				return "", err
			}
			got[key.Name] = name
		default:
			return "", c.bad(kv, "field %s of %s", key.Name, id.Name)
		}
	}
	switch {
	case id.Name == "ErrorMemberNotExist" && len(got) == 1 && got["errorBasicRuntime"] != "":
		return "RtErr.member " + got["errorBasicRuntime"], nil
	case id.Name == "ErrorTypeUnmatched" && len(got) == 3:
		return "RtErr.type " + got["errorBasicRuntime"] + " " + got["expectedType"] + " " + got["foundType"], nil
	}
	return "", c.bad(cl, "literal %s", c.s.str(cl))
}

// ---------------------------------------------------------------- simple statements

// ret translates `return …` in tail position.
func (c *ndCtx) ret(st *ast.ReturnStmt, env ndEnv) error {
	if len(st.Results) != 1 {
		return c.bad(st, "return %q", c.s.str(st))
	}
	r, cmt := st.Results[0], c.s.str(st)
	if c.isNilIdent(r, env) {
		c.emit(cmt, ".ok (st, none)")
		return nil
	}
	if name, v, ok := c.lookup(r, env); ok && v.kind == ndOperr {
		c.emit(cmt, ".ok (st, %s)", name)
		return nil
	}
	if cl, ok := r.(*ast.CompositeLit); ok {
		t, err := c.errLit(cl, env)
		if err != nil {
			return err
		}
		c.emit(cmt, ".ok (st, some (%s))", t)
		return nil
	}
	if _, ok := r.(*ast.CallExpr); !ok {
		return c.bad(st, "return %q", c.s.str(st))
	}
	t, err := c.callErr(r, env)
	if err != nil {
		return err
	}
	c.emit(cmt, "%s", t)
	return nil
}

func (c *ndCtx) decl(st *ast.DeclStmt, env ndEnv) error {
	gd, ok := st.Decl.(*ast.GenDecl)
	if !ok || gd.Tok != token.VAR || len(gd.Specs) != 1 {
		return c.bad(st, "declaration %q", c.s.str(st))
	}
	vs := gd.Specs[0].(*ast.ValueSpec)
	if len(vs.Names) != 1 || len(vs.Values) != 0 || vs.Type == nil {
		return c.bad(st, "declaration %q", c.s.str(st))
	}
	name := vs.Names[0].Name
	switch {
	case tiIsIdent(vs.Type, "int"):
		if err := c.declare(st, env, name, ndNat); err != nil {
			return err
		}
		c.emit(c.s.str(st), "let %s : Nat := 0", name)
	case tiIsIdent(vs.Type, "errorRuntime"):
		if err := c.declare(st, env, name, ndOperr); err != nil {
			return err
		}
		c.emit(c.s.str(st), "let %s : Option RtErr := none", name)
	default:
		return c.bad(st, "declaration %q", c.s.str(st))
	}
	return nil
}

// exprStmt: putSortSlice(keys) and verifFilterList(cells, len(src)) become comments.
func (c *ndCtx) exprStmt(st *ast.ExprStmt, env ndEnv) error {
	ce, ok := ndCall(st.X)
	if !ok {
		return c.bad(st, "statement %q", c.s.str(st))
	}
	switch {
	case tiIsIdent(ce.Fun, "putSortSlice") && len(ce.Args) == 1:
		name, err := c.varOf(ce.Args[0], env, ndKeys, "a sorted-keys variable")
		if err != nil {
			return err
		}
		env[name].kind = ndDead // given back to the pool: not to be used any more
	case tiIsIdent(ce.Fun, "verifFilterList") && len(ce.Args) == 2:
		if _, err := c.varOf(ce.Args[0], env, ndCells, "the result of query.compute"); err != nil {
			return err
		}
		le, ok := ndCall(ce.Args[1])
		if !ok || !tiIsIdent(le.Fun, "len") || len(le.Args) != 1 {
			return c.bad(st, "expected verifFilterList(list, len(src))")
		}
		_, v, ok := c.lookup(le.Args[0], env)
		if !ok || v.kind != ndMap && v.kind != ndList {
			return c.bad(st, "expected verifFilterList(list, len(src))")
		}
	default:
		return c.bad(st, "statement %q", c.s.str(st))
	}
	c.comment(c.s.str(st))
	return nil
}

// push: container.result = append(container.result, V)
func (c *ndCtx) push(st *ast.AssignStmt, env ndEnv) error {
	ce, ok := ndCall(st.Rhs[0])
	if st.Tok != token.ASSIGN || !ok || !tiIsIdent(ce.Fun, "append") || len(ce.Args) != 2 || !tiIsSel(ce.Args[0], c.cont, "result") {
		return c.bad(st, "expected %s.result = append(%s.result, v)", c.cont, c.cont)
	}
	cmt := c.s.str(st)
	if cl, ok := ce.Args[1].(*ast.CompositeLit); ok {
		val, place, err := c.accessor(cl, env)
		if err != nil {
			return err
		}
		c.emit(cmt, "let st := st.push (Res.acc %s %s)", val, place)
		return nil
	}
	x, err := c.expr(ce.Args[1], env)
	if err != nil {
		return err
	}
	if x.kind != ndVal && x.kind != ndGov {
		return c.bad(ce.Args[1], "%s is not a document value", c.s.str(ce.Args[1]))
	}
	if x, err = c.coerce(ce.Args[1], x, ndVal); err != nil {
		return err
	}
	c.emit(cmt, "let st := st.push (Res.plain %s)", x.arg())
	return nil
}

// place translates `m[k]` / `l[ix]` (k, ix variables) to value and place terms.
func (c *ndCtx) place(e ast.Expr, env ndEnv, wantValue bool) (val, place string, err error) {
	ix, ok := e.(*ast.IndexExpr)
	if !ok {
		return "", "", c.bad(e, "expected m[k] or l[ix], found %s", c.s.str(e))
	}
	base, bv, ok1 := c.lookup(ix.X, env)
	key, kv, ok2 := c.lookup(ix.Index, env)
	switch {
	case ok1 && ok2 && bv.kind == ndMap && kv.kind == ndStr:
		place = "mapPlace " + base + " " + key
	case ok1 && ok2 && bv.kind == ndList && kv.kind == ndInt:
		place = "listPlace " + base + " " + key
	default:
		return "", "", c.bad(e, "expected m[k] or l[ix] on variables, found %s", c.s.str(e))
	}
	if wantValue {
		x, err := c.exprAs(e, env, ndVal)
		if err != nil {
			return "", "", err
		}
		val = x.arg()
	}
	return val, place, nil
}

// accessor: Accessor{Get: func() interface{} { return E }, Set: nil | func(v interface{}) { P = v }}
func (c *ndCtx) accessor(cl *ast.CompositeLit, env ndEnv) (val, place string, err error) {
	if !tiIsIdent(cl.Type, "Accessor") || len(cl.Elts) != 2 {
		return "", "", c.bad(cl, "expected Accessor{Get: …, Set: …}")
	}
	parts := map[string]ast.Expr{}
	for _, el := range cl.Elts {
		kv, ok := el.(*ast.KeyValueExpr)
		if !ok {
			return "", "", c.bad(el, "expected a keyed field")
		}
		key, ok := kv.Key.(*ast.Ident)
		if !ok || key.Name != "Get" && key.Name != "Set" || parts[key.Name] != nil {
			return "", "", c.bad(el, "field %s of Accessor", c.s.str(kv.Key))
		}
		parts[key.Name] = kv.Value
	}
	get, ok := parts["Get"].(*ast.FuncLit)
	if !ok || parts["Set"] == nil {
		return "", "", c.bad(cl, "expected Accessor{Get: func() interface{} {…}, Set: …}")
	}
	_, pt := tiFlatParams(get.Type.Params)
	rn, rt := tiFlatParams(get.Type.Results)
	if len(pt) != 0 || len(rt) != 1 || rn[0] != "" || !tiIsEmptyIface(rt[0]) || len(get.Body.List) != 1 {
		return "", "", c.bad(get, "expected func() interface{} { return e }")
	}
	rs, ok := get.Body.List[0].(*ast.ReturnStmt)
	if !ok || len(rs.Results) != 1 {
		return "", "", c.bad(get, "expected func() interface{} { return e }")
	}
	src := rs.Results[0]
	isPlace := false
	if name, v, ok := c.lookup(src, env); ok && v.kind == ndVal {
		val = name
	} else if val, _, err = c.place(src, env, true); err != nil {
		return "", "", err
	} else {
		isPlace = true
	}
	if c.isNilIdent(parts["Set"], env) {
		return val, "none", nil
	}
	set, ok := parts["Set"].(*ast.FuncLit)
	if !ok {
		return "", "", c.bad(parts["Set"], "expected nil or func(value interface{}) { p = value }")
	}
	pn, pt := tiFlatParams(set.Type.Params)
	_, rt = tiFlatParams(set.Type.Results)
	if len(pn) != 1 || !tiIsEmptyIface(pt[0]) || len(rt) != 0 || len(set.Body.List) != 1 {
		return "", "", c.bad(set, "expected func(value interface{}) { p = value }")
	}
	if _, clash := env[pn[0]]; clash || ndCheckIdent(c.s, set, pn[0]) != nil {
		return "", "", c.bad(set, "parameter %q of the Set closure", pn[0])
	}
	as, ok := set.Body.List[0].(*ast.AssignStmt)
	if !ok || as.Tok != token.ASSIGN || len(as.Lhs) != 1 || len(as.Rhs) != 1 || !tiIsIdent(as.Rhs[0], pn[0]) {
		return "", "", c.bad(set.Body, "expected { p = %s }", pn[0])
	}
	if !isPlace || c.s.str(as.Lhs[0]) != c.s.str(src) {
		return "", "", c.bad(as, "Set assigns %s but Get reads %s", c.s.str(as.Lhs[0]), c.s.str(src))
	}
	if _, place, err = c.place(as.Lhs[0], env, false); err != nil {
		return "", "", err
	}
	return val, "(some (" + place + "))", nil
}

// assign translates the assignments and short declarations that are not guards.
func (c *ndCtx) assign(st *ast.AssignStmt, env ndEnv) error {
	cmt := c.s.str(st)
	// a, b = R.addDeepestError(err, a, b)
	if st.Tok == token.ASSIGN && len(st.Lhs) == 2 && len(st.Rhs) == 1 {
		ce, ok := ndCall(st.Rhs[0])
		if !ok || !c.isRecvSel(ce.Fun, "addDeepestError") || len(ce.Args) != 3 {
			return c.bad(st, "statement %q", cmt)
		}
		var names [5]string
		for i, a := range []struct {
			e ast.Expr
			k ndKind
		}{{st.Lhs[0], ndNat}, {st.Lhs[1], ndOperr}, {ce.Args[0], ndErr}, {ce.Args[1], ndNat}, {ce.Args[2], ndOperr}} {
			n, err := c.varOf(a.e, env, a.k, "a variable of the kind addDeepestError takes")
			if err != nil {
				return err
			}
			names[i] = n
		}
		c.emit(cmt, "let (%s, %s) := addDeepestError %s %s %s", names[0], names[1], names[2], names[3], names[4])
		return nil
	}
	if len(st.Lhs) != 1 || len(st.Rhs) != 1 || st.Tok != token.DEFINE && st.Tok != token.ASSIGN {
		return c.bad(st, "statement %q", cmt)
	}
	lhs, rhs, define := st.Lhs[0], st.Rhs[0], st.Tok == token.DEFINE
	if tiIsSel(lhs, c.cont, "result") {
		return c.push(st, env)
	}
	// xs[ix] = E
	if ix, ok := lhs.(*ast.IndexExpr); ok {
		xs, err := c.varOf(ix.X, env, ndGovs, "a slice made by make([]interface{}, …)")
		if err != nil {
			return err
		}
		if define {
			return c.bad(st, "statement %q", cmt)
		}
		i, err := c.exprAs(ix.Index, env, ndInt)
		if err != nil {
			return err
		}
		v, err := c.exprAs(rhs, env, ndGov)
		if err != nil {
			return err
		}
		c.emit(cmt, "let %s ← sliceSet %s %s %s", xs, xs, i.arg(), v.arg())
		return nil
	}
	id, ok := lhs.(*ast.Ident)
	if !ok {
		return c.bad(st, "statement %q", cmt)
	}
	x := id.Name
	// bind gives x the kind k: declared by :=, otherwise x must have that kind already
	// (change: the one assignment that re-types a variable, at the level of its declaration).
	bind := func(k ndKind, from ndKind) error {
		if define {
			return c.declare(id, env, x, k)
		}
		v, ok := env[x]
		switch {
		case !ok:
			return c.bad(id, "unknown variable %s", x)
		case from != ndNone && v.kind == from && v.level == c.level:
			v.kind = k
		case v.kind != k:
			return c.bad(st, "%s cannot be assigned in %q", x, cmt)
		}
		return nil
	}
	if ce, ok := ndCall(rhs); ok {
		switch {
		case tiIsIdent(ce.Fun, "getSortedKeys") && len(ce.Args) == 1 && define:
			m, err := c.varOf(ce.Args[0], env, ndMap, "a map")
			if err != nil {
				return err
			}
			if err := bind(ndKeys, ndNone); err != nil {
				return err
			}
			c.emit(cmt, "let %s := getSortedKeys %s", x, m)
			return nil
		case tiIsIdent(ce.Fun, "make") && (len(ce.Args) == 2 || len(ce.Args) == 3) && tiIsIfaceSlice(ce.Args[0]) && define:
			n, err := c.exprAs(ce.Args[1], env, ndInt)
			if err != nil {
				return err
			}
			if len(ce.Args) == 3 {
				// capacity is not modelled: both must be literals with len ≤ cap (no panic)
				l1, ok1 := ce.Args[1].(*ast.BasicLit)
				l2, ok2 := ce.Args[2].(*ast.BasicLit)
				if !ok1 || !ok2 || l2.Kind != token.INT || !ndIntRe.MatchString(l2.Value) {
					return c.bad(st, "make with a capacity takes two integer literals")
				}
				a, _ := strconv.Atoi(l1.Value)
				b, err := strconv.Atoi(l2.Value)
				if err != nil || a > b {
					return c.bad(st, "make with len > cap")
				}
			}
			if err := bind(ndGovs, ndNone); err != nil {
				return err
			}
			c.emit(cmt, "let %s := makeGoVals %s", x, n.arg())
			return nil
		case c.isRecvSel(ce.Fun, "query", "compute") && len(ce.Args) == 2 && c.t != nil && c.t.kinds["query"] == ndFQuery:
			r, err := c.exprAs(ce.Args[0], env, ndVal)
			if err != nil {
				return err
			}
			name, v, ok := c.lookup(ce.Args[1], env)
			var arg string
			switch {
			case ok && v.kind == ndList:
				arg = name + ".xs"
			case ok && v.kind == ndGovs:
				arg = "(" + name + ".map GoVal.v)"
			default:
				return c.bad(ce.Args[1], "expected a list variable, found %s", c.s.str(ce.Args[1]))
			}
			if err := bind(ndCells, ndGovs); err != nil {
				return err
			}
			c.emit(cmt, "let (%s, st) ← %s.query %s %s st", x, c.recv, r.arg(), arg)
			return nil
		case tiIsIdent(ce.Fun, "append") && len(ce.Args) == 2 && !define && tiIsIdent(ce.Args[0], x):
			if _, err := c.varOf(lhs, env, ndGovs, "a slice made by make([]interface{}, …)"); err != nil {
				return err
			}
			v, err := c.exprAs(ce.Args[1], env, ndGov)
			if err != nil {
				return err
			}
			c.emit(cmt, "let %s := %s ++ [%s]", x, x, v.text)
			return nil
		}
	}
	// xs = xs[:E]
	if se, ok := rhs.(*ast.SliceExpr); ok {
		if define || se.Low != nil || se.High == nil || se.Slice3 || !tiIsIdent(se.X, x) {
			return c.bad(st, "only xs = xs[:e] is translated, found %q", cmt)
		}
		if _, err := c.varOf(lhs, env, ndGovs, "a slice made by make([]interface{}, …)"); err != nil {
			return err
		}
		n, err := c.exprAs(se.High, env, ndInt)
		if err != nil {
			return err
		}
		c.emit(cmt, "let %s ← sliceTo %s %s", x, x, n.arg())
		return nil
	}
	// x := E, x = E
	v, err := c.exprM(rhs, env)
	if err != nil {
		return err
	}
	if define {
		if v.kind != ndStr && v.kind != ndBool && v.kind != ndInt && v.kind != ndGov {
			return c.bad(st, "a variable cannot be declared from %s", c.s.str(rhs))
		}
	} else {
		cur, ok := env[x]
		if !ok {
			return c.bad(id, "unknown variable %s", x)
		}
		// only scalars and handles: assigning a slice or map would alias it
		if cur.kind != ndStr && cur.kind != ndBool && cur.kind != ndInt && cur.kind != ndGov {
			return c.bad(st, "%s cannot be assigned in %q", x, cmt)
		}
		if v.monadic && v.kind != cur.kind {
			return c.bad(st, "%s cannot be assigned in %q", x, cmt)
		}
		if !v.monadic {
			if v, err = c.coerce(rhs, v, cur.kind); err != nil {
				return err
			}
		}
	}
	if err := bind(v.kind, ndNone); err != nil {
		return err
	}
	switch {
	case v.monadic:
		c.emit(cmt, "let %s ← %s", x, v.text)
	case v.kind == ndBool:
		c.emit(cmt, "let %s := %s", x, c.boolValue(rhs, v).text)
	default:
		c.emit(cmt, "let %s := %s", x, v.text)
	}
	return nil
}

// ---------------------------------------------------------------- statement lists

func (c *ndCtx) block(at ast.Node, stmts []ast.Stmt, env ndEnv, m ndMode) error {
	for i, st := range stmts {
		rest := stmts[i+1:]
		var err error
		switch st := st.(type) {
		case *ast.ReturnStmt:
			if !m.ret {
				return c.bad(st, "return inside a loop or a branch that joins again")
			}
			if len(rest) > 0 {
				return c.bad(rest[0], "statement after a return")
			}
			return c.ret(st, env)
		case *ast.AssignStmt:
			if st.Tok == token.DEFINE && len(st.Lhs) == 2 && len(st.Rhs) == 1 {
				return c.guard2(st, rest, env, m)
			}
			err = c.assign(st, env)
		case *ast.DeclStmt:
			err = c.decl(st, env)
		case *ast.ExprStmt:
			err = c.exprStmt(st, env)
		case *ast.IfStmt:
			if ndHasExit(st) {
				return c.guardIf(st, rest, env, m)
			}
			err = c.compoundIf(st, env)
		case *ast.TypeSwitchStmt:
			if ndHasExit(st) {
				return c.switchExit(st, rest, env, m)
			}
			err = c.compoundSwitch(st, env)
		case *ast.RangeStmt, *ast.ForStmt:
			if ndHasExit(st) {
				return c.bad(st, "return or labelled branch inside a loop")
			}
			err = c.loop(st, env)
		default:
			return c.bad(st, "statement %q", c.s.str(st))
		}
		if err != nil {
			return err
		}
	}
	if m.ret {
		return c.bad(at, "control reaches the end of %q without a return", c.quote(at))
	}
	c.emit("", "pure %s", ndTuple(m.vars))
	return nil
}

// branch translates stmts at indentation ind as a branch that joins again with `pure vars`.
func (c *ndCtx) branch(at ast.Node, stmts []ast.Stmt, env ndEnv, vars []string, ind int, cont bool) error {
	save, lv := c.ind, c.level
	c.ind, c.level = ind, c.level+1
	err := c.block(at, stmts, env, ndMode{vars: vars, cont: cont})
	c.ind, c.level = save, lv
	return err
}

func (c *ndCtx) emitAt(ind int, format string, args ...interface{}) {
	c.out = append(c.out, ndLine{ind, fmt.Sprintf(format, args...), ""})
}

// compoundIf: an if statement without exits.
func (c *ndCtx) compoundIf(st *ast.IfStmt, env ndEnv) error {
	if st.Init != nil {
		return c.errCall(st, env)
	}
	nodes := []ast.Node{st.Body}
	var els *ast.BlockStmt
	if st.Else != nil {
		var ok bool
		if els, ok = st.Else.(*ast.BlockStmt); !ok {
			return c.bad(st.Else, "else if")
		}
		nodes = append(nodes, els)
	}
	vars := c.assigned(env, nodes...)
	if len(vars) == 0 {
		return c.bad(st, "%q assigns nothing", c.quote(st))
	}
	if done, err := c.letIf(st, env); done || err != nil {
		return err
	}
	c.comment(c.quote(st))
	cond, err := c.cond(st.Cond, env)
	if err != nil {
		return err
	}
	c.emit("", "let %s ← (if %s then do", ndTuple(vars), cond)
	if err := c.branch(st.Body, st.Body.List, env.clone(), vars, c.ind+2, false); err != nil {
		return err
	}
	if els != nil {
		c.emitAt(c.ind+1, "else do")
		if err := c.branch(els, els.List, env.clone(), vars, c.ind+2, false); err != nil {
			return err
		}
	} else {
		c.emitAt(c.ind+1, "else pure %s", ndTuple(vars))
	}
	c.appendLast(")")
	return nil
}

// letIf: `if C { x = E }` with a pure E becomes `let x := if C then E else x`.
func (c *ndCtx) letIf(st *ast.IfStmt, env ndEnv) (bool, error) {
	if st.Else != nil || len(st.Body.List) != 1 {
		return false, nil
	}
	as, ok := st.Body.List[0].(*ast.AssignStmt)
	if !ok || as.Tok != token.ASSIGN || len(as.Lhs) != 1 || len(as.Rhs) != 1 {
		return false, nil
	}
	x, v, ok := c.lookup(as.Lhs[0], env)
	if !ok || v.kind != ndStr && v.kind != ndBool && v.kind != ndInt && v.kind != ndGov {
		return false, nil
	}
	mark, nT := len(c.out), c.nT
	e, err := c.exprM(as.Rhs[0], env)
	if err != nil {
		return false, err
	}
	if e.monadic || len(c.out) != mark {
		c.out, c.nT = c.out[:mark], nT
		return false, nil
	}
	if e, err = c.coerce(as.Rhs[0], e, v.kind); err != nil {
		return false, err
	}
	if v.kind == ndBool {
		e = c.boolValue(as.Rhs[0], e)
	}
	c.comment(c.s.str(st))
	cond, err := c.cond(st.Cond, env)
	if err != nil {
		return false, err
	}
	c.emit("", "let %s := if %s then %s else %s", x, cond, e.text, x)
	return true, nil
}

// errCall: `if err := CALL; err != nil { BODY }` (BODY without exits).
func (c *ndCtx) errCall(st *ast.IfStmt, env ndEnv) error {
	as, ok := st.Init.(*ast.AssignStmt)
	if !ok || as.Tok != token.DEFINE || len(as.Lhs) != 1 || len(as.Rhs) != 1 || st.Else != nil {
		return c.bad(st, "expected `if err := call; err != nil { … }`, found %q", c.quote(st))
	}
	e, ok := as.Lhs[0].(*ast.Ident)
	be, ok2 := st.Cond.(*ast.BinaryExpr)
	if !ok || !ok2 || be.Op != token.NEQ || !tiIsIdent(be.X, e.Name) || !c.isNilIdent(be.Y, env) {
		return c.bad(st, "expected `if err := call; err != nil { … }`, found %q", c.quote(st))
	}
	vars := c.assigned(env, st.Body)
	if len(vars) == 0 {
		return c.bad(st, "the body of %q assigns nothing", c.quote(st))
	}
	c.comment(c.quote(st))
	call, err := c.callErr(as.Rhs[0], env)
	if err != nil {
		return err
	}
	inner := env.clone()
	if err := c.declare(e, inner, e.Name, ndErr); err != nil {
		return err
	}
	c.emit("", "let (st, %s) ← %s", e.Name, call)
	c.emit("", "let %s ← (match %s with", ndTuple(vars), e.Name)
	c.emitAt(c.ind+1, "| none => pure %s", ndTuple(vars))
	c.emitAt(c.ind+1, "| some %s => do", e.Name)
	if err := c.branch(st.Body, st.Body.List, inner, vars, c.ind+2, false); err != nil {
		return err
	}
	c.appendLast(")")
	return nil
}

// ---------------------------------------------------------------- guards

// ndFall emits the fall-through of a guard after the given prefix (`else` / `| none` / `| some v`):
// either a call of the join point on the same line or the rest of the statement list below it.
type ndFall func(prefix string, isElse bool, env ndEnv) error

func (c *ndCtx) fallInline(at ast.Node, rest []ast.Stmt, m ndMode) ndFall {
	return func(prefix string, isElse bool, env ndEnv) error {
		if isElse {
			c.emit("", "%s do", prefix)
		} else {
			c.emit("", "%s =>", prefix)
		}
		c.ind++
		err := c.block(at, rest, env, m)
		c.ind--
		return err
	}
}

func (c *ndCtx) fallCall(name string) ndFall {
	return func(prefix string, isElse bool, _ ndEnv) error {
		if isElse {
			c.emit("", "%s %s ()", prefix, name)
		} else {
			c.emit("", "%s => %s ()", prefix, name)
		}
		return nil
	}
}

// ndNestedGuard: the body of the if is exactly one further if (a nested guard).
func ndNestedGuard(st *ast.IfStmt) (*ast.IfStmt, bool) {
	if len(st.Body.List) != 1 {
		return nil, false
	}
	in, ok := st.Body.List[0].(*ast.IfStmt)
	return in, ok
}

// guardIf: an if statement that contains an exit, followed by rest.
func (c *ndCtx) guardIf(st *ast.IfStmt, rest []ast.Stmt, env ndEnv, m ndMode) error {
	if _, nested := ndNestedGuard(st); !nested {
		c.comment(c.quote(st))
		return c.guardEmit(st, env, m, c.fallInline(st, rest, m))
	}
	// nested guards: the rest becomes a join point first
	c.nRest++
	name := fmt.Sprintf("rest_%d", c.nRest)
	ty := "St × Option RtErr"
	if !m.ret {
		var err error
		if ty, err = c.tupleType(st, env, m.vars); err != nil {
			return err
		}
	}
	c.emit("", "let %s := fun (_ : Unit) => (do", name)
	c.ind++
	err := c.block(st, rest, env.clone(), m)
	c.ind--
	if err != nil {
		return err
	}
	c.appendLast(" : M (" + ty + "))")
	c.comment(c.s.str(st))
	return c.guardEmit(st, env, m, c.fallCall(name))
}

// exitBody: the innermost body of a guard — statements ending in a return, or `continue`.
func (c *ndCtx) exitBody(body *ast.BlockStmt, env ndEnv, m ndMode) error {
	if m.ret {
		return c.block(body, body.List, env, m)
	}
	if len(body.List) == 1 {
		if br, ok := body.List[0].(*ast.BranchStmt); ok && br.Tok == token.CONTINUE && br.Label == nil && m.cont {
			c.emit("continue", "pure %s", ndTuple(m.vars))
			return nil
		}
	}
	return c.bad(body, "only `continue` directly in a range loop can leave here")
}

// thenDo appends ` do` to the `if … then` line at index i when a let follows it.
func (c *ndCtx) thenDo(i int) {
	for _, l := range c.out[i+1:] {
		if l.code != "" {
			if strings.HasPrefix(l.code, "let ") {
				c.out[i].code += " do"
			}
			return
		}
	}
}

// guardEmit emits one level of a guard: condition, exit branch first, then the fall-through.
func (c *ndCtx) guardEmit(st *ast.IfStmt, env ndEnv, m ndMode, fall ndFall) error {
	if st.Else != nil {
		return c.bad(st.Else, "else branch of an if that leaves the statement list")
	}
	inner := env.clone()
	body := func() error {
		c.ind++
		defer func() { c.ind-- }()
		if in, nested := ndNestedGuard(st); nested {
			if !ndHasExit(in) {
				return c.bad(in, "nested if without an exit")
			}
			return c.guardEmit(in, inner, m, fall)
		}
		return c.exitBody(st.Body, inner, m)
	}
	if st.Init == nil {
		cond, err := c.cond(st.Cond, env)
		if err != nil {
			return err
		}
		at := len(c.out)
		c.emit("", "if %s then", cond)
		if err := body(); err != nil {
			return err
		}
		c.thenDo(at)
		return fall("else", true, env)
	}
	as, ok := st.Init.(*ast.AssignStmt)
	if !ok || len(as.Lhs) != 2 || len(as.Rhs) != 1 {
		return c.bad(st, "if statement %q", c.quote(st))
	}
	v, ok1 := as.Lhs[0].(*ast.Ident)
	okv, ok2 := as.Lhs[1].(*ast.Ident)
	if !ok1 || !ok2 {
		return c.bad(st, "if statement %q", c.quote(st))
	}
	// the ok variable: declared here, or (with =) the ok of an enclosing comma-ok form
	if as.Tok == token.DEFINE {
		if err := c.declare(okv, inner, okv.Name, ndOk); err != nil {
			return err
		}
	} else if cur, ok := env[okv.Name]; as.Tok != token.ASSIGN || !ok || cur.kind != ndOk {
		return c.bad(st, "if statement %q", c.quote(st))
	}
	switch rhs := as.Rhs[0].(type) {
	case *ast.TypeAssertExpr:
		// v, ok := x.(T); ok
		if !tiIsIdent(st.Cond, okv.Name) || as.Tok != token.DEFINE || rhs.Type == nil {
			return c.bad(st, "expected `if v, ok := x.(T); ok`, found %q", c.quote(st))
		}
		fn, k, bound, err := c.assertion(rhs, env, v.Name)
		if err != nil {
			return err
		}
		if v.Name != "_" {
			if err := c.declare(v, inner, v.Name, k); err != nil {
				return err
			}
		}
		c.emit("", "match %s with", fn)
		c.emit("", "| some %s =>", bound)
		if err := body(); err != nil {
			return err
		}
		return fall("| none", false, env)
	case *ast.IndexExpr:
		// _, ok = m[K]; !ok
		ue, ok := st.Cond.(*ast.UnaryExpr)
		if !ok || ue.Op != token.NOT || !tiIsIdent(ue.X, okv.Name) || v.Name != "_" {
			return c.bad(st, "expected `if _, ok = m[k]; !ok`, found %q", c.quote(st))
		}
		mp, err := c.varOf(rhs.X, env, ndMap, "a map")
		if err != nil {
			return err
		}
		k, err := c.exprAs(rhs.Index, env, ndStr)
		if err != nil {
			return err
		}
		c.emit("", "match mapIndex %s %s with", mp, k.arg())
		c.emit("", "| none =>")
		if err := body(); err != nil {
			return err
		}
		return fall("| some _", false, env)
	}
	return c.bad(st, "if statement %q", c.quote(st))
}

// assertion translates `x.(T)`: the Lean scrutinee, the kind of the bound variable and its
// spelling in the pattern.
func (c *ndCtx) assertion(ta *ast.TypeAssertExpr, env ndEnv, v string) (fn string, k ndKind, bound string, err error) {
	name, xv, ok := c.lookup(ta.X, env)
	if !ok {
		return "", ndNone, "", c.bad(ta, "type assertion on %s", c.s.str(ta.X))
	}
	bound = v
	switch {
	case xv.kind == ndGov && ndIsMapType(ta.Type):
		return "asMap " + name, ndMap, bound, nil
	case xv.kind == ndGov && tiIsIfaceSlice(ta.Type):
		return "asList " + name, ndList, bound, nil
	case xv.kind == ndNoderef && c.s.str(ta.Type) == "*syntaxChildSingleIdentifier":
		if v != "_" {
			bound = v + "_identifier"
		}
		return name + ".asSingle", ndSingle, bound, nil
	}
	return "", ndNone, "", c.bad(ta, "type assertion %s", c.s.str(ta))
}

// guard2: `v, ok := x.(T)` or `v, ok := m[k]` immediately followed by `if !ok { …exit }`.
func (c *ndCtx) guard2(st *ast.AssignStmt, rest []ast.Stmt, env ndEnv, m ndMode) error {
	v, ok1 := st.Lhs[0].(*ast.Ident)
	okv, ok2 := st.Lhs[1].(*ast.Ident)
	if !ok1 || !ok2 || len(rest) == 0 || v.Name == "_" {
		return c.bad(st, "a comma-ok form must be followed by `if !ok { … }`: %q", c.s.str(st))
	}
	ifs, ok := rest[0].(*ast.IfStmt)
	if !ok || ifs.Init != nil || ifs.Else != nil || !ndHasExit(ifs) {
		return c.bad(st, "a comma-ok form must be followed by `if !%s { …return }`", okv.Name)
	}
	ue, ok := ifs.Cond.(*ast.UnaryExpr)
	if !ok || ue.Op != token.NOT || !tiIsIdent(ue.X, okv.Name) {
		return c.bad(ifs, "a comma-ok form must be followed by `if !%s { …return }`", okv.Name)
	}
	if _, nested := ndNestedGuard(ifs); nested {
		return c.bad(ifs, "nested if after a comma-ok form")
	}
	var scrut string
	var k ndKind
	switch rhs := st.Rhs[0].(type) {
	case *ast.TypeAssertExpr:
		if rhs.Type == nil {
			return c.bad(st, "statement %q", c.s.str(st))
		}
		var err error
		if scrut, k, _, err = c.assertion(rhs, env, v.Name); err != nil {
			return err
		}
		if k == ndSingle {
			return c.bad(st, "statement %q", c.s.str(st))
		}
	case *ast.IndexExpr:
		mp, err := c.varOf(rhs.X, env, ndMap, "a map")
		if err != nil {
			return err
		}
		key, err := c.exprAs(rhs.Index, env, ndStr)
		if err != nil {
			return err
		}
		scrut, k = "mapIndex "+mp+" "+key.arg(), ndGov
	default:
		return c.bad(st, "statement %q", c.s.str(st))
	}
	if err := c.declare(okv, env, okv.Name, ndOk); err != nil {
		return err
	}
	c.comment(c.s.str(st))
	c.comment(c.quote(ifs))
	c.emit("", "match %s with", scrut)
	c.emit("", "| none =>")
	c.ind++
	err := c.exitBody(ifs.Body, env.clone(), m)
	c.ind--
	if err != nil {
		return err
	}
	if err := c.declare(v, env, v.Name, k); err != nil {
		return err
	}
	return c.fallInline(ifs, rest[1:], m)("| some "+v.Name, false, env)
}

// ---------------------------------------------------------------- type switches

type ndClause struct {
	cc      *ast.CaseClause
	pat     string
	bind    ndKind // kind of the bound variable in this clause (ndNone: nothing bound)
	isMap   bool
	isList  bool
	isOther bool
}

// switchParse: `switch [v :=] x.(type) { case map[string]interface{}: … case []interface{}: … default: … }`;
// returns the scrutinee, the bound name ("" if none), the clauses in source order and the
// patterns of the missing arms (falling through, doing nothing).
func (c *ndCtx) switchParse(st *ast.TypeSwitchStmt, env ndEnv) (x, bind string, cls []ndClause, missing []string, err error) {
	fail := func(n ast.Node, why string) (string, string, []ndClause, []string, error) {
		return "", "", nil, nil, c.bad(n, "%s in %q", why, c.quote(st))
	}
	if st.Init != nil {
		return fail(st, "init statement")
	}
	var ta ast.Expr
	switch a := st.Assign.(type) {
	case *ast.ExprStmt:
		ta = a.X
	case *ast.AssignStmt:
		id, ok := a.Lhs[0].(*ast.Ident)
		if a.Tok != token.DEFINE || len(a.Lhs) != 1 || len(a.Rhs) != 1 || !ok {
			return fail(st, "binding")
		}
		if _, clash := env[id.Name]; clash || ndCheckIdent(c.s, id, id.Name) != nil {
			return fail(id, "bound name "+id.Name)
		}
		bind, ta = id.Name, a.Rhs[0]
	}
	te, ok := ta.(*ast.TypeAssertExpr)
	if !ok || te.Type != nil {
		return fail(st, "scrutinee")
	}
	if x, err = c.varOf(te.X, env, ndGov, "a value with a handle"); err != nil {
		return "", "", nil, nil, err
	}
	var seenMap, seenList, seenOther bool
	for _, s := range st.Body.List {
		cc := s.(*ast.CaseClause)
		cl := ndClause{cc: cc}
		for _, t := range cc.List {
			switch {
			case ndIsMapType(t) && !seenMap:
				cl.isMap, seenMap = true, true
			case tiIsIfaceSlice(t) && !seenList:
				cl.isList, seenList = true, true
			default:
				return fail(t, "case "+c.s.str(t))
			}
		}
		v := "_"
		if bind != "" && len(cc.List) == 1 {
			v = bind
		}
		switch {
		case cc.List == nil && !seenOther:
			cl.isOther, seenOther, cl.pat = true, true, ".other"
		case cl.isMap && cl.isList:
			cl.pat = ".map _ | .list _"
		case cl.isMap:
			cl.pat = ".map " + v
			if v != "_" {
				cl.bind = ndMap
			}
		case cl.isList:
			cl.pat = ".list " + v
			if v != "_" {
				cl.bind = ndList
			}
		default:
			return fail(cc, "clause")
		}
		cls = append(cls, cl)
	}
	switch {
	case !seenMap && !seenList:
		missing = append(missing, ".map _ | .list _")
	case !seenMap:
		missing = append(missing, ".map _")
	case !seenList:
		missing = append(missing, ".list _")
	}
	if !seenOther {
		missing = append(missing, ".other")
	}
	return x, bind, cls, missing, nil
}

func (c *ndCtx) clauseEnv(cl ndClause, bind string, env ndEnv) (ndEnv, error) {
	inner := env.clone()
	if cl.bind != ndNone {
		if err := c.declare(cl.cc, inner, bind, cl.bind); err != nil {
			return nil, err
		}
	}
	return inner, nil
}

// compoundSwitch: a type switch without exits.
func (c *ndCtx) compoundSwitch(st *ast.TypeSwitchStmt, env ndEnv) error {
	x, bind, cls, missing, err := c.switchParse(st, env)
	if err != nil {
		return err
	}
	vars := c.assigned(env, st.Body)
	if len(vars) == 0 {
		return c.bad(st, "%q assigns nothing", c.quote(st))
	}
	c.comment(c.quote(st))
	c.emit("", "let %s ← (match typeSwitch %s with", ndTuple(vars), x)
	for _, cl := range cls {
		if len(cl.cc.Body) == 0 {
			c.emitAt(c.ind+1, "| %s => pure %s", cl.pat, ndTuple(vars))
			continue
		}
		inner, err := c.clauseEnv(cl, bind, env)
		if err != nil {
			return err
		}
		c.emitAt(c.ind+1, "| %s => do", cl.pat)
		if err := c.branch(cl.cc, cl.cc.Body, inner, vars, c.ind+2, false); err != nil {
			return err
		}
	}
	for _, p := range missing {
		c.emitAt(c.ind+1, "| %s => pure %s", p, ndTuple(vars))
	}
	c.appendLast(")")
	return nil
}

// switchExit: a type switch with exits — last statement with every arm returning, or a guard
// whose only exit is the default clause and whose other clause is empty.
func (c *ndCtx) switchExit(st *ast.TypeSwitchStmt, rest []ast.Stmt, env ndEnv, m ndMode) error {
	x, bind, cls, missing, err := c.switchParse(st, env)
	if err != nil {
		return err
	}
	c.comment(c.quote(st))
	if len(rest) == 0 && m.ret {
		if len(missing) != 0 {
			return c.bad(st, "%q does not return in every case", c.quote(st))
		}
		c.emit("", "match typeSwitch %s with", x)
		for _, cl := range cls {
			inner, err := c.clauseEnv(cl, bind, env)
			if err != nil {
				return err
			}
			c.emit("", "| %s =>", cl.pat)
			c.ind++
			err = c.block(cl.cc, cl.cc.Body, inner, m)
			c.ind--
			if err != nil {
				return err
			}
		}
		return nil
	}
	var other, both *ndClause
	for i := range cls {
		switch {
		case cls[i].isOther:
			other = &cls[i]
		case cls[i].isMap && cls[i].isList:
			both = &cls[i]
		}
	}
	if len(cls) != 2 || other == nil || both == nil || len(both.cc.Body) != 0 {
		return c.bad(st, "a type switch that leaves must be `case map[string]interface{}, []interface{}: default: …return`")
	}
	c.emit("", "match typeSwitch %s with", x)
	c.emit("", "| .other =>")
	c.ind++
	err = c.exitBody(&ast.BlockStmt{Lbrace: other.cc.Pos(), List: other.cc.Body}, env.clone(), m)
	c.ind--
	if err != nil {
		return err
	}
	return c.fallInline(st, rest, m)("| "+both.pat, false, env)
}

// ---------------------------------------------------------------- loops

func (c *ndCtx) loop(st ast.Stmt, env ndEnv) error {
	var body *ast.BlockStmt
	var loopVar *ast.Ident
	var head string // the text between `let V ← ` and the lambda's variables
	var kind ndKind
	isWhile := false
	switch st := st.(type) {
	case *ast.RangeStmt:
		body = st.Body
		key, _ := st.Key.(*ast.Ident)
		val, _ := st.Value.(*ast.Ident)
		if st.Tok != token.DEFINE || key == nil || st.Value != nil && val == nil {
			return c.bad(st, "range loop %q", c.quote(st))
		}
		elems := key.Name == "_" && val != nil && val.Name != "_"
		indices := key.Name != "_" && st.Value == nil
		if !elems && !indices {
			return c.bad(st, "range loop %q must bind either the index or the element", c.quote(st))
		}
		loopVar = key
		if elems {
			loopVar = val
		}
		var list ndExpr
		x := ndUnparen(st.X)
		if star, ok := x.(*ast.StarExpr); ok {
			keys, err := c.varOf(star.X, env, ndKeys, "a sorted-keys variable")
			if err != nil {
				return err
			}
			if elems {
				list, kind = ndExpr{text: keys, atomic: true}, ndStr
			} else {
				list, kind = ndExpr{text: "rangeLen " + keys}, ndInt
			}
		} else if name, v, ok := c.lookup(x, env); ok && v.kind == ndList && indices {
			list, kind = ndExpr{text: "rangeLen " + name + ".xs"}, ndInt
		} else if se, ok := x.(*ast.SelectorExpr); ok && elems {
			text, k, err := c.field(se)
			if err != nil {
				return err
			}
			switch k {
			case ndFNoderefs:
				kind = ndNoderef
			case ndFSubscripts:
				kind = ndSubscript
			default:
				return c.bad(st, "range over field %s", se.Sel.Name)
			}
			list = ndExpr{text: text, atomic: true}
		} else if ce, ok := ndCall(x); ok && elems {
			// range subscript.getIndexes(len(src))
			se, ok := ce.Fun.(*ast.SelectorExpr)
			if !ok || se.Sel.Name != "getIndexes" || len(ce.Args) != 1 {
				return c.bad(st, "range over %s", c.s.str(x))
			}
			sub, err := c.varOf(se.X, env, ndSubscript, "a subscript")
			if err != nil {
				return err
			}
			mark := len(c.out)
			n, err := c.exprAs(ce.Args[0], env, ndInt)
			if err != nil {
				return err
			}
			if len(c.out) != mark {
				return c.bad(st, "range over %s", c.s.str(x))
			}
			list, kind = ndExpr{text: sub + " " + n.arg()}, ndInt
		} else {
			return c.bad(st, "range over %s", c.s.str(st.X))
		}
		head = "forRange " + list.arg()
	case *ast.ForStmt:
		body = st.Body
		if st.Init == nil && st.Post == nil && st.Cond != nil {
			// for COND { … }
			if c.fuel {
				return c.bad(st, "a second condition-only loop in one method")
			}
			c.fuel, isWhile = true, true
			break
		}
		// for index := len(X) - 1; index >= 0; index--
		as, ok := st.Init.(*ast.AssignStmt)
		if !ok || as.Tok != token.DEFINE || len(as.Lhs) != 1 || len(as.Rhs) != 1 {
			return c.bad(st, "for loop %q", c.quote(st))
		}
		loopVar, ok = as.Lhs[0].(*ast.Ident)
		cond, ok2 := st.Cond.(*ast.BinaryExpr)
		post, ok3 := st.Post.(*ast.IncDecStmt)
		if !ok || !ok2 || !ok3 || cond.Op != token.GEQ || !tiIsIdent(cond.X, loopVar.Name) || post.Tok != token.DEC || !tiIsIdent(post.X, loopVar.Name) {
			return c.bad(st, "only `for i := len(x) - 1; i >= 0; i--` is translated, found %q", c.quote(st))
		}
		zero, ok := cond.Y.(*ast.BasicLit)
		sub, ok2 := as.Rhs[0].(*ast.BinaryExpr)
		if !ok || zero.Value != "0" || !ok2 || sub.Op != token.SUB {
			return c.bad(st, "only `for i := len(x) - 1; i >= 0; i--` is translated, found %q", c.quote(st))
		}
		one, ok := sub.Y.(*ast.BasicLit)
		le, ok2 := ndCall(sub.X)
		if !ok || one.Value != "1" || !ok2 || !tiIsIdent(le.Fun, "len") {
			return c.bad(st, "only `for i := len(x) - 1; i >= 0; i--` is translated, found %q", c.quote(st))
		}
		mark := len(c.out)
		from, err := c.exprAs(as.Rhs[0], env, ndInt)
		if err != nil {
			return err
		}
		if len(c.out) != mark {
			return c.bad(st, "for loop %q", c.quote(st))
		}
		head, kind = "forRange (downFrom "+from.arg()+")", ndInt
	}
	vars := c.assigned(env, body)
	if len(vars) == 0 {
		return c.bad(st, "the loop %q assigns nothing", c.quote(st))
	}
	tup := ndTuple(vars)
	inner := env.clone()
	c.comment(c.quote(st))
	if isWhile {
		mark := len(c.out)
		cond, err := c.cond(st.(*ast.ForStmt).Cond, env)
		if err != nil {
			return err
		}
		if len(c.out) != mark {
			return c.bad(st, "loop condition %q", c.quote(st))
		}
		c.emit("", "let %s ← whileLoop fuel %s (fun %s => decide (%s)) (fun %s => do", tup, tup, tup, cond, tup)
	} else {
		if err := c.declare(loopVar, inner, loopVar.Name, kind); err != nil {
			return err
		}
		for _, a := range c.assigned(inner, body) {
			if a == loopVar.Name {
				return c.bad(st, "the loop variable %s is assigned in the body", a)
			}
		}
		c.emit("", "let %s ← %s %s (fun %s %s => do", tup, head, tup, loopVar.Name, tup)
	}
	if err := c.branch(body, body.List, inner, vars, c.ind+1, !isWhile); err != nil {
		return err
	}
	c.appendLast(")")
	return nil
}

// ---------------------------------------------------------------- declarations and driver

type ndParam struct {
	typ  string
	kind ndKind
}

var ndSigs = map[string][]ndParam{
	"retrieve":             {{"interface{}", ndVal}, {"interface{}", ndGov}},
	"retrieveMap":          {{"interface{}", ndVal}, {"map[string]interface{}", ndMap}},
	"retrieveList":         {{"interface{}", ndVal}, {"[]interface{}", ndList}},
	"retrieveAnyValueNext": {{"interface{}", ndVal}, {"interface{}", ndVal}},
	"retrieveMapNext":      {{"interface{}", ndVal}, {"map[string]interface{}", ndMap}, {"string", ndStr}},
	"retrieveListNext":     {{"interface{}", ndVal}, {"[]interface{}", ndList}, {"int", ndInt}},
}

// method translates one method to a Lean def.
func ndMethod(s *tiSrc, t *ndType, file string, fd *ast.FuncDecl, emitted map[string]bool) (string, error) {
	goType, recvLean := ndBasicType, "BasicRecv"
	if t != nil {
		goType, recvLean = t.goType, t.recvLean
	}
	name := fd.Name.Name
	sig := ndSigs[name]
	typ, recv, ptr := tiRecvType(fd)
	if typ != goType || !ptr || recv == "" || fd.Type.TypeParams != nil || fd.Body == nil {
		return "", s.bad(fd, "expected method (x *%s).%s with a body", goType, name)
	}
	pn, pt := tiFlatParams(fd.Type.Params)
	rn, rt := tiFlatParams(fd.Type.Results)
	if len(pn) != len(sig)+1 || s.str(pt[len(sig)]) != "*bufferContainer" || len(rt) != 1 || rn[0] != "" || !tiIsIdent(rt[0], "errorRuntime") {
		return "", s.bad(fd, "signature of %s: expected %d parameters, a *bufferContainer and the result errorRuntime", name, len(sig))
	}
	c := &ndCtx{s: s, t: t, goType: goType, recv: recv, cont: pn[len(sig)], emitted: emitted, ind: 1}
	env := ndEnv{}
	if err := c.declare(fd, env, recv, ndRecv); err != nil {
		return "", err
	}
	params := fmt.Sprintf("(%s : %s)", recv, recvLean)
	for i, p := range sig {
		if s.str(pt[i]) != p.typ {
			return "", s.bad(fd, "parameter %d of %s: expected %s, found %s", i+1, name, p.typ, s.str(pt[i]))
		}
		if pn[i] == "_" && name == "retrieve" && i == 1 {
			params += fmt.Sprintf(" (_ : %s)", ndLeanType[p.kind])
			continue
		}
		if err := c.declare(fd, env, pn[i], p.kind); err != nil {
			return "", err
		}
		params += fmt.Sprintf(" (%s : %s)", pn[i], ndLeanType[p.kind])
	}
	if err := c.declare(fd, env, c.cont, ndCont); err != nil {
		return "", err
	}
	if err := c.block(fd.Body, fd.Body.List, env, ndMode{ret: true}); err != nil {
		return "", err
	}
	if c.fuel {
		params = "(fuel : Nat) " + params
	}
	def := goType + "_" + name
	emitted[def] = true
	return fmt.Sprintf("/-- (*%s).%s (%s:%d); `st` is the state behind `%s` and the logs -/\ndef %s %s (st : St) : M (St × Option RtErr) := do\n%s",
		goType, name, file, s.line(fd), c.cont, def, params, c.render()), nil
}

// ndStruct checks `type goType struct {…}`: exactly the fields want (plus the embedded
// *syntaxBasicNode when embedded), or — for syntaxBasicNode — at least them and nothing embedded.
func ndStruct(s *tiSrc, ts *ast.TypeSpec, want []ndField, embedded bool) error {
	stt, ok := ts.Type.(*ast.StructType)
	if !ok || ts.Assign.IsValid() || ts.TypeParams != nil {
		return s.bad(ts, "expected `type %s struct {…}`", ts.Name.Name)
	}
	wanted := map[string]string{}
	for _, f := range want {
		wanted[f.name] = f.typ
	}
	seen := map[string]bool{}
	for _, fl := range stt.Fields.List {
		if len(fl.Names) == 0 {
			if !embedded || s.str(fl.Type) != "*syntaxBasicNode" || seen["*"] {
				return s.bad(fl, "embedded field %s of %s", s.str(fl.Type), ts.Name.Name)
			}
			seen["*"] = true
			continue
		}
		for _, n := range fl.Names {
			w, ok := wanted[n.Name]
			if !ok && !embedded {
				continue // other fields of syntaxBasicNode are not read by the translated methods
			}
			if !ok || s.str(fl.Type) != w || seen[n.Name] {
				return s.bad(fl, "field %s %s of %s", n.Name, s.str(fl.Type), ts.Name.Name)
			}
			seen[n.Name] = true
		}
	}
	for _, f := range want {
		if !seen[f.name] {
			return s.bad(stt, "%s has no field %s %s", ts.Name.Name, f.name, f.typ)
		}
	}
	if embedded && !seen["*"] {
		return s.bad(stt, "%s does not embed *syntaxBasicNode", ts.Name.Name)
	}
	return nil
}

// ndFile reads one file: checks the struct, collects the wanted methods (each exactly once).
func ndFile(s *tiSrc, file, goType string, fields []ndField, embedded bool, methods []string) (map[string]*ast.FuncDecl, error) {
	f, err := s.parse(file)
	if err != nil {
		return nil, err
	}
	found := map[string]*ast.FuncDecl{}
	structSeen := false
	for _, d := range f.Decls {
		switch d := d.(type) {
		case *ast.GenDecl:
			if d.Tok != token.TYPE {
				continue
			}
			for _, sp := range d.Specs {
				ts := sp.(*ast.TypeSpec)
				if ts.Name.Name != goType {
					continue
				}
				if structSeen {
					return nil, s.bad(ts, "%s is declared twice", goType)
				}
				if err := ndStruct(s, ts, fields, embedded); err != nil {
					return nil, err
				}
				structSeen = true
			}
		case *ast.FuncDecl:
			typ, _, _ := tiRecvType(d)
			if d.Recv == nil || typ != goType {
				continue
			}
			wanted := false
			for _, m := range methods {
				wanted = wanted || m == d.Name.Name
			}
			if _, isRetrieve := ndSigs[d.Name.Name]; isRetrieve && !wanted {
				return nil, s.bad(d, "unexpected method %s of %s", d.Name.Name, goType)
			}
			if !wanted {
				continue
			}
			if found[d.Name.Name] != nil {
				return nil, s.bad(d, "method %s of %s is declared twice", d.Name.Name, goType)
			}
			found[d.Name.Name] = d
		}
	}
	if !structSeen {
		return nil, s.badFile(file, "struct %s not declared", goType)
	}
	for _, m := range methods {
		if found[m] == nil {
			return nil, s.badFile(file, "method %s of %s not found", m, goType)
		}
	}
	return found, nil
}

// predeclared names the patterns recognise by spelling
var ndBuiltin = map[string]bool{"len": true, "append": true, "make": true, "nil": true, "int": true, "string": true, "bool": true, "reflect": true}

// ndPackage: the package-wide checks — nobody else defines the helpers or the retrieve methods
// of the eight types, and the package-level functions the patterns name exist.
func ndPackage(s *tiSrc) error {
	entries, err := os.ReadDir(s.repo)
	if err != nil {
		return fmt.Errorf("untranslatable: .:1: cannot list the library tree: %v", err)
	}
	own := map[string]string{}
	for _, t := range ndTypes {
		own[t.goType] = t.file
	}
	funcs := map[string]bool{}
	for _, e := range entries {
		name := e.Name()
		if e.IsDir() || !strings.HasSuffix(name, ".go") || strings.HasSuffix(name, "_test.go") {
			continue
		}
		f, err := s.parse(name)
		if err != nil {
			return err
		}
		for _, im := range f.Imports {
			path, _ := strconv.Unquote(im.Path.Value)
			if im.Name != nil && (im.Name.Name == "reflect" || im.Name.Name == "." || path == "reflect") || im.Name == nil && path != "reflect" && strings.HasSuffix(path, "/reflect") {
				return s.bad(im, "import %s: `reflect` must be the standard package", s.str(im))
			}
		}
		for _, d := range f.Decls {
			if gd, ok := d.(*ast.GenDecl); ok {
				for _, sp := range gd.Specs {
					var names []*ast.Ident
					switch sp := sp.(type) {
					case *ast.ValueSpec:
						names = sp.Names
					case *ast.TypeSpec:
						names = []*ast.Ident{sp.Name}
					}
					for _, n := range names {
						if ndBuiltin[n.Name] {
							return s.bad(n, "package-level declaration of the predeclared name %s", n.Name)
						}
					}
				}
			}
			fd, ok := d.(*ast.FuncDecl)
			if !ok {
				continue
			}
			if fd.Recv == nil {
				if ndBuiltin[fd.Name.Name] {
					return s.bad(fd, "package-level declaration of the predeclared name %s", fd.Name.Name)
				}
				funcs[fd.Name.Name] = true
				continue
			}
			typ, _, _ := tiRecvType(fd)
			switch m := fd.Name.Name; m {
			case "retrieveAnyValueNext", "retrieveMapNext", "retrieveListNext", "addDeepestError":
				if typ != ndBasicType || name != ndBasicFile {
					return s.bad(fd, "method %s on %s outside %s", m, typ, ndBasicFile)
				}
			case "retrieve", "retrieveMap", "retrieveList":
				if file, ok := own[typ]; ok && file != name {
					return s.bad(fd, "method %s of %s outside %s", m, typ, file)
				}
			}
		}
	}
	for _, fn := range []string{"getSortedKeys", "putSortSlice", "verifFilterList"} {
		if !funcs[fn] {
			return s.badFile(ndConstFile, "package-level function %s not found", fn)
		}
	}
	return nil
}

// ndConstants reads the four msgType string constants.
func ndConstants(s *tiSrc) (string, error) {
	f, err := s.parse(ndConstFile)
	if err != nil {
		return "", err
	}
	vals, lines := map[string]string{}, map[string]int{}
	for _, d := range f.Decls {
		gd, ok := d.(*ast.GenDecl)
		if !ok || gd.Tok != token.CONST && gd.Tok != token.VAR {
			continue
		}
		for _, sp := range gd.Specs {
			vs := sp.(*ast.ValueSpec)
			for i, n := range vs.Names {
				wanted := false
				for _, k := range ndConsts {
					wanted = wanted || k == n.Name
				}
				if !wanted {
					continue
				}
				if _, dup := vals[n.Name]; dup || gd.Tok != token.CONST || len(vs.Values) != len(vs.Names) || vs.Type != nil && !tiIsIdent(vs.Type, "string") {
					return "", s.bad(vs, "expected `%s string = \"…\"` once, as a constant", n.Name)
				}
				lit, ok := vs.Values[i].(*ast.BasicLit)
				if !ok || lit.Kind != token.STRING {
					return "", s.bad(vs, "%s is not a string literal", n.Name)
				}
				v, err := strconv.Unquote(lit.Value)
				if err != nil {
					return "", s.bad(vs, "%s: %v", n.Name, err)
				}
				vals[n.Name], lines[n.Name] = v, s.line(vs)
			}
		}
	}
	var b strings.Builder
	for _, k := range ndConsts {
		v, ok := vals[k]
		if !ok {
			return "", s.badFile(ndConstFile, "constant %s not found", k)
		}
		fmt.Fprintf(&b, "/-- %s:%d -/\ndef %s : String := %s\n", ndConstFile, lines[k], k, tiLeanStr(v))
	}
	return b.String() + "\n", nil
}

func genNodes(repo, out string) error {
	s := tiNew(repo)
	files := []string{ndConstFile, ndBasicFile}
	for _, t := range ndTypes {
		files = append(files, t.file)
	}
	hdr, err := s.header("nodes", files,
		"The retrieve / retrieveMap / retrieveList methods of the navigation nodes and the retrieve…Next helpers\n"+
			"of syntaxBasicNode, one Lean statement per Go statement (quoted in the comments), over the vocabulary\n"+
			"of JPV/NavNode.lean. Conventions: `container` and the logs are the threaded state `st`; a `current`\n"+
			"value is a GoVal (value + ghost handle), asserted maps / slices are GoMap / GoList; an Accessor literal\n"+
			"is `Res.acc value place`; Go panics are `.error`; `for … range` is forRange over the assigned\n"+
			"variables, the condition-only `for` is whileLoop with fuel; statements after a guard that returns or\n"+
			"continues are the else branch (nested guards: a join point `rest_N` bound first).\n"+
			"putSortSlice / verifFilterList calls are comments (pool and observation hook are not modelled).")
	if err != nil {
		return err
	}
	if err := ndPackage(s); err != nil {
		return err
	}
	var b strings.Builder
	b.WriteString(hdr)
	b.WriteString("import JPV.NavNode\nset_option linter.unusedVariables false\nnamespace JPV.Gen.NodesGo\nopen JPV JPV.Impl JPV.NavNode\n\n")
	consts, err := ndConstants(s)
	if err != nil {
		return err
	}
	b.WriteString(consts)
	emitted := map[string]bool{}
	found, err := ndFile(s, ndBasicFile, ndBasicType, ndBasicFields, false, ndHelpers)
	if err != nil {
		return err
	}
	for _, m := range ndHelpers {
		def, err := ndMethod(s, nil, ndBasicFile, found[m], emitted)
		if err != nil {
			return err
		}
		b.WriteString(def + "\n")
	}
	for i := range ndTypes {
		t := &ndTypes[i]
		found, err := ndFile(s, t.file, t.goType, t.fields, true, t.methods)
		if err != nil {
			return err
		}
		for _, m := range t.methods {
			def, err := ndMethod(s, t, t.file, found[m], emitted)
			if err != nil {
				return err
			}
			b.WriteString(def + "\n")
		}
	}
	b.WriteString("end JPV.Gen.NodesGo\n")
	return tiWrite(out, "NodesGo.lean", b.String())
}
