// translate: regenerates lean/JPV/Gen/*.lean from /repo's working tree (tie T1, DESIGN §5.1).
// Deliberately tiny and pattern-directed: on a construct outside its subset a generator
// returns an error `untranslatable: file:line: …` and the program exits 1 (never a pass).
//
//	translate -repo /repo -out <dir>
//
// Each generator lives in its own file and registers itself in init().
package main

import (
	"flag"
	"fmt"
	"os"
	"sort"
)

type generator struct {
	name string
	run  func(repo, out string) error
}

var generators []generator

func register(name string, run func(repo, out string) error) {
	generators = append(generators, generator{name, run})
}

func main() {
	repo := flag.String("repo", "/repo", "library source tree")
	out := flag.String("out", "", "output directory for Gen/*.lean")
	flag.Parse()
	if *out == "" {
		fmt.Fprintln(os.Stderr, "need -out")
		os.Exit(2)
	}
	if err := os.MkdirAll(*out, 0o755); err != nil {
		fmt.Fprintln(os.Stderr, err)
		os.Exit(2)
	}
	sort.Slice(generators, func(i, j int) bool { return generators[i].name < generators[j].name })
	failed := false
	for _, g := range generators {
		if err := g.run(*repo, *out); err != nil {
			fmt.Printf("%s: %v\n", g.name, err)
			failed = true
		} else {
			fmt.Printf("%s: ok\n", g.name)
		}
	}
	if failed {
		os.Exit(1)
	}
}
