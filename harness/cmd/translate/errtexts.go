// errtexts.go: generator `errtexts` — the public error types of error_*.go as data.
// Emits Gen/ErrTexts.lean:
//
//	def errTexts : List (String × List String × String × List String)
//	    (type name, its fields in declaration order ("*T" for an embedded pointer), the format string of
//	     Error(), the argument expressions of the Sprintf in order)
//
// The harness recovers an error's step text / expected / found from the message, C13/C15 speak about
// "the text of the step" an error names: which field goes into which slot of the message is tied here.
// Fails closed: an Error() method that is not `return fmt.Sprintf(<format>, args…)` is refused, where
// <format> is a string literal or — go/types, through normalize.go — a constant expression of string
// kind (a named constant denotes exactly its value). One other spelling is accepted:
//
//	return s0 + s1 + … + sn      every si a string literal or an operand whose static type is exactly
//	                             the predeclared `string` (go/types)
//
// and is emitted as the format / argument list of the equivalent Sprintf: a literal contributes its
// text (a literal containing % is refused), any other operand contributes `%s` and itself as an
// argument. Equivalent because fmt's %s on an operand of type string (no method set: neither
// Stringer nor error) writes the string itself and everything else is copied; operands are evaluated left to
// right in both forms (and are call-free field selections: errTextOperand). A package that does not
// type-check gives no type information: then only the Sprintf form with a literal is accepted.
package main

import (
	"fmt"
	"go/ast"
	"go/token"
	"os"
	"path/filepath"
	"sort"
	"strconv"
	"strings"
)

func init() { register("errtexts", genErrTexts) }

func genErrTexts(repo, out string) error {
	s := tiNew(repo)
	files, err := filepath.Glob(filepath.Join(repo, "error_*.go"))
	if err != nil {
		return err
	}
	sort.Strings(files)
	type ent struct {
		name   string
		fields []string
		format string
		args   []string
		seen   bool
	}
	ents := map[string]*ent{}
	var names []string
	var rel []string
	for _, path := range files {
		file := filepath.Base(path)
		if strings.HasSuffix(file, "_test.go") {
			continue
		}
		rel = append(rel, file)
		f, err := s.parse(file)
		if err != nil {
			return err
		}
		for _, d := range f.Decls {
			switch d := d.(type) {
			case *ast.GenDecl:
				if d.Tok != token.TYPE {
					continue
				}
				for _, sp := range d.Specs {
					ts := sp.(*ast.TypeSpec)
					st, ok := ts.Type.(*ast.StructType)
					if !ok || !ast.IsExported(ts.Name.Name) {
						continue
					}
					e := &ent{name: ts.Name.Name}
					for _, fl := range st.Fields.List {
						if len(fl.Names) == 0 {
							e.fields = append(e.fields, s.str(fl.Type))
						}
						for _, n := range fl.Names {
							e.fields = append(e.fields, n.Name+" "+s.str(fl.Type))
						}
					}
					ents[e.name] = e
					names = append(names, e.name)
				}
			case *ast.FuncDecl:
				if d.Name.Name != "Error" || d.Recv == nil || len(d.Recv.List) != 1 {
					continue
				}
				rt := s.str(d.Recv.List[0].Type)
				e, ok := ents[rt]
				if !ok {
					return s.bad(d, "Error() on %s, which is not an exported struct declared before it in error_*.go", rt)
				}
				if d.Body == nil || len(d.Body.List) != 1 {
					return s.bad(d, "Error() of %s is not a single return statement", rt)
				}
				ret, ok := d.Body.List[0].(*ast.ReturnStmt)
				if !ok || len(ret.Results) != 1 {
					return s.bad(d, "Error() of %s is not `return fmt.Sprintf(…)`", rt)
				}
				if fm, args, ok := errTextConcat(s, f, ret.Results[0]); ok {
					e.format, e.args = fm, args
					e.seen = true
					continue
				}
				call, ok := ret.Results[0].(*ast.CallExpr)
				if !ok || s.str(call.Fun) != "fmt.Sprintf" || len(call.Args) < 1 {
					return s.bad(ret, "Error() of %s is not `return fmt.Sprintf(…)`", rt)
				}
				var fm string
				if lit, ok := call.Args[0].(*ast.BasicLit); ok && lit.Kind == token.STRING {
					fm, err = strconv.Unquote(lit.Value)
					if err != nil {
						return s.bad(lit, "format string does not unquote")
					}
				} else if v, ok := normConstString(f, call.Args[0]); ok {
					fm = v
				} else {
					return s.bad(call, "the format of %s.Error() is not a string literal", rt)
				}
				e.format = fm
				for _, a := range call.Args[1:] {
					e.args = append(e.args, s.str(a))
				}
				if strings.Count(fm, "%") != len(e.args) {
					return s.bad(call, "%d verbs for %d arguments in %s.Error()", strings.Count(fm, "%"), len(e.args), rt)
				}
				e.seen = true
			}
		}
	}
	hdr, err := s.header("errtexts", rel, "the exported error types, their fields and the format + arguments of Error()")
	if err != nil {
		return err
	}
	var b strings.Builder
	b.WriteString(hdr)
	b.WriteString("namespace JPV.Gen\n\n")
	b.WriteString("/-- (type, fields in declaration order, format of Error(), Sprintf arguments in order) -/\n")
	b.WriteString("def errTexts : List (String × List String × String × List String) := [\n")
	sort.Strings(names)
	for i, n := range names {
		e := ents[n]
		if !e.seen {
			return s.badFile("error_*.go", "exported error struct %s has no Error() method of the expected shape", n)
		}
		q := func(xs []string) string {
			var ys []string
			for _, x := range xs {
				ys = append(ys, strconv.Quote(x))
			}
			return "[" + strings.Join(ys, ", ") + "]"
		}
		sep := ","
		if i == len(names)-1 {
			sep = ""
		}
		fmt.Fprintf(&b, "  (%s, %s, %s, %s)%s\n", strconv.Quote(e.name), q(e.fields), strconv.Quote(e.format), q(e.args), sep)
	}
	b.WriteString("]\n\nend JPV.Gen\n")
	return os.WriteFile(filepath.Join(out, "ErrTexts.lean"), []byte(b.String()), 0o644)
}

// errTextOperand: identifiers and field selections only (no calls, no indexing).
func errTextOperand(e ast.Expr) bool {
	switch x := e.(type) {
	case *ast.Ident:
		return true
	case *ast.SelectorExpr:
		return errTextOperand(x.X)
	case *ast.ParenExpr:
		return errTextOperand(x.X)
	}
	return false
}

// errTextConcat: e is `s0 + s1 + … + sn` (n ≥ 1) as described in the header; returns the format and
// the argument texts of the equivalent Sprintf.
func errTextConcat(s *tiSrc, f *ast.File, e ast.Expr) (string, []string, bool) {
	var leaves []ast.Expr
	var flat func(e ast.Expr) bool
	flat = func(e ast.Expr) bool {
		switch x := e.(type) {
		case *ast.ParenExpr:
			return flat(x.X)
		case *ast.BinaryExpr:
			if x.Op != token.ADD {
				return false
			}
			return flat(x.X) && flat(x.Y)
		}
		leaves = append(leaves, e)
		return true
	}
	if _, isSum := e.(*ast.BinaryExpr); !isSum || !flat(e) || len(leaves) < 2 {
		return "", nil, false
	}
	var fm strings.Builder
	var args []string
	for _, l := range leaves {
		if lit, ok := l.(*ast.BasicLit); ok {
			if lit.Kind != token.STRING {
				return "", nil, false
			}
			v, err := strconv.Unquote(lit.Value)
			if err != nil {
				return "", nil, false
			}
			if strings.Contains(v, "%") {
				return "", nil, false // would need %%, which the consumers of errTexts do not read
			}
			fm.WriteString(v)
			continue
		}
		if !errTextOperand(l) || !normIsPlainString(f, l) {
			return "", nil, false
		}
		fm.WriteString("%s")
		args = append(args, s.str(l))
	}
	return fm.String(), args, true
}
