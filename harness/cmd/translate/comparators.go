// comparators.go — generator "comparators": the seven comparators of the filter code as data
// (lean/JPV/Gen/Comparators.lean, tie T1; consumed by Lemmas/Ties.lean, Props/Ties.lean).
//
// What is read: in each file of cpFiles the struct declaration and its `comparator` method.
// Accepted shapes, exactly:
//
//	type T struct {
//	    *syntaxBasicNumericTypeValidator | *syntaxBasicStringTypeValidator | *syntaxBasicBoolTypeValidator |
//	    *syntaxBasicNilTypeValidator | *syntaxBasicAnyValueTypeValidator | syntaxTypeValidator     (embedded)
//	    [regex *regexp.Regexp]
//	}
//	func (c *T) comparator(left []interface{}, (right|_) interface{}) bool {
//	    var hasValue bool
//	    for leftIndex := range left {
//	        [if left[leftIndex] == emptyEntity { continue }]          -> skipMarker
//	        if TEST { BRANCH } [else { BRANCH }]
//	    }
//	    return hasValue
//	}
//	TEST    left[leftIndex] == right                                   -> ifaceEq
//	        reflect.DeepEqual(left[leftIndex], right)                  -> deepEqual
//	        left[leftIndex].(float64) (<|<=|>|>=) right.(float64)      -> floatOp
//	        c.regex.MatchString(left[leftIndex].(string))              -> regexMatch (needs the regex field)
//	BRANCH  any sequence (each at most once) of `hasValue = true`, `left[leftIndex] = emptyEntity`
//
// Besides, no other method may be declared anywhere in the package on one of the seven comparator
// structs or the five validator structs (it could override the embedded `validate`).
// Anything else stops with `untranslatable: file:line: why`.
package main

import (
	"fmt"
	"go/ast"
	"go/token"
	"os"
	"sort"
	"strings"
)

func init() { register("comparators", genComparators) }

var cpFiles = []struct{ file, goType, lean string }{
	{"syntax_query_compare_comparator_direct_eq.go", "syntaxCompareDirectEQ", "directEQ"},
	{"syntax_query_compare_comparator_deep_eq.go", "syntaxCompareDeepEQ", "deepEQ"},
	{"syntax_query_compare_comparator_lt.go", "syntaxCompareLT", "lt"},
	{"syntax_query_compare_comparator_le.go", "syntaxCompareLE", "le"},
	{"syntax_query_compare_comparator_gt.go", "syntaxCompareGT", "gt"},
	{"syntax_query_compare_comparator_ge.go", "syntaxCompareGE", "ge"},
	{"syntax_query_compare_comparator_regex.go", "syntaxCompareRegex", "regex"},
}

var cpValidatorRef = map[string]string{
	"syntaxBasicNumericTypeValidator":  "numeric",
	"syntaxBasicStringTypeValidator":   "string",
	"syntaxBasicBoolTypeValidator":     "bool",
	"syntaxBasicNilTypeValidator":      "nil",
	"syntaxBasicAnyValueTypeValidator": "anyValue",
}

// tiGoFiles lists the non-test .go files of the library, sorted.
func tiGoFiles(repo string) ([]string, error) {
	ents, err := os.ReadDir(repo)
	if err != nil {
		return nil, fmt.Errorf("untranslatable: %s:1: cannot list: %v", repo, err)
	}
	var fs []string
	for _, e := range ents {
		n := e.Name()
		if e.IsDir() || !strings.HasSuffix(n, ".go") || strings.HasSuffix(n, "_test.go") {
			continue
		}
		fs = append(fs, n)
	}
	sort.Strings(fs)
	return fs, nil
}

// cpCheckMethods: the twelve structs have exactly the expected method, in the expected file.
func cpCheckMethods(s *tiSrc) error {
	want := map[string][2]string{} // type -> (method, file)
	for _, c := range cpFiles {
		want[c.goType] = [2]string{"comparator", c.file}
	}
	for _, v := range vdFiles {
		want[v.goType] = [2]string{"validate", v.file}
	}
	want[vdAnyType] = [2]string{"validate", vdAnyFile}
	files, err := tiGoFiles(s.repo)
	if err != nil {
		return err
	}
	for _, file := range files {
		f, err := s.parse(file)
		if err != nil {
			return err
		}
		for _, d := range f.Decls {
			fd, ok := d.(*ast.FuncDecl)
			if !ok || fd.Recv == nil {
				continue
			}
			typ, _, _ := tiRecvType(fd)
			w, ok := want[typ]
			if !ok {
				continue
			}
			if fd.Name.Name != w[0] || file != w[1] {
				return s.bad(fd, "method %s.%s: only %s in %s is expected on this type", typ, fd.Name.Name, w[0], w[1])
			}
		}
	}
	return nil
}

type cpRec struct {
	validator  string
	skipMarker bool
	test       string
	thenB      string
	elseB      string
	line       int
}

func cpBranch(s *tiSrc, body *ast.BlockStmt) (string, error) {
	setHas, blank := false, false
	if body != nil {
		for _, st := range body.List {
			as, ok := st.(*ast.AssignStmt)
			if !ok || as.Tok != token.ASSIGN || len(as.Lhs) != 1 || len(as.Rhs) != 1 {
				return "", s.bad(st, "statement %q in a comparator branch", s.str(st))
			}
			switch {
			case tiIsIdent(as.Lhs[0], "hasValue") && tiIsIdent(as.Rhs[0], "true"):
				if setHas {
					return "", s.bad(st, "hasValue assigned twice")
				}
				setHas = true
			case tiIsIndex(as.Lhs[0], "left", "leftIndex") && tiIsIdent(as.Rhs[0], "emptyEntity"):
				if blank {
					return "", s.bad(st, "cell blanked twice")
				}
				blank = true
			default:
				return "", s.bad(st, "statement %q in a comparator branch", s.str(st))
			}
		}
	}
	return fmt.Sprintf("⟨%v, %v⟩", setHas, blank), nil
}

// cpAssert reports whether e is `x.(typ)` with x as described by isX.
func cpAssert(e ast.Expr, isX func(ast.Expr) bool, typ string) bool {
	ta, ok := e.(*ast.TypeAssertExpr)
	return ok && ta.Type != nil && tiIsIdent(ta.Type, typ) && isX(ta.X)
}

func cpTest(s *tiSrc, cond ast.Expr, recv, right string, hasRegex bool) (string, error) {
	isCell := func(e ast.Expr) bool { return tiIsIndex(e, "left", "leftIndex") }
	isRight := func(e ast.Expr) bool { return right != "_" && tiIsIdent(e, right) }
	switch c := cond.(type) {
	case *ast.BinaryExpr:
		if c.Op == token.EQL && isCell(c.X) && isRight(c.Y) {
			return ".ifaceEq", nil
		}
		if cpAssert(c.X, isCell, "float64") && cpAssert(c.Y, isRight, "float64") {
			switch c.Op {
			case token.LSS:
				return "(.floatOp .lt)", nil
			case token.LEQ:
				return "(.floatOp .le)", nil
			case token.GTR:
				return "(.floatOp .gt)", nil
			case token.GEQ:
				return "(.floatOp .ge)", nil
			}
		}
	case *ast.CallExpr:
		if c.Ellipsis.IsValid() {
			break
		}
		if tiIsSel(c.Fun, "reflect", "DeepEqual") && len(c.Args) == 2 && isCell(c.Args[0]) && isRight(c.Args[1]) {
			return ".deepEqual", nil
		}
		if sel, ok := c.Fun.(*ast.SelectorExpr); ok && sel.Sel.Name == "MatchString" && recv != "" && tiIsSel(sel.X, recv, "regex") &&
			len(c.Args) == 1 && cpAssert(c.Args[0], isCell, "string") {
			if !hasRegex {
				return "", s.bad(cond, "MatchString on a struct without the field `regex *regexp.Regexp`")
			}
			return ".regexMatch", nil
		}
	}
	return "", s.bad(cond, "test %q is outside the modelled set", s.str(cond))
}

func cpOne(s *tiSrc, file, goType string) (*cpRec, error) {
	f, err := s.parse(file)
	if err != nil {
		return nil, err
	}
	rec := &cpRec{}
	var fd *ast.FuncDecl
	hasRegex := false
	structSeen := false
	for _, d := range f.Decls {
		switch d := d.(type) {
		case *ast.GenDecl:
			if d.Tok == token.IMPORT {
				continue
			}
			if d.Tok != token.TYPE || len(d.Specs) != 1 {
				return nil, s.bad(d, "only the declaration of %s is expected here", goType)
			}
			ts := d.Specs[0].(*ast.TypeSpec)
			st, ok := ts.Type.(*ast.StructType)
			if !ok || ts.Name.Name != goType || ts.Assign.IsValid() || ts.TypeParams != nil || st.Fields == nil {
				return nil, s.bad(d, "expected `type %s struct {…}`", goType)
			}
			for _, fld := range st.Fields.List {
				switch {
				case len(fld.Names) == 0:
					if rec.validator != "" {
						return nil, s.bad(fld, "two embedded fields")
					}
					if tiIsIdent(fld.Type, "syntaxTypeValidator") {
						rec.validator = "iface"
					} else if star, ok := fld.Type.(*ast.StarExpr); ok {
						if id, ok := star.X.(*ast.Ident); ok && cpValidatorRef[id.Name] != "" {
							rec.validator = cpValidatorRef[id.Name]
						}
					}
					if rec.validator == "" {
						return nil, s.bad(fld, "embedded field %s is not a known validator", s.str(fld.Type))
					}
				case len(fld.Names) == 1 && fld.Names[0].Name == "regex":
					star, ok := fld.Type.(*ast.StarExpr)
					if !ok || !tiIsSel(star.X, "regexp", "Regexp") {
						return nil, s.bad(fld, "expected `regex *regexp.Regexp`")
					}
					hasRegex = true
				default:
					return nil, s.bad(fld, "unexpected field")
				}
			}
			structSeen = true
		case *ast.FuncDecl:
			if fd != nil {
				return nil, s.bad(d, "more than one function in a comparator file")
			}
			fd = d
		default:
			return nil, s.bad(d, "unexpected declaration")
		}
	}
	if !structSeen || rec.validator == "" {
		return nil, s.badFile(file, "struct %s with an embedded validator not declared", goType)
	}
	if fd == nil {
		return nil, s.badFile(file, "no comparator method")
	}
	typ, recv, ptr := tiRecvType(fd)
	if fd.Name.Name != "comparator" || typ != goType || !ptr || fd.Type.TypeParams != nil || fd.Body == nil {
		return nil, s.bad(fd, "expected method (*%s).comparator", goType)
	}
	pn, pt := tiFlatParams(fd.Type.Params)
	if len(pn) != 2 || pn[0] != "left" || !tiIsIfaceSlice(pt[0]) || !tiIsEmptyIface(pt[1]) || (pn[1] != "right" && pn[1] != "_") {
		return nil, s.bad(fd, "expected parameters (left []interface{}, right interface{})")
	}
	right := pn[1]
	rn, rt := tiFlatParams(fd.Type.Results)
	if len(rn) != 1 || rn[0] != "" || !tiIsIdent(rt[0], "bool") {
		return nil, s.bad(fd, "expected result type bool")
	}
	rec.line = s.line(fd)
	b := fd.Body.List
	if len(b) != 3 {
		return nil, s.bad(fd.Body, "expected `var hasValue bool; for …; return hasValue`")
	}
	ds, ok := b[0].(*ast.DeclStmt)
	if !ok {
		return nil, s.bad(b[0], "expected `var hasValue bool`")
	}
	gd, ok := ds.Decl.(*ast.GenDecl)
	if !ok || gd.Tok != token.VAR || len(gd.Specs) != 1 {
		return nil, s.bad(b[0], "expected `var hasValue bool`")
	}
	vs := gd.Specs[0].(*ast.ValueSpec)
	if len(vs.Names) != 1 || vs.Names[0].Name != "hasValue" || len(vs.Values) != 0 || !tiIsIdent(vs.Type, "bool") {
		return nil, s.bad(b[0], "expected `var hasValue bool`")
	}
	rs, ok := b[2].(*ast.ReturnStmt)
	if !ok || len(rs.Results) != 1 || !tiIsIdent(rs.Results[0], "hasValue") {
		return nil, s.bad(b[2], "expected `return hasValue`")
	}
	loop, err := vdRangeLoop(s, b[1], "leftIndex", "left")
	if err != nil {
		return nil, err
	}
	stmts := loop.List
	if len(stmts) == 2 {
		// if left[leftIndex] == emptyEntity { continue }
		is, ok := stmts[0].(*ast.IfStmt)
		if !ok || is.Init != nil || is.Else != nil || len(is.Body.List) != 1 {
			return nil, s.bad(stmts[0], "expected `if left[leftIndex] == emptyEntity { continue }`")
		}
		be, ok := is.Cond.(*ast.BinaryExpr)
		if !ok || be.Op != token.EQL || !tiIsIndex(be.X, "left", "leftIndex") || !tiIsIdent(be.Y, "emptyEntity") {
			return nil, s.bad(stmts[0], "expected `if left[leftIndex] == emptyEntity { continue }`")
		}
		br, ok := is.Body.List[0].(*ast.BranchStmt)
		if !ok || br.Tok != token.CONTINUE || br.Label != nil {
			return nil, s.bad(stmts[0], "expected `if left[leftIndex] == emptyEntity { continue }`")
		}
		rec.skipMarker = true
		stmts = stmts[1:]
	}
	if len(stmts) != 1 {
		return nil, s.bad(loop, "loop body must be [marker skip;] if TEST {…} else {…}")
	}
	is, ok := stmts[0].(*ast.IfStmt)
	if !ok || is.Init != nil {
		return nil, s.bad(stmts[0], "loop body must be [marker skip;] if TEST {…} else {…}")
	}
	if rec.test, err = cpTest(s, is.Cond, recv, right, hasRegex); err != nil {
		return nil, err
	}
	if rec.thenB, err = cpBranch(s, is.Body); err != nil {
		return nil, err
	}
	var elseBlock *ast.BlockStmt
	if is.Else != nil {
		eb, ok := is.Else.(*ast.BlockStmt)
		if !ok {
			return nil, s.bad(is.Else, "else-if in a comparator")
		}
		elseBlock = eb
	}
	if rec.elseB, err = cpBranch(s, elseBlock); err != nil {
		return nil, err
	}
	return rec, nil
}

func genComparators(repo, out string) error {
	s := tiNew(repo)
	var files []string
	for _, c := range cpFiles {
		files = append(files, c.file)
	}
	hdr, err := s.header("comparators", files,
		"Per comparator: the embedded validator, whether the loop skips marker cells, the test, and what the two\n"+
			"branches do (setHas = `hasValue = true`, blank = `left[leftIndex] = emptyEntity`).")
	if err != nil {
		return err
	}
	if err := cpCheckMethods(s); err != nil {
		return err
	}
	var b strings.Builder
	b.WriteString(hdr)
	b.WriteString("import JPV.Ties.Types\nnamespace JPV.Gen.Comparators\nopen JPV.Ties\n\n")
	for _, c := range cpFiles {
		rec, err := cpOne(s, c.file, c.goType)
		if err != nil {
			return err
		}
		fmt.Fprintf(&b, "/-- (*%s).comparator (%s:%d) -/\ndef %s : ComparatorRec :=\n  { validator := .%s, skipMarker := %v, test := %s,\n    thenB := %s, elseB := %s }\n\n",
			c.goType, c.file, rec.line, c.lean, rec.validator, rec.skipMarker, rec.test, rec.thenB, rec.elseB)
	}
	b.WriteString("end JPV.Gen.Comparators\n")
	return tiWrite(out, "Comparators.lean", b.String())
}
