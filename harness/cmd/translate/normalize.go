// normalize.go — a semantics-preserving normalisation pass over the parsed library source.
//
// Every generator calls normalizeFile / normalizeFileWith right after parsing a file (tiSrc.parse
// for the ten generators built on ties_common.go; accessor, escape, slices and — since round 4, with
// normProfilePegRuntime — pegruntime call it directly; `grammar` and `pegrules` do not: it reads the GENERATED jsonpath.peg.go by byte offsets, which a
// refactoring of hand-written code never touches). The pass rewrites Go code into the shapes the
// generators' patterns expect, so that a behaviour-preserving refactoring of /repo (see
// /verif/seeded/harmless) yields the same generated Lean as the unrefactored source. Where Go
// offers several spellings of the same thing, the canonical one is the spelling the library uses
// today — chosen so that the generators' output on the pinned /repo is byte-identical with and
// without the pass.
//
// Ground rules:
//   - every rewrite preserves Go semantics unconditionally, or under a side condition that is
//     CHECKED here (syntactically, or with go/types on the unmodified source). A side condition
//     that cannot be established leaves the code alone: the generator then refuses, which is the
//     safe outcome. Each rewrite carries a comment "Sound because …".
//   - the pass never looks at what the code is supposed to compute; it knows nothing about the
//     properties being verified.
//   - the pass needs the package to type-check (go/types, std imported from source, default
//     build constraints). If it does not, or anything about the loaded package is unexpected, the
//     pass is the identity.
//   - deterministic: no map iteration influences the result.
//   - JPV_NORM_TRACE=1 reports every applied rewrite on stderr.
//
// The rewrites (→ canonical form):
//
//	exprRules            !!a → a; !(a == b) → a != b; !(a != b) → a == b; len(e) != 0, >= 1, 0 < len(e) … → len(e) > 0; len(e) < 1 … → len(e) == 0
//	                     !(a <= b) → a > b … for INTEGER operands (go/types); floats are left alone (NaN)
//	ruleZeroDecl         x := false / "" / 0 → var x bool / string / int
//	ruleIfNegation       if !c {A} else {B} → if c {B} else {A}   (profile eqFirst: also if a != b {A} else {B} → if a == b {B} else {A})
//	ruleReturnFlip       if !c {return A}; return B → if c {return B}; return A   (also a != b, nil tests excepted)
//	ruleElseIf           else if … → else { if … }
//	ruleSplitAnd         if a && b {S} → if a { if b {S} }
//	ruleLoopContinue     last in a loop body: if A {S} else if … → if A {S; continue}; if …
//	                     (profile loopElseContinue: also if [init;] A {S} else {T…} → if [init;] A {S; continue}; T…)
//	ruleElseAfterJump    if c {…; return/break/continue/panic} else {B…}; rest → if c {…}; B…; rest
//	ruleSwitchToIf       switch { case c1: A … default: C } → if c1 {A} else if … else {C}
//	ruleComplement       if a && b {…} else { if !a && !b {…} } → … if a == b {…}
//	ruleTypeSwitchOrder  clauses of a type switch over disjoint concrete types → canonical order
//	ruleVoidEarlyReturn  func without results: if c {A; return}; B → if c {A} else {B}   (A empty: if !c {B})
//	ruleTailMerge        if c {A; return e}; B; return e → if c {A} else {B}; return e   (A, B do not leave)
//	ruleTailSplit        if c {A} else {B}; return e → if c {A; return e}; B; return e   (A or B leaves)
//	ruleDeferClosure     defer f(a, b) → defer func() { f(a, b) }()
//	ruleRangeValue       for i, x := range xs {… x …} → for i := range xs {… xs[i] …}
//	ruleLenLocal         n := len(xs); … n … → … len(xs) …
//	rulePtrLocal         if len(x) > 0 { p := &x[0]; … p.f … } → … x[0].f …
//	ruleElemLocal        if len(x) > 0 { v := x[0]; L1 = v.f; L2 = v.g; … } → … L1 = x[0].f; L2 = x[0].g …
//	ruleFwdLocal         v := E; return f(…, v, …) → return f(…, E, …)   (E and all operands pure, v used once)
//	ruleHeaderAlias      k := E; *p = k; … k … → *p = E; … (*p) …   (while nothing can have stored to *p)
//	ruleAliasRead        y := X.f; … y … → y := X.f; … X.f …   (y assigned later; only while nothing can have changed y or X.f)
//	ruleCopyLoop         dst := make(T, len(src)); copy(dst, src) → … for index := range dst { dst[index] = src[index] }   (jsonpath.go only)
//	inlineHelpers        return h(a…) / h(a…) / if [!]p(a) {…} with h, p unexported helpers of the package → body inlined, helper dropped
//	                     (every use in the whole package must be inlinable; a method promoted through an embedded
//	                     pointer is inlined with receiver x.E, and x.E.f is spelled x.f where that is the same field)
//	normLoopMethodNames  canonical names for the locals of the `comparator` / `validate` methods (alpha-renaming)
//	ruleGuardMerge       if !c {return e}; B…; return e → if c {B…}; return e   (also a != b, nil tests excepted; function body)
//	ruleInitSink         if v, ok := x.(T); a { if b {S} } → if a { if v, ok := x.(T); b {S} }   (a pure, no mention of v, ok)
//	ruleAssertInit       v, ok := X.(T); if !ok {A…; J}; return R → if v, ok := X.(T); ok {return R}; A…; J
//	                     v, ok := X.(T); if ok {return R}; rest → if v, ok := X.(T); ok {return R}; rest   (rest without v, ok)
//	ruleAssertChain      two or more `if vi, ok := x.(Ti); ok {…; return}` in a row on one local x, then a tail
//	                     → switch typedNodes := x.(type) { case Ti: …; default: tail }
//	ruleArithLocal       n := len(xs) - 1; … n … → … len(xs) - 1 …   (while no operand of the expression can have changed)
//	ruleShortIntDecl     var x int → x := 0   (profile shortIntDecl only: the inverse of ruleZeroDecl, for `slices`)
//	normAggregateNames   canonical names for two locals of (*syntaxAggregateFunction).retrieve (alpha-renaming)
//	-- round 4 (runtime closures of jsonpath.peg.go, syntaxErr, getSortedKeys, Retrieve) --
//	ruleReturnFlip       also: if err == nil {return A}; return B → if err != nil {return B}; return A   (err a variable of type error)
//	ruleLoopBreakFlip    end of a loop body: if c {S…; continue}; T…; break/return → if !c {T…; break/return}; S…
//	ruleHeaderRead       *p = E; k := *p; … k … → *p = E; … (*p) …   (mirror of ruleHeaderAlias; p is non-nil after the store)
//	ruleJoinDefs         x := E1; y := E2 → x, y := E1, E2   (profile joinDefs: call-free, independent, at most one can panic)
//	ruleIfNegation       profile notFirstBool: if v {B} else {A} → if !v {A} else {B}   (v a bool variable; memoize in jsonpath.peg.go)
//	normSyntaxErrNames   canonical names for the three locals of syntaxErr (alpha-renaming)
//
// NOT normalised, deliberately (no checkable side condition makes them equivalences): replacing
// an indexed fill of a pre-sized slice by append (needs a bound on the number of appends),
// working on a local copy of `*p` and storing it back LATER (differs when a panic intervenes;
// ruleHeaderAlias only covers a copy that is stored back at once and then merely read), swapping
// two nested conditions one of which may panic, renaming locals that the generated Lean quotes
// (other than those of the three method families named above),
// re-associating an allocation (`x := T{…}; …; &x` against `&T{…}` built from a helper's result).
//
// Besides rewriting, the pass answers go/types questions about the nodes of a file it has seen
// (normTypeOf, normConstString, normIsPlainString, normMethodsTrivial): a generator may widen a
// pattern under a typed side condition instead of a syntactic guess (errtexts does).
package main

import (
	"bytes"
	"fmt"
	"go/ast"
	"go/build"
	"go/constant"
	"go/importer"
	"go/parser"
	"go/printer"
	"go/token"
	"go/types"
	"os"
	"path/filepath"
	"reflect"
	"sort"
	"strings"
)

// normProfile switches individual directional rewrites off for a generator whose accepted
// patterns use the other (equally valid) form. Every selection is sound: each rewrite is an
// equivalence on its own.
type normProfile struct {
	keepAndCond   bool // do not split `if a && b {S}` into nested ifs
	keepIntShort  bool // do not turn `x := 0` into `var x int`
	keepLenLocals bool // do not inline `n := len(xs)`
	// the next two switch a direction ON (see withFileDirections: the library spells these
	// constructs both ways, so there is no global canonical form)
	loopElseContinue bool // last in a loop body: `if [init;] A {S} else {T…}` -> `if [init;] A {S; continue}; T…`
	eqFirst          bool // `if a != b {A} else {B}` -> `if a == b {B} else {A}`
	shortIntDecl     bool // `var x int` -> `x := 0` (the generator's patterns spell the short form; implies keepIntShort)
	// round 4 (the runtime closures of jsonpath.peg.go, syntaxErr): see normProfilePegRuntime / syntaxerr.go
	keepVoidEarly bool // do not fold `if c {A; return}; B` of a result-less function into if/else
	notFirstBool  bool // `if v {B} else {A}` (v a bool VARIABLE) -> `if !v {A} else {B}`; the `!c` direction of ruleIfNegation is off
	joinDefs      bool // `x := E1; y := E2` -> `x, y := E1, E2` (ruleJoinDefs)
}

// normProfilePegRuntime: the canonical spellings of the hand-written runtime around the rule table of
// jsonpath.peg.go (generator `pegruntime`): `if a && b {…}` stays one condition, the guard
// `if p.disableMemoize { return }` stays an early return, and memoize tests `!matched` first.
var normProfilePegRuntime = normProfile{keepAndCond: true, keepVoidEarly: true, notFirstBool: true}

// normFileDirections: directions that hold for one file of the library, whichever generator reads
// it (the library spells these constructs both ways, so the canonical form is per file).
//
//	jsonpath.go         Parse tests `parser.parse == nil` first (Init, else Reset)
//	jsonpath_parser.go  setNodeChain ends its loop body with `if …; ok { …; continue }; …`
func (p normProfile) withFileDirections(base string) normProfile {
	switch base {
	case "jsonpath.go":
		p.eqFirst = true
	case "jsonpath_parser.go":
		p.loopElseContinue = true
	}
	return p
}

// normCopyLoopFile: the one file whose canonical form of "copy into a fresh slice" is the
// element-wise loop (the closure returned by Parse); everywhere else the library calls copy(),
// and copy() is left alone. Both forms are equivalent under ruleCopyLoop's side conditions.
const normCopyLoopFile = "jsonpath.go"

// normPkg is the type-checked library package (own FileSet, own ASTs).
type normPkg struct {
	ok    bool
	fset  *token.FileSet
	files map[string]*ast.File // base name -> file
	names []string             // sorted base names
	info  *types.Info
	pkg   *types.Package
	// identCount[name] = number of identifiers with that name in the whole package
	identCount map[string]int
	// useCount[obj] = number of identifiers of the package that USE (not declare) obj
	useCount map[types.Object]int
	// fileIdents[file][name]: the number of identifiers called name in that file
	fileIdents map[string]map[string]int
	// trivial[name]: cached normMethodsTrivial
	trivial map[string]bool
}

var normCache = map[string]*normPkg{}

// normLoad parses and type-checks the non-test files of dir that match the default build
// constraints (so verif_off.go, not verif_on.go). Any error makes the package unusable (ok=false).
func normLoad(dir string) *normPkg {
	if p, ok := normCache[dir]; ok {
		return p
	}
	p := &normPkg{fset: token.NewFileSet(), files: map[string]*ast.File{}, identCount: map[string]int{}, fileIdents: map[string]map[string]int{}}
	normCache[dir] = p
	ents, err := os.ReadDir(dir)
	if err != nil {
		return p
	}
	ctx := build.Default
	for _, e := range ents {
		n := e.Name()
		if e.IsDir() || !strings.HasSuffix(n, ".go") || strings.HasSuffix(n, "_test.go") {
			continue
		}
		if ok, err := ctx.MatchFile(dir, n); err != nil || !ok {
			continue
		}
		p.names = append(p.names, n)
	}
	sort.Strings(p.names)
	var files []*ast.File
	for _, n := range p.names {
		f, err := parser.ParseFile(p.fset, filepath.Join(dir, n), nil, parser.SkipObjectResolution)
		if err != nil {
			return p
		}
		p.files[n] = f
		files = append(files, f)
		p.fileIdents[n] = map[string]int{}
		ast.Inspect(f, func(x ast.Node) bool {
			if id, ok := x.(*ast.Ident); ok {
				p.identCount[id.Name]++
				p.fileIdents[n][id.Name]++
			}
			return true
		})
	}
	if len(files) == 0 {
		return p
	}
	p.info = &types.Info{
		Types:      map[ast.Expr]types.TypeAndValue{},
		Defs:       map[*ast.Ident]types.Object{},
		Uses:       map[*ast.Ident]types.Object{},
		Selections: map[*ast.SelectorExpr]*types.Selection{},
		Implicits:  map[ast.Node]types.Object{},
	}
	failed := false
	conf := types.Config{
		Importer: importer.ForCompiler(p.fset, "source", nil),
		Error:    func(error) { failed = true },
	}
	pkg, err := conf.Check(files[0].Name.Name, p.fset, files, p.info)
	if err != nil || failed || pkg == nil {
		return p
	}
	p.pkg = pkg
	p.useCount = map[types.Object]int{}
	for _, o := range p.info.Uses {
		p.useCount[o]++
	}
	p.ok = true
	return p
}

// normCtx is the state of normalising one file for one generator.
type normCtx struct {
	fset    *token.FileSet
	file    *ast.File
	pkg     *normPkg
	prof    normProfile
	pair    map[ast.Node]ast.Node // node of the generator's AST (or a clone of one) -> typed node
	fn      *ast.FuncDecl         // function being normalised
	changed bool
	foreign map[*ast.File]bool // typed files of the package whose nodes are paired with themselves
}

// normCtxOf remembers the context of every generator file that went through the pass, so that a
// generator can ask go/types questions about the nodes it looks at (normTypeOf, normConstString).
// Nodes created by a rewrite have no type information: the answer for them is "unknown".
var normCtxOf = map[*ast.File]*normCtx{}

// normTypeOf: the static type of expression e of generator file f (nil when unknown).
func normTypeOf(f *ast.File, e ast.Expr) types.Type {
	if c := normCtxOf[f]; c != nil {
		return c.typeOf(e)
	}
	return nil
}

// normConstString: e is a constant expression of string kind (go/types); its value.
func normConstString(f *ast.File, e ast.Expr) (string, bool) {
	c := normCtxOf[f]
	if c == nil {
		return "", false
	}
	t, ok := c.pair[e].(ast.Expr)
	if !ok {
		return "", false
	}
	tv, ok := c.pkg.info.Types[t]
	if !ok || tv.Value == nil || tv.Value.Kind() != constant.String {
		return "", false
	}
	return constant.StringVal(tv.Value), true
}

// normIsPlainString: the static type of e is exactly the predeclared type string (not a named
// string type, which could carry a String or Error method that fmt's %s would call).
func normIsPlainString(f *ast.File, e ast.Expr) bool {
	t := normTypeOf(f, e)
	return t != nil && types.Identical(t, types.Typ[types.String])
}

// normMethodsTrivial: the package in dir type-checks, declares at least one method called name,
// name is unexported, and EVERY method of that name in the package has a body that is a single
// `return e` with e free of calls, closures and receives. A call x.name() — whatever the dynamic
// type of x: an unexported method can only be implemented inside the package — then stores
// nothing and calls nothing: it cannot change any variable.
func normMethodsTrivial(dir, name string) bool {
	p := normLoad(dir)
	if !p.ok || name == "" || ast.IsExported(name) {
		return false
	}
	c := &normCtx{pkg: p, pair: map[ast.Node]ast.Node{}}
	found := false
	for _, n := range p.names {
		c.pairIdentity(p.files[n])
		for _, d := range p.files[n].Decls {
			fd, ok := d.(*ast.FuncDecl)
			if !ok || fd.Recv == nil || fd.Name.Name != name {
				continue
			}
			if fd.Body == nil || len(fd.Body.List) != 1 {
				return false
			}
			ret, ok := fd.Body.List[0].(*ast.ReturnStmt)
			if !ok || c.impureIn(ret) {
				return false
			}
			found = true
		}
	}
	return found
}

// pairIdentity pairs every node of a TYPED file of the package with itself, so that the type
// queries and clone work on it exactly as on a generator file.
func (c *normCtx) pairIdentity(f *ast.File) {
	if c.foreign == nil {
		c.foreign = map[*ast.File]bool{}
	}
	if f == nil || c.foreign[f] {
		return
	}
	c.foreign[f] = true
	ast.Inspect(f, func(n ast.Node) bool {
		switch n.(type) {
		case nil:
			return false
		case *ast.Comment, *ast.CommentGroup:
			return false
		}
		c.pair[n] = n
		return true
	})
}

// mark records that a rule rewrote something; with JPV_NORM_TRACE set it is reported on stderr.
func (c *normCtx) mark(rule string) {
	c.changed = true
	if normTrace {
		fn := ""
		if c.fn != nil {
			fn = c.fn.Name.Name
		}
		fmt.Fprintf(os.Stderr, "normalize: %s: %s in %s\n", filepath.Base(c.fset.Position(c.file.Package).Filename), rule, fn)
	}
}

var normTrace = os.Getenv("JPV_NORM_TRACE") != ""

// normalizeFile is the entry point used by the generators (default profile).
func normalizeFile(fset *token.FileSet, f *ast.File) { normalizeFileWith(fset, f, normProfile{}) }

func normalizeFileWith(fset *token.FileSet, f *ast.File, prof normProfile) {
	if f == nil || fset == nil {
		return
	}
	path := fset.Position(f.Package).Filename
	if path == "" {
		return
	}
	pkg := normLoad(filepath.Dir(path))
	if !pkg.ok {
		return
	}
	typed := pkg.files[filepath.Base(path)]
	if typed == nil {
		return
	}
	pair, ok := normPairUp(f, typed)
	if !ok {
		return
	}
	c := &normCtx{fset: fset, file: f, pkg: pkg, prof: prof.withFileDirections(filepath.Base(path)), pair: pair}
	normCtxOf[f] = c
	c.run()
}

// normPairUp pairs the nodes of two parses of the same source (pre-order, comments skipped).
func normPairUp(a, b *ast.File) (map[ast.Node]ast.Node, bool) {
	collect := func(root ast.Node) []ast.Node {
		var out []ast.Node
		ast.Inspect(root, func(n ast.Node) bool {
			switch n.(type) {
			case nil:
				return false
			case *ast.Comment, *ast.CommentGroup:
				return false
			}
			out = append(out, n)
			return true
		})
		return out
	}
	la, lb := collect(a), collect(b)
	if len(la) != len(lb) {
		return nil, false
	}
	m := make(map[ast.Node]ast.Node, len(la))
	for i := range la {
		if reflect.TypeOf(la[i]) != reflect.TypeOf(lb[i]) {
			return nil, false
		}
		switch x := la[i].(type) {
		case *ast.Ident:
			if x.Name != lb[i].(*ast.Ident).Name {
				return nil, false
			}
		case *ast.BasicLit:
			if x.Value != lb[i].(*ast.BasicLit).Value {
				return nil, false
			}
		}
		m[la[i]] = lb[i]
	}
	return m, true
}

// ---- type queries on generator nodes (nil / false when unknown: unknown never enables a rewrite)

func (c *normCtx) typeOf(e ast.Expr) types.Type {
	t, ok := c.pair[e].(ast.Expr)
	if !ok {
		return nil
	}
	return c.pkg.info.TypeOf(t)
}

func (c *normCtx) isTypeExpr(e ast.Expr) bool {
	t, ok := c.pair[e].(ast.Expr)
	if !ok {
		return false
	}
	tv, ok := c.pkg.info.Types[t]
	return ok && tv.IsType()
}

func (c *normCtx) objOf(id *ast.Ident) types.Object {
	t, ok := c.pair[id].(*ast.Ident)
	if !ok {
		return nil
	}
	return c.pkg.info.ObjectOf(t)
}

// isLocalVar: id denotes a variable declared inside a function (parameter, receiver, local).
func (c *normCtx) isLocalVar(id *ast.Ident) bool {
	v, ok := c.objOf(id).(*types.Var)
	return ok && !v.IsField() && v.Parent() != nil && v.Parent() != c.pkg.pkg.Scope() && v.Parent() != types.Universe
}

// isBuiltin: e is the universe builtin `name` (not shadowed).
func (c *normCtx) isBuiltin(e ast.Expr, name string) bool {
	id, ok := e.(*ast.Ident)
	if !ok || id.Name != name {
		return false
	}
	b, ok := c.objOf(id).(*types.Builtin)
	return ok && b.Name() == name
}

// isUniverse: id is the universe object `name` (true, false, nil, bool, int, string …).
func (c *normCtx) isUniverse(e ast.Expr, name string) bool {
	id, ok := e.(*ast.Ident)
	if !ok || id.Name != name {
		return false
	}
	o := c.objOf(id)
	return o != nil && o == types.Universe.Lookup(name)
}

// universeFree: the universe name is shadowed neither at package level nor inside the current function.
func (c *normCtx) universeFree(name string) bool {
	if c.pkg.pkg.Scope().Lookup(name) != nil {
		return false
	}
	return c.fn == nil || declaredNames(c.fn)[name] == 0
}

// ---- printing

func (c *normCtx) str(n ast.Node) string {
	var b bytes.Buffer
	if err := printer.Fprint(&b, token.NewFileSet(), n); err != nil {
		return "<unprintable>"
	}
	return strings.Join(strings.Fields(b.String()), " ")
}

// ---- cloning (keeps the pairing, so clones can still be type-queried)

var (
	normObjType   = reflect.TypeOf((*ast.Object)(nil))
	normScopeType = reflect.TypeOf((*ast.Scope)(nil))
	normExprType  = reflect.TypeOf((*ast.Expr)(nil)).Elem()
)

func (c *normCtx) clone(n ast.Node) ast.Node {
	if n == nil {
		return nil
	}
	v := c.cloneValue(reflect.ValueOf(n))
	return v.Interface().(ast.Node)
}

func (c *normCtx) cloneExpr(e ast.Expr) ast.Expr {
	if e == nil {
		return nil
	}
	return c.clone(e).(ast.Expr)
}

func (c *normCtx) cloneStmts(l []ast.Stmt) []ast.Stmt {
	out := make([]ast.Stmt, len(l))
	for i, s := range l {
		out[i] = c.clone(s).(ast.Stmt)
	}
	return out
}

func (c *normCtx) cloneValue(v reflect.Value) reflect.Value {
	switch v.Kind() {
	case reflect.Ptr:
		if v.IsNil() {
			return v
		}
		if v.Type() == normObjType || v.Type() == normScopeType {
			return reflect.Zero(v.Type())
		}
		if _, isComment := v.Interface().(*ast.CommentGroup); isComment {
			return reflect.Zero(v.Type())
		}
		nv := reflect.New(v.Type().Elem())
		nv.Elem().Set(c.cloneValue(v.Elem()))
		if on, ok := v.Interface().(ast.Node); ok {
			if p, ok := c.pair[on]; ok {
				c.pair[nv.Interface().(ast.Node)] = p
			}
		}
		return nv
	case reflect.Struct:
		nv := reflect.New(v.Type()).Elem()
		for i := 0; i < v.NumField(); i++ {
			nv.Field(i).Set(c.cloneValue(v.Field(i)))
		}
		return nv
	case reflect.Slice:
		if v.IsNil() {
			return v
		}
		nv := reflect.MakeSlice(v.Type(), v.Len(), v.Len())
		for i := 0; i < v.Len(); i++ {
			nv.Index(i).Set(c.cloneValue(v.Index(i)))
		}
		return nv
	case reflect.Interface:
		if v.IsNil() {
			return v
		}
		nv := reflect.New(v.Type()).Elem()
		nv.Set(c.cloneValue(v.Elem()))
		return nv
	}
	return v
}

// mapExprs replaces, bottom-up, every expression stored in a field of static type ast.Expr
// (or []ast.Expr) below n by f(expression). Identifiers in fields of type *ast.Ident
// (selector names, declared names, labels) are never replaced.
func mapExprs(n ast.Node, f func(ast.Expr) ast.Expr) {
	if n == nil || reflect.ValueOf(n).IsNil() {
		return
	}
	mapExprsValue(reflect.ValueOf(n), f)
}

func mapExprsValue(v reflect.Value, f func(ast.Expr) ast.Expr) {
	switch v.Kind() {
	case reflect.Ptr:
		if v.IsNil() || v.Type() == normObjType || v.Type() == normScopeType {
			return
		}
		mapExprsValue(v.Elem(), f)
	case reflect.Struct:
		for i := 0; i < v.NumField(); i++ {
			mapExprsField(v.Field(i), f)
		}
	case reflect.Slice:
		for i := 0; i < v.Len(); i++ {
			mapExprsField(v.Index(i), f)
		}
	case reflect.Interface:
		if !v.IsNil() {
			mapExprsValue(v.Elem(), f)
		}
	}
}

func mapExprsField(fv reflect.Value, f func(ast.Expr) ast.Expr) {
	switch fv.Kind() {
	case reflect.Interface:
		if fv.IsNil() {
			return
		}
		mapExprsValue(fv.Elem(), f)
		if fv.Type() == normExprType && fv.CanSet() {
			old := fv.Interface().(ast.Expr)
			if nw := f(old); nw != old && nw != nil {
				fv.Set(reflect.ValueOf(nw))
			}
		}
	case reflect.Ptr, reflect.Slice, reflect.Struct:
		mapExprsValue(fv, f)
	}
}

// ---- statement lists

type listKind int

const (
	lkOther listKind = iota
	lkFunc           // the body of a function declaration or literal
	lkLoop           // the body of a for / range statement
)

type listCtx struct {
	kind  listKind
	ftype *ast.FuncType // lkFunc: the function's type
	owner ast.Node      // the node holding the list
	guard *ast.IfStmt   // the list is the then-block of this if statement
}

// visitLists calls fn on every statement list below root, innermost first, and stores the result.
func visitLists(root ast.Node, fn func(list []ast.Stmt, ctx listCtx) []ast.Stmt) {
	var stack []ast.Node
	ast.Inspect(root, func(n ast.Node) bool {
		if n != nil {
			stack = append(stack, n)
			return true
		}
		top := stack[len(stack)-1]
		stack = stack[:len(stack)-1]
		var parent ast.Node
		if len(stack) > 0 {
			parent = stack[len(stack)-1]
		}
		switch b := top.(type) {
		case *ast.BlockStmt:
			ctx := listCtx{owner: b}
			switch p := parent.(type) {
			case *ast.FuncDecl:
				ctx.kind, ctx.ftype = lkFunc, p.Type
			case *ast.FuncLit:
				ctx.kind, ctx.ftype = lkFunc, p.Type
			case *ast.ForStmt:
				if p.Body == b {
					ctx.kind = lkLoop
				}
			case *ast.RangeStmt:
				if p.Body == b {
					ctx.kind = lkLoop
				}
			case *ast.IfStmt:
				if p.Body == b {
					ctx.guard = p
				}
			}
			b.List = fn(b.List, ctx)
		case *ast.CaseClause:
			b.Body = fn(b.Body, listCtx{owner: b})
		case *ast.CommClause:
			b.Body = fn(b.Body, listCtx{owner: b})
		}
		return true
	})
}

// ---- syntactic analyses

// declaredNames counts, per name, the declarations inside fn: receiver, parameters, results,
// `:=`, var/const/type declarations, range and type-switch bindings, parameters of function
// literals, labels.
func declaredNames(fn ast.Node) map[string]int {
	m := map[string]int{}
	addFields := func(fl *ast.FieldList) {
		if fl == nil {
			return
		}
		for _, f := range fl.List {
			for _, n := range f.Names {
				m[n.Name]++
			}
		}
	}
	ast.Inspect(fn, func(n ast.Node) bool {
		switch x := n.(type) {
		case *ast.FuncDecl:
			addFields(x.Recv)
			addFields(x.Type.Params)
			addFields(x.Type.Results)
		case *ast.FuncLit:
			addFields(x.Type.Params)
			addFields(x.Type.Results)
		case *ast.AssignStmt:
			if x.Tok == token.DEFINE {
				for _, l := range x.Lhs {
					if id, ok := l.(*ast.Ident); ok {
						m[id.Name]++
					}
				}
			}
		case *ast.RangeStmt:
			if x.Tok == token.DEFINE {
				for _, l := range []ast.Expr{x.Key, x.Value} {
					if id, ok := l.(*ast.Ident); ok {
						m[id.Name]++
					}
				}
			}
		case *ast.ValueSpec:
			for _, id := range x.Names {
				m[id.Name]++
			}
		case *ast.TypeSpec:
			m[x.Name.Name]++
		case *ast.LabeledStmt:
			m[x.Label.Name]++
		}
		return true
	})
	return m
}

// identNames is the set of all identifier names occurring below n (uses, declarations, selectors).
func identNames(n ast.Node) map[string]bool {
	m := map[string]bool{}
	ast.Inspect(n, func(x ast.Node) bool {
		if id, ok := x.(*ast.Ident); ok {
			m[id.Name] = true
		}
		return true
	})
	return m
}

func countIdent(n ast.Node, name string) int {
	k := 0
	ast.Inspect(n, func(x ast.Node) bool {
		if id, ok := x.(*ast.Ident); ok && id.Name == name {
			k++
		}
		return true
	})
	return k
}

// countFreeIdent counts the identifiers called name below n other than the selector names of
// selector expressions (the `f` of `x.f`: resolved in the type of x, not in a scope).
func countFreeIdent(n ast.Node, name string) int {
	k := countIdent(n, name)
	ast.Inspect(n, func(x ast.Node) bool {
		if se, ok := x.(*ast.SelectorExpr); ok && se.Sel.Name == name {
			k--
		}
		return true
	})
	return k
}

func unparen(e ast.Expr) ast.Expr {
	for {
		p, ok := e.(*ast.ParenExpr)
		if !ok {
			return e
		}
		e = p.X
	}
}

func hasLabelsOrGoto(n ast.Node) bool {
	found := false
	ast.Inspect(n, func(x ast.Node) bool {
		switch b := x.(type) {
		case *ast.LabeledStmt:
			found = true
		case *ast.BranchStmt:
			if b.Tok == token.GOTO || b.Label != nil {
				found = true
			}
		}
		return !found
	})
	return found
}

// hasFreeBreak: an unlabeled `break` below the statements that would bind to a construct
// enclosing them (i.e. not nested in a for / switch / select of their own).
func hasFreeBreak(list []ast.Stmt) bool {
	found := false
	var walk func(n ast.Node)
	walk = func(n ast.Node) {
		ast.Inspect(n, func(x ast.Node) bool {
			switch b := x.(type) {
			case *ast.ForStmt, *ast.RangeStmt, *ast.SwitchStmt, *ast.TypeSwitchStmt, *ast.SelectStmt, *ast.FuncLit:
				return false
			case *ast.BranchStmt:
				if b.Tok == token.BREAK && b.Label == nil {
					found = true
				}
			}
			return !found
		})
	}
	for _, s := range list {
		walk(s)
	}
	return found
}

// endsTerminating: the list ends in return / break / continue / goto / panic(…).
func endsTerminating(list []ast.Stmt) bool {
	if len(list) == 0 {
		return false
	}
	switch s := list[len(list)-1].(type) {
	case *ast.ReturnStmt, *ast.BranchStmt:
		return true
	case *ast.ExprStmt:
		if call, ok := s.X.(*ast.CallExpr); ok {
			if id, ok := call.Fun.(*ast.Ident); ok && id.Name == "panic" {
				return true
			}
		}
	}
	return false
}

// stableLocal: id is a local variable that, inside the current function (closures included),
// is assigned nowhere except by its one declaration, whose address is never taken (explicitly,
// or implicitly by calling a pointer-receiver method on it), and whose name is declared exactly
// once in the function (so every occurrence of the name after the declaration denotes it).
// Its value is therefore the same at every point after its declaration.
func (c *normCtx) stableLocal(id *ast.Ident) bool {
	if c.fn == nil || !c.isLocalVar(id) {
		return false
	}
	if declaredNames(c.fn)[id.Name] != 1 {
		return false
	}
	return !c.writtenOrAddressed(c.fn, id.Name)
}

// writtenOrAddressed: below root, a variable called name is assigned (=, op=, ++, --, range with
// `=`), or its address is taken (&name, &name.f…, &arr[i] for an array, slicing an array, a
// pointer-receiver method called on it). Declarations (`:=`, var) do not count. Conservative:
// anything not understood counts as a write.
func (c *normCtx) writtenOrAddressed(root ast.Node, name string) bool {
	hit := false
	isName := func(e ast.Expr) bool {
		id, ok := unparen(e).(*ast.Ident)
		return ok && id.Name == name
	}
	// rootIsName: e is name, name.f.g, name[i] (array only) …
	var addrRoot func(e ast.Expr) bool
	addrRoot = func(e ast.Expr) bool {
		switch x := unparen(e).(type) {
		case *ast.Ident:
			return x.Name == name
		case *ast.SelectorExpr:
			if t := c.typeOf(x.X); t != nil {
				if _, isPtr := t.Underlying().(*types.Pointer); isPtr {
					return false // (*p).f: the address is inside *p, not inside the variable p
				}
			} else if isName(x.X) {
				return true
			}
			return addrRoot(x.X)
		case *ast.IndexExpr:
			t := c.typeOf(x.X)
			if t == nil {
				return addrRoot(x.X)
			}
			if _, isArr := t.Underlying().(*types.Array); isArr {
				return addrRoot(x.X)
			}
			return false // element of a slice / map: not inside the variable itself
		}
		return false
	}
	ast.Inspect(root, func(n ast.Node) bool {
		if hit {
			return false
		}
		switch x := n.(type) {
		case *ast.AssignStmt:
			if x.Tok != token.DEFINE {
				for _, l := range x.Lhs {
					if addrRoot(l) {
						hit = true
					}
				}
			}
		case *ast.IncDecStmt:
			if addrRoot(x.X) {
				hit = true
			}
		case *ast.RangeStmt:
			if x.Tok == token.ASSIGN {
				if (x.Key != nil && addrRoot(x.Key)) || (x.Value != nil && addrRoot(x.Value)) {
					hit = true
				}
			}
		case *ast.UnaryExpr:
			if x.Op == token.AND && addrRoot(x.X) {
				hit = true
			}
		case *ast.SliceExpr:
			// slicing an array variable takes its address
			if t := c.typeOf(x.X); t == nil {
				if addrRoot(x.X) {
					hit = true
				}
			} else if _, isArr := t.Underlying().(*types.Array); isArr && addrRoot(x.X) {
				hit = true
			}
		case *ast.SelectorExpr:
			// method call / method value with a pointer receiver on an addressable non-pointer operand
			if addrRoot(x.X) {
				ts, ok := c.pair[x].(*ast.SelectorExpr)
				if !ok {
					hit = true
					break
				}
				sel := c.pkg.info.Selections[ts]
				if sel == nil {
					break // qualified identifier
				}
				if sel.Kind() != types.FieldVal {
					if sig, ok := sel.Obj().Type().(*types.Signature); ok && sig.Recv() != nil {
						if _, ptrRecv := sig.Recv().Type().(*types.Pointer); ptrRecv {
							if _, isPtr := sel.Recv().Underlying().(*types.Pointer); !isPtr {
								hit = true
							}
						}
					}
				}
			}
		}
		return !hit
	})
	return hit
}

// pureExpr: identifiers, field selections, dereferences, parentheses, basic literals — evaluating
// it has no side effect and calls nothing (it may panic on a nil dereference).
func pureExpr(e ast.Expr) bool {
	switch x := e.(type) {
	case *ast.Ident, *ast.BasicLit:
		return true
	case *ast.ParenExpr:
		return pureExpr(x.X)
	case *ast.SelectorExpr:
		return pureExpr(x.X)
	case *ast.StarExpr:
		return pureExpr(x.X)
	}
	return false
}

// impureIn: below n there is a call (other than len / cap / a type conversion), a function
// literal, a channel receive, or a go / defer / send statement.
func (c *normCtx) impureIn(n ast.Node) bool {
	if n == nil || reflect.ValueOf(n).IsNil() {
		return false
	}
	hit := false
	ast.Inspect(n, func(x ast.Node) bool {
		if hit {
			return false
		}
		switch y := x.(type) {
		case *ast.CallExpr:
			if c.isBuiltin(y.Fun, "len") || c.isBuiltin(y.Fun, "cap") || c.isTypeExpr(y.Fun) {
				return true
			}
			hit = true
		case *ast.FuncLit, *ast.GoStmt, *ast.DeferStmt, *ast.SendStmt, *ast.SelectStmt:
			hit = true
		case *ast.UnaryExpr:
			if y.Op == token.ARROW {
				hit = true
			}
		}
		return !hit
	})
	return hit
}

// usesObj: below n there is an identifier denoting obj.
func (c *normCtx) usesObj(n ast.Node, obj types.Object) bool {
	if n == nil || reflect.ValueOf(n).IsNil() {
		return false
	}
	hit := false
	ast.Inspect(n, func(x ast.Node) bool {
		if id, ok := x.(*ast.Ident); ok && c.objOf(id) == obj {
			hit = true
		}
		return !hit
	})
	return hit
}

// countObj counts the identifiers below n that denote obj.
func (c *normCtx) countObj(n ast.Node, obj types.Object) int {
	k := 0
	ast.Inspect(n, func(x ast.Node) bool {
		if id, ok := x.(*ast.Ident); ok && c.objOf(id) == obj {
			k++
		}
		return true
	})
	return k
}

// substObj replaces every use of obj below n (in expression position) by a fresh clone of repl.
func (c *normCtx) substObj(n ast.Node, obj types.Object, repl ast.Expr) {
	mapExprs(n, func(e ast.Expr) ast.Expr {
		if id, ok := e.(*ast.Ident); ok && c.objOf(id) == obj {
			r := c.cloneExpr(repl)
			setPos(r, id.Pos())
			return r
		}
		return e
	})
}

var normPosType = reflect.TypeOf(token.NoPos)

// setPos moves every valid position below n to pos, so that go/printer (used by the generators
// to quote source text) sees the whole subtree on one line.
func setPos(n ast.Node, pos token.Pos) {
	var walk func(v reflect.Value)
	walk = func(v reflect.Value) {
		switch v.Kind() {
		case reflect.Ptr:
			if v.IsNil() || v.Type() == normObjType || v.Type() == normScopeType {
				return
			}
			walk(v.Elem())
		case reflect.Interface:
			if !v.IsNil() {
				walk(v.Elem())
			}
		case reflect.Struct:
			for i := 0; i < v.NumField(); i++ {
				walk(v.Field(i))
			}
		case reflect.Slice:
			for i := 0; i < v.Len(); i++ {
				walk(v.Index(i))
			}
		default:
			if v.Type() == normPosType && v.CanSet() && token.Pos(v.Int()).IsValid() {
				v.SetInt(int64(pos))
			}
		}
	}
	walk(reflect.ValueOf(n))
}

// cannotHold: storage of static type t cannot contain a variable of type h (so a store to the
// former cannot change the latter). In type-safe Go two variables overlap only if one is a
// component (struct field, array element) of the other; anything held in an interface, pointer,
// slice, map, channel or function value is a separate variable.
func cannotHold(t, h types.Type) bool {
	if t == nil || h == nil || types.Identical(t, h) {
		return false
	}
	switch t.Underlying().(type) {
	case *types.Struct, *types.Array:
		return false
	}
	return true
}

// ---- local names

// normRenameLocal alpha-renames the local variable old of fd to new. Returns whether it did.
// Sound because — checked — the name old is declared exactly once in fd (receiver, parameter or
// local), so every free-standing identifier old in fd denotes that variable unless it refers to a
// package-level object of the same name (excluded: no such object exists); new occurs nowhere in
// fd except as the selector name of a selector expression `x.new` — which is looked up in the type
// of x, never in a scope, so it neither captures nor is captured — and is not a package-level
// name, so no reference is captured and none is created. Selector
// names (x.old) and composite-literal keys are not variables: if one of them is spelled old the
// function is left alone rather than reasoned about (a composite-literal key spelled new counts as
// an occurrence of new: in a map or array literal it is an expression).
func normRenameLocal(fd *ast.FuncDecl, old, new string) bool {
	if fd == nil || old == new || old == "" || old == "_" || new == "" || new == "_" {
		return false
	}
	loaded := false
	for _, p := range normCache {
		if !p.ok {
			continue
		}
		loaded = true
		if p.pkg.Scope().Lookup(old) != nil || p.pkg.Scope().Lookup(new) != nil {
			return false
		}
	}
	if !loaded || types.Universe.Lookup(new) != nil || types.Universe.Lookup(old) != nil {
		return false
	}
	if declaredNames(fd)[old] != 1 || countFreeIdent(fd, new) != 0 {
		return false
	}
	clash := false
	ast.Inspect(fd, func(n ast.Node) bool {
		switch x := n.(type) {
		case *ast.SelectorExpr:
			if x.Sel.Name == old {
				clash = true
			}
		case *ast.KeyValueExpr:
			if id, ok := x.Key.(*ast.Ident); ok && id.Name == old {
				clash = true
			}
		case *ast.LabeledStmt:
			if x.Label.Name == old {
				clash = true
			}
		}
		return !clash
	})
	if clash {
		return false
	}
	ast.Inspect(fd, func(n ast.Node) bool {
		if id, ok := n.(*ast.Ident); ok && id.Name == old {
			id.Name = new
		}
		return true
	})
	return true
}

// normLoopMethodNames gives the locals of a method of the shape
//
//	func (r *T) m(P0 …[, P1 …]) bool { [var F bool;] for I := range P0 {…}; return … }
//
// the names the library uses today (p0, p1, flag, idx), whatever they are called in the source: the
// names are looked up from their declarations by position. The generators `comparators`,
// `validators` and `facts` spell these locals in their patterns and in the facts they emit; the
// methods concerned are the `comparator` and `validate` methods (see run). Pure alpha-renaming
// (normRenameLocal); when a renaming is refused the generator sees the source names and refuses.
func normLoopMethodNames(fd *ast.FuncDecl, p0, p1, flag, idx string) {
	if fd == nil || fd.Body == nil {
		return
	}
	pn, _ := tiFlatParams(fd.Type.Params)
	if len(pn) >= 1 {
		normRenameLocal(fd, pn[0], p0)
	}
	if p1 != "" && len(pn) >= 2 {
		normRenameLocal(fd, pn[1], p1)
	}
	for i, st := range fd.Body.List {
		switch x := st.(type) {
		case *ast.DeclStmt:
			if gd, ok := x.Decl.(*ast.GenDecl); ok && i == 0 && gd.Tok == token.VAR && len(gd.Specs) == 1 {
				if vs := gd.Specs[0].(*ast.ValueSpec); len(vs.Names) == 1 {
					normRenameLocal(fd, vs.Names[0].Name, flag)
				}
			}
		case *ast.RangeStmt:
			if id, ok := x.Key.(*ast.Ident); ok && x.Tok == token.DEFINE {
				normRenameLocal(fd, id.Name, idx)
			}
			return // only the first top-level loop
		}
	}
}

// normSyntaxErrNames gives the three locals of a method of the shape
//
//	func (p *T) syntaxErr(…) error { A, B := e1, e2; for I := range X {…}; … }
//
// the names the library uses today (byteOffset, runeCount, index), looked up from their
// declarations by position: the generator `syntaxerr` quotes local names in the Lean it emits.
// Pure alpha-renaming (normRenameLocal: refused when a name is declared twice, when the new name
// already occurs in the function or names a package-level / universe object); when a renaming is
// refused the generator sees the source names.
func normSyntaxErrNames(fd *ast.FuncDecl) {
	if fd == nil || fd.Body == nil || len(fd.Body.List) == 0 {
		return
	}
	if a, ok := fd.Body.List[0].(*ast.AssignStmt); ok && a.Tok == token.DEFINE && len(a.Lhs) == 2 {
		x, ok1 := a.Lhs[0].(*ast.Ident)
		y, ok2 := a.Lhs[1].(*ast.Ident)
		if ok1 && ok2 {
			normRenameLocal(fd, x.Name, "byteOffset")
			normRenameLocal(fd, y.Name, "runeCount")
		}
	}
	for _, st := range fd.Body.List {
		if r, ok := st.(*ast.RangeStmt); ok {
			if id, ok := r.Key.(*ast.Ident); ok && r.Tok == token.DEFINE && r.Value == nil {
				normRenameLocal(fd, id.Name, "index")
			}
			return // only the first top-level loop
		}
	}
}

// ---- the rewrites

// run normalises every function declaration of the file. Rules are applied round by round until
// nothing changes (at most normMaxRounds rounds; every rule strictly moves towards its canonical
// form, so in practice two or three rounds).
const normMaxRounds = 8

func (c *normCtx) run() {
	// helper inlining first: it needs the calls as written (typed) and may delete declarations
	c.inlineHelpers()
	for _, d := range c.file.Decls {
		fd, ok := d.(*ast.FuncDecl)
		if !ok || fd.Body == nil {
			continue
		}
		c.fn = fd
		for round := 0; round < normMaxRounds; round++ {
			c.changed = false
			c.exprRules(fd)
			visitLists(fd, c.ruleSwitchToIf)
			c.ruleComplement(fd) // before the tail rules take the if/else apart
			c.ruleTypeSwitchOrder(fd)
			visitLists(fd, c.ruleAssertInit)
			visitLists(fd, c.ruleAssertChain)
			visitLists(fd, c.ruleJoinDefs) // before ruleZeroDecl takes `y := 0` away
			visitLists(fd, c.ruleZeroDecl)
			visitLists(fd, c.ruleShortIntDecl)
			visitLists(fd, c.ruleDeferClosure)
			c.ruleRangeValue(fd)
			visitLists(fd, c.ruleLenLocal)
			visitLists(fd, c.ruleArithLocal)
			visitLists(fd, c.rulePtrLocal)
			visitLists(fd, c.ruleElemLocal)
			visitLists(fd, c.ruleFwdLocal)
			visitLists(fd, c.ruleHeaderAlias)
			visitLists(fd, c.ruleHeaderRead)
			visitLists(fd, c.ruleAliasRead)
			visitLists(fd, c.ruleCopyLoop)
			visitLists(fd, c.ruleLoopContinue)
			visitLists(fd, c.ruleLoopBreakFlip)
			visitLists(fd, c.ruleElseAfterJump)
			visitLists(fd, c.ruleVoidEarlyReturn)
			visitLists(fd, c.ruleTailMerge)
			visitLists(fd, c.ruleGuardMerge)
			visitLists(fd, c.ruleTailSplit)
			c.ruleIfNegation(fd)
			visitLists(fd, c.ruleReturnFlip)
			visitLists(fd, c.ruleSplitAnd)
			c.ruleInitSink(fd)
			c.ruleElseIf(fd)
			if !c.changed {
				break
			}
		}
		// canonical local names of the two loop-method families (after the shape is canonical)
		if fd.Recv != nil {
			switch fd.Name.Name {
			case "comparator":
				normLoopMethodNames(fd, "left", "right", "hasValue", "leftIndex")
			case "validate":
				normLoopMethodNames(fd, "values", "", "foundValue", "index")
			case "retrieve":
				normAggregateNames(fd)
			case "syntaxErr":
				normSyntaxErrNames(fd)
			}
		}
		c.fn = nil
	}
}

// negate returns the negation of a boolean expression in canonical form.
// Sound because: !!x = x; !(a == b) = (a != b) and !(a != b) = (a == b) hold for every comparable
// operand type including floats (NaN == NaN is false, NaN != NaN is true) and the comparison is
// evaluated exactly once either way (same panics for uncomparable dynamic types). Ordered
// comparisons are NOT flipped (!(a < b) differs from a >= b on NaN).
func negate(e ast.Expr) ast.Expr {
	switch x := unparen(e).(type) {
	case *ast.UnaryExpr:
		if x.Op == token.NOT {
			return unparen(x.X)
		}
	case *ast.BinaryExpr:
		switch x.Op {
		case token.EQL:
			return &ast.BinaryExpr{X: x.X, OpPos: x.OpPos, Op: token.NEQ, Y: x.Y}
		case token.NEQ:
			return &ast.BinaryExpr{X: x.X, OpPos: x.OpPos, Op: token.EQL, Y: x.Y}
		}
		return &ast.UnaryExpr{OpPos: e.Pos(), Op: token.NOT, X: &ast.ParenExpr{Lparen: e.Pos(), X: x, Rparen: e.End()}}
	}
	return &ast.UnaryExpr{OpPos: e.Pos(), Op: token.NOT, X: unparen(e)}
}

// orderedNegation[op] is the comparison that holds exactly when `a op b` does not — on a totally
// ordered operand type.
var orderedNegation = map[token.Token]token.Token{
	token.LSS: token.GEQ, token.GEQ: token.LSS, token.GTR: token.LEQ, token.LEQ: token.GTR,
}

// isIntegerTyped: go/types gives e an integer type (typed, or an untyped integer constant).
func (c *normCtx) isIntegerTyped(e ast.Expr) bool {
	t := c.typeOf(e)
	if t == nil {
		return false
	}
	b, ok := t.Underlying().(*types.Basic)
	return ok && b.Info()&types.IsInteger != 0
}

func isIntLit(e ast.Expr, v string) bool {
	l, ok := e.(*ast.BasicLit)
	return ok && l.Kind == token.INT && l.Value == v
}

// exprRules: expression-level canonical forms.
//
//	!!a -> a ; !(a == b) -> a != b ; !(a != b) -> a == b        (see negate)
//	len(e) != 0, len(e) >= 1, 0 != len(e), 0 < len(e), 1 <= len(e)   -> len(e) > 0
//	len(e) < 1, len(e) <= 0, 0 == len(e), 0 >= len(e), 1 > len(e)    -> len(e) == 0
//	!(a < b) -> a >= b ; !(a <= b) -> a > b ; !(a > b) -> a <= b ; !(a >= b) -> a < b   for integers
//
// The last line is sound because — checked with go/types — both operands have an integer type:
// integers are totally ordered, so exactly one of `a <= b`, `a > b` holds; both operands are
// evaluated once, in the same order. (Floats are excluded: with a NaN operand both are false.)
// Sound because the builtin len (checked: the identifier denotes the universe builtin) returns an
// int >= 0 for every operand type, so the listed comparisons are the same predicate; e is
// evaluated exactly once in each form.
func (c *normCtx) exprRules(fd *ast.FuncDecl) {
	isLen := func(e ast.Expr) bool {
		call, ok := e.(*ast.CallExpr)
		return ok && len(call.Args) == 1 && c.isBuiltin(call.Fun, "len")
	}
	mapExprs(fd.Body, func(e ast.Expr) ast.Expr {
		switch x := e.(type) {
		case *ast.UnaryExpr:
			if x.Op != token.NOT {
				return e
			}
			// e is !X: when X is itself a negation or an (in)equality, e is the exact negation of X
			switch in := unparen(x.X).(type) {
			case *ast.UnaryExpr:
				if in.Op == token.NOT {
					c.mark("exprRules")
					return negate(in)
				}
			case *ast.BinaryExpr:
				if in.Op == token.EQL || in.Op == token.NEQ {
					c.mark("exprRules")
					return negate(in)
				}
				// !(a <= b) -> a > b etc.: exact for integers (a total order; NOT for floats: NaN)
				if flip, ok := orderedNegation[in.Op]; ok && c.isIntegerTyped(in.X) && c.isIntegerTyped(in.Y) {
					c.mark("exprRules")
					return &ast.BinaryExpr{X: in.X, OpPos: in.OpPos, Op: flip, Y: in.Y}
				}
			}
		case *ast.BinaryExpr:
			var l ast.Expr
			op := x.Op
			var k ast.Expr
			if isLen(x.X) {
				l, k = x.X, x.Y
			} else if isLen(x.Y) {
				l, k = x.Y, x.X
				// mirror the operator: k op len  ==  len op' k
				switch op {
				case token.LSS:
					op = token.GTR
				case token.GTR:
					op = token.LSS
				case token.LEQ:
					op = token.GEQ
				case token.GEQ:
					op = token.LEQ
				}
			} else {
				return e
			}
			positive := (op == token.NEQ && isIntLit(k, "0")) || (op == token.GEQ && isIntLit(k, "1"))
			if op == token.GTR && isIntLit(k, "0") && l == x.Y {
				positive = true // 0 < len(e) written with len on the right
			}
			zero := (op == token.LSS && isIntLit(k, "1")) || (op == token.LEQ && isIntLit(k, "0"))
			if op == token.EQL && isIntLit(k, "0") && l == x.Y {
				zero = true // 0 == len(e)
			}
			if positive {
				c.mark("exprRules")
				return &ast.BinaryExpr{X: l, OpPos: x.OpPos, Op: token.GTR, Y: &ast.BasicLit{ValuePos: k.Pos(), Kind: token.INT, Value: "0"}}
			}
			if zero {
				c.mark("exprRules")
				return &ast.BinaryExpr{X: l, OpPos: x.OpPos, Op: token.EQL, Y: &ast.BasicLit{ValuePos: k.Pos(), Kind: token.INT, Value: "0"}}
			}
		}
		return e
	})
}

// ruleZeroDecl: `x := false` -> `var x bool`, `x := ""` -> `var x string`, `x := 0` -> `var x int`
// (the last unless the profile keeps it).
// Sound because a short variable declaration with one new name and an untyped constant declares
// a variable of the constant's default type (bool, string, int) initialised to that constant, and
// `var x T` declares the same variable initialised to T's zero value, which is that constant;
// scope and evaluation are identical. Checked: false / bool / int / string are the universe objects.
func (c *normCtx) ruleZeroDecl(list []ast.Stmt, _ listCtx) []ast.Stmt {
	for i, s := range list {
		as, ok := s.(*ast.AssignStmt)
		if !ok || as.Tok != token.DEFINE || len(as.Lhs) != 1 || len(as.Rhs) != 1 {
			continue
		}
		id, ok := as.Lhs[0].(*ast.Ident)
		if !ok || id.Name == "_" {
			continue
		}
		typ := ""
		switch r := as.Rhs[0].(type) {
		case *ast.Ident:
			if c.isUniverse(r, "false") {
				typ = "bool"
			}
		case *ast.BasicLit:
			if r.Kind == token.INT && r.Value == "0" && !c.prof.keepIntShort && !c.prof.shortIntDecl {
				typ = "int"
			}
			if r.Kind == token.STRING && (r.Value == `""` || r.Value == "``") {
				typ = "string"
			}
		}
		if typ == "" || !c.universeFree(typ) {
			continue
		}
		list[i] = &ast.DeclStmt{Decl: &ast.GenDecl{TokPos: as.Pos(), Tok: token.VAR, Specs: []ast.Spec{
			&ast.ValueSpec{Names: []*ast.Ident{id}, Type: &ast.Ident{NamePos: as.Rhs[0].Pos(), Name: typ}},
		}}}
		c.mark("ruleZeroDecl")
	}
	return list
}

// ruleIfNegation: `if !c { A } else { B }` -> `if c { B } else { A }`; with the profile eqFirst
// also `if a != b { A } else { B }` -> `if a == b { B } else { A }`.
// Sound because c (resp. the comparison, whose operands are evaluated once, in the same order) is
// evaluated once in both forms and exactly the same branch bodies run: a == b is true exactly
// when a != b is false, for every comparable operand type; the init statement, if any, stays in
// place and its scope covers both branches either way.
func (c *normCtx) ruleIfNegation(fd *ast.FuncDecl) {
	ast.Inspect(fd.Body, func(n ast.Node) bool {
		is, ok := n.(*ast.IfStmt)
		if !ok || is.Else == nil {
			return true
		}
		var pos ast.Expr // the condition of the rewritten statement
		if c.prof.notFirstBool {
			// the opposite direction, for a condition that is a bare boolean VARIABLE (go/types):
			// reading it has no effect and cannot panic; `!v` is true exactly when v is false, so
			// the same branch bodies run. `if !c {…} else {…}` is left as written.
			id, ok := unparen(is.Cond).(*ast.Ident)
			if !ok {
				return true
			}
			if _, isVar := c.objOf(id).(*types.Var); !isVar {
				return true
			}
			pos = &ast.UnaryExpr{OpPos: id.Pos(), Op: token.NOT, X: id}
		} else if u, ok := unparen(is.Cond).(*ast.UnaryExpr); ok && u.Op == token.NOT {
			pos = unparen(u.X)
		} else if b, ok := unparen(is.Cond).(*ast.BinaryExpr); ok && b.Op == token.NEQ && c.prof.eqFirst {
			pos = negate(b) // a == b: the exact negation of a != b (see negate)
		} else {
			return true
		}
		var elseBlock *ast.BlockStmt
		switch e := is.Else.(type) {
		case *ast.BlockStmt:
			elseBlock = e
		default:
			elseBlock = &ast.BlockStmt{Lbrace: e.Pos(), List: []ast.Stmt{e}, Rbrace: e.End()}
		}
		is.Cond = pos
		is.Body, is.Else = elseBlock, is.Body
		c.mark("ruleIfNegation")
		return true
	})
}

// ruleElseIf: `else if c {…}` -> `else { if c {…} }` (the library never writes `else if`).
// Sound because `else if` is by definition an if statement as the else branch; wrapping it in a
// block adds a scope that declares nothing.
func (c *normCtx) ruleElseIf(fd *ast.FuncDecl) {
	ast.Inspect(fd.Body, func(n ast.Node) bool {
		is, ok := n.(*ast.IfStmt)
		if !ok {
			return true
		}
		if e, ok := is.Else.(*ast.IfStmt); ok {
			is.Else = &ast.BlockStmt{Lbrace: e.Pos(), List: []ast.Stmt{e}, Rbrace: e.End()}
			c.mark("ruleElseIf")
		}
		return true
	})
}

// ruleReturnFlip: `if !c { return A }; return B` -> `if c { return B }; return A`, and
// `if a != b { return A }; return B` -> `if a == b { return B }; return A`.
// Sound because the condition is evaluated once, and exactly one of the two return statements is
// executed in either form — the same one for the same value of the condition (negate is exact).
// Checked: the if has no init and no else, its body is exactly one return statement, and the
// statement right after it is a return.
// Round 4: `if err == nil { return A }; return B` -> `if err != nil { return B }; return A` when err
// is an identifier whose static type is the predeclared interface `error` (go/types). Same
// argument (comparing an interface value with nil neither panics nor has an effect; exactly one
// of the two returns runs, the same one for the same err). Canonical direction: the library tests
// an error for `!= nil` first in every such pair; other nil tests stay as written.
func (c *normCtx) ruleReturnFlip(list []ast.Stmt, _ listCtx) []ast.Stmt {
	for i := 0; i+1 < len(list); i++ {
		is, ok := list[i].(*ast.IfStmt)
		if !ok || is.Init != nil || is.Else != nil || len(is.Body.List) != 1 {
			continue
		}
		r1, ok1 := is.Body.List[0].(*ast.ReturnStmt)
		r2, ok2 := list[i+1].(*ast.ReturnStmt)
		if !ok1 || !ok2 {
			continue
		}
		neg := false
		switch x := unparen(is.Cond).(type) {
		case *ast.UnaryExpr:
			neg = x.Op == token.NOT
		case *ast.BinaryExpr:
			// comparisons with nil are left as written: the library uses both `x == nil` and
			// `x != nil` in this position, so neither is canonical — except for a variable of
			// type error, which is tested `!= nil` first
			neg = x.Op == token.NEQ && !isNilIdent(x.X) && !isNilIdent(x.Y)
			if x.Op == token.EQL && (c.isErrorVar(x.X) && isNilIdent(x.Y) || c.isErrorVar(x.Y) && isNilIdent(x.X)) {
				neg = true
			}
		}
		if !neg {
			continue
		}
		is.Cond = negate(is.Cond)
		is.Body.List[0], list[i+1] = r2, r1
		c.mark("ruleReturnFlip")
	}
	return list
}

// isErrorVar: e is an identifier denoting a variable whose static type is the predeclared `error`.
func (c *normCtx) isErrorVar(e ast.Expr) bool {
	id, ok := e.(*ast.Ident)
	if !ok {
		return false
	}
	v, ok := c.objOf(id).(*types.Var)
	return ok && types.Identical(v.Type(), types.Universe.Lookup("error").Type())
}

// ruleSplitAnd: `if a && b { S }` (no else) -> `if a { if b { S } }`.
// Sound because && evaluates b only when a is true, which is exactly when the inner if is
// reached; S runs iff both are true; there is no else branch that would have to be duplicated.
// An init statement stays on the outer if and still scopes over everything.
func (c *normCtx) ruleSplitAnd(list []ast.Stmt, _ listCtx) []ast.Stmt {
	if c.prof.keepAndCond {
		return list
	}
	for _, s := range list {
		is, ok := s.(*ast.IfStmt)
		if !ok || is.Else != nil {
			continue
		}
		b, ok := unparen(is.Cond).(*ast.BinaryExpr)
		if !ok || b.Op != token.LAND {
			continue
		}
		inner := &ast.IfStmt{If: b.Y.Pos(), Cond: unparen(b.Y), Body: is.Body}
		is.Cond = unparen(b.X)
		is.Body = &ast.BlockStmt{Lbrace: is.Body.Lbrace, List: []ast.Stmt{inner}, Rbrace: is.Body.Rbrace}
		c.mark("ruleSplitAnd")
	}
	return list
}

// ruleLoopContinue: as the LAST statement of a loop body,
// `if A { S } else if B {…}…` -> `if A { S; continue }; if B {…}…`   (also for `else { if B … }`).
// Sound because nothing follows the statement in the loop body, so after S control reaches the end
// of the body either way (for a 3-clause loop the post statement runs after `continue` as well);
// the rest of the chain is executed exactly when A is false. Checked: no init statement on the
// if (its scope would not cover the hoisted rest); the if sits directly in the loop body, so the
// `continue` binds to that loop; S does not already end in a jump.
func (c *normCtx) ruleLoopContinue(list []ast.Stmt, ctx listCtx) []ast.Stmt {
	if ctx.kind != lkLoop || len(list) == 0 {
		return list
	}
	is, ok := list[len(list)-1].(*ast.IfStmt)
	if !ok || is.Else == nil {
		return list
	}
	if is.Init != nil {
		return c.loopElseContinue(list)
	}
	var rest *ast.IfStmt
	switch e := is.Else.(type) {
	case *ast.IfStmt:
		rest = e
	case *ast.BlockStmt:
		if len(e.List) == 1 {
			rest, _ = e.List[0].(*ast.IfStmt)
		}
	}
	if rest == nil {
		return c.loopElseContinue(list)
	}
	if !endsTerminating(is.Body.List) {
		is.Body.List = append(is.Body.List, &ast.BranchStmt{TokPos: is.Body.Rbrace, Tok: token.CONTINUE})
	}
	is.Else = nil
	c.mark("ruleLoopContinue")
	return append(list, rest)
}

// loopElseContinue (profile loopElseContinue only): as the LAST statement of a loop body,
// `if [init;] A { S } else { T… }` -> `if [init;] A { S; continue }; T…`.
// Sound because nothing follows the statement in the loop body: after S control reaches the end of
// the body either way, T… runs exactly when A is false. Checked: the if sits directly in the loop
// body (the `continue` binds to that loop); S does not already end in a jump; T… lies outside the
// scope of the init statement afterwards, so it must not mention a name the init statement
// declares; the names T… declares at its top level move into the loop body's scope: they are
// declared nowhere else in the function; no labels or goto in the function.
func (c *normCtx) loopElseContinue(list []ast.Stmt) []ast.Stmt {
	if !c.prof.loopElseContinue || c.fn == nil {
		return list
	}
	is := list[len(list)-1].(*ast.IfStmt)
	eb, ok := is.Else.(*ast.BlockStmt)
	if !ok || len(eb.List) == 0 || hasLabelsOrGoto(c.fn) || endsTerminating(is.Body.List) {
		return list
	}
	if !c.movableOut(eb.List, is.Init, nil) {
		return list
	}
	is.Body.List = append(is.Body.List, &ast.BranchStmt{TokPos: is.Body.Rbrace, Tok: token.CONTINUE})
	is.Else = nil
	c.mark("ruleLoopContinue")
	return append(list, eb.List...)
}

// movableOut: the statements b, now the else block of an if statement with init statement init,
// can be moved behind that if statement, in front of the statements after. Checked: b mentions
// no name declared by init; every name b declares at its top level is declared exactly once in
// the function and is not mentioned in after (which would otherwise come into its scope).
func (c *normCtx) movableOut(b []ast.Stmt, init ast.Stmt, after []ast.Stmt) bool {
	if c.fn == nil {
		return false
	}
	if init != nil {
		for name := range declaredNames(init) {
			for _, s := range b {
				if countIdent(s, name) > 0 {
					return false
				}
			}
		}
	}
	dn := declaredNames(c.fn)
	for _, s := range b {
		var top map[string]int
		switch d := s.(type) {
		case *ast.AssignStmt, *ast.DeclStmt, *ast.LabeledStmt:
			top = declaredNames(d)
		}
		for name := range top {
			if dn[name] != 1 {
				return false
			}
			for _, a := range after {
				if countIdent(a, name) > 0 {
					return false
				}
			}
		}
	}
	return true
}

// ruleLoopBreakFlip: at the END of a loop body,
//
//	if c { S…; continue }; T…; J        ->   if !c { T…; J }; S…
//
// with J an unlabeled `break` or a `return` (so `continue` is never moved the other way: the rule
// has one direction and its result does not match its own pattern).
// Sound because c is evaluated once in both forms. When c holds, the old form runs S… and
// `continue`s: the rest of the body is skipped and the loop goes on with its post statement /
// next element — exactly what falling off the end of the body does, and in the new form S… are
// the last statements of the body. When c does not hold both forms run T…; J, and J leaves the
// body, so S… is not reached. Unlabeled break / continue inside S… and T… bind to the same loop
// (an if statement is not a break target). Checked: the list is the body of a for / range
// statement; the if has no init and no else; its block ends in an unlabeled `continue`; the
// statements after it end in J; no labels or goto anywhere in the function; the names S…
// declares at its top level are declared once in the function (movableOut: leaving the block
// they neither clash with nor capture anything); T… only moves INTO a block, and nothing follows it.
func (c *normCtx) ruleLoopBreakFlip(list []ast.Stmt, ctx listCtx) []ast.Stmt {
	if ctx.kind != lkLoop || c.fn == nil || hasLabelsOrGoto(c.fn) {
		return list
	}
	for i := 0; i+1 < len(list); i++ {
		is, ok := list[i].(*ast.IfStmt)
		if !ok || is.Init != nil || is.Else != nil || len(is.Body.List) == 0 {
			continue
		}
		br, ok := is.Body.List[len(is.Body.List)-1].(*ast.BranchStmt)
		if !ok || br.Tok != token.CONTINUE || br.Label != nil {
			continue
		}
		rest := list[i+1:]
		switch j := rest[len(rest)-1].(type) {
		case *ast.ReturnStmt:
		case *ast.BranchStmt:
			if j.Tok != token.BREAK || j.Label != nil {
				continue
			}
		default:
			continue
		}
		body := is.Body.List[:len(is.Body.List)-1]
		if !c.movableOut(body, nil, nil) {
			continue
		}
		is.Cond = negate(is.Cond)
		is.Body = &ast.BlockStmt{Lbrace: is.Body.Lbrace, List: append([]ast.Stmt(nil), rest...), Rbrace: is.Body.Rbrace}
		out := append([]ast.Stmt(nil), list[:i+1]...)
		out = append(out, body...)
		c.mark("ruleLoopBreakFlip")
		return out
	}
	return list
}

// noPanicExpr: identifiers, basic literals, len / cap (the builtins) of such, parentheses: evaluating
// it cannot panic, has no effect and calls nothing.
func (c *normCtx) noPanicExpr(e ast.Expr) bool {
	switch x := e.(type) {
	case *ast.Ident, *ast.BasicLit:
		return true
	case *ast.ParenExpr:
		return c.noPanicExpr(x.X)
	case *ast.CallExpr:
		if len(x.Args) == 1 && (c.isBuiltin(x.Fun, "len") || c.isBuiltin(x.Fun, "cap")) {
			return c.noPanicExpr(x.Args[0])
		}
	}
	return false
}

// ruleJoinDefs (profile joinDefs only): `x := E1; y := E2` -> `x, y := E1, E2`.
// Sound because — all checked — x and y are two different names, both NEWLY declared by these
// statements (go/types: definitions) and not blank; E2 does not mention x and E1 does not mention
// y, so each right-hand side denotes the same thing whether or not the other variable is already
// in scope; neither side contains a call, closure or receive (impureIn), so nothing observable
// happens between the two evaluations and their relative order does not matter; at least one of
// them cannot panic (noPanicExpr), so the only possible panic is the same one, raised before
// anything else happens. Each variable gets the type of its own initialiser in both forms.
// The scopes of x and y then start at the same statement instead of one statement apart; nothing
// lies in between. A profile rule: the library spells such pairs both ways, the canonical form is
// chosen by the generator that reads the function (syntaxerr: the parallel form).
func (c *normCtx) ruleJoinDefs(list []ast.Stmt, _ listCtx) []ast.Stmt {
	if !c.prof.joinDefs {
		return list
	}
	for i := 0; i+1 < len(list); i++ {
		a, ok1 := list[i].(*ast.AssignStmt)
		b, ok2 := list[i+1].(*ast.AssignStmt)
		if !ok1 || !ok2 || a.Tok != token.DEFINE || b.Tok != token.DEFINE ||
			len(a.Lhs) != 1 || len(a.Rhs) != 1 || len(b.Lhs) != 1 || len(b.Rhs) != 1 {
			continue
		}
		x, okx := a.Lhs[0].(*ast.Ident)
		y, oky := b.Lhs[0].(*ast.Ident)
		if !okx || !oky || x.Name == "_" || y.Name == "_" || x.Name == y.Name || !c.isNewDef(x) || !c.isNewDef(y) {
			continue
		}
		if countIdent(b.Rhs[0], x.Name) > 0 || countIdent(a.Rhs[0], y.Name) > 0 {
			continue
		}
		if c.impureIn(a.Rhs[0]) || c.impureIn(b.Rhs[0]) || !(c.noPanicExpr(a.Rhs[0]) || c.noPanicExpr(b.Rhs[0])) {
			continue
		}
		a.Lhs = append(a.Lhs, y)
		a.Rhs = append(a.Rhs, b.Rhs[0])
		out := append([]ast.Stmt(nil), list[:i+1]...)
		c.mark("ruleJoinDefs")
		return append(out, list[i+2:]...)
	}
	return list
}

// ruleElseAfterJump: `if c { A…; J } else { B… }; rest` with J a return, break, continue, goto or
// panic(…) -> `if c { A…; J }; B…; rest`.
// Sound because control never flows from the end of the then-block to the statement after the if,
// so B… is executed exactly when c is false — as before — and rest after B… — as before.
// Checked: no init statement; movableOut for the scopes (B…'s declarations become visible to
// rest: rest must not mention those names); no labels or goto in the function.
func (c *normCtx) ruleElseAfterJump(list []ast.Stmt, _ listCtx) []ast.Stmt {
	if c.fn == nil {
		return list
	}
	for i, s := range list {
		is, ok := s.(*ast.IfStmt)
		if !ok || is.Init != nil || is.Else == nil || !endsTerminating(is.Body.List) {
			continue
		}
		if !c.realJump(is.Body.List[len(is.Body.List)-1]) || hasLabelsOrGoto(c.fn) {
			continue
		}
		var b []ast.Stmt
		switch e := is.Else.(type) {
		case *ast.BlockStmt:
			b = e.List
		default:
			b = []ast.Stmt{e}
		}
		if !c.movableOut(b, nil, list[i+1:]) {
			continue
		}
		is.Else = nil
		out := append([]ast.Stmt(nil), list[:i+1]...)
		out = append(out, b...)
		out = append(out, list[i+1:]...)
		c.mark("ruleElseAfterJump")
		return out
	}
	return list
}

// realJump: s is a return, an unlabeled break / continue, or a call of the builtin panic (checked
// with go/types: endsTerminating only looks at the name).
func (c *normCtx) realJump(s ast.Stmt) bool {
	switch x := s.(type) {
	case *ast.ReturnStmt:
		return true
	case *ast.BranchStmt:
		return x.Label == nil && (x.Tok == token.BREAK || x.Tok == token.CONTINUE)
	case *ast.ExprStmt:
		if call, ok := x.X.(*ast.CallExpr); ok {
			return c.isBuiltin(call.Fun, "panic")
		}
	}
	return false
}

// ruleSwitchToIf: `switch { case c1: A; case c2, c3: B; default: C }` -> `if c1 {A} else if c2 || c3 {B} else {C}`.
// Sound because an expression-less switch is `switch true`: the case expressions are evaluated top
// to bottom, left to right, and the first true one selects its clause; `default` is taken iff none
// is true wherever it is written. Checked: no init statement, no label on the switch, no
// `fallthrough`, no `break` that binds to the switch, at least one case clause.
func (c *normCtx) ruleSwitchToIf(list []ast.Stmt, _ listCtx) []ast.Stmt {
	for i, s := range list {
		sw, ok := s.(*ast.SwitchStmt)
		if !ok || sw.Tag != nil || sw.Init != nil {
			continue
		}
		var cases []*ast.CaseClause
		var def *ast.CaseClause
		bad := false
		for _, cl := range sw.Body.List {
			cc := cl.(*ast.CaseClause)
			if hasFreeBreak(cc.Body) {
				bad = true
			}
			for _, b := range cc.Body {
				if br, ok := b.(*ast.BranchStmt); ok && br.Tok == token.FALLTHROUGH {
					bad = true
				}
			}
			if cc.List == nil {
				def = cc
			} else {
				cases = append(cases, cc)
			}
		}
		if bad || len(cases) == 0 {
			continue
		}
		var chain ast.Stmt
		if def != nil {
			chain = &ast.BlockStmt{Lbrace: def.Pos(), List: def.Body, Rbrace: def.End()}
		}
		for k := len(cases) - 1; k >= 0; k-- {
			cc := cases[k]
			cond := cc.List[0]
			for _, e := range cc.List[1:] {
				cond = &ast.BinaryExpr{X: cond, OpPos: e.Pos(), Op: token.LOR, Y: e}
			}
			body := cc.Body
			if body == nil {
				body = []ast.Stmt{}
			}
			chain = &ast.IfStmt{If: cc.Pos(), Cond: cond, Body: &ast.BlockStmt{Lbrace: cc.Colon, List: body, Rbrace: cc.End()}, Else: chain}
		}
		list[i] = chain
		c.mark("ruleSwitchToIf")
	}
	return list
}

// typeRank orders the clause types of a type switch: the decoded-JSON types in the library's
// conventional order first; every other type keeps its relative position.
func typeRank(s string) int {
	for i, t := range []string{"map[string]interface{}", "[]interface{}", "float64", "json.Number", "bool", "string", "nil"} {
		if s == t {
			return i
		}
	}
	return 100
}

// ruleTypeSwitchOrder: the clauses of a type switch are put in a canonical order: clauses with a
// body first (by typeRank of their first type, otherwise in source order), clauses with an empty
// body next, `default` last.
// Sound because — checked with go/types — every case lists only concrete (non-interface) types or
// nil, and all listed types of the switch are pairwise different: a dynamic type then matches at
// most one clause, so the order in which clauses are tried cannot matter; `default` runs iff no
// clause matches, wherever it stands; type switches have no fallthrough; the per-clause binding
// (`v := x.(type)`) is clause-local.
func (c *normCtx) ruleTypeSwitchOrder(fd *ast.FuncDecl) {
	ast.Inspect(fd.Body, func(n ast.Node) bool {
		ts, ok := n.(*ast.TypeSwitchStmt)
		if !ok {
			return true
		}
		var all []types.Type
		nils := 0
		for _, cl := range ts.Body.List {
			for _, e := range cl.(*ast.CaseClause).List {
				if c.isUniverse(e, "nil") {
					nils++
					continue
				}
				if !c.isTypeExpr(e) {
					return true
				}
				t := c.typeOf(e)
				if t == nil || types.IsInterface(t) {
					return true
				}
				if _, isParam := t.(*types.TypeParam); isParam {
					return true
				}
				all = append(all, t)
			}
		}
		if nils > 1 {
			return true
		}
		for i := range all {
			for j := i + 1; j < len(all); j++ {
				if types.Identical(all[i], all[j]) {
					return true
				}
			}
		}
		key := func(s ast.Stmt) [3]int {
			cc := s.(*ast.CaseClause)
			if cc.List == nil {
				return [3]int{1, 0, 0}
			}
			if len(cc.Body) == 0 {
				return [3]int{0, 1, 0}
			}
			return [3]int{0, 0, typeRank(c.str(cc.List[0]))}
		}
		old := append([]ast.Stmt(nil), ts.Body.List...)
		sort.SliceStable(ts.Body.List, func(i, j int) bool {
			a, b := key(ts.Body.List[i]), key(ts.Body.List[j])
			for k := range a {
				if a[k] != b[k] {
					return a[k] < b[k]
				}
			}
			return false
		})
		for i := range old {
			if old[i] != ts.Body.List[i] {
				c.mark("ruleTypeSwitchOrder")
			}
		}
		return true
	})
}

// ruleVoidEarlyReturn: in the body of a function WITHOUT results,
// `if c { A; return }; B…` (B the rest of the body) -> `if c { A } else { B… }`, and with A empty
// -> `if !c { B… }`.
// Sound because after A the function returns, which is what falling off the end of the body does
// in a function without results (deferred calls run the same way); B runs iff c is false.
// Checked: the statement list is the function body itself; no init on the if (B would move into
// its scope), no else; no labels or goto in the function (B moves into a block).
func (c *normCtx) ruleVoidEarlyReturn(list []ast.Stmt, ctx listCtx) []ast.Stmt {
	if c.prof.keepVoidEarly {
		return list
	}
	if ctx.kind != lkFunc || ctx.ftype == nil || (ctx.ftype.Results != nil && len(ctx.ftype.Results.List) > 0) {
		return list
	}
	for i := len(list) - 1; i >= 0; i-- {
		is, ok := list[i].(*ast.IfStmt)
		if !ok || is.Init != nil || is.Else != nil || len(is.Body.List) == 0 {
			continue
		}
		ret, ok := is.Body.List[len(is.Body.List)-1].(*ast.ReturnStmt)
		if !ok || len(ret.Results) != 0 {
			continue
		}
		if hasLabelsOrGoto(ctx.owner) {
			return list
		}
		a := is.Body.List[:len(is.Body.List)-1]
		b := append([]ast.Stmt(nil), list[i+1:]...)
		// a trailing bare return of the function body is redundant in B
		if len(b) > 0 {
			if r, ok := b[len(b)-1].(*ast.ReturnStmt); ok && len(r.Results) == 0 {
				b = b[:len(b)-1]
			}
		}
		switch {
		case len(b) == 0:
			is.Body.List = a
		case len(a) == 0:
			is.Cond = negate(is.Cond)
			is.Body.List = b
		default:
			is.Body.List = a
			is.Else = &ast.BlockStmt{Lbrace: b[0].Pos(), List: b, Rbrace: b[len(b)-1].End()}
		}
		c.mark("ruleVoidEarlyReturn")
		return list[:i+1]
	}
	return list
}

func isNilIdent(e ast.Expr) bool {
	id, ok := unparen(e).(*ast.Ident)
	return ok && id.Name == "nil"
}

// leaves: below the statements there is a return, goto, or a labeled jump.
func leaves(list []ast.Stmt) bool {
	hit := false
	for _, s := range list {
		ast.Inspect(s, func(n ast.Node) bool {
			switch b := n.(type) {
			case *ast.FuncLit:
				return false
			case *ast.ReturnStmt:
				hit = true
			case *ast.BranchStmt:
				if b.Tok == token.GOTO || b.Label != nil {
					hit = true
				}
			}
			return !hit
		})
	}
	return hit
}

func simpleResult(e ast.Expr) bool {
	switch e.(type) {
	case *ast.Ident, *ast.BasicLit:
		return true
	}
	return false
}

// ruleTailMerge: at the end of a function body,
// `if c { A…; return e }; B…; return e` (A not empty, e an identifier or literal, the same text)
// -> `if c { A… } else { B… }; return e`   (only when neither A nor B contains a return or goto).
// Sound because both paths end by evaluating the same side-effect-free operand e after A resp. B
// and returning it. Checked: the list is the function body; no init / else on the if; e is not
// declared by a top-level statement of A or B (it would go out of scope); no labels or goto.
func (c *normCtx) ruleTailMerge(list []ast.Stmt, ctx listCtx) []ast.Stmt {
	if ctx.kind != lkFunc || len(list) < 2 {
		return list
	}
	last, ok := list[len(list)-1].(*ast.ReturnStmt)
	if !ok || len(last.Results) != 1 || !simpleResult(last.Results[0]) {
		return list
	}
	want := c.str(last.Results[0])
	for i := len(list) - 2; i >= 0; i-- {
		is, ok := list[i].(*ast.IfStmt)
		if !ok || is.Init != nil || is.Else != nil || len(is.Body.List) < 2 {
			continue
		}
		ret, ok := is.Body.List[len(is.Body.List)-1].(*ast.ReturnStmt)
		if !ok || len(ret.Results) != 1 || !simpleResult(ret.Results[0]) || c.str(ret.Results[0]) != want {
			continue
		}
		if hasLabelsOrGoto(ctx.owner) {
			return list
		}
		a := is.Body.List[:len(is.Body.List)-1]
		b := append([]ast.Stmt(nil), list[i+1:len(list)-1]...)
		if leaves(a) || leaves(b) {
			// only a plain diamond is merged: neither side may leave the function on its own
			continue
		}
		if id, isId := last.Results[0].(*ast.Ident); isId {
			declared := false
			for _, s := range append(append([]ast.Stmt(nil), a...), b...) {
				switch d := s.(type) {
				case *ast.AssignStmt:
					if d.Tok == token.DEFINE && countIdent(d, id.Name) > 0 {
						declared = true
					}
				case *ast.DeclStmt:
					if countIdent(d, id.Name) > 0 {
						declared = true
					}
				}
			}
			if declared {
				continue
			}
		}
		is.Body.List = a
		if len(b) > 0 {
			is.Else = &ast.BlockStmt{Lbrace: b[0].Pos(), List: b, Rbrace: b[len(b)-1].End()}
		}
		c.mark("ruleTailMerge")
		return append(list[:i+1:i+1], last)
	}
	return list
}

// funcDeclOf finds the declaration (in the type-checked package) of a package-level function or
// method object.
func (c *normCtx) funcDeclOf(obj types.Object) *ast.FuncDecl {
	for _, n := range c.pkg.names {
		for _, d := range c.pkg.files[n].Decls {
			if fd, ok := d.(*ast.FuncDecl); ok && c.pkg.info.Defs[fd.Name] == obj {
				return fd
			}
		}
	}
	return nil
}

func mentionsRecover(n ast.Node) bool {
	hit := false
	ast.Inspect(n, func(x ast.Node) bool {
		if id, ok := x.(*ast.Ident); ok && id.Name == "recover" {
			hit = true
		}
		return !hit
	})
	return hit
}

// ruleDeferClosure: `defer f(a, b)` -> `defer func() { f(a, b) }()`.
// Sound because — checked — f is a function DECLARED at package level in this package (not a
// variable, not a builtin, not a method value: nothing is evaluated for it at defer time, it
// cannot be nil), its body does not mention recover (recover only works when called directly by
// the deferred function, and the closure adds a frame), the call is not variadic-spread, and every
// argument is a stableLocal of the enclosing function: a local whose value is the same at defer
// time and when the deferred call runs. Results of f are discarded in both forms; the deferred
// call runs at the same moment (function exit, also on panic).
func (c *normCtx) ruleDeferClosure(list []ast.Stmt, _ listCtx) []ast.Stmt {
	for _, s := range list {
		ds, ok := s.(*ast.DeferStmt)
		if !ok || ds.Call.Ellipsis.IsValid() {
			continue
		}
		fid, ok := ds.Call.Fun.(*ast.Ident)
		if !ok {
			continue
		}
		fobj, ok := c.objOf(fid).(*types.Func)
		if !ok || fobj.Pkg() != c.pkg.pkg || fobj.Parent() != c.pkg.pkg.Scope() {
			continue
		}
		decl := c.funcDeclOf(fobj)
		if decl == nil || decl.Body == nil || mentionsRecover(decl.Body) {
			continue
		}
		good := true
		for _, a := range ds.Call.Args {
			id, ok := a.(*ast.Ident)
			if !ok || !c.stableLocal(id) {
				good = false
			}
		}
		if !good {
			continue
		}
		inner := ds.Call
		ds.Call = &ast.CallExpr{
			Fun: &ast.FuncLit{
				Type: &ast.FuncType{Func: inner.Pos(), Params: &ast.FieldList{Opening: inner.Pos(), Closing: inner.Pos()}},
				Body: &ast.BlockStmt{Lbrace: inner.Pos(), List: []ast.Stmt{&ast.ExprStmt{X: inner}}, Rbrace: inner.End()},
			},
			Lparen: inner.End(), Rparen: inner.End(),
		}
		c.mark("ruleDeferClosure")
	}
	return list
}

// ---- range value -> index expression

// earlyScan decides whether every use of the range value variable x happens before anything in
// the iteration could have changed the element it was copied from.
type earlyScan struct {
	c  *normCtx
	x  types.Object
	ok bool
	// harmless, when set, replaces localScalarStore as the test "a store to this operand cannot
	// change what the scan protects"; strictDefine makes a `:=` that re-assigns an existing
	// variable count as a store to it (ruleHeaderAlias sets both).
	harmless     func(lhs ast.Expr) bool
	strictDefine bool
}

func (s *earlyScan) storeOK(lhs ast.Expr) bool {
	if s.harmless != nil {
		return s.harmless(lhs)
	}
	return s.localScalarStore(lhs)
}

// newDef: lhs is `_` or an identifier that this very statement declares (go/types: a definition).
func (s *earlyScan) newDef(lhs ast.Expr) bool { return s.c.isNewDef(lhs) }

func (c *normCtx) isNewDef(lhs ast.Expr) bool {
	id, ok := lhs.(*ast.Ident)
	if !ok {
		return false
	}
	if id.Name == "_" {
		return true
	}
	t, ok := c.pair[id].(*ast.Ident)
	return ok && c.pkg.info.Defs[t] != nil
}

// localScalarStore: a store to lhs only changes a local variable that cannot be (part of) the
// backing store of a slice: a plain local identifier whose type is neither array nor struct.
func (s *earlyScan) localScalarStore(lhs ast.Expr) bool {
	id, ok := lhs.(*ast.Ident)
	if !ok {
		return false
	}
	if id.Name == "_" {
		return true
	}
	o := s.c.objOf(id)
	v, ok := o.(*types.Var)
	if !ok || !s.c.isLocalVar(id) {
		return false
	}
	switch v.Type().Underlying().(type) {
	case *types.Array, *types.Struct:
		return false
	}
	return true
}

// exprs: the expressions are evaluated (in some order) at a point where `dirty` says whether a
// memory write or call may already have happened in this iteration; returns the new dirty.
func (s *earlyScan) exprs(dirty bool, es ...ast.Expr) bool {
	uses, impure := false, false
	for _, e := range es {
		if e == nil {
			continue
		}
		if s.c.usesObj(e, s.x) {
			uses = true
		}
		if s.c.impureIn(e) {
			impure = true
		}
	}
	if uses && (dirty || impure) {
		s.ok = false
	}
	return dirty || impure
}

func (s *earlyScan) stmts(list []ast.Stmt, dirty bool) bool {
	for _, st := range list {
		dirty = s.stmt(st, dirty)
	}
	return dirty
}

func (s *earlyScan) stmt(st ast.Stmt, dirty bool) bool {
	if !s.ok {
		return true
	}
	switch x := st.(type) {
	case nil:
		return dirty
	case *ast.EmptyStmt:
		return dirty
	case *ast.ExprStmt:
		return s.exprs(dirty, x.X)
	case *ast.AssignStmt:
		// operands of both sides are evaluated before any store of this statement
		all := append(append([]ast.Expr(nil), x.Rhs...), x.Lhs...)
		d := s.exprs(dirty, all...)
		for _, l := range x.Lhs {
			if x.Tok == token.DEFINE && (!s.strictDefine || s.newDef(l)) {
				continue // new locals
			}
			if !s.storeOK(l) {
				d = true
			}
		}
		return d
	case *ast.IncDecStmt:
		d := s.exprs(dirty, x.X)
		if !s.storeOK(x.X) {
			d = true
		}
		return d
	case *ast.DeclStmt:
		gd, ok := x.Decl.(*ast.GenDecl)
		if !ok {
			s.ok = false
			return true
		}
		d := dirty
		for _, sp := range gd.Specs {
			if vs, ok := sp.(*ast.ValueSpec); ok {
				d = s.exprs(d, vs.Values...)
			}
		}
		return d
	case *ast.BlockStmt:
		return s.stmts(x.List, dirty)
	case *ast.IfStmt:
		d := s.stmt(x.Init, dirty)
		d = s.exprs(d, x.Cond)
		d1 := s.stmts(x.Body.List, d)
		d2 := d
		if x.Else != nil {
			d2 = s.stmt(x.Else, d)
		}
		return d1 || d2
	case *ast.SwitchStmt:
		d := s.stmt(x.Init, dirty)
		d = s.exprs(d, x.Tag)
		out := d
		for _, cl := range x.Body.List {
			cc := cl.(*ast.CaseClause)
			d = s.exprs(d, cc.List...) // case expressions are evaluated in sequence
			if s.stmts(cc.Body, d) {
				out = true
			}
		}
		return out || d
	case *ast.TypeSwitchStmt:
		d := s.stmt(x.Init, dirty)
		d = s.stmt(x.Assign, d)
		out := d
		for _, cl := range x.Body.List {
			if s.stmts(cl.(*ast.CaseClause).Body, d) {
				out = true
			}
		}
		return out
	case *ast.ForStmt, *ast.RangeStmt:
		// a nested loop: a use of x in it may follow (by the back edge) anything in it
		loopDirty := s.c.impureIn(x) || s.c.hasMemoryStore(x, s)
		if s.c.usesObj(x, s.x) && (dirty || loopDirty) {
			s.ok = false
		}
		return dirty || loopDirty
	case *ast.ReturnStmt:
		s.exprs(dirty, x.Results...)
		return dirty
	case *ast.BranchStmt:
		if x.Label != nil {
			s.ok = false
		}
		return dirty
	}
	// labeled, go, defer, send, select, …: not analysed
	if s.c.usesObj(st, s.x) {
		s.ok = false
	}
	return true
}

// hasMemoryStore: below n there is an assignment / inc-dec whose target is not a local scalar.
func (c *normCtx) hasMemoryStore(n ast.Node, s *earlyScan) bool {
	hit := false
	ast.Inspect(n, func(x ast.Node) bool {
		switch y := x.(type) {
		case *ast.AssignStmt:
			for _, l := range y.Lhs {
				if y.Tok == token.DEFINE && (!s.strictDefine || s.newDef(l)) {
					continue
				}
				if !s.storeOK(l) {
					hit = true
				}
			}
		case *ast.IncDecStmt:
			if !s.storeOK(y.X) {
				hit = true
			}
		case *ast.RangeStmt:
			if y.Tok == token.ASSIGN {
				hit = true
			}
		}
		return !hit
	})
	return hit
}

// headerStableThroughPointer: for a range over `*p`: no statement of the body can change the
// slice header stored at *p. Checked: the body makes no call (len / cap / conversions aside), has
// no closure, go, defer, send or receive; every store in it goes to storage whose static type
// cannot hold a variable of the header's type (cannotHold), or to a local variable that is not of
// that type — a local can only be *p itself if it has exactly the header's type.
func (c *normCtx) headerStableThroughPointer(body *ast.BlockStmt, header types.Type) bool {
	if c.impureIn(body) {
		return false
	}
	ok := true
	check := func(l ast.Expr) {
		if id, isId := l.(*ast.Ident); isId && id.Name == "_" {
			return
		}
		if !cannotHold(c.typeOf(l), header) {
			ok = false
		}
	}
	ast.Inspect(body, func(x ast.Node) bool {
		switch y := x.(type) {
		case *ast.AssignStmt:
			if y.Tok != token.DEFINE {
				for _, l := range y.Lhs {
					check(l)
				}
			}
		case *ast.IncDecStmt:
			check(y.X)
		case *ast.RangeStmt:
			if y.Tok == token.ASSIGN {
				ok = false
			}
		}
		return ok
	})
	return ok
}

// ruleRangeValue: `for i, x := range X { … x … }` -> `for i := range X { … X[i] … }`.
// Sound because — all checked —
//   - X is `id` or `*id` with id a stableLocal, and X has slice type (go/types): a range over a
//     slice evaluates X once and reads element i from that header at the start of iteration i;
//     it does not copy the elements (arrays, strings, maps, channels, functions are excluded);
//   - the header read by X[i] is that same header: for `id`, id is never assigned nor addressed in
//     the function; for `*id`, additionally nothing in the body can store to *id
//     (headerStableThroughPointer). Hence i is in range of X and X[i] cannot panic;
//   - i and x are not assigned, not addressed and not captured by a closure in the body;
//   - every use of x is reached before any store to memory other than scalar locals and before any
//     call in the same iteration (earlyScan), so X[i] still holds the value x was copied from.
func (c *normCtx) ruleRangeValue(fd *ast.FuncDecl) {
	ast.Inspect(fd.Body, func(n ast.Node) bool {
		rs, ok := n.(*ast.RangeStmt)
		if !ok || rs.Tok != token.DEFINE || rs.Key == nil || rs.Value == nil {
			return true
		}
		ki, ok1 := rs.Key.(*ast.Ident)
		vi, ok2 := rs.Value.(*ast.Ident)
		if !ok1 || !ok2 || ki.Name == "_" || vi.Name == "_" {
			return true
		}
		xt := c.typeOf(rs.X)
		if xt == nil {
			return true
		}
		if _, isSlice := xt.Underlying().(*types.Slice); !isSlice {
			return true
		}
		var base *ast.Ident
		viaPtr := false
		switch x := unparen(rs.X).(type) {
		case *ast.Ident:
			base = x
		case *ast.StarExpr:
			base, _ = unparen(x.X).(*ast.Ident)
			viaPtr = true
		}
		if base == nil || !c.stableLocal(base) {
			return true
		}
		if viaPtr && !c.headerStableThroughPointer(rs.Body, xt) {
			return true
		}
		kobj, vobj := c.objOf(ki), c.objOf(vi)
		if kobj == nil || vobj == nil {
			return true
		}
		if c.writtenOrAddressed(rs.Body, ki.Name) || c.writtenOrAddressed(rs.Body, vi.Name) {
			return true
		}
		captured := false
		ast.Inspect(rs.Body, func(x ast.Node) bool {
			if fl, ok := x.(*ast.FuncLit); ok {
				if c.usesObj(fl, vobj) || c.usesObj(fl, kobj) {
					captured = true
				}
			}
			return !captured
		})
		if captured {
			return true
		}
		// every occurrence of the name must be a typed use of the variable (no untyped clone)
		// (so the name is not re-declared inside the body either)
		if c.countObj(rs.Body, vobj) != countIdent(rs.Body, vi.Name) || c.countObj(rs.Body, kobj) != countIdent(rs.Body, ki.Name) {
			return true
		}
		sc := &earlyScan{c: c, x: vobj, ok: true}
		sc.stmts(rs.Body.List, false)
		if !sc.ok {
			return true
		}
		var xexpr ast.Expr = base
		if viaPtr {
			xexpr = &ast.ParenExpr{Lparen: rs.X.Pos(), X: rs.X, Rparen: rs.X.End()}
			if _, already := rs.X.(*ast.ParenExpr); already {
				xexpr = rs.X
			}
		}
		repl := &ast.IndexExpr{X: xexpr, Lbrack: rs.X.End(), Index: ki, Rbrack: rs.X.End()}
		c.substObj(rs.Body, vobj, repl)
		rs.Value = nil
		c.mark("ruleRangeValue")
		return true
	})
}

// ruleLenLocal: `n := len(xs)` … n … -> … len(xs) …  (declaration removed).
// Sound because — checked — xs is a stableLocal of slice, string or array type (go/types): its
// header never changes after its declaration, so len(xs) is the same number wherever it is
// evaluated (maps and channels are excluded: their length changes); n is a stableLocal too, so it
// always holds that number; len of such an operand has no side effect and cannot panic.
func (c *normCtx) ruleLenLocal(list []ast.Stmt, _ listCtx) []ast.Stmt {
	if c.prof.keepLenLocals {
		return list
	}
	for i, s := range list {
		as, ok := s.(*ast.AssignStmt)
		if !ok || as.Tok != token.DEFINE || len(as.Lhs) != 1 || len(as.Rhs) != 1 {
			continue
		}
		n, ok := as.Lhs[0].(*ast.Ident)
		if !ok || n.Name == "_" {
			continue
		}
		call, ok := as.Rhs[0].(*ast.CallExpr)
		if !ok || len(call.Args) != 1 || !c.isBuiltin(call.Fun, "len") {
			continue
		}
		xs, ok := call.Args[0].(*ast.Ident)
		if !ok || !c.stableLocal(xs) || !c.stableLocal(n) {
			continue
		}
		switch t := c.typeOf(xs).Underlying().(type) {
		case *types.Slice, *types.Array:
		case *types.Basic:
			if t.Info()&types.IsString == 0 {
				continue
			}
		default:
			continue
		}
		nobj := c.objOf(n)
		rest := list[i+1:]
		uses, names := 0, 0
		for _, r := range rest {
			uses += c.countObj(r, nobj)
			names += countIdent(r, n.Name)
		}
		if nobj == nil || uses != names {
			continue
		}
		for _, r := range rest {
			c.substObj(r, nobj, call)
		}
		c.mark("ruleLenLocal")
		return append(list[:i:i], rest...)
	}
	return list
}

// rulePtrLocal: as the first statement of the then-block of `if len(x) > 0 {`,
// `p := &x[0]; … p.f …` -> `… x[0].f …`  (declaration removed).
// Sound because — checked — x is a stableLocal of slice type whose length was just tested to be
// positive with nothing in between, so &x[0] cannot panic and has no effect; p is a stableLocal,
// used only as the operand of FIELD selections p.f (go/types: a field, not a method), and p.f is
// (*p).f, the field f of the variable x[0]; x[0] denotes that same variable at every later point
// because x's header never changes. Reads and writes through p.f and x[0].f therefore hit the same
// memory at the same moments.
func (c *normCtx) rulePtrLocal(list []ast.Stmt, ctx listCtx) []ast.Stmt {
	if ctx.guard == nil || len(list) == 0 || ctx.guard.Init != nil {
		return list
	}
	as, ok := list[0].(*ast.AssignStmt)
	if !ok || as.Tok != token.DEFINE || len(as.Lhs) != 1 || len(as.Rhs) != 1 {
		return list
	}
	p, ok := as.Lhs[0].(*ast.Ident)
	if !ok || p.Name == "_" {
		return list
	}
	u, ok := as.Rhs[0].(*ast.UnaryExpr)
	if !ok || u.Op != token.AND {
		return list
	}
	ix, ok := u.X.(*ast.IndexExpr)
	if !ok || !isIntLit(ix.Index, "0") {
		return list
	}
	x, ok := ix.X.(*ast.Ident)
	if !ok {
		return list
	}
	// guard: len(x) > 0  (the canonical form produced by exprRules)
	g, ok := unparen(ctx.guard.Cond).(*ast.BinaryExpr)
	if !ok || g.Op != token.GTR || !isIntLit(g.Y, "0") {
		return list
	}
	gc, ok := g.X.(*ast.CallExpr)
	if !ok || len(gc.Args) != 1 || !c.isBuiltin(gc.Fun, "len") {
		return list
	}
	gx, ok := gc.Args[0].(*ast.Ident)
	if !ok || gx.Name != x.Name || c.objOf(gx) == nil || c.objOf(gx) != c.objOf(x) {
		return list
	}
	if t := c.typeOf(x); t == nil {
		return list
	} else if _, isSlice := t.Underlying().(*types.Slice); !isSlice {
		return list
	}
	// stableLocal(x) would reject x because of this very `&x[0]`… it does not: &x[0] on a slice
	// addresses an element, not the variable x (see writtenOrAddressed).
	if !c.stableLocal(x) || !c.stableLocal(p) {
		return list
	}
	pobj := c.objOf(p)
	if pobj == nil {
		return list
	}
	rest := list[1:]
	total, asField, names := 0, 0, 0
	for _, r := range rest {
		total += c.countObj(r, pobj)
		names += countIdent(r, p.Name)
		ast.Inspect(r, func(n ast.Node) bool {
			se, ok := n.(*ast.SelectorExpr)
			if !ok {
				return true
			}
			id, ok := se.X.(*ast.Ident)
			if !ok || c.objOf(id) != pobj {
				return true
			}
			if ts, ok := c.pair[se].(*ast.SelectorExpr); ok {
				if sel := c.pkg.info.Selections[ts]; sel != nil && sel.Kind() == types.FieldVal {
					asField++
				}
			}
			return true
		})
	}
	if total == 0 || total != asField || total != names {
		return list
	}
	for _, r := range rest {
		c.substObj(r, pobj, ix)
	}
	c.mark("rulePtrLocal")
	return rest
}

// guardedFirstElem: list is the then-block of `if len(x) > 0 {` (no init) and its first statement
// is `v := <op>x[0]` with x an identifier of slice type denoting the guard's variable; returns v,
// the right-hand side and x. op is "" or "&".
func (c *normCtx) guardedFirstElem(list []ast.Stmt, ctx listCtx, addr bool) (v *ast.Ident, ix *ast.IndexExpr, x *ast.Ident) {
	if ctx.guard == nil || len(list) == 0 || ctx.guard.Init != nil {
		return nil, nil, nil
	}
	as, ok := list[0].(*ast.AssignStmt)
	if !ok || as.Tok != token.DEFINE || len(as.Lhs) != 1 || len(as.Rhs) != 1 {
		return nil, nil, nil
	}
	v, ok = as.Lhs[0].(*ast.Ident)
	if !ok || v.Name == "_" {
		return nil, nil, nil
	}
	rhs := as.Rhs[0]
	if addr {
		u, ok := rhs.(*ast.UnaryExpr)
		if !ok || u.Op != token.AND {
			return nil, nil, nil
		}
		rhs = u.X
	}
	ix, ok = rhs.(*ast.IndexExpr)
	if !ok || !isIntLit(ix.Index, "0") {
		return nil, nil, nil
	}
	x, ok = ix.X.(*ast.Ident)
	if !ok {
		return nil, nil, nil
	}
	g, ok := unparen(ctx.guard.Cond).(*ast.BinaryExpr)
	if !ok || g.Op != token.GTR || !isIntLit(g.Y, "0") {
		return nil, nil, nil
	}
	gc, ok := g.X.(*ast.CallExpr)
	if !ok || len(gc.Args) != 1 || !c.isBuiltin(gc.Fun, "len") {
		return nil, nil, nil
	}
	gx, ok := gc.Args[0].(*ast.Ident)
	if !ok || gx.Name != x.Name || c.objOf(gx) == nil || c.objOf(gx) != c.objOf(x) {
		return nil, nil, nil
	}
	if t := c.typeOf(x); t == nil {
		return nil, nil, nil
	} else if _, isSlice := t.Underlying().(*types.Slice); !isSlice {
		return nil, nil, nil
	}
	return v, ix, x
}

func isComposite(t types.Type) bool {
	if t == nil {
		return true // unknown: assume the worst
	}
	switch t.Underlying().(type) {
	case *types.Struct, *types.Array:
		return true
	}
	return false
}

// fieldSel: e is a field selection `X.f` (go/types: FieldVal); returns the selection.
func (c *normCtx) fieldSel(e ast.Expr) *types.Selection {
	se, ok := e.(*ast.SelectorExpr)
	if !ok {
		return nil
	}
	ts, ok := c.pair[se].(*ast.SelectorExpr)
	if !ok {
		return nil
	}
	sel := c.pkg.info.Selections[ts]
	if sel == nil || sel.Kind() != types.FieldVal {
		return nil
	}
	return sel
}

// fieldParent: the struct type that directly declares the field picked by sel.
func fieldParent(sel *types.Selection) *types.Struct {
	t := sel.Recv()
	idx := sel.Index()
	for k, i := range idx {
		if p, ok := t.Underlying().(*types.Pointer); ok {
			t = p.Elem()
		}
		st, ok := t.Underlying().(*types.Struct)
		if !ok || i >= st.NumFields() {
			return nil
		}
		if k == len(idx)-1 {
			return st
		}
		t = st.Field(i).Type()
	}
	return nil
}

// ruleElemLocal: as the first statements of the then-block of `if len(x) > 0 {`,
// `v := x[0]; L1 = v.f1; …; Ln = v.fn` (v used nowhere else) -> `L1 = x[0].f1; …; Ln = x[0].fn`.
// Sound because — all checked —
//   - x is a stableLocal of slice type whose length was just tested to be positive, so x[0] cannot
//     panic, now or later (x's header never changes), and denotes the same variable every time;
//   - v is a stableLocal whose only uses are the right-hand sides v.fi of the n assignments that
//     directly follow its declaration, each a FIELD selection: v.fi is the value x[0].fi had when v
//     was copied;
//   - that is still the value of x[0].fi when assignment i runs: the only things executed in between
//     are the evaluations of L1 … Li (pureExpr: no calls) and the stores to L1 … L(i-1). Such a store
//     cannot change x[0].fi: both are variables of non-composite type (no struct, no array), so they
//     overlap only if they are the SAME variable, and then the structs directly containing them
//     would be the same variable too — excluded, because those two struct types are not identical
//     (not even ignoring tags, so no pointer conversion can make one alias the other). A store to Lj
//     cannot change the header of x either (x is never assigned: stableLocal; Lj is not rooted in x
//     or v by pureExpr + stableLocal).
func (c *normCtx) ruleElemLocal(list []ast.Stmt, ctx listCtx) []ast.Stmt {
	v, ix, x := c.guardedFirstElem(list, ctx, false)
	if v == nil || !c.stableLocal(x) || !c.stableLocal(v) {
		return list
	}
	vobj := c.objOf(v)
	if vobj == nil || isComposite(c.typeOf(x)) {
		return list
	}
	rest := list[1:]
	total, names := 0, 0
	for _, r := range rest {
		total += c.countObj(r, vobj)
		names += countIdent(r, v.Name)
	}
	if total == 0 || total != names || total > len(rest) {
		return list
	}
	for k := 0; k < total; k++ {
		as, ok := rest[k].(*ast.AssignStmt)
		if !ok || as.Tok != token.ASSIGN || len(as.Lhs) != 1 || len(as.Rhs) != 1 {
			return list
		}
		// right-hand side: v.f, a field of non-composite type
		rs := c.fieldSel(as.Rhs[0])
		if rs == nil {
			return list
		}
		if id, ok := as.Rhs[0].(*ast.SelectorExpr).X.(*ast.Ident); !ok || c.objOf(id) != vobj {
			return list
		}
		// left-hand side: a pure field selection of non-composite type in a different struct type
		lhs := as.Lhs[0]
		ls := c.fieldSel(lhs)
		if ls == nil || !pureExpr(lhs) || c.usesObj(lhs, vobj) || c.usesObj(lhs, c.objOf(x)) {
			return list
		}
		if isComposite(c.typeOf(lhs)) || isComposite(c.typeOf(as.Rhs[0])) {
			return list
		}
		lp, rp := fieldParent(ls), fieldParent(rs)
		if lp == nil || rp == nil || types.IdenticalIgnoreTags(lp, rp) {
			return list
		}
	}
	for k := 0; k < total; k++ {
		c.substObj(rest[k], vobj, ix)
	}
	c.mark("ruleElemLocal")
	return rest
}

// nilPanicOnly: identifiers, basic literals, field selections, dereferences, parentheses — no
// calls, no indexing, no conversions, no arithmetic: evaluating e has no effect, and the only way
// it can fail is a nil-pointer dereference (always the same run-time error value).
func (c *normCtx) nilPanicOnly(e ast.Expr) bool {
	switch x := e.(type) {
	case *ast.Ident:
		return !c.isTypeExpr(x)
	case *ast.BasicLit:
		return true
	case *ast.ParenExpr:
		return c.nilPanicOnly(x.X)
	case *ast.StarExpr:
		return !c.isTypeExpr(x) && c.nilPanicOnly(x.X)
	case *ast.SelectorExpr:
		if c.fieldSel(x) != nil {
			return c.nilPanicOnly(x.X)
		}
		// a qualified identifier pkg.Name: a package-level variable, constant or function
		if id, ok := x.X.(*ast.Ident); ok {
			if _, isPkg := c.objOf(id).(*types.PkgName); isPkg {
				return true
			}
		}
	}
	return false
}

// ruleFwdLocal: `v := E; return f(a1, …, an)` with v one of the ai (or `return v`), v used nowhere
// else -> `return f(a1, …, E, …, an)`.
// Sound because — all checked — E, f and every ai are nilPanicOnly expressions: no calls, stores,
// indexing or arithmetic, so evaluating them in any order has no effect and reads the same
// values (nothing is stored between the declaration of v and the call); the only possible failure
// of any of them is a nil dereference, which is the same run-time panic whichever operand raises
// it first; the call of f happens after all operands are evaluated in both forms. v is declared
// once, used exactly once (in that return statement, not inside a closure: there is none), and
// the return directly follows the declaration and ends the list. E is not a constant (a
// constant's type could depend on its new context); v has exactly E's type.
func (c *normCtx) ruleFwdLocal(list []ast.Stmt, _ listCtx) []ast.Stmt {
	if len(list) < 2 || c.fn == nil {
		return list
	}
	i := len(list) - 2
	as, ok := list[i].(*ast.AssignStmt)
	ret, ok2 := list[i+1].(*ast.ReturnStmt)
	if !ok || !ok2 || as.Tok != token.DEFINE || len(as.Lhs) != 1 || len(as.Rhs) != 1 || len(ret.Results) != 1 {
		return list
	}
	v, ok := as.Lhs[0].(*ast.Ident)
	if !ok || v.Name == "_" || !c.isLocalVar(v) {
		return list
	}
	e := as.Rhs[0]
	if !c.nilPanicOnly(e) || !pureExpr(e) {
		return list
	}
	te, ok := c.pair[e].(ast.Expr)
	if !ok {
		return list
	}
	if tv, ok := c.pkg.info.Types[te]; !ok || tv.Value != nil || tv.IsNil() || tv.IsType() || !tv.IsValue() {
		return list
	}
	vobj := c.objOf(v)
	if vobj == nil || !types.Identical(vobj.Type(), c.typeOf(e)) {
		return list
	}
	// exactly two occurrences of the name in the function: the declaration and one use in ret
	if declaredNames(c.fn)[v.Name] != 1 || countIdent(c.fn, v.Name) != 2 || c.countObj(ret, vobj) != 1 {
		return list
	}
	operands := []ast.Expr{ret.Results[0]}
	if call, ok := ret.Results[0].(*ast.CallExpr); ok && !call.Ellipsis.IsValid() && !c.isTypeExpr(call.Fun) {
		if id, isId := call.Fun.(*ast.Ident); isId {
			if _, builtin := c.objOf(id).(*types.Builtin); builtin {
				return list
			}
		}
		operands = append([]ast.Expr{call.Fun}, call.Args...)
	}
	direct := false
	for _, o := range operands {
		if !c.nilPanicOnly(o) {
			return list
		}
		if id, ok := o.(*ast.Ident); ok && c.objOf(id) == vobj {
			direct = true
		}
	}
	if !direct {
		return list
	}
	c.substObj(ret, vobj, e)
	c.mark("ruleFwdLocal")
	return append(list[:i:i], ret)
}

// ruleHeaderAlias: `k := E; *p = k; … k …` -> `*p = E; … (*p) …`  (declaration of k removed).
// Sound because — all checked —
//   - p is a stableLocal of pointer type, so `*p` names the same variable at every point; k is a
//     stableLocal with exactly the type of *p, which is not a struct or array type (so the only
//     store that can change *p is a store to a variable of that very type, or to a struct / array
//     containing one: cannotHold);
//   - `*p = E` evaluates E, then stores: the same as `k := E; *p = k` (E cannot mention k; a nil p
//     panics after E is evaluated in both forms);
//   - right after the store, *p == k. Every later use of k is reached before anything that could
//     change *p (earlyScan: no call, closure, go, defer, send, receive, and no store — `:=` that
//     re-assigns included — to storage that can hold a variable of that type); k itself never
//     changes. So reading (*p) there yields k's value;
//   - k is used only as a value (the substitution is by object; every occurrence of the name is
//     such a use; no closure captures it).
func (c *normCtx) ruleHeaderAlias(list []ast.Stmt, _ listCtx) []ast.Stmt {
	for i := 0; i+1 < len(list); i++ {
		d, ok := list[i].(*ast.AssignStmt)
		st, ok2 := list[i+1].(*ast.AssignStmt)
		if !ok || !ok2 || d.Tok != token.DEFINE || len(d.Lhs) != 1 || len(d.Rhs) != 1 ||
			st.Tok != token.ASSIGN || len(st.Lhs) != 1 || len(st.Rhs) != 1 {
			continue
		}
		k, ok := d.Lhs[0].(*ast.Ident)
		if !ok || k.Name == "_" {
			continue
		}
		star, ok := st.Lhs[0].(*ast.StarExpr)
		if !ok {
			continue
		}
		p, ok := star.X.(*ast.Ident)
		rk, ok2 := st.Rhs[0].(*ast.Ident)
		if !ok || !ok2 || !c.stableLocal(p) || !c.stableLocal(k) {
			continue
		}
		kobj := c.objOf(k)
		if kobj == nil || c.objOf(rk) != kobj || c.objOf(p) == kobj {
			continue
		}
		tp := c.typeOf(p)
		if tp == nil {
			continue
		}
		pt, ok := tp.Underlying().(*types.Pointer)
		if !ok || isComposite(pt.Elem()) || !types.Identical(pt.Elem(), kobj.Type()) {
			continue
		}
		if countIdent(d.Rhs[0], k.Name) > 0 {
			continue
		}
		header := pt.Elem()
		rest := list[i+2:]
		uses, names := 0, 0
		captured := false
		for _, r := range rest {
			uses += c.countObj(r, kobj)
			names += countIdent(r, k.Name)
			ast.Inspect(r, func(n ast.Node) bool {
				if fl, ok := n.(*ast.FuncLit); ok && countIdent(fl, k.Name) > 0 {
					captured = true
				}
				return !captured
			})
		}
		if uses != names || captured {
			continue
		}
		sc := &earlyScan{c: c, x: kobj, ok: true, strictDefine: true}
		sc.harmless = func(l ast.Expr) bool {
			if id, isId := l.(*ast.Ident); isId && id.Name == "_" {
				return true
			}
			return cannotHold(c.typeOf(l), header)
		}
		sc.stmts(rest, false)
		if !sc.ok {
			continue
		}
		repl := &ast.ParenExpr{Lparen: star.Pos(), X: c.cloneExpr(star), Rparen: star.End()}
		for _, r := range rest {
			c.substObj(r, kobj, repl)
		}
		st.Rhs[0] = d.Rhs[0]
		c.mark("ruleHeaderAlias")
		out := append([]ast.Stmt(nil), list[:i]...)
		return append(out, list[i+1:]...)
	}
	return list
}

// ruleHeaderRead: `*p = E; k := *p; … k …` -> `*p = E; … (*p) …`  (declaration of k removed) — the
// mirror image of ruleHeaderAlias: the local is a copy read back right AFTER the store.
// Sound because — all checked, with the same analyses as ruleHeaderAlias —
//   - p is a stableLocal of pointer type, so `*p` names the same variable at every point; k is a
//     stableLocal with exactly the type of *p, which is not a struct or array type;
//   - the statement right before the declaration stores to `*p` through that same p: had p been
//     nil it would have panicked there, so neither `k := *p` nor any later `(*p)` can panic on the
//     dereference — dropping the read changes no panic, and moving it to the uses adds none;
//   - right after the declaration *p == k. Every use of k is reached before anything that could
//     change *p (earlyScan: no call, closure, go, defer, send, receive, and no store — `:=` that
//     re-assigns included — to storage that can hold a variable of that type; inside a loop that
//     mentions k the whole loop must be free of those); k itself never changes. For a slice
//     header this means `k[i] = v` and `(*p)[i] = v` have the same bounds check and write the
//     same element of the same backing array (an element store cannot change a header: cannotHold);
//   - k is used only as a value, by object, and no closure captures it.
func (c *normCtx) ruleHeaderRead(list []ast.Stmt, _ listCtx) []ast.Stmt {
	for i := 0; i+1 < len(list); i++ {
		st, ok := list[i].(*ast.AssignStmt)
		d, ok2 := list[i+1].(*ast.AssignStmt)
		if !ok || !ok2 || d.Tok != token.DEFINE || len(d.Lhs) != 1 || len(d.Rhs) != 1 ||
			st.Tok != token.ASSIGN || len(st.Lhs) != 1 || len(st.Rhs) != 1 {
			continue
		}
		k, ok := d.Lhs[0].(*ast.Ident)
		if !ok || k.Name == "_" {
			continue
		}
		star, ok := st.Lhs[0].(*ast.StarExpr)
		rstar, ok2 := d.Rhs[0].(*ast.StarExpr)
		if !ok || !ok2 {
			continue
		}
		p, ok := star.X.(*ast.Ident)
		rp, ok2 := rstar.X.(*ast.Ident)
		if !ok || !ok2 || !c.stableLocal(p) || !c.stableLocal(k) {
			continue
		}
		kobj, pobj := c.objOf(k), c.objOf(p)
		if kobj == nil || pobj == nil || c.objOf(rp) != pobj || pobj == kobj {
			continue
		}
		tp := c.typeOf(p)
		if tp == nil {
			continue
		}
		pt, ok := tp.Underlying().(*types.Pointer)
		if !ok || isComposite(pt.Elem()) || !types.Identical(pt.Elem(), kobj.Type()) {
			continue
		}
		header := pt.Elem()
		rest := list[i+2:]
		uses, names := 0, 0
		captured := false
		for _, r := range rest {
			uses += c.countObj(r, kobj)
			names += countIdent(r, k.Name)
			ast.Inspect(r, func(n ast.Node) bool {
				if fl, ok := n.(*ast.FuncLit); ok && countIdent(fl, k.Name) > 0 {
					captured = true
				}
				return !captured
			})
		}
		if uses != names || captured {
			continue
		}
		sc := &earlyScan{c: c, x: kobj, ok: true, strictDefine: true}
		sc.harmless = func(l ast.Expr) bool {
			if id, isId := l.(*ast.Ident); isId && id.Name == "_" {
				return true
			}
			return cannotHold(c.typeOf(l), header)
		}
		sc.stmts(rest, false)
		if !sc.ok {
			continue
		}
		repl := &ast.ParenExpr{Lparen: star.Pos(), X: c.cloneExpr(star), Rparen: star.End()}
		for _, r := range rest {
			c.substObj(r, kobj, repl)
		}
		c.mark("ruleHeaderRead")
		out := append([]ast.Stmt(nil), list[:i+1]...)
		return append(out, rest...)
	}
	return list
}

// trivialCall: call is x.m(…) where m is a method (go/types) all of whose implementations in the
// package are `return <call-free expression>` (normMethodsTrivial): it stores and calls nothing.
func (c *normCtx) trivialCall(call *ast.CallExpr) bool {
	se, ok := call.Fun.(*ast.SelectorExpr)
	if !ok {
		return false
	}
	ts, ok := c.pair[se].(*ast.SelectorExpr)
	if !ok {
		return false
	}
	sel := c.pkg.info.Selections[ts]
	if sel == nil || sel.Kind() != types.MethodVal || sel.Obj().Pkg() != c.pkg.pkg {
		return false
	}
	name := se.Sel.Name
	if c.pkg.trivial == nil {
		c.pkg.trivial = map[string]bool{}
	}
	v, known := c.pkg.trivial[name]
	if !known {
		v = normMethodsTrivial(filepath.Dir(c.fset.Position(c.file.Package).Filename), name)
		c.pkg.trivial[name] = v
	}
	return v
}

// effectFree: below n nothing is called (except len, cap, conversions and trivialCalls), there is no
// closure, receive, go, defer, send or select.
func (c *normCtx) effectFree(n ast.Node) bool {
	if n == nil || reflect.ValueOf(n).IsNil() {
		return true
	}
	good := true
	ast.Inspect(n, func(x ast.Node) bool {
		switch y := x.(type) {
		case *ast.CallExpr:
			if !(c.isBuiltin(y.Fun, "len") || c.isBuiltin(y.Fun, "cap") || c.isTypeExpr(y.Fun) || c.trivialCall(y)) {
				good = false
			}
		case *ast.FuncLit, *ast.GoStmt, *ast.DeferStmt, *ast.SendStmt, *ast.SelectStmt:
			good = false
		case *ast.UnaryExpr:
			if y.Op == token.ARROW {
				good = false
			}
		}
		return good
	})
	return good
}

// aliasWalk replaces reads of the local y by its defining expression while that is provably
// still y's value (see ruleAliasRead).
type aliasWalk struct {
	c     *normCtx
	y     types.Object
	name  string
	def   ast.Expr   // X.f
	ftype types.Type // its type
	did   bool
}

// quiet: nothing below n can change y or the value of def: no effects (effectFree), no assignment
// to y, no store to storage that could hold a variable of def's type, no labels or jumps out.
func (w *aliasWalk) quiet(n ast.Node) bool {
	if n == nil || reflect.ValueOf(n).IsNil() {
		return true
	}
	if !w.c.effectFree(n) {
		return false
	}
	good := true
	store := func(l ast.Expr) {
		if id, ok := l.(*ast.Ident); ok && id.Name == "_" {
			return
		}
		if !cannotHold(w.c.typeOf(l), w.ftype) {
			good = false
		}
	}
	ast.Inspect(n, func(x ast.Node) bool {
		switch z := x.(type) {
		case *ast.AssignStmt:
			for _, l := range z.Lhs {
				if z.Tok == token.DEFINE && w.c.isNewDef(l) {
					continue // a variable declared here is neither y nor part of *X
				}
				store(l)
			}
		case *ast.IncDecStmt:
			store(z.X)
		case *ast.RangeStmt:
			if z.Tok == token.ASSIGN {
				good = false
			}
		case *ast.LabeledStmt:
			good = false
		case *ast.BranchStmt:
			if z.Tok == token.GOTO || z.Label != nil {
				good = false
			}
		}
		return good
	})
	return good
}

func (w *aliasWalk) subst(n ast.Node) {
	if n == nil || reflect.ValueOf(n).IsNil() {
		return
	}
	if w.c.countObj(n, w.y) > 0 {
		w.c.substObj(n, w.y, w.def)
		w.did = true
	}
}

// stmts walks a statement list in execution order; it returns whether the invariant y == def
// still holds after the list. Once it is lost nothing further is touched.
func (w *aliasWalk) stmts(list []ast.Stmt) bool {
	for _, st := range list {
		if !w.stmt(st) {
			return false
		}
	}
	return true
}

func (w *aliasWalk) stmt(st ast.Stmt) bool {
	switch x := st.(type) {
	case nil:
		return true
	case *ast.IfStmt:
		if x.Init != nil && !w.stmt(x.Init) {
			return false
		}
		if !w.quiet(x.Cond) {
			return false
		}
		w.subst(x.Cond)
		a := w.stmts(x.Body.List)
		b := true
		if x.Else != nil {
			b = w.stmt(x.Else)
		}
		return a && b
	case *ast.BlockStmt:
		return w.stmts(x.List)
	}
	if !w.quiet(st) {
		return false
	}
	w.subst(st)
	return true
}

// ruleAliasRead: `y := X.f; …` (f of slice type) — in the statements that follow, while nothing can
// have changed y or X.f, a read of y is replaced by X.f (the declaration stays: y is assigned later).
// Sound because — all checked —
//   - X is a stableLocal of pointer-to-struct type and f a field declared directly in that struct
//     (no embedded pointer in between): X.f names the same variable at every point, and as
//     `y := X.f` was executed without panic, X is not nil;
//   - y is a local that is never addressed and never mentioned in a closure, and every occurrence
//     of its name in the rest of the block denotes it; the function has no labels or goto (control
//     enters the statements after the declaration only through the declaration); it IS assigned somewhere (otherwise the
//     rule does not apply: locals that never change are the business of other rules);
//   - the walk (aliasWalk) follows the statements after the declaration in execution order
//     through if statements and blocks and replaces reads of y only as long as everything executed
//     since the declaration is `quiet`: no call other than len, cap, conversions and methods all of
//     whose implementations in the package are a bare `return <call-free expression>`
//     (normMethodsTrivial — they store nothing), no closure, go, defer, send, receive, no
//     assignment to y, and no store to storage that could hold a variable of f's type (cannotHold),
//     so X.f still holds the value copied into y. After an if statement the walk continues only if
//     both branches were quiet throughout. Loops, switches and any other statement are handled as
//     a unit: quiet as a whole, or the walk ends before them.
func (c *normCtx) ruleAliasRead(list []ast.Stmt, _ listCtx) []ast.Stmt {
	if c.fn == nil {
		return list
	}
	for i, s := range list {
		as, ok := s.(*ast.AssignStmt)
		if !ok || as.Tok != token.DEFINE || len(as.Lhs) != 1 || len(as.Rhs) != 1 {
			continue
		}
		y, ok := as.Lhs[0].(*ast.Ident)
		if !ok || y.Name == "_" || !c.isLocalVar(y) {
			continue
		}
		se, ok := as.Rhs[0].(*ast.SelectorExpr)
		if !ok {
			continue
		}
		x, ok := se.X.(*ast.Ident)
		sel := c.fieldSel(se)
		if !ok || sel == nil || len(sel.Index()) != 1 || !c.stableLocal(x) {
			continue
		}
		if pt, ok := c.typeOf(x).Underlying().(*types.Pointer); !ok {
			continue
		} else if _, isStruct := pt.Elem().Underlying().(*types.Struct); !isStruct {
			continue
		}
		yobj := c.objOf(y)
		ft := c.typeOf(se)
		if yobj == nil || ft == nil || isComposite(ft) || !types.Identical(ft, yobj.Type()) {
			continue
		}
		// which spelling is canonical (not a soundness matter): only slice headers are read through
		// the original field, scalars copied into a working variable (`index := i.number`) are not
		if _, isSlice := ft.Underlying().(*types.Slice); !isSlice {
			continue
		}
		if declaredNames(c.fn)[y.Name] != 1 || c.addressedOrCaptured(c.fn, y.Name) || !c.writtenOrAddressed(c.fn, y.Name) || hasLabelsOrGoto(c.fn) {
			continue
		}
		rest := list[i+1:]
		uses, names := 0, 0
		for _, r := range rest {
			uses += c.countObj(r, yobj)
			names += countIdent(r, y.Name)
		}
		if uses != names || uses == 0 {
			continue
		}
		w := &aliasWalk{c: c, y: yobj, name: y.Name, def: se, ftype: ft}
		w.stmts(rest)
		if w.did {
			c.mark("ruleAliasRead")
		}
	}
	return list
}

// ruleCopyLoop: `dst := make(T, len(src)); copy(dst, src)` -> `dst := make(T, len(src)); for index := range dst { dst[index] = src[index] }`.
// Sound because — checked — copy is the builtin, src is a pure operand (identifiers and field
// selections) of slice type, written identically in both places with nothing in between, so
// len(dst) == len(src) and copy transfers exactly elements 0 … len-1; dst is fresh from make, so
// source and destination do not overlap and the element-wise forward loop stores the same values;
// copy's element types are identical, so each assignment is well typed; indexes are in range of
// both slices. The result of copy is discarded. `index` is not otherwise declared in the function.
func (c *normCtx) ruleCopyLoop(list []ast.Stmt, _ listCtx) []ast.Stmt {
	if filepath.Base(c.fset.Position(c.file.Package).Filename) != normCopyLoopFile {
		return list
	}
	for i := 1; i < len(list); i++ {
		es, ok := list[i].(*ast.ExprStmt)
		if !ok {
			continue
		}
		call, ok := es.X.(*ast.CallExpr)
		if !ok || len(call.Args) != 2 || !c.isBuiltin(call.Fun, "copy") {
			continue
		}
		dst, ok := call.Args[0].(*ast.Ident)
		src := call.Args[1]
		if !ok || !pureExpr(src) {
			continue
		}
		if t := c.typeOf(src); t == nil {
			continue
		} else if _, isSlice := t.Underlying().(*types.Slice); !isSlice {
			continue
		}
		prev, ok := list[i-1].(*ast.AssignStmt)
		if !ok || prev.Tok != token.DEFINE || len(prev.Lhs) != 1 || len(prev.Rhs) != 1 {
			continue
		}
		pd, ok := prev.Lhs[0].(*ast.Ident)
		if !ok || pd.Name != dst.Name || c.objOf(pd) == nil || c.objOf(pd) != c.objOf(dst) {
			continue
		}
		mk, ok := prev.Rhs[0].(*ast.CallExpr)
		if !ok || len(mk.Args) != 2 || !c.isBuiltin(mk.Fun, "make") {
			continue
		}
		ln, ok := mk.Args[1].(*ast.CallExpr)
		if !ok || len(ln.Args) != 1 || !c.isBuiltin(ln.Fun, "len") || c.str(ln.Args[0]) != c.str(src) {
			continue
		}
		if c.fn == nil || declaredNames(c.fn)["index"] != 0 || c.pkg.pkg.Scope().Lookup("index") != nil {
			continue
		}
		pos := es.Pos()
		idx := func() *ast.Ident { return &ast.Ident{NamePos: pos, Name: "index"} }
		list[i] = &ast.RangeStmt{
			For: pos, Key: idx(), Tok: token.DEFINE, TokPos: pos,
			X: &ast.Ident{NamePos: pos, Name: dst.Name},
			Body: &ast.BlockStmt{Lbrace: pos, Rbrace: es.End(), List: []ast.Stmt{&ast.AssignStmt{
				Lhs:    []ast.Expr{&ast.IndexExpr{X: &ast.Ident{NamePos: pos, Name: dst.Name}, Lbrack: pos, Index: idx(), Rbrack: pos}},
				TokPos: pos, Tok: token.ASSIGN,
				Rhs: []ast.Expr{&ast.IndexExpr{X: c.cloneExpr(src), Lbrack: pos, Index: idx(), Rbrack: pos}},
			}}},
		}
		c.mark("ruleCopyLoop")
	}
	return list
}

// ruleComplement: `if a && b {X} else { if !a && !b {Y} … }` -> `… else { if a == b {Y} … }`.
// Sound because — checked — a and b are local variables of the same boolean type (go/types), read
// by plain identifier evaluation, and nothing is executed between the two conditions, so both see
// the same values; the else branch is reached only when a && b is false, and under that
// assumption `!a && !b` and `a == b` have the same truth table ((F,F) true, (T,F) and (F,T) false).
func (c *normCtx) ruleComplement(fd *ast.FuncDecl) {
	boolVar := func(e ast.Expr) *ast.Ident {
		id, ok := unparen(e).(*ast.Ident)
		if !ok || !c.isLocalVar(id) {
			return nil
		}
		if b, ok := c.typeOf(id).Underlying().(*types.Basic); !ok || b.Kind() != types.Bool {
			return nil
		}
		return id
	}
	ast.Inspect(fd.Body, func(n ast.Node) bool {
		is, ok := n.(*ast.IfStmt)
		if !ok || is.Else == nil {
			return true
		}
		cond, ok := unparen(is.Cond).(*ast.BinaryExpr)
		if !ok || cond.Op != token.LAND {
			return true
		}
		a, b := boolVar(cond.X), boolVar(cond.Y)
		if a == nil || b == nil || !types.Identical(c.typeOf(a), c.typeOf(b)) {
			return true
		}
		var inner *ast.IfStmt
		switch e := is.Else.(type) {
		case *ast.IfStmt:
			inner = e
		case *ast.BlockStmt:
			if len(e.List) == 1 {
				inner, _ = e.List[0].(*ast.IfStmt)
			}
		}
		if inner == nil || inner.Init != nil {
			return true
		}
		ic, ok := unparen(inner.Cond).(*ast.BinaryExpr)
		if !ok || ic.Op != token.LAND {
			return true
		}
		notOf := func(e ast.Expr) *ast.Ident {
			u, ok := unparen(e).(*ast.UnaryExpr)
			if !ok || u.Op != token.NOT {
				return nil
			}
			return boolVar(u.X)
		}
		na, nb := notOf(ic.X), notOf(ic.Y)
		if na == nil || nb == nil || c.objOf(na) != c.objOf(a) || c.objOf(nb) != c.objOf(b) || c.objOf(a) == c.objOf(b) {
			return true
		}
		inner.Cond = &ast.BinaryExpr{X: na, OpPos: ic.OpPos, Op: token.EQL, Y: nb}
		setPos(inner.Cond, inner.Pos())
		c.mark("ruleComplement")
		return true
	})
}

// ruleTailSplit: at the end of a function body, `if c { A } else { B }; return e` where A or B
// contains a return of its own (the complement of ruleTailMerge's domain), e an identifier or
// literal -> `if c { A; return e }; B; return e`.
// Sound because when c holds A runs and, unless it returns by itself, control reaches `return e`
// — evaluated after A in both forms; when c does not hold B runs followed by `return e` in both
// forms. Checked: no init on the if; the names B declares at its top level are declared nowhere
// else in the function (B's statements move into the enclosing block); no labels or goto.
func (c *normCtx) ruleTailSplit(list []ast.Stmt, ctx listCtx) []ast.Stmt {
	if ctx.kind != lkFunc || len(list) < 2 || c.fn == nil {
		return list
	}
	last, ok := list[len(list)-1].(*ast.ReturnStmt)
	if !ok || len(last.Results) != 1 || !simpleResult(last.Results[0]) {
		return list
	}
	is, ok := list[len(list)-2].(*ast.IfStmt)
	if !ok || is.Init != nil || is.Else == nil {
		return list
	}
	var b []ast.Stmt
	switch e := is.Else.(type) {
	case *ast.BlockStmt:
		b = e.List
	default:
		b = []ast.Stmt{e}
	}
	if !leaves(is.Body.List) && !leaves(b) {
		return list
	}
	if hasLabelsOrGoto(ctx.owner) {
		return list
	}
	dn := declaredNames(c.fn)
	for _, s := range b {
		for name, k := range declaredNames(s) {
			_ = k
			if dn[name] != 1 || countIdent(last, name) > 0 {
				return list // (the returned operand would come into the scope of B's declaration)
			}
		}
	}
	if !endsTerminating(is.Body.List) {
		r := c.clone(last).(*ast.ReturnStmt)
		setPos(r, is.Body.Rbrace)
		is.Body.List = append(is.Body.List, r)
	}
	is.Else = nil
	out := append([]ast.Stmt(nil), list[:len(list)-1]...)
	out = append(out, b...)
	out = append(out, last)
	c.mark("ruleTailSplit")
	return out
}

// ---- helper inlining (undoes "extract function")

// A helper is an unexported function or method of the package whose every use in the whole
// package is a call site that can be inlined — in whatever file it stands. Its call sites in the
// file being normalised are inlined, and if it is declared in this file the declaration is dropped
// from the generator's view; the other files are treated the same way when they are normalised
// (the decision is taken on the whole package each time). If any use cannot be inlined, nothing
// is done for that helper (the generator then refuses the call). A helper none of whose callers
// stands in the file that declares it is left alone: that is how the library itself is organised.

type normSite struct {
	caller *ast.FuncDecl
	call   *ast.CallExpr
	kind   int  // 1 `return h(…)`, 2 `h(…)` as a statement, 3 `if h(a) {…}`, 4 `if !h(a) {…}`
	local  bool // the caller is a function of the file being normalised
}

const normInlineRounds = 8

func helperCandidate(h *ast.FuncDecl) bool {
	return h.Body != nil && !ast.IsExported(h.Name.Name) && h.Name.Name != "init" && h.Name.Name != "main" && h.Name.Name != "_"
}

func (c *normCtx) inlineHelpers() {
	base := filepath.Base(c.fset.Position(c.file.Package).Filename)
	for round := 0; round < normInlineRounds; round++ {
		done := false
		// helpers declared in this file
		for _, d := range c.file.Decls {
			h, ok := d.(*ast.FuncDecl)
			if !ok || !helperCandidate(h) {
				continue
			}
			if c.inlineHelper(h, base) {
				done = true
				break // c.file.Decls changed
			}
		}
		// helpers declared in another file of the package and called in this one
		if !done {
			names := identNames(c.file)
			for _, n := range c.pkg.names {
				if n == base || done {
					continue
				}
				for _, d := range c.pkg.files[n].Decls {
					h, ok := d.(*ast.FuncDecl)
					if !ok || !helperCandidate(h) || !names[h.Name.Name] {
						continue
					}
					// the cheap tests of inlineHelper first: pairing a whole file costs time
					hobj, isFunc := c.pkg.info.Defs[h.Name].(*types.Func)
					if !isFunc || c.pkg.useCount[hobj] == 0 || c.pkg.identCount[h.Name.Name] != c.pkg.useCount[hobj]+1 ||
						c.pkg.fileIdents[n][h.Name.Name] < 2 || !helperBodyOK(h) {
						continue
					}
					c.pairIdentity(c.pkg.files[n])
					if c.inlineHelper(h, base) {
						done = true
						break
					}
				}
			}
		}
		if !done {
			return
		}
	}
}

// helperBodyOK: no construct whose meaning depends on the function boundary other than return.
func helperBodyOK(h *ast.FuncDecl) bool {
	if h.Type.TypeParams != nil {
		return false
	}
	if h.Type.Results != nil {
		for _, f := range h.Type.Results.List {
			if len(f.Names) > 0 {
				return false // named results
			}
		}
	}
	if h.Type.Params != nil {
		for _, f := range h.Type.Params.List {
			if _, variadic := f.Type.(*ast.Ellipsis); variadic {
				return false
			}
		}
	}
	ok := true
	ast.Inspect(h.Body, func(n ast.Node) bool {
		switch x := n.(type) {
		case *ast.DeferStmt, *ast.GoStmt, *ast.FuncLit, *ast.LabeledStmt, *ast.SelectStmt:
			ok = false
		case *ast.BranchStmt:
			if x.Tok == token.GOTO || x.Label != nil {
				ok = false
			}
		case *ast.Ident:
			if x.Name == "recover" || x.Name == h.Name.Name {
				ok = false // recover needs its own frame; recursion cannot be inlined away
			}
		}
		return ok
	})
	return ok
}

// inlineHelper: h is declared in the file being normalised (a node of the generator's AST) or in
// another file of the package (a node of the typed AST, paired with itself).
func (c *normCtx) inlineHelper(h *ast.FuncDecl, base string) bool {
	th, ok := c.pair[h.Name].(*ast.Ident)
	if !ok {
		return false
	}
	hobj, ok := c.pkg.info.Defs[th].(*types.Func)
	if !ok || !helperBodyOK(h) {
		return false
	}
	// every use of the helper in the package
	totalUses := c.pkg.useCount[hobj]
	if totalUses == 0 || c.pkg.identCount[h.Name.Name] != totalUses+1 {
		return false // unused, or the name also occurs elsewhere (interface method, field, …)
	}
	// (cheap pre-test of the rule at the end: the declaring file holds a use next to the declaration)
	if df := filepath.Base(c.pkg.fset.Position(th.Pos()).Filename); c.pkg.fileIdents[df][h.Name.Name] < 2 {
		return false
	}
	// the call sites, file by file: this file as the generator sees it, the others as type-checked
	var sites []normSite
	uses := 0
	hLocal, anyLocal := false, false
	hFile, callerFiles := "", map[string]bool{}
	for _, n := range c.pkg.names {
		local := n == base
		file := c.pkg.files[n]
		if local {
			file = c.file
		} else if c.pkg.fileIdents[n][h.Name.Name] == 0 {
			continue
		} else {
			c.pairIdentity(file)
		}
		for _, d := range file.Decls {
			fd, ok := d.(*ast.FuncDecl)
			if !ok || fd.Body == nil {
				continue
			}
			if fd == h {
				hLocal = local
				hFile = n
				continue
			}
			k := c.countObj(fd, hobj)
			if k == 0 {
				continue
			}
			callerFiles[n] = true
			uses += k
			for _, s := range c.findSites(fd, hobj) {
				s.local = local
				anyLocal = anyLocal || local
				sites = append(sites, s)
			}
		}
	}
	if uses != totalUses || len(sites) != totalUses || !(hLocal || anyLocal) {
		return false
	}
	// Which spelling is canonical (not a soundness matter): a helper that is called in the file that
	// declares it is taken to be a local extraction and is inlined; a helper none of whose callers
	// shares its file (putSortSlice, merge) is part of the library's own structure and is kept.
	if !callerFiles[hFile] {
		return false
	}
	pred := c.predicateHelper(h)
	for _, s := range sites {
		switch s.kind {
		case 1, 2:
			if !c.siteBindable(h, hobj, s) {
				return false
			}
		case 3, 4:
			if pred == nil || !c.predicateSiteOK(pred, s) {
				return false
			}
		}
	}
	// all sites are fine: rewrite those of this file
	for _, s := range sites {
		if !s.local {
			continue
		}
		c.fn = s.caller
		switch s.kind {
		case 1, 2:
			c.spliceBody(h, s, !hLocal)
		case 3, 4:
			c.splicePredicate(pred, s)
		}
		c.mark("inlineHelper " + h.Name.Name)
	}
	c.fn = nil
	if hLocal {
		var decls []ast.Decl
		for _, d := range c.file.Decls {
			if d != ast.Decl(h) {
				decls = append(decls, d)
			}
		}
		c.file.Decls = decls
		c.mark("inlineHelper(drop) " + h.Name.Name)
	}
	return true
}

func (c *normCtx) calleeIs(call *ast.CallExpr, hobj types.Object) bool {
	switch f := call.Fun.(type) {
	case *ast.Ident:
		return c.objOf(f) == hobj
	case *ast.SelectorExpr:
		return c.objOf(f.Sel) == hobj
	}
	return false
}

// findSites lists the calls of hobj in fd that stand in one of the four inlinable positions,
// outside function literals.
func (c *normCtx) findSites(fd *ast.FuncDecl, hobj types.Object) []normSite {
	var sites []normSite
	var walk func(n ast.Node)
	walk = func(n ast.Node) {
		ast.Inspect(n, func(x ast.Node) bool {
			switch s := x.(type) {
			case *ast.FuncLit:
				return false
			case *ast.ReturnStmt:
				if len(s.Results) == 1 {
					if call, ok := s.Results[0].(*ast.CallExpr); ok && c.calleeIs(call, hobj) {
						sites = append(sites, normSite{caller: fd, call: call, kind: 1})
					}
				}
			case *ast.ExprStmt:
				if call, ok := s.X.(*ast.CallExpr); ok && c.calleeIs(call, hobj) {
					sites = append(sites, normSite{caller: fd, call: call, kind: 2})
				}
			case *ast.IfStmt:
				if s.Init == nil && s.Else == nil {
					if call, ok := unparen(s.Cond).(*ast.CallExpr); ok && c.calleeIs(call, hobj) {
						sites = append(sites, normSite{caller: fd, call: call, kind: 3})
					} else if u, ok := unparen(s.Cond).(*ast.UnaryExpr); ok && u.Op == token.NOT {
						if call, ok := unparen(u.X).(*ast.CallExpr); ok && c.calleeIs(call, hobj) {
							sites = append(sites, normSite{caller: fd, call: call, kind: 4})
						}
					}
				}
			}
			return true
		})
	}
	walk(fd.Body)
	return sites
}

// addressedOrCaptured: the address of the variable name is taken in fn, or a function literal in
// fn mentions it — the only ways code outside fn's own statements can reach the variable.
func (c *normCtx) addressedOrCaptured(fn *ast.FuncDecl, name string) bool {
	hit := false
	ast.Inspect(fn, func(n ast.Node) bool {
		switch x := n.(type) {
		case *ast.FuncLit:
			if countIdent(x, name) > 0 {
				hit = true
			}
		case *ast.UnaryExpr:
			if x.Op == token.AND && countIdent(x.X, name) > 0 {
				hit = true
			}
		case *ast.SelectorExpr:
			// a pointer-receiver method called on the variable takes its address
			if id, ok := unparen(x.X).(*ast.Ident); ok && id.Name == name {
				if t := c.typeOf(id); t == nil {
					hit = true
				} else if _, isPtr := t.Underlying().(*types.Pointer); !isPtr {
					if _, isIface := t.Underlying().(*types.Interface); !isIface {
						if ts, ok := c.pair[x].(*ast.SelectorExpr); !ok {
							hit = true
						} else if sel := c.pkg.info.Selections[ts]; sel != nil && sel.Kind() != types.FieldVal {
							hit = true // conservatively: any method on a non-pointer, non-interface variable
						}
					}
				}
			}
		case *ast.SliceExpr:
			if t := c.typeOf(x.X); t == nil || func() bool { _, a := t.Underlying().(*types.Array); return a }() {
				if countIdent(x.X, name) > 0 {
					hit = true
				}
			}
		}
		return !hit
	})
	return hit
}

// helperParams lists (identifier or nil, type) of receiver and parameters in call order.
func helperParams(h *ast.FuncDecl) (ids []*ast.Ident, n int) {
	add := func(fl *ast.FieldList) {
		if fl == nil {
			return
		}
		for _, f := range fl.List {
			if len(f.Names) == 0 {
				ids = append(ids, nil)
			}
			ids = append(ids, f.Names...)
		}
	}
	add(h.Recv)
	add(h.Type.Params)
	return ids, len(ids)
}

// siteArgs: the receiver operand (for a method) followed by the arguments.
func siteArgs(h *ast.FuncDecl, call *ast.CallExpr) []ast.Expr {
	var args []ast.Expr
	if h.Recv != nil {
		sel, ok := call.Fun.(*ast.SelectorExpr)
		if !ok {
			return nil
		}
		args = append(args, sel.X)
	} else if _, ok := call.Fun.(*ast.Ident); !ok {
		return nil
	}
	return append(args, call.Args...)
}

// siteBindable checks the side conditions of spliceBody for one call site.
//
// Inlining `return h(a…)` (resp. the statement `h(a…)`) by h's body with parameters replaced by the
// arguments is sound because — all checked —
//   - h has no defer, go, closure, recover, label, goto, named result, variadic parameter and is
//     not recursive (helperBodyOK): its body means the same in the caller's frame, `return e` in it
//     returns e from the caller, which is what `return h(…)` does with h's result;
//   - for `return h(…)`: h and the caller both have exactly one result. Either the two result
//     types are identical (go/types), so e is converted to the same type in both programs; or every
//     `return e` of h returns a non-constant, non-nil e whose static type is exactly h's result type
//     T: then h's own return converts nothing, and the caller's `return h(…)` and the inlined
//     `return e` both convert a value of static type T to the caller's result type (an untyped
//     constant or nil would be converted differently, hence excluded). Every path through h's
//     body ends in a return (Go requires it), so nothing after the call site is reached;
//     for the statement form: h has no result and its body contains no return at all;
//   - every argument (and the receiver operand) is a plain local variable of the caller whose
//     type is identical to the parameter's type (no conversion happens at the call), whose address
//     is never taken and which no closure mentions (checked by NAME, so for every variable of that
//     name in the caller): nothing h calls can change it while h runs, so it holds the parameter's
//     value throughout; h never assigns to or takes the address of its parameters, so replacing a
//     parameter by that variable preserves every read;
//   - a method promoted through embedded fields, x.m(…) = x.E1.….Ek.m(…) (go/types: the selection's
//     index path): the receiver parameter is replaced by x.E1.….Ek, whose type must be identical to
//     the receiver type (no implicit & or *). This is sound under stricter conditions (pathRecvOK):
//     h's body is a single `return e` where e is built from identifiers, literals, field selections,
//     dereferences, composite literals and & of a composite literal only — no calls, no stores, no
//     && / ||: nothing can change x.E1.….Ek between the call and its uses, every part of e is
//     evaluated unconditionally, and e mentions the receiver at least once, so x.E1.….Ek is
//     evaluated (and a nil x panics) in the inlined form as at the original call; the only possible
//     failure anywhere in e is a nil dereference, the same run-time error whichever comes first;
//   - hygiene: the locals h declares are named unlike anything in the caller; every other name
//     in h's body (package-level objects, fields) is not declared anywhere in the caller, so it
//     resolves as it did inside h; the argument identifiers are spliced in at the position of the
//     call, where they denote the variables they denoted as arguments.
func (c *normCtx) siteBindable(h *ast.FuncDecl, hobj *types.Func, s normSite) bool {
	sig := hobj.Type().(*types.Signature)
	if s.call.Ellipsis.IsValid() {
		return false
	}
	args := siteArgs(h, s.call)
	ids, n := helperParams(h)
	if args == nil || len(args) != n {
		return false
	}
	var ptypes []types.Type
	if sig.Recv() != nil {
		ptypes = append(ptypes, sig.Recv().Type())
	}
	for i := 0; i < sig.Params().Len(); i++ {
		ptypes = append(ptypes, sig.Params().At(i).Type())
	}
	if len(ptypes) != n {
		return false
	}
	var path []string
	var pathType types.Type
	if h.Recv != nil {
		var ok bool
		path, _, pathType, ok = c.promotedPath(s.call)
		if !ok {
			return false
		}
		if len(path) > 0 && !c.pathRecvOK(h, ids[0]) {
			return false
		}
	}
	switch s.kind {
	case 1:
		if sig.Results().Len() != 1 {
			return false
		}
		res := s.caller.Type.Results
		if res == nil || len(res.List) != 1 || len(res.List[0].Names) > 1 {
			return false
		}
		rt := c.typeOf(res.List[0].Type)
		if rt == nil {
			return false
		}
		if !types.Identical(rt, sig.Results().At(0).Type()) && !c.returnsExactly(h, sig.Results().At(0).Type()) {
			return false
		}
	case 2:
		if sig.Results().Len() != 0 {
			return false
		}
		hasReturn := false
		ast.Inspect(h.Body, func(n ast.Node) bool {
			if _, ok := n.(*ast.ReturnStmt); ok {
				hasReturn = true
			}
			return !hasReturn
		})
		if hasReturn {
			return false
		}
	}
	callerDecl := declaredNames(s.caller)
	callerNames := identNames(s.caller)
	hDecl := declaredNames(h)
	for i, a := range args {
		id, ok := a.(*ast.Ident)
		if !ok || !c.isLocalVar(id) || callerDecl[id.Name] < 1 {
			return false
		}
		t := c.typeOf(id)
		want := ptypes[i]
		if i == 0 && len(path) > 0 {
			t = pathType
		}
		if t == nil || !types.Identical(t, want) {
			return false
		}
		if c.addressedOrCaptured(s.caller, id.Name) {
			return false
		}
		if p := ids[i]; p != nil && p.Name != "_" {
			if hDecl[p.Name] != 1 {
				return false
			}
			saved := c.fn
			c.fn = h
			bad := c.writtenOrAddressed(h.Body, p.Name)
			c.fn = saved
			if bad {
				return false
			}
		}
	}
	params := map[string]bool{}
	for _, p := range ids {
		if p != nil {
			params[p.Name] = true
		}
	}
	for name := range hDecl {
		if params[name] {
			continue
		}
		if callerNames[name] {
			return false // a local of h would clash with a name used in the caller
		}
	}
	for name := range identNames(h.Body) {
		if params[name] || hDecl[name] > 0 {
			continue
		}
		if callerDecl[name] > 0 {
			return false // a free name of h would be captured by a declaration of the caller
		}
	}
	// Substitution is by object identity. Every identifier of h's body that is spelled like a
	// parameter must have a known object (the parameter, or e.g. a field of that name in a
	// selector or a composite-literal key): an identifier without type information might denote
	// the parameter and would be left behind.
	for _, p := range ids {
		if p == nil || p.Name == "_" {
			continue
		}
		unknown := false
		ast.Inspect(h.Body, func(n ast.Node) bool {
			if id, ok := n.(*ast.Ident); ok && id.Name == p.Name && c.objOf(id) == nil {
				unknown = true
			}
			return !unknown
		})
		if unknown || c.objOf(p) == nil {
			return false
		}
	}
	return true
}

// promotedPath: for a method call x.m(…) whose method is found through embedded fields, the names
// and indices of those fields (x.m is x.E1.….Ek.m) and the type of x.E1.….Ek. A direct method call
// or a plain function call gives an empty path. ok is false when go/types knows nothing.
func (c *normCtx) promotedPath(call *ast.CallExpr) (names []string, index []int, t types.Type, ok bool) {
	se, isSel := call.Fun.(*ast.SelectorExpr)
	if !isSel {
		return nil, nil, nil, true
	}
	ts, okp := c.pair[se].(*ast.SelectorExpr)
	if !okp {
		return nil, nil, nil, false
	}
	sel := c.pkg.info.Selections[ts]
	if sel == nil || sel.Kind() != types.MethodVal {
		return nil, nil, nil, false
	}
	idx := sel.Index()
	t = sel.Recv()
	for _, i := range idx[:len(idx)-1] {
		if p, isPtr := t.Underlying().(*types.Pointer); isPtr {
			t = p.Elem()
		}
		st, isStruct := t.Underlying().(*types.Struct)
		if !isStruct || i >= st.NumFields() || !st.Field(i).Embedded() {
			return nil, nil, nil, false
		}
		names = append(names, st.Field(i).Name())
		index = append(index, i)
		t = st.Field(i).Type()
	}
	return names, index, t, true
}

// derefOnlyTree: e is built from identifiers, literals, field selections, dereferences,
// parentheses, composite literals and & of a composite literal. Evaluating it calls nothing and
// stores nothing, evaluates every part unconditionally, and can only fail by a nil dereference.
func (c *normCtx) derefOnlyTree(e ast.Expr) bool {
	switch x := e.(type) {
	case *ast.CompositeLit:
		// the literal's type: a struct, so that no key or index expression is evaluated
		if t := c.typeOf(x); t == nil {
			return false
		} else if _, isStruct := t.Underlying().(*types.Struct); !isStruct {
			return false
		}
		for _, el := range x.Elts {
			v := el
			if kv, ok := el.(*ast.KeyValueExpr); ok {
				if _, ok := kv.Key.(*ast.Ident); !ok {
					return false
				}
				v = kv.Value
			}
			if !c.derefOnlyTree(v) {
				return false
			}
		}
		return true
	case *ast.UnaryExpr:
		if x.Op != token.AND {
			return false
		}
		cl, ok := x.X.(*ast.CompositeLit)
		return ok && c.derefOnlyTree(cl)
	case *ast.ParenExpr:
		return c.derefOnlyTree(x.X)
	}
	return c.nilPanicOnly(e)
}

// pathRecvOK: the conditions on the helper under which its receiver parameter recv may be replaced
// by a selector path (see siteBindable).
func (c *normCtx) pathRecvOK(h *ast.FuncDecl, recv *ast.Ident) bool {
	if recv == nil || recv.Name == "_" || len(h.Body.List) != 1 {
		return false
	}
	ret, ok := h.Body.List[0].(*ast.ReturnStmt)
	if !ok || len(ret.Results) != 1 || !c.derefOnlyTree(ret.Results[0]) {
		return false
	}
	robj := c.objOf(recv)
	return robj != nil && c.countObj(ret, robj) >= 1
}

// returnsExactly: every return statement of h returns one non-constant, non-nil expression whose
// static type is identical to t.
func (c *normCtx) returnsExactly(h *ast.FuncDecl, t types.Type) bool {
	good, some := true, false
	ast.Inspect(h.Body, func(n ast.Node) bool {
		ret, ok := n.(*ast.ReturnStmt)
		if !ok {
			return good
		}
		some = true
		if len(ret.Results) != 1 {
			good = false
			return false
		}
		te, ok := c.pair[ret.Results[0]].(ast.Expr)
		if !ok {
			good = false
			return false
		}
		tv, ok := c.pkg.info.Types[te]
		if !ok || tv.Value != nil || tv.IsNil() || !tv.IsValue() || tv.Type == nil || !types.Identical(tv.Type, t) {
			good = false
		}
		return good
	})
	return good && some
}

// spliceBody replaces the call site by a copy of h's body with parameters replaced by arguments.
// foreign: h comes from another file (its positions mean nothing in the generator's file set:
// the copy is moved to the position of the call).
func (c *normCtx) spliceBody(h *ast.FuncDecl, s normSite, foreign bool) {
	args := siteArgs(h, s.call)
	ids, _ := helperParams(h)
	body := c.cloneStmts(h.Body.List)
	holder := &ast.BlockStmt{List: body}
	if foreign {
		setPos(holder, s.call.Pos())
	}
	for i, p := range ids {
		if p == nil || p.Name == "_" {
			continue
		}
		repl := args[i]
		if i == 0 && h.Recv != nil {
			if path, index, _, ok := c.promotedPath(s.call); ok && len(path) > 0 {
				repl = c.substPathRecv(holder, c.objOf(p), args[0], path, index)
			}
		}
		c.substObj(holder, c.objOf(p), repl)
	}
	replaced := false
	visitLists(s.caller, func(list []ast.Stmt, _ listCtx) []ast.Stmt {
		if replaced {
			return list
		}
		for i, st := range list {
			hit := false
			switch x := st.(type) {
			case *ast.ReturnStmt:
				hit = len(x.Results) == 1 && x.Results[0] == ast.Expr(s.call)
			case *ast.ExprStmt:
				hit = x.X == ast.Expr(s.call)
			}
			if hit {
				out := append([]ast.Stmt(nil), list[:i]...)
				out = append(out, holder.List...)
				out = append(out, list[i+1:]...)
				replaced = true
				return out
			}
		}
		return list
	})
}

// substPathRecv handles the receiver parameter pobj of a promoted method, called as x.m(…) with
// x.m = x.E1.….Ek.m: every field selection `recv.g` in the copied body for which go/types finds
// x.g through exactly the path E1.….Ek followed by recv.g's own path is rewritten to `x.g` — by
// the definition of promoted fields x.g IS x.E1.….Ek.g then. It returns the explicit operand
// x.E1.….Ek for all other uses of the receiver.
func (c *normCtx) substPathRecv(holder ast.Node, pobj types.Object, x ast.Expr, path []string, index []int) ast.Expr {
	var explicit ast.Expr = x
	for _, name := range path {
		explicit = &ast.SelectorExpr{X: explicit, Sel: &ast.Ident{NamePos: x.Pos(), Name: name}}
	}
	xt := c.typeOf(x)
	if xt == nil || pobj == nil {
		return explicit
	}
	mapExprs(holder, func(e ast.Expr) ast.Expr {
		se, ok := e.(*ast.SelectorExpr)
		if !ok {
			return e
		}
		id, ok := se.X.(*ast.Ident)
		if !ok || c.objOf(id) != pobj {
			return e
		}
		sel := c.fieldSel(se)
		if sel == nil {
			return e
		}
		obj, idx, _ := types.LookupFieldOrMethod(xt, true, c.pkg.pkg, se.Sel.Name)
		want := append(append([]int(nil), index...), sel.Index()...)
		if obj == nil || obj != sel.Obj() || len(idx) != len(want) {
			return e
		}
		for k := range idx {
			if idx[k] != want[k] {
				return e
			}
		}
		short := &ast.SelectorExpr{X: c.cloneExpr(x), Sel: &ast.Ident{NamePos: se.Sel.Pos(), Name: se.Sel.Name}}
		setPos(short, se.Pos())
		return short
	})
	return explicit
}

// ---- predicate helpers: func p(x I) bool { switch x.(type) { case T1, T2: return true }; return false }

type normPredicate struct {
	types []ast.Expr
}

func (c *normCtx) predicateHelper(h *ast.FuncDecl) *normPredicate {
	if h.Recv != nil || h.Type.Params == nil || len(h.Type.Params.List) != 1 || len(h.Type.Params.List[0].Names) != 1 {
		return nil
	}
	x := h.Type.Params.List[0].Names[0]
	if pt := c.typeOf(h.Type.Params.List[0].Type); pt == nil || !types.IsInterface(pt) {
		return nil
	}
	if h.Type.Results == nil || len(h.Type.Results.List) != 1 || !c.isUniverse(h.Type.Results.List[0].Type, "bool") {
		return nil
	}
	if len(h.Body.List) != 2 {
		return nil
	}
	ts, ok := h.Body.List[0].(*ast.TypeSwitchStmt)
	if !ok || ts.Init != nil || len(ts.Body.List) != 1 {
		return nil
	}
	es, ok := ts.Assign.(*ast.ExprStmt)
	if !ok {
		return nil
	}
	ta, ok := es.X.(*ast.TypeAssertExpr)
	if !ok || ta.Type != nil {
		return nil
	}
	if id, ok := ta.X.(*ast.Ident); !ok || c.objOf(id) == nil || c.objOf(id) != c.objOf(x) {
		return nil
	}
	cc := ts.Body.List[0].(*ast.CaseClause)
	if len(cc.List) == 0 || len(cc.Body) != 1 {
		return nil
	}
	r1, ok := cc.Body[0].(*ast.ReturnStmt)
	if !ok || len(r1.Results) != 1 || !c.isUniverse(r1.Results[0], "true") {
		return nil
	}
	r2, ok := h.Body.List[1].(*ast.ReturnStmt)
	if !ok || len(r2.Results) != 1 || !c.isUniverse(r2.Results[0], "false") {
		return nil
	}
	for _, t := range cc.List {
		if !c.isTypeExpr(t) && !c.isUniverse(t, "nil") {
			return nil
		}
	}
	return &normPredicate{types: cc.List}
}

func (c *normCtx) siteIf(s normSite) *ast.IfStmt {
	var found *ast.IfStmt
	ast.Inspect(s.caller.Body, func(n ast.Node) bool {
		if is, ok := n.(*ast.IfStmt); ok && found == nil {
			cond := unparen(is.Cond)
			if u, ok := cond.(*ast.UnaryExpr); ok && u.Op == token.NOT {
				cond = unparen(u.X)
			}
			if cond == ast.Expr(s.call) {
				found = is
			}
		}
		return found == nil
	})
	return found
}

// predicateSiteOK checks the side conditions of splicePredicate.
//
// `if p(a) { S }` -> `switch a.(type) { case T1, T2: S }` and
// `if !p(a) { S }` -> `switch a.(type) { case T1, T2: default: S }` are sound because — checked —
// p is exactly `switch x.(type) { case T1, T2: return true }; return false` on its only
// parameter, of interface type; a is a local variable of interface type, so converting it to the
// parameter type keeps its dynamic type and the type switch on a itself selects the same clause;
// evaluating a has no effect; S contains no `break` that would now bind to the new switch; the
// type names in T1, T2 are not redeclared in the caller.
func (c *normCtx) predicateSiteOK(p *normPredicate, s normSite) bool {
	if len(s.call.Args) != 1 || s.call.Ellipsis.IsValid() {
		return false
	}
	a, ok := s.call.Args[0].(*ast.Ident)
	if !ok || !c.isLocalVar(a) {
		return false
	}
	if t := c.typeOf(a); t == nil || !types.IsInterface(t) {
		return false
	}
	is := c.siteIf(s)
	if is == nil || is.Init != nil || is.Else != nil || hasFreeBreak(is.Body.List) {
		return false
	}
	callerDecl := declaredNames(s.caller)
	for _, t := range p.types {
		for name := range identNames(t) {
			if callerDecl[name] > 0 {
				return false
			}
		}
	}
	return true
}

func (c *normCtx) splicePredicate(p *normPredicate, s normSite) {
	is := c.siteIf(s)
	a := s.call.Args[0]
	var tys []ast.Expr
	for _, t := range p.types {
		ct := c.cloneExpr(t)
		setPos(ct, is.Pos())
		tys = append(tys, ct)
	}
	sw := &ast.TypeSwitchStmt{
		Switch: is.Pos(),
		Assign: &ast.ExprStmt{X: &ast.TypeAssertExpr{X: a, Lparen: a.End(), Rparen: a.End()}},
		Body:   &ast.BlockStmt{Lbrace: is.Body.Lbrace, Rbrace: is.Body.Rbrace},
	}
	if s.kind == 3 {
		sw.Body.List = []ast.Stmt{&ast.CaseClause{Case: is.Pos(), List: tys, Colon: is.Body.Lbrace, Body: is.Body.List}}
	} else {
		sw.Body.List = []ast.Stmt{
			&ast.CaseClause{Case: is.Pos(), List: tys, Colon: is.Body.Lbrace},
			&ast.CaseClause{Case: is.Body.Lbrace, Colon: is.Body.Lbrace, Body: is.Body.List},
		}
	}
	visitLists(s.caller, func(list []ast.Stmt, _ listCtx) []ast.Stmt {
		for i, st := range list {
			if st == ast.Stmt(is) {
				list[i] = sw
			}
		}
		return list
	})
}

// ---- rules added for the third set of harmless refactorings (R33 … R48)

// ruleShortIntDecl (profile shortIntDecl only): `var x int` -> `x := 0`.
// Sound because it is ruleZeroDecl read backwards: `var x int` declares, in the current scope, a
// new variable x of type int holding int's zero value 0; `x := 0` with a single new name declares
// a variable of the default type of the untyped constant 0 — int — holding 0. Checked: the
// declaration stands in a function body, has one spec with one name (not `_`) and no value, and
// its type is the identifier `int` denoting the universe type (go/types). x is new in its scope
// (`var x` in a scope that already declares x does not compile), so `:=` declares, not assigns.
func (c *normCtx) ruleShortIntDecl(list []ast.Stmt, _ listCtx) []ast.Stmt {
	if !c.prof.shortIntDecl {
		return list
	}
	for i, s := range list {
		ds, ok := s.(*ast.DeclStmt)
		if !ok {
			continue
		}
		gd, ok := ds.Decl.(*ast.GenDecl)
		if !ok || gd.Tok != token.VAR || len(gd.Specs) != 1 {
			continue
		}
		vs, ok := gd.Specs[0].(*ast.ValueSpec)
		if !ok || len(vs.Names) != 1 || len(vs.Values) != 0 || vs.Names[0].Name == "_" || vs.Type == nil {
			continue
		}
		if !c.isUniverse(vs.Type, "int") {
			continue
		}
		list[i] = &ast.AssignStmt{
			Lhs: []ast.Expr{vs.Names[0]}, TokPos: vs.Names[0].End(), Tok: token.DEFINE,
			Rhs: []ast.Expr{&ast.BasicLit{ValuePos: vs.Type.Pos(), Kind: token.INT, Value: "0"}},
		}
		c.mark("ruleShortIntDecl")
	}
	return list
}

// negativeCond: e is `!x`, or `a != b` with neither operand the identifier nil (the library tests
// nil both ways, so neither form is canonical there — as in ruleReturnFlip).
func negativeCond(e ast.Expr) bool {
	switch x := unparen(e).(type) {
	case *ast.UnaryExpr:
		return x.Op == token.NOT
	case *ast.BinaryExpr:
		return x.Op == token.NEQ && !isNilIdent(x.X) && !isNilIdent(x.Y)
	}
	return false
}

// ruleGuardMerge: at the end of a function body,
// `if N { return e }; B…; return e` with N a negative condition (`!c`, `a != b`), B not empty, e an
// identifier or literal (the same text) -> `if c { B… }; return e`   (c the exact negation of N).
// Sound because N is evaluated once in both forms. If N holds, the old form returns e at once; the
// new form skips B… and reaches `return e` with nothing executed in between, so e has the same
// value. If N does not hold both forms run B… and then `return e` (a return inside B… leaves the
// function in both forms). Checked: the list is the function body and ends in that return; the if
// has no init and no else and its body is exactly `return e`; e is not declared by a top-level
// statement of B… (it would go out of scope before the final return); the declarations of B… move
// into a block, after which only `return e` follows; no labels or goto in the function.
// (The complement of ruleTailMerge, which wants a non-empty A and a B that does not leave; a
// non-negative condition is left alone, so this does not undo itself.)
func (c *normCtx) ruleGuardMerge(list []ast.Stmt, ctx listCtx) []ast.Stmt {
	if ctx.kind != lkFunc || len(list) < 3 {
		return list
	}
	last, ok := list[len(list)-1].(*ast.ReturnStmt)
	if !ok || len(last.Results) != 1 || !simpleResult(last.Results[0]) {
		return list
	}
	want := c.str(last.Results[0])
	for i := len(list) - 3; i >= 0; i-- {
		is, ok := list[i].(*ast.IfStmt)
		if !ok || is.Init != nil || is.Else != nil || len(is.Body.List) != 1 || !negativeCond(is.Cond) {
			continue
		}
		ret, ok := is.Body.List[0].(*ast.ReturnStmt)
		if !ok || len(ret.Results) != 1 || !simpleResult(ret.Results[0]) || c.str(ret.Results[0]) != want {
			continue
		}
		if hasLabelsOrGoto(ctx.owner) {
			return list
		}
		b := append([]ast.Stmt(nil), list[i+1:len(list)-1]...)
		if id, isId := last.Results[0].(*ast.Ident); isId {
			declared := false
			for _, s := range b {
				switch d := s.(type) {
				case *ast.AssignStmt:
					if d.Tok == token.DEFINE && countIdent(d, id.Name) > 0 {
						declared = true
					}
				case *ast.DeclStmt:
					if countIdent(d, id.Name) > 0 {
						declared = true
					}
				}
			}
			if declared {
				continue
			}
		}
		is.Cond = negate(is.Cond)
		is.Body = &ast.BlockStmt{Lbrace: is.Body.Lbrace, List: b, Rbrace: is.Body.Rbrace}
		c.mark("ruleGuardMerge")
		return append(list[:i+1:i+1], last)
	}
	return list
}

// commaOkAssert: s is `v, ok := X.(T)` — a short variable declaration of exactly two identifiers,
// each `_` or NEW in this statement (go/types), ok not `_`, from one type assertion to a type.
func (c *normCtx) commaOkAssert(s ast.Stmt) (v, okv *ast.Ident, ta *ast.TypeAssertExpr) {
	as, isAs := s.(*ast.AssignStmt)
	if !isAs || as.Tok != token.DEFINE || len(as.Lhs) != 2 || len(as.Rhs) != 1 {
		return nil, nil, nil
	}
	v, ok1 := as.Lhs[0].(*ast.Ident)
	okv, ok2 := as.Lhs[1].(*ast.Ident)
	ta, ok3 := as.Rhs[0].(*ast.TypeAssertExpr)
	if !ok1 || !ok2 || !ok3 || ta.Type == nil || okv.Name == "_" || okv.Name == v.Name {
		return nil, nil, nil
	}
	if !c.isNewDef(v) || !c.isNewDef(okv) || c.objOf(okv) == nil || !c.isTypeExpr(ta.Type) {
		return nil, nil, nil
	}
	return v, okv, ta
}

// isObjIdent: e is an identifier denoting obj.
func (c *normCtx) isObjIdent(e ast.Expr, obj types.Object) bool {
	id, ok := unparen(e).(*ast.Ident)
	return ok && obj != nil && c.objOf(id) == obj
}

// mentionsAny: below the statements there is an identifier spelled like one of the (non-blank) names.
func mentionsAny(list []ast.Stmt, names ...*ast.Ident) bool {
	for _, s := range list {
		for _, n := range names {
			if n != nil && n.Name != "_" && countIdent(s, n.Name) > 0 {
				return true
			}
		}
	}
	return false
}

// ruleAssertInit: a comma-ok type assertion in front of the if statement that tests it moves into
// that statement's init clause, when what follows on success is a single return statement:
//
//	(1) `v, ok := X.(T); if !ok { A…; J }; return R`  ->  `if v, ok := X.(T); ok { return R }; A…; J`
//	(2) `v, ok := X.(T); if ok { return R }; rest…`     ->  `if v, ok := X.(T); ok { return R }; rest…`
//
// Sound because X.(T) is evaluated once, first, in all forms, and ok is tested right after it.
// (1) J is a return or a call of the builtin panic, and `return R` ends the list: when ok is false
// both forms run A…; J, when it is true both run `return R` and never reach A… (the new if body
// leaves the function). (2) only narrows the scope of v and ok to the if statement.
// Checked: the declaration declares only NEW variables (commaOkAssert); the if has no init and no
// else and tests exactly that ok variable; the statements that end up outside the if (A…; J, resp.
// rest…) mention neither name (they are outside the scope of v and ok afterwards); in (1) the
// names A… declares at its top level move into the enclosing list: they are declared nowhere else
// in the function (movableOut); no labels or goto in the function.
// Which spelling is canonical (not a soundness matter): the library writes the if-init form when
// success is a single return (child identifiers) and the separate declaration with an `if !ok`
// guard when a long success path follows (union qualifier); only the former case is rewritten.
func (c *normCtx) ruleAssertInit(list []ast.Stmt, _ listCtx) []ast.Stmt {
	if c.fn == nil {
		return list
	}
	for i := 0; i+1 < len(list); i++ {
		v, okv, _ := c.commaOkAssert(list[i])
		if okv == nil {
			continue
		}
		is, isIf := list[i+1].(*ast.IfStmt)
		if !isIf || is.Init != nil || is.Else != nil {
			continue
		}
		okObj := c.objOf(okv)
		rest := list[i+2:]
		if u, isNot := unparen(is.Cond).(*ast.UnaryExpr); isNot && u.Op == token.NOT && c.isObjIdent(u.X, okObj) {
			// form (1)
			if len(rest) != 1 || len(is.Body.List) == 0 {
				continue
			}
			ret, isRet := rest[0].(*ast.ReturnStmt)
			j := is.Body.List[len(is.Body.List)-1]
			if _, jumpsBack := j.(*ast.BranchStmt); !isRet || jumpsBack || !c.realJump(j) {
				continue
			}
			if hasLabelsOrGoto(c.fn) || mentionsAny(is.Body.List, v, okv) || !c.movableOut(is.Body.List, list[i], nil) {
				continue
			}
			a := is.Body.List
			is.Init = list[i]
			is.Cond = u.X
			is.Body = &ast.BlockStmt{Lbrace: is.Body.Lbrace, List: []ast.Stmt{ret}, Rbrace: is.Body.Rbrace}
			out := append([]ast.Stmt(nil), list[:i]...)
			out = append(out, is)
			out = append(out, a...)
			c.mark("ruleAssertInit")
			return out
		}
		if c.isObjIdent(is.Cond, okObj) {
			// form (2)
			if len(is.Body.List) != 1 {
				continue
			}
			if _, isRet := is.Body.List[0].(*ast.ReturnStmt); !isRet {
				continue
			}
			if hasLabelsOrGoto(c.fn) || mentionsAny(rest, v, okv) {
				continue
			}
			is.Init = list[i]
			out := append([]ast.Stmt(nil), list[:i]...)
			out = append(out, list[i+1:]...)
			c.mark("ruleAssertInit")
			return out
		}
	}
	return list
}

// normSwitchBinding: the name the library gives to the variable bound by a type switch over a
// decoded JSON value.
const normSwitchBinding = "typedNodes"

// leavesFunction: s is a return statement or a call of the builtin panic.
func (c *normCtx) leavesFunction(s ast.Stmt) bool {
	if _, isBranch := s.(*ast.BranchStmt); isBranch {
		return false
	}
	return c.realJump(s)
}

// ruleAssertChain: two or more consecutive statements `if vi, ok := x.(Ti); ok { Bi…; Ji }` on the
// same local variable x, followed by a non-empty tail that ends the list ->
// `switch typedNodes := x.(type) { case T1: B1…; J1  …  default: tail }` (vi renamed to the binding).
// Sound because — all checked —
//   - x is an identifier denoting a local variable or parameter: evaluating it has no effect, and
//     between two consecutive tests nothing is executed (a failed comma-ok assertion has no effect
//     and cannot panic), so every test sees the same value, the one the switch evaluates once;
//   - every Ji is a return or a call of the builtin panic, so control never passes from a body to
//     the next test: the bodies are tried in order and the first Ti the dynamic value can be
//     asserted to selects its body — exactly the rule of a type switch, clauses tried top to
//     bottom (a single-type clause `case Ti` matches iff x.(Ti) succeeds, for interface and
//     non-interface Ti alike; a nil x fails every assertion and matches no such clause); the tail
//     runs iff every assertion failed, which is when `default` runs;
//   - in a single-type clause the binding has type Ti and the asserted value: the same as vi. vi is
//     renamed to the binding by name inside Bi…; Ji, where every occurrence of the name denotes vi
//     (go/types); the binding's name occurs nowhere in the function, is not a package-level or
//     universe name; the ok variables vanish: no body mentions its ok after the test;
//   - no body and not the tail contains an unlabeled `break` that would now bind to the switch; the
//     function has no labels or goto; the Ti are pairwise different types (Go rejects duplicate
//     cases); the declarations of the tail move into the default clause and nothing follows it.
//
// Which spelling is canonical (not a soundness matter): the library tests one type with an if
// and two or more types of the same value with a type switch (wildcard identifier, filter).
func (c *normCtx) ruleAssertChain(list []ast.Stmt, _ listCtx) []ast.Stmt {
	if c.fn == nil {
		return list
	}
	type arm struct {
		is  *ast.IfStmt
		v   *ast.Ident
		typ ast.Expr
	}
	// armOf: s is `if v, ok := x.(T); ok { …; J }`; returns the pieces and x.
	armOf := func(s ast.Stmt) (*arm, *ast.Ident) {
		is, ok := s.(*ast.IfStmt)
		if !ok || is.Init == nil || is.Else != nil || len(is.Body.List) == 0 {
			return nil, nil
		}
		v, okv, ta := c.commaOkAssert(is.Init)
		if okv == nil || !c.isObjIdent(is.Cond, c.objOf(okv)) {
			return nil, nil
		}
		x, ok := ta.X.(*ast.Ident)
		if !ok || !c.isLocalVar(x) {
			return nil, nil
		}
		if !c.leavesFunction(is.Body.List[len(is.Body.List)-1]) || hasFreeBreak(is.Body.List) || mentionsAny(is.Body.List, okv) {
			return nil, nil
		}
		if v.Name != "_" {
			vobj := c.objOf(v)
			if vobj == nil || c.countObj(is.Body, vobj) != countIdent(is.Body, v.Name) {
				return nil, nil
			}
		}
		return &arm{is: is, v: v, typ: ta.Type}, x
	}
	for i := 0; i+1 < len(list); i++ {
		first, x := armOf(list[i])
		if first == nil {
			continue
		}
		arms := []*arm{first}
		for k := i + 1; k < len(list); k++ {
			a, y := armOf(list[k])
			if a == nil || c.objOf(y) == nil || c.objOf(y) != c.objOf(x) {
				break
			}
			arms = append(arms, a)
		}
		tail := list[i+len(arms):]
		if len(arms) < 2 || len(tail) == 0 || hasFreeBreak(tail) || hasLabelsOrGoto(c.fn) {
			continue
		}
		distinct, bound := true, false
		for a := range arms {
			ta := c.typeOf(arms[a].typ)
			for b := a + 1; b < len(arms); b++ {
				tb := c.typeOf(arms[b].typ)
				if ta == nil || tb == nil || types.Identical(ta, tb) {
					distinct = false
				}
			}
			if arms[a].v.Name != "_" {
				bound = true
			}
		}
		if !distinct {
			continue
		}
		if bound && (countIdent(c.fn, normSwitchBinding) != 0 || c.pkg.pkg.Scope().Lookup(normSwitchBinding) != nil || types.Universe.Lookup(normSwitchBinding) != nil) {
			continue
		}
		pos := arms[0].is.Pos()
		var assign ast.Stmt
		ta := &ast.TypeAssertExpr{X: x, Lparen: x.End(), Rparen: x.End()}
		if bound {
			assign = &ast.AssignStmt{Lhs: []ast.Expr{&ast.Ident{NamePos: pos, Name: normSwitchBinding}}, TokPos: pos, Tok: token.DEFINE, Rhs: []ast.Expr{ta}}
		} else {
			assign = &ast.ExprStmt{X: ta}
		}
		sw := &ast.TypeSwitchStmt{Switch: pos, Assign: assign, Body: &ast.BlockStmt{Lbrace: arms[0].is.Body.Lbrace, Rbrace: tail[len(tail)-1].End()}}
		for _, a := range arms {
			if a.v.Name != "_" {
				name := a.v.Name
				ast.Inspect(a.is.Body, func(n ast.Node) bool {
					if id, ok := n.(*ast.Ident); ok && id.Name == name {
						id.Name = normSwitchBinding
					}
					return true
				})
			}
			sw.Body.List = append(sw.Body.List, &ast.CaseClause{Case: a.is.Pos(), List: []ast.Expr{a.typ}, Colon: a.is.Body.Lbrace, Body: a.is.Body.List})
		}
		sw.Body.List = append(sw.Body.List, &ast.CaseClause{Case: tail[0].Pos(), Colon: tail[0].Pos(), Body: append([]ast.Stmt(nil), tail...)})
		c.mark("ruleAssertChain")
		return append(list[:i:i], sw)
	}
	return list
}

// ruleInitSink: `if v, ok := x.(T); a { if b {S} [else {U}] }` (outer if without else, its body that
// one if statement, which has no init) -> `if a { if v, ok := x.(T); b {S} [else {U}] }`.
// Sound because — checked — the init statement is a comma-ok type assertion of a local variable x
// declaring only new variables: it has no effect and cannot panic, so it does not matter whether
// it runs before a or after it, or not at all when a is false (nothing but b, S, U can see v and
// ok: a does not mention them, and their scope ends with the outer if); a is built from
// identifiers, field selections, dereferences and literals only (pureExpr): it calls nothing and
// stores nothing, so x holds the same value before and after it; if a panics (a nil dereference)
// it does so in both forms, the assertion having had no visible effect.
// (ruleSplitAnd leaves `if init; a && b {S}` as `if init; a { if b {S} }`; this rule then puts the
// assertion next to the condition that uses it, which is how the library writes it.)
func (c *normCtx) ruleInitSink(fd *ast.FuncDecl) {
	ast.Inspect(fd.Body, func(n ast.Node) bool {
		is, ok := n.(*ast.IfStmt)
		if !ok || is.Init == nil || is.Else != nil || len(is.Body.List) != 1 {
			return true
		}
		inner, ok := is.Body.List[0].(*ast.IfStmt)
		if !ok || inner.Init != nil {
			return true
		}
		v, okv, ta := c.commaOkAssert(is.Init)
		if okv == nil || !pureExpr(is.Cond) {
			return true
		}
		x, ok := ta.X.(*ast.Ident)
		if !ok || !c.isLocalVar(x) {
			return true
		}
		if countIdent(is.Cond, okv.Name) > 0 || (v.Name != "_" && countIdent(is.Cond, v.Name) > 0) {
			return true
		}
		inner.Init, is.Init = is.Init, nil
		c.mark("ruleInitSink")
		return true
	})
}

// arithOperands: e is built from identifiers of local variables, integer literals, len(id) of a
// local variable of slice, string or array type, the operators + - *, unary minus and parentheses
// — evaluating it has no effect and cannot panic (no division, shift, index or call), and its
// value depends only on the listed variables. Returns those variables (nil, false if e is not of
// that form).
func (c *normCtx) arithOperands(e ast.Expr) ([]*ast.Ident, bool) {
	var vars []*ast.Ident
	var walk func(e ast.Expr) bool
	walk = func(e ast.Expr) bool {
		switch x := e.(type) {
		case *ast.ParenExpr:
			return walk(x.X)
		case *ast.BasicLit:
			return x.Kind == token.INT
		case *ast.Ident:
			if !c.isLocalVar(x) || !c.isIntegerTyped(x) {
				return false
			}
			vars = append(vars, x)
			return true
		case *ast.UnaryExpr:
			return x.Op == token.SUB && walk(x.X)
		case *ast.BinaryExpr:
			if x.Op != token.ADD && x.Op != token.SUB && x.Op != token.MUL {
				return false
			}
			return c.isIntegerTyped(x) && walk(x.X) && walk(x.Y)
		case *ast.CallExpr:
			if len(x.Args) != 1 || x.Ellipsis.IsValid() || !c.isBuiltin(x.Fun, "len") {
				return false
			}
			id, ok := x.Args[0].(*ast.Ident)
			if !ok || !c.isLocalVar(id) {
				return false
			}
			switch t := c.typeOf(id).Underlying().(type) {
			case *types.Slice, *types.Array:
			case *types.Basic:
				if t.Info()&types.IsString == 0 {
					return false
				}
			default:
				return false
			}
			vars = append(vars, id)
			return true
		}
		return false
	}
	if !walk(e) {
		return nil, false
	}
	return vars, true
}

// substDelimited replaces the uses of obj below n by clones of repl: bare where the use is the
// whole operand of a bracketed or comma-separated position (index, slice bound, call argument,
// right-hand side, returned value), parenthesised everywhere else.
func (c *normCtx) substDelimited(n ast.Node, obj types.Object, repl ast.Expr) {
	bare := func(e ast.Expr) ast.Expr {
		if id, ok := e.(*ast.Ident); ok && c.objOf(id) == obj {
			r := c.cloneExpr(repl)
			setPos(r, id.Pos())
			return r
		}
		return e
	}
	ast.Inspect(n, func(x ast.Node) bool {
		switch y := x.(type) {
		case *ast.IndexExpr:
			y.Index = bare(y.Index)
		case *ast.SliceExpr:
			if y.Low != nil {
				y.Low = bare(y.Low)
			}
			if y.High != nil {
				y.High = bare(y.High)
			}
			if y.Max != nil {
				y.Max = bare(y.Max)
			}
		case *ast.CallExpr:
			for k := range y.Args {
				y.Args[k] = bare(y.Args[k])
			}
		case *ast.AssignStmt:
			for k := range y.Rhs {
				y.Rhs[k] = bare(y.Rhs[k])
			}
		case *ast.ReturnStmt:
			for k := range y.Results {
				y.Results[k] = bare(y.Results[k])
			}
		}
		return true
	})
	c.substObj(n, obj, &ast.ParenExpr{Lparen: repl.Pos(), X: repl, Rparen: repl.End()})
}

// ruleArithLocal: `n := E; … n …` -> `… E …` (declaration removed), for E an integer expression
// over local variables and their lengths that is not a bare len(xs) (ruleLenLocal) — the shape
// `lastIndex := len(stack) - 1`.
// Sound because — all checked —
//   - E is side-effect free and cannot panic (arithOperands: + - * and len over locals and
//     literals), is not a constant, and n has exactly E's type, so E can stand wherever n is read;
//   - every operand of E is a local variable whose address is never taken and that no closure
//     mentions (addressedOrCaptured, by name), whose name is declared exactly once in the function
//     (so the name means that variable at every use site): its value — for a slice or string its
//     header, which is all len looks at — changes only by an assignment statement of this function
//     that names it;
//   - n is a stableLocal that no closure mentions, so it holds the value E had at the declaration;
//   - the statements after the declaration are walked in order. A use of n is replaced only while
//     no statement executed since the declaration assigns an operand of E: a statement that does
//     not assign any (nowhere inside it: writtenOrAddressed) leaves E's value alone wherever in it
//     the use stands; an assignment statement that both reads n and assigns an operand evaluates
//     all its operands before it stores (Go's two-phase assignment), so its reads still see the
//     old values — but from then on E's value may differ and any further use of n makes the rule
//     give up. The list is executed from the declaration onwards each time (no labels or goto in
//     the function, so control enters it only from the top), hence "executed since the
//     declaration" is "earlier in the list";
//   - the builtin len is not shadowed; every occurrence of n's name after the declaration is a
//     typed use of n.
func (c *normCtx) ruleArithLocal(list []ast.Stmt, _ listCtx) []ast.Stmt {
	if c.prof.keepLenLocals || c.fn == nil {
		return list
	}
	for i, s := range list {
		as, ok := s.(*ast.AssignStmt)
		if !ok || as.Tok != token.DEFINE || len(as.Lhs) != 1 || len(as.Rhs) != 1 {
			continue
		}
		n, ok := as.Lhs[0].(*ast.Ident)
		if !ok || n.Name == "_" {
			continue
		}
		e := as.Rhs[0]
		if _, bareLen := unparen(e).(*ast.CallExpr); bareLen {
			continue // ruleLenLocal's business
		}
		if _, bareVar := unparen(e).(*ast.Ident); bareVar {
			continue // a plain copy of a variable is not an arithmetic abbreviation
		}
		vars, ok := c.arithOperands(e)
		if !ok || len(vars) == 0 || !c.universeFree("len") || hasLabelsOrGoto(c.fn) {
			continue
		}
		te, ok := c.pair[e].(ast.Expr)
		if !ok {
			continue
		}
		if tv, ok := c.pkg.info.Types[te]; !ok || tv.Value != nil || !tv.IsValue() {
			continue
		}
		nobj := c.objOf(n)
		if nobj == nil || !c.stableLocal(n) || !types.Identical(nobj.Type(), c.typeOf(e)) || c.capturedByClosure(c.fn, n.Name) {
			continue
		}
		good := true
		dn := declaredNames(c.fn)
		for _, v := range vars {
			if v.Name == n.Name || dn[v.Name] != 1 || c.addressedOrCaptured(c.fn, v.Name) {
				good = false
			}
		}
		if !good {
			continue
		}
		rest := list[i+1:]
		uses, names := 0, 0
		for _, r := range rest {
			uses += c.countObj(r, nobj)
			names += countIdent(r, n.Name)
		}
		if uses == 0 || uses != names {
			continue
		}
		assigns := func(st ast.Stmt) bool {
			for _, v := range vars {
				if c.writtenOrAddressed(st, v.Name) {
					return true
				}
			}
			return false
		}
		// first pass: decide; second pass: substitute
		clean := true
		var sites []ast.Stmt
		for _, st := range rest {
			u, w := c.countObj(st, nobj) > 0, assigns(st)
			if u {
				if !clean {
					good = false
					break
				}
				if _, plain := st.(*ast.AssignStmt); w && !plain {
					good = false
					break
				}
				sites = append(sites, st)
			}
			if w {
				clean = false
			}
		}
		if !good {
			continue
		}
		for _, st := range sites {
			c.substDelimited(st, nobj, unparen(e))
		}
		c.mark("ruleArithLocal")
		return append(list[:i:i], rest...)
	}
	return list
}

// capturedByClosure: a function literal in fn mentions the name.
func (c *normCtx) capturedByClosure(fn *ast.FuncDecl, name string) bool {
	hit := false
	ast.Inspect(fn, func(n ast.Node) bool {
		if fl, ok := n.(*ast.FuncLit); ok && countIdent(fl, name) > 0 {
			hit = true
		}
		return !hit
	})
	return hit
}

// normAggregateNames gives two locals of the method
//
//	func (f *syntaxAggregateFunction) retrieve(…) … { V := getContainer(); defer …; …; R := V.result; … }
//
// the names the library uses today (values, result), whatever they are called in the source: V is
// the variable declared by the first statement from a call of getContainer, R the first variable
// declared at the top level of the body from `V.result`. The generators `accessor`, `facts` and
// `functions` quote these locals in the facts and definitions they emit. Pure alpha-renaming
// (normRenameLocal: the old name is declared once, the new one is free in the function and the
// package); when a renaming is refused the generators see the source names, and their output
// differs from the checked-in one.
func normAggregateNames(fd *ast.FuncDecl) {
	if fd == nil || fd.Body == nil || fd.Recv == nil || len(fd.Recv.List) != 1 || len(fd.Body.List) == 0 {
		return
	}
	star, ok := fd.Recv.List[0].Type.(*ast.StarExpr)
	if !ok {
		return
	}
	if id, ok := star.X.(*ast.Ident); !ok || id.Name != "syntaxAggregateFunction" {
		return
	}
	first, ok := fd.Body.List[0].(*ast.AssignStmt)
	if !ok || first.Tok != token.DEFINE || len(first.Lhs) != 1 || len(first.Rhs) != 1 {
		return
	}
	v, ok := first.Lhs[0].(*ast.Ident)
	call, ok2 := first.Rhs[0].(*ast.CallExpr)
	if !ok || !ok2 || len(call.Args) != 0 {
		return
	}
	if fn, ok := call.Fun.(*ast.Ident); !ok || fn.Name != "getContainer" {
		return
	}
	normRenameLocal(fd, v.Name, "values")
	for _, st := range fd.Body.List[1:] {
		as, ok := st.(*ast.AssignStmt)
		if !ok || as.Tok != token.DEFINE || len(as.Lhs) != 1 || len(as.Rhs) != 1 {
			continue
		}
		r, ok := as.Lhs[0].(*ast.Ident)
		se, ok2 := as.Rhs[0].(*ast.SelectorExpr)
		if !ok || !ok2 || se.Sel.Name != "result" {
			continue
		}
		if x, ok := se.X.(*ast.Ident); !ok || x.Name != v.Name {
			continue
		}
		normRenameLocal(fd, r.Name, "result")
		return
	}
}
