// grammar.go: reader for the subset of pointlander-peg syntax that jsonpath.peg uses.
// Emits Gen/Grammar.lean:
//
//	def rule_<name> : PE          one per rule
//	def grammar : Grammar         the rules in file order, as data
//	def actionBody<N> : String    the N-th action block, verbatim (N = order of appearance in the
//	                              file = pointlander's numbering ruleAction<N>)
//	def actions : List String
//	def actionSums : List Nat     FNV-1a/64 of each whitespace-normalised body
//	def actionPegGo<N> : String   the body of `case ruleAction<N>:` in Execute() of jsonpath.peg.go, verbatim
//	def actionsPegGo : List String
//	def rulesPegGo : List String  the rule names of the `rul3s` table of jsonpath.peg.go (without
//	                              "Unknown", "PegText", "Action<N>")
//
// Fails closed: any construct outside the subset gives `untranslatable: <file>:<line>: <why>`.
// It also refuses (instead of emitting) when the two action tables differ after whitespace
// normalisation or when the rule names differ: jsonpath.peg.go is maintained by hand (there is
// no `peg` binary here), this keeps it tied to jsonpath.peg.
package main

import (
	"fmt"
	"go/ast"
	"go/parser"
	"go/token"
	"hash/fnv"
	"os"
	"path/filepath"
	"strconv"
	"strings"
)

func init() { register("grammar", genGrammar) }

// ---------------------------------------------------------------- parsing expressions

type pegKind int

const (
	pkLit pegKind = iota
	pkCls
	pkAny
	pkSeq
	pkAlt
	pkStar
	pkPlus
	pkOpt
	pkNot
	pkAnd
	pkRule
	pkCap
	pkAct
)

type pegRange struct{ lo, hi rune }

type pegExpr struct {
	kind   pegKind
	lit    []rune
	neg    bool
	ranges []pegRange
	kids   []*pegExpr // seq/alt: ≥ 2; unary operators: 1
	name   string
	idx    int
	line   int
}

type pegRuleDef struct {
	name string
	body *pegExpr
	line int
}

type pegReader struct {
	file    string
	src     []rune
	pos     int
	actions []string
}

type pegErr struct{ msg string }

func (r *pegReader) line(pos int) int {
	n := 1
	for i := 0; i < pos && i < len(r.src); i++ {
		if r.src[i] == '\n' {
			n++
		}
	}
	return n
}

func (r *pegReader) failAt(pos int, why string) {
	panic(pegErr{fmt.Sprintf("untranslatable: %s:%d: %s", r.file, r.line(pos), why)})
}

func (r *pegReader) fail(why string) { r.failAt(r.pos, why) }

func (r *pegReader) eof() bool { return r.pos >= len(r.src) }

func (r *pegReader) peek() rune {
	if r.eof() {
		return -1
	}
	return r.src[r.pos]
}

func (r *pegReader) peekAt(k int) rune {
	if r.pos+k >= len(r.src) {
		return -1
	}
	return r.src[r.pos+k]
}

// spacing: blanks, newlines and `#` comments. `//` comments (newer peg versions) are not
// accepted: a `/` is always the choice operator here and an empty alternative is refused.
func (r *pegReader) spacing() {
	for !r.eof() {
		c := r.peek()
		switch {
		case c == ' ' || c == '\t' || c == '\n' || c == '\r':
			r.pos++
		case c == '#':
			for !r.eof() && r.peek() != '\n' {
				r.pos++
			}
		default:
			return
		}
	}
}

func isIdentStart(c rune) bool {
	return c == '_' || (c >= 'a' && c <= 'z') || (c >= 'A' && c <= 'Z')
}

func isIdentCont(c rune) bool { return isIdentStart(c) || (c >= '0' && c <= '9') }

// identifier at the current position (no spacing consumed before), or "".
func (r *pegReader) identifier() string {
	if !isIdentStart(r.peek()) {
		return ``
	}
	start := r.pos
	for isIdentCont(r.peek()) {
		r.pos++
	}
	id := string(r.src[start:r.pos])
	r.spacing()
	return id
}

func (r *pegReader) leftArrowAhead() bool {
	return r.peek() == '<' && r.peekAt(1) == '-'
}

// startsDefinition: Identifier LeftArrow at the current position (does not consume).
func (r *pegReader) startsDefinition() bool {
	save := r.pos
	defer func() { r.pos = save }()
	if r.identifier() == `` {
		return false
	}
	return r.leftArrowAhead()
}

func hexVal(c rune) int {
	switch {
	case c >= '0' && c <= '9':
		return int(c - '0')
	case c >= 'a' && c <= 'f':
		return int(c-'a') + 10
	case c >= 'A' && c <= 'F':
		return int(c-'A') + 10
	}
	return -1
}

// char: pointlander's `Char <- Escape / !'\\' .`
func (r *pegReader) char() rune {
	if r.eof() {
		r.fail(`unexpected end of file in literal or class`)
	}
	c := r.peek()
	if c != '\\' {
		r.pos++
		return c
	}
	e := r.peekAt(1)
	if e == '0' && r.peekAt(2) == 'x' {
		r.pos += 3
		v, n := 0, 0
		for hexVal(r.peek()) >= 0 {
			v = v*16 + hexVal(r.peek())
			n++
			r.pos++
			if v > 0x10FFFF {
				r.fail(`hexadecimal escape out of range`)
			}
		}
		if n == 0 {
			r.fail(`empty hexadecimal escape`)
		}
		if v >= 0xD800 && v <= 0xDFFF {
			r.fail(`hexadecimal escape is a surrogate`)
		}
		return rune(v)
	}
	var out rune
	switch e {
	case 'a':
		out = '\a'
	case 'b':
		out = '\b'
	case 'f':
		out = '\f'
	case 'n':
		out = '\n'
	case 'r':
		out = '\r'
	case 't':
		out = '\t'
	case 'v':
		out = '\v'
	case '\'', '"', '[', ']', '-', '\\':
		out = e
	default:
		r.fail(fmt.Sprintf(`escape \%c is outside the supported subset`, e))
	}
	r.pos += 2
	return out
}

func (r *pegReader) expression() *pegExpr {
	line := r.line(r.pos)
	alts := []*pegExpr{r.sequence()}
	for r.peek() == '/' {
		if r.peekAt(1) == '/' {
			r.fail(`"//" (comment or empty alternative) is outside the supported subset`)
		}
		r.pos++
		r.spacing()
		alts = append(alts, r.sequence())
	}
	if len(alts) == 1 {
		return alts[0]
	}
	return &pegExpr{kind: pkAlt, kids: alts, line: line}
}

func (r *pegReader) sequenceEnds() bool {
	if r.eof() {
		return true
	}
	switch r.peek() {
	case '/', ')', '>':
		return true
	}
	return r.startsDefinition()
}

func (r *pegReader) sequence() *pegExpr {
	line := r.line(r.pos)
	if r.sequenceEnds() {
		r.fail(`empty sequence is outside the supported subset`)
	}
	items := []*pegExpr{r.prefix()}
	for !r.sequenceEnds() {
		items = append(items, r.prefix())
	}
	if len(items) == 1 {
		return items[0]
	}
	return &pegExpr{kind: pkSeq, kids: items, line: line}
}

func (r *pegReader) prefix() *pegExpr {
	line := r.line(r.pos)
	switch r.peek() {
	case '!', '&':
		op := r.peek()
		r.pos++
		r.spacing()
		if r.peek() == '{' {
			r.fail(`semantic predicate is outside the supported subset`)
		}
		inner := r.suffix()
		if op == '!' {
			return &pegExpr{kind: pkNot, kids: []*pegExpr{inner}, line: line}
		}
		return &pegExpr{kind: pkAnd, kids: []*pegExpr{inner}, line: line}
	}
	return r.suffix()
}

func (r *pegReader) suffix() *pegExpr {
	line := r.line(r.pos)
	e := r.primary()
	var k pegKind
	switch r.peek() {
	case '?':
		k = pkOpt
	case '*':
		k = pkStar
	case '+':
		k = pkPlus
	default:
		return e
	}
	r.pos++
	r.spacing()
	switch r.peek() {
	case '?', '*', '+':
		r.fail(`stacked repetition operators are outside the supported subset`)
	}
	return &pegExpr{kind: k, kids: []*pegExpr{e}, line: line}
}

func (r *pegReader) primary() *pegExpr {
	line := r.line(r.pos)
	c := r.peek()
	switch {
	case isIdentStart(c):
		name := r.identifier()
		if r.leftArrowAhead() {
			r.fail(`unexpected rule definition`)
		}
		return &pegExpr{kind: pkRule, name: name, line: line}
	case c == '(':
		r.pos++
		r.spacing()
		e := r.expression()
		if r.peek() != ')' {
			r.fail(`expected ")"`)
		}
		r.pos++
		r.spacing()
		return e
	case c == '\'':
		r.pos++
		var lit []rune
		for {
			if r.eof() {
				r.fail(`unterminated literal`)
			}
			if r.peek() == '\'' {
				break
			}
			lit = append(lit, r.char())
		}
		r.pos++
		r.spacing()
		if len(lit) == 0 {
			r.failAt(r.pos, `empty literal is outside the supported subset`)
		}
		return &pegExpr{kind: pkLit, lit: lit, line: line}
	case c == '"':
		r.fail(`double-quoted (case-insensitive) literal is outside the supported subset`)
	case c == '[':
		if r.peekAt(1) == '[' {
			r.fail(`case-insensitive class [[…]] is outside the supported subset`)
		}
		r.pos++
		e := &pegExpr{kind: pkCls, line: line}
		if r.peek() == '^' {
			e.neg = true
			r.pos++
		}
		for {
			if r.eof() {
				r.fail(`unterminated class`)
			}
			if r.peek() == ']' {
				break
			}
			lo := r.char()
			hi := lo
			if r.peek() == '-' && r.peekAt(1) != ']' {
				// pointlander: Range <- Char '-' Char / Char
				r.pos++
				hi = r.char()
			} else if r.peek() == '-' {
				// "x-]" : the first alternative fails at Char (']' is an ordinary Char for
				// pointlander's `Char`, so it would be taken as the range end): refuse.
				r.fail(`class ending in "-" is outside the supported subset`)
			}
			if hi < lo {
				r.fail(`class range with hi < lo`)
			}
			e.ranges = append(e.ranges, pegRange{lo, hi})
		}
		r.pos++
		r.spacing()
		if len(e.ranges) == 0 {
			r.failAt(r.pos, `empty class is outside the supported subset`)
		}
		return e
	case c == '.':
		r.pos++
		r.spacing()
		return &pegExpr{kind: pkAny, line: line}
	case c == '{':
		body := r.actionBody()
		r.actions = append(r.actions, body)
		return &pegExpr{kind: pkAct, idx: len(r.actions) - 1, line: line}
	case c == '<':
		if r.peekAt(1) == '-' {
			r.fail(`unexpected "<-"`)
		}
		r.pos++
		r.spacing()
		e := r.expression()
		if r.peek() != '>' {
			r.fail(`expected ">"`)
		}
		r.pos++
		r.spacing()
		return &pegExpr{kind: pkCap, kids: []*pegExpr{e}, line: line}
	}
	r.fail(fmt.Sprintf(`unexpected character %q`, c))
	return nil
}

// actionBody: pointlander's `Action <- '{' < ActionBody* > '}'`, `ActionBody <- [^{}] / '{' ActionBody* '}'`
// (braces are balanced without regard to Go strings or comments).
func (r *pegReader) actionBody() string {
	if r.peek() != '{' {
		r.fail(`expected "{"`)
	}
	open := r.pos
	r.pos++
	start, depth := r.pos, 1
	for depth > 0 {
		if r.eof() {
			r.failAt(open, `unterminated action`)
		}
		switch r.peek() {
		case '{':
			depth++
		case '}':
			depth--
		}
		r.pos++
	}
	body := string(r.src[start : r.pos-1])
	r.spacing()
	return body
}

func (r *pegReader) expectWord(w string) {
	for _, c := range w {
		if r.peek() != c {
			r.fail(fmt.Sprintf(`expected %q`, w))
		}
		r.pos++
	}
}

func (r *pegReader) grammar() (rules []pegRuleDef) {
	r.spacing()
	r.expectWord(`package`)
	if c := r.peek(); c != ' ' && c != '\t' && c != '\n' {
		r.fail(`expected spacing after "package"`)
	}
	r.spacing()
	if r.identifier() == `` {
		r.fail(`expected package name`)
	}
	if r.peek() == 'i' && strings.HasPrefix(string(r.src[r.pos:]), `import`) {
		r.fail(`import in the grammar header is outside the supported subset`)
	}
	r.expectWord(`type`)
	r.spacing()
	if r.identifier() == `` {
		r.fail(`expected parser type name`)
	}
	r.expectWord(`Peg`)
	r.spacing()
	_ = r.actionBody() // the struct body
	for !r.eof() {
		pos := r.pos
		name := r.identifier()
		if name == `` || !r.leftArrowAhead() {
			r.failAt(pos, `expected a rule definition`)
		}
		r.pos += 2
		r.spacing()
		body := r.expression()
		if !r.eof() && !r.startsDefinition() {
			r.fail(`unexpected text after a rule body`)
		}
		rules = append(rules, pegRuleDef{name, body, r.line(pos)})
	}
	if len(rules) == 0 {
		r.fail(`no rules`)
	}
	return rules
}

func (r *pegReader) checkRefs(rules []pegRuleDef) {
	defined := map[string]bool{}
	for _, d := range rules {
		if defined[d.name] {
			panic(pegErr{fmt.Sprintf("untranslatable: %s:%d: rule %s is defined twice", r.file, d.line, d.name)})
		}
		defined[d.name] = true
	}
	var walk func(e *pegExpr)
	walk = func(e *pegExpr) {
		if e.kind == pkRule && !defined[e.name] {
			panic(pegErr{fmt.Sprintf("untranslatable: %s:%d: reference to undefined rule %s", r.file, e.line, e.name)})
		}
		for _, k := range e.kids {
			walk(k)
		}
	}
	for _, d := range rules {
		walk(d.body)
	}
}

// ---------------------------------------------------------------- Lean output

func leanString(s string) string {
	var b strings.Builder
	b.WriteByte('"')
	for _, c := range s {
		switch {
		case c == '\\':
			b.WriteString(`\\`)
		case c == '"':
			b.WriteString(`\"`)
		case c == '\n':
			b.WriteString(`\n`)
		case c == '\t':
			b.WriteString(`\t`)
		case c == '\r':
			b.WriteString(`\r`)
		case c < 0x20 || c == 0x7f:
			fmt.Fprintf(&b, `\x%02x`, c)
		default:
			b.WriteRune(c)
		}
	}
	b.WriteByte('"')
	return b.String()
}

func leanPE(e *pegExpr) string {
	un := func(op string) string { return `(.` + op + ` ` + leanPE(e.kids[0]) + `)` }
	nest := func(op string) string {
		// right-nested binary operators
		out := leanPE(e.kids[len(e.kids)-1])
		for i := len(e.kids) - 2; i >= 0; i-- {
			out = `(.` + op + ` ` + leanPE(e.kids[i]) + ` ` + out + `)`
		}
		return out
	}
	switch e.kind {
	case pkLit:
		return `(.lit ` + leanString(string(e.lit)) + `)`
	case pkCls:
		parts := make([]string, len(e.ranges))
		for i, rg := range e.ranges {
			parts[i] = fmt.Sprintf(`(Char.ofNat %d, Char.ofNat %d)`, rg.lo, rg.hi)
		}
		neg := `false`
		if e.neg {
			neg = `true`
		}
		return `(.cls ` + neg + ` [` + strings.Join(parts, `, `) + `])`
	case pkAny:
		return `.any`
	case pkSeq:
		return nest(`seq`)
	case pkAlt:
		return nest(`alt`)
	case pkStar:
		return un(`star`)
	case pkPlus:
		return un(`plus`)
	case pkOpt:
		return un(`opt`)
	case pkNot:
		return un(`not`)
	case pkAnd:
		return un(`and`)
	case pkRule:
		return `(.rule ` + leanString(e.name) + `)`
	case pkCap:
		return un(`cap`)
	case pkAct:
		return `(.act ` + strconv.Itoa(e.idx) + `)`
	}
	panic(pegErr{`internal: unknown expression kind`})
}

// ---------------------------------------------------------------- jsonpath.peg.go

func normWS(s string) string { return strings.Join(strings.Fields(s), ` `) }

// pegGoTables extracts the bodies of `case ruleAction<N>:` from Execute() and the rule names
// from the `rul3s` table.
func pegGoTables(path string) (actions []string, rules []string, err error) {
	src, rerr := os.ReadFile(path)
	if rerr != nil {
		return nil, nil, rerr
	}
	fset := token.NewFileSet()
	file, perr := parser.ParseFile(fset, path, src, parser.ParseComments)
	if perr != nil {
		return nil, nil, fmt.Errorf("untranslatable: %s:1: does not parse: %v", path, perr)
	}
	bad := func(pos token.Pos, why string) error {
		return fmt.Errorf("untranslatable: %s:%d: %s", path, fset.Position(pos).Line, why)
	}
	off := func(p token.Pos) int { return fset.Position(p).Offset }

	var execute *ast.FuncDecl
	var rul3s *ast.CompositeLit
	for _, d := range file.Decls {
		switch t := d.(type) {
		case *ast.FuncDecl:
			if t.Name.Name == `Execute` && t.Recv != nil {
				if execute != nil {
					return nil, nil, bad(t.Pos(), `two Execute methods`)
				}
				execute = t
			}
		case *ast.GenDecl:
			for _, s := range t.Specs {
				if vs, ok := s.(*ast.ValueSpec); ok && len(vs.Names) == 1 && vs.Names[0].Name == `rul3s` && len(vs.Values) == 1 {
					if cl, ok := vs.Values[0].(*ast.CompositeLit); ok {
						rul3s = cl
					}
				}
			}
		}
	}
	if execute == nil || execute.Body == nil {
		return nil, nil, bad(file.Pos(), `no Execute method`)
	}
	if rul3s == nil {
		return nil, nil, bad(file.Pos(), `no rul3s table`)
	}
	for i, e := range rul3s.Elts {
		bl, ok := e.(*ast.BasicLit)
		if !ok || bl.Kind != token.STRING {
			return nil, nil, bad(e.Pos(), `rul3s entry is not a string literal`)
		}
		s, uerr := strconv.Unquote(bl.Value)
		if uerr != nil {
			return nil, nil, bad(e.Pos(), `rul3s entry does not unquote`)
		}
		if i == 0 {
			if s != `Unknown` {
				return nil, nil, bad(e.Pos(), `first rul3s entry is not "Unknown"`)
			}
			continue
		}
		if s == `PegText` || (strings.HasPrefix(s, `Action`) && isDigits(s[len(`Action`):])) {
			continue
		}
		rules = append(rules, s)
	}

	// Execute: exactly one range statement whose body is exactly one switch on token.pegRule
	var rng *ast.RangeStmt
	for _, st := range execute.Body.List {
		if r, ok := st.(*ast.RangeStmt); ok {
			if rng != nil {
				return nil, nil, bad(r.Pos(), `Execute has two loops`)
			}
			rng = r
		}
	}
	if rng == nil || len(rng.Body.List) != 1 {
		return nil, nil, bad(execute.Pos(), `Execute: expected one loop with one statement`)
	}
	sw, ok := rng.Body.List[0].(*ast.SwitchStmt)
	if !ok || sw.Init != nil {
		return nil, nil, bad(rng.Body.Pos(), `Execute: loop body is not a plain switch`)
	}
	if sel, ok := sw.Tag.(*ast.SelectorExpr); !ok || sel.Sel.Name != `pegRule` {
		return nil, nil, bad(sw.Pos(), `Execute: switch is not on token.pegRule`)
	}
	found := map[int]string{}
	sawText := false
	for i, st := range sw.Body.List {
		cc := st.(*ast.CaseClause)
		if len(cc.List) != 1 {
			return nil, nil, bad(cc.Pos(), `Execute: case with other than one label (or default)`)
		}
		id, ok := cc.List[0].(*ast.Ident)
		if !ok {
			return nil, nil, bad(cc.Pos(), `Execute: case label is not an identifier`)
		}
		end := off(sw.Body.Rbrace)
		if i+1 < len(sw.Body.List) {
			end = off(sw.Body.List[i+1].Pos())
		}
		body := string(src[off(cc.Colon)+1 : end])
		switch {
		case id.Name == `rulePegText`:
			// the capture bookkeeping the Lean model hard-codes (Peg.resolveFrom / Actions.exec)
			want := `begin, end = int(token.begin), int(token.end) text = string(_buffer[begin:end])`
			if normWS(body) != want {
				return nil, nil, bad(cc.Pos(), `Execute: rulePegText case is not the expected capture bookkeeping`)
			}
			sawText = true
		case strings.HasPrefix(id.Name, `ruleAction`) && isDigits(id.Name[len(`ruleAction`):]):
			n, _ := strconv.Atoi(id.Name[len(`ruleAction`):])
			if _, dup := found[n]; dup {
				return nil, nil, bad(cc.Pos(), `Execute: duplicate case `+id.Name)
			}
			found[n] = body
		default:
			return nil, nil, bad(cc.Pos(), `Execute: unexpected case `+id.Name)
		}
	}
	if !sawText {
		return nil, nil, bad(sw.Pos(), `Execute: no rulePegText case`)
	}
	for n := 0; n < len(found); n++ {
		body, ok := found[n]
		if !ok {
			return nil, nil, bad(sw.Pos(), fmt.Sprintf(`Execute: case ruleAction%d is missing`, n))
		}
		actions = append(actions, body)
	}
	return actions, rules, nil
}

func isDigits(s string) bool {
	if s == `` {
		return false
	}
	for _, c := range s {
		if c < '0' || c > '9' {
			return false
		}
	}
	return true
}

// ---------------------------------------------------------------- generator

func genGrammar(repo, out string) (err error) {
	defer func() {
		if x := recover(); x != nil {
			if pe, ok := x.(pegErr); ok {
				err = fmt.Errorf("%s", pe.msg)
				return
			}
			panic(x)
		}
	}()
	pegPath := filepath.Join(repo, `jsonpath.peg`)
	raw, rerr := os.ReadFile(pegPath)
	if rerr != nil {
		return rerr
	}
	rd := &pegReader{file: pegPath, src: []rune(string(raw))}
	rules := rd.grammar()
	rd.checkRefs(rules)

	goPath := filepath.Join(repo, `jsonpath.peg.go`)
	goActions, goRules, gerr := pegGoTables(goPath)
	if gerr != nil {
		return gerr
	}
	if len(goActions) != len(rd.actions) {
		return fmt.Errorf("untranslatable: %s:1: %d action blocks, but %s has %d ruleAction cases",
			pegPath, len(rd.actions), goPath, len(goActions))
	}
	for i := range goActions {
		if normWS(goActions[i]) != normWS(rd.actions[i]) {
			return fmt.Errorf("untranslatable: %s:1: action %d differs from `case ruleAction%d` of %s (after whitespace normalisation)",
				pegPath, i, i, goPath)
		}
	}
	if len(goRules) != len(rules) {
		return fmt.Errorf("untranslatable: %s:1: %d rules, but rul3s of %s names %d", pegPath, len(rules), goPath, len(goRules))
	}
	for i := range rules {
		if rules[i].name != goRules[i] {
			return fmt.Errorf("untranslatable: %s:%d: rule %d is %s, but rul3s of %s says %s",
				pegPath, rules[i].line, i, rules[i].name, goPath, goRules[i])
		}
	}

	var b strings.Builder
	b.WriteString("/- GENERATED by harness/cmd/translate (grammar.go) from jsonpath.peg and jsonpath.peg.go — do not edit. -/\n")
	b.WriteString("import JPV.Peg.Peg\nnamespace JPV.Gen\nopen JPV.Peg\n\n")
	for _, d := range rules {
		fmt.Fprintf(&b, "/-- jsonpath.peg:%d -/\ndef rule_%s : PE :=\n  %s\n\n", d.line, d.name, leanPE(d.body))
	}
	b.WriteString("def grammar : Grammar := [\n")
	for i, d := range rules {
		sep := `,`
		if i == len(rules)-1 {
			sep = ``
		}
		fmt.Fprintf(&b, "  (%s, rule_%s)%s\n", leanString(d.name), d.name, sep)
	}
	b.WriteString("]\n\n")
	list := func(prefix, name string, items []string) {
		for i, s := range items {
			fmt.Fprintf(&b, "def %s%d : String :=\n  %s\n\n", prefix, i, leanString(s))
		}
		fmt.Fprintf(&b, "def %s : List String := [", name)
		for i := range items {
			if i > 0 {
				b.WriteString(`, `)
			}
			if i%8 == 0 {
				b.WriteString("\n  ")
			}
			fmt.Fprintf(&b, "%s%d", prefix, i)
		}
		b.WriteString("]\n\n")
	}
	list(`actionBody`, `actions`, rd.actions)
	// FNV-1a (64 bit) of every whitespace-normalised body: comparing long strings by `decide` is far too
	// slow in Lean's kernel, comparing these numbers is instantaneous (Peg/ActionText.lean: expectedSums)
	b.WriteString("def actionSums : List Nat := [")
	for i, s := range rd.actions {
		if i > 0 {
			b.WriteString(`, `)
		}
		if i%4 == 0 {
			b.WriteString("\n  ")
		}
		h := fnv.New64a()
		h.Write([]byte(normWS(s)))
		fmt.Fprintf(&b, "%d", h.Sum64())
	}
	b.WriteString("]\n\n")
	list(`actionPegGo`, `actionsPegGo`, goActions)
	b.WriteString("def rulesPegGo : List String := [")
	for i, s := range goRules {
		if i > 0 {
			b.WriteString(`, `)
		}
		if i%6 == 0 {
			b.WriteString("\n  ")
		}
		b.WriteString(leanString(s))
	}
	b.WriteString("]\n\nend JPV.Gen\n")
	return os.WriteFile(filepath.Join(out, `Grammar.lean`), []byte(b.String()), 0o644)
}
