// parser_helpers.go — generator "parser_helpers": the helper methods of *jsonPathParser (jsonpath_parser.go),
// the field methods of *syntaxBasicNode and their overrides on *syntaxChildMultiIdentifier, statement by
// statement, as Lean code over the vocabulary of lean/JPV/ParserNode.lean (Gen/ParserHelpersGo.lean).
// All names carry the prefix `ph`. Anything outside the subset stops with `untranslatable: file:line: why`.
//
// What is read: the three files above, and every non-test file of the package for the checks (exact struct
// definitions, the interface syntaxNode, "one cell per node": the embedded *syntaxBasicNode is allocated with
// its struct by a keyed literal and never assigned; which node types override the nine interface methods).
//
// Functions: basic<M> / multi<M> (node methods, state `h : Heap`), node<M> (dispatchers, all nine), the
// methods of *jsonPathParser under their own names (state `p : PS`), except a fixed skip list. fuel / self /
// lib parameters are computed from the call graph (two passes: facts, then text).
//
// Statements: x := e, x = e, var x T, tuple assignment, p.f = e, x.f = e through a node pointer (incl. the
// unionQualifier value of a multi node and errorRuntime), struct locals / &T{…} of node structs (alloc), calls,
// if (plain, `x, ok := e.(*T); ok`, `f, ok := p.filterFunctions[k]; ok`), switch e.(type) without binding,
// for _, x := range E, for COND (with break), return, continue, panic(ErrorFunctionNotFound / ErrorNotSupported),
// and the checked library call `v, err := strconv.Atoi(t); if err != nil { panic(ErrorInvalidArgument{…}) }`.
// An `if` is translated (1) in place when it ends its block, (2) with the rest of the block moved into the
// branches that fall through when some branch may leave, (3) as a join `let V ← (if … : M _)` otherwise
// (also when it ends a branch of a join, as the prototype does).
// Expressions: see expr0 — reads through pointers, indexing, slicing and calls are bound to temporaries t_N in
// evaluation order; a read that would be consumed after a later state change of the same statement is refused.
package main

import (
	"fmt"
	"go/ast"
	"go/token"
	"os"
	"regexp"
	"sort"
	"strconv"
	"strings"
)

func init() { register("parser_helpers", genParserHelpers) }

const (
	phParserFile = "jsonpath_parser.go"
	phBasicFile  = "syntax_basic_node.go"
	phMultiFile  = "syntax_node_identifier_child_multi.go"
)

type phGen struct {
	s        *tiSrc
	files    map[string]*ast.File
	names    []string // all non-test files, sorted
	fns      map[string]*phFn
	srcOrder []string
	defNames map[string]bool
}

func genParserHelpers(repo, out string) error {
	g := &phGen{s: tiNew(repo), files: map[string]*ast.File{}, fns: map[string]*phFn{}, defNames: map[string]bool{}}
	ents, err := os.ReadDir(repo)
	if err != nil {
		return g.s.badFile(phParserFile, "cannot list the package directory: %v", err)
	}
	for _, e := range ents {
		n := e.Name()
		if e.IsDir() || !strings.HasSuffix(n, ".go") || strings.HasSuffix(n, "_test.go") {
			continue
		}
		g.names = append(g.names, n)
	}
	sort.Strings(g.names)
	for _, n := range g.names {
		f, err := g.s.parse(n)
		if err != nil {
			return err
		}
		g.files[n] = f
	}
	for _, n := range []string{phParserFile, phBasicFile, phMultiFile} {
		if g.files[n] == nil {
			return g.s.badFile(n, "file not found")
		}
	}
	if err := g.checkStructs(); err != nil {
		return err
	}
	if err := g.checkCells(); err != nil {
		return err
	}
	if err := g.collect(); err != nil {
		return err
	}
	// pass 1: call edges and direct facts; then the derived facts; pass 2: the text
	for _, n := range g.srcOrder {
		if f := g.fns[n]; !f.disp {
			if _, err := g.translate(f); err != nil {
				return err
			}
		}
	}
	if err := g.analyse(); err != nil {
		return err
	}
	for _, n := range g.srcOrder {
		f := g.fns[n]
		if f.disp {
			if err := g.dispatcher(f); err != nil {
				return err
			}
			continue
		}
		before := *f
		f.calls = map[string]bool{}
		lines, err := g.translate(f)
		if err != nil {
			return err
		}
		if strings.Join(phSortedKeys(before.calls), " ") != strings.Join(phSortedKeys(f.calls), " ") {
			return g.s.bad(f.decl, "internal: the two passes disagree on the calls of %s", f.goName)
		}
		f.text = g.defText(f, lines)
	}
	order, err := g.emitOrder()
	if err != nil {
		return err
	}
	hdr, err := g.s.header("parser_helpers", []string{phParserFile, phBasicFile, phMultiFile},
		"The helper methods of *jsonPathParser, the field methods of *syntaxBasicNode and the overrides of\n"+
			"*syntaxChildMultiIdentifier, one Lean line per Go statement (quoted in the comment), over the\n"+
			"vocabulary of JPV/ParserNode.lean; `node…` are the dynamic dispatchers of the methods of syntaxNode.")
	if err != nil {
		return err
	}
	var b strings.Builder
	b.WriteString(hdr)
	b.WriteString("import JPV.ParserNode\nset_option linter.unusedVariables false\nnamespace JPV.Gen.ParserHelpersGo\nopen JPV JPV.ParserNode\n\n")
	for _, n := range order {
		b.WriteString(g.fns[n].text)
		b.WriteString("\n")
	}
	b.WriteString("end JPV.Gen.ParserHelpersGo\n")
	return tiWrite(out, "ParserHelpersGo.lean", b.String())
}

// translate runs the statement translator over one method; the lines of its body.
func (g *phGen) translate(f *phFn) ([]string, error) {
	s := g.s
	c := &phCtx{g: g, s: s, fn: f, vars: map[string]phVar{}, canRet: true}
	_, recv, _ := tiRecvType(f.decl)
	c.recv = recv
	if f.node {
		c.state = "h"
		c.recv = ""
		if _, err := c.declare(f.decl, recv, "recv:"+f.kind); err != nil {
			return nil, err
		}
	} else {
		c.state = "p"
		if recv != "p" {
			return nil, s.bad(f.decl, "the receiver of a parser method must be named p")
		}
	}
	f.pnames = nil
	names, _ := tiFlatParams(f.decl.Type.Params)
	for i, n := range names {
		ln, err := c.declare(f.decl, n, f.ptypes[i])
		if err != nil {
			return nil, err
		}
		f.pnames = append(f.pnames, ln)
	}
	if f.result == "" {
		c.kont = ".ok " + c.state
	}
	c.open()
	c.indent = 1
	if !f.node && f.cyclic {
		c.indent = 2
	}
	f.dWrites, f.dReadsP, f.dLib, f.dFor = false, false, false, false
	err := c.block(f.decl.Body.List, f.decl.Body)
	lines, _ := c.close()
	if err != nil {
		return nil, err
	}
	return lines, nil
}

// ---- tables, variable kinds, translation context.

// Static types (as strings): string bool int float item nref sub idx q cp cmp items itemss strs nrefs subs
// ptr (a Ptr temp) err (unusable) regex:<lean string> func:<kind> nptr:<kind> (non-nil *T) nloc:<kind> (struct local)
// recv:<kind> (the receiver of a node method; kind basic / multi).

var phLeanType = map[string]string{
	"string": "String", "bool": "Bool", "int": "Int", "float": "Int", "item": "GItem", "nref": "NRef",
	"sub": "GSub", "idx": "GIdx", "q": "GQ", "cp": "GCP", "cmp": "Cmp", "items": "List GItem",
	"itemss": "List (List GItem)", "strs": "List String",
}

// Go type text → static type (parameters, results, var declarations).
var phGoType = map[string]string{
	"string": "string", "bool": "bool", "int": "int", "float64": "float", "interface{}": "item",
	"syntaxNode": "nref", "syntaxSubscript": "sub", "*syntaxIndexSubscript": "idx", "syntaxQuery": "q",
	"*syntaxBasicCompareParameter": "cp", "syntaxComparator": "cmp", "[]interface{}": "items",
	"[][]interface{}": "itemss",
}

var phZero = map[string]string{"bool": "false", "string": `""`, "int": "0", "item": "GItem.nilv", "nref": "none"}

// element types of lists
var phElem = map[string]string{"items": "item", "itemss": "items", "strs": "string", "nrefs": "nref", "subs": "sub"}

// the ten node structs
var phKinds = map[string]string{
	"syntaxRootIdentifier": "root", "syntaxCurrentRootIdentifier": "cur", "syntaxChildSingleIdentifier": "child",
	"syntaxChildWildcardIdentifier": "wild", "syntaxChildMultiIdentifier": "multi",
	"syntaxRecursiveChildIdentifier": "desc", "syntaxUnionQualifier": "union", "syntaxFilterQualifier": "filter",
	"syntaxFilterFunction": "ffn", "syntaxAggregateFunction": "afn",
}

type phField struct{ name, typ string }

// fields of syntaxBasicNode (cell fields every kind has); errorRuntime is special
var phBasicFields = []phField{{"text", "string"}, {"connectedText", "string"}, {"valueGroup", "bool"},
	{"next", "nref"}, {"accessorMode", "bool"}, {"errorRuntime", "errrt"}}

// own fields per kind
var phOwnFields = map[string][]phField{
	"child": {{"identifier", "string"}},
	"multi": {{"identifiers", "nrefs"}, {"isAllWildcard", "bool"}, {"unionQualifier", "uq"}},
	"desc":  {{"nextMapRequired", "bool"}, {"nextListRequired", "bool"}},
	"union": {{"subscripts", "subs"}}, "filter": {{"query", "q"}},
	"ffn": {{"function", "func:ffn"}}, "afn": {{"function", "func:afn"}, {"param", "nref"}},
}

func phFieldType(kind, name string) (string, bool) {
	for _, f := range phBasicFields {
		if f.name == name {
			return f.typ, true
		}
	}
	for _, f := range phOwnFields[kind] {
		if f.name == name {
			return f.typ, true
		}
	}
	return "", false
}

func phIsBasicField(name string) bool {
	for _, f := range phBasicFields {
		if f.name == name {
			return true
		}
	}
	return false
}

// the nine interface methods, in the order of the interface
var phIfaceMethods = []string{"setText", "getText", "setValueGroup", "isValueGroup", "setConnectedText",
	"getConnectedText", "setNext", "getNext", "setAccessorMode"}

func phIsIfaceMethod(m string) bool {
	for _, x := range phIfaceMethods {
		if x == m {
			return true
		}
	}
	return false
}

func phCap(m string) string { return strings.ToUpper(m[:1]) + m[1:] }

var phSkip = map[string]bool{"unescape": true, "unescapeSingleQuotedString": true, "unescapeDoubleQuotedString": true,
	"_unescapeJSONString": true, "syntaxErr": true, "compareParameterRank": true, "isSwapRequired": true,
	"pushCompareEQ": true, "pushCompareNE": true, "pushCompareGE": true, "pushCompareGT": true,
	"pushCompareLE": true, "pushCompareLT": true}

var phRename = map[string]bool{}
var phReserved = map[string]bool{}

func init() {
	for _, k := range strings.Fields(`end postfix prefix infix infixl infixr from at do then fun have show open instance where with
		match let in if else def theorem structure namespace section variable universe import mutual deriving class macro
		syntax notation partial unsafe private protected return for unless try catch finally mut nomatch nofun calc by
		Type Prop Sort abbrev inductive example axiom lemma using extends noncomputable attribute local scoped
		export set_option termination_by decreasing_by omit include suffices obtain exact`) {
		phRename[k] = true
	}
	for _, k := range strings.Fields(`h p fuel lib self brk c M Heap PS Ptr NRef GItem GQ GCP GSub GIdx Cmp Kind Err Lib Cell UQ
		ErrRt GoFunc forEach whileLoop goLen sliceIndex sliceTo sliceFrom some none true false rd wr nil len append panic
		strconv regexp string bool int float64 error cap make new copy delete Option List String Bool Int Nat Except
		JPV ParserNode Gen ok pure bind id not and or`) {
		phReserved[k] = true
	}
}

var phIdentRe = regexp.MustCompile(`^[A-Za-z_][A-Za-z0-9_]*$`)
var phTempRe = regexp.MustCompile(`^t_[0-9]+$`)

// phFn: one function of the output (a translated method or a dispatcher).
type phFn struct {
	lean   string // name in Lean
	goName string
	recvT  string // Go receiver type
	file   string
	decl   *ast.FuncDecl
	node   bool   // node method (state h) vs parser method (state p)
	kind   string // receiver kind for node methods: basic / multi
	disp   bool   // dispatcher
	pnames []string
	ptypes []string
	vari   bool   // last parameter is variadic
	result string // "" = void
	// direct facts (recorded while translating)
	dWrites, dReadsP, dLib, dFor bool
	calls                        map[string]bool
	// derived
	writes, readsP, lib, fuelled, cyclic, self, fuelParam bool
	scc                                                   string // name of the dispatcher of its SCC ("" if none)
	impls                                                 []string
	text                                                  string
}

type phVar struct{ typ, lean string }

type phFrame struct {
	outer    map[string]bool
	assigned map[string]bool
	saved    map[string]phVar
	savedOrd []string
	lines    []string
}

type phCtx struct {
	g       *phGen
	s       *tiSrc
	fn      *phFn
	state   string // "h" / "p"
	recv    string
	vars    map[string]phVar // by Go name
	order   []string
	frames  []*phFrame
	indent  int
	tmp     int
	ver     int    // state version (bumped by every state-changing line)
	kont    string // what falling off the block means ("" = not allowed)
	brk     string // what `break` means ("" = not allowed)
	cont    bool   // `continue` allowed
	canRet  bool
	noHoist bool
	inJoin  bool // inside a branch of a join
	inBrk   bool // inside a `for cond` loop that has a break
}

const phHole = "\x00V\x00"
const phHoleB = "\x00B\x00"

func (c *phCtx) emit(format string, args ...interface{}) {
	f := c.frames[len(c.frames)-1]
	f.lines = append(f.lines, strings.Repeat("  ", c.indent)+fmt.Sprintf(format, args...))
}

func (c *phCtx) appendLines(lines []string) {
	f := c.frames[len(c.frames)-1]
	f.lines = append(f.lines, lines...)
}

func (c *phCtx) open() {
	f := &phFrame{outer: map[string]bool{c.state: true}, assigned: map[string]bool{}, saved: map[string]phVar{}}
	for k, v := range c.vars {
		f.outer[k] = true
		f.saved[k] = v
	}
	f.savedOrd = append([]string(nil), c.order...)
	c.frames = append(c.frames, f)
}

// close pops the frame: its lines and the outer variables it assigned (Go names; the state last).
func (c *phCtx) close() ([]string, []string) {
	f := c.frames[len(c.frames)-1]
	c.frames = c.frames[:len(c.frames)-1]
	c.vars = f.saved
	c.order = f.savedOrd
	return f.lines, c.inOrder(f.assigned)
}

// inOrder lists the marked variables in declaration order, the state last.
func (c *phCtx) inOrder(as map[string]bool) []string {
	var out []string
	for _, n := range c.order {
		if as[n] {
			out = append(out, n)
		}
	}
	if as[c.state] {
		out = append(out, c.state)
	}
	return out
}

// leanNames maps Go names (and the state) to their Lean names.
func (c *phCtx) leanNames(names []string) []string {
	var out []string
	for _, n := range names {
		if n == c.state {
			out = append(out, n)
		} else {
			out = append(out, c.vars[n].lean)
		}
	}
	return out
}

// bound records that the Go variable (or the state) is rebound by a `let` on the current line.
func (c *phCtx) bound(name string) {
	for _, f := range c.frames {
		if f.outer[name] {
			f.assigned[name] = true
		}
	}
}

// stateChanged: the current line rebinds the state.
func (c *phCtx) stateChanged() {
	c.bound(c.state)
	c.ver++
	c.fn.dWrites = true
}

func (c *phCtx) leanName(n ast.Node, name string) (string, error) {
	if !phIdentRe.MatchString(name) || name == "_" || phReserved[name] || phTempRe.MatchString(name) ||
		c.g.defNames[name] || strings.Contains(name, "__") {
		return "", c.s.bad(n, "identifier %q cannot be carried over to Lean", name)
	}
	if phRename[name] {
		if _, clash := c.vars[name+"_"]; clash {
			return "", c.s.bad(n, "identifier %q clashes after renaming", name)
		}
		return name + "_", nil
	}
	if strings.HasSuffix(name, "_") && phRename[strings.TrimSuffix(name, "_")] {
		return "", c.s.bad(n, "identifier %q clashes with a renamed keyword", name)
	}
	return name, nil
}

func (c *phCtx) declare(n ast.Node, name, typ string) (string, error) {
	ln, err := c.leanName(n, name)
	if err != nil {
		return "", err
	}
	if _, dup := c.vars[name]; dup || name == c.recv {
		return "", c.s.bad(n, "%q is declared twice (shadowing is not translated)", name)
	}
	c.vars[name] = phVar{typ, ln}
	c.order = append(c.order, name)
	return ln, nil
}

func (c *phCtx) fresh() string {
	c.tmp++
	return "t_" + strconv.Itoa(c.tmp)
}

// heap is the Lean term for the heap to read from.
func (c *phCtx) heap() string {
	if c.fn.node {
		return "h"
	}
	c.fn.dReadsP = true
	return "p.heap"
}

func phTuple(vars []string) string {
	if len(vars) == 1 {
		return vars[0]
	}
	return "(" + strings.Join(vars, ", ") + ")"
}

func phSortedKeys(m map[string]bool) []string {
	var ks []string
	for k := range m {
		ks = append(ks, k)
	}
	sort.Strings(ks)
	return ks
}

// ---- the struct / interface / one-cell checks of §1.1.

// expected struct definitions: "name type" per field ("" name: embedded)
var phStructs = map[string][]string{
	"syntaxBasicNode": {"text string", "connectedText string", "valueGroup bool", "next syntaxNode", "accessorMode bool",
		"errorRuntime *errorBasicRuntime"},
	"jsonPathParser": {"root syntaxNode", "paramsList [][]interface{}", "params []interface{}", "unescapeRegex *regexp.Regexp",
		"filterFunctions map[string]func(interface{}) (interface{}, error)",
		"aggregateFunctions map[string]func([]interface{}) (interface{}, error)", "accessorMode bool"},
	"syntaxRootIdentifier":          {" *syntaxBasicNode"},
	"syntaxCurrentRootIdentifier":   {" *syntaxBasicNode"},
	"syntaxChildSingleIdentifier":   {" *syntaxBasicNode", "identifier string"},
	"syntaxChildWildcardIdentifier": {" *syntaxBasicNode"},
	"syntaxChildMultiIdentifier": {" *syntaxBasicNode", "identifiers []syntaxNode", "isAllWildcard bool",
		"unionQualifier syntaxUnionQualifier"},
	"syntaxRecursiveChildIdentifier": {" *syntaxBasicNode", "nextMapRequired bool", "nextListRequired bool"},
	"syntaxUnionQualifier":           {" *syntaxBasicNode", "subscripts []syntaxSubscript"},
	"syntaxFilterQualifier":          {" *syntaxBasicNode", "query syntaxQuery"},
	"syntaxFilterFunction":           {" *syntaxBasicNode", "function func(interface{}) (interface{}, error)"},
	"syntaxAggregateFunction": {" *syntaxBasicNode", "function func([]interface{}) (interface{}, error)",
		"param syntaxNode"},
	"syntaxBasicSubscript": {"valueGroup bool"},
	"syntaxIndexSubscript": {" *syntaxBasicSubscript", "number int", "isOmitted bool"},
	"syntaxSlicePositiveStepSubscript": {" *syntaxBasicSubscript", "start *syntaxIndexSubscript", "end *syntaxIndexSubscript",
		"step *syntaxIndexSubscript"},
	"syntaxSliceNegativeStepSubscript": {" *syntaxBasicSubscript", "start *syntaxIndexSubscript", "end *syntaxIndexSubscript",
		"step *syntaxIndexSubscript"},
	"syntaxWildcardSubscript": {" *syntaxBasicSubscript"},
	"syntaxLogicalOr":         {"leftQuery syntaxQuery", "rightQuery syntaxQuery"},
	"syntaxLogicalAnd":        {"leftQuery syntaxQuery", "rightQuery syntaxQuery"},
	"syntaxLogicalNot":        {"query syntaxQuery"},
	"syntaxBasicCompareQuery": {"leftParam *syntaxBasicCompareParameter", "rightParam *syntaxBasicCompareParameter",
		"comparator syntaxComparator"},
	"syntaxBasicCompareParameter": {"param syntaxQuery", "isLiteral bool"},
	"syntaxQueryParamLiteral":     {"literal []interface{}"},
	"syntaxQueryParamRoot":        {"param syntaxNode"},
	"syntaxQueryParamCurrentRoot": {"param syntaxNode"},
	"syntaxCompareRegex":          {" *syntaxBasicStringTypeValidator", "regex *regexp.Regexp"},
}

// the methods of syntaxNode: name → signature as printed
var phIfaceSig = map[string]string{
	"retrieve": "(root, current interface{}, container *bufferContainer) errorRuntime", "setText": "(text string)",
	"getText": "() string", "setValueGroup": "()", "isValueGroup": "() bool", "setConnectedText": "(text string)",
	"getConnectedText": "() string", "setNext": "(next syntaxNode)", "getNext": "() syntaxNode",
	"setAccessorMode": "(mode bool)",
}

// parameter / result types of the nine interface methods
var phIfaceTypes = map[string]struct {
	ptypes []string
	result string
}{
	"setText": {[]string{"string"}, ""}, "getText": {nil, "string"}, "setValueGroup": {nil, ""}, "isValueGroup": {nil, "bool"},
	"setConnectedText": {[]string{"string"}, ""}, "getConnectedText": {nil, "string"}, "setNext": {[]string{"nref"}, ""},
	"getNext": {nil, "nref"}, "setAccessorMode": {[]string{"bool"}, ""},
}

func (g *phGen) checkStructs() error {
	s := g.s
	seen := map[string]bool{}
	ifaceSeen := false
	for _, fn := range g.names {
		for _, d := range g.files[fn].Decls {
			gd, ok := d.(*ast.GenDecl)
			if !ok || gd.Tok != token.TYPE {
				continue
			}
			for _, sp := range gd.Specs {
				ts := sp.(*ast.TypeSpec)
				name := ts.Name.Name
				if name == "syntaxNode" {
					it, ok := ts.Type.(*ast.InterfaceType)
					if !ok || ifaceSeen || ts.Assign.IsValid() || ts.TypeParams != nil {
						return s.bad(ts, "syntaxNode is expected to be declared once, as an interface")
					}
					ifaceSeen = true
					n := 0
					for _, m := range it.Methods.List {
						ft, ok := m.Type.(*ast.FuncType)
						if !ok || len(m.Names) != 1 {
							return s.bad(m, "embedded interface in syntaxNode")
						}
						want, ok := phIfaceSig[m.Names[0].Name]
						if !ok || strings.TrimPrefix(s.str(ft), "func") != want {
							return s.bad(m, "unexpected method %s%s of syntaxNode", m.Names[0].Name, strings.TrimPrefix(s.str(ft), "func"))
						}
						n++
					}
					if n != len(phIfaceSig) {
						return s.bad(ts, "syntaxNode is expected to have exactly %d methods", len(phIfaceSig))
					}
					continue
				}
				want, ok := phStructs[name]
				if !ok {
					continue
				}
				st, isStruct := ts.Type.(*ast.StructType)
				if !isStruct || seen[name] || ts.Assign.IsValid() || ts.TypeParams != nil {
					return s.bad(ts, "%s is expected to be declared once, as a struct", name)
				}
				seen[name] = true
				var got []string
				for i, f := range st.Fields.List {
					if len(f.Names) == 0 {
						if i != 0 {
							return s.bad(f, "embedded field of %s that is not the first field", name)
						}
						got = append(got, " "+s.str(f.Type))
					}
					for _, n := range f.Names {
						got = append(got, n.Name+" "+s.str(f.Type))
					}
				}
				w := append([]string(nil), want...)
				sort.Strings(w)
				sort.Strings(got)
				if strings.Join(w, "; ") != strings.Join(got, "; ") {
					return s.bad(ts, "struct %s: expected the fields {%s}, found {%s}", name, strings.Join(w, "; "), strings.Join(got, "; "))
				}
			}
		}
	}
	if !ifaceSeen {
		return s.badFile("syntax_if_node.go", "interface syntaxNode not found")
	}
	var missing []string
	for n := range phStructs {
		if !seen[n] {
			missing = append(missing, n)
		}
	}
	sort.Strings(missing)
	if len(missing) > 0 {
		return s.badFile(phParserFile, "struct %s not found", missing[0])
	}
	return nil
}

// checkCells: one cell per node — the embedded *syntaxBasicNode is allocated with its struct and never reassigned.
func (g *phGen) checkCells() error {
	s := g.s
	for _, fn := range g.names {
		var err error
		ast.Inspect(g.files[fn], func(n ast.Node) bool {
			if err != nil {
				return false
			}
			switch n := n.(type) {
			case *ast.AssignStmt:
				for _, l := range n.Lhs {
					for {
						p, ok := l.(*ast.ParenExpr)
						if !ok {
							break
						}
						l = p.X
					}
					if se, ok := l.(*ast.SelectorExpr); ok && se.Sel.Name == "syntaxBasicNode" {
						err = s.bad(n, "the embedded *syntaxBasicNode of a node is assigned")
					}
				}
			case *ast.KeyValueExpr:
				if tiIsIdent(n.Key, "syntaxBasicNode") {
					if name, _, ok := phPtrLit(n.Value); !ok || name != "syntaxBasicNode" {
						err = s.bad(n, "the key syntaxBasicNode is given something else than a fresh &syntaxBasicNode{…}")
					}
				}
			case *ast.CompositeLit:
				if id, ok := n.Type.(*ast.Ident); ok && phKinds[id.Name] != "" {
					for _, el := range n.Elts {
						if _, kv := el.(*ast.KeyValueExpr); !kv {
							err = s.bad(n, "positional composite literal of the node struct %s", id.Name)
						}
					}
				}
			}
			return true
		})
		if err != nil {
			return err
		}
	}
	return nil
}

// ---- which methods are translated (§1.2).

var phSubscriptTypes = map[string]bool{"syntaxIndexSubscript": true, "syntaxSlicePositiveStepSubscript": true,
	"syntaxSliceNegativeStepSubscript": true, "syntaxWildcardSubscript": true}

// signature fills ptypes / vari / result of f from its declaration.
func (g *phGen) signature(f *phFn) error {
	s := g.s
	d := f.decl
	if d.Type.TypeParams != nil || d.Body == nil {
		return s.bad(d, "generic or bodyless method %s", d.Name.Name)
	}
	names, types := tiFlatParams(d.Type.Params)
	for i, t := range types {
		if names[i] == "" || names[i] == "_" {
			return s.bad(d, "unnamed parameter of %s", d.Name.Name)
		}
		if el, ok := t.(*ast.Ellipsis); ok {
			if i != len(types)-1 || !tiIsIdent(el.Elt, "string") {
				return s.bad(d, "variadic parameter of %s (only a final ...string)", d.Name.Name)
			}
			f.ptypes = append(f.ptypes, "strs")
			f.vari = true
			continue
		}
		pt, ok := phGoType[s.str(t)]
		if !ok {
			return s.bad(d, "parameter %s of %s has the type %s, which has no Lean counterpart", names[i], d.Name.Name, s.str(t))
		}
		f.ptypes = append(f.ptypes, pt)
	}
	rn, rt := tiFlatParams(d.Type.Results)
	switch {
	case len(rt) == 0:
	case len(rt) == 1 && rn[0] == "":
		t, ok := phGoType[s.str(rt[0])]
		if !ok || t == "itemss" {
			return s.bad(d, "the result type %s of %s has no Lean counterpart", s.str(rt[0]), d.Name.Name)
		}
		f.result = t
	default:
		return s.bad(d, "%s has several or named results", d.Name.Name)
	}
	return nil
}

func (g *phGen) add(f *phFn) error {
	if _, dup := g.fns[f.lean]; dup {
		return g.s.bad(f.decl, "%s is declared twice", f.lean)
	}
	f.calls = map[string]bool{}
	g.fns[f.lean] = f
	g.defNames[f.lean] = true
	g.srcOrder = append(g.srcOrder, f.lean)
	return nil
}

func (g *phGen) nodeImpl(file string, d *ast.FuncDecl, kind, prefix string) error {
	f := &phFn{lean: prefix + phCap(d.Name.Name), goName: d.Name.Name, file: file, decl: d, node: true, kind: kind}
	f.recvT, _, _ = tiRecvType(d)
	if err := g.signature(f); err != nil {
		return err
	}
	want := phIfaceTypes[d.Name.Name]
	if strings.Join(f.ptypes, ",") != strings.Join(want.ptypes, ",") || f.result != want.result || f.vari {
		return g.s.bad(d, "%s does not have the signature of syntaxNode.%s", f.lean, d.Name.Name)
	}
	return g.add(f)
}

func (g *phGen) collect() error {
	s := g.s
	// files in the order: basic, multi, the others (sorted), the parser last
	order := []string{phBasicFile, phMultiFile}
	for _, n := range g.names {
		if n != phBasicFile && n != phMultiFile && n != phParserFile {
			order = append(order, n)
		}
	}
	var parser []*ast.FuncDecl
	for _, fn := range append(order, phParserFile) {
		for _, d := range g.files[fn].Decls {
			fd, ok := d.(*ast.FuncDecl)
			if !ok {
				continue
			}
			typ, _, ptr := tiRecvType(fd)
			special := fn == phBasicFile || fn == phMultiFile || fn == phParserFile
			if fd.Recv == nil {
				if special {
					return s.bad(fd, "function %s: only methods are expected in %s", fd.Name.Name, fn)
				}
				continue
			}
			name := fd.Name.Name
			switch {
			case typ == "jsonPathParser":
				if fn != phParserFile {
					return s.bad(fd, "method %s of jsonPathParser outside %s", name, phParserFile)
				}
				if !ptr {
					return s.bad(fd, "method %s of jsonPathParser with a value receiver", name)
				}
				if !phSkip[name] {
					parser = append(parser, fd)
				}
			case typ == "syntaxBasicNode":
				if fn != phBasicFile && phIsIfaceMethod(name) {
					return s.bad(fd, "method %s of syntaxBasicNode outside %s", name, phBasicFile)
				}
				if !phIsIfaceMethod(name) {
					continue
				}
				if !ptr {
					return s.bad(fd, "method %s of syntaxBasicNode with a value receiver", name)
				}
				if err := g.nodeImpl(fn, fd, "basic", "basic"); err != nil {
					return err
				}
			case phKinds[typ] != "":
				if !phIsIfaceMethod(name) {
					continue
				}
				if !ptr {
					return s.bad(fd, "override of %s on %s with a value receiver", name, typ)
				}
				if typ != "syntaxChildMultiIdentifier" {
					return s.bad(fd, "override of %s on %s (only overrides on syntaxChildMultiIdentifier are understood)", name, typ)
				}
				if err := g.nodeImpl(fn, fd, "multi", "multi"); err != nil {
					return err
				}
			case phSubscriptTypes[typ] && name == "isValueGroup":
				return s.bad(fd, "%s declares its own isValueGroup", typ)
			case typ == "syntaxBasicSubscript" && name == "isValueGroup":
				_, recv, _ := tiRecvType(fd)
				if !ptr || recv == "" || fd.Body == nil || s.str(fd.Body) != "{ return "+recv+".valueGroup }" {
					return s.bad(fd, "(*syntaxBasicSubscript).isValueGroup: expected the body { return s.valueGroup }")
				}
			case special && fn != phMultiFile:
				return s.bad(fd, "method of %s in %s", typ, fn)
			case special && typ != "syntaxChildMultiIdentifier":
				return s.bad(fd, "method of %s in %s", typ, fn)
			}
		}
	}
	for _, m := range phIfaceMethods {
		if g.fns["basic"+phCap(m)] == nil {
			return s.badFile(phBasicFile, "(*syntaxBasicNode).%s not found", m)
		}
	}
	for _, m := range phIfaceMethods {
		b := g.fns["basic"+phCap(m)]
		f := &phFn{lean: "node" + phCap(m), goName: m, node: true, disp: true, ptypes: b.ptypes, result: b.result, decl: b.decl}
		f.impls = []string{b.lean}
		if o := g.fns["multi"+phCap(m)]; o != nil {
			f.impls = []string{o.lean, b.lean}
		}
		if err := g.add(f); err != nil {
			return err
		}
	}
	for _, fd := range parser {
		name := fd.Name.Name
		if phReserved[name] || phRename[name] || g.defNames[name] || phTempRe.MatchString(name) || !phIdentRe.MatchString(name) {
			return s.bad(fd, "the method name %s cannot be used in Lean", name)
		}
		f := &phFn{lean: name, goName: name, recvT: "jsonPathParser", file: phParserFile, decl: fd}
		if err := g.signature(f); err != nil {
			return err
		}
		if err := g.add(f); err != nil {
			return err
		}
	}
	return nil
}

// ---- call graph, fuel / self / lib (§3.1), emission order (§3.2).

func (g *phGen) callees(f *phFn) []string {
	m := map[string]bool{}
	for k := range f.calls {
		m[k] = true
	}
	for _, k := range f.impls {
		m[k] = true
	}
	return phSortedKeys(m)
}

// reach: the functions reachable from `from` by at least one call, inside `within` (nil: everywhere).
func (g *phGen) reach(from string, within map[string]bool) map[string]bool {
	seen := map[string]bool{}
	var dfs func(n string)
	dfs = func(n string) {
		for _, k := range g.callees(g.fns[n]) {
			if (within == nil || within[k]) && !seen[k] {
				seen[k] = true
				dfs(k)
			}
		}
	}
	dfs(from)
	return seen
}

func (g *phGen) analyse() error {
	s := g.s
	names := append([]string(nil), g.srcOrder...)
	sort.Strings(names)
	reach := map[string]map[string]bool{}
	for _, n := range names {
		reach[n] = g.reach(n, nil)
	}
	for _, n := range names {
		f := g.fns[n]
		f.cyclic = reach[n][n]
		if f.node && !f.disp && f.result != "" && f.dWrites {
			return s.bad(f.decl, "%s writes and has a result", f.lean)
		}
		if f.node && f.dLib {
			return s.bad(f.decl, "library call in a node method")
		}
	}
	for _, n := range names {
		f := g.fns[n]
		if !f.cyclic {
			continue
		}
		comp := map[string]bool{}
		for _, m := range names {
			if reach[n][m] && reach[m][n] {
				comp[m] = true
			}
		}
		if len(comp) == 1 && !f.node {
			continue // (b) a self-recursive parser method
		}
		var disp *phFn
		for _, m := range phSortedKeys(comp) {
			if g.fns[m].disp {
				if disp != nil {
					return s.bad(f.decl, "%s is in a cycle through two dispatchers (%s, %s)", f.lean, disp.lean, m)
				}
				disp = g.fns[m]
			}
		}
		if disp == nil {
			return s.bad(f.decl, "%s is mutually recursive (only recursion through one dispatcher or direct self-recursion of a parser method)", f.lean)
		}
		rest := map[string]bool{}
		for _, m := range phSortedKeys(comp) {
			if m == disp.lean {
				continue
			}
			isImpl := false
			for _, im := range disp.impls {
				if im == m {
					isImpl = true
				}
			}
			if !isImpl {
				return s.bad(g.fns[m].decl, "%s is in a cycle with the dispatcher %s without being one of its implementations", m, disp.lean)
			}
			rest[m] = true
		}
		for _, m := range phSortedKeys(rest) {
			if g.reach(m, rest)[m] {
				return s.bad(g.fns[m].decl, "%s is recursive without going through the dispatcher %s", m, disp.lean)
			}
		}
		f.scc = disp.lean
		f.self = !f.disp
	}
	// fixpoints
	for changed := true; changed; {
		changed = false
		set := func(b *bool, v bool) {
			if v && !*b {
				*b = true
				changed = true
			}
		}
		for _, n := range names {
			f := g.fns[n]
			set(&f.fuelled, f.dFor || f.cyclic)
			set(&f.lib, f.dLib)
			if f.node {
				set(&f.writes, f.result == "")
				if f.self {
					set(&f.fuelParam, f.dFor)
				}
			} else if f.result == "" {
				set(&f.writes, true)
				set(&f.readsP, true)
			} else {
				set(&f.writes, f.dWrites)
				set(&f.readsP, f.dReadsP)
			}
			for _, k := range g.callees(f) {
				c := g.fns[k]
				set(&f.fuelled, c.fuelled)
				set(&f.lib, c.lib)
				if !f.node && !c.node && c.result != "" {
					set(&f.writes, c.writes)
					set(&f.readsP, c.readsP || c.writes)
				}
				if f.self && !f.disp {
					if c.scc == f.scc && c.scc != "" {
						set(&f.fuelParam, !c.disp && c.fuelParam)
					} else {
						set(&f.fuelParam, c.fuelled)
					}
				}
			}
		}
	}
	for _, n := range names {
		f := g.fns[n]
		if f.node && f.lib {
			return s.bad(f.decl, "%s needs the library functions", f.lean)
		}
		if f.node && !f.self && !f.disp {
			f.fuelParam = f.fuelled
		}
		if f.disp && f.fuelled && !f.cyclic {
			return s.bad(f.decl, "the dispatcher %s needs fuel without being recursive", f.lean)
		}
	}
	return nil
}

// emitOrder: repeatedly the first function in source order all of whose callees outside its SCC are emitted.
func (g *phGen) emitOrder() ([]string, error) {
	done := map[string]bool{}
	var out []string
	for len(out) < len(g.srcOrder) {
		progress := false
		for _, n := range g.srcOrder {
			if done[n] {
				continue
			}
			f := g.fns[n]
			ready := true
			for _, k := range g.callees(f) {
				if k == n || done[k] || (!f.disp && f.scc != "" && k == f.scc) {
					continue
				}
				ready = false
			}
			if ready {
				done[n] = true
				out = append(out, n)
				progress = true
				break
			}
		}
		if !progress {
			return nil, g.s.badFile(phParserFile, "internal: no emission order")
		}
	}
	return out, nil
}

// ---- the `def` headers (§3) and the dispatchers.

func phLean(t string) string {
	if l, ok := phLeanType[t]; ok {
		return l
	}
	return "?" + t
}

// nodeResult: the Lean result type of a node method.
func phNodeResult(f *phFn) string {
	if f.result == "" {
		return "M Heap"
	}
	return "M " + phArgParen(phLean(f.result))
}

func phArgParen(t string) string {
	if strings.Contains(t, " ") {
		return "(" + t + ")"
	}
	return t
}

// selfType: the type of `nodeM fuel`.
func phSelfType(d *phFn) string {
	t := "NRef → "
	for _, p := range d.ptypes {
		t += phLean(p) + " → "
	}
	return t + "Heap → " + phNodeResult(d)
}

func (g *phGen) defText(f *phFn, lines []string) string {
	var b strings.Builder
	line := g.s.line(f.decl)
	if f.node {
		_, recv, _ := tiRecvType(f.decl)
		doc := fmt.Sprintf("/-- (*%s).%s (%s:%d)", f.recvT, f.goName, f.file, line)
		sig := "def " + f.lean
		if f.self {
			doc += fmt.Sprintf("; `self`: syntaxNode.%s", f.goName)
			sig += " (self : " + phSelfType(g.fns[f.scc]) + ")"
		}
		if f.fuelParam {
			sig += " (fuel : Nat)"
		}
		sig += " (" + recv + " : Ptr)"
		for i, p := range f.pnames {
			sig += " (" + p + " : " + phLean(f.ptypes[i]) + ")"
		}
		fmt.Fprintf(&b, "%s -/\n%s (h : Heap) : %s := do\n", doc, sig, phNodeResult(f))
		b.WriteString(strings.Join(lines, "\n"))
		b.WriteString("\n")
		return b.String()
	}
	res := "M PS"
	switch {
	case f.result == "":
	case f.writes:
		res = "M (" + phLean(f.result) + " × PS)"
	default:
		res = "M " + phArgParen(phLean(f.result))
	}
	hasP := f.result == "" || f.writes || f.readsP
	fmt.Fprintf(&b, "/-- (*jsonPathParser).%s (%s:%d) -/\n", f.goName, f.file, line)
	if f.cyclic {
		typ, pats, blanks := "Nat → ", "fuel + 1", "0"
		if f.lib {
			typ, pats, blanks = typ+"Lib → ", pats+", lib", blanks+", _"
		}
		for i, p := range f.pnames {
			typ, pats, blanks = typ+phLean(f.ptypes[i])+" → ", pats+", "+p, blanks+", _"
		}
		if hasP {
			typ, pats, blanks = typ+"PS → ", pats+", p", blanks+", _"
		}
		fmt.Fprintf(&b, "def %s : %s%s\n  | %s => .error .outOfFuel\n  | %s => do\n", f.lean, typ, res, blanks, pats)
	} else {
		sig := "def " + f.lean
		if f.fuelled {
			sig += " (fuel : Nat)"
		}
		if f.lib {
			sig += " (lib : Lib)"
		}
		for i, p := range f.pnames {
			sig += " (" + p + " : " + phLean(f.ptypes[i]) + ")"
		}
		if hasP {
			sig += " (p : PS)"
		}
		fmt.Fprintf(&b, "%s : %s := do\n", sig, res)
	}
	b.WriteString(strings.Join(lines, "\n"))
	b.WriteString("\n")
	return b.String()
}

// dispatcher writes the text of `nodeM`.
func (g *phGen) dispatcher(d *phFn) error {
	basic := g.fns["basic"+phCap(d.goName)]
	args := basic.pnames
	for _, a := range args {
		if a == "n" || a == "i" {
			return g.s.bad(basic.decl, "the parameter name %s clashes with the dispatcher's own names", a)
		}
	}
	argText := ""
	for _, a := range args {
		argText += " " + a
	}
	var b strings.Builder
	fmt.Fprintf(&b, "/-- syntaxNode.%s -/\n", d.goName)
	arm := func(indent string) {
		for _, im := range d.impls {
			f := g.fns[im]
			pat := "some (_, i)"
			if f.kind == "multi" {
				pat = "some (.multi, i)"
			}
			head := f.lean
			if f.self {
				head += " (" + d.lean + " fuel)"
			}
			if f.fuelParam {
				head += " fuel"
			}
			fmt.Fprintf(&b, "%s| %s => %s (some i)%s h\n", indent, pat, head, argText)
		}
	}
	if d.cyclic {
		typ, pats, blanks := "Nat → NRef → ", "fuel + 1, n", "0, _"
		for i, a := range args {
			typ, pats, blanks = typ+phLean(d.ptypes[i])+" → ", pats+", "+a, blanks+", _"
		}
		fmt.Fprintf(&b, "def %s : %sHeap → %s\n  | %s, _ => .error .outOfFuel\n  | %s, h =>\n    match n with\n    | none => .error .nilDeref\n",
			d.lean, typ, phNodeResult(d), blanks, pats)
		arm("    ")
	} else {
		sig := "def " + d.lean + " (n : NRef)"
		for i, a := range args {
			sig += " (" + a + " : " + phLean(d.ptypes[i]) + ")"
		}
		fmt.Fprintf(&b, "%s (h : Heap) : %s :=\n  match n with\n  | none => .error .nilDeref\n", sig, phNodeResult(d))
		arm("  ")
	}
	d.text = b.String()
	return nil
}

// ---- expressions.

// phVal: a translated expression. lv: 0 atom, 1 application, 2 operator. lit: the value is a fresh
// `&T{…}` literal of a value object ("q" / "sub" / "cp"). sv: the state version an unordered read
// (field read, indexing, inline p.F) was made at, -1 if none.
type phVal struct {
	s      string
	lv     int
	t      string
	lit    bool
	concat bool
	sv     int
}

func phAtom(s, t string) phVal { return phVal{s: s, t: t, sv: -1} }

func (v phVal) arg() string {
	if v.lv >= 1 {
		return "(" + v.s + ")"
	}
	return v.s
}

func (v phVal) opnd() string {
	if v.lv >= 2 {
		return "(" + v.s + ")"
	}
	return v.s
}

func phMinSv(vs ...phVal) int {
	sv := -1
	for _, v := range vs {
		if v.sv >= 0 && (sv < 0 || v.sv < sv) {
			sv = v.sv
		}
	}
	return sv
}

// use checks that the values consumed by the line about to be emitted were not read before a later
// state change of the same statement (Go leaves that order open; we refuse).
func (c *phCtx) use(n ast.Node, vs ...phVal) error {
	for _, v := range vs {
		if v.sv >= 0 && v.sv != c.ver {
			return c.s.bad(n, "a read (%s) is used after a later call of the same statement changed the state", v.s)
		}
	}
	return nil
}

func (c *phCtx) hoist(n ast.Node) error {
	if c.noHoist {
		return c.s.bad(n, "%s cannot be evaluated here (a loop condition or the right operand of && / || must be pure)", c.s.str(n))
	}
	return nil
}

func phKindOf(t string) (string, bool) {
	for _, p := range []string{"nptr:", "nloc:", "recv:"} {
		if strings.HasPrefix(t, p) {
			return t[len(p):], true
		}
	}
	return "", false
}

// ptrOf: the Lean Ptr term of a pointer-like variable (receiver: itself; Nat variables: `(some x)`).
func phPtrTerm(v phVar) string {
	if strings.HasPrefix(v.typ, "recv:") {
		return v.lean
	}
	return "(some " + v.lean + ")"
}

// pointerVar: e is an identifier denoting a node pointer / struct local / receiver.
func (c *phCtx) pointerVar(e ast.Expr) (phVar, string, bool) {
	id, ok := e.(*ast.Ident)
	if !ok {
		return phVar{}, "", false
	}
	v, ok := c.vars[id.Name]
	if !ok {
		return phVar{}, "", false
	}
	k, ok := phKindOf(v.typ)
	return v, k, ok
}

func (c *phCtx) isParserRecv(e ast.Expr) bool {
	return !c.fn.node && tiIsIdent(e, c.recv)
}

// expr translates e; want is the expected static type ("" = any): used for nil, literals and conversions.
func (c *phCtx) expr(e ast.Expr, want string) (phVal, error) {
	v, err := c.exprM(e, want)
	if err != nil {
		return v, err
	}
	return c.force(e, v), nil
}

// exprM is expr, but a monadic value (lv 3) whose type is already right is handed back unbound.
func (c *phCtx) exprM(e ast.Expr, want string) (phVal, error) {
	v, err := c.expr0(e, want)
	if err != nil {
		return v, err
	}
	if want == "" || want == v.t {
		return v, nil
	}
	return c.conv(e, c.force(e, v), want)
}

// conv: §5.3.
func (c *phCtx) conv(n ast.Node, v phVal, want string) (phVal, error) {
	r := phVal{lv: 1, t: want, sv: v.sv}
	if strings.HasPrefix(v.t, "nptr:") {
		k := v.t[5:]
		switch want {
		case "nref":
			r.s = "NRef.of ." + k + " " + v.arg()
			return r, nil
		case "item":
			r.s = "GItem.node ." + k + " " + v.arg()
			return r, nil
		}
	}
	if want == "item" {
		switch {
		case v.t == "nref":
			r.s = "GItem.ofNRef " + v.arg()
		case v.t == "q" && v.lit:
			r.s = "GItem.query " + v.arg()
		case v.t == "q":
			r.s = "GItem.ofQuery " + v.arg()
		case v.t == "sub" && v.lit:
			r.s = "GItem.sub " + v.arg()
		case v.t == "cp" && v.lit:
			r.s = "GItem.cp " + v.arg()
		case v.t == "string":
			r.s = "GItem.str " + v.arg()
		case v.t == "bool":
			r.s = "GItem.bool " + v.arg()
		case v.t == "float":
			r.s = "GItem.num " + v.arg()
		}
		if r.s != "" {
			return r, nil
		}
	}
	return v, c.s.bad(n, "no conversion of %s (%s) to %s", c.s.str(n), v.t, want)
}

func (c *phCtx) expr0(e ast.Expr, want string) (phVal, error) {
	s := c.s
	switch e := e.(type) {
	case *ast.ParenExpr:
		return c.expr0(e.X, want)
	case *ast.Ident:
		return c.identExpr(e, want)
	case *ast.BasicLit:
		switch e.Kind {
		case token.STRING:
			str, err := strconv.Unquote(e.Value)
			if err != nil {
				return phVal{}, s.bad(e, "string literal %s", e.Value)
			}
			return phAtom(tiLeanStr(str), "string"), nil
		case token.INT:
			n, err := strconv.ParseUint(e.Value, 10, 31)
			if err != nil {
				return phVal{}, s.bad(e, "integer literal %s", e.Value)
			}
			return phAtom(strconv.FormatUint(n, 10), "int"), nil
		}
	case *ast.SelectorExpr:
		return c.selExpr(e)
	case *ast.UnaryExpr:
		if e.Op == token.NOT {
			x, err := c.expr(e.X, "bool")
			if err != nil {
				return x, err
			}
			return phVal{s: "(!" + x.arg() + ")", t: "bool", sv: x.sv}, nil
		}
		if e.Op == token.AND {
			return c.addrExpr(e, want)
		}
	case *ast.BinaryExpr:
		return c.binExpr(e)
	case *ast.IndexExpr:
		return c.indexExpr(e)
	case *ast.SliceExpr:
		return c.sliceExpr(e)
	case *ast.CallExpr:
		return c.callExpr(e, want)
	case *ast.CompositeLit:
		return c.listLit(e)
	case *ast.TypeAssertExpr:
		if e.Type != nil && tiIsIdent(e.Type, "syntaxNode") {
			x, err := c.expr(e.X, "item")
			if err != nil {
				return x, err
			}
			if err := c.hoist(e); err != nil {
				return x, err
			}
			if err := c.use(e, x); err != nil {
				return x, err
			}
			return phVal{s: "GItem.asNode " + x.arg(), lv: 3, t: "nref", sv: -1}, nil
		}
	}
	return phVal{}, s.bad(e, "expression %q", s.str(e))
}

// lv 3 marks a MONADIC value that still has to be bound (`let x ← …`); force binds it to a temp.
func (c *phCtx) force(n ast.Node, v phVal) phVal {
	if v.lv != 3 {
		return v
	}
	t := c.fresh()
	c.emit("let %s ← %s   -- %s", t, v.s, c.s.str(n))
	return phVal{s: t, t: v.t, sv: v.sv}
}

func (c *phCtx) identExpr(e *ast.Ident, want string) (phVal, error) {
	if v, ok := c.vars[e.Name]; ok {
		switch {
		case strings.HasPrefix(v.typ, "nloc:"):
			return phVal{}, c.s.bad(e, "the struct local %s is used as a value (only x.f, x.f = e, &x, method calls)", e.Name)
		case strings.HasPrefix(v.typ, "recv:"), v.typ == "err", strings.HasPrefix(v.typ, "regex:"):
			return phVal{}, c.s.bad(e, "%s cannot be used as a value here", e.Name)
		}
		return phAtom(v.lean, v.typ), nil
	}
	switch e.Name {
	case "true", "false":
		return phAtom(e.Name, "bool"), nil
	case "nil":
		switch want {
		case "nref":
			return phAtom("none", "nref"), nil
		case "item":
			return phAtom("GItem.nilv", "item"), nil
		case "items", "itemss", "strs", "nrefs", "subs":
			return phAtom("[]", want), nil
		}
		return phVal{}, c.s.bad(e, "nil where a value of type %q is expected", want)
	}
	return phVal{}, c.s.bad(e, "unknown identifier %s", e.Name)
}

var phParserFields = map[string]string{"root": "nref", "paramsList": "itemss", "params": "items", "accessorMode": "bool"}

// selExpr: p.F (inline), x.f through a pointer (hoisted read), x.unionQualifier.subscripts.
func (c *phCtx) selExpr(e *ast.SelectorExpr) (phVal, error) {
	s := c.s
	if c.isParserRecv(e.X) {
		t, ok := phParserFields[e.Sel.Name]
		if !ok {
			return phVal{}, s.bad(e, "parser field %s cannot be read here", e.Sel.Name)
		}
		c.fn.dReadsP = true
		return phVal{s: "p." + e.Sel.Name, t: t, sv: c.ver}, nil
	}
	if v, k, ok := c.pointerVar(e.X); ok {
		ft, ok := phFieldType(k, e.Sel.Name)
		if !ok || ft == "errrt" || ft == "uq" {
			return phVal{}, s.bad(e, "field %s of a %s node cannot be read", e.Sel.Name, k)
		}
		return c.rd(e, phPtrTerm(v), "(·."+e.Sel.Name+")", ft, s.str(e))
	}
	if in, ok := e.X.(*ast.SelectorExpr); ok && in.Sel.Name == "unionQualifier" {
		if v, k, ok := c.pointerVar(in.X); ok && k == "multi" {
			switch e.Sel.Name {
			case "subscripts":
				return c.rd(e, phPtrTerm(v), "(·.unionQualifier.subscripts)", "subs", s.str(e))
			case "syntaxBasicNode":
				return c.rd(e, phPtrTerm(v), "(·.unionQualifier.basic)", "ptr", s.str(e))
			}
		}
	}
	return phVal{}, s.bad(e, "selector %q", s.str(e))
}

// rd emits the hoisted read `let t ← rd H X proj`.
func (c *phCtx) rd(n ast.Node, ptr, proj, typ, src string) (phVal, error) {
	if err := c.hoist(n); err != nil {
		return phVal{}, err
	}
	t := c.fresh()
	c.emit("let %s ← rd %s %s %s   -- %s", t, c.heap(), ptr, proj, src)
	return phVal{s: t, t: typ, sv: c.ver}, nil
}

// ---- operators, indexing, list literals.

func (c *phCtx) binExpr(e *ast.BinaryExpr) (phVal, error) {
	s := c.s
	switch e.Op {
	case token.LAND, token.LOR:
		x, err := c.expr(e.X, "bool")
		if err != nil {
			return x, err
		}
		saved := c.noHoist
		c.noHoist = true
		y, err := c.expr(e.Y, "bool")
		c.noHoist = saved
		if err != nil {
			return y, err
		}
		op := "&&"
		if e.Op == token.LOR {
			op = "||"
		}
		return phVal{s: "(" + x.opnd() + " " + op + " " + y.opnd() + ")", t: "bool", sv: phMinSv(x, y)}, nil
	case token.EQL, token.NEQ:
		if tiIsIdent(e.Y, "nil") {
			if _, shadow := c.vars["nil"]; !shadow {
				x, err := c.expr(e.X, "nref")
				if err != nil {
					return x, err
				}
				suffix := ".isSome"
				if e.Op == token.EQL {
					suffix = ".isNone"
				}
				return phVal{s: x.arg() + suffix, t: "bool", sv: x.sv}, nil
			}
		}
		fallthrough
	case token.GTR, token.GEQ, token.LSS, token.LEQ:
		x, err := c.expr(e.X, "")
		if err != nil {
			return x, err
		}
		y, err := c.expr(e.Y, x.t)
		if err != nil {
			return y, err
		}
		if x.t != y.t || (x.t != "int" && !(x.t == "bool" && (e.Op == token.EQL || e.Op == token.NEQ))) {
			return x, s.bad(e, "comparison %q (only ints, == / != on bools, nil tests of a syntaxNode)", s.str(e))
		}
		return phVal{s: x.opnd() + " " + e.Op.String() + " " + y.opnd(), lv: 2, t: "bool", sv: phMinSv(x, y)}, nil
	case token.ADD, token.SUB:
		x, err := c.expr(e.X, "")
		if err != nil {
			return x, err
		}
		y, err := c.expr(e.Y, x.t)
		if err != nil {
			return y, err
		}
		if x.t == "string" && y.t == "string" && e.Op == token.ADD {
			l := x.opnd()
			if x.concat {
				l = x.s
			}
			return phVal{s: l + " ++ " + y.opnd(), lv: 2, t: "string", concat: true, sv: phMinSv(x, y)}, nil
		}
		if x.t == "int" && y.t == "int" {
			return phVal{s: x.opnd() + " " + e.Op.String() + " " + y.opnd(), lv: 2, t: "int", sv: phMinSv(x, y)}, nil
		}
	}
	return phVal{}, s.bad(e, "operator expression %q", s.str(e))
}

func (c *phCtx) indexExpr(e *ast.IndexExpr) (phVal, error) {
	xs, err := c.expr(e.X, "")
	if err != nil {
		return xs, err
	}
	et, ok := phElem[xs.t]
	if !ok {
		return xs, c.s.bad(e, "indexing of %s", c.s.str(e.X))
	}
	i, err := c.expr(e.Index, "int")
	if err != nil {
		return i, err
	}
	if err := c.hoist(e); err != nil {
		return i, err
	}
	if err := c.use(e, xs, i); err != nil {
		return i, err
	}
	t := c.fresh()
	c.emit("let %s ← sliceIndex %s %s   -- %s", t, xs.arg(), i.arg(), c.s.str(e))
	return phVal{s: t, t: et, sv: c.ver}, nil
}

func (c *phCtx) sliceExpr(e *ast.SliceExpr) (phVal, error) {
	s := c.s
	xs, err := c.expr(e.X, "")
	if err != nil {
		return xs, err
	}
	if _, ok := phElem[xs.t]; !ok || e.Slice3 || (e.Low == nil) == (e.High == nil) {
		return xs, s.bad(e, "slice expression %q (only xs[:n] and xs[n:])", s.str(e))
	}
	fn, bound := "sliceTo", e.High
	if e.Low != nil {
		fn, bound = "sliceFrom", e.Low
	}
	n, err := c.expr(bound, "int")
	if err != nil {
		return n, err
	}
	if err := c.hoist(e); err != nil {
		return n, err
	}
	if err := c.use(e, xs, n); err != nil {
		return n, err
	}
	t := c.fresh()
	c.emit("let %s ← %s %s %s   -- %s", t, fn, xs.arg(), n.arg(), s.str(e))
	return phVal{s: t, t: xs.t, sv: c.ver}, nil
}

// listLit: []interface{}{…}, []syntaxNode{…}, []syntaxSubscript{…}.
func (c *phCtx) listLit(e *ast.CompositeLit) (phVal, error) {
	s := c.s
	var lt string
	if e.Type != nil {
		switch s.str(e.Type) {
		case "[]interface{}":
			lt = "items"
		case "[]syntaxNode":
			lt = "nrefs"
		case "[]syntaxSubscript":
			lt = "subs"
		}
	}
	if lt == "" {
		return phVal{}, s.bad(e, "composite literal %q", s.str(e))
	}
	var parts []string
	var vs []phVal
	for _, el := range e.Elts {
		if _, kv := el.(*ast.KeyValueExpr); kv {
			return phVal{}, s.bad(el, "keyed element of a slice literal")
		}
		if _, nested := el.(*ast.CompositeLit); nested {
			return phVal{}, s.bad(el, "elided element type")
		}
		v, err := c.expr(el, phElem[lt])
		if err != nil {
			return v, err
		}
		parts = append(parts, v.s)
		vs = append(vs, v)
	}
	return phVal{s: "[" + strings.Join(parts, ", ") + "]", t: lt, sv: phMinSv(vs...)}, nil
}

// phKeys: the keyed elements of a struct literal, in source order.
func (c *phCtx) keys(cl *ast.CompositeLit) (map[string]ast.Expr, []string, error) {
	m := map[string]ast.Expr{}
	var order []string
	for _, el := range cl.Elts {
		kv, ok := el.(*ast.KeyValueExpr)
		if !ok {
			return nil, nil, c.s.bad(el, "positional element of a struct literal")
		}
		k, ok := kv.Key.(*ast.Ident)
		if !ok {
			return nil, nil, c.s.bad(el, "key of a struct literal")
		}
		if _, dup := m[k.Name]; dup {
			return nil, nil, c.s.bad(el, "duplicate key %s", k.Name)
		}
		m[k.Name] = kv.Value
		order = append(order, k.Name)
	}
	return m, order, nil
}

// ptrLit: e is `&T{…}` with T an identifier.
func phPtrLit(e ast.Expr) (string, *ast.CompositeLit, bool) {
	u, ok := e.(*ast.UnaryExpr)
	if !ok || u.Op != token.AND {
		return "", nil, false
	}
	cl, ok := u.X.(*ast.CompositeLit)
	if !ok || cl.Type == nil {
		return "", nil, false
	}
	id, ok := cl.Type.(*ast.Ident)
	if !ok {
		return "", nil, false
	}
	return id.Name, cl, true
}

// structKeys evaluates the values of a keyed struct literal in source order; exactly the keys of spec
// (name → wanted type) must be present, except those listed in optional.
func (c *phCtx) structKeys(cl *ast.CompositeLit, spec []phField, optional map[string]bool) (map[string]phVal, error) {
	m, order, err := c.keys(cl)
	if err != nil {
		return nil, err
	}
	want := map[string]string{}
	for _, f := range spec {
		want[f.name] = f.typ
		if _, ok := m[f.name]; !ok && !optional[f.name] {
			return nil, c.s.bad(cl, "key %s is missing in the literal %s", f.name, c.s.str(cl.Type))
		}
	}
	out := map[string]phVal{}
	for _, k := range order {
		t, ok := want[k]
		if !ok {
			return nil, c.s.bad(m[k], "unknown key %s in the literal %s", k, c.s.str(cl.Type))
		}
		var v phVal
		if t == "subbasic" {
			v, err = c.subBasic(m[k])
		} else {
			v, err = c.expr(m[k], t)
		}
		if err != nil {
			return nil, err
		}
		out[k] = v
	}
	return out, nil
}

// subBasic: `&syntaxBasicSubscript{valueGroup: b}` → `some b'`.
func (c *phCtx) subBasic(e ast.Expr) (phVal, error) {
	name, cl, ok := phPtrLit(e)
	if !ok || name != "syntaxBasicSubscript" {
		return phVal{}, c.s.bad(e, "expected &syntaxBasicSubscript{valueGroup: …}")
	}
	m, err := c.structKeys(cl, []phField{{"valueGroup", "bool"}}, nil)
	if err != nil {
		return phVal{}, err
	}
	v := m["valueGroup"]
	return phVal{s: "some " + v.arg(), lv: 1, t: "subbasic", sv: v.sv}, nil
}

// ---- `&x`, `&T{…}` (value objects §5.4, node allocation).

var phSliceSpec = []phField{{"syntaxBasicSubscript", "subbasic"}, {"start", "idx"}, {"end", "idx"}, {"step", "idx"}}
var phOptBasic = map[string]bool{"syntaxBasicSubscript": true}

func phBasicOr(m map[string]phVal) phVal {
	if v, ok := m["syntaxBasicSubscript"]; ok {
		return v
	}
	return phVal{s: "none", t: "subbasic", sv: -1}
}

func phVals(m map[string]phVal) []phVal {
	var out []phVal
	for _, k := range phSortedKeysV(m) {
		out = append(out, m[k])
	}
	return out
}

func phSortedKeysV(m map[string]phVal) []string {
	b := map[string]bool{}
	for k := range m {
		b[k] = true
	}
	return phSortedKeys(b)
}

func (c *phCtx) addrExpr(e *ast.UnaryExpr, want string) (phVal, error) {
	s := c.s
	if id, ok := e.X.(*ast.Ident); ok {
		if v, ok := c.vars[id.Name]; ok && strings.HasPrefix(v.typ, "nloc:") {
			return phAtom(v.lean, "nptr:"+v.typ[5:]), nil
		}
		return phVal{}, s.bad(e, "address of %s (only of a struct local of node type)", id.Name)
	}
	name, cl, ok := phPtrLit(e)
	if !ok {
		return phVal{}, s.bad(e, "expression %q", s.str(e))
	}
	if k, ok := phKinds[name]; ok {
		if err := c.hoist(e); err != nil {
			return phVal{}, err
		}
		rec, err := c.nodeLit(cl, k)
		if err != nil {
			return phVal{}, err
		}
		t := c.fresh()
		c.emit("let (%s, p) := p.alloc %s   -- %s", t, rec, s.str(e))
		c.stateChanged()
		return phAtom(t, "nptr:"+k), nil
	}
	app := func(t, text string, m map[string]phVal) (phVal, error) {
		return phVal{s: text, lv: 1, t: t, lit: true, sv: phMinSv(phVals(m)...)}, nil
	}
	switch name {
	case "syntaxIndexSubscript":
		m, err := c.structKeys(cl, []phField{{"syntaxBasicSubscript", "subbasic"}, {"number", "int"}, {"isOmitted", "bool"}}, phOptBasic)
		if err != nil {
			return phVal{}, err
		}
		rec := "{ basic := " + phBasicOr(m).s + ", number := " + m["number"].s + ", isOmitted := " + m["isOmitted"].s + " }"
		if want == "idx" {
			return phVal{s: rec, t: "idx", sv: phMinSv(phVals(m)...)}, nil
		}
		return app("sub", "GSub.index "+rec, m)
	case "syntaxSlicePositiveStepSubscript", "syntaxSliceNegativeStepSubscript":
		m, err := c.structKeys(cl, phSliceSpec, phOptBasic)
		if err != nil {
			return phVal{}, err
		}
		ctor := "GSub.slicePositive "
		if name == "syntaxSliceNegativeStepSubscript" {
			ctor = "GSub.sliceNegative "
		}
		return app("sub", ctor+phBasicOr(m).arg()+" "+m["start"].arg()+" "+m["end"].arg()+" "+m["step"].arg(), m)
	case "syntaxWildcardSubscript":
		m, err := c.structKeys(cl, []phField{{"syntaxBasicSubscript", "subbasic"}}, phOptBasic)
		if err != nil {
			return phVal{}, err
		}
		return app("sub", "GSub.wildcard "+phBasicOr(m).arg(), m)
	case "syntaxLogicalOr", "syntaxLogicalAnd":
		m, err := c.structKeys(cl, []phField{{"leftQuery", "q"}, {"rightQuery", "q"}}, nil)
		if err != nil {
			return phVal{}, err
		}
		ctor := "GQ.or "
		if name == "syntaxLogicalAnd" {
			ctor = "GQ.and "
		}
		return app("q", ctor+m["leftQuery"].arg()+" "+m["rightQuery"].arg(), m)
	case "syntaxLogicalNot":
		m, err := c.structKeys(cl, []phField{{"query", "q"}}, nil)
		if err != nil {
			return phVal{}, err
		}
		return app("q", "GQ.not "+m["query"].arg(), m)
	case "syntaxBasicCompareQuery":
		m, err := c.structKeys(cl, []phField{{"leftParam", "cp"}, {"rightParam", "cp"}, {"comparator", "cmp"}}, nil)
		if err != nil {
			return phVal{}, err
		}
		return app("q", "GQ.cmp "+m["leftParam"].arg()+" "+m["rightParam"].arg()+" "+m["comparator"].arg(), m)
	case "syntaxBasicCompareParameter":
		m, err := c.structKeys(cl, []phField{{"param", "q"}, {"isLiteral", "bool"}}, nil)
		if err != nil {
			return phVal{}, err
		}
		return app("cp", "GCP.mk "+m["param"].arg()+" "+m["isLiteral"].arg(), m)
	case "syntaxQueryParamLiteral":
		m, err := c.structKeys(cl, []phField{{"literal", "items"}}, nil)
		if err != nil {
			return phVal{}, err
		}
		return app("q", "GQ.lit "+m["literal"].arg(), m)
	case "syntaxQueryParamRoot", "syntaxQueryParamCurrentRoot":
		m, err := c.structKeys(cl, []phField{{"param", "nref"}}, nil)
		if err != nil {
			return phVal{}, err
		}
		ctor := "GQ.proot "
		if name == "syntaxQueryParamCurrentRoot" {
			ctor = "GQ.pcur "
		}
		return app("q", ctor+m["param"].arg(), m)
	case "syntaxCompareRegex":
		m, _, err := c.keys(cl)
		if err != nil {
			return phVal{}, err
		}
		id, ok := m["regex"].(*ast.Ident)
		if len(m) != 1 || !ok {
			return phVal{}, s.bad(e, "expected &syntaxCompareRegex{regex: v}")
		}
		v, ok := c.vars[id.Name]
		if !ok || !strings.HasPrefix(v.typ, "regex:") {
			return phVal{}, s.bad(e, "%s is not the result of a checked regexp.Compile", id.Name)
		}
		return phVal{s: "Cmp.regex " + v.typ[6:], lv: 1, t: "cmp", lit: true, sv: -1}, nil
	}
	return phVal{}, s.bad(e, "literal of type %s", name)
}

// basicLit: e is a fresh `&syntaxBasicNode{k: v, …}`; the record fields `k := v'` in source order.
func (c *phCtx) basicLit(e ast.Expr) ([]string, []phVal, error) {
	name, cl, ok := phPtrLit(e)
	if !ok || name != "syntaxBasicNode" {
		return nil, nil, c.s.bad(e, "expected a fresh &syntaxBasicNode{…}")
	}
	m, order, err := c.keys(cl)
	if err != nil {
		return nil, nil, err
	}
	var parts []string
	var vs []phVal
	for _, k := range order {
		t, ok := phFieldType("", k)
		if !ok || t == "errrt" {
			return nil, nil, c.s.bad(m[k], "key %s in a syntaxBasicNode literal", k)
		}
		v, err := c.expr(m[k], t)
		if err != nil {
			return nil, nil, err
		}
		parts = append(parts, k+" := "+v.s)
		vs = append(vs, v)
	}
	return parts, vs, nil
}

// nodeLit: the Cell record of a literal of a node struct (basic fields first, then the own fields).
func (c *phCtx) nodeLit(cl *ast.CompositeLit, kind string) (string, error) {
	s := c.s
	if c.fn.node {
		return "", s.bad(cl, "a node is allocated in a node method")
	}
	m, order, err := c.keys(cl)
	if err != nil {
		return "", err
	}
	if _, ok := m["syntaxBasicNode"]; !ok {
		return "", s.bad(cl, "node literal without the key syntaxBasicNode")
	}
	var basic, own []string
	var vs []phVal
	for _, k := range order {
		if k == "syntaxBasicNode" {
			parts, bvs, err := c.basicLit(m[k])
			if err != nil {
				return "", err
			}
			basic = parts
			vs = append(vs, bvs...)
			continue
		}
		t, ok := phFieldType(kind, k)
		if !ok || phIsBasicField(k) || t == "uq" {
			return "", s.bad(m[k], "key %s in a literal of a %s node", k, kind)
		}
		v, err := c.expr(m[k], t)
		if err != nil {
			return "", err
		}
		vs = append(vs, v)
		if strings.HasPrefix(t, "func:") {
			own = append(own, k+" := some "+v.arg())
		} else {
			own = append(own, k+" := "+v.s)
		}
	}
	if err := c.use(cl, vs...); err != nil {
		return "", err
	}
	all := append(basic, own...)
	if len(all) == 0 {
		return "{}", nil
	}
	return "{ " + strings.Join(all, ", ") + " }", nil
}

// ---- calls (§5.7), len, append.

func (c *phCtx) callExpr(e *ast.CallExpr, want string) (phVal, error) {
	s := c.s
	if id, ok := e.Fun.(*ast.Ident); ok {
		if _, shadow := c.vars[id.Name]; shadow {
			return phVal{}, s.bad(e, "call of the variable %s", id.Name)
		}
		switch id.Name {
		case "len":
			if len(e.Args) != 1 || e.Ellipsis.IsValid() {
				return phVal{}, s.bad(e, "len")
			}
			x, err := c.expr(e.Args[0], "")
			if err != nil {
				return x, err
			}
			if _, ok := phElem[x.t]; !ok {
				return x, s.bad(e, "len of %s", s.str(e.Args[0]))
			}
			return phVal{s: "goLen " + x.arg(), lv: 1, t: "int", sv: x.sv}, nil
		case "append":
			return c.appendExpr(e, want)
		}
		return phVal{}, s.bad(e, "call of %s", id.Name)
	}
	return c.call(e, false)
}

func (c *phCtx) appendExpr(e *ast.CallExpr, want string) (phVal, error) {
	s := c.s
	if len(e.Args) < 2 {
		return phVal{}, s.bad(e, "append with fewer than two arguments")
	}
	xs, err := c.expr(e.Args[0], want)
	if err != nil {
		return xs, err
	}
	et, ok := phElem[xs.t]
	if !ok {
		return xs, s.bad(e, "append to %s", s.str(e.Args[0]))
	}
	if e.Ellipsis.IsValid() {
		if len(e.Args) != 2 {
			return xs, s.bad(e, "append(xs, ys...) with more arguments")
		}
		ys, err := c.expr(e.Args[1], xs.t)
		if err != nil {
			return ys, err
		}
		return phVal{s: xs.opnd() + " ++ " + ys.opnd(), lv: 2, t: xs.t, sv: phMinSv(xs, ys)}, nil
	}
	var parts []string
	vs := []phVal{xs}
	for _, a := range e.Args[1:] {
		v, err := c.expr(a, et)
		if err != nil {
			return v, err
		}
		parts = append(parts, v.s)
		vs = append(vs, v)
	}
	return phVal{s: xs.opnd() + " ++ [" + strings.Join(parts, ", ") + "]", lv: 2, t: xs.t, sv: phMinSv(vs...)}, nil
}

// nodeMethod: the static implementation of interface method m for a pointer of kind k.
func (c *phCtx) nodeMethod(n ast.Node, k, m string) (*phFn, error) {
	if !phIsIfaceMethod(m) {
		return nil, c.s.bad(n, "method %s of a node is not translated", m)
	}
	if k == "multi" {
		if f, ok := c.g.fns["multi"+phCap(m)]; ok {
			return f, nil
		}
	}
	return c.g.fns["basic"+phCap(m)], nil
}

// call translates a method call; asStmt: the result (if any) is dropped.
func (c *phCtx) call(e *ast.CallExpr, asStmt bool) (phVal, error) {
	s := c.s
	se, ok := e.Fun.(*ast.SelectorExpr)
	if !ok {
		return phVal{}, s.bad(e, "call %q", s.str(e))
	}
	m := se.Sel.Name
	var callee *phFn
	var recvTerm string
	var vals []phVal
	var err error
	if err := c.hoist(e); err != nil {
		return phVal{}, err
	}
	switch {
	case c.isParserRecv(se.X):
		if phSkip[m] {
			return phVal{}, s.bad(e, "call of %s, which is not translated here", m)
		}
		f, ok := c.g.fns[m]
		if !ok || f.node || f.disp {
			return phVal{}, s.bad(e, "unknown parser method %s", m)
		}
		callee = f
	default:
		if v, k, ok := c.pointerVar(se.X); ok {
			if callee, err = c.nodeMethod(e, k, m); err != nil {
				return phVal{}, err
			}
			recvTerm = phPtrTerm(v)
			break
		}
		if in, ok := se.X.(*ast.SelectorExpr); ok {
			if v, k, ok := c.pointerVar(in.X); ok && in.Sel.Name == "syntaxBasicNode" {
				_ = k
				if callee, err = c.nodeMethod(e, "basic", m); err != nil {
					return phVal{}, err
				}
				recvTerm = phPtrTerm(v)
				break
			}
			if v, k, ok := c.pointerVar(in.X); ok && in.Sel.Name == "unionQualifier" && k == "multi" {
				if callee, err = c.nodeMethod(e, "union", m); err != nil {
					return phVal{}, err
				}
				pv, err := c.rd(in, phPtrTerm(v), "(·.unionQualifier.basic)", "ptr", s.str(in))
				if err != nil {
					return phVal{}, err
				}
				recvTerm = pv.s
				vals = append(vals, pv)
				break
			}
		}
		rv, err := c.expr(se.X, "")
		if err != nil {
			return phVal{}, err
		}
		vals = append(vals, rv)
		switch {
		case rv.t == "nref":
			if !phIsIfaceMethod(m) {
				return phVal{}, s.bad(e, "method %s of syntaxNode is not translated", m)
			}
			callee = c.g.fns["node"+phCap(m)]
			recvTerm = rv.arg()
		case rv.t == "sub" && m == "isValueGroup" && len(e.Args) == 0:
			if err := c.use(e, rv); err != nil {
				return phVal{}, err
			}
			t := c.fresh()
			c.emit("let %s ← GSub.isValueGroup %s   -- %s", t, rv.arg(), s.str(e))
			return phAtom(t, "bool"), nil
		case strings.HasPrefix(rv.t, "nptr:"):
			if callee, err = c.nodeMethod(e, rv.t[5:], m); err != nil {
				return phVal{}, err
			}
			recvTerm = "(some " + rv.s + ")"
		default:
			return phVal{}, s.bad(e, "method call %q on a value of type %s", s.str(e), rv.t)
		}
	}
	if callee == nil {
		return phVal{}, s.bad(e, "call %q cannot be resolved", s.str(e))
	}
	args, avals, err := c.callArgs(e, callee)
	if err != nil {
		return phVal{}, err
	}
	vals = append(vals, avals...)
	if err := c.use(e, vals...); err != nil {
		return phVal{}, err
	}
	c.fn.calls[callee.lean] = true
	head := c.head(callee)
	if recvTerm != "" {
		head += " " + recvTerm
	}
	for _, a := range args {
		head += " " + a
	}
	src := s.str(e)
	if callee.result == "" && !asStmt {
		return phVal{}, s.bad(e, "%s has no result", src)
	}
	switch {
	case callee.node && callee.result == "":
		if c.fn.node {
			c.emit("let h ← %s h   -- %s", head, src)
		} else {
			c.emit("let p ← p.onHeap (%s)   -- %s", head, src)
		}
		c.stateChanged()
		return phVal{}, nil
	case callee.node:
		t := c.fresh()
		c.emit("let %s ← %s %s   -- %s", t, head, c.heap(), src)
		return phAtom(t, callee.result), nil
	case c.fn.node:
		return phVal{}, s.bad(e, "a node method calls a parser method")
	case callee.result == "":
		c.fn.dReadsP = true
		c.emit("let p ← %s p   -- %s", head, src)
		c.stateChanged()
		return phVal{}, nil
	case callee.writes:
		t := c.fresh()
		c.fn.dReadsP = true
		c.emit("let (%s, p) ← %s p   -- %s", t, head, src)
		c.stateChanged()
		return phAtom(t, callee.result), nil
	case callee.readsP:
		t := c.fresh()
		c.fn.dReadsP = true
		c.emit("let %s ← %s p   -- %s", t, head, src)
		return phAtom(t, callee.result), nil
	}
	t := c.fresh()
	c.emit("let %s ← %s   -- %s", t, head, src)
	return phAtom(t, callee.result), nil
}

// head: the callee with its fuel / self / lib arguments.
func (c *phCtx) head(f *phFn) string {
	switch {
	case f.disp && f.cyclic:
		if c.fn.self && c.fn.scc == f.lean {
			return "self"
		}
		return f.lean + " fuel"
	case f.disp:
		return f.lean
	case f.node:
		h := f.lean
		if f.self {
			if c.fn.self && c.fn.scc == f.scc {
				h += " self"
			} else {
				h += " (" + f.scc + " fuel)"
			}
		}
		if f.fuelParam {
			h += " fuel"
		}
		return h
	}
	h := f.lean
	if f.fuelled {
		h += " fuel"
	}
	if f.lib {
		h += " lib"
	}
	return h
}

func (c *phCtx) callArgs(e *ast.CallExpr, f *phFn) ([]string, []phVal, error) {
	s := c.s
	n := len(f.ptypes)
	fixed := n
	if f.vari {
		fixed = n - 1
	}
	if len(e.Args) < fixed || (!f.vari && len(e.Args) != n) || (e.Ellipsis.IsValid() && (!f.vari || len(e.Args) != n)) {
		return nil, nil, s.bad(e, "wrong number of arguments for %s", f.goName)
	}
	var args []string
	var vals []phVal
	for i := 0; i < fixed; i++ {
		v, err := c.expr(e.Args[i], f.ptypes[i])
		if err != nil {
			return nil, nil, err
		}
		args = append(args, v.arg())
		vals = append(vals, v)
	}
	if f.vari {
		if e.Ellipsis.IsValid() {
			v, err := c.expr(e.Args[fixed], f.ptypes[fixed])
			if err != nil {
				return nil, nil, err
			}
			args = append(args, v.arg())
			vals = append(vals, v)
		} else {
			var parts []string
			for _, a := range e.Args[fixed:] {
				v, err := c.expr(a, phElem[f.ptypes[fixed]])
				if err != nil {
					return nil, nil, err
				}
				parts = append(parts, v.s)
				vals = append(vals, v)
			}
			args = append(args, "["+strings.Join(parts, ", ")+"]")
		}
	}
	return args, vals, nil
}

// ---- statement lists, return, panic, control-flow analysis.

func phIsPanic(st ast.Stmt) (*ast.CallExpr, bool) {
	es, ok := st.(*ast.ExprStmt)
	if !ok {
		return nil, false
	}
	ce, ok := es.X.(*ast.CallExpr)
	if !ok || !tiIsIdent(ce.Fun, "panic") {
		return nil, false
	}
	return ce, true
}

// phLeaves: may control leave the list other than by falling through (return / continue / break / panic)?
// continue / break that belong to a loop inside the list do not count.
func phLeaves(list []ast.Stmt) bool {
	found := false
	var walk func(n ast.Node, inLoop bool)
	walk = func(n ast.Node, inLoop bool) {
		ast.Inspect(n, func(x ast.Node) bool {
			switch x := x.(type) {
			case *ast.FuncLit:
				return false
			case *ast.ReturnStmt:
				found = true
			case *ast.BranchStmt:
				if !inLoop {
					found = true
				}
			case *ast.ExprStmt:
				if _, ok := phIsPanic(x); ok {
					found = true
				}
			case *ast.ForStmt:
				if x != n {
					walk(x.Body, true)
					return false
				}
			case *ast.RangeStmt:
				if x != n {
					walk(x.Body, true)
					return false
				}
			}
			return true
		})
	}
	for _, st := range list {
		switch st.(type) {
		case *ast.ForStmt, *ast.RangeStmt:
			walk(&ast.BlockStmt{List: []ast.Stmt{st}}, false)
		default:
			walk(st, false)
		}
	}
	return found
}

// phAlways: does every path through the list end in return / continue / break / panic?
func phAlways(list []ast.Stmt) bool {
	if len(list) == 0 {
		return false
	}
	switch st := list[len(list)-1].(type) {
	case *ast.ReturnStmt:
		return true
	case *ast.BranchStmt:
		return st.Label == nil && (st.Tok == token.CONTINUE || st.Tok == token.BREAK)
	case *ast.ExprStmt:
		_, ok := phIsPanic(st)
		return ok
	case *ast.IfStmt:
		if st.Else == nil {
			return false
		}
		eb, ok := st.Else.(*ast.BlockStmt)
		return ok && phAlways(st.Body.List) && phAlways(eb.List)
	}
	return false
}

func phConcat(a, b []ast.Stmt) []ast.Stmt {
	return append(append([]ast.Stmt(nil), a...), b...)
}

// nested translates a Go block in its own Lean `do` scope (one level deeper) with the current continuation.
func (c *phCtx) nested(list []ast.Stmt, at ast.Node, depth int) error {
	c.open()
	c.indent += depth
	err := c.block(list, at)
	c.indent -= depth
	lines, _ := c.close()
	if err != nil {
		return err
	}
	c.appendLines(lines)
	return nil
}

// block translates a statement list; `at` locates error messages about its end.
func (c *phCtx) block(list []ast.Stmt, at ast.Node) error {
	s := c.s
	if len(list) == 0 {
		if c.kont == "" {
			return s.bad(at, "the method can end without a return")
		}
		c.emit("%s", c.kont)
		return nil
	}
	st, rest := list[0], list[1:]
	switch st := st.(type) {
	case *ast.ReturnStmt:
		if len(rest) != 0 {
			return s.bad(rest[0], "statement after return")
		}
		return c.ret(st)
	case *ast.BranchStmt:
		if len(rest) != 0 {
			return s.bad(rest[0], "statement after %s", st.Tok)
		}
		switch {
		case st.Label != nil:
		case st.Tok == token.CONTINUE && c.cont:
			c.emit("%s   -- continue", c.kont)
			return nil
		case st.Tok == token.BREAK && c.brk != "":
			c.emit("%s   -- break", c.brk)
			return nil
		}
		return s.bad(st, "%s is not translated here", s.str(st))
	case *ast.IfStmt:
		return c.ifStmt(st, rest, at)
	case *ast.TypeSwitchStmt:
		return c.typeSwitch(st, rest, at)
	case *ast.RangeStmt:
		if err := c.rangeStmt(st); err != nil {
			return err
		}
		return c.block(rest, at)
	case *ast.ForStmt:
		if err := c.forStmt(st); err != nil {
			return err
		}
		return c.block(rest, at)
	case *ast.ExprStmt:
		if ce, ok := phIsPanic(st); ok {
			if len(rest) != 0 {
				return s.bad(rest[0], "statement after panic")
			}
			return c.panicStmt(st, ce)
		}
	case *ast.AssignStmt:
		if len(rest) > 0 {
			if ok, err := c.libPattern(st, rest[0]); ok || err != nil {
				if err != nil {
					return err
				}
				return c.block(rest[1:], at)
			}
		}
	}
	if err := c.simple(st); err != nil {
		return err
	}
	return c.block(rest, at)
}

func (c *phCtx) ret(st *ast.ReturnStmt) error {
	s := c.s
	if !c.canRet {
		return s.bad(st, "return inside a loop")
	}
	src := s.str(st)
	if c.fn.result == "" {
		if len(st.Results) != 0 {
			return s.bad(st, "return with a value in a method without result")
		}
		c.emit(".ok %s   -- %s", c.state, src)
		return nil
	}
	if len(st.Results) != 1 {
		return s.bad(st, "return %q", src)
	}
	v, err := c.expr(st.Results[0], c.fn.result)
	if err != nil {
		return err
	}
	if err := c.use(st, v); err != nil {
		return err
	}
	switch {
	case c.fn.node && c.fn.dWrites:
		return s.bad(st, "a node method that writes and has a result")
	case !c.fn.node && c.fn.writes:
		c.emit(".ok (%s, p)   -- %s", v.s, src)
	default:
		c.emit(".ok %s   -- %s", v.arg(), src)
	}
	return nil
}

var phPanics = map[string]struct {
	ctor string
	keys []string
}{
	"ErrorFunctionNotFound": {".functionNotFound", []string{"function"}},
	"ErrorNotSupported":     {".notSupported", []string{"feature", "path"}},
}

func (c *phCtx) panicStmt(st ast.Stmt, ce *ast.CallExpr) error {
	s := c.s
	if _, shadow := c.vars["panic"]; shadow || len(ce.Args) != 1 || ce.Ellipsis.IsValid() {
		return s.bad(st, "panic %q", s.str(st))
	}
	cl, ok := ce.Args[0].(*ast.CompositeLit)
	if !ok || cl.Type == nil {
		return s.bad(st, "panic with %s", s.str(ce.Args[0]))
	}
	id, ok := cl.Type.(*ast.Ident)
	if !ok {
		return s.bad(st, "panic with %s", s.str(ce.Args[0]))
	}
	p, ok := phPanics[id.Name]
	if !ok {
		return s.bad(st, "panic with %s is not translated (ErrorInvalidArgument only after a library call)", id.Name)
	}
	var spec []phField
	for _, k := range p.keys {
		spec = append(spec, phField{k, "string"})
	}
	m, err := c.structKeys(cl, spec, nil)
	if err != nil {
		return err
	}
	text := p.ctor
	for _, k := range p.keys {
		text += " " + m[k].arg()
	}
	if err := c.use(st, phVals(m)...); err != nil {
		return err
	}
	c.emit(".error (%s)   -- %s", text, s.str(st))
	return nil
}

// ---- declarations, assignments, expression statements.

func (c *phCtx) simple(st ast.Stmt) error {
	s := c.s
	src := s.str(st)
	switch st := st.(type) {
	case *ast.DeclStmt:
		gd, ok := st.Decl.(*ast.GenDecl)
		if !ok || gd.Tok != token.VAR || len(gd.Specs) != 1 {
			return s.bad(st, "declaration %q", src)
		}
		vs := gd.Specs[0].(*ast.ValueSpec)
		if len(vs.Values) != 0 || vs.Type == nil {
			return s.bad(st, "declaration %q (only `var x T`)", src)
		}
		t, ok := phGoType[s.str(vs.Type)]
		zero, ok2 := phZero[t]
		if !ok || !ok2 {
			return s.bad(st, "declaration of a variable of type %s", s.str(vs.Type))
		}
		for i, n := range vs.Names {
			ln, err := c.declare(n, n.Name, t)
			if err != nil {
				return err
			}
			if i == 0 {
				c.emit("let %s := %s   -- %s", ln, zero, src)
			} else {
				c.emit("let %s := %s", ln, zero)
			}
		}
		return nil
	case *ast.ExprStmt:
		ce, ok := st.X.(*ast.CallExpr)
		if !ok {
			return s.bad(st, "statement %q", src)
		}
		if _, isSel := ce.Fun.(*ast.SelectorExpr); !isSel {
			return s.bad(st, "statement %q", src)
		}
		_, err := c.call(ce, true)
		return err
	case *ast.AssignStmt:
		return c.assign(st, src)
	}
	return s.bad(st, "statement %q", src)
}

func (c *phCtx) assign(st *ast.AssignStmt, src string) error {
	s := c.s
	if st.Tok == token.DEFINE {
		return c.define(st, src)
	}
	if st.Tok != token.ASSIGN || len(st.Lhs) != len(st.Rhs) {
		return s.bad(st, "statement %q", src)
	}
	if len(st.Lhs) == 1 {
		return c.assign1(st, st.Lhs[0], st.Rhs[0], nil, src)
	}
	// tuple assignment: right sides to temps in order, then the assignments in order
	var wants []string
	for _, l := range st.Lhs {
		w, err := c.lhsType(l)
		if err != nil {
			return err
		}
		wants = append(wants, w)
	}
	var temps []phVal
	for i, r := range st.Rhs {
		v, err := c.expr(r, wants[i])
		if err != nil {
			return err
		}
		if !phTempRe.MatchString(v.s) {
			if err := c.use(r, v); err != nil {
				return err
			}
			t := c.fresh()
			c.emit("let %s := %s   -- %s", t, v.s, s.str(r))
			v = phVal{s: t, t: v.t, sv: v.sv}
		}
		temps = append(temps, v)
	}
	for i, l := range st.Lhs {
		cm := ""
		if i == 0 {
			cm = src
		}
		t := temps[i]
		if err := c.assign1(st, l, nil, &t, cm); err != nil {
			return err
		}
	}
	return nil
}

// lhsType: the static type of a variable or parser field on the left of a tuple assignment.
func (c *phCtx) lhsType(l ast.Expr) (string, error) {
	if id, ok := l.(*ast.Ident); ok {
		if v, ok := c.vars[id.Name]; ok {
			return v.typ, nil
		}
	}
	if se, ok := l.(*ast.SelectorExpr); ok && c.isParserRecv(se.X) {
		if t, ok := phParserFields[se.Sel.Name]; ok {
			return t, nil
		}
	}
	return "", c.s.bad(l, "left side %q of a tuple assignment", c.s.str(l))
}

func phCm(src string) string {
	if src == "" {
		return ""
	}
	return "   -- " + src
}

// assign1: `l = r` (r given as expression, or already evaluated as pre).
func (c *phCtx) assign1(st ast.Stmt, l ast.Expr, r ast.Expr, pre *phVal, src string) error {
	s := c.s
	val := func(want string) (phVal, error) {
		if pre != nil {
			return *pre, nil
		}
		return c.expr(r, want)
	}
	switch l := l.(type) {
	case *ast.Ident:
		v, ok := c.vars[l.Name]
		if !ok {
			return s.bad(st, "assignment to %s", l.Name)
		}
		if _, isPtr := phKindOf(v.typ); isPtr || v.typ == "err" || strings.HasPrefix(v.typ, "regex:") || strings.HasPrefix(v.typ, "func:") {
			return s.bad(st, "assignment to %s (a %s)", l.Name, v.typ)
		}
		for _, o := range c.order {
			if c.vars[o].typ == "regex:"+v.lean {
				return s.bad(st, "%s is assigned after regexp.Compile(%s)", l.Name, l.Name)
			}
		}
		x, err := val(v.typ)
		if err != nil {
			return err
		}
		if err := c.use(st, x); err != nil {
			return err
		}
		c.emit("let %s := %s%s", v.lean, x.s, phCm(src))
		c.bound(l.Name)
		return nil
	case *ast.SelectorExpr:
		if c.isParserRecv(l.X) {
			t, ok := phParserFields[l.Sel.Name]
			if !ok {
				return s.bad(st, "assignment to the parser field %s", l.Sel.Name)
			}
			x, err := val(t)
			if err != nil {
				return err
			}
			if err := c.use(st, x); err != nil {
				return err
			}
			c.fn.dReadsP = true
			c.emit("let p := { p with %s := %s }%s", l.Sel.Name, x.s, phCm(src))
			c.stateChanged()
			return nil
		}
		if pre != nil {
			return s.bad(st, "write through a pointer in a tuple assignment")
		}
		return c.fieldWrite(st, l, r, src)
	}
	return s.bad(st, "assignment %q", src)
}

// wr emits the write `X.upd` (upd: `f := e'`).
func (c *phCtx) wr(ptr, upd, src string) {
	if c.fn.node {
		c.emit("let h ← wr h %s (fun c => { c with %s })   -- %s", ptr, upd, src)
	} else {
		c.fn.dReadsP = true
		c.emit("let p ← p.onHeap (fun h => wr h %s (fun c => { c with %s }))   -- %s", ptr, upd, src)
	}
	c.stateChanged()
}

// fieldWrite: x.f = e, x.unionQualifier = …, x.unionQualifier.f = e.
func (c *phCtx) fieldWrite(st ast.Stmt, l *ast.SelectorExpr, r ast.Expr, src string) error {
	s := c.s
	f := l.Sel.Name
	if v, k, ok := c.pointerVar(l.X); ok {
		ft, ok := phFieldType(k, f)
		if !ok {
			return s.bad(st, "a %s node has no field %s", k, f)
		}
		ptr := phPtrTerm(v)
		switch ft {
		case "errrt":
			e, err := c.errRt(r)
			if err != nil {
				return err
			}
			c.wr(ptr, "errorRuntime := some "+e.arg(), src)
			return nil
		case "uq":
			return c.uqWrite(st, ptr, r, src)
		}
		x, err := c.expr(r, ft)
		if err != nil {
			return err
		}
		if err := c.use(st, x); err != nil {
			return err
		}
		if strings.HasPrefix(ft, "func:") {
			c.wr(ptr, f+" := some "+x.arg(), src)
		} else {
			c.wr(ptr, f+" := "+x.s, src)
		}
		return nil
	}
	in, ok := l.X.(*ast.SelectorExpr)
	if ok && in.Sel.Name == "unionQualifier" {
		if v, k, ok := c.pointerVar(in.X); ok && k == "multi" {
			ptr := phPtrTerm(v)
			if f == "subscripts" {
				x, err := c.expr(r, "subs")
				if err != nil {
					return err
				}
				if err := c.use(st, x); err != nil {
					return err
				}
				c.wr(ptr, "unionQualifier := { c.unionQualifier with subscripts := "+x.s+" }", src)
				return nil
			}
			ft, ok := phFieldType("", f)
			if !ok {
				return s.bad(st, "field %s of the union qualifier of a multi node", f)
			}
			pv, err := c.rd(in, ptr, "(·.unionQualifier.basic)", "ptr", s.str(in))
			if err != nil {
				return err
			}
			var x phVal
			upd := f + " := "
			if ft == "errrt" {
				if x, err = c.errRt(r); err != nil {
					return err
				}
				upd += "some " + x.arg()
			} else {
				if x, err = c.expr(r, ft); err != nil {
					return err
				}
				upd += x.s
			}
			if err := c.use(st, pv, x); err != nil {
				return err
			}
			c.wr(pv.s, upd, src)
			return nil
		}
	}
	return s.bad(st, "assignment %q", src)
}

// errRt: `&errorBasicRuntime{node: y.syntaxBasicNode}` → the Ptr of the node.
func (c *phCtx) errRt(r ast.Expr) (phVal, error) {
	s := c.s
	name, cl, ok := phPtrLit(r)
	if !ok || name != "errorBasicRuntime" {
		return phVal{}, s.bad(r, "errorRuntime is assigned &errorBasicRuntime{node: x.syntaxBasicNode} only")
	}
	m, _, err := c.keys(cl)
	if err != nil {
		return phVal{}, err
	}
	se, ok := m["node"].(*ast.SelectorExpr)
	if len(m) != 1 || !ok || se.Sel.Name != "syntaxBasicNode" {
		return phVal{}, s.bad(r, "errorRuntime is assigned &errorBasicRuntime{node: x.syntaxBasicNode} only")
	}
	if v, _, ok := c.pointerVar(se.X); ok {
		return phVal{s: phPtrTerm(v), lv: 0, t: "ptr", sv: -1}, nil
	}
	return c.selExpr(se)
}

// uqWrite: x.unionQualifier = syntaxUnionQualifier{} | syntaxUnionQualifier{syntaxBasicNode: &syntaxBasicNode{…}, subscripts: […]}.
func (c *phCtx) uqWrite(st ast.Stmt, ptr string, r ast.Expr, src string) error {
	s := c.s
	cl, ok := r.(*ast.CompositeLit)
	if !ok || cl.Type == nil || !tiIsIdent(cl.Type, "syntaxUnionQualifier") {
		return s.bad(st, "unionQualifier is assigned a syntaxUnionQualifier{…} literal only")
	}
	m, order, err := c.keys(cl)
	if err != nil {
		return err
	}
	if len(order) == 0 {
		c.wr(ptr, "unionQualifier := {}", src)
		return nil
	}
	if len(order) != 2 || m["syntaxBasicNode"] == nil || m["subscripts"] == nil {
		return s.bad(st, "expected syntaxUnionQualifier{syntaxBasicNode: &syntaxBasicNode{…}, subscripts: …}")
	}
	if c.fn.node {
		return s.bad(st, "a node is allocated in a node method")
	}
	var basic string
	var subs phVal
	for _, k := range order {
		if k == "syntaxBasicNode" {
			parts, vs, err := c.basicLit(m[k])
			if err != nil {
				return err
			}
			if err := c.use(st, vs...); err != nil {
				return err
			}
			basic = c.fresh()
			rec := "{}"
			if len(parts) > 0 {
				rec = "{ " + strings.Join(parts, ", ") + " }"
			}
			c.emit("let (%s, p) := p.alloc %s   -- %s", basic, rec, s.str(m[k]))
			c.stateChanged()
		} else if subs, err = c.expr(m[k], "subs"); err != nil {
			return err
		}
	}
	if err := c.use(st, subs); err != nil {
		return err
	}
	c.wr(ptr, "unionQualifier := { basic := some "+basic+", subscripts := "+subs.s+" }", src)
	return nil
}

// ---- `:=` statements, the library-call pattern (§5.9).

func phStorable(t string) bool {
	if _, ok := phLeanType[t]; ok {
		return true
	}
	return t == "nrefs" || t == "subs" || strings.HasPrefix(t, "nptr:")
}

// assertPtr: e is `x.(*T)` with T a node struct and x a syntaxNode / interface{}: the Lean Option Nat term.
func (c *phCtx) assertPtr(e ast.Expr) (string, string, bool, error) {
	ta, ok := e.(*ast.TypeAssertExpr)
	if !ok || ta.Type == nil {
		return "", "", false, nil
	}
	st, ok := ta.Type.(*ast.StarExpr)
	if !ok {
		return "", "", false, nil
	}
	id, ok := st.X.(*ast.Ident)
	if !ok {
		return "", "", false, nil
	}
	k, ok := phKinds[id.Name]
	if !ok {
		return "", "", true, c.s.bad(e, "type assertion to *%s", id.Name)
	}
	x, err := c.expr(ta.X, "")
	if err != nil {
		return "", "", true, err
	}
	if err := c.use(e, x); err != nil {
		return "", "", true, err
	}
	switch x.t {
	case "nref":
		return "NRef.asPtr ." + k + " " + x.arg(), k, true, nil
	case "item":
		return "GItem.asPtr ." + k + " " + x.arg(), k, true, nil
	}
	return "", "", true, c.s.bad(e, "type assertion on a value of type %s", x.t)
}

func (c *phCtx) define(st *ast.AssignStmt, src string) error {
	s := c.s
	if len(st.Rhs) != 1 {
		return s.bad(st, "statement %q", src)
	}
	if len(st.Lhs) == 2 {
		// _, isW := e.(*T)
		okv, isId := st.Lhs[1].(*ast.Ident)
		if tiIsIdent(st.Lhs[0], "_") && isId && okv.Name != "_" {
			term, _, is, err := c.assertPtr(st.Rhs[0])
			if err != nil {
				return err
			}
			if is {
				ln, err := c.declare(okv, okv.Name, "bool")
				if err != nil {
					return err
				}
				c.emit("let %s := (%s).isSome   -- %s", ln, term, src)
				return nil
			}
		}
		return s.bad(st, "statement %q", src)
	}
	id, ok := st.Lhs[0].(*ast.Ident)
	if len(st.Lhs) != 1 || !ok || id.Name == "_" {
		return s.bad(st, "statement %q", src)
	}
	if cl, ok := st.Rhs[0].(*ast.CompositeLit); ok && cl.Type != nil {
		if tid, ok := cl.Type.(*ast.Ident); ok {
			if k, ok := phKinds[tid.Name]; ok {
				rec, err := c.nodeLit(cl, k)
				if err != nil {
					return err
				}
				ln, err := c.declare(id, id.Name, "nloc:"+k)
				if err != nil {
					return err
				}
				c.emit("let (%s, p) := p.alloc %s   -- %s", ln, rec, src)
				c.stateChanged()
				return nil
			}
		}
	}
	v, err := c.exprM(st.Rhs[0], "")
	if err != nil {
		return err
	}
	if !phStorable(v.t) {
		return s.bad(st, "a variable of type %s", v.t)
	}
	if err := c.use(st, v); err != nil {
		return err
	}
	ln, err := c.declare(id, id.Name, v.t)
	if err != nil {
		return err
	}
	if v.lv == 3 {
		c.emit("let %s ← %s   -- %s", ln, v.s, src)
	} else {
		c.emit("let %s := %s   -- %s", ln, v.s, src)
	}
	return nil
}

var phLibCalls = map[string]struct {
	nargs  int
	fn     string
	typ    string
	arms   []string
	second string
}{
	"strconv.Atoi":       {1, "atoi", "int", nil, ""},
	"strconv.ParseFloat": {2, "parseFloat", "float", nil, "64"},
	"regexp.Compile":     {1, "regexCompile", "regex", nil, ""},
}

// libPattern: `v, err := strconv.Atoi(t)` + `if err != nil { panic(ErrorInvalidArgument{argument: t, err: err}) }`.
func (c *phCtx) libPattern(st *ast.AssignStmt, next ast.Stmt) (bool, error) {
	s := c.s
	if st.Tok != token.DEFINE || len(st.Rhs) != 1 {
		return false, nil
	}
	ce, ok := st.Rhs[0].(*ast.CallExpr)
	if !ok {
		return false, nil
	}
	se, ok := ce.Fun.(*ast.SelectorExpr)
	if !ok {
		return false, nil
	}
	pkg, ok := se.X.(*ast.Ident)
	if !ok || (pkg.Name != "strconv" && pkg.Name != "regexp") {
		return false, nil
	}
	lc, ok := phLibCalls[pkg.Name+"."+se.Sel.Name]
	if !ok || len(ce.Args) != lc.nargs || ce.Ellipsis.IsValid() || len(st.Lhs) != 2 {
		return true, s.bad(st, "library call %q", s.str(st))
	}
	if lc.second != "" {
		if lit, ok := ce.Args[1].(*ast.BasicLit); !ok || lit.Value != lc.second {
			return true, s.bad(st, "library call %q", s.str(st))
		}
	}
	if c.fn.node {
		return true, s.bad(st, "library call in a node method")
	}
	vid, ok1 := st.Lhs[0].(*ast.Ident)
	eid, ok2 := st.Lhs[1].(*ast.Ident)
	targ, ok3 := ce.Args[0].(*ast.Ident)
	if !ok1 || !ok2 || !ok3 || vid.Name == "_" || eid.Name == "_" {
		return true, s.bad(st, "expected `v, err := %s.%s(t)` with variables v, err, t", pkg.Name, se.Sel.Name)
	}
	tv, ok := c.vars[targ.Name]
	if !ok || tv.typ != "string" {
		return true, s.bad(st, "the argument of the library call must be a string variable")
	}
	// the check
	want := "if " + eid.Name + " != nil { panic(ErrorInvalidArgument{argument: " + targ.Name + ", err: " + eid.Name + "}) }"
	good := false
	if ifs, ok := next.(*ast.IfStmt); ok && ifs.Init == nil && ifs.Else == nil && len(ifs.Body.List) == 1 {
		if be, ok := ifs.Cond.(*ast.BinaryExpr); ok && be.Op == token.NEQ && tiIsIdent(be.X, eid.Name) && tiIsIdent(be.Y, "nil") {
			if pc, ok := phIsPanic(ifs.Body.List[0]); ok && len(pc.Args) == 1 && !pc.Ellipsis.IsValid() {
				if cl, ok := pc.Args[0].(*ast.CompositeLit); ok && cl.Type != nil && tiIsIdent(cl.Type, "ErrorInvalidArgument") {
					m, _, err := c.keys(cl)
					good = err == nil && len(m) == 2 && m["argument"] != nil && m["err"] != nil &&
						tiIsIdent(m["argument"], targ.Name) && tiIsIdent(m["err"], eid.Name)
				}
			}
		}
	}
	if !good || eid.Name == targ.Name || vid.Name == targ.Name || eid.Name == "nil" {
		return true, s.bad(next, "expected %s", want)
	}
	typ := lc.typ
	if typ == "regex" {
		typ = "regex:" + tv.lean
	}
	vl, err := c.declare(vid, vid.Name, typ)
	if err != nil {
		return true, err
	}
	if _, err := c.declare(eid, eid.Name, "err"); err != nil {
		return true, err
	}
	c.fn.dLib = true
	c.emit("-- %s; %s", s.str(st), s.str(next))
	c.emit("match lib.%s %s with", lc.fn, tv.lean)
	c.emit("| none => .error (.invalidArgument %s)", tv.lean)
	switch lc.fn {
	case "atoi":
		c.emit("| some %s =>", vl)
	case "parseFloat":
		c.emit("| some none => .error .unmodelled")
		c.emit("| some (some %s) =>", vl)
	case "regexCompile":
		c.emit("| some false => .error .unmodelled")
		c.emit("| some true =>")
	}
	return true, nil
}

// ---- if / type switch (three cases: last, leaving, join).

// phArm: one alternative of an if / match.
type phArm struct {
	pat     string // "| some x => do" …; "" for the then-branch of an if
	cm      string
	body    []ast.Stmt
	at      ast.Node
	bind    func() error // declarations visible in the arm only
	noBreak bool
}

type phSaved struct {
	kont, brk            string
	cont, canRet, inJoin bool
}

func (c *phCtx) save() phSaved { return phSaved{c.kont, c.brk, c.cont, c.canRet, c.inJoin} }
func (c *phCtx) restore(s phSaved) {
	c.kont, c.brk, c.cont, c.canRet, c.inJoin = s.kont, s.brk, s.cont, s.canRet, s.inJoin
}

func phFill(lines []string, tuple, tupleB string) []string {
	out := make([]string, len(lines))
	for i, l := range lines {
		out[i] = strings.ReplaceAll(strings.ReplaceAll(l, phHole, tuple), phHoleB, tupleB)
	}
	return out
}

// arm translates one alternative in its own scope, `depth` levels deeper.
func (c *phCtx) arm(a phArm, list []ast.Stmt, depth int) ([]string, []string, error) {
	c.open()
	saved := c.save()
	if a.noBreak {
		c.brk = ""
	}
	var err error
	if a.bind != nil {
		err = a.bind()
	}
	if err == nil {
		c.indent += depth
		err = c.block(list, a.at)
		c.indent -= depth
	}
	c.restore(saved)
	lines, as := c.close()
	return lines, as, err
}

// branch emits `if hd then do … else do …` (isIf) or `match hd with | … => do …`.
func (c *phCtx) branch(st ast.Node, hd string, isIf bool, arms []phArm, rest []ast.Stmt, at ast.Node) error {
	s := c.s
	leaves := false
	for _, a := range arms {
		if phLeaves(a.body) {
			leaves = true
		}
	}
	// (the prototype joins an `if` that ends a branch of a join, too)
	if (len(rest) == 0 && !c.inJoin) || leaves {
		if isIf {
			c.emit("if %s then do", hd)
		} else {
			c.emit("match %s with", hd)
		}
		for _, a := range arms {
			if a.pat != "" {
				c.emit("%s%s", a.pat, phCm(a.cm))
			}
			list := a.body
			if !phAlways(list) {
				list = phConcat(list, rest)
				if len(rest) > 0 {
					a.at = at
				}
			}
			lines, _, err := c.arm(a, list, 1)
			if err != nil {
				return err
			}
			c.appendLines(lines)
		}
		return nil
	}
	// join
	saved := c.save()
	c.kont, c.brk, c.cont, c.canRet, c.inJoin = ".ok "+phHole, "", false, false, true
	var all [][]string
	as := map[string]bool{}
	for _, a := range arms {
		lines, vs, err := c.arm(a, a.body, 2)
		if err != nil {
			c.restore(saved)
			return err
		}
		all = append(all, lines)
		for _, v := range vs {
			as[v] = true
		}
	}
	c.restore(saved)
	vars := c.inOrder(as)
	if len(vars) == 0 {
		return s.bad(st, "a branching statement without any effect")
	}
	tuple := phTuple(c.leanNames(vars))
	if isIf {
		c.emit("let %s ← (if %s then do", tuple, hd)
	} else {
		c.emit("let %s ← (match %s with", tuple, hd)
	}
	c.indent++
	for i, a := range arms {
		if a.pat != "" {
			c.emit("%s%s", a.pat, phCm(a.cm))
		}
		c.appendLines(phFill(all[i], tuple, tuple))
	}
	c.emit(": M _)")
	c.indent--
	for _, v := range vars {
		c.bound(v)
	}
	if as[c.state] {
		c.ver++
	}
	return c.block(rest, at)
}

func phUses(n ast.Node, name string) bool {
	used := false
	if n == nil {
		return false
	}
	ast.Inspect(n, func(x ast.Node) bool {
		if id, ok := x.(*ast.Ident); ok && id.Name == name {
			used = true
		}
		return true
	})
	return used
}

func (c *phCtx) ifStmt(st *ast.IfStmt, rest []ast.Stmt, at ast.Node) error {
	s := c.s
	a := st.Body.List
	var b []ast.Stmt
	var elseAt ast.Node = st
	switch e := st.Else.(type) {
	case nil:
	case *ast.BlockStmt:
		b, elseAt = e.List, e
	case *ast.IfStmt:
		b, elseAt = []ast.Stmt{e}, e
	default:
		return s.bad(st.Else, "else branch")
	}
	if st.Init == nil {
		c.emit("-- if %s", s.str(st.Cond))
		v, err := c.expr(st.Cond, "bool")
		if err != nil {
			return err
		}
		if err := c.use(st, v); err != nil {
			return err
		}
		return c.branch(st, v.s, true, []phArm{{body: a, at: st.Body}, {pat: "else do", body: b, at: elseAt}}, rest, at)
	}
	// if x, ok := …; ok
	as, ok := st.Init.(*ast.AssignStmt)
	if !ok || as.Tok != token.DEFINE || len(as.Lhs) != 2 || len(as.Rhs) != 1 {
		return s.bad(st, "if statement with %q", s.str(st.Init))
	}
	x, ok1 := as.Lhs[0].(*ast.Ident)
	okv, ok2 := as.Lhs[1].(*ast.Ident)
	if !ok1 || !ok2 || x.Name == "_" || okv.Name == "_" || !tiIsIdent(st.Cond, okv.Name) || x.Name == okv.Name {
		return s.bad(st, "expected `if x, ok := …; ok {`")
	}
	if _, clash := c.vars[okv.Name]; clash || okv.Name == c.recv {
		return s.bad(st, "%q shadows a variable", okv.Name)
	}
	if phUses(st.Body, okv.Name) || phUses(st.Else, okv.Name) {
		return s.bad(st, "%q is used inside the if", okv.Name)
	}
	if st.Else != nil && phUses(st.Else, x.Name) {
		return s.bad(st, "%q is used in the else branch", x.Name)
	}
	c.emit("-- if %s; %s", s.str(st.Init), s.str(st.Cond))
	var hd, typ string
	term, k, is, err := c.assertPtr(as.Rhs[0])
	if err != nil {
		return err
	}
	if is {
		hd, typ = term, "nptr:"+k
	} else if ix, ok := as.Rhs[0].(*ast.IndexExpr); ok {
		se, ok := ix.X.(*ast.SelectorExpr)
		if !ok || !c.isParserRecv(se.X) || (se.Sel.Name != "filterFunctions" && se.Sel.Name != "aggregateFunctions") {
			return s.bad(st, "if statement with %q", s.str(st.Init))
		}
		key, err := c.expr(ix.Index, "string")
		if err != nil {
			return err
		}
		if err := c.use(st, key); err != nil {
			return err
		}
		c.fn.dReadsP = true
		hd, typ = "p."+se.Sel.Name+" "+key.arg(), "func:ffn"
		if se.Sel.Name == "aggregateFunctions" {
			typ = "func:afn"
		}
	} else {
		return s.bad(st, "if statement with %q", s.str(st.Init))
	}
	xl, err := c.leanName(x, x.Name)
	if err != nil {
		return err
	}
	bind := func() error {
		_, err := c.declare(x, x.Name, typ)
		return err
	}
	return c.branch(st, hd, false, []phArm{{pat: "| some " + xl + " => do", body: a, at: st.Body, bind: bind},
		{pat: "| none => do", body: b, at: elseAt}}, rest, at)
}

func (c *phCtx) typeSwitch(st *ast.TypeSwitchStmt, rest []ast.Stmt, at ast.Node) error {
	s := c.s
	es, ok := st.Assign.(*ast.ExprStmt)
	if st.Init != nil || !ok {
		return s.bad(st, "type switch with a binding or an init statement")
	}
	ta, ok := es.X.(*ast.TypeAssertExpr)
	if !ok || ta.Type != nil {
		return s.bad(st, "type switch %q", s.str(es))
	}
	c.emit("-- switch %s", s.str(es))
	v, err := c.expr(ta.X, "nref")
	if err != nil {
		return err
	}
	if err := c.use(st, v); err != nil {
		return err
	}
	var arms []phArm
	var def *phArm
	seen := map[string]bool{}
	for _, cs := range st.Body.List {
		cc := cs.(*ast.CaseClause)
		if len(cc.Body) > 0 {
			if br, ok := cc.Body[len(cc.Body)-1].(*ast.BranchStmt); ok && br.Tok == token.FALLTHROUGH {
				return s.bad(br, "fallthrough")
			}
		}
		if cc.List == nil {
			def = &phArm{pat: "| _ => do", cm: "default:", body: cc.Body, at: cc, noBreak: true}
			continue
		}
		var pats, names []string
		for _, t := range cc.List {
			se, ok := t.(*ast.StarExpr)
			var k string
			if ok {
				if id, isId := se.X.(*ast.Ident); isId {
					k = phKinds[id.Name]
				}
			}
			if k == "" || seen[k] {
				return s.bad(t, "case %s (only pointers to node structs, once each)", s.str(t))
			}
			seen[k] = true
			pats = append(pats, "some ."+k)
			names = append(names, s.str(t))
		}
		arms = append(arms, phArm{pat: "| " + strings.Join(pats, " | ") + " => do", cm: "case " + strings.Join(names, ", ") + ":",
			body: cc.Body, at: cc, noBreak: true})
	}
	if def == nil {
		def = &phArm{pat: "| _ => do", at: st, noBreak: true}
	}
	arms = append(arms, *def)
	return c.branch(st, "NRef.kind "+v.arg(), false, arms, rest, at)
}

// ---- `for _, x := range E` and `for COND`.

// phHasBreak: does the loop body contain a `break` that belongs to this loop? (labels: refused elsewhere)
func phHasBreak(body *ast.BlockStmt) bool {
	found := false
	ast.Inspect(body, func(x ast.Node) bool {
		switch x := x.(type) {
		case *ast.ForStmt, *ast.RangeStmt, *ast.SwitchStmt, *ast.TypeSwitchStmt, *ast.SelectStmt, *ast.FuncLit:
			return false
		case *ast.BranchStmt:
			if x.Tok == token.BREAK {
				found = true
			}
		}
		return true
	})
	return found
}

func (c *phCtx) rangeStmt(st *ast.RangeStmt) error {
	s := c.s
	x, ok := st.Value.(*ast.Ident)
	if !ok || !tiIsIdent(st.Key, "_") || st.Tok != token.DEFINE || x.Name == "_" {
		return s.bad(st, "expected `for _, x := range xs`")
	}
	c.emit("-- for _, %s := range %s", x.Name, s.str(st.X))
	xs, err := c.expr(st.X, "")
	if err != nil {
		return err
	}
	et, ok := phElem[xs.t]
	if !ok {
		return s.bad(st.X, "range over %s", s.str(st.X))
	}
	if err := c.use(st, xs); err != nil {
		return err
	}
	c.open()
	saved := c.save()
	c.kont, c.brk, c.cont, c.canRet, c.inJoin = ".ok "+phHole, "", true, false, false
	xl, err := c.declare(x, x.Name, et)
	if err == nil {
		c.indent += 2
		err = c.block(st.Body.List, st.Body)
		c.indent -= 2
	}
	c.restore(saved)
	lines, vars := c.close()
	if err != nil {
		return err
	}
	if len(vars) == 0 {
		return s.bad(st, "a loop without any effect")
	}
	tuple := phTuple(c.leanNames(vars))
	c.emit("let %s ← forEach %s %s (fun %s %s => do", tuple, xs.arg(), tuple, xl, tuple)
	c.appendLines(phFill(lines, tuple, tuple))
	c.indent++
	c.emit(")")
	c.indent--
	for _, v := range vars {
		c.bound(v)
	}
	c.ver++
	return nil
}

func (c *phCtx) forStmt(st *ast.ForStmt) error {
	s := c.s
	if st.Init != nil || st.Post != nil || st.Cond == nil {
		return s.bad(st, "for statement (only `for cond {` and `for _, x := range xs {`)")
	}
	hasBreak := phHasBreak(st.Body)
	if hasBreak && c.inBrk {
		return s.bad(st, "a loop with break inside a loop with break")
	}
	c.fn.dFor = true
	c.emit("-- for %s", s.str(st.Cond))
	savedNo := c.noHoist
	c.noHoist = true
	cond, err := c.expr(st.Cond, "bool")
	c.noHoist = savedNo
	if err != nil {
		return err
	}
	c.open()
	saved := c.save()
	savedIn := c.inBrk
	c.kont, c.brk, c.cont, c.canRet, c.inJoin = ".ok "+phHole, "", true, false, false
	if hasBreak {
		c.brk, c.inBrk = ".ok "+phHoleB, true
	}
	c.indent += 2
	err = c.block(st.Body.List, st.Body)
	c.indent -= 2
	c.restore(saved)
	c.inBrk = savedIn
	lines, vars := c.close()
	if err != nil {
		return err
	}
	if len(vars) == 0 {
		return s.bad(st, "a loop without any effect")
	}
	names := c.leanNames(vars)
	tuple, init, tupleB, condText := phTuple(names), phTuple(names), "", cond.s
	if hasBreak {
		tuple = phTuple(append(append([]string(nil), names...), "brk"))
		init = phTuple(append(append([]string(nil), names...), "false"))
		tupleB = phTuple(append(append([]string(nil), names...), "true"))
		condText = "!brk && " + cond.opnd()
	}
	c.emit("let %s ← whileLoop fuel %s (fun %s => %s) (fun %s => do", tuple, init, tuple, condText, tuple)
	c.appendLines(phFill(lines, tuple, tupleB))
	c.indent++
	c.emit(")")
	c.indent--
	for _, v := range vars {
		c.bound(v)
	}
	c.ver++
	return nil
}
