package main

import (
	"go/parser"
	"go/token"
	"os"
	"path/filepath"
	"strings"
	"testing"
)

// normTestRun normalises `src` (a complete file of a one-file package, stored under the given
// file name) and returns the printed result, white space collapsed.
func normTestRun(t *testing.T, fileName, src string, prof normProfile) string {
	t.Helper()
	dir := t.TempDir()
	path := filepath.Join(dir, fileName)
	if err := os.WriteFile(path, []byte(src), 0o644); err != nil {
		t.Fatal(err)
	}
	fset := token.NewFileSet()
	f, err := parser.ParseFile(fset, path, nil, parser.SkipObjectResolution)
	if err != nil {
		t.Fatal(err)
	}
	if p := normLoad(dir); !p.ok {
		t.Fatalf("test source does not type-check:\n%s", src)
	}
	normalizeFileWith(fset, f, prof)
	setPos(f, token.Pos(1))
	c := &normCtx{}
	return c.str(f)
}

type normCase struct {
	name string
	src  string // body of the file after `package p`
	want string // substring expected in the result ("" = none)
	not  string // substring that must NOT occur ("" = none)
}

func TestNormalizeRules(t *testing.T) {
	cases := []normCase{
		// ---- expressions
		{"not-eq", `func f(a, b int) bool { return !(a == b) }`, `return a != b`, ``},
		{"not-less kept (NaN)", `func f(a, b float64) bool { return !(a < b) }`, `!(a < b)`, `>=`},
		{"len != 0", `func f(xs []int) bool { return len(xs) != 0 }`, `len(xs) > 0`, ``},
		{"0 < len", `func f(xs []int) bool { return 0 < len(xs) }`, `len(xs) > 0`, ``},
		{"len < 1", `func f(xs []int) bool { return len(xs) < 1 }`, `len(xs) == 0`, ``},
		{"shadowed len kept", `func len(x []int) int { return -1 }
func f(xs []int) bool { return len(xs) != 0 }`, `len(xs) != 0`, ``},
		// ---- zero declarations
		{"x := false", `func f() bool { x := false; return x }`, `var x bool`, `:=`},
		{"x := true kept", `func f() bool { x := true; return x }`, `x := true`, `var x`},
		// ---- if / return shapes
		{"if-negation", `func f(c bool) int { x := 1; if !c { x = 2 } else { x = 3 }; return x }`, `if c { x = 3 } else { x = 2 }`, ``},
		{"return flip", `func f(c bool) int { if !c { return 1 }; return 2 }`, `if c { return 2 } return 1`, ``},
		{"return flip keeps nil tests", `func f(e error) int { if e != nil { return 1 }; return 2 }`, `if e != nil { return 1 }`, ``},
		{"else-if", `func f(a, b bool) int { x := 0; if a { x = 1 } else if b { x = 2 } else { x = 3 }; return x }`, `else { if b {`, `else if`},
		{"split &&", `func g()
func f(a, b bool) { if a && b { g() }; g() }`, `if a { if b { g() } }`, `&&`},
		{"split && not with else", `func g()
func f(a, b bool) { if a && b { g() } else { g(); g() }; g() }`, `a && b`, ``},
		{"loop continue", `func f(xs []int) int { n := 0; for i := range xs { if xs[i] == 0 { n++ } else if xs[i] == 1 { n-- } }; return n }`,
			`if xs[i] == 0 { n++ continue } if xs[i] == 1 { n-- }`, `else`},
		{"loop if/else kept", `func f(xs []int) int { n := 0; for i := range xs { if xs[i] == 0 { n++ } else { n-- } }; return n }`, `} else { n-- }`, `continue`},
		{"void early return", `var g int
func f(c bool) { if c { g = 1; return }; g = 2 }`, `if c { g = 1 } else { g = 2 }`, `return`},
		{"void early return, empty A", `var g int
func f(c *int) { if c == nil { return }; g = 2 }`, `if c != nil { g = 2 }`, `return`},
		{"void early return with init kept", `var g int
func h() bool
func f() { if c := h(); c { g = 1; return }; g = 2 }`, `return`, `else`},
		{"tail merge", `var g int
func f(c bool) error { if c { g = 1; return nil }; g = 2; return nil }`, `if c { g = 1 } else { g = 2 } return nil`, ``},
		{"tail merge not when a side leaves", `var g int
func f(c, d bool) int { if c { if d { return 7 }; return 0 }; g = 2; return 0 }`, `if c { if d { return 7 } return 0 }`, `else`},
		{"tail split", `var g int
func f(c, d bool) int { if c { if d { return 7 } } else { g = 2 }; return 0 }`, `if c { if d { return 7 } return 0 } g = 2 return 0`, `else`},
		// ---- switch
		{"switch to if", `var g int
func f(a, b bool) { for { switch { case a: g = 1; case b: g = 2; default: g = 3 } } }`, `if a { g = 1 continue } if b { g = 2 } else { g = 3 }`, `switch`},
		{"switch with break kept", `var g int
func f(a, b bool) { for { switch { case a: if b { break }; g = 1; default: g = 3 } } }`, `switch {`, ``},
		{"switch with fallthrough kept", `var g int
func f(a, b bool) { switch { case a: g = 1; fallthrough; case b: g = 2 } }`, `switch {`, ``},
		{"type switch order", `var g int
func f(x interface{}) { switch x.(type) { case string: ; case float64: g = 1; case map[string]interface{}: g = 2; default: g = 3 } }`,
			`case map[string]interface{}: g = 2 case float64: g = 1 case string: default:`, ``},
		{"type switch with interface case kept", `type I interface{ M() }
var g int
func f(x interface{}) { switch x.(type) { case string: ; case I: g = 1; case float64: g = 2 } }`, `case string: case I: g = 1 case float64:`, ``},
		{"complement", `var g int
func f(a, b bool) { if a && b { g = 1 } else { if !a && !b { g = 2 } else { g = 3 } } }`, `if a == b {`, `!a`},
		{"complement needs locals", `type T struct{ a, b bool }
var g int
func f(t *T) { if t.a && t.b { g = 1 } else { if !t.a && !t.b { g = 2 } else { g = 3 } } }`, `!t.a && !t.b`, `==`},
		// ---- defer
		{"defer closure", `func put(x *int) { *x = 0 }
func f() { x := new(int); defer put(x); *x = 1 }`, `defer func() { put(x) }()`, ``},
		{"defer: argument reassigned kept", `func put(x *int)
func f() { x := new(int); defer put(x); x = new(int) }`, `defer put(x)`, `func()`},
		{"defer: function variable kept", `var put = func(x *int) {}
func f() { x := new(int); defer put(x) }`, `defer put(x)`, `defer func()`},
		{"defer: callee recovers kept", `func put(x *int) { recover() }
func f() { x := new(int); defer put(x) }`, `defer put(x)`, `defer func()`},
		{"defer: address of argument taken kept", `func put(x *int)
func f() { x := new(int); y := &x; defer put(x); *y = nil }`, `defer put(x)`, `defer func()`},
		// ---- range value
		{"range value", `var g interface{}
func f(xs []interface{}) { for i, x := range xs { if x != nil { g = x; xs[i] = nil } } }`, `for i := range xs { if xs[i] != nil { g = xs[i]`, `, x :=`},
		{"range over string kept", `var g rune
func f(s string) { for i, r := range s { _ = i; g = r } }`, `for i, r := range s`, ``},
		{"range over array kept", `var g int
func f() { var a [3]int; for i, x := range a { a[2] = i; g = x } }`, `for i, x := range a`, ``},
		{"range over map kept", `var g int
func f(m map[int]int) { for k, v := range m { _ = k; g = v } }`, `for k, v := range m`, ``},
		{"range: store before use kept", `var g int
func f(xs, ys []int) { for i, x := range xs { ys[i] = 0; g = x } }`, `for i, x := range xs`, ``},
		{"range: call before use kept", `var g int
func h()
func f(xs []int) { for i, x := range xs { _ = i; h(); g = x } }`, `for i, x := range xs`, ``},
		{"range: captured kept", `var g func() int
func f(xs []int) { for i, x := range xs { _ = i; g = func() int { return x } } }`, `for i, x := range xs`, ``},
		{"range: slice reassigned kept", `var g int
func f(xs []int) { for i, x := range xs { g = x; _ = i; xs = nil } }`, `for i, x := range xs`, ``},
		{"range: use in nested loop after store kept", `var g int
func f(xs []int) { for i, x := range xs { for j := 0; j < 2; j++ { g = x; xs[i] = 0 } } }`, `for i, x := range xs`, ``},
		{"range through pointer", `var g string
func f(p *[]string, out []interface{}) { for i, k := range *p { out[i] = k } }`, `for i := range *p { out[i] = (*p)[i] }`, ``},
		{"range through pointer: store of the same type kept", `func f(p *[]string, q [][]string) { for i, k := range *p { _ = k; q[i] = nil } }`, `for i, k := range *p`, ``},
		// ---- len locals
		{"len local", `func f(xs []int) int { n := len(xs); s := 0; for i := 0; i < n; i++ { s += xs[i] }; return s + n }`, `i < len(xs)`, `n :=`},
		{"len of map kept", `func f(m map[int]int) int { n := len(m); m[1] = 1; return n }`, `n := len(m)`, ``},
		{"len: slice reassigned kept", `func f(xs []int) int { n := len(xs); xs = xs[:0]; return n + len(xs) }`, `n := len(xs)`, ``},
		{"len: append through pointer-receiver method kept", `type S []int
func (s *S) add() { *s = append(*s, 1) }
func f() int { var xs S; n := len(xs); xs.add(); return n }`, `n := len(xs)`, ``},
		// ---- pointer local
		{"ptr local", `type C struct{ a, b int }
var g int
func f(cs []C) { if len(cs) != 0 { p := &cs[0]; g = p.a + p.b } }`, `g = cs[0].a + cs[0].b`, `p :=`},
		{"ptr local: unguarded kept", `type C struct{ a, b int }
var g int
func f(cs []C) { p := &cs[0]; g = p.a }`, `p := &cs[0]`, ``},
		{"ptr local: escapes kept", `type C struct{ a, b int }
var g *C
func f(cs []C) { if len(cs) > 0 { p := &cs[0]; g = p } }`, `p := &cs[0]`, ``},
		// ---- helpers
		{"inline return helper", `type T struct{ n int }
func (t *T) fin(k int, e error) error { if k != 0 { return nil }; return e }
func (t *T) run(k int) error { var e error; k++; return t.fin(k, e) }`, `k++ if k == 0 { return e } return nil }`, `fin`},
		{"double negation", `func f(a bool) bool { return !!a }`, `return a`, `!`},
		{"not-neq", `func f(a, b int) bool { return !(a != b) }`, `return a == b`, `!`},
		{"inline: converting argument kept", `type E struct{}
func (*E) Error() string { return "" }
func fin(e error) error { if e == nil { return nil }; return e }
func run() error { var e *E; return fin(e) }`, `return fin(e)`, ``},
		{"inline: second use elsewhere kept", `func fin(k int) int { return k + 1 }
var g = fin(3)
func run(k int) int { return fin(k) }`, `return fin(k)`, ``},
		{"inline: helper assigns its parameter kept", `func fin(k int) int { k++; return k }
func run(k int) int { return fin(k) }`, `return fin(k)`, ``},
		{"inline: helper local clashes kept", `func fin(k int) int { t := k * 2; return t }
func run(k int) int { t := 1; k += t; return fin(k) }`, `return fin(k)`, ``},
		{"inline: different result type kept", `type E struct{}
func (*E) Error() string { return "" }
func fin(k int) *E { return nil }
func run(k int) error { return fin(k) }`, `return fin(k)`, ``},
		{"inline predicate", `var g int
func isC(v interface{}) bool { switch v.(type) { case map[string]interface{}, []interface{}: return true }; return false }
func run(x interface{}) { if !isC(x) { g = 1 }; if isC(x) { g = 2 } }`,
			`switch x.(type) { case map[string]interface{}, []interface{}: default: g = 1 } switch x.(type) { case map[string]interface{}, []interface{}: g = 2 }`, `isC`},
		{"inline predicate: break in body kept", `var g int
func isC(v interface{}) bool { switch v.(type) { case string: return true }; return false }
func run(xs []interface{}) { for _, x := range xs { if isC(x) { break } } }`, `if isC(x)`, ``},
	}
	for _, tc := range cases {
		got := normTestRun(t, "x.go", "package p\n"+tc.src+"\n", normProfile{})
		if tc.want != "" && !strings.Contains(got, tc.want) {
			t.Errorf("%s: want %q in\n  %s", tc.name, tc.want, got)
		}
		if tc.not != "" && strings.Contains(got, tc.not) {
			t.Errorf("%s: do not want %q in\n  %s", tc.name, tc.not, got)
		}
	}
}

func TestNormalizeCopyLoopOnlyInItsFile(t *testing.T) {
	src := "package p\nfunc f(src []int) []int { dst := make([]int, len(src)); copy(dst, src); return dst }\n"
	if got := normTestRun(t, normCopyLoopFile, src, normProfile{}); !strings.Contains(got, "for index := range dst { dst[index] = src[index] }") {
		t.Errorf("copy not rewritten in %s: %s", normCopyLoopFile, got)
	}
	if got := normTestRun(t, "other.go", src, normProfile{}); !strings.Contains(got, "copy(dst, src)") {
		t.Errorf("copy rewritten outside %s: %s", normCopyLoopFile, got)
	}
	short := "package p\nfunc f(src []int) []int { dst := make([]int, 1); copy(dst, src); return dst }\n"
	if got := normTestRun(t, normCopyLoopFile, short, normProfile{}); !strings.Contains(got, "copy(dst, src)") {
		t.Errorf("copy into a slice of another length rewritten: %s", got)
	}
}

func TestNormalizeProfiles(t *testing.T) {
	src := "package p\nfunc g()\nfunc f(a, b bool) int { if a && b { g() }; x := 0; return x }\n"
	got := normTestRun(t, "x.go", src, normProfile{keepAndCond: true, keepIntShort: true})
	if !strings.Contains(got, "a && b") || !strings.Contains(got, "x := 0") {
		t.Errorf("profile ignored: %s", got)
	}
	got = normTestRun(t, "x.go", src, normProfile{})
	if strings.Contains(got, "a && b") || !strings.Contains(got, "var x int") {
		t.Errorf("default profile: %s", got)
	}
}

func TestNormalizeIdentityWithoutTypes(t *testing.T) {
	dir := t.TempDir()
	path := filepath.Join(dir, "x.go")
	src := "package p\nfunc f(c bool) int { if !c { return 1 }; return undefinedName }\n"
	os.WriteFile(path, []byte(src), 0o644)
	fset := token.NewFileSet()
	f, err := parser.ParseFile(fset, path, nil, parser.SkipObjectResolution)
	if err != nil {
		t.Fatal(err)
	}
	normalizeFile(fset, f)
	if got := (&normCtx{}).str(f); !strings.Contains(got, "if !c { return 1 }") {
		t.Errorf("a package that does not type-check must be left alone: %s", got)
	}
}

// ---- rules added for the second set of harmless refactorings (R17 … R32)

func TestNormalizeRules2(t *testing.T) {
	cases := []normCase{
		// ---- negated ordered comparison
		{"not-leq on ints", `func f(a, b int) bool { return !(a <= b) }`, `return a > b`, `!`},
		{"not-less on len", `func f(xs []int) bool { return !(len(xs) < 2) }`, `return len(xs) >= 2`, `!`},
		{"not-leq on floats kept (NaN)", `func f(a, b float64) bool { return !(a <= b) }`, `!(a <= b)`, `a > b`},
		{"not-less on strings kept", `func f(a, b string) bool { return !(a < b) }`, `!(a < b)`, `>=`},
		// ---- else after a jump
		{"else after return", `var g int
func f(c bool) int { if c { return 1 } else { g = 2 }; g++; return g }`, `if c { return 1 } g = 2 g++`, `else`},
		{"else after return: declaration would capture kept", `var x = 1
func f(c bool) int { if c { return 0 } else { x := 2; _ = x }; return x }`, `} else {`, ``},
		{"else after a function called panic kept", `func panic(s string) {}
var g int
func f(c bool) { for { if c { panic("x") } else { g = 2 }; g = 3 } }`, `} else {`, ``},
		{"else after return: init kept", `var g int
func h() bool
func f() int { if c := h(); c { return 1 } else { g = 2 }; return g }`, `} else {`, ``},
		// ---- element local
		{"elem local", `type C struct{ a map[string]int; b bool }
type P struct{ a map[string]int; b bool; z int }
func f(cs []C, p *P) { if len(cs) > 0 { v := cs[0]; p.a = v.a; p.b = v.b } }`, `p.a = cs[0].a p.b = cs[0].b`, `v :=`},
		{"elem local: destination may be the element itself kept", `type C struct{ a, b int }
func f(cs []C, p *C) { if len(cs) > 0 { v := cs[0]; p.a = v.b; p.b = v.a } }`, `v := cs[0]`, `cs[0].a`},
		{"elem local: call in between kept", `type C struct{ a, b int }
type P struct{ a, b, z int }
func h()
func f(cs []C, p *P) { if len(cs) > 0 { v := cs[0]; h(); p.a = v.a } }`, `v := cs[0]`, `cs[0].a`},
		{"elem local: unguarded kept", `type C struct{ a, b int }
type P struct{ a, b, z int }
func f(cs []C, p *P) { v := cs[0]; p.a = v.a }`, `v := cs[0]`, `cs[0].a`},
		{"elem local: struct-typed field kept", `type I struct{ n int }
type C struct{ a I }
type P struct{ a I; z int }
func f(cs []C, p *P) { if len(cs) > 0 { v := cs[0]; p.a = v.a } }`, `v := cs[0]`, `cs[0].a`},
		// ---- header alias
		{"header alias", `func f(p *[]string, m map[string]int, n int) { keys := (*p)[:n]; *p = keys; i := 0; for k := range m { keys[i] = k; i++ } }`,
			`*p = (*p)[:n] var i int for k := range m { (*p)[i] = k`, `keys`},
		{"header alias: stored back later kept (a panic in between would show)", `func f(p *[]string, m map[string]int, n int) { keys := (*p)[:n]; i := 0; for k := range m { keys[i] = k; i++ }; *p = keys }`,
			`keys := (*p)[:n]`, ``},
		{"header alias: store of a header through another pointer kept", `func f(p, q *[]string, n int) { keys := (*p)[:n]; *p = keys; *q = nil; keys[0] = "x" }`, `keys[0] = "x"`, ``},
		{"header alias: call in between kept", `func h()
func f(p *[]string, n int) { keys := (*p)[:n]; *p = keys; h(); keys[0] = "x" }`, `keys[0] = "x"`, ``},
		{"header alias: pointer reassigned kept", `func f(p, q *[]string, n int) { keys := (*p)[:n]; *p = keys; p = q; keys[0] = "x" }`, `keys[0] = "x"`, ``},
		// ---- alias read
		{"alias read", `type B struct{ result []interface{} }
type N interface{ vg() bool }
type T struct{ v bool }
func (t *T) vg() bool { return t.v }
func f(b *B, n N) int { r := b.result; if !n.vg() { if a, ok := r[0].([]interface{}); ok { r = a } }; return len(r) }`,
			`a, ok := b.result[0].([]interface{}); ok { r = a } } return len(r)`, ``},
		{"alias read: method with an effect kept", `type B struct{ result []interface{} }
type N interface{ vg() bool }
type T struct{ v bool; b *B }
func (t *T) vg() bool { t.b.result = nil; return t.v }
func f(b *B, n N) int { r := b.result; if !n.vg() { if a, ok := r[0].([]interface{}); ok { r = a } }; return len(r) }`, `a, ok := r[0].([]interface{})`, `b.result[0]`},
		{"alias read: field stored in between kept", `type B struct{ result []interface{} }
func f(b *B) interface{} { r := b.result; b.result = nil; x := r[0]; r = nil; _ = r; return x }`, `x := r[0]`, `b.result[0]`},
		{"alias read: after the reassignment kept", `type B struct{ result []interface{} }
func f(b *B, c bool) interface{} { r := b.result; if c { r = nil }; return r[0] }`, `return r[0]`, `b.result[0]`},
		{"alias read: scalar kept", `type B struct{ n int }
func f(b *B) int { i := b.n; if i < 0 { i += 10 }; return i }`, `if i < 0`, `b.n <`},
		// ---- same-file helpers: duplicate name of an argument, different result type
		{"inline: struct result into interface result", `type E struct{ k int }
func (E) Error() string { return "" }
func mk(k int) E { return E{k: k} }
func run(k int) error { if k > 0 { return mk(k) }; return nil }`, `return E{k: k}`, `mk`},
		{"inline: typed nil pointer into interface result kept", `type E struct{}
func (*E) Error() string { return "" }
func mk(k int) *E { return nil }
func run(k int) error { if k > 0 { return mk(k) }; return nil }`, `return mk(k)`, ``},
		{"inline: constant into interface result kept", `func mk(k int) int64 { return 1 }
func run(k int) interface{} { if k > 0 { return mk(k) }; return nil }`, `return mk(k)`, ``},
	}
	for _, tc := range cases {
		got := normTestRun(t, "x.go", "package p\n"+tc.src+"\n", normProfile{})
		if tc.want != "" && !strings.Contains(got, tc.want) {
			t.Errorf("%s: want %q in\n  %s", tc.name, tc.want, got)
		}
		if tc.not != "" && strings.Contains(got, tc.not) {
			t.Errorf("%s: do not want %q in\n  %s", tc.name, tc.not, got)
		}
	}
}

func TestNormalizeFwdLocal(t *testing.T) {
	head := "package p\nimport \"fmt\"\ntype N struct{ text string }\ntype E struct{ node *N; k string }\nfunc g() string\n"
	pos := head + "func (e E) Error() string { path := e.node.text; return fmt.Sprintf(\"a %s %s\", e.k, path) }\n"
	if got := normTestRun(t, "x.go", pos, normProfile{}); !strings.Contains(got, `return fmt.Sprintf("a %s %s", e.k, e.node.text)`) || strings.Contains(got, "path") {
		t.Errorf("single-use local not forwarded: %s", got)
	}
	// evil twins: a call among the operands (it could change e.node.text), a second use, an index
	for name, body := range map[string]string{
		"call among operands": "path := e.node.text; return fmt.Sprintf(\"%s %s\", g(), path)",
		"used twice":          "path := e.node.text; return fmt.Sprintf(\"%s %s\", path, path)",
		"index operand":       "path := e.node.text; return fmt.Sprintf(\"%s %s\", e.k[1:], path)",
		"not adjacent":        "path := e.node.text; e.node = nil; return fmt.Sprintf(\"%s\", path)",
	} {
		got := normTestRun(t, "x.go", head+"func (e E) Error() string { "+body+" }\n", normProfile{})
		if !strings.Contains(got, "path := e.node.text") {
			t.Errorf("%s: the local must be kept: %s", name, got)
		}
	}
}

func TestNormalizeFileDirections(t *testing.T) {
	loop := "package p\nvar g int\nfunc f(xs []interface{}) { for _, x := range xs { if s, ok := x.(string); ok { g += len(s) } else { g-- } } }\n"
	if got := normTestRun(t, "x.go", loop, normProfile{loopElseContinue: true}); !strings.Contains(got, "if s, ok := x.(string); ok { g += len(s) continue } g--") {
		t.Errorf("loopElseContinue: %s", got)
	}
	if got := normTestRun(t, "jsonpath_parser.go", loop, normProfile{}); !strings.Contains(got, "continue } g--") {
		t.Errorf("loopElseContinue is the direction of jsonpath_parser.go: %s", got)
	}
	if got := normTestRun(t, "x.go", loop, normProfile{}); !strings.Contains(got, "} else { g-- }") {
		t.Errorf("loopElseContinue applied without the profile: %s", got)
	}
	// evil twin: the else block uses a variable of the init statement
	evil := "package p\nvar g int\nfunc f(xs []interface{}) { for _, x := range xs { if s, ok := x.(string); ok { g += len(s) } else { g -= len(s) } } }\n"
	if got := normTestRun(t, "x.go", evil, normProfile{loopElseContinue: true}); !strings.Contains(got, "} else { g -= len(s) }") {
		t.Errorf("else block that needs the init scope was moved out: %s", got)
	}
	// evil twin: the name declared in the else block is also declared elsewhere in the function
	evil2 := "package p\nvar g int\nfunc f(xs []interface{}) { for _, x := range xs { if s, ok := x.(string); ok { g += len(s) } else { n := 1; g -= n } }; n := 2; g += n }\n"
	if got := normTestRun(t, "x.go", evil2, normProfile{loopElseContinue: true}); !strings.Contains(got, "} else { n := 1") {
		t.Errorf("else block with a clashing declaration was moved out: %s", got)
	}
	eq := "package p\nfunc f(p *int) int { x := 1; if p != nil { x = 2 } else { x = 3 }; return x }\n"
	if got := normTestRun(t, "x.go", eq, normProfile{eqFirst: true}); !strings.Contains(got, "if p == nil { x = 3 } else { x = 2 }") {
		t.Errorf("eqFirst: %s", got)
	}
	if got := normTestRun(t, "jsonpath.go", eq, normProfile{}); !strings.Contains(got, "if p == nil { x = 3 } else { x = 2 }") {
		t.Errorf("eqFirst is the direction of jsonpath.go: %s", got)
	}
	if got := normTestRun(t, "x.go", eq, normProfile{}); !strings.Contains(got, "if p != nil { x = 2 } else { x = 3 }") {
		t.Errorf("eqFirst applied without the profile: %s", got)
	}
	// `<` is not `!=`: never flipped
	lt := "package p\nfunc f(a, b float64) int { x := 1; if a < b { x = 2 } else { x = 3 }; return x }\n"
	if got := normTestRun(t, "x.go", lt, normProfile{eqFirst: true}); !strings.Contains(got, "if a < b { x = 2 } else { x = 3 }") {
		t.Errorf("eqFirst touched an ordered comparison: %s", got)
	}
}

// normTestRunFiles normalises file `target` of a package made of several files.
func normTestRunFiles(t *testing.T, files map[string]string, target string) string {
	t.Helper()
	dir := t.TempDir()
	for n, src := range files {
		if err := os.WriteFile(filepath.Join(dir, n), []byte("package p\n"+src+"\n"), 0o644); err != nil {
			t.Fatal(err)
		}
	}
	fset := token.NewFileSet()
	f, err := parser.ParseFile(fset, filepath.Join(dir, target), nil, parser.SkipObjectResolution)
	if err != nil {
		t.Fatal(err)
	}
	if p := normLoad(dir); !p.ok {
		t.Fatalf("test package does not type-check: %v", files)
	}
	normalizeFile(fset, f)
	setPos(f, token.Pos(1))
	return (&normCtx{}).str(f)
}

func TestNormalizeInlineAcrossFiles(t *testing.T) {
	types := `type Base struct{ rt *int }
type Err struct{ rt *int; err error }
func (Err) Error() string { return "" }
type F struct{ *Base }
type G struct{ *Base }
func (i *Base) get() *int { return i.rt }
`
	fRun := "func (f *F) run(err error) error { if err != nil { return f.mk(err) }; return nil }\n"
	gRun := "func (g *G) run(err error) error { if err := g.chk(); err != nil { return err }; if err != nil { return g.mk(err) }; return nil }\nfunc (g *G) chk() error { return nil }\n"
	mk := "func (i *Base) mk(err error) Err { return Err{rt: i.rt, err: err} }\n"
	files := map[string]string{"t.go": types, "a.go": mk + fRun, "b.go": gRun}
	if got := normTestRunFiles(t, files, "a.go"); !strings.Contains(got, "return Err{rt: f.rt, err: err}") || strings.Contains(got, "mk") {
		t.Errorf("a.go: promoted helper not inlined / not dropped: %s", got)
	}
	if got := normTestRunFiles(t, files, "b.go"); !strings.Contains(got, "return Err{rt: g.rt, err: err}") || strings.Contains(got, "mk") {
		t.Errorf("b.go: helper of another file not inlined: %s", got)
	}
	evil := map[string]string{
		// a nil f panics at the call (f.Base is evaluated); without a use of the receiver the inlined body would not
		"receiver unused": "func (i *Base) mk(err error) Err { return Err{err: err} }\n",
		// a call in the body could change f.Base between the call and the use
		"call in body": "func (i *Base) mk(err error) Err { return Err{rt: i.get(), err: err} }\n",
		// more than a single return
		"two statements": "func (i *Base) mk(err error) Err { e := Err{rt: i.rt, err: err}; return e }\n",
	}
	for name, h := range evil {
		files := map[string]string{"t.go": types, "a.go": h + fRun, "b.go": gRun}
		for _, target := range []string{"a.go", "b.go"} {
			if got := normTestRunFiles(t, files, target); !strings.Contains(got, ".mk(err)") {
				t.Errorf("%s (%s): the call must be kept: %s", name, target, got)
			}
		}
	}
	// one use that cannot be inlined (a method value) keeps every call
	files = map[string]string{"t.go": types, "a.go": mk + fRun + "var keep = (*Base).mk\n", "b.go": gRun}
	if got := normTestRunFiles(t, files, "b.go"); !strings.Contains(got, "g.mk(err)") {
		t.Errorf("helper with a non-call use inlined: %s", got)
	}
	// a helper none of whose callers shares its file is the library's own structure: kept
	files = map[string]string{"t.go": types + mk, "a.go": fRun, "b.go": gRun}
	if got := normTestRunFiles(t, files, "a.go"); !strings.Contains(got, "f.mk(err)") {
		t.Errorf("helper declared away from all its callers inlined: %s", got)
	}
}

func TestErrTextsAcceptedForms(t *testing.T) {
	run := func(src string) (string, error) {
		dir, out := t.TempDir(), t.TempDir()
		if err := os.WriteFile(filepath.Join(dir, "error_x.go"), []byte("package p\n"+src+"\n"), 0o644); err != nil {
			t.Fatal(err)
		}
		if err := genErrTexts(dir, out); err != nil {
			return "", err
		}
		data, err := os.ReadFile(filepath.Join(out, "ErrTexts.lean"))
		return string(data), err
	}
	decl := "type nd struct{ text string }\ntype ErrorX struct { node *nd; k string }\n"
	want := `("ErrorX", ["node *nd", "k string"], "x (k=%s, path=%s)", ["e.k", "e.node.text"])`
	for name, body := range map[string]string{
		"sprintf":  "import \"fmt\"\n" + decl + "func (e ErrorX) Error() string { return fmt.Sprintf(`x (k=%s, path=%s)`, e.k, e.node.text) }",
		"constant": "import \"fmt\"\nconst fm = `x (k=%s, ` + `path=%s)`\n" + decl + "func (e ErrorX) Error() string { return fmt.Sprintf(fm, e.k, e.node.text) }",
		"local":    "import \"fmt\"\n" + decl + "func (e ErrorX) Error() string { path := e.node.text; return fmt.Sprintf(`x (k=%s, path=%s)`, e.k, path) }",
		"concat":   decl + "func (e ErrorX) Error() string { return `x (k=` + e.k + `, path=` + e.node.text + `)` }",
	} {
		got, err := run(body)
		if err != nil || !strings.Contains(got, want) {
			t.Errorf("%s: want %s, got %v\n%s", name, want, err, got)
		}
	}
	// evil twins: must be refused
	for name, body := range map[string]string{
		"format in a variable": "import \"fmt\"\nvar fm = `x (k=%s, path=%s)`\n" + decl + "func (e ErrorX) Error() string { return fmt.Sprintf(fm, e.k, e.node.text) }",
		"percent in a literal": decl + "func (e ErrorX) Error() string { return `x 100% (k=` + e.k + `)` }",
		"call operand":         decl + "func (e ErrorX) name() string { return e.k }\nfunc (e ErrorX) Error() string { return `x (k=` + e.name() + `)` }",
		"swapped operands":     "",
	} {
		if body == "" {
			// a different message must give different data
			got, err := run(decl + "func (e ErrorX) Error() string { return `x (k=` + e.node.text + `, path=` + e.k + `)` }")
			if err != nil || strings.Contains(got, want) {
				t.Errorf("%s: swapped operands gave the same data: %v\n%s", name, err, got)
			}
			continue
		}
		if got, err := run(body); err == nil {
			t.Errorf("%s: accepted:\n%s", name, got)
		}
	}
}

// ---- rules added for the third set of harmless refactorings (R33 … R48)

func TestNormalizeRules3(t *testing.T) {
	const mapT = `map[string]interface{}`
	cases := []normCase{
		// ---- guard merge
		{"guard merge", `var g int
func f(a, b bool) int { if a != b { return 0 }; if g > 0 { return 1 }; return 0 }`, `if a == b { if g > 0 { return 1 } } return 0`, `!=`},
		{"guard merge: negated condition", `var g int
func f(a bool) int { if !a { return 0 }; g++; if g > 0 { return 1 }; return 0 }`, `if a { g++ if g > 0 { return 1 } } return 0`, `!a`},
		{"guard merge: another value returned kept", `var g int
func f(a, b bool) int { if a != b { return 2 }; if g > 0 { return 1 }; return 0 }`, `if a != b { return 2 }`, ``},
		{"guard merge: returned name redeclared in between kept", `var e = 3
var g int
func f(a, b bool) int { if a != b { return e }; e := 5; g = e; return e }`, `if a != b { return e }`, `a == b`},
		{"guard merge: nil test kept", `var g int
func f(p *int) int { if p != nil { return 0 }; g++; return 0 }`, `if p != nil { return 0 }`, `==`},
		{"guard merge: positive guard kept", `var g int
func f(a, b bool) int { if a == b { return 0 }; g++; return 0 }`, `if a == b { return 0 } g++`, `!=`},
		{"guard merge: not in a nested block", `var g int
func f(a, b bool) int { for { if a != b { return 0 }; g++; return 0 } }`, `if a != b { return 0 }`, `a == b`},
		// ---- init sink
		{"init sink", `type T struct{ w bool }
var g int
func f(t *T, x interface{}) { if _, isList := x.([]interface{}); t.w && isList { g = 1 } }`, `if t.w { if _, isList := x.([]interface{}); isList { g = 1 } }`, `&&`},
		{"init sink: init with an effect kept", `type T struct{ w bool }
var g int
func h() (int, bool)
func f(t *T) { if _, ok := h(); t.w && ok { g = 1 } }`, `if _, ok := h(); t.w { if ok { g = 1 } }`, ``},
		{"init sink: assertion that may panic kept", `type T struct{ w bool }
var g int
func f(t *T, x interface{}) { if v := x.([]interface{}); t.w && len(v) > 0 { g = 1 } }`, `if v := x.([]interface{}); t.w {`, ``},
		{"init sink: outer condition uses the result kept", `type T struct{ w bool }
var g int
func f(t *T, x interface{}) { if _, ok := x.([]interface{}); ok && t.w { g = 1 } }`, `if _, ok := x.([]interface{}); ok { if t.w {`, ``},
		{"init sink: outer condition calls kept", `var g int
func w() bool
func f(x interface{}) { if _, ok := x.([]interface{}); w() && ok { g = 1 } }`, `if _, ok := x.([]interface{}); w() {`, ``},
		// ---- assertion into the init clause
		{"assert init (guard form)", `var g int
var errX error
func h(m ` + mapT + `) error
func f(x interface{}) error { m, ok := x.(` + mapT + `); if !ok { g = 1; return errX }; return h(m) }`,
			`if m, ok := x.(` + mapT + `); ok { return h(m) } g = 1 return errX`, `!ok`},
		{"assert init (positive form)", `var g int
var errX error
func h(m ` + mapT + `) error
func f(x interface{}) error { m, ok := x.(` + mapT + `); if ok { return h(m) }; g = 1; return errX }`,
			`if m, ok := x.(` + mapT + `); ok { return h(m) } g = 1 return errX`, ``},
		{"assert init: failure path uses the value kept", `var g int
var errX error
func h(m ` + mapT + `) error
func f(x interface{}) error { m, ok := x.(` + mapT + `); if !ok { g = len(m); return errX }; return h(m) }`, `m, ok := x.(` + mapT + `) if !ok`, ``},
		{"assert init: rest uses the value kept", `var g int
var errX error
func h(m ` + mapT + `) error
func f(x interface{}) error { m, ok := x.(` + mapT + `); if ok { return h(m) }; g = len(m); return errX }`, `m, ok := x.(` + mapT + `) if ok`, ``},
		{"assert init: guard that does not leave kept", `var g int
func h(m ` + mapT + `) error
func f(x interface{}) error { m, ok := x.(` + mapT + `); if !ok { g = 1 }; return h(m) }`, `m, ok := x.(` + mapT + `) if !ok { g = 1 }`, ``},
		{"assert init: long success path kept (the library's guard form)", `var g int
var errX error
func h(m ` + mapT + `) error
func f(x interface{}) error { m, ok := x.(` + mapT + `); if !ok { return errX }; g = len(m); return h(m) }`, `m, ok := x.(` + mapT + `) if !ok { return errX }`, ``},
		{"assert init: ok is an existing variable kept", `var g bool
func f(x interface{}) int { var ok bool; defer func() { g = ok }(); m, ok := x.(` + mapT + `); if ok { return len(m) }; return 0 }`, `m, ok := x.(` + mapT + `) if ok`, ``},
		{"assert init: failure path declares a name used elsewhere kept", `var g int
var errX error
func h(m ` + mapT + `) error
func f(x interface{}) error { { n := 2; g = n }; m, ok := x.(` + mapT + `); if !ok { n := 1; g = n; return errX }; return h(m) }`, `if !ok { n := 1`, ``},
		// ---- chain of assertions -> type switch
		{"assert chain", `var g int
func hm(m ` + mapT + `) int
func hl(l []interface{}) int
func f(x interface{}) int { if m, ok := x.(` + mapT + `); ok { return hm(m) }; if l, ok := x.([]interface{}); ok { return hl(l) }; g = 1; return 0 }`,
			`switch typedNodes := x.(type) { case ` + mapT + `: return hm(typedNodes) case []interface{}: return hl(typedNodes) default: g = 1 return 0 }`, `ok`},
		{"assert chain: no value used", `var g int
func f(x interface{}) int { if _, ok := x.(float64); ok { return 1 }; if _, ok := x.(string); ok { return 2 }; return 0 }`,
			`switch x.(type) { case float64: return 1 case string: return 2 default: return 0 }`, `ok`},
		{"assert chain: a single test stays an if", `func hm(m ` + mapT + `) int
func f(x interface{}) int { if m, ok := x.(` + mapT + `); ok { return hm(m) }; return 0 }`, `if m, ok := x.(` + mapT + `); ok { return hm(m) }`, `switch`},
		{"assert chain: two different variables kept", `func f(x, y interface{}) int { if _, ok := x.(string); ok { return 1 }; if _, ok := y.(bool); ok { return 2 }; return 0 }`, `if _, ok := y.(bool); ok`, `switch`},
		{"assert chain: a body that falls through kept", `var g int
func f(x interface{}) int { if _, ok := x.(string); ok { g = 1 }; if _, ok := x.(bool); ok { return 2 }; return g }`, `if _, ok := x.(bool); ok`, `switch`},
		{"assert chain: break in a body kept", `var g int
func f(xs []interface{}) int { for _, x := range xs { if s, ok := x.(string); ok { if len(s) == 0 { break }; return 1 }; if _, ok := x.(bool); ok { return 2 }; g++ }; return g }`, `if _, ok := x.(bool); ok`, `switch`},
		{"assert chain: break in the tail kept", `var g int
func f(xs []interface{}) int { for _, x := range xs { if _, ok := x.(string); ok { return 1 }; if _, ok := x.(bool); ok { return 2 }; if g > 3 { break }; g++ }; return g }`, `if _, ok := x.(bool); ok`, `switch`},
		{"assert chain: binding name taken kept", `func f(x interface{}) int { typedNodes := 1; if s, ok := x.(string); ok { return len(s) }; if _, ok := x.(bool); ok { return 2 }; return typedNodes }`, `if s, ok := x.(string); ok`, `switch`},
		{"assert chain: body uses ok kept", `var g bool
func f(x interface{}) int { if s, ok := x.(string); ok { g = ok; return len(s) }; if _, ok := x.(bool); ok { return 2 }; return 0 }`, `if s, ok := x.(string); ok`, `switch`},
		{"assert chain: operand is not a local kept", `var x interface{}
func f() int { if _, ok := x.(string); ok { return 1 }; if _, ok := x.(bool); ok { return 2 }; return 0 }`, `if _, ok := x.(bool); ok`, `switch`},
		{"assert chain: same type twice kept", `func f(x interface{}) int { if _, ok := x.(string); ok { return 1 }; if _, ok := x.(string); ok { return 2 }; return 0 }`, `if _, ok := x.(string); ok { return 2 }`, `switch`},
		// ---- arithmetic local
		{"arith local", `func f(st []int) int { s := 0; for len(st) > 0 { last := len(st) - 1; cur := st[last]; st = st[:last]; s += cur }; return s }`,
			`cur := st[len(st)-1] st = st[:len(st)-1]`, `last`},
		{"arith local: parenthesised inside an operator", `func f(a int) int { n := a - 1; return 2 * n }`, `return 2 * (a - 1)`, `n :=`},
		{"arith local: use after the operand changed kept", `func f(st []int) int { last := len(st) - 1; st = st[:last]; return last + len(st) }`, `last := len(st) - 1`, ``},
		{"arith local: operand addressed kept", `func h(p *[]int)
func f(st []int) int { last := len(st) - 1; h(&st); return st[last] }`, `last := len(st) - 1`, ``},
		{"arith local: operand captured kept", `func f(st []int) int { last := len(st) - 1; func() { st = nil }(); return last }`, `last := len(st) - 1`, ``},
		{"arith local: use and store in a loop kept", `func f(st []int) int { s := 0; last := len(st) - 1; for i := 0; i < 2; i++ { s += last; st = st[:0] }; return s }`, `last := len(st) - 1`, ``},
		{"arith local: use in a later statement of an if with a store kept", `func f(st []int, c bool) int { last := len(st) - 1; if c { st = nil; return last }; return 0 }`, `last := len(st) - 1`, ``},
		{"arith local: division kept", `func f(a, b int) int { n := a / b; return n }`, `n := a / b`, ``},
		{"arith local: len of a map kept", `func f(m map[int]int) int { n := len(m) - 1; m[1] = 1; return n }`, `n := len(m) - 1`, ``},
		{"arith local: local reassigned kept", `func f(st []int) int { last := len(st) - 1; last++; return st[last] }`, `last := len(st) - 1`, ``},
		{"arith local: constant kept", `func f(st []int) int { n := 2 - 1; return st[n] }`, `n := 2 - 1`, ``},
		{"arith local: operand redeclared in an inner scope kept", `func f(st []int) int { last := len(st) - 1; { st := []int{1, 2, 3}; return st[last] } }`, `last := len(st) - 1`, ``},
	}
	for _, tc := range cases {
		got := normTestRun(t, "x.go", "package p\n"+tc.src+"\n", normProfile{})
		if tc.want != "" && !strings.Contains(got, tc.want) {
			t.Errorf("%s: want %q in\n  %s", tc.name, tc.want, got)
		}
		if tc.not != "" && strings.Contains(got, tc.not) {
			t.Errorf("%s: do not want %q in\n  %s", tc.name, tc.not, got)
		}
	}
}

func TestNormalizeShortIntDecl(t *testing.T) {
	short := normProfile{keepIntShort: true, shortIntDecl: true}
	src := "package p\nfunc f(n int) []int { var index int; result := make([]int, n); for i := 0; i < n; i++ { result[index] = i; index++ }; return result }\n"
	if got := normTestRun(t, "x.go", src, short); !strings.Contains(got, "index := 0 result := make([]int, n)") || strings.Contains(got, "var index") {
		t.Errorf("shortIntDecl: %s", got)
	}
	if got := normTestRun(t, "x.go", src, normProfile{}); !strings.Contains(got, "var index int") {
		t.Errorf("shortIntDecl applied without the profile: %s", got)
	}
	// the short form itself is kept under the profile
	if got := normTestRun(t, "x.go", "package p\nfunc f() int { x := 0; x++; return x }\n", short); !strings.Contains(got, "x := 0") {
		t.Errorf("x := 0 not kept: %s", got)
	}
	// evil twins: another type, an initial value, two names, a shadowed `int`
	for name, tc := range map[string][2]string{
		"int64":        {"func f() int64 { var x int64; x++; return x }", "var x int64"},
		"with a value": {"func f() int { var x int = 1; x++; return x }", "var x int = 1"},
		"two names":    {"func f() int { var x, y int; x++; return x + y }", "var x, y int"},
		"shadowed int": {"type int string\nfunc f() int { var x int; return x }", "var x int"},
	} {
		if got := normTestRun(t, "x.go", "package p\n"+tc[0]+"\n", short); !strings.Contains(got, tc[1]) {
			t.Errorf("%s: the declaration must be kept: %s", name, got)
		}
	}
}

func TestNormalizeAggregateNames(t *testing.T) {
	head := `type buf struct{ result []interface{} }
type node interface{ retrieve(c *buf) error; vg() bool }
type syntaxAggregateFunction struct{ param node }
type otherFunction struct{ param node }
func getContainer() *buf
func putContainer(*buf)
var out []interface{}
`
	body := `{ paramValues := getContainer(); defer func() { putContainer(paramValues) }(); if err := f.param.retrieve(paramValues); err != nil { return err }; collected := paramValues.result; if !f.param.vg() { if a, ok := paramValues.result[0].([]interface{}); ok { collected = a } }; EXTRA; out = collected; return nil }`
	run := func(recv, extra string) string {
		return normTestRun(t, "x.go", "package p\n"+head+"func (f *"+recv+") retrieve() error "+strings.Replace(body, "EXTRA", extra, 1)+"\n", normProfile{})
	}
	got := run("syntaxAggregateFunction", "_ = 0")
	if !strings.Contains(got, "values := getContainer()") || !strings.Contains(got, "result := values.result") ||
		!strings.Contains(got, "values.result[0].([]interface{}); ok { result = a }") || !strings.Contains(got, "out = result") ||
		strings.Contains(got, "paramValues") || strings.Contains(got, "collected") {
		t.Errorf("locals not renamed: %s", got)
	}
	// another receiver type: untouched
	if got := run("otherFunction", "_ = 0"); !strings.Contains(got, "paramValues := getContainer()") || !strings.Contains(got, "collected := paramValues.result") {
		t.Errorf("locals of another method renamed: %s", got)
	}
	// evil twins: the canonical name already denotes something else in the function
	if got := run("syntaxAggregateFunction", "{ result := 1; _ = result }"); !strings.Contains(got, "collected := values.result") || !strings.Contains(got, "out = collected") {
		t.Errorf("renamed onto a name in use: %s", got)
	}
	if got := run("syntaxAggregateFunction", "{ values := 1; _ = values }"); !strings.Contains(got, "paramValues := getContainer()") || !strings.Contains(got, "putContainer(paramValues)") {
		t.Errorf("renamed onto a name in use: %s", got)
	}
}

// ---- rules added for the fourth set of harmless refactorings (R49 … R60): the runtime closures of
// jsonpath.peg.go, syntaxErr, getSortedKeys, Retrieve. Every positive case has "evil twins" that
// differ from it in exactly the point a side condition checks.
func TestNormalizeRules4(t *testing.T) {
	type pcase struct {
		normCase
		prof normProfile
	}
	def := normProfile{}
	join := normProfile{joinDefs: true, keepIntShort: true}
	cases := []pcase{
		// ruleReturnFlip: a variable of type error is tested `!= nil` first
		{normCase{"error nil flip", `func h() (int, error)
func f() (int, error) { v, err := h(); if err == nil { return v + 1, nil }; return 0, err }`, `if err != nil { return 0, err } return v + 1, nil`, `== nil`}, def},
		{normCase{"error nil flip, nil on the left", `func f(err error) int { if nil == err { return 1 }; return 2 }`, `if nil != err { return 2 } return 1`, ``}, def},
		{normCase{"error != nil kept", `func f(err error) int { if err != nil { return 1 }; return 2 }`, `if err != nil { return 1 } return 2`, ``}, def},
		{normCase{"pointer nil test kept", `func f(p *int) int { if p == nil { return 1 }; return 2 }`, `if p == nil { return 1 } return 2`, ``}, def},
		{normCase{"named error type kept", `type E struct{}
func (*E) Error() string { return "" }
func f(e *E) int { if e == nil { return 1 }; return 2 }`, `if e == nil { return 1 }`, ``}, def},
		{normCase{"error nil test with statements in between kept", `var g int
func f(err error) int { if err == nil { return 1 }; g++; return 2 }`, `if err == nil { return 1 } g++`, ``}, def},
		// ruleLoopBreakFlip
		{normCase{"loop break flip", `func f(s string, pos int) int { off, n := len(s), 0; for i := range s { if n != pos { n++; continue }; off = i; break }; return off }`,
			`if n == pos { off = i break } n++ }`, `continue`}, def},
		{normCase{"loop break flip with return", `var g int
func f(xs []int) int { for i := range xs { if xs[i] > 0 { g++; continue }; return i }; return -1 }`, `if xs[i] <= 0 { return i } g++ }`, `continue`}, def},
		{normCase{"loop break flip: rest may fall through kept", `var g int
func f(xs []int) { for i := range xs { if xs[i] > 0 { g++; continue }; g-- } }`, `if xs[i] > 0 { g++ continue } g--`, ``}, def},
		{normCase{"loop break flip: rest ends in continue kept", `var g int
func f(xs []int) { for i := range xs { if xs[i] > 0 { g++; continue }; g--; continue } }`, `if xs[i] > 0 { g++ continue }`, ``}, def},
		{normCase{"loop break flip: labeled break kept", `var g int
func f(xs []int) { out: for { for i := range xs { if xs[i] > 0 { g++; continue }; g--; break out } } }`, `if xs[i] > 0 { g++ continue }`, ``}, def},
		{normCase{"loop break flip: not the end of a loop body kept", `var g int
func f(xs []int) int { for i := range xs { { if xs[i] > 0 { g++; continue }; g--; break }; g = 7 }; return g }`, `if xs[i] > 0 { g++ continue }`, ``}, def},
		{normCase{"loop break flip: a declaration that would clash kept", `var g int
func f(xs []int) { for i := range xs { x := 1; g = x; if xs[i] > 0 { x := 2; g = x; continue }; break } }`, `if xs[i] > 0 { x := 2`, ``}, def},
		{normCase{"loop break flip: init statement kept", `var g int
func h() bool
func f() { for { if c := h(); c { g++; continue }; break } }`, `if c := h(); c { g++ continue }`, ``}, def},
		// ruleHeaderRead
		{normCase{"header read", `func f(p *[]string, m map[string]int, n int) { *p = (*p)[:n]; keys := *p; i := 0; for k := range m { keys[i] = k; i++ } }`,
			`*p = (*p)[:n] var i int for k := range m { (*p)[i] = k`, `keys`}, def},
		{normCase{"header read: use after a call kept", `func h()
func f(p *[]string, n int) { *p = (*p)[:n]; keys := *p; h(); keys[0] = "x" }`, `keys := *p`, ``}, def},
		{normCase{"header read: header stored in the loop kept", `func f(p *[]string, m map[string]int, n int) { *p = (*p)[:n]; keys := *p; i := 0; for k := range m { keys[i] = k; i++; *p = nil } }`, `keys := *p`, ``}, def},
		{normCase{"header read: no store before the read kept (p may be nil)", `var g int
func f(p *[]string, m map[string]int) { g++; keys := *p; for k := range m { keys[0] = k } }`, `keys := *p`, ``}, def},
		{normCase{"header read: store through another pointer kept", `func f(p, q *[]string, n int) { *q = (*p)[:n]; keys := *p; *q = nil; keys[0] = "x" }`, `keys := *p`, ``}, def},
		{normCase{"header read: local reassigned kept", `func f(p *[]string, n int) { *p = (*p)[:n]; keys := *p; keys = keys[1:]; keys[0] = "x" }`, `keys := *p`, ``}, def},
		{normCase{"header read: pointer reassigned kept", `func f(p, q *[]string, n int) { *p = (*p)[:n]; keys := *p; p = q; keys[0] = "x"; _ = p }`, `keys := *p`, ``}, def},
		{normCase{"header read: struct behind the pointer kept", `type T struct{ a int }
var g int
func f(p *T) { *p = T{}; v := *p; p.a = 1; g = v.a }`, `v := *p`, ``}, def},
		{normCase{"header read: captured by a closure kept", `var g func()
func f(p *[]string, n int) { *p = (*p)[:n]; keys := *p; g = func() { keys[0] = "x" } }`, `keys := *p`, ``}, def},
		// ruleJoinDefs (profile)
		{normCase{"join defs", `func f(s string) int { a := len(s); b := 0; return a + b }`, `a, b := len(s), 0`, ``}, join},
		{normCase{"join defs: off by default", `func f(s string) int { a := len(s); b := 1; return a + b }`, `b := 1`, `a, b :=`}, def},
		{normCase{"join defs: second mentions first kept", `func f(s string) int { a := len(s); b := a; return a + b }`, ``, `a, b :=`}, join},
		{normCase{"join defs: a call kept", `func h() int
func f(s string) int { a := h(); b := 0; return a + b }`, `a := h() b := 0`, ``}, join},
		{normCase{"join defs: both may panic kept", `func f(xs []int, p *int) int { a := xs[3]; b := *p; return a + b }`, `a := xs[3] b := *p`, ``}, join},
		{normCase{"join defs: one may panic", `func f(xs []int) int { a := xs[3]; b := 0; return a + b }`, `a, b := xs[3], 0`, ``}, join},
		// ruleIfNegation, profile notFirstBool
		{normCase{"not-first", `var g int
func f(matched bool) { if matched { g = 1 } else { g = 2 } }`, `if !matched { g = 2 } else { g = 1 }`, ``}, normProfilePegRuntime},
		{normCase{"not-first keeps !c", `var g int
func f(matched bool) { if !matched { g = 2 } else { g = 1 } }`, `if !matched { g = 2 } else { g = 1 }`, ``}, normProfilePegRuntime},
		{normCase{"not-first: a call is not a variable", `var g int
func h() bool
func f() { if h() { g = 1 } else { g = 2 } }`, `if h() { g = 1 } else { g = 2 }`, ``}, normProfilePegRuntime},
		{normCase{"peg runtime profile keeps && and the early return", `var g int
func f(a, b bool) { if a { return }; if a && b { g = 1 } }`, `if a { return } if a && b { g = 1 }`, ``}, normProfilePegRuntime},
		{normCase{"len < 1 under the peg runtime profile", `var g int
func f(b []rune) { if len(b) < 1 || b[len(b)-1] != 0 { g = 1 } }`, `len(b) == 0 || b[len(b)-1] != 0`, `< 1`}, normProfilePegRuntime},
		{normCase{"1 > len, len <= 0", `func f(b []rune) bool { return 1 > len(b) || len(b) <= 0 }`, `len(b) == 0 || len(b) == 0`, ``}, def},
	}
	for _, tc := range cases {
		got := normTestRun(t, "x.go", "package p\n"+tc.src+"\n", tc.prof)
		if tc.want != "" && !strings.Contains(got, tc.want) {
			t.Errorf("%s: want %q in\n  %s", tc.name, tc.want, got)
		}
		if tc.not != "" && strings.Contains(got, tc.not) {
			t.Errorf("%s: do not want %q in\n  %s", tc.name, tc.not, got)
		}
	}
}

func TestNormalizeSyntaxErrNames(t *testing.T) {
	src := `package p
type P struct{}
type E struct { position int; near string }
func (p *P) syntaxErr(pos int, buffer string) E {
	offset := len(buffer)
	count := 0
	for i := range buffer {
		if count != pos { count++; continue }
		offset = i
		break
	}
	return E{position: pos, near: buffer[offset:]}
}
`
	got := normTestRun(t, "x.go", src, normProfile{joinDefs: true, keepIntShort: true, keepLenLocals: true})
	for _, want := range []string{`byteOffset, runeCount := len(buffer), 0`, `for index := range buffer { if runeCount == pos { byteOffset = index break } runeCount++ }`, `near: buffer[byteOffset:]`} {
		if !strings.Contains(got, want) {
			t.Errorf("want %q in\n  %s", want, got)
		}
	}
	// a name that is already taken is not stolen: the function keeps its own names
	clash := strings.Replace(src, "pos int, buffer string", "pos int, buffer string, index int", 1)
	got = normTestRun(t, "x.go", clash, normProfile{joinDefs: true, keepIntShort: true, keepLenLocals: true})
	if !strings.Contains(got, "for i := range buffer") {
		t.Errorf("clashing name: %s", got)
	}
}
