package main

import (
	"go/parser"
	"go/token"
	"os"
	"path/filepath"
	"strings"
	"testing"
)

// normTestRun normalises `src` (a complete file of a one-file package, stored under the given
// file name) and returns the printed result, white space collapsed.
func normTestRun(t *testing.T, fileName, src string, prof normProfile) string {
	t.Helper()
	dir := t.TempDir()
	path := filepath.Join(dir, fileName)
	if err := os.WriteFile(path, []byte(src), 0o644); err != nil {
		t.Fatal(err)
	}
	fset := token.NewFileSet()
	f, err := parser.ParseFile(fset, path, nil, parser.SkipObjectResolution)
	if err != nil {
		t.Fatal(err)
	}
	if p := normLoad(dir); !p.ok {
		t.Fatalf("test source does not type-check:\n%s", src)
	}
	normalizeFileWith(fset, f, prof)
	setPos(f, token.Pos(1))
	c := &normCtx{}
	return c.str(f)
}

type normCase struct {
	name string
	src  string // body of the file after `package p`
	want string // substring expected in the result ("" = none)
	not  string // substring that must NOT occur ("" = none)
}

func TestNormalizeRules(t *testing.T) {
	cases := []normCase{
		// ---- expressions
		{"not-eq", `func f(a, b int) bool { return !(a == b) }`, `return a != b`, ``},
		{"not-less kept (NaN)", `func f(a, b float64) bool { return !(a < b) }`, `!(a < b)`, `>=`},
		{"len != 0", `func f(xs []int) bool { return len(xs) != 0 }`, `len(xs) > 0`, ``},
		{"0 < len", `func f(xs []int) bool { return 0 < len(xs) }`, `len(xs) > 0`, ``},
		{"len < 1", `func f(xs []int) bool { return len(xs) < 1 }`, `len(xs) == 0`, ``},
		{"shadowed len kept", `func len(x []int) int { return -1 }
func f(xs []int) bool { return len(xs) != 0 }`, `len(xs) != 0`, ``},
		// ---- zero declarations
		{"x := false", `func f() bool { x := false; return x }`, `var x bool`, `:=`},
		{"x := true kept", `func f() bool { x := true; return x }`, `x := true`, `var x`},
		// ---- if / return shapes
		{"if-negation", `func f(c bool) int { x := 1; if !c { x = 2 } else { x = 3 }; return x }`, `if c { x = 3 } else { x = 2 }`, ``},
		{"return flip", `func f(c bool) int { if !c { return 1 }; return 2 }`, `if c { return 2 } return 1`, ``},
		{"return flip keeps nil tests", `func f(e error) int { if e != nil { return 1 }; return 2 }`, `if e != nil { return 1 }`, ``},
		{"else-if", `func f(a, b bool) int { x := 0; if a { x = 1 } else if b { x = 2 } else { x = 3 }; return x }`, `else { if b {`, `else if`},
		{"split &&", `func g()
func f(a, b bool) { if a && b { g() }; g() }`, `if a { if b { g() } }`, `&&`},
		{"split && not with else", `func g()
func f(a, b bool) { if a && b { g() } else { g(); g() }; g() }`, `a && b`, ``},
		{"loop continue", `func f(xs []int) int { n := 0; for i := range xs { if xs[i] == 0 { n++ } else if xs[i] == 1 { n-- } }; return n }`,
			`if xs[i] == 0 { n++ continue } if xs[i] == 1 { n-- }`, `else`},
		{"loop if/else kept", `func f(xs []int) int { n := 0; for i := range xs { if xs[i] == 0 { n++ } else { n-- } }; return n }`, `} else { n-- }`, `continue`},
		{"void early return", `var g int
func f(c bool) { if c { g = 1; return }; g = 2 }`, `if c { g = 1 } else { g = 2 }`, `return`},
		{"void early return, empty A", `var g int
func f(c *int) { if c == nil { return }; g = 2 }`, `if c != nil { g = 2 }`, `return`},
		{"void early return with init kept", `var g int
func h() bool
func f() { if c := h(); c { g = 1; return }; g = 2 }`, `return`, `else`},
		{"tail merge", `var g int
func f(c bool) error { if c { g = 1; return nil }; g = 2; return nil }`, `if c { g = 1 } else { g = 2 } return nil`, ``},
		{"tail merge not when a side leaves", `var g int
func f(c, d bool) int { if c { if d { return 7 }; return 0 }; g = 2; return 0 }`, `if c { if d { return 7 } return 0 }`, `else`},
		{"tail split", `var g int
func f(c, d bool) int { if c { if d { return 7 } } else { g = 2 }; return 0 }`, `if c { if d { return 7 } return 0 } g = 2 return 0`, `else`},
		// ---- switch
		{"switch to if", `var g int
func f(a, b bool) { for { switch { case a: g = 1; case b: g = 2; default: g = 3 } } }`, `if a { g = 1 continue } if b { g = 2 } else { g = 3 }`, `switch`},
		{"switch with break kept", `var g int
func f(a, b bool) { for { switch { case a: if b { break }; g = 1; default: g = 3 } } }`, `switch {`, ``},
		{"switch with fallthrough kept", `var g int
func f(a, b bool) { switch { case a: g = 1; fallthrough; case b: g = 2 } }`, `switch {`, ``},
		{"type switch order", `var g int
func f(x interface{}) { switch x.(type) { case string: ; case float64: g = 1; case map[string]interface{}: g = 2; default: g = 3 } }`,
			`case map[string]interface{}: g = 2 case float64: g = 1 case string: default:`, ``},
		{"type switch with interface case kept", `type I interface{ M() }
var g int
func f(x interface{}) { switch x.(type) { case string: ; case I: g = 1; case float64: g = 2 } }`, `case string: case I: g = 1 case float64:`, ``},
		{"complement", `var g int
func f(a, b bool) { if a && b { g = 1 } else { if !a && !b { g = 2 } else { g = 3 } } }`, `if a == b {`, `!a`},
		{"complement needs locals", `type T struct{ a, b bool }
var g int
func f(t *T) { if t.a && t.b { g = 1 } else { if !t.a && !t.b { g = 2 } else { g = 3 } } }`, `!t.a && !t.b`, `==`},
		// ---- defer
		{"defer closure", `func put(x *int) { *x = 0 }
func f() { x := new(int); defer put(x); *x = 1 }`, `defer func() { put(x) }()`, ``},
		{"defer: argument reassigned kept", `func put(x *int)
func f() { x := new(int); defer put(x); x = new(int) }`, `defer put(x)`, `func()`},
		{"defer: function variable kept", `var put = func(x *int) {}
func f() { x := new(int); defer put(x) }`, `defer put(x)`, `defer func()`},
		{"defer: callee recovers kept", `func put(x *int) { recover() }
func f() { x := new(int); defer put(x) }`, `defer put(x)`, `defer func()`},
		{"defer: address of argument taken kept", `func put(x *int)
func f() { x := new(int); y := &x; defer put(x); *y = nil }`, `defer put(x)`, `defer func()`},
		// ---- range value
		{"range value", `var g interface{}
func f(xs []interface{}) { for i, x := range xs { if x != nil { g = x; xs[i] = nil } } }`, `for i := range xs { if xs[i] != nil { g = xs[i]`, `, x :=`},
		{"range over string kept", `var g rune
func f(s string) { for i, r := range s { _ = i; g = r } }`, `for i, r := range s`, ``},
		{"range over array kept", `var g int
func f() { var a [3]int; for i, x := range a { a[2] = i; g = x } }`, `for i, x := range a`, ``},
		{"range over map kept", `var g int
func f(m map[int]int) { for k, v := range m { _ = k; g = v } }`, `for k, v := range m`, ``},
		{"range: store before use kept", `var g int
func f(xs, ys []int) { for i, x := range xs { ys[i] = 0; g = x } }`, `for i, x := range xs`, ``},
		{"range: call before use kept", `var g int
func h()
func f(xs []int) { for i, x := range xs { _ = i; h(); g = x } }`, `for i, x := range xs`, ``},
		{"range: captured kept", `var g func() int
func f(xs []int) { for i, x := range xs { _ = i; g = func() int { return x } } }`, `for i, x := range xs`, ``},
		{"range: slice reassigned kept", `var g int
func f(xs []int) { for i, x := range xs { g = x; _ = i; xs = nil } }`, `for i, x := range xs`, ``},
		{"range: use in nested loop after store kept", `var g int
func f(xs []int) { for i, x := range xs { for j := 0; j < 2; j++ { g = x; xs[i] = 0 } } }`, `for i, x := range xs`, ``},
		{"range through pointer", `var g string
func f(p *[]string, out []interface{}) { for i, k := range *p { out[i] = k } }`, `for i := range *p { out[i] = (*p)[i] }`, ``},
		{"range through pointer: store of the same type kept", `func f(p *[]string, q [][]string) { for i, k := range *p { _ = k; q[i] = nil } }`, `for i, k := range *p`, ``},
		// ---- len locals
		{"len local", `func f(xs []int) int { n := len(xs); s := 0; for i := 0; i < n; i++ { s += xs[i] }; return s + n }`, `i < len(xs)`, `n :=`},
		{"len of map kept", `func f(m map[int]int) int { n := len(m); m[1] = 1; return n }`, `n := len(m)`, ``},
		{"len: slice reassigned kept", `func f(xs []int) int { n := len(xs); xs = xs[:0]; return n + len(xs) }`, `n := len(xs)`, ``},
		{"len: append through pointer-receiver method kept", `type S []int
func (s *S) add() { *s = append(*s, 1) }
func f() int { var xs S; n := len(xs); xs.add(); return n }`, `n := len(xs)`, ``},
		// ---- pointer local
		{"ptr local", `type C struct{ a, b int }
var g int
func f(cs []C) { if len(cs) != 0 { p := &cs[0]; g = p.a + p.b } }`, `g = cs[0].a + cs[0].b`, `p :=`},
		{"ptr local: unguarded kept", `type C struct{ a, b int }
var g int
func f(cs []C) { p := &cs[0]; g = p.a }`, `p := &cs[0]`, ``},
		{"ptr local: escapes kept", `type C struct{ a, b int }
var g *C
func f(cs []C) { if len(cs) > 0 { p := &cs[0]; g = p } }`, `p := &cs[0]`, ``},
		// ---- helpers
		{"inline return helper", `type T struct{ n int }
func (t *T) fin(k int, e error) error { if k != 0 { return nil }; return e }
func (t *T) run(k int) error { var e error; k++; return t.fin(k, e) }`, `k++ if k == 0 { return e } return nil }`, `fin`},
		{"double negation", `func f(a bool) bool { return !!a }`, `return a`, `!`},
		{"not-neq", `func f(a, b int) bool { return !(a != b) }`, `return a == b`, `!`},
		{"inline: converting argument kept", `type E struct{}
func (*E) Error() string { return "" }
func fin(e error) error { if e == nil { return nil }; return e }
func run() error { var e *E; return fin(e) }`, `return fin(e)`, ``},
		{"inline: second use elsewhere kept", `func fin(k int) int { return k + 1 }
var g = fin(3)
func run(k int) int { return fin(k) }`, `return fin(k)`, ``},
		{"inline: helper assigns its parameter kept", `func fin(k int) int { k++; return k }
func run(k int) int { return fin(k) }`, `return fin(k)`, ``},
		{"inline: helper local clashes kept", `func fin(k int) int { t := k * 2; return t }
func run(k int) int { t := 1; k += t; return fin(k) }`, `return fin(k)`, ``},
		{"inline: different result type kept", `type E struct{}
func (*E) Error() string { return "" }
func fin(k int) *E { return nil }
func run(k int) error { return fin(k) }`, `return fin(k)`, ``},
		{"inline predicate", `var g int
func isC(v interface{}) bool { switch v.(type) { case map[string]interface{}, []interface{}: return true }; return false }
func run(x interface{}) { if !isC(x) { g = 1 }; if isC(x) { g = 2 } }`,
			`switch x.(type) { case map[string]interface{}, []interface{}: default: g = 1 } switch x.(type) { case map[string]interface{}, []interface{}: g = 2 }`, `isC`},
		{"inline predicate: break in body kept", `var g int
func isC(v interface{}) bool { switch v.(type) { case string: return true }; return false }
func run(xs []interface{}) { for _, x := range xs { if isC(x) { break } } }`, `if isC(x)`, ``},
	}
	for _, tc := range cases {
		got := normTestRun(t, "x.go", "package p\n"+tc.src+"\n", normProfile{})
		if tc.want != "" && !strings.Contains(got, tc.want) {
			t.Errorf("%s: want %q in\n  %s", tc.name, tc.want, got)
		}
		if tc.not != "" && strings.Contains(got, tc.not) {
			t.Errorf("%s: do not want %q in\n  %s", tc.name, tc.not, got)
		}
	}
}

func TestNormalizeCopyLoopOnlyInItsFile(t *testing.T) {
	src := "package p\nfunc f(src []int) []int { dst := make([]int, len(src)); copy(dst, src); return dst }\n"
	if got := normTestRun(t, normCopyLoopFile, src, normProfile{}); !strings.Contains(got, "for index := range dst { dst[index] = src[index] }") {
		t.Errorf("copy not rewritten in %s: %s", normCopyLoopFile, got)
	}
	if got := normTestRun(t, "other.go", src, normProfile{}); !strings.Contains(got, "copy(dst, src)") {
		t.Errorf("copy rewritten outside %s: %s", normCopyLoopFile, got)
	}
	short := "package p\nfunc f(src []int) []int { dst := make([]int, 1); copy(dst, src); return dst }\n"
	if got := normTestRun(t, normCopyLoopFile, short, normProfile{}); !strings.Contains(got, "copy(dst, src)") {
		t.Errorf("copy into a slice of another length rewritten: %s", got)
	}
}

func TestNormalizeProfiles(t *testing.T) {
	src := "package p\nfunc g()\nfunc f(a, b bool) int { if a && b { g() }; x := 0; return x }\n"
	got := normTestRun(t, "x.go", src, normProfile{keepAndCond: true, keepIntShort: true})
	if !strings.Contains(got, "a && b") || !strings.Contains(got, "x := 0") {
		t.Errorf("profile ignored: %s", got)
	}
	got = normTestRun(t, "x.go", src, normProfile{})
	if strings.Contains(got, "a && b") || !strings.Contains(got, "var x int") {
		t.Errorf("default profile: %s", got)
	}
}

func TestNormalizeIdentityWithoutTypes(t *testing.T) {
	dir := t.TempDir()
	path := filepath.Join(dir, "x.go")
	src := "package p\nfunc f(c bool) int { if !c { return 1 }; return undefinedName }\n"
	os.WriteFile(path, []byte(src), 0o644)
	fset := token.NewFileSet()
	f, err := parser.ParseFile(fset, path, nil, parser.SkipObjectResolution)
	if err != nil {
		t.Fatal(err)
	}
	normalizeFile(fset, f)
	if got := (&normCtx{}).str(f); !strings.Contains(got, "if !c { return 1 }") {
		t.Errorf("a package that does not type-check must be left alone: %s", got)
	}
}
