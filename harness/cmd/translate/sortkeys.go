// sortkeys.go — generator "sortkeys": cache.go `getSortedKeys` as a Lean function
// (lean/JPV/Gen/SortKeys.lean, tie T1; consumed by Lemmas/SortKeysGo.lean, Props/C07Gen.lean).
//
// The function is translated statement by statement into a `do` block in `Option` (`none` = a Go
// panic) over the primitives of lean/JPV/Lemmas/SortRt.lean. The map parameter becomes the list
// of its keys in the order `range` yields them (the theorems quantify over every such order), the
// slice taken from the pool becomes an arbitrary list (its elements up to capacity).
//
// Accepted shapes, exactly (M the map parameter, S the slice variable, N/I int variables,
// K the range variable, ATOM ::= N | non-negative int literal | cap(*S)):
//
//	func getSortedKeys(M map[string]interface{}) *sort.StringSlice { STMT* ; return S }
//	STMT  N := len(M)                                   let N := M.length
//	      N := <int literal>                            let N := <literal>
//	      S := sortSliceSyncPool.Get().(*sort.StringSlice)   let S := pool           (at most once)
//	      *S = make(sort.StringSlice, N)                let S := makeSlice N
//	      *S = (*S)[:N]                                 let S ← resliceTo S N
//	      S.Sort()                                      let S := goSort S
//	      N++                                           let N := N + 1
//	      if ATOM (<|<=|>|>=|==|!=) ATOM { PURE }       let V := if … then … else V
//	            PURE ::= *S = make(sort.StringSlice, N) | S.Sort() | N++
//	      for K := range M { BODY* }                    let (…) ← M.foldlM (fun st K => do …) (…)
//	            BODY ::= (*S)[I] = K  (let S ← setAt S I K) | N++ | *S = make(…) | S.Sort()
//
// The model of a slice is the list of the elements it can address, so `cap(*S)` is only accepted
// before the first reslice, and `(*S)[I] = K` / `S.Sort()` (which go by `len`) only after a
// reslice or an unconditional `make` has made length and list coincide.
// Anything else stops with `untranslatable: cache.go:line: why`.
package main

import (
	"fmt"
	"go/ast"
	"go/token"
	"strconv"
	"strings"
)

func init() { register("sortkeys", genSortKeys) }

type skEnv struct {
	s      *tiSrc
	mapVar string
	slice  string
	ints   map[string]bool
	keyVar string // range variable, "" outside the loop
	// resliced: `(*S)[:N]` has happened (the capacity is no longer the list length);
	// exact: len(*S) is the list length
	resliced, exact bool
}

var skReserved = map[string]bool{
	"pool": true, "st": true, "makeSlice": true, "resliceTo": true, "setAt": true, "goSort": true,
	"at": true, "by": true, "do": true, "else": true, "end": true, "from": true, "fun": true, "have": true,
	"if": true, "in": true, "let": true, "match": true, "then": true, "with": true, "show": true,
	"def": true, "theorem": true, "where": true, "open": true, "namespace": true, "section": true,
	"pure": true, "some": true, "none": true, "return": true, "mut": true, "for": true, "List": true,
	"Nat": true, "String": true, "Option": true, "Type": true, "Prop": true, "Sort": true,
}

func (e *skEnv) name(id *ast.Ident) (string, error) {
	if skReserved[id.Name] || id.Name == "_" || strings.ContainsAny(id.Name, "'.") {
		return "", e.s.bad(id, "identifier %q cannot be used as a Lean variable here", id.Name)
	}
	for _, r := range id.Name {
		if r > 0x7f {
			return "", e.s.bad(id, "non-ASCII identifier %q", id.Name)
		}
	}
	return id.Name, nil
}

func skIsStringSlice(t ast.Expr) bool { return tiIsSel(t, "sort", "StringSlice") }

// starOfSlice: `*S`
func (e *skEnv) starOfSlice(x ast.Expr) bool {
	st, ok := x.(*ast.StarExpr)
	return ok && e.slice != "" && tiIsIdent(st.X, e.slice)
}

// parenStarOfSlice: `(*S)`
func (e *skEnv) parenStarOfSlice(x ast.Expr) bool {
	p, ok := x.(*ast.ParenExpr)
	return ok && e.starOfSlice(p.X)
}

func (e *skEnv) intVar(x ast.Expr) (string, bool) {
	id, ok := x.(*ast.Ident)
	if ok && e.ints[id.Name] {
		return id.Name, true
	}
	return "", false
}

func (e *skEnv) atom(x ast.Expr) (string, error) {
	if v, ok := e.intVar(x); ok {
		return v, nil
	}
	if bl, ok := x.(*ast.BasicLit); ok && bl.Kind == token.INT {
		n, err := strconv.ParseUint(bl.Value, 0, 62)
		if err != nil {
			return "", e.s.bad(x, "integer literal %s outside the subset", bl.Value)
		}
		return strconv.FormatUint(n, 10), nil
	}
	if c, ok := x.(*ast.CallExpr); ok && len(c.Args) == 1 && e.starOfSlice(c.Args[0]) && c.Ellipsis == token.NoPos {
		if tiIsIdent(c.Fun, "cap") {
			if e.resliced {
				return "", e.s.bad(x, "cap(*%s) after a reslice is not tracked by the model", e.slice)
			}
			return e.slice + ".length", nil
		}
	}
	return "", e.s.bad(x, "integer expression %s outside the subset", e.s.str(x))
}

func (e *skEnv) cond(x ast.Expr) (string, error) {
	b, ok := x.(*ast.BinaryExpr)
	if !ok {
		return "", e.s.bad(x, "condition %s outside the subset", e.s.str(x))
	}
	var op string
	switch b.Op {
	case token.LSS:
		op = "<"
	case token.LEQ:
		op = "≤"
	case token.GTR:
		op = ">"
	case token.GEQ:
		op = "≥"
	case token.EQL:
		op = "="
	case token.NEQ:
		op = "≠"
	default:
		return "", e.s.bad(x, "operator %s outside the subset", b.Op)
	}
	l, err := e.atom(b.X)
	if err != nil {
		return "", err
	}
	r, err := e.atom(b.Y)
	if err != nil {
		return "", err
	}
	return fmt.Sprintf("%s %s %s", l, op, r), nil
}

// isMake: `make(sort.StringSlice, N)`
func (e *skEnv) isMake(x ast.Expr) (string, bool) {
	c, ok := x.(*ast.CallExpr)
	if !ok || !tiIsIdent(c.Fun, "make") || len(c.Args) != 2 || !skIsStringSlice(c.Args[0]) {
		return "", false
	}
	n, ok := e.intVar(c.Args[1])
	return n, ok
}

// pure: a statement that updates one variable without being able to panic; returns the variable
// and its new value.
func (e *skEnv) pure(st ast.Stmt) (v, val string, ok bool) {
	switch t := st.(type) {
	case *ast.AssignStmt:
		if t.Tok == token.ASSIGN && len(t.Lhs) == 1 && len(t.Rhs) == 1 && e.starOfSlice(t.Lhs[0]) {
			if n, ok := e.isMake(t.Rhs[0]); ok {
				return e.slice, "makeSlice " + n, true
			}
		}
	case *ast.ExprStmt:
		if c, ok := t.X.(*ast.CallExpr); ok && len(c.Args) == 0 && e.slice != "" && tiIsSel(c.Fun, e.slice, "Sort") && e.exact {
			return e.slice, "goSort " + e.slice, true
		}
	case *ast.IncDecStmt:
		if n, ok := e.intVar(t.X); ok && t.Tok == token.INC {
			return n, n + " + 1", true
		}
	}
	return "", "", false
}

// stmt translates one statement to `do`-block lines; assigned collects the variables it updates.
func (e *skEnv) stmt(st ast.Stmt, inLoop bool, assigned *[]string) ([]string, error) {
	note := func(v string) {
		for _, a := range *assigned {
			if a == v {
				return
			}
		}
		*assigned = append(*assigned, v)
	}
	if v, val, ok := e.pure(st); ok {
		note(v)
		if _, isAssign := st.(*ast.AssignStmt); isAssign && !inLoop { // unconditional make: len = cap = N
			e.exact, e.resliced = true, false
		}
		return []string{fmt.Sprintf("let %s := %s", v, val)}, nil
	}
	switch t := st.(type) {
	case *ast.AssignStmt:
		if len(t.Lhs) != 1 || len(t.Rhs) != 1 {
			return nil, e.s.bad(st, "multiple assignment")
		}
		if t.Tok == token.DEFINE {
			if inLoop {
				return nil, e.s.bad(st, "declaration inside the loop")
			}
			id, ok := t.Lhs[0].(*ast.Ident)
			if !ok {
				return nil, e.s.bad(st, "left side %s", e.s.str(t.Lhs[0]))
			}
			x, err := e.name(id)
			if err != nil {
				return nil, err
			}
			if x == e.mapVar || x == e.slice || e.ints[x] {
				return nil, e.s.bad(st, "%s declared twice", x)
			}
			rhs := t.Rhs[0]
			if c, ok := rhs.(*ast.CallExpr); ok && tiIsIdent(c.Fun, "len") && len(c.Args) == 1 && tiIsIdent(c.Args[0], e.mapVar) {
				e.ints[x] = true
				return []string{fmt.Sprintf("let %s := %s.length", x, e.mapVar)}, nil
			}
			if bl, ok := rhs.(*ast.BasicLit); ok && bl.Kind == token.INT {
				a, err := e.atom(rhs)
				if err != nil {
					return nil, err
				}
				e.ints[x] = true
				return []string{fmt.Sprintf("let %s := %s", x, a)}, nil
			}
			if ta, ok := rhs.(*ast.TypeAssertExpr); ok {
				st2, isStar := ta.Type.(*ast.StarExpr)
				c, isCall := ta.X.(*ast.CallExpr)
				if isStar && skIsStringSlice(st2.X) && isCall && len(c.Args) == 0 && tiIsSel(c.Fun, "sortSliceSyncPool", "Get") {
					if e.slice != "" {
						return nil, e.s.bad(st, "a second slice variable")
					}
					e.slice = x
					return []string{fmt.Sprintf("let %s := pool", x)}, nil
				}
			}
			return nil, e.s.bad(st, "declaration %s outside the subset", e.s.str(st))
		}
		if t.Tok != token.ASSIGN {
			return nil, e.s.bad(st, "assignment operator %s", t.Tok)
		}
		// *S = (*S)[:N]
		if e.starOfSlice(t.Lhs[0]) {
			if se, ok := t.Rhs[0].(*ast.SliceExpr); ok && e.parenStarOfSlice(se.X) && se.Low == nil && se.Max == nil && !se.Slice3 && se.High != nil {
				if n, ok := e.intVar(se.High); ok {
					if inLoop {
						return nil, e.s.bad(st, "reslicing inside the loop")
					}
					note(e.slice)
					e.exact, e.resliced = true, true
					return []string{fmt.Sprintf("let %s ← resliceTo %s %s", e.slice, e.slice, n)}, nil
				}
			}
			return nil, e.s.bad(st, "assignment %s outside the subset", e.s.str(st))
		}
		// (*S)[I] = K
		if ix, ok := t.Lhs[0].(*ast.IndexExpr); ok && e.parenStarOfSlice(ix.X) {
			i, okI := e.intVar(ix.Index)
			if okI && inLoop && e.exact && e.keyVar != "" && tiIsIdent(t.Rhs[0], e.keyVar) {
				note(e.slice)
				return []string{fmt.Sprintf("let %s ← setAt %s %s %s", e.slice, e.slice, i, e.keyVar)}, nil
			}
		}
		return nil, e.s.bad(st, "assignment %s outside the subset", e.s.str(st))
	case *ast.IfStmt:
		if t.Init != nil || t.Else != nil {
			return nil, e.s.bad(st, "if with init or else")
		}
		c, err := e.cond(t.Cond)
		if err != nil {
			return nil, err
		}
		if len(t.Body.List) != 1 {
			return nil, e.s.bad(st, "if body must be one statement")
		}
		v, val, ok := e.pure(t.Body.List[0])
		if !ok {
			return nil, e.s.bad(t.Body.List[0], "if body %s outside the subset", e.s.str(t.Body.List[0]))
		}
		note(v)
		return []string{fmt.Sprintf("let %s := if %s then %s else %s", v, c, val, v)}, nil
	case *ast.RangeStmt:
		if inLoop {
			return nil, e.s.bad(st, "nested loop")
		}
		k, ok := t.Key.(*ast.Ident)
		if !ok || t.Value != nil || t.Tok != token.DEFINE || !tiIsIdent(t.X, e.mapVar) {
			return nil, e.s.bad(st, "loop header %s outside the subset", e.s.str(t.X))
		}
		kn, err := e.name(k)
		if err != nil {
			return nil, err
		}
		if kn == e.mapVar || kn == e.slice || e.ints[kn] {
			return nil, e.s.bad(st, "range variable %s shadows a variable", kn)
		}
		e.keyVar = kn
		var body []string
		var upd []string
		for _, b := range t.Body.List {
			ls, err := e.stmt(b, true, &upd)
			if err != nil {
				return nil, err
			}
			body = append(body, ls...)
		}
		e.keyVar = ""
		if len(upd) == 0 {
			return nil, e.s.bad(st, "loop without effect")
		}
		var tys []string
		for _, u := range upd {
			note(u)
			if u == e.slice {
				tys = append(tys, "List String")
			} else {
				tys = append(tys, "Nat")
			}
		}
		pat := upd[0]
		ty := tys[0]
		if len(upd) > 1 {
			pat = "(" + strings.Join(upd, ", ") + ")"
			ty = strings.Join(tys, " × ")
		}
		out := []string{fmt.Sprintf("let %s ← %s.foldlM (fun (st : %s) %s => do", pat, e.mapVar, ty, kn)}
		out = append(out, "  let "+pat+" := st")
		for _, l := range body {
			out = append(out, "  "+l)
		}
		out = append(out, fmt.Sprintf("  pure %s) %s", pat, pat))
		return out, nil
	}
	return nil, e.s.bad(st, "statement %s outside the subset", e.s.str(st))
}

func genSortKeys(repo, out string) error {
	s := tiNew(repo)
	s.norm.keepIntShort = true // getSortedKeys declares its counter as `index := 0`
	const file = "cache.go"
	f, err := s.parse(file)
	if err != nil {
		return err
	}
	var fd *ast.FuncDecl
	for _, d := range f.Decls {
		if x, ok := d.(*ast.FuncDecl); ok && x.Name.Name == "getSortedKeys" {
			if fd != nil {
				return s.bad(x, "getSortedKeys declared twice")
			}
			fd = x
		}
	}
	if fd == nil {
		return s.badFile(file, "func getSortedKeys not found")
	}
	if fd.Recv != nil || fd.Body == nil || fd.Type.TypeParams != nil {
		return s.bad(fd, "getSortedKeys must be a plain function")
	}
	names, types := tiFlatParams(fd.Type.Params)
	if len(names) != 1 || names[0] == "" {
		return s.bad(fd, "getSortedKeys must take one named parameter")
	}
	mt, ok := types[0].(*ast.MapType)
	if !ok || !tiIsIdent(mt.Key, "string") || !tiIsEmptyIface(mt.Value) {
		return s.bad(fd, "parameter type must be map[string]interface{}")
	}
	_, rtypes := tiFlatParams(fd.Type.Results)
	if len(rtypes) != 1 {
		return s.bad(fd, "getSortedKeys must return one value")
	}
	if st, ok := rtypes[0].(*ast.StarExpr); !ok || !skIsStringSlice(st.X) {
		return s.bad(fd, "result type must be *sort.StringSlice")
	}
	e := &skEnv{s: s, ints: map[string]bool{}}
	e.mapVar, err = e.name(fd.Type.Params.List[0].Names[0])
	if err != nil {
		return err
	}
	list := fd.Body.List
	if len(list) == 0 {
		return s.bad(fd, "empty body")
	}
	var lines []string
	var upd []string
	for _, st := range list[:len(list)-1] {
		ls, err := e.stmt(st, false, &upd)
		if err != nil {
			return err
		}
		lines = append(lines, ls...)
	}
	ret, ok := list[len(list)-1].(*ast.ReturnStmt)
	if !ok || len(ret.Results) != 1 || e.slice == "" || !tiIsIdent(ret.Results[0], e.slice) {
		return s.bad(list[len(list)-1], "the last statement must return the slice variable")
	}
	lines = append(lines, "pure "+e.slice)

	hdr, err := s.header("sortkeys", []string{file},
		"`getSortedKeys` (cache.go), statement by statement. `"+e.mapVar+"`: the keys of the map in the order\n"+
			"`range` yields them; `pool`: the slice the pool hands out (its elements up to capacity);\n"+
			"`none`: a Go panic. Primitives: JPV/Lemmas/SortRt.lean.")
	if err != nil {
		return err
	}
	var b strings.Builder
	b.WriteString(hdr)
	b.WriteString("import JPV.Lemmas.SortRt\nset_option linter.unusedVariables false\nnamespace JPV\nnamespace Gen\nnamespace SortKeys\nopen JPV.SortRt\n\n")
	fmt.Fprintf(&b, "/-- %s:%d -/\n", file, s.line(fd))
	fmt.Fprintf(&b, "def getSortedKeys (%s : List String) (pool : List String) : Option (List String) := do\n", e.mapVar)
	for _, l := range lines {
		b.WriteString("  " + l + "\n")
	}
	b.WriteString("\nend SortKeys\nend Gen\nend JPV\n")
	return tiWrite(out, "SortKeys.lean", b.String())
}
