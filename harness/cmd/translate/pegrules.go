// pegrules.go: decompiler for the rule functions of jsonpath.peg.go (the `_rules = [...]func() bool{…}`
// table inside Init). jsonpath.peg.go is maintained by hand (no `peg` binary), so the CODE of every
// rule function is read back into the parsing expression it implements by matching the code
// templates of pointlander-peg (-inline -switch) structurally. Comments are not used, except that the
// `/* N name <- … */` comment in front of a table entry is cross-checked (number, name) and a
// disagreement is refused.
//
// Emits Gen/PegGoRules.lean:
//
//	def goRule_<name> : PE     one per non-nil table entry: the expression its code implements
//	def goGrammar : Grammar    those rules in table order
//	def goRuleNames            the whole `rul3s` table (without "Unknown")
//	def goInlinedRules         named rules whose table entry is nil (their bodies are inlined at every use)
//	def goEndSymbol            the end symbol `reset` appends to the buffer
//
// Templates (fail = label a failing test jumps to; save = `positionK, tokenIndexK := position, tokenIndex`;
// restore = `position, tokenIndex = positionK, tokenIndexK`, always the pair saved by the SAME block):
//
//	if !_rules[ruleX]() { goto fail }                                       rule X
//	if !matchDot() { goto fail }                                            .
//	if buffer[position] != rune('c') { goto fail }; position++              'c'
//	if c := buffer[position]; c < rune('a') || c > rune('z') { goto fail }; position++     [a-z]
//	{ add(ruleActionN, position) }                                          { action N }
//	{ positionK := position; e…; add(rulePegText, positionK) }              < e >
//	{ positionK := position; e…; add(ruleX, positionK) }                    the body of rule X, inlined
//	{ save; e1…(fail lA); goto lJ; lA: restore; e2…(fail lB); goto lJ; lB: restore; en…(fail outer) } lJ:   e1 / e2 / en
//	{ save; e…(fail lA); goto lJ; lA: restore } lJ:                         e?
//	lL: { save; e…(fail lA); goto lL; lA: restore }                         e*        (e+ is e e*)
//	{ save; e…(fail lA); goto fail; lA: restore }                           !e
//	{ save; e…(fail outer); restore }                                       &e
//	{ switch buffer[position] { case 'a', 'b': e1…; … default: en… } }      the switch optimisation:
//	       if the character is in the labels of case i run ei, otherwise en; NO other alternative is
//	       tried when ei fails. Emitted as  (&[labels1] e1) / … / (![all labels] en), which is exactly
//	       that (the guards are pairwise exclusive). Inside a `case` with labels the first character
//	       test of ei is elided to a bare `position++`: it is emitted as `.` (the character is one of
//	       the labels, hence not the end symbol).
//	a rule function:  memo check on memoKey{N, position}; save; { positionK := position; e…; add(rule<Name>, positionK) };
//	       memoize(N, saved pair, true); return true; [lF: memoize(N, saved pair, false); restore; return false]
//
// Fails closed: any other statement shape gives `untranslatable: jsonpath.peg.go:LINE: why`. The small
// runtime around the table (endSymbol, tokens32.Add/Trim, Parse, Reset, and everything in Init except
// the table: reset, parse, add, memoize, memoizedResult, matchDot) is compared with the text the Lean
// side was written against; a difference is refused as well.
// (The bodies of tokens32.Add/Trim/Tokens, reset, add, memoize, memoizedResult, matchDot are in addition TRANSLATED
// by pegruntime.go and proved in Props/PegRuntimeGen.lean; the pin stays for parse/Parse/Reset/Init and as a
// second, independent guard.)
package main

import (
	"bytes"
	"fmt"
	"go/ast"
	"go/parser"
	"go/printer"
	"go/token"
	"os"
	"path/filepath"
	"regexp"
	"sort"
	"strconv"
	"strings"
)

func init() { register("pegrules", genPegRules) }

type prDec struct {
	fset      *token.FileSet
	path      string
	ruleConst map[string]int // rule<Name> constant → value
	names     []string       // rul3s
	isFunc    []bool         // table entry is a function (not nil)
	usedRules map[string]bool
}

func (d *prDec) fail(pos token.Pos, why string) {
	panic(pegErr{fmt.Sprintf("untranslatable: %s:%d: %s", filepath.Base(d.path), d.fset.Position(pos).Line, why)})
}

func prIdent(e ast.Expr, name string) bool {
	id, ok := e.(*ast.Ident)
	return ok && id.Name == name
}

func prIdentName(e ast.Expr) string {
	if id, ok := e.(*ast.Ident); ok {
		return id.Name
	}
	return ``
}

// positionK / tokenIndexK with a decimal K
func prNumbered(name, prefix string) (string, bool) {
	if !strings.HasPrefix(name, prefix) {
		return ``, false
	}
	k := name[len(prefix):]
	return k, isDigits(k)
}

// save: positionK, tokenIndexK := position, tokenIndex
func prSavePair(st ast.Stmt) (pos, tok string, ok bool) {
	as, isAs := st.(*ast.AssignStmt)
	if !isAs || as.Tok != token.DEFINE || len(as.Lhs) != 2 || len(as.Rhs) != 2 {
		return
	}
	if !prIdent(as.Rhs[0], `position`) || !prIdent(as.Rhs[1], `tokenIndex`) {
		return
	}
	p, t := prIdentName(as.Lhs[0]), prIdentName(as.Lhs[1])
	kp, okp := prNumbered(p, `position`)
	kt, okt := prNumbered(t, `tokenIndex`)
	if !okp || !okt || kp != kt {
		return
	}
	return p, t, true
}

// positionK := position
func prSavePos(st ast.Stmt) (pos string, ok bool) {
	as, isAs := st.(*ast.AssignStmt)
	if !isAs || as.Tok != token.DEFINE || len(as.Lhs) != 1 || len(as.Rhs) != 1 || !prIdent(as.Rhs[0], `position`) {
		return
	}
	p := prIdentName(as.Lhs[0])
	if _, okp := prNumbered(p, `position`); !okp {
		return
	}
	return p, true
}

// restore: position, tokenIndex = positionK, tokenIndexK
func prRestore(st ast.Stmt) (pos, tok string, ok bool) {
	as, isAs := st.(*ast.AssignStmt)
	if !isAs || as.Tok != token.ASSIGN || len(as.Lhs) != 2 || len(as.Rhs) != 2 {
		return
	}
	if !prIdent(as.Lhs[0], `position`) || !prIdent(as.Lhs[1], `tokenIndex`) {
		return
	}
	p, t := prIdentName(as.Rhs[0]), prIdentName(as.Rhs[1])
	if p == `` || t == `` {
		return
	}
	return p, t, true
}

func prGoto(st ast.Stmt) (string, bool) {
	b, ok := st.(*ast.BranchStmt)
	if !ok || b.Tok != token.GOTO || b.Label == nil {
		return ``, false
	}
	return b.Label.Name, true
}

// f(a, b, …) as a statement, all arguments given back as expressions
func prCallStmt(st ast.Stmt, fn string) ([]ast.Expr, bool) {
	es, ok := st.(*ast.ExprStmt)
	if !ok {
		return nil, false
	}
	c, ok := es.X.(*ast.CallExpr)
	if !ok || !prIdent(c.Fun, fn) || c.Ellipsis != token.NoPos {
		return nil, false
	}
	return c.Args, true
}

// add(ruleX, arg)
func prAdd(st ast.Stmt) (rule, arg string, ok bool) {
	args, isCall := prCallStmt(st, `add`)
	if !isCall || len(args) != 2 {
		return
	}
	r, a := prIdentName(args[0]), prIdentName(args[1])
	if r == `` || a == `` {
		return
	}
	return r, a, true
}

func prUnlabel(st ast.Stmt) (string, ast.Stmt) {
	if ls, ok := st.(*ast.LabeledStmt); ok {
		return ls.Label.Name, ls.Stmt
	}
	return ``, st
}

// buffer[position]
func prBufferAtPosition(e ast.Expr) bool {
	ix, ok := e.(*ast.IndexExpr)
	return ok && prIdent(ix.X, `buffer`) && prIdent(ix.Index, `position`)
}

// rune('c') → c
func (d *prDec) runeConv(e ast.Expr) (rune, bool) {
	c, ok := e.(*ast.CallExpr)
	if !ok || !prIdent(c.Fun, `rune`) || len(c.Args) != 1 {
		return 0, false
	}
	return d.charLit(c.Args[0])
}

func (d *prDec) charLit(e ast.Expr) (rune, bool) {
	bl, ok := e.(*ast.BasicLit)
	if !ok || bl.Kind != token.CHAR {
		return 0, false
	}
	s, err := strconv.Unquote(bl.Value)
	if err != nil {
		return 0, false
	}
	rs := []rune(s)
	if len(rs) != 1 || rs[0] < 0 || rs[0] > 0x10FFFF || (rs[0] >= 0xD800 && rs[0] <= 0xDFFF) {
		return 0, false
	}
	return rs[0], true
}

// { goto L } as the whole body of an if without else
func prIfGoto(st *ast.IfStmt) (string, bool) {
	if st.Else != nil || len(st.Body.List) != 1 {
		return ``, false
	}
	return prGoto(st.Body.List[0])
}

func prIsPositionInc(st ast.Stmt) bool {
	inc, ok := st.(*ast.IncDecStmt)
	return ok && inc.Tok == token.INC && prIdent(inc.X, `position`)
}

func prSeqOf(items []*pegExpr, line int) *pegExpr {
	if len(items) == 1 {
		return items[0]
	}
	return &pegExpr{kind: pkSeq, kids: items, line: line}
}

// leaf: an `if … { goto fail }` test. consumed = number of statements used (1 or 2).
func (d *prDec) leaf(st *ast.IfStmt, stmts []ast.Stmt, i int, fail string) (*pegExpr, int) {
	line := d.fset.Position(st.Pos()).Line
	target, ok := prIfGoto(st)
	if !ok {
		d.fail(st.Pos(), `if statement is not of the form "if <test> { goto label }"`)
	}
	if fail == `` {
		d.fail(st.Pos(), `a failing test inside a rule function that has no failure label`)
	}
	if target != fail {
		d.fail(st.Pos(), fmt.Sprintf(`failing test jumps to %s, the failure label of the enclosing construct is %s`, target, fail))
	}
	needInc := func() {
		if i+1 >= len(stmts) || !prIsPositionInc(stmts[i+1]) {
			d.fail(st.Pos(), `character test is not followed by "position++"`)
		}
	}
	if st.Init == nil {
		// !_rules[ruleX]()  |  !matchDot()
		if un, isUn := st.Cond.(*ast.UnaryExpr); isUn && un.Op == token.NOT {
			call, isCall := un.X.(*ast.CallExpr)
			if !isCall || len(call.Args) != 0 {
				d.fail(st.Pos(), `unrecognised negated test`)
			}
			if prIdent(call.Fun, `matchDot`) {
				return &pegExpr{kind: pkAny, line: line}, 1
			}
			if ix, isIx := call.Fun.(*ast.IndexExpr); isIx && prIdent(ix.X, `_rules`) {
				rc := prIdentName(ix.Index)
				idx, known := d.ruleConst[rc]
				if !known || idx <= 0 || idx >= len(d.names) {
					d.fail(st.Pos(), `call of an unknown rule `+rc)
				}
				name := d.names[idx]
				if name == `PegText` || strings.HasPrefix(name, `Action`) {
					d.fail(st.Pos(), `call of the pseudo rule `+rc)
				}
				if !d.isFunc[idx] {
					d.fail(st.Pos(), `call of `+rc+` whose table entry is nil`)
				}
				d.usedRules[name] = true
				return &pegExpr{kind: pkRule, name: name, line: line}, 1
			}
			d.fail(st.Pos(), `unrecognised negated test`)
		}
		// buffer[position] != rune('c')
		if be, isBin := st.Cond.(*ast.BinaryExpr); isBin && be.Op == token.NEQ && prBufferAtPosition(be.X) {
			c, okc := d.runeConv(be.Y)
			if !okc {
				d.fail(st.Pos(), `character test against something that is not rune('c')`)
			}
			needInc()
			return &pegExpr{kind: pkLit, lit: []rune{c}, line: line}, 2
		}
		d.fail(st.Pos(), `unrecognised test`)
	}
	// c := buffer[position]; c < rune('a') || c > rune('z')
	as, isAs := st.Init.(*ast.AssignStmt)
	if !isAs || as.Tok != token.DEFINE || len(as.Lhs) != 1 || len(as.Rhs) != 1 || !prIdent(as.Lhs[0], `c`) || !prBufferAtPosition(as.Rhs[0]) {
		d.fail(st.Pos(), `unrecognised test initialiser (expected "c := buffer[position]")`)
	}
	or, isBin := st.Cond.(*ast.BinaryExpr)
	if !isBin || or.Op != token.LOR {
		d.fail(st.Pos(), `range test is not "c < rune(lo) || c > rune(hi)"`)
	}
	lt, isLt := or.X.(*ast.BinaryExpr)
	gt, isGt := or.Y.(*ast.BinaryExpr)
	if !isLt || !isGt || lt.Op != token.LSS || gt.Op != token.GTR || !prIdent(lt.X, `c`) || !prIdent(gt.X, `c`) {
		d.fail(st.Pos(), `range test is not "c < rune(lo) || c > rune(hi)"`)
	}
	lo, okLo := d.runeConv(lt.Y)
	hi, okHi := d.runeConv(gt.Y)
	if !okLo || !okHi {
		d.fail(st.Pos(), `range bounds are not rune('c') conversions`)
	}
	if lo > hi {
		d.fail(st.Pos(), `empty character range`)
	}
	needInc()
	return &pegExpr{kind: pkCls, ranges: []pegRange{{lo, hi}}, line: line}, 2
}

// seq: a statement list as a sequence. `trailing` is the statement that follows the list inside
// the same block (it may carry the join label of the last element); the label expected on it is
// returned. elide: the next leaf may be a bare `position++` (first test inside a labelled case).
func (d *prDec) seq(stmts []ast.Stmt, fail string, elide *bool) (items []*pegExpr, wantTrailing string) {
	pending := ``
	var pendingPos token.Pos
	for i := 0; i < len(stmts); {
		st := stmts[i]
		loop := ``
		for {
			ls, isL := st.(*ast.LabeledStmt)
			if !isL {
				break
			}
			if pending != `` && ls.Label.Name == pending {
				pending = ``
				st = ls.Stmt
				continue
			}
			if _, isBlock := ls.Stmt.(*ast.BlockStmt); isBlock && loop == `` {
				loop = ls.Label.Name
				st = ls.Stmt
				continue
			}
			d.fail(ls.Pos(), `label `+ls.Label.Name+` is not the join label of the preceding choice/option nor a loop label`)
		}
		if pending != `` {
			d.fail(pendingPos, `the statement after this choice/option does not carry its join label `+pending)
		}
		switch t := st.(type) {
		case *ast.EmptyStmt:
			if loop != `` {
				d.fail(st.Pos(), `label on an empty statement`)
			}
			i++
		case *ast.IfStmt:
			*elide = false
			pe, n := d.leaf(t, stmts, i, fail)
			items = append(items, pe)
			i += n
		case *ast.IncDecStmt:
			if !prIsPositionInc(t) {
				d.fail(st.Pos(), `unrecognised statement`)
			}
			if !*elide {
				d.fail(st.Pos(), `"position++" without a character test (allowed only as the first test inside a labelled case of the switch optimisation)`)
			}
			*elide = false
			items = append(items, &pegExpr{kind: pkAny, line: d.fset.Position(st.Pos()).Line})
			i++
		case *ast.BlockStmt:
			pe, join := d.block(t, loop, fail, elide)
			items = append(items, pe)
			pending, pendingPos = join, t.Pos()
			i++
		default:
			d.fail(st.Pos(), `unrecognised statement`)
		}
	}
	return items, pending
}

// body + trailing statement: the trailing statement must carry exactly the label the body asks for
func (d *prDec) seqWithTrailing(stmts []ast.Stmt, trailing ast.Stmt, fail string, elide *bool, what string) ([]*pegExpr, ast.Stmt) {
	items, want := d.seq(stmts, fail, elide)
	label, inner := prUnlabel(trailing)
	if label != want {
		if want == `` {
			d.fail(trailing.Pos(), `unexpected label `+label)
		}
		d.fail(trailing.Pos(), `the statement after the last choice/option does not carry its join label `+want)
	}
	if len(items) == 0 {
		d.fail(trailing.Pos(), `empty `+what)
	}
	return items, inner
}

func (d *prDec) block(b *ast.BlockStmt, loop string, fail string, elide *bool) (pe *pegExpr, join string) {
	line := d.fset.Position(b.Pos()).Line
	if len(b.List) == 0 {
		d.fail(b.Pos(), `empty block`)
	}
	first := b.List[0]
	// { switch … }
	if sw, ok := first.(*ast.SwitchStmt); ok {
		if loop != `` || len(b.List) != 1 {
			d.fail(b.Pos(), `switch block with a label or further statements`)
		}
		*elide = false
		return d.switchStmt(sw, fail), ``
	}
	// { add(ruleActionN, position) }
	if r, a, ok := prAdd(first); ok && len(b.List) == 1 {
		if loop != `` {
			d.fail(b.Pos(), `label on an action block`)
		}
		if !strings.HasPrefix(r, `ruleAction`) || !isDigits(r[len(`ruleAction`):]) {
			d.fail(b.Pos(), `lone add() of something that is not an action`)
		}
		if a != `position` {
			d.fail(b.Pos(), `action token not added at "position"`)
		}
		if _, known := d.ruleConst[r]; !known {
			d.fail(b.Pos(), `unknown action `+r)
		}
		n, _ := strconv.Atoi(r[len(`ruleAction`):])
		*elide = false
		return &pegExpr{kind: pkAct, idx: n, line: line}, ``
	}
	// { positionK := position; …; add(X, positionK) }
	if pv, ok := prSavePos(first); ok {
		if loop != `` {
			d.fail(b.Pos(), `label on a capture/inlined-rule block`)
		}
		if len(b.List) < 2 {
			d.fail(b.Pos(), `capture/inlined-rule block without add()`)
		}
		last := b.List[len(b.List)-1]
		items, inner := d.seqWithTrailing(b.List[1:len(b.List)-1], last, fail, elide, `capture/inlined rule`)
		r, a, isAdd := prAdd(inner)
		if !isAdd {
			d.fail(last.Pos(), `block that saves only the position does not end with add(rule, saved position)`)
		}
		if a != pv {
			d.fail(last.Pos(), fmt.Sprintf(`add(%s, %s): the block saved %s`, r, a, pv))
		}
		if r == `rulePegText` {
			return &pegExpr{kind: pkCap, kids: []*pegExpr{prSeqOf(items, line)}, line: line}, ``
		}
		idx, known := d.ruleConst[r]
		if !known || idx <= 0 || idx >= len(d.names) || strings.HasPrefix(d.names[idx], `Action`) {
			d.fail(last.Pos(), `add() of an unknown rule `+r)
		}
		// an inlined rule: its body, grouped
		return prSeqOf(items, line), ``
	}
	// { save; … }
	pv, tv, ok := prSavePair(first)
	if !ok {
		d.fail(b.Pos(), `unrecognised block (does not start with a position save, an action or a switch)`)
	}
	*elide = false
	rest := b.List[1:]
	type segment struct {
		stmts []ast.Stmt
		label string // label of the restore that ends the segment's failure path
	}
	var segs []segment
	start := 0
	for i, st := range rest {
		label, inner := prUnlabel(st)
		if label == `` {
			continue
		}
		p, t, isR := prRestore(inner)
		if !isR {
			continue
		}
		if p != pv || t != tv {
			d.fail(st.Pos(), fmt.Sprintf(`restores %s, %s inside the block that saved %s, %s`, p, t, pv, tv))
		}
		segs = append(segs, segment{rest[start:i], label})
		start = i + 1
	}
	tail := rest[start:]
	noElide := func() *bool { f := false; return &f }
	if len(segs) == 0 {
		// &e : { save; e…; restore }
		if loop != `` || len(tail) < 2 {
			d.fail(b.Pos(), `unrecognised block with a position/tokenIndex save`)
		}
		last := tail[len(tail)-1]
		items, inner := d.seqWithTrailing(tail[:len(tail)-1], last, fail, noElide(), `lookahead`)
		p, t, isR := prRestore(inner)
		if !isR {
			d.fail(last.Pos(), `block with a position/tokenIndex save has no restore`)
		}
		if p != pv || t != tv {
			d.fail(last.Pos(), fmt.Sprintf(`restores %s, %s inside the block that saved %s, %s`, p, t, pv, tv))
		}
		return &pegExpr{kind: pkAnd, kids: []*pegExpr{prSeqOf(items, line)}, line: line}, ``
	}
	var kids []*pegExpr
	var targets []string
	for _, sg := range segs {
		if len(sg.stmts) < 2 {
			d.fail(b.Pos(), `alternative without statements before `+sg.label)
		}
		last := sg.stmts[len(sg.stmts)-1]
		items, inner := d.seqWithTrailing(sg.stmts[:len(sg.stmts)-1], last, sg.label, noElide(), `alternative`)
		target, isGoto := prGoto(inner)
		if !isGoto {
			d.fail(last.Pos(), `the success path of an alternative does not end with goto`)
		}
		kids = append(kids, prSeqOf(items, d.fset.Position(sg.stmts[0].Pos()).Line))
		targets = append(targets, target)
	}
	if len(tail) == 0 {
		if len(segs) != 1 {
			d.fail(b.Pos(), `several alternatives followed by an empty one`)
		}
		switch {
		case loop != ``:
			if targets[0] != loop {
				d.fail(b.Pos(), fmt.Sprintf(`labelled block %s whose success path jumps to %s`, loop, targets[0]))
			}
			return &pegExpr{kind: pkStar, kids: kids, line: line}, ``
		case targets[0] == fail:
			return &pegExpr{kind: pkNot, kids: kids, line: line}, ``
		default:
			return &pegExpr{kind: pkOpt, kids: kids, line: line}, targets[0]
		}
	}
	if loop != `` {
		d.fail(b.Pos(), `label on a choice block`)
	}
	for _, t := range targets {
		if t != targets[0] {
			d.fail(b.Pos(), `the alternatives of a choice jump to different labels on success`)
		}
		if t == fail {
			d.fail(b.Pos(), `an alternative of a choice jumps to the failure label on success`)
		}
	}
	lastItems, want := d.seq(tail, fail, noElide())
	if want != `` {
		d.fail(tail[len(tail)-1].Pos(), `the last alternative ends with a choice/option whose join label `+want+` is missing`)
	}
	if len(lastItems) == 0 {
		d.fail(b.Pos(), `empty last alternative`)
	}
	kids = append(kids, prSeqOf(lastItems, d.fset.Position(tail[0].Pos()).Line))
	return &pegExpr{kind: pkAlt, kids: kids, line: line}, targets[0]
}

func prRanges(chars []rune) []pegRange {
	cs := append([]rune(nil), chars...)
	sort.Slice(cs, func(i, j int) bool { return cs[i] < cs[j] })
	var out []pegRange
	for _, c := range cs {
		if n := len(out); n > 0 && out[n-1].hi+1 == c {
			out[n-1].hi = c
		} else {
			out = append(out, pegRange{c, c})
		}
	}
	return out
}

func (d *prDec) switchStmt(sw *ast.SwitchStmt, fail string) *pegExpr {
	line := d.fset.Position(sw.Pos()).Line
	if sw.Init != nil || !prBufferAtPosition(sw.Tag) {
		d.fail(sw.Pos(), `switch is not on buffer[position]`)
	}
	n := len(sw.Body.List)
	if n < 2 {
		d.fail(sw.Pos(), `switch with fewer than two clauses`)
	}
	seen := map[rune]bool{}
	var all []rune
	var kids []*pegExpr
	for i, st := range sw.Body.List {
		cc := st.(*ast.CaseClause)
		cline := d.fset.Position(cc.Pos()).Line
		if cc.List == nil {
			if i != n-1 {
				d.fail(cc.Pos(), `default clause is not the last one`)
			}
			f := false
			items, want := d.seq(cc.Body, fail, &f)
			if want != `` || len(items) == 0 {
				d.fail(cc.Pos(), `default clause is empty or ends with a choice whose join label is missing`)
			}
			guard := &pegExpr{kind: pkNot, kids: []*pegExpr{{kind: pkCls, ranges: prRanges(all), line: cline}}, line: cline}
			kids = append(kids, &pegExpr{kind: pkSeq, kids: []*pegExpr{guard, prSeqOf(items, cline)}, line: cline})
			continue
		}
		if i == n-1 {
			d.fail(cc.Pos(), `switch without default clause`)
		}
		var chars []rune
		for _, e := range cc.List {
			c, ok := d.charLit(e)
			if !ok {
				d.fail(e.Pos(), `case label is not a character literal`)
			}
			if seen[c] {
				d.fail(e.Pos(), `character appears in two case labels`)
			}
			seen[c] = true
			chars = append(chars, c)
			all = append(all, c)
		}
		t := true
		items, want := d.seq(cc.Body, fail, &t)
		if want != `` || len(items) == 0 {
			d.fail(cc.Pos(), `case clause is empty or ends with a choice whose join label is missing`)
		}
		guard := &pegExpr{kind: pkAnd, kids: []*pegExpr{{kind: pkCls, ranges: prRanges(chars), line: cline}}, line: cline}
		kids = append(kids, &pegExpr{kind: pkSeq, kids: []*pegExpr{guard, prSeqOf(items, cline)}, line: cline})
	}
	return &pegExpr{kind: pkAlt, kids: kids, line: line}
}

// uint literal
func prIntLit(e ast.Expr) (int, bool) {
	bl, ok := e.(*ast.BasicLit)
	if !ok || bl.Kind != token.INT {
		return 0, false
	}
	n, err := strconv.Atoi(bl.Value)
	return n, err == nil
}

// memoize(N, positionA, tokenIndexA, matched)
func (d *prDec) checkMemoize(st ast.Stmt, number int, pv, tv string, matched string) {
	args, ok := prCallStmt(st, `memoize`)
	if !ok || len(args) != 4 {
		d.fail(st.Pos(), `expected memoize(number, saved position, saved tokenIndex, `+matched+`)`)
	}
	n, okN := prIntLit(args[0])
	if !okN || n != number {
		d.fail(st.Pos(), fmt.Sprintf(`memoize with a number other than the rule's own (%d)`, number))
	}
	if !prIdent(args[1], pv) || !prIdent(args[2], tv) {
		d.fail(st.Pos(), fmt.Sprintf(`memoize does not use the pair saved at rule entry (%s, %s)`, pv, tv))
	}
	if !prIdent(args[3], matched) {
		d.fail(st.Pos(), `memoize records the wrong outcome (expected `+matched+`)`)
	}
}

func prReturnsIdent(st ast.Stmt, name string) bool {
	r, ok := st.(*ast.ReturnStmt)
	return ok && len(r.Results) == 1 && prIdent(r.Results[0], name)
}

// one rule function; index = its position in the table (= value of rule<Name>), number = index-1
func (d *prDec) ruleFunc(fl *ast.FuncLit, index int) *pegExpr {
	name := d.names[index]
	number := index - 1
	if fl.Type.Params != nil && len(fl.Type.Params.List) != 0 {
		d.fail(fl.Pos(), `rule function with parameters`)
	}
	body := fl.Body.List
	if len(body) != 5 && len(body) != 8 {
		d.fail(fl.Pos(), fmt.Sprintf(`rule function has %d top-level statements (expected 5, or 8 with a failure path)`, len(body)))
	}
	// if memoized, ok := memoization[memoKey{N, position}]; ok { return memoizedResult(memoized) }
	memoOK := false
	if is, ok := body[0].(*ast.IfStmt); ok && is.Else == nil && prIdent(is.Cond, `ok`) && len(is.Body.List) == 1 {
		if as, ok := is.Init.(*ast.AssignStmt); ok && as.Tok == token.DEFINE && len(as.Lhs) == 2 && len(as.Rhs) == 1 &&
			prIdent(as.Lhs[0], `memoized`) && prIdent(as.Lhs[1], `ok`) {
			if ix, ok := as.Rhs[0].(*ast.IndexExpr); ok && prIdent(ix.X, `memoization`) {
				if cl, ok := ix.Index.(*ast.CompositeLit); ok && prIdent(cl.Type, `memoKey`) && len(cl.Elts) == 2 && prIdent(cl.Elts[1], `position`) {
					n, okN := prIntLit(cl.Elts[0])
					if !okN || n != number {
						d.fail(body[0].Pos(), fmt.Sprintf(`memo lookup with a number other than the rule's own (%d)`, number))
					}
					if rs, ok := is.Body.List[0].(*ast.ReturnStmt); ok && len(rs.Results) == 1 {
						if c, ok := rs.Results[0].(*ast.CallExpr); ok && prIdent(c.Fun, `memoizedResult`) && len(c.Args) == 1 && prIdent(c.Args[0], `memoized`) {
							memoOK = true
						}
					}
				}
			}
		}
	}
	if !memoOK {
		d.fail(body[0].Pos(), `rule function does not start with the memo lookup "if memoized, ok := memoization[memoKey{N, position}]; ok { return memoizedResult(memoized) }"`)
	}
	pv, tv, ok := prSavePair(body[1])
	if !ok {
		d.fail(body[1].Pos(), `rule function does not save "position, tokenIndex" after the memo lookup`)
	}
	blk, ok := body[2].(*ast.BlockStmt)
	if !ok || len(blk.List) < 2 {
		d.fail(body[2].Pos(), `rule function body is not a block`)
	}
	bpv, ok := prSavePos(blk.List[0])
	if !ok {
		d.fail(blk.Pos(), `rule body block does not start with "positionK := position"`)
	}
	fail := ``
	if len(body) == 8 {
		label, inner := prUnlabel(body[5])
		if label == `` {
			d.fail(body[5].Pos(), `failure path without label`)
		}
		fail = label
		d.checkMemoize(inner, number, pv, tv, `false`)
		p, t, isR := prRestore(body[6])
		if !isR || p != pv || t != tv {
			d.fail(body[6].Pos(), fmt.Sprintf(`failure path does not restore the pair saved at rule entry (%s, %s)`, pv, tv))
		}
		if !prReturnsIdent(body[7], `false`) {
			d.fail(body[7].Pos(), `failure path does not end with "return false"`)
		}
	}
	d.checkMemoize(body[3], number, pv, tv, `true`)
	if !prReturnsIdent(body[4], `true`) {
		d.fail(body[4].Pos(), `success path does not end with "return true"`)
	}
	last := blk.List[len(blk.List)-1]
	f := false
	items, inner := d.seqWithTrailing(blk.List[1:len(blk.List)-1], last, fail, &f, `rule body`)
	r, a, isAdd := prAdd(inner)
	if !isAdd || r != `rule`+name {
		d.fail(last.Pos(), `rule body does not end with add(rule`+name+`, …)`)
	}
	if a != bpv {
		d.fail(last.Pos(), fmt.Sprintf(`add(%s, %s): the position saved at rule entry is %s`, r, a, bpv))
	}
	return prSeqOf(items, d.fset.Position(fl.Pos()).Line)
}

var prCommentRE = regexp.MustCompile(`^/\* (\d+) ([A-Za-z_][A-Za-z0-9_]*) <-`)

// ---------------------------------------------------------------- the runtime around the table

func prPrint(fset *token.FileSet, n ast.Node) string {
	var b bytes.Buffer
	_ = printer.Fprint(&b, fset, n)
	return normWS(b.String())
}

// the texts the Lean statements were written against (whitespace-normalised, comments dropped)
var prRuntimeWant = map[string]string{
	`endSymbol`: `const endSymbol rune = 1114112`,
	`memo`:      `type memo struct { Matched bool Partial []token32 }`,
	`memoKey`:   `type memoKey struct { Rule uint32 Position uint32 }`,
	`token32`:   `type token32 struct { pegRule begin, end uint32 }`,
	// Since L30 only the SKELETON of Init is pinned: the bodies of its closures (and tokens32.Add/Trim/Tokens, Parse, Reset)
	// are translated by `pegruntime` and what they do is proved (Props/PegRuntimeGen, RunGoGen, RunGoParse).
	`Init`: `var ( max token32 position, tokenIndex uint32 buffer []rune memoization map[memoKey]memo ) ` +
		`for _, option := range options { err := option(p) if err != nil { return err } } ` +
		`p.reset = <closure> ` +
		`p.reset() ` +
		`_rules := p.rules ` +
		`tree := p.tokens32 ` +
		`p.parse = <closure> ` +
		`add := <closure> ` +
		`memoize := <closure> ` +
		`memoizedResult := <closure> ` +
		`matchDot := <closure> ` +
		`<_rules> ` +
		`p.rules = _rules ` +
		`return nil`,
}

func prIsClosure(e ast.Expr) bool { _, ok := e.(*ast.FuncLit); return ok }

func (d *prDec) checkRuntime(file *ast.File, initFn *ast.FuncDecl, table ast.Stmt) {
	got := map[string]string{}
	pos := map[string]token.Pos{}
	for _, decl := range file.Decls {
		switch t := decl.(type) {
		case *ast.FuncDecl:
			if t.Recv != nil && len(t.Recv.List) == 1 {
				recv := ``
				if st, ok := t.Recv.List[0].Type.(*ast.StarExpr); ok {
					recv = prIdentName(st.X)
				}
				key := recv + `.` + t.Name.Name
				if _, want := prRuntimeWant[key]; want {
					cp := *t
					cp.Doc = nil
					got[key], pos[key] = prPrint(d.fset, &cp), t.Pos()
				}
			}
		case *ast.GenDecl:
			for _, s := range t.Specs {
				switch sp := s.(type) {
				case *ast.ValueSpec:
					if t.Tok == token.CONST && len(sp.Names) == 1 && sp.Names[0].Name == `endSymbol` {
						cp := *sp
						cp.Doc, cp.Comment = nil, nil
						got[`endSymbol`], pos[`endSymbol`] = `const `+prPrint(d.fset, &cp), sp.Pos()
					}
				case *ast.TypeSpec:
					if _, want := prRuntimeWant[sp.Name.Name]; want {
						cp := *sp
						cp.Doc, cp.Comment = nil, nil
						got[sp.Name.Name], pos[sp.Name.Name] = `type `+prPrint(d.fset, &cp), sp.Pos()
					}
				}
			}
		}
	}
	var parts []string
	for _, st := range initFn.Body.List {
		if st == table {
			parts = append(parts, `<_rules>`)
		} else if as, ok := st.(*ast.AssignStmt); ok && len(as.Lhs) == 1 && len(as.Rhs) == 1 && prIsClosure(as.Rhs[0]) {
			// translated by pegruntime (which also checks which names are bound this way and with which signature)
			parts = append(parts, prPrint(d.fset, as.Lhs[0])+` `+as.Tok.String()+` <closure>`)
		} else {
			parts = append(parts, prPrint(d.fset, st))
		}
	}
	got[`Init`], pos[`Init`] = strings.Join(parts, ` `), initFn.Pos()
	keys := make([]string, 0, len(prRuntimeWant))
	for k := range prRuntimeWant {
		keys = append(keys, k)
	}
	sort.Strings(keys)
	for _, k := range keys {
		g, ok := got[k]
		if !ok {
			d.fail(file.Pos(), `runtime piece `+k+` not found`)
		}
		if g != prRuntimeWant[k] {
			d.fail(pos[k], `runtime piece `+k+` differs from the text the Lean statements were written against`)
		}
	}
}

// ---------------------------------------------------------------- generator

func genPegRules(repo, out string) (err error) {
	defer func() {
		if x := recover(); x != nil {
			if pe, ok := x.(pegErr); ok {
				err = fmt.Errorf("%s", pe.msg)
				return
			}
			panic(x)
		}
	}()
	path := filepath.Join(repo, `jsonpath.peg.go`)
	src, rerr := os.ReadFile(path)
	if rerr != nil {
		return rerr
	}
	fset := token.NewFileSet()
	file, perr := parser.ParseFile(fset, path, src, parser.ParseComments)
	if perr != nil {
		return fmt.Errorf("untranslatable: %s:1: does not parse: %v", filepath.Base(path), perr)
	}
	d := &prDec{fset: fset, path: path, ruleConst: map[string]int{}, usedRules: map[string]bool{}}

	// the constants rule<Name> (one iota block of type pegRule) and the name table rul3s
	var initFn *ast.FuncDecl
	var rul3s *ast.CompositeLit
	for _, decl := range file.Decls {
		switch t := decl.(type) {
		case *ast.FuncDecl:
			if t.Name.Name == `Init` && t.Recv != nil {
				if initFn != nil {
					d.fail(t.Pos(), `two Init methods`)
				}
				initFn = t
			}
		case *ast.GenDecl:
			if t.Tok == token.CONST && len(t.Specs) > 1 {
				if vs, ok := t.Specs[0].(*ast.ValueSpec); ok && len(vs.Names) == 1 && vs.Names[0].Name == `ruleUnknown` {
					if !prIdent(vs.Type, `pegRule`) || len(vs.Values) != 1 || !prIdent(vs.Values[0], `iota`) {
						d.fail(vs.Pos(), `ruleUnknown is not "pegRule = iota"`)
					}
					for i, s := range t.Specs {
						sp := s.(*ast.ValueSpec)
						if len(sp.Names) != 1 || (i > 0 && (sp.Type != nil || len(sp.Values) != 0)) {
							d.fail(sp.Pos(), `rule constant block is not a plain iota enumeration`)
						}
						if _, dup := d.ruleConst[sp.Names[0].Name]; dup {
							d.fail(sp.Pos(), `duplicate rule constant`)
						}
						d.ruleConst[sp.Names[0].Name] = i
					}
				}
			}
			for _, s := range t.Specs {
				if vs, ok := s.(*ast.ValueSpec); ok && len(vs.Names) == 1 && vs.Names[0].Name == `rul3s` && len(vs.Values) == 1 {
					if cl, ok := vs.Values[0].(*ast.CompositeLit); ok {
						rul3s = cl
					}
				}
			}
		}
	}
	if initFn == nil || initFn.Body == nil {
		d.fail(file.Pos(), `no Init method`)
	}
	if rul3s == nil || len(d.ruleConst) == 0 {
		d.fail(file.Pos(), `no rul3s table or no rule constants`)
	}
	for i, e := range rul3s.Elts {
		bl, ok := e.(*ast.BasicLit)
		if !ok || bl.Kind != token.STRING {
			d.fail(e.Pos(), `rul3s entry is not a string literal`)
		}
		s, uerr := strconv.Unquote(bl.Value)
		if uerr != nil {
			d.fail(e.Pos(), `rul3s entry does not unquote`)
		}
		if v, ok := d.ruleConst[`rule`+s]; !ok || v != i {
			d.fail(e.Pos(), fmt.Sprintf(`rul3s[%d] = %q but the constant rule%s does not have the value %d`, i, s, s, i))
		}
		d.names = append(d.names, s)
	}
	if len(d.names) != len(d.ruleConst) {
		d.fail(rul3s.Pos(), `rul3s and the rule constants differ in number`)
	}

	// the table: the one assignment `_rules = [...]func() bool{…}` at the top level of Init
	var table *ast.CompositeLit
	var tableStmt ast.Stmt
	for _, st := range initFn.Body.List {
		as, ok := st.(*ast.AssignStmt)
		if !ok || as.Tok != token.ASSIGN || len(as.Lhs) != 1 || len(as.Rhs) != 1 || !prIdent(as.Lhs[0], `_rules`) {
			continue
		}
		cl, ok := as.Rhs[0].(*ast.CompositeLit)
		if !ok || table != nil {
			d.fail(st.Pos(), `unexpected assignment to _rules`)
		}
		if at, ok := cl.Type.(*ast.ArrayType); !ok || prPrint(fset, at) != `[...]func() bool` {
			d.fail(st.Pos(), `_rules is not a [...]func() bool literal`)
		}
		table, tableStmt = cl, st
	}
	if table == nil {
		d.fail(initFn.Pos(), `no "_rules = [...]func() bool{…}" in Init`)
	}
	if len(table.Elts) != len(d.names) {
		d.fail(table.Pos(), fmt.Sprintf(`the table has %d entries, rul3s has %d`, len(table.Elts), len(d.names)))
	}
	d.checkRuntime(file, initFn, tableStmt)

	d.isFunc = make([]bool, len(table.Elts))
	for i, e := range table.Elts {
		switch t := e.(type) {
		case *ast.FuncLit:
			d.isFunc[i] = true
			name := d.names[i]
			if i == 0 || name == `PegText` || strings.HasPrefix(name, `Action`) {
				d.fail(e.Pos(), `function in the table entry of the pseudo rule `+name)
			}
		case *ast.Ident:
			if t.Name != `nil` {
				d.fail(e.Pos(), `table entry is neither nil nor a function literal`)
			}
		default:
			d.fail(e.Pos(), `table entry is neither nil nor a function literal`)
		}
	}
	if !d.isFunc[1] {
		d.fail(table.Pos(), `the start rule has no function`)
	}

	// comments in front of the entries: cross-check only
	for i, e := range table.Elts {
		lo := table.Lbrace
		if i > 0 {
			lo = table.Elts[i-1].End()
		}
		for _, cg := range file.Comments {
			for _, c := range cg.List {
				if c.Pos() <= lo || c.End() > e.Pos() {
					continue
				}
				m := prCommentRE.FindStringSubmatch(c.Text)
				if m == nil {
					continue
				}
				n, _ := strconv.Atoi(m[1])
				if m[2] != d.names[i] {
					d.fail(c.Pos(), fmt.Sprintf(`comment names rule %s, table entry %d is %s`, m[2], i, d.names[i]))
				}
				if d.isFunc[i] && n != i-1 {
					d.fail(c.Pos(), fmt.Sprintf(`comment numbers the rule %d, its function memoizes under %d`, n, i-1))
				}
			}
		}
	}

	type decompiled struct {
		name string
		line int
		body *pegExpr
	}
	var rules []decompiled
	for i, e := range table.Elts {
		if fl, ok := e.(*ast.FuncLit); ok {
			rules = append(rules, decompiled{d.names[i], fset.Position(fl.Pos()).Line, d.ruleFunc(fl, i)})
		}
	}

	var b strings.Builder
	b.WriteString("/- GENERATED by harness/cmd/translate (pegrules.go) from the rule functions of jsonpath.peg.go — do not edit.\n\n")
	b.WriteString("Every `goRule_<name>` is the parsing expression the CODE of the rule function implements (template\n")
	b.WriteString("matching, comments not used). Bodies of rules whose table entry is nil appear inlined where they are\n")
	b.WriteString("used; the switch optimisation appears as `(&[labels] e) / … / (![all labels] e_default)`.\n\n")
	b.WriteString("Checked by the generator (refused otherwise): every failing test jumps to the failure label of its\n")
	b.WriteString("construct and that label restores exactly the `position, tokenIndex` pair the construct saved; each rule\n")
	b.WriteString("function looks up and stores its memo entry under its own number (table index − 1) with the pair saved at\n")
	b.WriteString("entry; `add(rule<Name>, positionK)` uses the position saved at entry and is the last token added before\n")
	b.WriteString("`memoize(…, true)`; the constants `rule<Name>`, the table `rul3s` and the function order agree; the\n")
	b.WriteString("`/* N name <- */` comments agree with that; of the runtime around the table only endSymbol, the types token32 /\n")
	b.WriteString("memo / memoKey and the SKELETON of Init (its variables, the option loop, which closures are bound in which order,\n")
	b.WriteString("`p.reset()`, `_rules := p.rules`, `tree := p.tokens32`, `p.rules = _rules`) still have a pinned text; the bodies of\n")
	b.WriteString("tokens32.Add/Trim/Tokens, Parse, Reset and of the closures reset, parse, add, memoize, memoizedResult, matchDot\n")
	b.WriteString("are translated by generator `pegruntime` (a text change there no longer makes THIS generator refuse: it changes\n")
	b.WriteString("Gen/PegRuntimeGo.lean, and the theorems of Props/PegRuntimeGen, RunGoGen, RunGoParse decide).\n\n")
	b.WriteString("What the runtime means for `Peg.run`. The LOCAL claims below about tokens32.Add/Trim/Tokens, reset, add, memoize,\n")
	b.WriteString("memoizedResult and matchDot are no longer only read: generator `pegruntime` translates those bodies statement by\n")
	b.WriteString("statement (Gen/PegRuntimeGo.lean) and Props/PegRuntimeGen.lean proves them (named in brackets). What remains the\n")
	b.WriteString("trusted reading (stated, not proved; text pinned here): the option loop and the skeleton of Init. `parse`/`Parse`/\n")
	b.WriteString("`Reset` are translated too and Props/RunGoParse.lean proves `RG_Parse_is_recognise`: the translated `Parse()` with\n")
	b.WriteString("the rule functions run on this runtime returns nil and publishes exactly the tokens of the grammar's recogniser. The\n")
	b.WriteString("COMPOSITION — that the rule functions running on this runtime compute `Peg.run` — is proved (Peg/RunGo.lean\n")
	b.WriteString("`runGo`, Props/RunGoGen.lean `RG_*`): with memoisation off, and with the table in use (`RG_memo_full_holds`,\n")
	b.WriteString("`RG_go_parse_memo`: every stored entry is what a rerun of that rule at that position answers, hence the cache is\n")
	b.WriteString("transparent); C17 also validates it four-way per string (request `gorun`).\n")
	b.WriteString("  * reset: buffer = []rune(Buffer) ++ [endSymbol] (a string never decodes to 1114112, so the end symbol\n")
	b.WriteString("    occurs exactly at index len); position, tokenIndex = 0, 0; the memo table is emptied. `input[pos]? = none`\n")
	b.WriteString("    of the Lean model is `buffer[position] == endSymbol`; no test reads past it because every test that\n")
	b.WriteString("    advances `position` first compares `buffer[position]` with something that is not the end symbol. [PR_reset]\n")
	b.WriteString("  * matchDot = `.` [PR_matchDot]; a bare `position++` occurs only under a case label (a real character).\n")
	b.WriteString("  * add(rule, begin) writes token (rule, begin, position) at index tokenIndex (append or overwrite, never a\n")
	b.WriteString("    gap: tokenIndex ≤ len(tree) is invariant) and increments tokenIndex [PR_add, PR_tokens32_Add]; restoring tokenIndex discards the\n")
	b.WriteString("    tokens of a failed alternative; Parse trims to tokenIndex. `Peg.run` returns the tokens of kind\n")
	b.WriteString("    PegText/Action<N> in that order; tokens of named rules are ignored by Execute() and left out.\n")
	b.WriteString("  * memoize/memoizedResult: the memo table is a pure cache. Invariant that makes it transparent: a rule\n")
	b.WriteString("    function is a deterministic function of (buffer, position) — it never reads tokens below the entry\n")
	b.WriteString("    tokenIndex nor `max` — so an entry stored under (own number, entry position) holds exactly the outcome\n")
	b.WriteString("    and the token segment [entry tokenIndex, exit tokenIndex) a rerun would produce; numbers are distinct per\n")
	b.WriteString("    function; the table lives as long as the buffer (both replaced in reset). memoizedResult takes the new\n")
	b.WriteString("    position from the LAST stored token: correct because the last token of every successful run is\n")
	b.WriteString("    add(rule<Name>, …) whose end is the exit position (so Partial is never empty) [PR_memo_roundtrip_true/false,\n")
	b.WriteString("    PR_add_memo_position, PR_memo_frame_*: the replay restores segment, tokenIndex and position; other keys and the\n")
	b.WriteString("    other closures leave the table alone]. `max` (error position of\n")
	b.WriteString("    parseError) can differ with the cache; jsonpath.go ignores the error of Parse().\n-/\n")
	b.WriteString("import JPV.Peg.Peg\nnamespace JPV.Gen\nopen JPV.Peg\n\n")
	for _, r := range rules {
		fmt.Fprintf(&b, "/-- jsonpath.peg.go:%d -/\ndef goRule_%s : PE :=\n  %s\n\n", r.line, r.name, leanPE(r.body))
	}
	b.WriteString("/-- the rule functions of the table, in table order -/\ndef goGrammar : Grammar := [\n")
	for i, r := range rules {
		sep := `,`
		if i == len(rules)-1 {
			sep = ``
		}
		fmt.Fprintf(&b, "  (%s, goRule_%s)%s\n", leanString(r.name), r.name, sep)
	}
	b.WriteString("]\n\n")
	var all, inlined []string
	for i, n := range d.names {
		if i == 0 {
			continue
		}
		all = append(all, leanString(n))
		if !d.isFunc[i] && n != `PegText` && !strings.HasPrefix(n, `Action`) {
			inlined = append(inlined, leanString(n))
		}
	}
	b.WriteString("/-- `rul3s` without \"Unknown\" (= the constants rule<Name> from 1 on) -/\ndef goRuleNames : List String := [" + strings.Join(all, `, `) + "]\n\n")
	b.WriteString("/-- named rules without a function: inlined at every use -/\ndef goInlinedRules : List String := [" + strings.Join(inlined, `, `) + "]\n\n")
	b.WriteString("/-- `const endSymbol rune`: one more than the largest code point -/\ndef goEndSymbol : Nat := 1114112\n\n")
	b.WriteString("end JPV.Gen\n")
	return os.WriteFile(filepath.Join(out, `PegGoRules.lean`), []byte(b.String()), 0o644)
}
